import json, os, sys
sys.path.insert(0, os.path.dirname(os.path.abspath(__file__)))
from props import PROPS
V = os.path.dirname(os.path.dirname(os.path.abspath(__file__)))
props = [json.loads(l) for l in open(os.path.join(V, "properties.jsonl"))]
NA = {}
try:
    NA = json.load(open(os.path.join(V, "lib", "not_applicable.json")))
except Exception:
    pass
hooks = json.load(open(os.path.join(V, "lib", "hooks.json")))
checks = []
for p in props:
    i = p["id"]
    if i not in PROPS:
        continue
    c = PROPS[i]
    checks.append({
        "property_id": i,
        "quick_cmd": "bin/check %s --tier quick" % i,
        "thorough_cmd": "bin/check %s --tier thorough" % i,
        "evidence_file": "/verif/evidence/%s.json" % i,
        "replay_cmd_template": "bin/check %s --replay {path}" % i,
        "engine": "verifdrv",
        "level_claimed": {"category": c["level"], "text": c["claim"], "design_ref": "DESIGN.md section 3, " + i},
        "level_note": c["note"],
        "technique": c["technique"],
    })
m = {
    "version": 1,
    "setup_cmd": "bin/setup",
    "hooks": hooks,
    "engines": [{"name": "verifdrv", "path": "bin/check", "serves_properties": sorted(PROPS),
                 "kind_free_text": "Python driver: overlays /verif/harness/** into the gobgp module at build time (go test -overlay/-modfile, nothing written under /repo), runs pgregory.net/rapid property shards, saved-case replays and native go fuzzing, merges statistics into evidence"}],
    "checks": checks,
    "not_applicable": [{"property_id": p["id"], "reason": NA.get(p["id"], "check not implemented yet in this session (work in progress; DESIGN.md section 3 describes the planned generated check)")} for p in props if p["id"] not in PROPS],
    "notes": "See DESIGN.md. Exit codes of every check: 0 held on everything explored (KNOWN-FINDING lines possible), 1 VIOLATION, 2 inconclusive (build failure/timeout; never a violation).",
}
json.dump(m, open(os.path.join(V, "MANIFEST.json"), "w"), indent=1)
print("MANIFEST.json: %d checks, %d not_applicable" % (len(checks), len(m["not_applicable"])))
