"""Per-property check configuration.

Each property has a list of *units*.  A unit is one rapid test function of one
overlaid gobgp package:  (pkg, test, quick=(shards, checks), thorough=(shards,
checks)).  Optional keys: race, steps, gomaxprocs, timeout_q, timeout_t, env.
`fuzz` units (thorough tier only) run native coverage-guided fuzzing.
"""

T = "internal/pkg/table"
B = "pkg/packet/bgp"
S = "pkg/server"

PROPS = {
    "C13": {
        "level": "exploration",
        "claim": ("Generated pattern lists (grammar of recognised shapes and near misses), community values and set edits; "
                  "every Evaluate result under any/all/invert is compared with Go's regexp on the canonical text. Exploration: "
                  "the evidence reports cases, distinct non-trivial cases and a label histogram; absence of a divergence is "
                  "evidence for the explored grammar only."),
        "note": "Trusts Go's regexp package and the String()/List() renderings as the canonical texts.",
        "technique": "property-based testing (rapid), differential against a regexp reference, shrunk replay files",
        "rule": ("rapid draws a pattern list from a grammar of matcher shapes and near misses, routes with 0-4 "
                 "communities, and 0-3 set edits; a case is non-trivial when at least one pattern was promoted to a "
                 "non-regexp matcher (observed white-box) and, over its routes, at least one pattern matched and one "
                 "did not; distinct by hash of the whole case"),
        "assumptions": ["Go's regexp package is the reference matcher",
                        "canonical community text is '%d:%d' / ExtendedCommunity.String() / '%d:%d:%d'"],
        "units": [
            {"pkg": T, "test": "TestVerifC13_std", "quick": (6, 2500), "thorough": (6, 60000)},
            {"pkg": T, "test": "TestVerifC13_ext", "quick": (5, 8000), "thorough": (5, 150000)},
            {"pkg": T, "test": "TestVerifC13_large", "quick": (5, 6000), "thorough": (5, 150000)},
        ],
    },
    "C14": {
        "level": "exploration",
        "claim": ("Round trip (NEW -> 2-octet wire form -> parsed under Use2ByteAS -> reconstruction) over generated RFC-valid "
                  "AS_PATH/AGGREGATOR values must return the original (confed 4-octet members excepted) and the 2-octet form "
                  "must re-parse and validate; for independently generated (AS_PATH, AS4_PATH) pairs the reconstruction is "
                  "checked against invariants (no empty/over-long segment, never longer, longer AS4_PATH ignored)."),
        "note": "Trusts the BGP parser for wire validity of the 2-octet form; bounded to <=6 segments per path.",
        "technique": "property-based testing (rapid): round-trip and invariant oracles",
        "rule": ("rapid draws (i) an RFC-valid AS_PATH (leading confed run, then SEQ/SET segments of 1..255 members, "
                 "sizes biased to 1-4/254/255, 2- and 4-octet members incl. AS_TRANS) with optional AGGREGATOR, or (ii) an "
                 "independent (2-octet AS_PATH, arbitrary AS4_PATH) pair with AGGREGATOR/AS4_AGGREGATOR; non-trivial when "
                 "the path has a 4-octet member and >=2 segments, or a 255-member segment, or a leading SET (i), or an "
                 "AS4_PATH together with >=2 AS_PATH segments or a non-SEQUENCE AS4 segment (ii); distinct by case hash"),
        "assumptions": ["adjacent AS_SEQUENCE segments are compared as one sequence (segment splitting carries no meaning)",
                        "path length = SEQUENCE members + 1 per SET, confederation segments not counted"],
        "units": [
            {"pkg": T, "test": "TestVerifC14", "quick": (8, 40000), "thorough": (16, 400000)},
        ],
    },
}
