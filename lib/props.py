"""Per-property check configuration.

Each property has a list of *units*.  A unit is one rapid test function of one
overlaid gobgp package:  (pkg, test, quick=(shards, checks), thorough=(shards,
checks)).  Optional keys: race, steps, gomaxprocs, timeout_q, timeout_t, env.
`fuzz` units (thorough tier only) run native coverage-guided fuzzing.
"""

T = "internal/pkg/table"
B = "pkg/packet/bgp"
S = "pkg/server"

PROPS = {
    "C13": {
        "level": "exploration",
        "claim": ("Generated pattern lists (grammar of recognised shapes and near misses), community values and set edits; "
                  "every Evaluate result under any/all/invert is compared with Go's regexp on the canonical text. Exploration: "
                  "the evidence reports cases, distinct non-trivial cases and a label histogram; absence of a divergence is "
                  "evidence for the explored grammar only."),
        "note": "Trusts Go's regexp package and the String()/List() renderings as the canonical texts.",
        "technique": "property-based testing (rapid), differential against a regexp reference, shrunk replay files",
        "rule": ("rapid draws a pattern list from a grammar of matcher shapes and near misses, routes with 0-4 "
                 "communities, and 0-3 set edits; a case is non-trivial when at least one pattern was promoted to a "
                 "non-regexp matcher (observed white-box) and, over its routes, at least one pattern matched and one "
                 "did not; distinct by hash of the whole case"),
        "assumptions": ["Go's regexp package is the reference matcher",
                        "canonical community text is '%d:%d' / ExtendedCommunity.String() / '%d:%d:%d'"],
        "units": [
            {"pkg": T, "test": "TestVerifC13_std", "quick": (6, 2500), "thorough": (6, 60000)},
            {"pkg": T, "test": "TestVerifC13_ext", "quick": (5, 8000), "thorough": (5, 150000)},
            {"pkg": T, "test": "TestVerifC13_large", "quick": (5, 6000), "thorough": (5, 150000)},
        ],
    },
    "C14": {
        "level": "exploration",
        "claim": ("Round trip (NEW -> 2-octet wire form -> parsed under Use2ByteAS -> reconstruction) over generated RFC-valid "
                  "AS_PATH/AGGREGATOR values must return the original (confed 4-octet members excepted) and the 2-octet form "
                  "must re-parse and validate; for independently generated (AS_PATH, AS4_PATH) pairs the reconstruction is "
                  "checked against invariants (no empty/over-long segment, never longer, longer AS4_PATH ignored)."),
        "note": ("Trusts the BGP parser for wire validity of the 2-octet form; bounded to <=6 segments per path. Wire level "
                 "(TestVerifC14_server): routes whose AS_PATH / AGGREGATOR carry 4-octet AS numbers are added to a BgpServer in one "
                 "batch (1 to 2100 prefixes per attribute set, so that one set is split over several UPDATEs) and sent to an observer "
                 "without (control: with) the 4-octet-AS capability; every UPDATE is parsed under the session's options and every "
                 "route is reconstructed with the harness' own RFC 6793 4.2.3 merge: it must equal the stored path with the local AS "
                 "prepended and the stored AGGREGATOR, nothing may be missing, no AS above 65535 may appear in AS_PATH/AGGREGATOR of a "
                 "2-octet session and no AS4_* attribute on a 4-octet one."),
        "technique": "property-based testing (rapid): round-trip and invariant oracles",
        "rule": ("rapid draws (i) an RFC-valid AS_PATH (leading confed run, then SEQ/SET segments of 1..255 members, "
                 "sizes biased to 1-4/254/255, 2- and 4-octet members incl. AS_TRANS) with optional AGGREGATOR, or (ii) an "
                 "independent (2-octet AS_PATH, arbitrary AS4_PATH) pair with AGGREGATOR/AS4_AGGREGATOR; non-trivial when "
                 "the path has a 4-octet member and >=2 segments, or a 255-member segment, or a leading SET (i), or an "
                 "AS4_PATH together with >=2 AS_PATH segments or a non-SEQUENCE AS4 segment (ii); distinct by case hash"),
        "assumptions": ["adjacent AS_SEQUENCE segments are compared as one sequence (segment splitting carries no meaning)",
                        "path length = SEQUENCE members + 1 per SET, confederation segments not counted"],
        "units": [
            {"pkg": T, "test": "TestVerifC14", "quick": (8, 40000), "thorough": (16, 400000)},
            {"pkg": S, "test": "TestVerifC14_server", "quick": (8, 60), "thorough": (16, 4000), "timeout_q": 1500},
        ],
    },
    "C03": {
        "level": "exploration",
        "claim": ("Generated candidate sets (2-6 distinct sources: local, eBGP, iBGP, confederation member; LOCAL_PREF, AS_PATH "
                  "with SEQ/SET/CONFED segments, ORIGIN, MED, timestamps and router-ids with ties, unreachable next hop, "
                  "LLGR_STALE) under all four selection options; every arrival permutation (n<=5) plus generated "
                  "replace/withdraw histories must select the path chosen by an independent successive-elimination reference, "
                  "and the same path in every history, whenever MED is comparable between all (or none) of the candidates "
                  "that tie above MED; stored order, multipath set and the weaker always-sound ordering are checked too."),
        "note": ("Reference decision procedure written from the property text / RFC 4271 9.1.2.2 / RFC 5065; the winner among "
                 "confederation-member candidates that tie down to the age/router-id step is not asserted (only order "
                 "independence), because no document fixes that tie-break."),
        "technique": "property-based testing (rapid): reference model + permutation-invariance metamorphic relation, exhaustive permutations per set",
        "rule": ("rapid draws a candidate set, options and 1-4 histories (random add-decoy/add/withdraw prelude followed by a "
                 "permutation of the final announcements); for n<=5 all n! arrival orders are run as well; non-trivial when the "
                 "set has >=3 candidates, the decision falls at AS_PATH length or later, MED is decidable and two histories "
                 "start with different candidates; distinct by case hash"),
        "assumptions": ["distinct sources have distinct neighbour addresses", "every route carries ORIGIN and AS_PATH"],
        "units": [
            {"pkg": T, "test": "TestVerifC03", "quick": (12, 2500), "thorough": (16, 60000)},
        ],
    },
    "C04": {
        "level": "exploration",
        "claim": ("Structure-aware generators build every message kind (OPEN with every capability kind, UPDATE in body/MP/mixed "
                  "form with attribute sets and NLRI of the generated families, NOTIFICATION, ROUTE-REFRESH, KEEPALIVE) under "
                  "generated session options; each must serialise (unless over the session maximum, which must be refused), be "
                  "accepted by an independent RFC 4271/4760/7911/8654 framing walker that must agree with the codec on every "
                  "element boundary, parse back to an equal message, and re-serialise to the same bytes; every attribute, NLRI "
                  "and capability must report the length it emits and its decoder must consume exactly that many octets when "
                  "followed by other data. Mutated encodings that the parser still accepts (core families) must reach a "
                  "serialise/parse fixpoint."),
        "note": ("Equality is compared on the canonical JSON rendering plus byte identity; the walker checks NLRI arithmetic "
                 "for the ten core families only (other families: attribute framing only). Bounded by generator coverage, "
                 "see the label histogram in the evidence."),
        "technique": "property-based testing (rapid) with structure-aware recipe generators: round-trip, independent framing walker (differential), mutation fixpoint; native go fuzzing of the same recipe builders in the thorough tier",
        "rule": ("a recipe (sequence of numbers) is drawn by rapid and turned into a message + options by the verifgen "
                 "builders; non-trivial when the message has >=2 attributes or >=2 NLRI or an element of a non-core family, or "
                 ">=2 capabilities (OPEN), or NOTIFICATION data; distinct by recipe hash"),
        "assumptions": ["path identifiers are compared only for families with ADD-PATH on (otherwise not on the wire)"],
        "units": [
            {"pkg": B, "test": "TestVerifC04", "env": {"VERIF_CASE_SECONDS": "30", "VERIF_CASE_HEAP_MB": "1536"}, "quick": (12, 40000), "thorough": (16, 2000000)},
        ],
    },
    "C07": {
        "level": "exploration",
        "claim": ("Generated event sequences (connect, valid and each kind of invalid OPEN, KEEPALIVE, UPDATE, ROUTE-REFRESH, "
                  "NOTIFICATION, malformed headers, remote close, waits positioned just before/after the next timer deadline, "
                  "enable/disable/shutdown/reset/soft reset/delete) are applied to a passive peer of a real BgpServer running in "
                  "virtual time (testing/synctest); after every event the bytes on every connection with their virtual "
                  "timestamps, ListPeer session/admin state and the RIB are compared with an explicit reference FSM written from "
                  "RFC 4271 section 8."),
        "note": ("Active side (TestVerifC07_active): the outgoing connect of a non-passive peer ends in the harness through the "
                 "verif-tagged dial hook; generated sequences over {outbound connect completes / is refused, inbound connect, valid and "
                 "invalid OPEN and KEEPALIVE on either connection (the two OPENs carry different hold times), OPEN on both at once, "
                 "close, UPDATE, silence up to just before/after the next hold deadline} are checked against invariants over the whole "
                 "history written from RFC 4271 6.8/8/10 (the connect timer is jittered by design, so no trace is predicted): message "
                 "grammar per connection, OPEN-error answers, hold timers of OpenSent / OpenConfirm / Established with the hold time "
                 "negotiated from the surviving connection's OPEN, Established iff exactly one live connection has the complete "
                 "handshake, collision resolution by BGP identifier with Cease/7 for the loser, no connect while Established, "
                 "ConnectRetry after a refused connect. The scripted peer's writes are queued like a TCP send buffer. TCP-level "
                 "behaviour out of scope; outcomes the RFC leaves open (OPEN in Established on the same connection) are not asserted."),
        "technique": "model-based property testing (rapid) of event histories in virtual time against a reference state machine",
        "rule": ("rapid draws peer kind, local/remote hold times and 1-25 events; non-trivial when the session reached OpenSent "
                 "or beyond and a later event is an error, admin or timer-boundary event; distinct by case hash"),
        "assumptions": ["the scripted peer's writes are consumed by the server at the virtual instant they are issued"],
        "units": [
            {"pkg": S, "test": "TestVerifC07", "quick": (16, 1000), "thorough": (16, 15000), "timeout_q": 1500},
            {"pkg": S, "test": "TestVerifC07_active", "quick": (16, 400), "thorough": (16, 12000), "timeout_q": 1500},
        ],
    },
    "C05": {
        "level": "exploration",
        "claim": ("Arbitrary byte strings and structure-aware mutations of generated valid messages (truncate, extend, bit flips, "
                  "hostile constants, 16-bit length fields set to 0/max/off-by-one, spliced and duplicated TLVs) are fed to "
                  "ParseBGPMessage, ParseBGPBody, GetPathAttribute+DecodeFromBytes, NLRIFromSlice for all 26 families and "
                  "DecodeCapability under generated option combinations. In the target: no panic, caller's buffer unchanged "
                  "(input carved from a poisoned buffer with cap==len, so any read past the declared message fails visibly), "
                  "result independent of bytes following the declared message, decoded element counts bounded by the input "
                  "size, and every returned value - also one returned with a non-fatal error - renders (String, JSON), "
                  "measures, validates and re-serialises without panicking. Thorough tier adds native coverage-guided fuzzing "
                  "of the same target."),
        "note": ("Go is memory safe: 'over-read' means reading outside the declared message inside the backing array, which the "
                 "cap==len carving turns into a bounds panic; hangs are caught by the test timeout; allocation is bounded via "
                 "element counts, not measured in bytes."),
        "technique": "property-based testing (rapid) with structure-aware mutators + native go fuzzing (thorough), invariant oracles inside the target",
        "rule": ("a case is an entry point, a recipe (seed messages + mutation script) or raw bytes; non-trivial when the input "
                 "reaches a type-specific decoder (a message/attribute/NLRI/capability value is returned); distinct by (entry, "
                 "message type or attribute/NLRI/capability kind, outcome class)"),
        "assumptions": [],
        "units": [
            {"pkg": B, "test": "TestVerifC05", "env": {"VERIF_CASE_SECONDS": "30", "VERIF_CASE_HEAP_MB": "1536"}, "quick": (16, 30000), "thorough": (16, 1500000)},
            {"pkg": B, "kind": "fuzz", "test": "FuzzVerifC05", "fuzz_seconds": 400},
        ],
    },
    "C11": {
        "level": "exploration",
        "claim": ("Generated path lists (announce/withdraw/End-of-RIB mixes with repeated keys, IPv4 with IPv4 or IPv6 next hop, "
                  "IPv6 with optional link-local next hop, VPNv4; attribute sets from tiny to exactly around the single-route "
                  "size limit, several sets forced onto one batching hash, optional bulk of hundreds to tens of thousands of "
                  "prefixes) x ADD-PATH on/off x extended message on/off are packed by CreateUpdateMsgFromPaths; every message "
                  "is serialised under the session options, must fit the maximum, is re-parsed and applied to an independent "
                  "receiver model whose final state must equal applying the changes one at a time; routes that cannot fit must "
                  "be absent without disturbing others; no panic."),
        "note": ("The receiver model compares attribute bytes (minus MP_REACH) and next hops per (family, prefix, path-id); "
                 "packerMP's internal hash-collision branch cannot be steered (DESIGN section 4)."),
        "technique": "property-based testing (rapid) against an independent receiver model (differential), boundary-biased size generation",
        "rule": ("non-trivial when the list produces >=2 messages, or contains a repeated key, or an attribute set within 64 "
                 "octets of the limit; distinct by case hash"),
        "assumptions": ["without ADD-PATH a prefix has one path identifier", "the receiver starts from an empty table"],
        "units": [
            {"pkg": T, "test": "TestVerifC11", "quick": (16, 800), "thorough": (16, 25000)},
        ],
    },
    "C16": {
        "level": "exploration",
        "claim": ("(a) generated ROA sets (nested/equal prefixes, different max-length/AS/source, AS 0, IPv4 and IPv6, with "
                  "deletions) x routes (prefix lengths around max-length; AS_PATH empty, ending in SEQUENCE, in AS_SET, "
                  "confederation-only) are validated by ROATable.Validate and by the policy condition and compared with a "
                  "brute-force RFC 6811 reference; (b) generated RTR PDU sequences per cache (cache response with "
                  "announce/withdraw incl. duplicates and unknown withdrawals, end of data with same/new session id, serial "
                  "notify, cache reset, error report, malformed PDU, disconnect, lifetime timeout, server removal, reset) over "
                  "1-3 caches are fed to the ROA manager and the table content and per-cache record counters are compared with "
                  "a transactional model after every operation."),
        "note": ("The RTR TCP client loop is bypassed (events are injected white-box); every client has a real loopback TCP "
                 "connection whose cache end the harness reads, so the query a Serial Notify triggers is observed: a newer serial "
                 "(RFC 1982 arithmetic, serials around the 2^32 wrap are generated) must be answered with one Serial Query for the "
                 "router's serial, an equal one with nothing. (a) includes locally originated routes (source without local AS, "
                 "origin AS 0) and paths ending in AS 0 against AS 0 ROAs. What a reset-by-address does to learned records before "
                 "resynchronisation is not asserted (either outcome adopted)."),
        "technique": "property-based testing (rapid): brute-force reference (a), model-based history testing (b)",
        "rule": ("(a) non-trivial when a route has >=2 covering ROAs not all of which match; (b) non-trivial when a completed "
                 "response is applied on top of a non-empty committed set (incremental update); distinct by case hash"),
        "assumptions": ["prefix PDUs only occur between Cache Response and End of Data"],
        "units": [
            {"pkg": T, "test": "TestVerifC16", "quick": (8, 20000), "thorough": (16, 1000000)},
            {"pkg": S, "test": "TestVerifC16_rtr", "quick": (8, 8000), "thorough": (16, 400000)},
        ],
    },
    "C08": {
        "level": "exploration",
        "claim": ("Generated neighbour configurations (family subsets of IPv4/IPv6 unicast, VPNv4, EVPN, FlowSpec; ADD-PATH "
                  "send-max/receive per family; hold time; 2-/4-octet local AS; peer-as set or 0) x generated peer OPENs (any "
                  "multiset of multiprotocol, ADD-PATH with duplicate/overlapping tuples, 4-octet-AS, extended-message and "
                  "unknown capabilities in one or many optional parameters; any hold time and AS) run against a real BgpServer in "
                  "virtual time. A reference negotiation function is compared with the OPEN bytes sent, the handshake outcome, "
                  "ListPeer (timers, ADD-PATH state, peer type/AS), the encoding of the UPDATEs the server then sends for local "
                  "routes of three families, the keepalive cadence, and the acceptance/refusal of a 4.5k UPDATE carrying a path id."),
        "note": "Passive side only; GR/LLGR capability content is covered by C12.",
        "technique": "property-based testing (rapid) in virtual time against a reference negotiation function",
        "rule": ("non-trivial when local and remote differ in a dimension that changes the result (hold, families, ADD-PATH, "
                 "4-octet AS, extended message); distinct by case hash"),
        "assumptions": [],
        "units": [
            {"pkg": S, "test": "TestVerifC08", "quick": (16, 400), "thorough": (16, 20000), "timeout_q": 1500},
        ],
    },
    "C09": {
        "level": "exploration",
        "claim": ("A source (local route via the API, eBGP, iBGP non-client, RR client or confederation member) announces 1-3 "
                  "IPv4/IPv6 routes with generated attributes (AS_PATH with SEQUENCE/SET/CONFED segments incl. private, own, "
                  "target and 255-member segments; LOCAL_PREF, MED, ORIGINATOR_ID and CLUSTER_LIST with/without the local ids; "
                  "unknown transitive and non-transitive attributes; unspecified next hop for local routes) to a real BgpServer "
                  "in virtual time; two established target peers of generated kinds (eBGP, iBGP, RR client, confederation "
                  "member; remove-private-as all/replace, replace-peer-as, a second session to the source's router-id) each "
                  "hold, after applying the UPDATE bytes written to them, exactly what the reference export function "
                  "prescribes (advertise or not, and every attribute); the route as stored for the source is unchanged."),
        "note": ("Route-server clients and VRF-attached peers are covered by C01/C17; the reference follows RFC 4271/4456/5065 "
                 "and the property text; adjacent AS_SEQUENCE segments are compared as one sequence."),
        "technique": "property-based testing (rapid) in virtual time against a reference export function, byte-level observation on the wire",
        "rule": ("non-trivial when at least one rewrite or filtering rule fires for some (route, target) pair; distinct by case hash"),
        "assumptions": [],
        "units": [
            {"pkg": S, "test": "TestVerifC09", "quick": (16, 400), "thorough": (16, 12000), "timeout_q": 1500},
        ],
    },
    "C01": {
        "level": "exploration",
        "claim": ("Generated topologies (2-5 peers: eBGP incl. two in one AS, iBGP non-client, RR client, second session to one "
                  "router-id; ADD-PATH send-max 0/1/2 and receive on/off) and histories of 3-40 operations over a pool of 6 "
                  "IPv4/IPv6 prefixes (announce / implicit replace with six attribute variants incl. ones that hit loop "
                  "prevention / withdraw / bursts / session close and re-establishment / peer deletion / API add and delete by "
                  "attributes or UUID / racing operations of two peers, a handshake or a ROUTE-REFRESH racing an update, with "
                  "seed-steered yield points / twin routes: a second peer relays a route attribute for attribute / a flood "
                  "of 850-1450 host routes sharing one attribute set followed by a new session, so that UPDATEs are filled "
                  "to the size limit) run against a real BgpServer in virtual time. After every operation, at quiescence, every established peer's "
                  "wire view (all UPDATE bytes of its session applied in order) must equal the reference export of the current "
                  "best path of each destination (ADD-PATH: every held path is a current exportable one, count = min(send-max, "
                  "exportable)); routes are identified by unique community tags."),
        "note": ("Best-path choice itself is taken from ListPath (decided by C03); route-server clients and confederations "
                 "are not in the topologies (C09 has them)."),
        "technique": "model-based property testing (rapid) of operation histories in virtual time; tagged routes + reference export function as oracle",
        "rule": ("non-trivial when >=2 peers are configured and the history contains a withdraw, a session loss or a replacement "
                 "after the third operation; distinct by case hash"),
        "assumptions": ["ListPath(GLOBAL) lists the best path first"],
        "units": [
            {"pkg": S, "test": "TestVerifC01", "quick": (16, 150), "thorough": (16, 4000), "timeout_q": 1500},
        ],
    },
    "C02": {
        "level": "exploration",
        "claim": ("On the same generated histories as C01, after every operation: each peer's Adj-RIB-In (ListPath ADJ_IN) equals "
                  "the model map (prefix, path-id) -> tag of the latest un-withdrawn announcement of the current session; the "
                  "Loc-RIB (ListPath GLOBAL) holds exactly the usable ones (own-AS / ORIGINATOR_ID loop checks) plus the local "
                  "routes, one per (source, path-id), best flag on the first, nothing of an ended session or deleted peer; "
                  "received/accepted counters agree."),
        "note": ("A second unit (TestVerifC02_table) runs announce / replace / withdraw / peer-down sequences directly against a "
                 "TableManager whose destination hash keys are masked to 1-3 bits through the verif hook (12 nested IPv4/IPv6 prefixes "
                 "share 2-8 keys) and compares GetPathList, GetBestPathList, GetDestination, the table counters and exact / longer / "
                 "shorter lookups with a map model. The best-path event stream is not replayed."),
        "technique": "model-based property testing (rapid) of operation histories in virtual time against a map model",
        "rule": ("same histories and rule as C01; distinct by case hash"),
        "assumptions": [],
        "units": [
            {"pkg": S, "test": "TestVerifC02", "quick": (16, 150), "thorough": (16, 2500), "timeout_q": 1500},
            {"pkg": T, "test": "TestVerifC02_table", "quick": (16, 150), "thorough": (16, 20000), "timeout_q": 1500},
        ],
    },
    "C06": {
        "level": "exploration",
        "claim": ("A scripted peer (eBGP / iBGP / confederation member, revised error handling on or off) sends 2-9 UPDATEs, each "
                  "assembled octet by octet by the check's own serialiser from a valid base message (IPv4 NLRI / withdrawn, "
                  "MP_REACH/MP_UNREACH IPv6, 16 attribute types) and 0-2 faults of a 14-entry catalogue (flags, length, value, "
                  "AS_PATH segment, duplicate, missing mandatory, attribute overrun, stray octets in the attribute area, total / "
                  "withdrawn length, NLRI field, unrecognised well-known, MP next-hop length, MP prefix length) at generated "
                  "positions. After every message the reference reaction (RFC 7606 s.3-7, RFC 4271 s.6.3: strongest fault wins; "
                  "everything resets without revised handling) is compared with the NOTIFICATION octets, the session state, and a "
                  "map model of the peer's routes against Adj-RIB-In, Loc-RIB (attributes = the well-formed first occurrences) "
                  "and what an observer peer holds."),
        "note": ("A confederation member's AS_PATH without leading AS_CONFED_SEQUENCE is taken to call for a session reset "
                 "because the repository's Test_Validate_aspath pins it. NOTIFICATION subcodes are checked against a small "
                 "allowed set per fault where RFC 4271 leaves a choice (e.g. 5 or 9 for optional attributes). 2-octet-AS sessions, "
                 "AS4_PATH/AS4_AGGREGATOR and faults in families other than IPv4/IPv6 unicast are not generated."),
        "technique": "model-based property testing (rapid): fault-injected UPDATE sequences in virtual time against an RFC 7606 reference reaction and a route map model",
        "rule": ("non-trivial when a message carries two faults or a faulted message arrives after routes were installed; "
                 "distinct by case hash"),
        "assumptions": [],
        "units": [
            {"pkg": S, "test": "TestVerifC06", "quick": (16, 120), "thorough": (16, 12000), "timeout_q": 1500},
        ],
    },
    "C10": {
        "level": "exploration",
        "claim": ("Generated policy programs (defined sets of all six kinds; 1-6 statements with any subset of 15 condition types and "
                  "9 action types; up to three policies; assignments for global import and two peers' export with either default) "
                  "are loaded through the configuration structures into a real RoutingPolicy; 1-5 generated routes (IPv4/IPv6, "
                  "local/iBGP/eBGP source, AS_PATH with sets and confederation segments, three kinds of communities, list attributes "
                  "with spare capacity) go through import and then both exports, twice. Verdict and resulting attributes must equal "
                  "those of a plain interpreter of docs/sources/policy.md written in the check. After every application (and after "
                  "applications of a canary policy that adds unique values to every list attribute) the stored route and every "
                  "result already handed out are rendered again and must be unchanged. Policies, statements, as-path sets and "
                  "assignments are read back and compared with the configuration."),
        "note": ("Mask-length ranges start at the entry's own prefix length; values 0 for local-pref-eq / med-eq / set-local-pref "
                 "(the configuration's 'absent') are not generated; set contents other than as-path sets and the API rendering of "
                 "policies are compared by C18; prefix sets of RTC prefixes and tag sets are not generated."),
        "technique": "property-based testing (rapid) of policy programs against a reference interpreter of the documented model; metamorphic non-interference check with canary applications",
        "rule": ("non-trivial when at least three verdicts were compared in the case and at least one application changed attributes; "
                 "distinct by case hash"),
        "assumptions": [],
        "units": [
            {"pkg": T, "test": "TestVerifC10", "quick": (16, 2500), "thorough": (16, 250000), "timeout_q": 900},
            {"pkg": T, "test": "TestVerifC10_edit", "quick": (8, 5000), "thorough": (16, 150000)},
            {"pkg": T, "test": "TestVerifC10_refs", "quick": (8, 3000), "thorough": (16, 100000)},
        ],
    },
    "C15": {
        "level": "exploration",
        "claim": ("Metamorphic relation over generated (old policy, new policy) pairs (import and export policies of 0-3 statements with "
                  "prefix-set / neighbour / community / AS_PATH-length conditions and accept/reject, MED, community, LOCAL_PREF and "
                  "prepend actions; changed defined-set contents and assignment defaults), route sets of 2-8 announcements from two "
                  "source peers, five reset procedures (API both/all, out then in, in then out, in + ROUTE-REFRESH from the targets, "
                  "per-peer both) and 0-3 announcements/withdrawals in flight while the reset is issued: after the reset the Loc-RIB "
                  "(prefix, source, attributes, best flag) and what each of two target peers (eBGP, iBGP) holds equal those of a "
                  "fresh server started with the new policy and fed the final route set; repeating the reset changes nothing. Reference integrity (TestVerifC10_refs): deleting a prefix set, statement or policy that a configured "
            "object still refers to (assignment in either direction -> policy -> statement -> set) is refused and changes nothing, "
            "an unreferenced one is deleted, and after every operation every reference still resolves."),
        "note": ("IPv4 unicast only; peers are not route-server clients (per-peer policies apply only to those); policy changes "
                 "are made with SetPolicies + SetPolicyAssignment; ExternalCompareRouterId is set so that the decision between "
                 "equal external paths does not depend on arrival order, which differs between the two runs. "
                 "Since round 2 of the seeds: an optional intermediate policy (with its own reset) between the old and the new one, "
                 "a third source, an ADD-PATH target with a slot for every source (send-max is first come, first served, so fewer "
                 "slots would make the two runs incomparable by design). Second unit: the C01 histories (reference export oracle) "
                 "include a ROUTE-REFRESH from a peer racing another peer's update under steered schedules: the answer must leave the "
                 "peer with exactly the current export."),
        "technique": "metamorphic property testing (rapid) in virtual time: state after policy change + soft reset vs. fresh run under the new policy",
        "rule": ("non-trivial when the new program differs from the old one and the fresh run's Loc-RIB is not empty; distinct by case hash"),
        "assumptions": [],
        "units": [
            {"pkg": S, "test": "TestVerifC15", "quick": (16, 100), "thorough": (16, 3000), "timeout_q": 1500},
            # ROUTE-REFRESH answered while another peer's update is in flight (C01's histories, op hRaceRefresh, steered schedules)
            {"pkg": S, "test": "TestVerifC01", "quick": (16, 100), "thorough": (16, 1500), "timeout_q": 1500},
        ],
    },
    "C19": {
        "level": "exploration",
        "claim": ("Per package (MRT, BMP, RTR, Zebra API, BFD) one generator of cases {recipe, raw bytes, mode}: round trip of every "
                  "message the package can construct (all MRT subtypes incl. ADD-PATH and 24 RIB families cross-checked against "
                  "hand-encoded RFC 6396/8050 records, all BMP message types x peer-header flag sets, all nine RTR PDUs, 13 ZAPI body "
                  "kinds x 22 version/flavour pairs, BFD control packets): serialise, parse, equal value, identical bytes on "
                  "re-serialising; and decode safety over arbitrary bytes, structure-aware mutants (truncation at every offset with "
                  "and without fixed-up lengths, hostile 0/0xff/len+-1 length fields, retyping, splicing) and the stream splitters: no "
                  "panic, caller's buffer unchanged, input in a poisoned cap==len buffer, identical result with spare capacity or "
                  "other octets behind the framed message, splitter tokens are prefixes of the data and a bufio.Scanner over them "
                  "terminates. Native fuzz targets share the decode oracle."),
        "note": ("Daemon-emitted MRT (TestVerifC19_daemon_mrt): in virtual time generated peers (2-/4-octet AS sessions, with and "
                 "without ADD-PATH receive) and the API add IPv4/IPv6 routes to a running BgpServer; EnableMrt(TABLE) and "
                 "EnableMrt(UPDATES) files are read back with SplitMrt/ParseHeader/ParseBody and compared with the sources "
                 "(PEER_INDEX_TABLE address, router id, AS), with ListPath of the Loc-RIB (both directions: every RIB entry is a "
                 "Loc-RIB path with equal path id and attributes, no Loc-RIB path missing) and with the UPDATE octets the peers sent "
                 "(BGP4MP peer/local AS, address, payload re-parsed under the sub-type's AS4/ADD-PATH meaning). Embedded BGP "
                 "messages of the codec units come from the C04 generators. Zebra bodies whose request and reply layouts differ by "
                 "protocol design are compared at header level only. Daemon-emitted BMP (TestVerifC19_daemon_bmp): a TCP listener on the "
                 "loopback served outside the bubble is the station of a BgpServer in virtual time; peers come up before and after "
                 "AddBmp, announce, withdraw, go down and come back; after DeleteBmp the stream is cut with SplitBMP and read like a "
                 "station reads it (decoding options per peer from the OPENs of its Peer Up and the A flag): Initiation first, "
                 "Termination last, a Peer Up per session with the peer's identity, the session's local address/port and the OPEN "
                 "octets exchanged, a Peer Down per lost session, and the replay of each peer's pre-policy / post-policy Route "
                 "Monitoring stream (and of the Loc-RIB stream) equals the Adj-RIB-In / accepted routes / best paths ListPath reports. "
                 "Route mirroring and the statistics counters' values are not compared."),
        "technique": "property-based testing (rapid) with recipe generators: codec round trip + decode-safety oracles on guarded buffers; coverage-guided native fuzzing (thorough tier) with the same oracle",
        "rule": ("non-trivial when a body decoder is reached (header parses, declared body present) or the constructed message embeds a "
                 "BGP message / has at least two entries; distinct by case hash"),
        "assumptions": [],
        "units": [
            {"pkg": "pkg/packet/mrt", "test": "TestVerifC19_mrt", "env": {"VERIF_CASE_SECONDS": "30", "VERIF_CASE_HEAP_MB": "1536"}, "quick": (8, 4000), "thorough": (16, 400000)},
            {"pkg": "pkg/packet/bmp", "test": "TestVerifC19_bmp", "env": {"VERIF_CASE_SECONDS": "30", "VERIF_CASE_HEAP_MB": "1536"}, "quick": (8, 4000), "thorough": (16, 400000)},
            {"pkg": "pkg/packet/rtr", "test": "TestVerifC19_rtr", "env": {"VERIF_CASE_SECONDS": "30", "VERIF_CASE_HEAP_MB": "1536"}, "quick": (4, 10000), "thorough": (16, 1000000)},
            {"pkg": "pkg/zebra", "test": "TestVerifC19_zebra", "env": {"VERIF_CASE_SECONDS": "30", "VERIF_CASE_HEAP_MB": "1536"}, "quick": (8, 3000), "thorough": (16, 300000)},
            {"pkg": "pkg/packet/bfd", "test": "TestVerifC19_bfd", "env": {"VERIF_CASE_SECONDS": "30", "VERIF_CASE_HEAP_MB": "1536"}, "quick": (4, 10000), "thorough": (16, 1000000)},
            {"pkg": S, "test": "TestVerifC19_daemon_mrt", "quick": (4, 250), "thorough": (16, 8000)},
            {"pkg": S, "test": "TestVerifC19_daemon_bmp", "quick": (8, 150), "thorough": (16, 4000)},
            {"pkg": "pkg/packet/mrt", "kind": "fuzz", "test": "FuzzVerifC19_mrt", "fuzz_seconds": 120},
            {"pkg": "pkg/packet/bmp", "kind": "fuzz", "test": "FuzzVerifC19_bmp", "fuzz_seconds": 120},
            {"pkg": "pkg/packet/rtr", "kind": "fuzz", "test": "FuzzVerifC19_rtr", "fuzz_seconds": 120},
            {"pkg": "pkg/zebra", "kind": "fuzz", "test": "FuzzVerifC19_zebra", "fuzz_seconds": 120},
            {"pkg": "pkg/packet/bfd", "kind": "fuzz", "test": "FuzzVerifC19_bfd", "fuzz_seconds": 60},
        ],
    },
    "C18": {
        "level": "exploration",
        "claim": ("Conversion round trips over generated values: (attr, nlri, cap) every path attribute type (23 types, 27 ext-community "
                  "kinds, tunnel-encap sub-TLVs, 36 BGP-LS TLVs, PREFIX_SID, PMSI, AIGP, MP_REACH/UNREACH x 26 families), NLRI of 26 "
                  "families and 14 capability types from the codec generators: native -> API -> native' must serialise to the same "
                  "octets and API -> native -> API' must be proto.Equal; (policy) generated defined sets, statements with every "
                  "condition/action kind, policies and assignments added through the API of a running BgpServer are listed back and "
                  "compared with strings computed by the generator from the documented rules; (path) routes of 10 families added with "
                  "AddPath are listed back with the same NLRI, identifier and attribute set; (peer) neighbour configuration "
                  "API -> native -> API."),
        "note": ("17 conversions that cannot be lossless without an API (proto) change or whose root cause is a deliberate "
                 "config-model convention are listed as open known findings and excluded from generation; every one has a "
                 "deterministic probe."),
        "technique": "property-based testing (rapid) with recipe generators: two-directional conversion round trip (bytes equality / proto.Equal); API add/list round trip against a running server",
        "rule": ("non-trivial when the converted value has at least one nested element (attribute with sub-values, NLRI with "
                 "optional parts, statement with a condition and an action); distinct by case hash"),
        "assumptions": [],
        "units": [
            {"pkg": "pkg/apiutil", "test": "TestVerifC18_attr", "quick": (8, 20000), "thorough": (16, 400000)},
            {"pkg": "pkg/apiutil", "test": "TestVerifC18_nlri", "quick": (8, 20000), "thorough": (16, 400000)},
            {"pkg": "pkg/apiutil", "test": "TestVerifC18_cap", "quick": (4, 4000), "thorough": (16, 200000)},
            {"pkg": S, "test": "TestVerifC18_policy", "quick": (16, 300), "thorough": (16, 4000), "timeout_q": 1500},
            {"pkg": S, "test": "TestVerifC18_path", "quick": (16, 300), "thorough": (16, 4000), "timeout_q": 1500},
            {"pkg": S, "test": "TestVerifC18_peer", "quick": (8, 2000), "thorough": (16, 100000)},
            {"pkg": "pkg/apiutil", "kind": "fuzz", "test": "FuzzVerifC18_attr", "fuzz_seconds": 240},
            {"pkg": "pkg/apiutil", "kind": "fuzz", "test": "FuzzVerifC18_nlri", "fuzz_seconds": 240},
        ],
    },
    "C20": {
        "level": "exploration",
        "claim": ("Test binaries built with the race detector. (a) Concurrent actors in one virtual-time bubble against a real BgpServer: "
                  "one goroutine per scripted peer (2-4 peers; announce / withdraw / bursts / session flap / ROUTE-REFRESH) and one or "
                  "two management goroutines (AddPath / DeletePath, ListPath / ListPeer, policy replacement, soft resets, "
                  "Disable/EnablePeer, DeletePeer + AddPeer, UpdatePeer, AddVrf / DeleteVrf, EnableMrt / DisableMrt with dumps left enabled "
                  "at Stop, watchers that come and go; some peers have a max-prefixes limit that the traffic exceeds; AddPeer / "
                  "ListPeer calls race the final Stop), with the "
                  "verif yield points steered from the case's seed and GOMAXPROCS varied per shard. No race report, no panic; every "
                  "API call returns and the scenario finishes within a real-time budget (a lock cycle cannot be passed by the fake "
                  "clock); afterwards every peer can establish a session and ListPeer answers; Stop() leaves no goroutine of the "
                  "bubble behind. (b) The C01 histories (racing operations, focused prefixes, steered schedules) under the race detector. "
                  "(c) The active-peer histories of C07 (outgoing connection manager, collisions) under the race detector. (d) A real-time "
                  "probe: the client of an unreachable BMP station ends after Stop."),
        "note": ("zebra/RPKI clients, connected BMP stations and gRPC transport are not part of the scenarios; a schedule "
                 "that needs a yield inside a critical section other than the hooked ones is not forced."),
        "technique": "stateful property-based testing (rapid) of concurrent actor scripts under the race detector, schedule steering through build-tagged yield points, goroutine-leak and liveness oracles",
        "rule": ("non-trivial when at least one management actor ran and at least three API calls were made concurrently with peer "
                 "traffic; distinct by case hash"),
        "assumptions": [],
        "units": [
            {"pkg": S, "test": "TestVerifC20", "race": True, "quick": (16, 25), "thorough": (16, 1500), "timeout_q": 1500, "gomaxprocs": [1, 2, 4, 8]},
            {"pkg": S, "test": "TestVerifC01", "race": True, "quick": (8, 25), "thorough": (16, 800), "timeout_q": 1500, "gomaxprocs": [2, 4, 8]},
            {"pkg": S, "test": "TestVerifC07_active", "race": True, "quick": (8, 60), "thorough": (16, 2000), "timeout_q": 1500, "gomaxprocs": [2, 4, 8]},
        ],
    },
    "C12": {
        "level": "exploration",
        "claim": ("A scripted peer with generated GR / LLGR capabilities (N bit, restart time 4/12/30 s, IPv4 and/or IPv6 listed, LLGR "
                  "per family, long-lived time 6/20 s) announces 1-5 IPv4/IPv6 routes (some with NO_LLGR) to a real BgpServer with "
                  "generated GR / notification / LLGR configuration; the session is lost in one of six ways (transport close, hold "
                  "timer expiry, NOTIFICATION Cease or UPDATE error with or without the N bit negotiated, Hard Reset, administrative "
                  "shutdown). The harness then steps through virtual time — right after the loss, one second before and after the "
                  "restart timer, one second before and after the long-lived timer — or lets the peer come back inside the window "
                  "(6 s, 8 s or one second before expiry), re-announce a generated subset and send End-of-RIB per family in generated "
                  "order with gaps of 0-40 s (also beyond the original restart time). At every instant the Loc-RIB (presence, stale "
                  "flag, LLGR_STALE) and the wire views of two observers (one LLGR-capable, one not) are compared with a reference "
                  "model of RFC 4724 / 8538 / 9494 as summarised by the property."),
        "note": ("A second transport loss inside the restart window is generated (RFC 4724 4.2 consecutive restarts). The restarting-speaker side "
                 "(TestVerifC12_restart: two GR peers with the local-restarting state and generated deferral times, establishment and "
                 "End-of-RIB instants; a GR peer gets nothing before min(all End-of-RIB received, its deferral) and the full table "
                 "afterwards) is generated separately. Not generated: GR capabilities that differ between the two sessions (forwarding bit cleared, family dropped), "
                 "restart time 0, depreference of LLGR-stale routes against fresh ones."),
        "technique": "model-based property testing (rapid) of session-loss timelines in virtual time against a reference model of stale-route lifetime",
        "rule": ("non-trivial when the loss is graceful under the reference (routes are retained as stale) ; distinct by case hash"),
        "assumptions": [],
        "units": [
            {"pkg": S, "test": "TestVerifC12", "quick": (16, 120), "thorough": (16, 12000), "timeout_q": 1500},
            {"pkg": S, "test": "TestVerifC12_restart", "quick": (8, 60), "thorough": (16, 800), "timeout_q": 1500},
        ],
    },
    "C17": {
        "level": "exploration",
        "claim": ("Virtual-time topology: two VPN peers P and P2 (ipv4-vpn; P2 announces the same (RD, prefix) keys with a longer AS_PATH, "
                  "route-target lists may repeat a target), a VPN peer Q that also negotiates Route Target Constraint, two CE "
                  "peers attached to VRFs v0 and v1, a third VRF that is added and deleted during the history; VRFs get generated "
                  "overlapping import/export route-target sets over a pool of four targets. Histories of 3-30 operations: VPN "
                  "announcements (re-announcements with a different target set included) and withdrawals by P, CE announcements and "
                  "withdrawals, RT membership announcements and withdrawals by Q (duplicates, two origin AS numbers, the default "
                  "membership, withdrawals of memberships that were never announced), VRF add/delete. After every operation, with G = "
                  "P's VPN routes plus the CE routes exported with their VRF's RD and export targets: ListPath(vrf) equals the members "
                  "of G meeting the VRF's import set; each CE holds exactly the importable prefixes it did not originate; P holds "
                  "exactly the exported CE routes with the VRF's RD and export targets; Q holds exactly the members of G for whose "
                  "targets it has a membership (or the default)."),
        "note": ("Each prefix is announced under one RD only (see known finding C17-K1: no best-path choice across RDs when exporting "
                 "to a VRF's CE); EVPN, IPv6 VPN, FlowSpec VPN, ADD-PATH ids on memberships, import policy on RTC routes and label "
                 "values are not generated; hash-colliding destinations are not reached."),
        "technique": "model-based property testing (rapid) of VRF / route-target / membership histories in virtual time against a set model",
        "rule": ("non-trivial when the history contains a membership operation, at least two routes exist and Q's view was a strict "
                 "subset of G at some point; distinct by case hash"),
        "assumptions": [],
        "units": [
            {"pkg": S, "test": "TestVerifC17", "quick": (16, 400), "thorough": (16, 8000), "timeout_q": 1500},
            {"pkg": T, "test": "TestVerifC17_table", "quick": (8, 3000), "thorough": (16, 100000)},
        ],
    },
}

# Extensions made after the claims above were written (rounds 3 and 4 of the seeded changes and the defects they led to);
# appended to the claim so that MANIFEST and the evidence files say what is generated now.
EXTENSIONS = {
    "C09": ("In one case of eight route 0 is also announced for 820-1300 host prefixes and the targets then start new sessions, so "
            "that the exported copies are packed into UPDATEs filled to the size limit: every host route must arrive with the "
            "reference attributes."),
    "C10": ("Every attribute of the route a policy hands on must report the length it serialises to (what the UPDATE packer budgets with), "
            "and the flattened attribute list (what is sent) is rendered and compared with the model as well as the accessors. "
            "Statement edits (TestVerifC10_edit): a statement configured piecewise through AddStatement / DeleteStatement(all=false) "
            "with requests of 1-13 parts (seven attribute conditions, route action, five modification actions) must read back as a "
            "statement freshly built from the parts the model holds; a request that cannot be applied as a whole is refused and "
            "changes nothing."),
    "C11": ("The attribute objects of a set are built by the constructors, decoded from the wire, reconstructed from an OLD speaker's "
            "form (RFC 6793) or edited through the Path API (AS prepended) before packing."),
    "C12": ("R may announce with ADD-PATH (several path identifiers per prefix, each with its own re-announcement fate); a third observer "
            "lists LLGR for IPv4 only; the long-lived time may differ per family; the OPEN of R's second session may announce another "
            "restart time and other long-lived tuples / times, by which the second restart cycle has to run. A rival source V (no graceful restart, session stays up) announces some of the prefixes with a longer AS_PATH: in the Loc-RIB "
            "and at both observers R's route is the best one while fresh or merely stale, V's once R's is LLGR-stale or gone."),
    "C14": ("In more than half of the wire-level cases the routes are LEARNED from a peer without the capability (OLD-speaker form built "
            "by the harness, optionally with an RFC 7606 attribute-discard fault in every UPDATE; control: a peer with the capability): "
            "Adj-RIB-In and Loc-RIB must hold the reconstructed 4-octet attributes and no AS4_* attribute, and the observer must "
            "receive every route. The table-level unit also requires every reconstructed attribute to report the length it "
            "serialises to."),
    "C17": ("Table level (TestVerifC17_table): two VRFs over one TableManager, sequences of originate / withdraw in a VRF, VPN routes of "
            "two remote PEs under the VRFs' own RDs with LOCAL_PREF 50/100/200 (so that a VRF's route is not the best of its "
            "destination), DeleteVrf / AddVrf: the VPN table holds exactly the model's (RD:prefix, source) paths, local routes carry the "
            "export targets, DeleteVrf withdraws exactly the deleted VRF's routes. Q's session may be lost and re-established "
            "(memberships start from nothing). Other extended communities may precede the route targets; in a third of the cases the CE sessions negotiate ADD-PATH and "
            "announce / withdraw their prefix under two path identifiers; half of the histories issue operations without waiting for "
            "the previous one (steered yield points incl. the RTC filter)."),
    "C20": ("The management actors also call the rest of the API: ShutdownPeer, hard ResetPeer, GetTable / GetBgp / ListVrf, defined "
            "sets / statements / policies / assignments added, listed and deleted one object at a time, peer groups and dynamic "
            "neighbours, RPKI / BMP listings, SetLogLevel. After Stop every transport connection must be closed. The C07 active unit "
            "under the race detector includes KEEPALIVE+OPEN and OPEN+DisablePeer at one instant and the hand-over yield point."),
    "C07": ("The active unit also draws: KEEPALIVE on one connection and OPEN on the other at once, OPEN on the outbound connection with "
            "DisablePeer 0-300 us later, DisablePeer / EnablePeer; invariants: nothing dialled / accepted / left open while "
            "administratively down, every connection closed after Stop."),
    "C02": ("White-box probe: an UPDATE stamped before the current session came up changes neither Adj-RIB-In nor Loc-RIB."),
}
for _k, _v in EXTENSIONS.items():
    PROPS[_k]["claim"] = PROPS[_k]["claim"] + " " + _v
PROPS["C12"]["note"] = PROPS["C12"]["note"].replace(", depreference of LLGR-stale routes against fresh ones", "")
