"""Per-property check configuration.

Each property has a list of *units*.  A unit is one rapid test function of one
overlaid gobgp package:  (pkg, test, quick=(shards, checks), thorough=(shards,
checks)).  Optional keys: race, steps, gomaxprocs, timeout_q, timeout_t, env.
`fuzz` units (thorough tier only) run native coverage-guided fuzzing.
"""

T = "internal/pkg/table"
B = "pkg/packet/bgp"
S = "pkg/server"

PROPS = {
    "C13": {
        "level": "exploration",
        "rule": ("rapid draws a pattern list from a grammar of matcher shapes and near misses, routes with 0-4 "
                 "communities, and 0-3 set edits; a case is non-trivial when at least one pattern was promoted to a "
                 "non-regexp matcher (observed white-box) and, over its routes, at least one pattern matched and one "
                 "did not; distinct by hash of the whole case"),
        "assumptions": ["Go's regexp package is the reference matcher",
                        "canonical community text is '%d:%d' / ExtendedCommunity.String() / '%d:%d:%d'"],
        "units": [
            {"pkg": T, "test": "TestVerifC13_std", "quick": (6, 2500), "thorough": (6, 60000)},
            {"pkg": T, "test": "TestVerifC13_ext", "quick": (5, 8000), "thorough": (5, 150000)},
            {"pkg": T, "test": "TestVerifC13_large", "quick": (5, 6000), "thorough": (5, 150000)},
        ],
    },
}
