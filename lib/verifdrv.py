"""Driver library for /verif/bin/check: build harness test binaries from the
current /repo working tree (overlay + alternate go.mod, nothing written under
/repo), run rapid shards / replays / native fuzz campaigns, merge statistics,
write the evidence file, classify violations against known_findings.json.

Exit codes of a check: 0 = property held on everything explored (KNOWN-FINDING
lines possible), 1 = VIOLATION line printed, 2 = inconclusive (build failure,
timeout, worker death) -- never reported as a violation.
"""
import hashlib
import json
import os
import re
import shutil
import subprocess
import sys
import time

VERIF = os.path.dirname(os.path.dirname(os.path.abspath(__file__)))
HARNESS = os.path.join(VERIF, "harness")
NCPU = os.cpu_count() or 4


def repo_path():
    return os.path.abspath(os.environ.get("VERIF_REPO", "/repo"))


def go_env():
    env = dict(os.environ)
    env["GOFLAGS"] = "-mod=mod"
    env["GOPROXY"] = "off"
    env["GOTOOLCHAIN"] = "auto"
    env.pop("GOSUMDB", None)
    env.pop("GONOSUMDB", None)
    env.setdefault("GOCACHE", os.path.expanduser("~/.cache/go-build"))
    return env


def build_dir():
    key = hashlib.sha1(repo_path().encode()).hexdigest()[:10]
    d = os.path.join(VERIF, ".build", key)
    os.makedirs(d, exist_ok=True)
    return d


def has_hooks():
    """The verif-tagged hooks are present in the repo under test?"""
    return os.path.exists(os.path.join(repo_path(), "pkg/server/verif_hooks_on.go"))


def prepare_overlay():
    repo = repo_path()
    bd = build_dir()
    # alternate go.mod = /repo/go.mod + rapid
    mod = open(os.path.join(repo, "go.mod")).read()
    if "pgregory.net/rapid" not in mod:
        mod += "\nrequire pgregory.net/rapid v1.3.0\n"
    altmod = os.path.join(bd, "go.alt.mod")
    _write_if_changed(altmod, mod)
    altsum = os.path.join(bd, "go.alt.sum")
    sumtxt = open(os.path.join(repo, "go.sum")).read()
    extra = open(os.path.join(VERIF, "lib", "extra.sum")).read()
    for line in extra.splitlines():
        if line.strip() and line not in sumtxt:
            sumtxt += line + "\n"
    _write_if_changed(altsum, sumtxt)
    replace = {}
    for root, _dirs, files in os.walk(HARNESS):
        rel = os.path.relpath(root, HARNESS)
        for f in files:
            if not f.endswith(".go"):
                continue
            src = os.path.join(root, f)
            dst = os.path.join(repo, rel, "zz_verif_" + f)
            replace[dst] = src
    ov = os.path.join(bd, "overlay.json")
    _write_if_changed(ov, json.dumps({"Replace": replace}, indent=1, sort_keys=True))
    return altmod, ov


def _write_if_changed(path, text):
    try:
        if open(path).read() == text:
            return
    except OSError:
        pass
    with open(path, "w") as f:
        f.write(text)


def build(pkg, race=False, fuzz=None, log=None):
    """Build the test binary of a repo package with the harness overlaid.
    Returns (path, None) or (None, error text)."""
    altmod, ov = prepare_overlay()
    slug = pkg.strip("./").replace("/", "_")
    out = os.path.join(build_dir(), slug + (".race" if race else "") + (".fuzz" if fuzz else "") + ".test")
    cmd = ["go", "test", "-c", "-vet=off", "-modfile=" + altmod, "-overlay=" + ov, "-o", out]
    if has_hooks():
        cmd += ["-tags", "verif"]
    if race:
        cmd += ["-race"]
    if fuzz:
        cmd += ["-fuzz=" + fuzz]
    cmd += ["./" + pkg.strip("./")]
    t0 = time.time()
    p = subprocess.run(cmd, cwd=repo_path(), env=go_env(), stdout=subprocess.PIPE, stderr=subprocess.STDOUT, text=True)
    if log is not None:
        log.append("build %s race=%s: rc=%d %.1fs" % (pkg, race, p.returncode, time.time() - t0))
    if p.returncode != 0:
        return None, p.stdout
    return out, None


def rapid_seed(verif_seed, shard, unit_index):
    s = (int(verif_seed) * 1000003 + shard * 7919 + unit_index * 104729 + 1) & 0x7FFFFFFFFFFFFFFF
    return s or 1


class ShardResult:
    def __init__(self):
        self.rc = None
        self.out = ""
        self.stats = None
        self.fail = None
        self.timed_out = False


def run_shards(binary, test, ident, nshards, checks, seed, unit_index, rundir, timeout_s, extra_env=None,
               extra_args=None, steps=None, gomaxprocs=None, only=None):
    """Run nshards processes of one rapid test; return list of ShardResult (only: run just these shard numbers)."""
    procs = []
    for sh in (only if only is not None else range(nshards)):
        env = dict(os.environ)
        env["VERIF_OUT"] = rundir
        env["VERIF_SHARD"] = "%s-%d" % (ident, sh)
        env["VERIF_KNOWN"] = os.path.join(VERIF, "known_findings.json")
        env.pop("VERIF_REPLAY", None)
        if gomaxprocs:
            gm = gomaxprocs[sh % len(gomaxprocs)]
            env["GOMAXPROCS"] = str(gm)
        else:
            env["GOMAXPROCS"] = "2"
        if extra_env:
            env.update(extra_env)
        args = [binary, "-test.run", "^" + test + "$", "-test.count=1", "-test.timeout", "%ds" % timeout_s,
                "-rapid.checks=%d" % checks, "-rapid.seed=%d" % rapid_seed(seed, sh, unit_index),
                "-rapid.nofailfile", "-rapid.shrinktime=20s"]
        if steps:
            args.append("-rapid.steps=%d" % steps)
        if extra_args:
            args += extra_args
        logf = open(os.path.join(rundir, "%s-%d.log" % (ident, sh)), "w")
        p = subprocess.Popen(args, cwd=rundir, env=env, stdout=logf, stderr=subprocess.STDOUT)
        procs.append((sh, p, logf))
    results = []
    deadline = time.time() + timeout_s + 60
    for sh, p, logf in procs:
        r = ShardResult()
        try:
            r.rc = p.wait(timeout=max(1, deadline - time.time()))
        except subprocess.TimeoutExpired:
            p.kill()
            p.wait()
            r.rc = -9
            r.timed_out = True
        logf.close()
        r.out = open(logf.name, errors="replace").read()
        sid = "%s-%d" % (ident, sh)
        for f in os.listdir(rundir):
            if f.endswith(".%s.stats.json" % sid):
                try:
                    r.stats = json.load(open(os.path.join(rundir, f)))
                except Exception:
                    pass
            if f.endswith(".%s.fail.json" % sid):
                r.fail = os.path.join(rundir, f)
        results.append(r)
    return results


def run_replays(binary, test, files, rundir, ident, timeout_s=300, extra_env=None):
    env = dict(os.environ)
    env["VERIF_OUT"] = rundir
    env["VERIF_SHARD"] = ident
    env["VERIF_KNOWN"] = os.path.join(VERIF, "known_findings.json")
    env["VERIF_REPLAY"] = ",".join(files)
    env.setdefault("GOMAXPROCS", "4")
    if extra_env:
        env.update(extra_env)
    args = [binary, "-test.run", "^" + test + "$", "-test.count=1", "-test.v", "-test.timeout", "%ds" % timeout_s]
    p = subprocess.run(args, cwd=rundir, env=env, stdout=subprocess.PIPE, stderr=subprocess.STDOUT, text=True,
                       errors="replace")
    r = ShardResult()
    r.rc = p.returncode
    r.out = p.stdout
    for f in os.listdir(rundir):
        if f.endswith(".%s.stats.json" % ident):
            try:
                r.stats = json.load(open(os.path.join(rundir, f)))
            except Exception:
                pass
    return r


def load_known():
    p = os.path.join(VERIF, "known_findings.json")
    try:
        return json.load(open(p)).get("findings", [])
    except Exception:
        return []


class Merged:
    def __init__(self):
        self.evaluations = 0
        self.sub = 0
        self.nontrivial = 0
        self.hashes = set()
        self.labels = {}
        self.samples = []
        self.known = {}
        self.known_ex = {}
        self.excluded = {}
        self.units = []

    def add(self, test, stats):
        if not stats:
            return
        self.evaluations += stats.get("evaluations", 0)
        self.sub += stats.get("sub_evaluations", 0)
        self.nontrivial += stats.get("nontrivial", 0)
        for h in stats.get("hashes") or []:
            self.hashes.add((test, h))
        for k, v in (stats.get("labels") or {}).items():
            self.labels[test + ":" + k] = self.labels.get(test + ":" + k, 0) + v
        for s in stats.get("samples") or []:
            if len([x for x in self.samples if x["test"] == test]) < 3:
                self.samples.append({"test": test, "case": s})
        for k, v in (stats.get("known") or {}).items():
            self.known[k] = self.known.get(k, 0) + v
        for k, v in (stats.get("known_examples") or {}).items():
            if k not in self.known_ex or len(v) < len(self.known_ex[k]):
                self.known_ex[k] = v
        for k, v in (stats.get("excluded") or {}).items():
            self.excluded[k] = self.excluded.get(k, 0) + v


def save_replay(prop, failfile):
    d = os.path.join(VERIF, "replays", prop)
    os.makedirs(d, exist_ok=True)
    data = open(failfile, "rb").read()
    name = hashlib.sha1(data).hexdigest()[:12] + ".json"
    dst = os.path.join(d, name)
    with open(dst, "wb") as f:
        f.write(data)
    return dst


def save_log_replay(prop, text, kind):
    d = os.path.join(VERIF, "replays", prop)
    os.makedirs(d, exist_ok=True)
    name = kind + "-" + hashlib.sha1(text.encode(errors="replace")).hexdigest()[:12] + ".log"
    dst = os.path.join(d, name)
    with open(dst, "w") as f:
        f.write(text)
    return dst


PASSED_RE = re.compile(r"\[rapid\] OK, passed (\d+) tests")


def tail(s, n=60):
    lines = s.splitlines()
    return "\n".join(lines[-n:])
