import os, sys
sys.path.insert(0, os.path.dirname(os.path.abspath(__file__)))
import verifdrv as D
from props import PROPS
seen = set()
rc = 0
for prop, cfg in sorted(PROPS.items()):
    for u in cfg["units"]:
        key = (u["pkg"], bool(u.get("race")))
        if key in seen or u.get("kind") == "fuzz":
            continue
        seen.add(key)
        b, err = D.build(u["pkg"], race=key[1])
        print("setup: build %s race=%s -> %s" % (key[0], key[1], "ok" if b else "FAILED"))
        if not b:
            print(D.tail(err, 40))
            rc = 1
sys.exit(rc)
