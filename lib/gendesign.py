#!/usr/bin/env python3
"""Regenerates DESIGN.md sections 9.4 (findings) and 9.5 (seeded changes) from known_findings.json and seeded/*/meta.json."""
import json, glob, os
V = os.path.dirname(os.path.dirname(os.path.abspath(__file__)))
kf = json.load(open(os.path.join(V, 'known_findings.json')))['findings']
out = ["### 9.4 Findings (generated from known_findings.json by lib/gendesign.py)\n",
       "Fixed in /repo (one `fix:` commit each; every entry has a saved case or probe under /verif/regress that fails before the commit and passes after it, re-run in every quick check; race findings are identified by call site):\n",
       "| id | commit | what failed |\n|---|---|---|"]
for e in kf:
    if e['status'] == 'fixed':
        out.append("| %s | %s | %s |" % (e['id'], e.get('commit', ''), e['summary'].replace('|', '/').replace('\n', ' ')[:400]))
out.append("\nOpen known findings (genuine defects or limitations that are not small and safe to repair; each has a deterministic probe, the check prints one `KNOWN-FINDING:` line per entry and exits 0; any other violation of the same property is still reported):\n")
out.append("| id | what fails, and why it is not repaired |\n|---|---|")
for e in kf:
    if e['status'] == 'open':
        out.append("| %s | %s |" % (e['id'], e['summary'].replace('|', '/').replace('\n', ' ')[:700]))
out.append("\n### 9.5 Seeded changes (generated from seeded/*/meta.json)\n")
out.append("Each change was written by a fresh sub-agent that saw only the property text and a scratch worktree; it compiles, passes the existing tests and comes with a demonstration that fails with it and passes without it (re-confirmed with bin/seedcheck).\n")
out.append("| seed | summary | caught by the check | note |\n|---|---|---|---|")
for m in sorted(glob.glob(os.path.join(V, 'seeded/*/meta.json'))):
    d = json.load(open(m)); name = m.split('/')[-2]
    out.append("| %s | %s | %s | %s |" % (name, str(d.get('summary', '')).replace('|', '/').replace('\n', ' ')[:260], 'yes' if d.get('detected_by_check') else 'NO', str(d.get('note', '')).replace('|', '/')[:300]))
p = os.path.join(V, 'DESIGN.md')
s = open(p).read()
a = s.index('### 9.4 Findings')
s = s[:a] + '\n'.join(out) + '\n'
open(p, 'w').write(s)
print("DESIGN.md: regenerated 9.4/9.5")
