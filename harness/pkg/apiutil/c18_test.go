package apiutil

// C18 — API and native representations convert losslessly in both directions
// (path attributes, NLRI and capabilities; the policy and route parts live in
// pkg/server/c18_server_test.go).
//
// For every native value v built by the verifgen generators:
//
//	a  := Marshal(v)            native -> API
//	v' := Unmarshal(a)          API    -> native
//	a' := Marshal(v')           native -> API
//
// the oracle wants  Serialize(v') == Serialize(v)  (same wire bytes) and
// proto.Equal(a', a)  (API -> native -> API is the identity on a).
//
// What is *not* compared, and why:
//   - path identifiers inside MP_REACH_NLRI / MP_UNREACH_NLRI: the API messages
//     MpReachNLRIAttribute / MpUnreachNLRIAttribute carry a list of NLRI without
//     identifier (the identifier of a route is api.Path.identifier), so these
//     attributes are compared as they are sent on a session without ADD-PATH
//     and, when all generated identifiers are zero, with ADD-PATH as well.
//   - the binary forms (api.Path.nlri_binary / pattrs_binary) when the wire
//     decoder itself refuses what a constructor built (an empty COMMUNITIES
//     attribute, ...): the API accepts nothing then, the refusal is the wire
//     codec's business (C04) and is only labelled;
//   - nothing else.  Every other difference is reported; the ones that are
//     consequences of how the API message is defined are listed in KnownIssues
//     together with the ones that look like plain bugs, for triage.
//
// Development aids: VERIF_C18_SURVEY=1 records every failure class instead of
// stopping at the first one (printed with -v), VERIF_C18_UNMASK=key1,key2|all
// switches KnownIssues entries off without editing this file.
// TestVerifC18Probes runs the minimal reproducer of every known issue.

import (
	"bytes"
	"fmt"
	"net/netip"
	"os"
	"reflect"
	"sort"
	"strings"
	"sync"
	"testing"
	"time"

	"github.com/osrg/gobgp/v4/api"
	"github.com/osrg/gobgp/v4/internal/pkg/verifgen"
	"github.com/osrg/gobgp/v4/internal/pkg/verifkit"
	"github.com/osrg/gobgp/v4/pkg/packet/bgp"
	"google.golang.org/protobuf/proto"
	"pgregory.net/rapid"
)

// KnownIssues lists the shapes for which the API conversion of the unchanged
// tree is not lossless (key -> true: a failing case that has the shape is
// counted as excluded instead of failing the test; set an entry to false to
// see the failure).  Every key is documented in c18KnownNotes with a minimal
// reproducer.
var KnownIssues = map[string]bool{
	"nlri-flowspec-unknown-component": true,
	"nlri-rtc-prefix-length":          true,
	"nlri-ls-multi-topo-descriptor":   true,
	"nlri-rd-unknown-type":            true,

	"attr-aggregator-2octet-as":  true,
	"attr-ip6-extcomm-unknown":   true,
	"attr-mp-reach-no-nexthop":   true,
	"attr-prefix-sid-info-flags": true,

	"attr-ls-zero-value-dropped":   true,
	"attr-ls-igp-metric-length":    true,
	"attr-ls-adjacency-sid-fields": true,
	"attr-ls-prefix-sid-dropped":   true,
	"attr-ls-fad-subtlv-dropped":   true,
}

// c18Fixed lists the former KnownIssues keys that were repaired in gobgp (key -> subject of the
// fixing commit).  Their masks are gone - the generators produce the shapes and the oracle
// demands the right behaviour - and their probes are kept as regression tests: they must pass.
var c18Fixed = map[string]string{
	"nlri-srpolicy-length-unit":          "fix: apiutil: report the SR Policy NLRI length in bits",
	"nlri-evpn-ipmsi-not-converted":      "fix: apiutil: convert the EVPN I-PMSI route (type 9) to and from the API",
	"attr-extcomm-l2-attributes":         "fix: apiutil: convert extended communities without API message as unknown",
	"attr-tunnel-srbsid-empty":           "fix: apiutil: SR policy Binding SID sub-TLV without SID no longer panics",
	"attr-tunnel-srbsid-label-shift":     "fix: apiutil: report the MPLS Binding SID of an SR policy as the label value",
	"attr-tunnel-segment-list-no-weight": "fix: apiutil: SR policy segment list without Weight sub-TLV",
	"attr-prefix-sid-l2-service":         "fix: apiutil: accept the SRv6 L2 Service TLV of PREFIX_SID from the API",
	"attr-prefix-sid-subtlv-count":       "fix: apiutil: length of an SRv6 service TLV built from the API",
	"attr-mp-reach-link-local-afi":       "fix: apiutil: keep the link-local next hop of MP_REACH_NLRI for non-IPv6 AFIs",
	"attr-ls-igp-flags-fabricates-tlvs":  "fix: apiutil: BGP-LS prefix attribute TLVs are independent of the IGP Flags TLV",
	// the apiutil half by the commit above, the constructor by "fix: NewLsTLVOpaquePrefixAttr builds a TLV that cannot be serialised" (codec triage C04)
	"attr-ls-opaque-prefix-attr-dropped": "fix: apiutil: BGP-LS prefix attribute TLVs are independent of the IGP Flags TLV",
	// repaired in pkg/packet/bgp by the codec triage (C04): the API -> native direction uses these constructors
	"attr-ls-ctor-length":             "fix: NewLsTLVLocalIPv6RouterID builds a TLV that cannot be serialised (and the three like it: RemoteIPv6RouterID, SrCapabilities, SrLocalBlock)",
	"attr-ls-peer-adjacency-sid-type": "fix: NewLsTLVPeerAdjacencySID builds an Adjacency SID TLV",
	// repaired in pkg/packet/bgp (bgp.NewLsAttributeTLVs) by the second triage of the C18 keys rooted in the codec
	"attr-ls-local-router-id-duplicated": "fix: NewLsAttributeTLVs emits the Router-ID of Local Node TLV once",
	"attr-ls-flex-algo-dropped":          "fix: NewLsAttributeTLVs builds the Flexible Algorithm TLVs",
}

// c18KnownNotes documents each key of KnownIssues and of c18Fixed (as it was before the fix): what
// input, what happens, which function.  The minimal reproducer of every key is the probe of the
// same name in c18Probes (run by TestVerifC18Probes and replayable as
// {"test": "C18_attr"|"C18_nlri", "probe": key}).
var c18KnownNotes = map[string]string{
	"nlri-srpolicy-length-unit": "SRPolicyNLRI (every value): MarshalNLRI copies SRPolicyNLRI.Length, which is in octets (12/24), into api.SRPolicyNLRI.length; " +
		"UnmarshalNLRI hands that number to bgp.NewSRPolicy, which takes bits and divides by 8 -> Length 1 or 3, and Serialize of the result panics " +
		"(slice bounds out of range) - also through UnmarshalAttribute for MP_REACH/MP_UNREACH of the SR policy families.",
	"nlri-flowspec-unknown-component": "FlowSpecNLRI with a component of a type the decoder does not know (FlowSpecUnknown, what the parser produces for types > 24): " +
		"MarshalFlowSpecRules has no case for it and emits an empty api.FlowSpecRule, UnmarshalFlowSpecRules rejects that ('invalid flow spec component').",
	"nlri-rtc-prefix-length": "RouteTargetMembershipNLRI whose prefix length is not the one NewRouteTargetMembershipNLRI derives (origin-AS-only /32 with AS 0, " +
		"route target prefixes /33../95): api.RouteTargetMembershipNLRI has no length field, UnmarshalNLRI returns a /0 or /96 NLRI.",
	"nlri-ls-multi-topo-descriptor": "BGP-LS Link / Prefix NLRI with a Multi-Topology Identifier descriptor TLV (263): LsLinkDescriptor/LsPrefixDescriptor.ParseTLVs " +
		"and the API messages have no field for it (only the SRv6 SID NLRI has), MarshalLsLinkNLRI/MarshalLsPrefixV4NLRI/V6 drop the TLV although it is part of the NLRI key.",
	"nlri-rd-unknown-type": "NLRI with a route distinguisher of a type other than 0, 1, 2 (bgp.RouteDistinguisherUnknown, what the decoder produces for it): api.RouteDistinguisher " +
		"has no message for it, MarshalRD fails with 'invalid rd type to marshal' and with it MarshalNLRI / MarshalPathAttributes (toPathApi ignores the error: the route is listed without NLRI / attributes).",
	"nlri-evpn-ipmsi-not-converted": "EVPN I-PMSI route (route type 9, bgp.NewEVPNIPMSIRoute): the API defines EVPNIPMSIRoute (NLRI.evpn_i_pmsi) but MarshalNLRI had no case for the route type " +
		"and returned an api.NLRI without content; UnmarshalNLRI rejected the message ('invalid nlri').",
	"attr-aggregator-2octet-as": "AGGREGATOR built with a 2-octet AS (bgp.NewPathAttributeAggregator(uint16, addr), 6 octet value): api.AggregatorAttribute has no " +
		"width, UnmarshalAttribute always builds the 4-octet form (8 octet value).",
	"attr-extcomm-l2-attributes": "EXTENDED_COMMUNITIES containing Layer2AttributesExtended (EVPN layer 2 attributes, which ParseExtended produces): " +
		"NewExtendedCommunitiesAttributeFromNative has no case -> MarshalPathAttributes fails with 'unsupported extended community' (toPathApi ignores the error and returns a path without attributes).",
	"attr-ip6-extcomm-unknown": "IP6_EXTENDED_COMMUNITIES containing UnknownIP6Extended (what the decoder produces for an unknown type/sub-type): " +
		"NewIP6ExtendedCommunitiesAttributeFromNative fails with 'invalid ipv6 extended community'.",
	"attr-tunnel-srbsid-empty": "TUNNEL_ENCAP SR policy Binding SID sub-TLV without SID (length 2, legal per RFC 9830 and produced by the decoder): MarshalSRBSID emits an empty sid, " +
		"UnmarshalSRBSID calls bgp.NewBSID(empty) which returns (nil, nil) and then b.Len() dereferences nil -> panic in UnmarshalAttribute.",
	"attr-tunnel-srbsid-label-shift": "TUNNEL_ENCAP SR policy Binding SID sub-TLV with a 4 octet SID: MarshalSRBSID copies the wire octets (label already in the upper 20 bits), " +
		"UnmarshalSRBSID passes them to bgp.NewBSID which shifts the value left by 12 again: label 100 (00064000) comes back as 64000000.",
	"attr-tunnel-segment-list-no-weight": "TUNNEL_ENCAP SR policy Segment List sub-TLV without Weight sub-TLV (optional on the wire, the decoder leaves Weight nil): " +
		"NewTunnelEncapAttributeFromNative dereferences sv.Weight -> panic in MarshalPathAttributes (reachable from ListPath/WatchEvent for a received route).",
	"attr-prefix-sid-l2-service": "PREFIX_SID with an SRv6 L2 Service TLV (type 6): MarshalSRv6TLVs converts it to api l2_service, UnmarshalPrefixSID only knows l3_service " +
		"('unknown or not implemented Prefix SID type').",
	"attr-prefix-sid-subtlv-count": "PREFIX_SID SRv6 service TLV with a number of SRv6 Information sub-TLVs other than one: UnmarshalSubTLVs computes the TLV length as " +
		"sum(sub-TLV length + 4), i.e. one reserved octet per sub-TLV instead of per TLV: 0 sub-TLVs -> length 0 (reserved octet missing), 2 sub-TLVs -> one octet too many.",
	"attr-prefix-sid-info-flags": "PREFIX_SID SRv6 Information sub-TLV with non-zero SRv6 Service SID flags: MarshalSRv6SubTLVs always emits an empty api.SRv6SIDFlags, UnmarshalSubTLVs sets Flags 0.",
	"attr-mp-reach-no-nexthop": "MP_REACH_NLRI without next hop for a family other than flowspec (bgp.NewPathAttributeMpReachNLRI(RF_OPAQUE, nlri), next hop length 0): " +
		"NewMpReachNLRIAttributeFromNative reports no next hop (it used to render the zero netip.Addr as the string 'invalid IP', repaired), and UnmarshalAttribute " +
		"turns an empty next_hops into the unspecified address 0.0.0.0 / :: (its default for API clients that leave the next hop out): next hop length 0 becomes 4 / 16.",
	"attr-mp-reach-link-local-afi": "MP_REACH_NLRI with global + link-local IPv6 next hop for a family whose AFI is not IPv6 (RFC 8950 IPv4 families, L2VPN, LS, ...): " +
		"NewMpReachNLRIAttributeFromNative emits both next hops, UnmarshalAttribute only reads next_hops[1] when the AFI is IPv6 - the link-local address is lost (32 -> 16 octet next hop).",
	"attr-ls-zero-value-dropped": "BGP-LS attribute TLV whose value is the zero value (admin group 0, TE metric 0, bandwidth 0, IGP metric 0, delay 0, adjacency SID 0, empty opaque / SRLG): " +
		"LsAttribute API fields have no presence, UnmarshalLsAttribute treats 0/empty as absent and the TLV disappears.",
	"attr-ls-igp-metric-length":    "BGP-LS IGP Metric TLV in its 1 or 2 octet form (IS-IS small metric, OSPF): api has a plain number, NewLsTLVIGPMetric always builds the 3 octet form.",
	"attr-ls-adjacency-sid-fields": "BGP-LS Adjacency SID TLV with flags, weight or a 4 octet index: PathAttributeLs.Extract keeps the SID only, NewLsTLVAdjacencySID emits flags 0 / weight 0 / 3 octet label.",
	"attr-ls-local-router-id-duplicated": "BGP-LS IPv4/IPv6 Router-ID of Local Node TLV: PathAttributeLs.Extract stores it in Node and in Link, NewLsAttributeFromNative emits both, " +
		"UnmarshalLsAttribute/NewLsAttributeTLVs build the TLV twice.",
	"attr-ls-ctor-length": "BGP-LS IPv6 local/remote router-id, SR capabilities and SR local block TLVs: the API -> native direction uses bgp.NewLsAttributeTLVs, whose constructors " +
		"set a wrong Length (verifgen.KnownCodecIssues ls-ctor-*), so the converted attribute no longer serialises ('LS TLV malformed').",
	"attr-ls-peer-adjacency-sid-type": "BGP-LS Peer Adjacency SID TLV (1102): bgp.NewLsTLVPeerAdjacencySID, used by the API -> native direction, sets type 1099 (Adjacency SID) - verifgen.KnownCodecIssues ls-ctor-peer-adjacency-sid-type.",
	"attr-ls-igp-flags-fabricates-tlvs": "BGP-LS IGP Flags TLV: when igp_flags is present UnmarshalLsAttribute also sets Prefix.Opaque and Prefix.SrPrefixSID to non-nil pointers, " +
		"so NewLsAttributeTLVs adds an Opaque Prefix Attribute and a Prefix-SID TLV that were never there (and the latter does not serialise: ls-ctor-prefix-sid).",
	"attr-ls-prefix-sid-dropped": "BGP-LS Prefix-SID TLV with flags, an algorithm or the 3 octet label form: NewLsAttributeFromNative emits sr_prefix_sid / sr_prefix_sids and UnmarshalLsAttribute " +
		"keeps both (it used to keep sr_prefix_sid only when igp_flags was present: repaired, as is the constructor bgp.NewLsTLVPrefixSID, which set Length 0), but bgp.NewLsAttributeTLVs builds " +
		"the TLV from SrPrefixSID alone (flags 0, algorithm 0, 4 octet index) and never looks at SrPrefixSIDs, which carry flags and algorithm.",
	"attr-ls-opaque-prefix-attr-dropped": "BGP-LS Opaque Prefix Attribute TLV: UnmarshalLsAttribute only kept prefix.opaque when igp_flags was present, and bgp.NewLsTLVOpaquePrefixAttr set Length 0 " +
		"so that the TLV did not serialise for a non-empty value (an empty value is still dropped: attr-ls-zero-value-dropped).",
	"attr-ls-flex-algo-dropped": "BGP-LS Flexible Algorithm Definition / Flex-Algo Prefix Metric TLVs: converted to flex_algo_defs / fad_prefix_metrics and back into LsAttribute, " +
		"but bgp.NewLsAttributeTLVs built no TLV from FlexAlgoDefs / FadPrefixMetrics (the sub-TLVs without API field are attr-ls-fad-subtlv-dropped).",
	"attr-ls-fad-subtlv-dropped": "BGP-LS Flexible Algorithm Definition TLV with a Flex-Algorithm Unsupported sub-TLV (1046) or a sub-TLV of an unknown type (both kept by the decoder in " +
		"LsTLVFlexAlgoDef.Unsupported / .Unknown): bgp.LsAttributeFlexAlgoDef (PathAttributeLs.Extract) and api.LsAttributeFlexAlgoDef have no field for them, the sub-TLV is lost.",
}

func init() {
	// VERIF_C18_UNMASK=key1,key2 (or "all") switches entries off without editing the file
	for _, k := range strings.Split(os.Getenv("VERIF_C18_UNMASK"), ",") {
		if k == "all" {
			for x := range KnownIssues {
				KnownIssues[x] = false
			}
		} else if _, ok := KnownIssues[k]; ok {
			KnownIssues[k] = false
		}
	}
}

// ---------------------------------------------------------------------------
// coverage bookkeeping: every concrete Go type the generators produce is
// labelled; the test fails when an expected type was never produced.
// ---------------------------------------------------------------------------

type c18Cover struct {
	mu    sync.Mutex
	seen  map[string]int
	cases int
}

func (c *c18Cover) label(st *verifkit.Stats, l string) {
	st.Label(l)
	c.mu.Lock()
	if c.seen == nil {
		c.seen = map[string]int{}
	}
	c.seen[l]++
	c.mu.Unlock()
}

func (c *c18Cover) done() { c.mu.Lock(); c.cases++; c.mu.Unlock() }

// require fails the test when the run was long enough to expect full coverage and a label is missing.
func (c *c18Cover) require(t *testing.T, minCases int, want []string) {
	c.mu.Lock()
	defer c.mu.Unlock()
	if c.cases < minCases {
		return
	}
	var missing []string
	for _, w := range want {
		if c.seen[w] == 0 {
			missing = append(missing, w)
		}
	}
	if len(missing) > 0 {
		sort.Strings(missing)
		t.Errorf("VERIF-COVERAGE: %d cases ran but these types were never produced: %s", c.cases, strings.Join(missing, ", "))
	}
}

func typeName(v any) string { return strings.TrimPrefix(fmt.Sprintf("%T", v), "*bgp.") }

// c18Known decides what to do with a failure f of a value that has the known shapes keys.
func c18Known(st *verifkit.Stats, f *verifkit.Failure, keys []string) *verifkit.Failure {
	if f == nil {
		return nil
	}
	for _, k := range keys {
		on, ok := KnownIssues[k]
		if !ok {
			panic("c18: shape " + k + " is not listed in KnownIssues")
		}
		if on {
			st.Exclude(k)
			st.Label("known-issue/" + k)
			c18Masked.Store(st, true)
			return nil
		}
	}
	if len(keys) > 0 {
		f.Msg += fmt.Sprintf(" [known shapes, unmasked: %s]", strings.Join(keys, ","))
	}
	return f
}

// Survey mode (development aid): VERIF_C18_SURVEY=1 turns every failure into a label and keeps
// the shortest message per class, so that one run lists all failure classes instead of the first.
var (
	c18Survey   = os.Getenv("VERIF_C18_SURVEY") != ""
	c18SurveyMu sync.Mutex
	c18SurveyEx = map[string]string{}
	c18SurveyN  = map[string]int{}
)

func c18SurveyOr(st *verifkit.Stats, class string, f *verifkit.Failure) *verifkit.Failure {
	if f == nil || !c18Survey {
		return f
	}
	k := f.Sig + " " + class
	c18SurveyMu.Lock()
	c18SurveyN[k]++
	if old, ok := c18SurveyEx[k]; !ok || len(f.Msg) < len(old) {
		c18SurveyEx[k] = f.Msg
	}
	c18SurveyMu.Unlock()
	return nil
}

func c18SurveyReport(t *testing.T) {
	if !c18Survey {
		return
	}
	var ks []string
	for k := range c18SurveyEx {
		ks = append(ks, k)
	}
	sort.Strings(ks)
	for _, k := range ks {
		m := c18SurveyEx[k]
		if len(m) > 1500 {
			m = m[:1500] + "..."
		}
		t.Logf("SURVEY %6d  %s\n      %s", c18SurveyN[k], k, m)
	}
}

// c18Verdict tells (and resets) whether c18Known masked a failure of the current case.
var c18Masked sync.Map // *verifkit.Stats -> bool

func c18Verdict(st *verifkit.Stats) string {
	if _, was := c18Masked.LoadAndDelete(st); was {
		return "masked"
	}
	return "ok"
}

func guard(sig, what string, fn func()) (f *verifkit.Failure) {
	defer func() {
		if r := recover(); r != nil {
			f = verifkit.Failf(sig, "%s panicked: %v", what, r)
		}
	}()
	fn()
	return nil
}

type c18Case struct {
	Kind   int      `json:"kind"`
	Recipe []uint32 `json:"recipe"`
}

func drawC18(maxKind func() int) func(t *rapid.T) c18Case {
	return func(t *rapid.T) c18Case {
		return c18Case{
			// rapid favours small and boundary numbers; the recipe scrambler spreads them evenly
			Kind:   verifgen.NewSrc([]uint32{rapid.Uint32().Draw(t, "kind")}).Intn(maxKind()),
			Recipe: rapid.SliceOfN(rapid.Uint32(), 40, 240).Draw(t, "recipe"),
		}
	}
}

func c18FuzzCase(data []byte) (c18Case, bool) {
	if len(data) < 1 {
		return c18Case{}, false
	}
	c := c18Case{Kind: int(data[0])}
	src := data[1:]
	for len(src) >= 4 {
		c.Recipe = append(c.Recipe, uint32(src[0])|uint32(src[1])<<8|uint32(src[2])<<16|uint32(src[3])<<24)
		src = src[4:]
	}
	return c, true
}

func c18FuzzSeeds(f *testing.F, kinds int) {
	for k := 0; k < kinds && k < 256; k++ {
		f.Add([]byte{byte(k)})
		f.Add([]byte{byte(k), 9, 9, 9, 9, 1, 0, 0, 0, 7, 7, 7, 7, 3, 0, 0, 0, 2, 0, 0, 0, 5, 5, 5, 5, 0xff, 0xff, 0xff, 0xff, 8, 1, 2, 3})
	}
}

// ---------------------------------------------------------------------------
// path attributes
// ---------------------------------------------------------------------------

var c18AttrCover c18Cover

// c18AttrSlots maps the drawn kind to a verifgen attribute kind (>= 0), MP_REACH_NLRI (-1) or
// MP_UNREACH_NLRI (-2).  The attributes with many nested types get more slots: the BGP-LS
// attribute has 36 TLV types, MP_(UN)REACH stands for 26 families.
var c18AttrSlots = func() []int {
	var slots []int
	basic := verifgen.NumAttrKinds - verifgen.NumExoticAttrKinds
	for k := 0; k < verifgen.NumAttrKinds; k++ {
		n := 1
		switch k - basic {
		case verifgen.ExoticAttrExtCommunities, verifgen.ExoticAttrTunnelEncap:
			n = 3
		case verifgen.ExoticAttrPrefixSID:
			n = 2
		case verifgen.ExoticAttrLs:
			n = 8
		}
		for i := 0; i < n; i++ {
			slots = append(slots, k)
		}
	}
	for i := 0; i < 4; i++ {
		slots = append(slots, -1, -2)
	}
	return slots
}()

func c18NumAttrKinds() int { return len(c18AttrSlots) }

func c18AllAddPath() *bgp.MarshallingOption {
	o := &bgp.MarshallingOption{AddPath: map[bgp.Family]bgp.BGPAddPathMode{}}
	for _, f := range verifgen.AllFamilies {
		o.AddPath[f] = bgp.BGP_ADD_PATH_BOTH
	}
	return o
}

// c18BuildAttr builds the native attribute of the case; idsZero tells whether an MP attribute
// has only zero path identifiers.
func c18BuildAttr(c c18Case) (a bgp.PathAttributeInterface, what string, idsZero bool) {
	s := verifgen.NewSrc(c.Recipe)
	n := c18NumAttrKinds()
	kind := c18AttrSlots[((c.Kind%n)+n)%n]
	if kind >= 0 {
		return verifgen.Attr(s, kind), verifgen.AttrName(kind), true
	}
	f := verifgen.Pick(s, verifgen.AllFamilies)
	l := verifgen.PathNLRIs(s, f, 4)
	if s.Bool() {
		for i := range l {
			l[i].ID = 0
		}
	}
	idsZero = true
	for _, p := range l {
		if p.ID != 0 {
			idsZero = false
		}
	}
	if kind == -1 {
		a, _ = bgp.NewPathAttributeMpReachNLRI(f, l, verifgen.MPNextHops(s, f)...)
		return a, "mp-reach/" + f.String(), idsZero
	}
	a, _ = bgp.NewPathAttributeMpUnreachNLRI(f, l)
	return a, "mp-unreach/" + f.String(), idsZero
}

// c18AttrComponents labels the nested concrete types of an attribute and tells whether the
// attribute is non-trivial (>=1 optional/nested component or a non-core type).
func c18AttrComponents(a bgp.PathAttributeInterface, lab func(string)) (nontrivial bool) {
	switch v := a.(type) {
	case *bgp.PathAttributeAsPath:
		for _, p := range v.Value {
			lab("attr/as-path-param/" + typeName(p))
		}
		return len(v.Value) >= 2
	case *bgp.PathAttributeAs4Path:
		return len(v.Value) >= 2
	case *bgp.PathAttributeCommunities:
		return len(v.Value) >= 2
	case *bgp.PathAttributeClusterList:
		return len(v.Value) >= 2
	case *bgp.PathAttributeLargeCommunities:
		return len(v.Values) >= 2
	case *bgp.PathAttributeOrigin, *bgp.PathAttributeNextHop, *bgp.PathAttributeMultiExitDisc, *bgp.PathAttributeLocalPref,
		*bgp.PathAttributeAtomicAggregate, *bgp.PathAttributeAggregator, *bgp.PathAttributeOriginatorId, *bgp.PathAttributeAs4Aggregator:
		return false
	case *bgp.PathAttributeExtendedCommunities:
		for _, e := range v.Value {
			lab("attr/ext-community/" + typeName(e))
		}
	case *bgp.PathAttributeIP6ExtendedCommunities:
		for _, e := range v.Value {
			lab("attr/ip6-ext-community/" + typeName(e))
		}
	case *bgp.PathAttributeTunnelEncap:
		for _, t := range v.Value {
			for _, st := range t.Value {
				lab("attr/tunnel-sub-tlv/" + typeName(st))
				if sl, ok := st.(*bgp.TunnelEncapSubTLVSRSegmentList); ok {
					for _, seg := range sl.Segments {
						lab("attr/tunnel-segment/" + typeName(seg))
					}
				}
			}
		}
	case *bgp.PathAttributePmsiTunnel:
		lab("attr/pmsi-id/" + typeName(v.TunnelID))
	case *bgp.PathAttributeAigp:
		for _, t := range v.Values {
			lab("attr/aigp-tlv/" + typeName(t))
		}
	case *bgp.PathAttributePrefixSID:
		for _, t := range v.TLVs {
			lab("attr/prefix-sid-tlv/" + typeName(t))
			if sv, ok := t.(*bgp.SRv6ServiceTLV); ok {
				lab(fmt.Sprintf("attr/prefix-sid-service-type/%d", sv.Type))
			}
		}
	case *bgp.PathAttributeLs:
		for _, t := range v.TLVs {
			lab("attr/ls-tlv/" + typeName(t))
		}
	case *bgp.PathAttributeMpReachNLRI:
		for _, n := range v.Value {
			c18NLRIComponents(n.NLRI, lab)
		}
	case *bgp.PathAttributeMpUnreachNLRI:
		for _, n := range v.Value {
			c18NLRIComponents(n.NLRI, lab)
		}
	}
	return true
}

func c18MarshalAttr(a bgp.PathAttributeInterface) (m *api.Attribute, f *verifkit.Failure) {
	var l []*api.Attribute
	var err error
	if f = guard("panic-marshal", "MarshalPathAttributes", func() { l, err = MarshalPathAttributes([]bgp.PathAttributeInterface{a}) }); f != nil {
		return nil, f
	}
	if err != nil {
		return nil, verifkit.Failf("marshal-error", "MarshalPathAttributes refuses a constructible %T: %v", a, err)
	}
	if len(l) != 1 || l[0] == nil || l[0].Attr == nil {
		return nil, verifkit.Failf("marshal-empty", "MarshalPathAttributes turns a %T into an empty api.Attribute (no conversion for this type)", a)
	}
	return l[0], nil
}

// c18CheckAttr is the oracle for one native attribute.
func c18CheckAttr(a bgp.PathAttributeInterface, idsZero bool, st *verifkit.Stats) *verifkit.Failure {
	opts := []*bgp.MarshallingOption{{}}
	if idsZero {
		opts = append(opts, c18AllAddPath())
	}
	wire := make([][]byte, len(opts))
	for i, o := range opts {
		b, err := a.Serialize(o)
		if err != nil {
			return verifkit.Failf("generator", "generated %T does not serialise: %v", a, err)
		}
		wire[i] = b
	}
	m, f := c18MarshalAttr(a)
	if f != nil {
		return f
	}
	var a2 bgp.PathAttributeInterface
	var err error
	if f = guard("panic-unmarshal", "UnmarshalAttribute", func() { a2, err = UnmarshalAttribute(m) }); f != nil {
		f.Msg += fmt.Sprintf(" (api %v, native wire %x)", m, wire[0])
		return f
	}
	if err != nil {
		return verifkit.Failf("unmarshal-error", "UnmarshalAttribute refuses the API form of a constructible %T: %v (api %v, native wire %x)", a, err, m, wire[0])
	}
	if a2 == nil {
		return verifkit.Failf("unmarshal-nil", "UnmarshalAttribute returns nil without error for %v", m)
	}
	for i, o := range opts {
		var b2 []byte
		if f = guard("panic-serialize-converted", "Serialize of the converted attribute", func() { b2, err = a2.Serialize(o) }); f != nil {
			f.Msg += fmt.Sprintf(" (api %v, native wire %x)", m, wire[0])
			return f
		}
		if err != nil {
			return verifkit.Failf("converted-unserialisable", "%T -> API -> native no longer serialises: %v (api %v, native wire %x)", a, err, m, wire[i])
		}
		st.SubEval(1)
		if !bytes.Equal(wire[i], b2) {
			return verifkit.Failf("wire-mismatch", "%T: native wire %x, after native->API->native %x (options %s, api %v)", a, wire[i], b2, verifgen.OptString(o), m)
		}
		// a route added through the API is packed into UPDATEs with the length its attributes report
		if n := a2.Len(o); n != len(b2) {
			return verifkit.Failf("converted-length", "%T: after native->API->native the attribute reports %d octets and serialises to %d (options %s, api %v)", a, n, len(b2), verifgen.OptString(o), m)
		}
	}
	m2, f := c18MarshalAttr(a2)
	if f != nil {
		f.Msg += " (second conversion)"
		return f
	}
	st.SubEval(1)
	if !proto.Equal(m, m2) {
		return verifkit.Failf("api-mismatch", "%T: API %v, after API->native->API %v", a, m, m2)
	}
	// the batch entry point must agree with the single-attribute one
	l, err := UnmarshalPathAttributes([]*api.Attribute{m})
	if err != nil || len(l) != 1 {
		return verifkit.Failf("unmarshal-list", "UnmarshalPathAttributes refuses what UnmarshalAttribute accepts: %v", err)
	}
	// api.Path entry points: structured and binary attributes give the same native attribute
	pl, err := GetNativePathAttributes(&api.Path{Pattrs: []*api.Attribute{m}})
	if err != nil || len(pl) != 1 {
		return verifkit.Failf("getnative-error", "GetNativePathAttributes refuses pattrs %v: %v", m, err)
	}
	if b, err := pl[0].Serialize(opts[0]); err != nil || !bytes.Equal(b, wire[0]) {
		return verifkit.Failf("wire-mismatch", "%T: native wire %x, via GetNativePathAttributes(pattrs) %x (%v)", a, wire[0], b, err)
	}
	var bl []bgp.PathAttributeInterface
	if f = guard("panic-getnative-binary", "GetNativePathAttributes(pattrs_binary)", func() {
		bl, err = GetNativePathAttributes(&api.Path{PattrsBinary: [][]byte{wire[0]}})
	}); f != nil {
		f.Msg += fmt.Sprintf(" (pattrs_binary %x)", wire[0])
		return f
	}
	if err != nil {
		// the wire decoder refuses what the constructor built (an empty COMMUNITIES, ...): that is
		// the codec's business (C04), the API accepts nothing here and so has nothing to preserve
		st.Label("binary-form-refused-by-decoder/" + typeName(a))
		return nil
	}
	if len(bl) != 1 {
		return verifkit.Failf("getnative-binary-error", "GetNativePathAttributes returns %d attributes for pattrs_binary %x", len(bl), wire[0])
	}
	st.SubEval(1)
	if b, err := bl[0].Serialize(opts[0]); err != nil || !bytes.Equal(b, wire[0]) {
		return verifkit.Failf("wire-mismatch-binary", "%T: native wire %x, via pattrs_binary %x (%v)", a, wire[0], b, err)
	}
	return nil
}

func runC18Attr(c c18Case, st *verifkit.Stats) *verifkit.Failure {
	defer c18AttrCover.done()
	lab := func(l string) { c18AttrCover.label(st, l) }
	a, what, idsZero := c18BuildAttr(c)
	if a == nil {
		return verifkit.Failf("generator", "generator returned no attribute for %s", what)
	}
	lab("attr-kind/" + what)
	lab("attr/" + typeName(a))
	if c18AttrComponents(a, lab) {
		st.Nontrivial()
	}
	f := c18CheckAttr(a, idsZero, st)
	if c18LsSurvey(st, a, f) {
		return nil
	}
	f = c18SurveyOr(st, what, c18Known(st, f, c18AttrShapes(a)))
	if f == nil {
		st.Label("verdict/" + c18Verdict(st) + "/" + typeName(a))
	}
	return f
}

func TestVerifC18_attr(t *testing.T) {
	verifkit.Run(t, "C18_attr", drawC18(c18NumAttrKinds), runC18Attr)
	c18SurveyReport(t)
	c18AttrCover.require(t, 20000, c18AttrExpected())
}

func FuzzVerifC18_attr(f *testing.F) {
	c18FuzzSeeds(f, c18NumAttrKinds())
	f.Fuzz(func(t *testing.T, data []byte) {
		c, ok := c18FuzzCase(data)
		if !ok {
			return
		}
		if fail := runC18Attr(c, verifkit.Scratch("C18_attr")); fail != nil {
			t.Fatalf("VERIF-FAIL C18_attr sig=%q: %s", fail.Sig, fail.Msg)
		}
	})
}

// ---------------------------------------------------------------------------
// NLRI
// ---------------------------------------------------------------------------

var c18NLRICover c18Cover

func c18RDName(rd bgp.RouteDistinguisherInterface) string {
	if rd == nil {
		return "none"
	}
	return typeName(rd)
}

// c18NLRIComponents labels the concrete types inside an NLRI; true when non-trivial.
func c18NLRIComponents(n bgp.NLRI, lab func(string)) (nontrivial bool) {
	lab("nlri/" + typeName(n))
	switch v := n.(type) {
	case *bgp.IPAddrPrefix:
		return false
	case *bgp.LabeledIPAddrPrefix:
		lab(fmt.Sprintf("nlri/labels/%d", len(v.Labels.Labels)))
	case *bgp.LabeledVPNIPAddrPrefix:
		lab(fmt.Sprintf("nlri/labels/%d", len(v.Labels.Labels)))
		lab("nlri/rd/" + c18RDName(v.RD))
	case *bgp.VPLSNLRI:
		lab("nlri/rd/" + c18RDName(v.RD()))
	case *bgp.EVPNNLRI:
		lab("nlri/evpn/" + typeName(v.RouteTypeData))
		lab("nlri/rd/" + c18RDName(v.RD()))
		switch r := v.RouteTypeData.(type) {
		case *bgp.EVPNEthernetAutoDiscoveryRoute:
			lab(fmt.Sprintf("nlri/esi-type/%d", r.ESI.Type))
		case *bgp.EVPNMacIPAdvertisementRoute:
			lab(fmt.Sprintf("nlri/esi-type/%d", r.ESI.Type))
			lab(fmt.Sprintf("nlri/evpn-macip-iplen/%d", r.IPAddressLength))
			lab(fmt.Sprintf("nlri/evpn-macip-labels/%d", len(r.Labels)))
		case *bgp.EVPNEthernetSegmentRoute:
			lab(fmt.Sprintf("nlri/esi-type/%d", r.ESI.Type))
		case *bgp.EVPNIPPrefixRoute:
			lab(fmt.Sprintf("nlri/esi-type/%d", r.ESI.Type))
		}
	case *bgp.RouteTargetMembershipNLRI:
		if v.RouteTarget == nil {
			lab("nlri/rtc-rt/none")
		} else {
			lab("nlri/rtc-rt/" + typeName(v.RouteTarget))
		}
		switch {
		case v.Length == 0:
			lab("nlri/rtc-len/0")
		case v.Length == 32:
			lab("nlri/rtc-len/32")
		case v.Length == 96:
			lab("nlri/rtc-len/96")
		default:
			lab("nlri/rtc-len/partial")
		}
	case *bgp.FlowSpecNLRI:
		lab("nlri/rd/" + c18RDName(v.RD()))
		for _, c := range v.Value {
			lab("nlri/flowspec/" + typeName(c))
		}
	case *bgp.LsAddrPrefix:
		lab("nlri/ls/" + typeName(v.NLRI))
	case *bgp.MUPNLRI:
		lab("nlri/mup/" + typeName(v.RouteTypeData))
		switch r := v.RouteTypeData.(type) {
		case *bgp.MUPType1SessionTransformedRoute:
			for _, t := range r.TLVs {
				lab("nlri/mup-tlv/" + typeName(t))
			}
		case *bgp.MUPType2SessionTransformedRoute:
			for _, t := range r.TLVs {
				lab("nlri/mup-tlv/" + typeName(t))
			}
		}
	}
	return true
}

func c18MarshalNLRI(n bgp.NLRI) (m *api.NLRI, f *verifkit.Failure) {
	var err error
	if f = guard("panic-marshal", "MarshalNLRI", func() { m, err = MarshalNLRI(n) }); f != nil {
		return nil, f
	}
	if err != nil {
		return nil, verifkit.Failf("marshal-error", "MarshalNLRI refuses a constructible %T: %v", n, err)
	}
	if m == nil || m.Nlri == nil {
		return nil, verifkit.Failf("marshal-empty", "MarshalNLRI turns %T (%s) into an empty api.NLRI (no conversion for this type)", n, c18NLRIInner(n))
	}
	return m, nil
}

func c18NLRIInner(n bgp.NLRI) string {
	switch v := n.(type) {
	case *bgp.EVPNNLRI:
		return typeName(v.RouteTypeData)
	case *bgp.MUPNLRI:
		return typeName(v.RouteTypeData)
	case *bgp.LsAddrPrefix:
		return typeName(v.NLRI)
	}
	return typeName(n)
}

func c18CheckNLRI(f bgp.Family, n bgp.NLRI, st *verifkit.Stats) *verifkit.Failure {
	wire, err := n.Serialize()
	if err != nil {
		return verifkit.Failf("generator", "generated %T does not serialise: %v", n, err)
	}
	m, fail := c18MarshalNLRI(n)
	if fail != nil {
		return fail
	}
	var n2 bgp.NLRI
	if fail = guard("panic-unmarshal", "UnmarshalNLRI", func() { n2, err = UnmarshalNLRI(f, m) }); fail != nil {
		fail.Msg += fmt.Sprintf(" (family %s, api %v, native wire %x)", f, m, wire)
		return fail
	}
	if err != nil {
		return verifkit.Failf("unmarshal-error", "UnmarshalNLRI(%s) refuses the API form of a constructible %s: %v (api %v, native wire %x)", f, c18NLRIInner(n), err, m, wire)
	}
	if n2 == nil {
		return verifkit.Failf("unmarshal-nil", "UnmarshalNLRI(%s) returns nil without error for %v", f, m)
	}
	var wire2 []byte
	if fail = guard("panic-serialize-converted", "Serialize of the converted NLRI", func() { wire2, err = n2.Serialize() }); fail != nil {
		fail.Msg += fmt.Sprintf(" (family %s, api %v, native wire %x)", f, m, wire)
		return fail
	}
	if err != nil {
		return verifkit.Failf("converted-unserialisable", "%s -> API -> native no longer serialises: %v (api %v, native wire %x)", c18NLRIInner(n), err, m, wire)
	}
	st.SubEval(1)
	if !bytes.Equal(wire, wire2) {
		return verifkit.Failf("wire-mismatch", "%s (%s): native wire %x, after native->API->native %x (api %v)", c18NLRIInner(n), f, wire, wire2, m)
	}
	// (the MP packer budgets with the length the NLRI reports)
	if l := n2.Len(); l != len(wire2) {
		return verifkit.Failf("converted-length", "%s (%s): after native->API->native the NLRI reports %d octets and serialises to %d (api %v)", c18NLRIInner(n), f, l, len(wire2), m)
	}
	m2, fail := c18MarshalNLRI(n2)
	if fail != nil {
		fail.Msg += " (second conversion)"
		return fail
	}
	st.SubEval(1)
	if !proto.Equal(m, m2) {
		return verifkit.Failf("api-mismatch", "%s (%s): API %v, after API->native->API %v", c18NLRIInner(n), f, m, m2)
	}
	// the api.Path entry points (NewPath / GetNativeNlri) must agree
	p, err := NewPath(f, n, false, nil, c18Epoch)
	if err != nil {
		return verifkit.Failf("newpath-error", "NewPath refuses %s: %v", c18NLRIInner(n), err)
	}
	if !proto.Equal(p.Nlri, m) || ToFamily(p.Family) != f {
		return verifkit.Failf("newpath-mismatch", "NewPath: nlri %v family %v, MarshalNLRI %v family %s", p.Nlri, p.Family, m, f)
	}
	n3, err := GetNativeNlri(p)
	if err != nil {
		return verifkit.Failf("getnative-error", "GetNativeNlri refuses the api.Path NewPath built: %v", err)
	}
	wire3, err := n3.Serialize()
	st.SubEval(1)
	if err != nil || !bytes.Equal(wire, wire3) {
		return verifkit.Failf("wire-mismatch", "%s (%s): native wire %x, via NewPath/GetNativeNlri %x (%v)", c18NLRIInner(n), f, wire, wire3, err)
	}
	// ... and the binary form of the same api.Path
	pb := &api.Path{Family: p.Family, NlriBinary: wire}
	n4, err := GetNativeNlri(pb)
	if err != nil {
		st.Label("binary-form-refused-by-decoder/" + c18NLRIInner(n)) // see c18CheckAttr
		return nil
	}
	wire4, err := n4.Serialize()
	st.SubEval(1)
	if err != nil || !bytes.Equal(wire, wire4) {
		return verifkit.Failf("wire-mismatch-binary", "%s (%s): native wire %x, via nlri_binary %x (%v)", c18NLRIInner(n), f, wire, wire4, err)
	}
	return nil
}

func runC18NLRI(c c18Case, st *verifkit.Stats) *verifkit.Failure {
	defer c18NLRICover.done()
	lab := func(l string) { c18NLRICover.label(st, l) }
	s := verifgen.NewSrc(c.Recipe)
	nf := len(verifgen.AllFamilies)
	f := verifgen.AllFamilies[((c.Kind%nf)+nf)%nf]
	n := verifgen.NLRI(s, f)
	if n == nil {
		return verifkit.Failf("generator", "generator returned no NLRI for %s", f)
	}
	lab("family/" + f.String())
	if c18NLRIComponents(n, lab) {
		st.Nontrivial()
	}
	fail := c18SurveyOr(st, f.String()+"/"+c18NLRIInner(n), c18Known(st, c18CheckNLRI(f, n, st), c18NLRIShapes(f, n)))
	if fail == nil {
		st.Label("verdict/" + c18Verdict(st) + "/" + c18NLRIInner(n))
	}
	return fail
}

func TestVerifC18_nlri(t *testing.T) {
	verifkit.Run(t, "C18_nlri", drawC18(func() int { return len(verifgen.AllFamilies) }), runC18NLRI)
	c18SurveyReport(t)
	c18NLRICover.require(t, 20000, c18NLRIExpected())
}

func FuzzVerifC18_nlri(f *testing.F) {
	c18FuzzSeeds(f, len(verifgen.AllFamilies))
	f.Fuzz(func(t *testing.T, data []byte) {
		c, ok := c18FuzzCase(data)
		if !ok {
			return
		}
		if fail := runC18NLRI(c, verifkit.Scratch("C18_nlri")); fail != nil {
			t.Fatalf("VERIF-FAIL C18_nlri sig=%q: %s", fail.Sig, fail.Msg)
		}
	})
}

// ---------------------------------------------------------------------------
// capabilities
// ---------------------------------------------------------------------------

var c18CapCover c18Cover

func c18CapNontrivial(c bgp.ParameterCapabilityInterface) bool {
	switch v := c.(type) {
	case *bgp.CapExtendedNexthop:
		return len(v.Tuples) > 0
	case *bgp.CapGracefulRestart:
		return len(v.Tuples) > 0
	case *bgp.CapAddPath:
		return len(v.Tuples) > 0
	case *bgp.CapLongLivedGracefulRestart:
		return len(v.Tuples) > 0
	case *bgp.CapFQDN, *bgp.CapSoftwareVersion, *bgp.CapUnknown:
		return true
	}
	return false
}

func c18CheckCap(c bgp.ParameterCapabilityInterface, st *verifkit.Stats) *verifkit.Failure {
	wire, err := c.Serialize()
	if err != nil {
		return verifkit.Failf("generator", "generated %T does not serialise: %v", c, err)
	}
	var m *api.Capability
	if f := guard("panic-marshal", "MarshalCapability", func() { m, err = MarshalCapability(c) }); f != nil {
		return f
	}
	if err != nil || m == nil || m.Cap == nil {
		return verifkit.Failf("marshal-error", "MarshalCapability refuses a constructible %T: %v", c, err)
	}
	var c2 bgp.ParameterCapabilityInterface
	if f := guard("panic-unmarshal", "unmarshalCapability", func() { c2, err = unmarshalCapability(m) }); f != nil {
		f.Msg += fmt.Sprintf(" (api %v, native wire %x)", m, wire)
		return f
	}
	if err != nil || c2 == nil {
		return verifkit.Failf("unmarshal-error", "unmarshalCapability refuses the API form of a constructible %T: %v (api %v, native wire %x)", c, err, m, wire)
	}
	var wire2 []byte
	if f := guard("panic-serialize-converted", "Serialize of the converted capability", func() { wire2, err = c2.Serialize() }); f != nil {
		return f
	}
	st.SubEval(1)
	if err != nil || !bytes.Equal(wire, wire2) {
		return verifkit.Failf("wire-mismatch", "%T: native wire %x, after native->API->native %x (%v; api %v)", c, wire, wire2, err, m)
	}
	m2, err := MarshalCapability(c2)
	st.SubEval(1)
	if err != nil || !proto.Equal(m, m2) {
		return verifkit.Failf("api-mismatch", "%T: API %v, after API->native->API %v (%v)", c, m, m2, err)
	}
	// list entry points
	ml, err := MarshalCapabilities([]bgp.ParameterCapabilityInterface{c, c})
	if err != nil || len(ml) != 2 || !proto.Equal(ml[0], m) || !proto.Equal(ml[1], m) {
		return verifkit.Failf("list-mismatch", "MarshalCapabilities disagrees with MarshalCapability for %T: %v (%v)", c, ml, err)
	}
	cl, err := UnmarshalCapabilities(ml)
	if err != nil || len(cl) != 2 {
		return verifkit.Failf("list-mismatch", "UnmarshalCapabilities refuses %v: %v", ml, err)
	}
	for _, x := range cl {
		b, err := x.Serialize()
		st.SubEval(1)
		if err != nil || !bytes.Equal(b, wire) {
			return verifkit.Failf("wire-mismatch", "%T: native wire %x, via UnmarshalCapabilities %x (%v)", c, wire, b, err)
		}
	}
	return nil
}

func runC18Cap(c c18Case, st *verifkit.Stats) *verifkit.Failure {
	defer c18CapCover.done()
	lab := func(l string) { c18CapCover.label(st, l) }
	s := verifgen.NewSrc(c.Recipe)
	kind := ((c.Kind % verifgen.NumCapKinds) + verifgen.NumCapKinds) % verifgen.NumCapKinds
	v := verifgen.Capability(s, kind)
	if v == nil {
		return verifkit.Failf("generator", "generator returned no capability for kind %d", kind)
	}
	lab("cap-kind/" + verifgen.CapName(kind))
	lab("cap/" + typeName(v))
	if c18CapNontrivial(v) {
		st.Nontrivial()
	}
	return c18SurveyOr(st, typeName(v), c18Known(st, c18CheckCap(v, st), c18CapShapes(v)))
}

func TestVerifC18_cap(t *testing.T) {
	verifkit.Run(t, "C18_cap", drawC18(func() int { return verifgen.NumCapKinds }), runC18Cap)
	c18CapCover.require(t, 2000, c18CapExpected())
}

func FuzzVerifC18_cap(f *testing.F) {
	c18FuzzSeeds(f, verifgen.NumCapKinds)
	f.Fuzz(func(t *testing.T, data []byte) {
		c, ok := c18FuzzCase(data)
		if !ok {
			return
		}
		if fail := runC18Cap(c, verifkit.Scratch("C18_cap")); fail != nil {
			t.Fatalf("VERIF-FAIL C18_cap sig=%q: %s", fail.Sig, fail.Msg)
		}
	})
}

// ---------------------------------------------------------------------------
// known shapes (predicates on the generated value; see KnownIssues)
// ---------------------------------------------------------------------------

func c18AttrShapes(a bgp.PathAttributeInterface) (keys []string) {
	add := func(k string) {
		for _, x := range keys {
			if x == k {
				return
			}
		}
		keys = append(keys, k)
	}
	switch v := a.(type) {
	case *bgp.PathAttributeAggregator:
		if v.Value.Askind == reflect.Uint16 {
			add("attr-aggregator-2octet-as")
		}
	case *bgp.PathAttributeIP6ExtendedCommunities:
		for _, e := range v.Value {
			if _, ok := e.(*bgp.UnknownIP6Extended); ok {
				add("attr-ip6-extcomm-unknown")
			}
		}
	case *bgp.PathAttributePrefixSID:
		for _, t := range v.TLVs {
			sv, ok := t.(*bgp.SRv6ServiceTLV)
			if !ok {
				continue
			}
			for _, st := range sv.SubTLVs {
				if info, ok := st.(*bgp.SRv6InformationSubTLV); ok && info.Flags != 0 {
					add("attr-prefix-sid-info-flags")
				}
			}
		}
	case *bgp.PathAttributeLs:
		for _, t := range v.TLVs {
			for _, k := range c18LsTLVShapes(t) {
				add(k)
			}
		}
	case *bgp.PathAttributeMpReachNLRI:
		f := bgp.NewFamily(v.AFI, v.SAFI)
		for _, n := range v.Value {
			for _, k := range c18NLRIShapes(f, n.NLRI) {
				add(k)
			}
		}
		fs := v.SAFI == bgp.SAFI_FLOW_SPEC_UNICAST || v.SAFI == bgp.SAFI_FLOW_SPEC_VPN
		if !fs && !v.Nexthop.IsValid() {
			add("attr-mp-reach-no-nexthop")
		}
	case *bgp.PathAttributeMpUnreachNLRI:
		f := bgp.NewFamily(v.AFI, v.SAFI)
		for _, n := range v.Value {
			for _, k := range c18NLRIShapes(f, n.NLRI) {
				add(k)
			}
		}
	}
	return keys
}

// c18LsTLVShapes: the known lossy shapes of one TLV of the BGP-LS attribute.
func c18LsTLVShapes(t bgp.LsTLVInterface) (keys []string) {
	zero := func(b bool) {
		if b {
			keys = append(keys, "attr-ls-zero-value-dropped")
		}
	}
	switch v := t.(type) {
	case *bgp.LsTLVAdminGroup:
		zero(v.AdminGroup == 0)
	case *bgp.LsTLVTEDefaultMetric:
		zero(v.Metric == 0)
	case *bgp.LsTLVMaxLinkBw:
		zero(v.Bandwidth == 0)
	case *bgp.LsTLVMaxReservableLinkBw:
		zero(v.Bandwidth == 0)
	case *bgp.LsTLVUnidirectionalDelayVariation:
		zero(v.DelayVariation == 0)
	case *bgp.LsTLVUnidirectionalLinkDelay:
		zero(v.Delay == 0 && !bgp.NewLsDelayMetricFlags(v.Flags).Anomalous)
	case *bgp.LsTLVMinMaxUnidirectionalLinkDelay:
		zero(v.MinDelay == 0 && v.MaxDelay == 0 && !bgp.NewLsDelayMetricFlags(v.Flags).Anomalous)
	case *bgp.LsTLVOpaqueNodeAttr:
		zero(len(v.Attr) == 0)
	case *bgp.LsTLVOpaqueLinkAttr:
		zero(len(v.Attr) == 0)
	case *bgp.LsTLVSrlg:
		zero(len(v.Srlgs) == 0)
	case *bgp.LsTLVIGPMetric:
		zero(v.Metric == 0)
		if v.Length != 3 {
			keys = append(keys, "attr-ls-igp-metric-length")
		}
	case *bgp.LsTLVAdjacencySID:
		zero(v.SID == 0)
		if v.Flags != 0 || v.Weight != 0 || v.Length != 7 {
			keys = append(keys, "attr-ls-adjacency-sid-fields")
		}
	case *bgp.LsTLVPrefixSID:
		zero(v.SID == 0)
		if v.Flags != 0 || v.Algorithm != 0 || v.Length != 8 {
			keys = append(keys, "attr-ls-prefix-sid-dropped")
		}
	case *bgp.LsTLVOpaquePrefixAttr:
		zero(len(v.Attr) == 0)
	case *bgp.LsTLVFlexAlgoDef:
		if v.Unsupported != nil || len(v.Unknown) > 0 {
			keys = append(keys, "attr-ls-fad-subtlv-dropped")
		}
	}
	return keys
}

func c18LsFlags(l int) bgp.BGPAttrFlag {
	if l > 255 {
		return bgp.BGP_ATTR_FLAG_OPTIONAL | bgp.BGP_ATTR_FLAG_EXTENDED_LENGTH
	}
	return bgp.BGP_ATTR_FLAG_OPTIONAL
}

// c18LsSurvey (survey mode only) splits a failing BGP-LS attribute into single-TLV attributes and
// records the TLVs that fail on their own.
func c18LsSurvey(st *verifkit.Stats, a bgp.PathAttributeInterface, f *verifkit.Failure) bool {
	ls, ok := a.(*bgp.PathAttributeLs)
	if !ok || !c18Survey || f == nil {
		return false
	}
	n := 0
	var all []string
	for _, t := range ls.TLVs {
		all = append(all, typeName(t))
		one := &bgp.PathAttributeLs{PathAttribute: bgp.PathAttribute{Flags: c18LsFlags(t.Len()), Type: ls.Type, Length: uint16(t.Len())}, TLVs: []bgp.LsTLVInterface{t}}
		f1 := c18CheckAttr(one, true, verifkit.Scratch("C18_attr"))
		if f1 != nil && len(c18AttrShapes(one)) == 0 {
			n++
			c18SurveyOr(st, "ls-single/"+typeName(t), f1)
		}
	}
	if n == 0 && len(c18AttrShapes(a)) == 0 {
		c18SurveyOr(st, "ls-combination", f)
	}
	return true
}

func c18NLRIShapes(f bgp.Family, n bgp.NLRI) (keys []string) {
	hasMT := func(l []bgp.LsTLVInterface) bool {
		for _, t := range l {
			if _, ok := t.(*bgp.LsTLVMultiTopoID); ok {
				return true
			}
		}
		return false
	}
	if _, ok := c18RDOf(n).(*bgp.RouteDistinguisherUnknown); ok {
		keys = append(keys, "nlri-rd-unknown-type")
	}
	switch v := n.(type) {
	case *bgp.FlowSpecNLRI:
		for _, c := range v.Value {
			if _, ok := c.(*bgp.FlowSpecUnknown); ok {
				keys = append(keys, "nlri-flowspec-unknown-component")
				break
			}
		}
	case *bgp.RouteTargetMembershipNLRI:
		if v.Length != bgp.NewRouteTargetMembershipNLRI(v.AS, v.RouteTarget).Length {
			keys = append(keys, "nlri-rtc-prefix-length")
		}
	case *bgp.LsAddrPrefix:
		switch l := v.NLRI.(type) {
		case *bgp.LsLinkNLRI:
			if hasMT(l.LinkDesc) {
				keys = append(keys, "nlri-ls-multi-topo-descriptor")
			}
		case *bgp.LsPrefixV4NLRI:
			if hasMT(l.PrefixDesc) {
				keys = append(keys, "nlri-ls-multi-topo-descriptor")
			}
		case *bgp.LsPrefixV6NLRI:
			if hasMT(l.PrefixDesc) {
				keys = append(keys, "nlri-ls-multi-topo-descriptor")
			}
		}
	}
	return keys
}

func c18CapShapes(c bgp.ParameterCapabilityInterface) []string { return nil }

// c18RDOf returns the route distinguisher of an NLRI that has one.
func c18RDOf(n bgp.NLRI) bgp.RouteDistinguisherInterface {
	switch v := n.(type) {
	case *bgp.LabeledVPNIPAddrPrefix:
		return v.RD
	case interface {
		RD() bgp.RouteDistinguisherInterface
	}:
		return v.RD()
	}
	return nil
}

// ---------------------------------------------------------------------------
// minimal reproducers of the known issues
// ---------------------------------------------------------------------------

func c18LsAttrOf(tlvs ...bgp.LsTLVInterface) *bgp.PathAttributeLs {
	l := 0
	for _, t := range tlvs {
		l += t.Len()
	}
	return &bgp.PathAttributeLs{PathAttribute: bgp.PathAttribute{Flags: c18LsFlags(l), Type: bgp.BGP_ATTR_TYPE_LS, Length: uint16(l)}, TLVs: tlvs}
}

func c18LsPrefixNLRIWithMT() bgp.NLRI {
	local := bgp.NewLsTLVNodeDescriptor(&bgp.LsNodeDescriptor{Asn: 65000, IGPRouterID: "0000.0000.0001"}, bgp.LS_TLV_LOCAL_NODE_DESC)
	desc := bgp.NewLsPrefixTLVs(&bgp.LsPrefixDescriptor{IPReachability: []netip.Prefix{netip.MustParsePrefix("10.0.0.0/24")}})
	desc = append(desc, &bgp.LsTLVMultiTopoID{LsTLV: bgp.LsTLV{Type: bgp.LS_TLV_MULTI_TOPO_ID, Length: 2}, MultiTopoIDs: []uint16{2}})
	v := &bgp.LsPrefixV4NLRI{LsNLRI: bgp.LsNLRI{NLRIType: bgp.LS_NLRI_TYPE_PREFIX_IPV4, ProtocolID: bgp.LS_PROTOCOL_ISIS_L2, Identifier: 1}, LocalNodeDesc: &local, PrefixDesc: desc}
	b, _ := v.Serialize()
	v.Length = uint16(len(b))
	return &bgp.LsAddrPrefix{Type: bgp.LS_NLRI_TYPE_PREFIX_IPV4, Length: uint16(len(b)), NLRI: v}
}

func c18TunnelOf(st bgp.TunnelEncapSubTLVInterface) bgp.PathAttributeInterface {
	_, _ = st.Serialize() // sets the sub-TLV length NewPathAttributeTunnelEncap relies on
	return bgp.NewPathAttributeTunnelEncap([]*bgp.TunnelEncapTLV{bgp.NewTunnelEncapTLV(bgp.TUNNEL_TYPE_SR_POLICY, []bgp.TunnelEncapSubTLVInterface{st})})
}

type c18Probe struct {
	test string // "C18_attr" or "C18_nlri"
	attr func() bgp.PathAttributeInterface
	fam  bgp.Family
	nlri func() bgp.NLRI
}

func c18U32(v uint32) *uint32 { return &v }

var c18Probes = map[string]c18Probe{
	"nlri-srpolicy-length-unit": {test: "C18_nlri", fam: bgp.RF_SR_POLICY_IPv4, nlri: func() bgp.NLRI {
		n, _ := bgp.NewSRPolicy(bgp.RF_SR_POLICY_IPv4, bgp.SRPolicyIPv4NLRILen, 1, 2, []byte{10, 0, 0, 1})
		return n
	}},
	"nlri-flowspec-unknown-component": {test: "C18_nlri", fam: bgp.RF_FS_IPv4_UC, nlri: func() bgp.NLRI {
		n, _ := bgp.NewFlowSpecUnicast(bgp.RF_FS_IPv4_UC, []bgp.FlowSpecComponentInterface{&bgp.FlowSpecUnknown{Value: []byte{25, 1}}})
		return n
	}},
	"nlri-rtc-prefix-length": {test: "C18_nlri", fam: bgp.RF_RTC_UC, nlri: func() bgp.NLRI {
		n := bgp.NewRouteTargetMembershipNLRI(65000, bgp.NewTwoOctetAsSpecificExtended(bgp.EC_SUBTYPE_ROUTE_TARGET, 100, 0, true))
		n.Length = 64 // 65000:100:* (all route targets of AS 100)
		return n
	}},
	"nlri-ls-multi-topo-descriptor": {test: "C18_nlri", fam: bgp.RF_LS, nlri: c18LsPrefixNLRIWithMT},
	"nlri-rd-unknown-type": {test: "C18_nlri", fam: bgp.RF_IPv4_VPN, nlri: func() bgp.NLRI {
		rd := &bgp.RouteDistinguisherUnknown{DefaultRouteDistinguisher: bgp.DefaultRouteDistinguisher{Type: 3}, Value: []byte{1, 2, 3, 4, 5, 6}}
		n, _ := bgp.NewLabeledVPNIPAddrPrefix(netip.MustParsePrefix("10.0.0.0/24"), *bgp.NewMPLSLabelStack(100), rd)
		return n
	}},
	"nlri-evpn-ipmsi-not-converted": {test: "C18_nlri", fam: bgp.RF_EVPN, nlri: func() bgp.NLRI {
		return bgp.NewEVPNIPMSIRoute(bgp.NewRouteDistinguisherTwoOctetAS(65000, 1), 10, bgp.NewTwoOctetAsSpecificExtended(bgp.EC_SUBTYPE_ROUTE_TARGET, 65000, 100, true))
	}},
	"attr-aggregator-2octet-as": {test: "C18_attr", attr: func() bgp.PathAttributeInterface {
		a, _ := bgp.NewPathAttributeAggregator(uint16(65000), netip.MustParseAddr("10.0.0.1"))
		return a
	}},
	"attr-extcomm-l2-attributes": {test: "C18_attr", attr: func() bgp.PathAttributeInterface {
		return bgp.NewPathAttributeExtendedCommunities([]bgp.ExtendedCommunityInterface{&bgp.Layer2AttributesExtended{HasControlWord: true, Mtu: 1500}})
	}},
	"attr-ip6-extcomm-unknown": {test: "C18_attr", attr: func() bgp.PathAttributeInterface {
		return bgp.NewPathAttributeIP6ExtendedCommunities([]bgp.ExtendedCommunityInterface{&bgp.UnknownIP6Extended{Type: 0x01, Value: make([]byte, 19)}})
	}},
	"attr-tunnel-srbsid-empty": {test: "C18_attr", attr: func() bgp.PathAttributeInterface {
		return c18TunnelOf(&bgp.TunnelEncapSubTLVSRBSID{
			TunnelEncapSubTLV: bgp.TunnelEncapSubTLV{Type: bgp.ENCAP_SUBTLV_TYPE_SRBINDING_SID, Length: 2}, BSID: &bgp.BSID{Value: []byte{}}})
	}},
	"attr-tunnel-srbsid-label-shift": {test: "C18_attr", attr: func() bgp.PathAttributeInterface {
		b, _ := bgp.NewBSID([]byte{0, 0, 0, 100}) // label 100
		return c18TunnelOf(&bgp.TunnelEncapSubTLVSRBSID{
			TunnelEncapSubTLV: bgp.TunnelEncapSubTLV{Type: bgp.ENCAP_SUBTLV_TYPE_SRBINDING_SID, Length: 6}, BSID: b})
	}},
	"attr-tunnel-segment-list-no-weight": {test: "C18_attr", attr: func() bgp.PathAttributeInterface {
		seg := &bgp.SegmentTypeA{TunnelEncapSubTLV: bgp.TunnelEncapSubTLV{Type: bgp.EncapSubTLVType(bgp.TypeA), Length: 6}, Label: 100 << 12}
		return c18TunnelOf(&bgp.TunnelEncapSubTLVSRSegmentList{
			TunnelEncapSubTLV: bgp.TunnelEncapSubTLV{Type: bgp.ENCAP_SUBTLV_TYPE_SRSEGMENT_LIST, Length: uint16(1 + seg.Len())},
			Segments:          []bgp.TunnelEncapSubTLVInterface{seg}})
	}},
	"attr-prefix-sid-l2-service": {test: "C18_attr", attr: func() bgp.PathAttributeInterface {
		return bgp.NewPathAttributePrefixSID(bgp.NewSRv6ServiceTLV(bgp.TLVTypeSRv6L2Service, bgp.NewSRv6InformationSubTLV(netip.MustParseAddr("2001:db8::1"), 17)))
	}},
	"attr-prefix-sid-subtlv-count": {test: "C18_attr", attr: func() bgp.PathAttributeInterface {
		return bgp.NewPathAttributePrefixSID(bgp.NewSRv6ServiceTLV(bgp.TLVTypeSRv6L3Service,
			bgp.NewSRv6InformationSubTLV(netip.MustParseAddr("2001:db8::1"), 17), bgp.NewSRv6InformationSubTLV(netip.MustParseAddr("2001:db8::2"), 18)))
	}},
	"attr-prefix-sid-info-flags": {test: "C18_attr", attr: func() bgp.PathAttributeInterface {
		info := bgp.NewSRv6InformationSubTLV(netip.MustParseAddr("2001:db8::1"), 17)
		info.Flags = 0x80
		return bgp.NewPathAttributePrefixSID(bgp.NewSRv6ServiceTLV(bgp.TLVTypeSRv6L3Service, info))
	}},
	"attr-mp-reach-no-nexthop": {test: "C18_attr", attr: func() bgp.PathAttributeInterface {
		a, _ := bgp.NewPathAttributeMpReachNLRI(bgp.RF_OPAQUE, []bgp.PathNLRI{{NLRI: bgp.NewOpaqueNLRI([]byte("k"), []byte("v"))}})
		return a
	}},
	"attr-mp-reach-link-local-afi": {test: "C18_attr", attr: func() bgp.PathAttributeInterface {
		n, _ := bgp.NewIPAddrPrefix(netip.MustParsePrefix("10.0.0.0/24"))
		a, _ := bgp.NewPathAttributeMpReachNLRI(bgp.RF_IPv4_UC, []bgp.PathNLRI{{NLRI: n}}, netip.MustParseAddr("2001:db8::1"), netip.MustParseAddr("fe80::1"))
		return a
	}},
	"attr-ls-zero-value-dropped": {test: "C18_attr", attr: func() bgp.PathAttributeInterface {
		return c18LsAttrOf(bgp.NewLsTLVAdminGroup(c18U32(0)))
	}},
	"attr-ls-igp-metric-length": {test: "C18_attr", attr: func() bgp.PathAttributeInterface {
		return c18LsAttrOf(&bgp.LsTLVIGPMetric{LsTLV: bgp.LsTLV{Type: bgp.LS_TLV_IGP_METRIC, Length: 2}, Metric: 10})
	}},
	"attr-ls-adjacency-sid-fields": {test: "C18_attr", attr: func() bgp.PathAttributeInterface {
		t := bgp.NewLsTLVAdjacencySID(c18U32(100))
		t.Flags, t.Weight = 0x30, 5 // V and L flags of an IS-IS adjacency SID, weight 5
		return c18LsAttrOf(t)
	}},
	"attr-ls-local-router-id-duplicated": {test: "C18_attr", attr: func() bgp.PathAttributeInterface {
		a := netip.MustParseAddr("10.0.0.1")
		return c18LsAttrOf(bgp.NewLsTLVLocalIPv4RouterID(&a))
	}},
	"attr-ls-ctor-length": {test: "C18_attr", attr: func() bgp.PathAttributeInterface {
		a := netip.MustParseAddr("2001:db8::1")
		t := bgp.NewLsTLVRemoteIPv6RouterID(&a)
		t.Length = 16 // what the decoder produces
		return c18LsAttrOf(t)
	}},
	"attr-ls-peer-adjacency-sid-type": {test: "C18_attr", attr: func() bgp.PathAttributeInterface {
		t := bgp.NewLsTLVPeerAdjacencySID(&bgp.LsBgpPeerSegmentSID{Weight: 1, SID: 24000})
		t.Type = bgp.LS_TLV_PEER_ADJACENCY_SID // what the decoder produces
		return c18LsAttrOf(t)
	}},
	"attr-ls-igp-flags-fabricates-tlvs": {test: "C18_attr", attr: func() bgp.PathAttributeInterface {
		return c18LsAttrOf(bgp.NewLsTLVIGPFlags(&bgp.LsIGPFlags{Down: true}))
	}},
	"attr-ls-prefix-sid-dropped": {test: "C18_attr", attr: func() bgp.PathAttributeInterface {
		t := bgp.NewLsTLVPrefixSID(c18U32(100))
		t.Length = 8                     // what the decoder produces for a 4 octet index
		t.Flags, t.Algorithm = 0x40, 128 // N flag of an IS-IS prefix SID, flexible algorithm 128
		return c18LsAttrOf(t)
	}},
	"attr-ls-opaque-prefix-attr-dropped": {test: "C18_attr", attr: func() bgp.PathAttributeInterface {
		v := []byte{1, 2}
		t := bgp.NewLsTLVOpaquePrefixAttr(&v)
		t.Length = 2 // what the decoder produces
		return c18LsAttrOf(t)
	}},
	"attr-ls-flex-algo-dropped": {test: "C18_attr", attr: func() bgp.PathAttributeInterface {
		fad := &bgp.LsTLVFlexAlgoDef{LsTLV: bgp.LsTLV{Type: bgp.LS_TLV_FLEX_ALGO_DEF}, Algorithm: 128, MetricType: 1, Priority: 100,
			ExcludeAny: []uint32{1}, Flags: []byte{0x80, 0, 0, 0}, ExcludeSRLG: []uint32{7, 8}}
		_, _ = fad.Serialize() // sets the length
		return c18LsAttrOf(fad, &bgp.LsTLVFADPrefixMetric{LsTLV: bgp.LsTLV{Type: bgp.LS_TLV_FAD_PREFIX_METRIC, Length: 8}, Algorithm: 128, Metric: 10})
	}},
	"attr-ls-fad-subtlv-dropped": {test: "C18_attr", attr: func() bgp.PathAttributeInterface {
		fad := &bgp.LsTLVFlexAlgoDef{LsTLV: bgp.LsTLV{Type: bgp.LS_TLV_FLEX_ALGO_DEF}, Algorithm: 128,
			Unsupported: &bgp.LsTLVFADUnsupported{ProtocolID: 2, SubTLVTypes: []uint16{1047}}}
		_, _ = fad.Serialize() // sets the length
		return c18LsAttrOf(fad)
	}},
}

// c18RunProbe runs the (unmasked) oracle on the minimal reproducer of a known issue and checks
// that the shape predicate recognises it.
func c18RunProbe(key string, st *verifkit.Stats) (f *verifkit.Failure, recognised bool) {
	p := c18Probes[key]
	has := func(keys []string) bool {
		for _, k := range keys {
			if k == key {
				return true
			}
		}
		return false
	}
	if p.attr != nil {
		a := p.attr()
		return c18CheckAttr(a, true, st), has(c18AttrShapes(a))
	}
	n := p.nlri()
	return c18CheckNLRI(p.fam, n, st), has(c18NLRIShapes(p.fam, n))
}

func init() {
	for key, p := range c18Probes {
		key := key
		verifkit.RegisterProbe(p.test, key, func(st *verifkit.Stats) *verifkit.Failure {
			f, _ := c18RunProbe(key, st)
			if f != nil {
				f.Sig = key
			}
			return f
		})
	}
}

// TestVerifC18Probes keeps KnownIssues honest: every key has a note and a minimal reproducer,
// the reproducer is recognised by the shape predicate, and it fails the oracle as long as the
// entry is masked (a reproducer that passes means the defect is gone and the mask must go too).
// The reproducers of the repaired issues (c18Fixed) must pass.
func TestVerifC18Probes(t *testing.T) {
	if os.Getenv("VERIF_REPLAY") != "" {
		t.Skip("replay mode")
	}
	keys := make([]string, 0, len(KnownIssues))
	for k := range KnownIssues {
		keys = append(keys, k)
	}
	sort.Strings(keys)
	for _, k := range keys {
		if c18KnownNotes[k] == "" {
			t.Errorf("known issue %s has no note", k)
		}
		if _, ok := c18Probes[k]; !ok {
			t.Errorf("known issue %s has no minimal reproducer", k)
			continue
		}
		var f *verifkit.Failure
		var rec bool
		if g := guard("panic", "probe "+k, func() { f, rec = c18RunProbe(k, verifkit.Scratch("C18")) }); g != nil {
			t.Errorf("probe %s: %s", k, g.Msg)
			continue
		}
		if !rec {
			t.Errorf("probe %s: the shape predicate does not recognise the reproducer", k)
		}
		switch {
		case f == nil && KnownIssues[k]:
			t.Errorf("known issue %s no longer reproduces: set KnownIssues[%q] = false", k, k)
		case f == nil:
			t.Logf("known issue %s: fixed", k)
		default:
			t.Logf("known issue %s: sig=%s %s", k, f.Sig, f.Msg)
		}
	}
	fixed := make([]string, 0, len(c18Fixed))
	for k := range c18Fixed {
		fixed = append(fixed, k)
	}
	sort.Strings(fixed)
	for _, k := range fixed {
		if _, open := KnownIssues[k]; open {
			t.Errorf("%s is listed as fixed and as known issue", k)
		}
		if _, ok := c18Probes[k]; !ok || c18KnownNotes[k] == "" {
			t.Errorf("fixed issue %s has no note or no reproducer", k)
			continue
		}
		var f *verifkit.Failure
		if g := guard("panic", "probe "+k, func() { f, _ = c18RunProbe(k, verifkit.Scratch("C18")) }); g != nil {
			f = g
		}
		if f != nil {
			t.Errorf("VERIF-FAIL fixed issue %s (%s) is back: sig=%s %s", k, c18Fixed[k], f.Sig, f.Msg)
		}
	}
	for k := range c18Probes {
		_, open := KnownIssues[k]
		_, done := c18Fixed[k]
		if !open && !done {
			t.Errorf("probe %s has neither a KnownIssues nor a c18Fixed entry", k)
		}
	}
}

// ---------------------------------------------------------------------------
// expected coverage: the concrete types the generators are able to produce
// ---------------------------------------------------------------------------

func c18Prefixed(prefix string, names ...string) []string {
	out := make([]string, len(names))
	for i, n := range names {
		out[i] = prefix + n
	}
	return out
}

var c18NLRITypeLabels = func() []string {
	l := c18Prefixed("nlri/", "IPAddrPrefix", "LabeledIPAddrPrefix", "LabeledVPNIPAddrPrefix", "VPLSNLRI", "EVPNNLRI", "RouteTargetMembershipNLRI",
		"EncapNLRI", "FlowSpecNLRI", "OpaqueNLRI", "LsAddrPrefix", "SRPolicyNLRI", "MUPNLRI")
	l = append(l, c18Prefixed("nlri/evpn/", "EVPNEthernetAutoDiscoveryRoute", "EVPNMacIPAdvertisementRoute", "EVPNMulticastEthernetTagRoute",
		"EVPNEthernetSegmentRoute", "EVPNIPPrefixRoute")...)
	l = append(l, c18Prefixed("nlri/mup/", "MUPInterworkSegmentDiscoveryRoute", "MUPDirectSegmentDiscoveryRoute", "MUPType1SessionTransformedRoute",
		"MUPType2SessionTransformedRoute")...)
	l = append(l, c18Prefixed("nlri/mup-tlv/", "MUPSessionParametersTLV", "MUPInterworkEndpointTLV", "MUPSourceAddressTLV", "MUPUnknownTLV")...)
	l = append(l, c18Prefixed("nlri/ls/", "LsNodeNLRI", "LsLinkNLRI", "LsPrefixV4NLRI", "LsPrefixV6NLRI", "LsSrv6SIDNLRI")...)
	l = append(l, c18Prefixed("nlri/flowspec/", "FlowSpecDestinationPrefix", "FlowSpecSourcePrefix", "FlowSpecDestinationPrefix6", "FlowSpecSourcePrefix6",
		"FlowSpecSourceMac", "FlowSpecDestinationMac", "FlowSpecComponent", "FlowSpecUnknown")...)
	return l
}()

// detail labels only the NLRI test is long enough to guarantee
var c18NLRIDetailLabels = func() []string {
	var l []string
	l = append(l, c18Prefixed("nlri/rd/", "RouteDistinguisherTwoOctetAS", "RouteDistinguisherIPAddressAS", "RouteDistinguisherFourOctetAS", "none")...)
	l = append(l, c18Prefixed("nlri/rtc-rt/", "none", "TwoOctetAsSpecificExtended", "IPv4AddressSpecificExtended", "FourOctetAsSpecificExtended")...)
	l = append(l, c18Prefixed("nlri/rtc-len/", "0", "32", "96", "partial")...)
	l = append(l, c18Prefixed("nlri/labels/", "1", "2", "3")...)
	l = append(l, c18Prefixed("nlri/esi-type/", "0", "1", "2", "3", "4", "5")...)
	l = append(l, c18Prefixed("nlri/evpn-macip-iplen/", "0", "32", "128")...)
	l = append(l, c18Prefixed("nlri/evpn-macip-labels/", "1", "2")...)
	return l
}()

func c18NLRIExpected() []string {
	l := append(append([]string{}, c18NLRITypeLabels...), c18NLRIDetailLabels...)
	for _, f := range verifgen.AllFamilies {
		l = append(l, "family/"+f.String())
	}
	return l
}

func c18AttrExpected() []string {
	l := append([]string{}, c18NLRITypeLabels...)
	for k := 0; k < verifgen.NumAttrKinds; k++ {
		l = append(l, "attr-kind/"+verifgen.AttrName(k))
	}
	for _, f := range verifgen.AllFamilies {
		l = append(l, "attr-kind/mp-reach/"+f.String(), "attr-kind/mp-unreach/"+f.String())
	}
	l = append(l, c18Prefixed("attr/", "PathAttributeOrigin", "PathAttributeAsPath", "PathAttributeNextHop", "PathAttributeMultiExitDisc", "PathAttributeLocalPref",
		"PathAttributeAtomicAggregate", "PathAttributeAggregator", "PathAttributeCommunities", "PathAttributeOriginatorId", "PathAttributeClusterList",
		"PathAttributeMpReachNLRI", "PathAttributeMpUnreachNLRI", "PathAttributeExtendedCommunities", "PathAttributeAs4Path", "PathAttributeAs4Aggregator",
		"PathAttributePmsiTunnel", "PathAttributeTunnelEncap", "PathAttributeIP6ExtendedCommunities", "PathAttributeAigp", "PathAttributeLargeCommunities",
		"PathAttributeLs", "PathAttributePrefixSID", "PathAttributeUnknown")...)
	l = append(l, "attr/as-path-param/As4PathParam")
	l = append(l, c18Prefixed("attr/ext-community/", "TwoOctetAsSpecificExtended", "IPv4AddressSpecificExtended", "FourOctetAsSpecificExtended", "OpaqueExtended",
		"ValidationExtended", "LinkBandwidthExtended", "ColorExtended", "EncapExtended", "DefaultGatewayExtended", "ESILabelExtended", "ESImportRouteTarget",
		"MacMobilityExtended", "RouterMacExtended", "Layer2AttributesExtended", "ETreeExtended", "MulticastFlagsExtended", "TrafficRateExtended",
		"TrafficActionExtended", "RedirectTwoOctetAsSpecificExtended", "RedirectIPv4AddressSpecificExtended", "RedirectFourOctetAsSpecificExtended",
		"TrafficRemarkExtended", "MUPExtended", "MUPIPv4AddressSpecificExtended", "MUPFourOctetAsSpecificExtended", "VPLSExtended", "UnknownExtended")...)
	l = append(l, c18Prefixed("attr/ip6-ext-community/", "IPv6AddressSpecificExtended", "RedirectIPv6AddressSpecificExtended", "UnknownIP6Extended")...)
	l = append(l, c18Prefixed("attr/tunnel-sub-tlv/", "TunnelEncapSubTLVColor", "TunnelEncapSubTLVEncapsulation", "TunnelEncapSubTLVProtocol",
		"TunnelEncapSubTLVEgressEndpoint", "TunnelEncapSubTLVUDPDestPort", "TunnelEncapSubTLVSRPreference", "TunnelEncapSubTLVSRPriority",
		"TunnelEncapSubTLVSRCandidatePathName", "TunnelEncapSubTLVSRENLP", "TunnelEncapSubTLVSRBSID", "TunnelEncapSubTLVSRSegmentList", "TunnelEncapSubTLVUnknown")...)
	l = append(l, c18Prefixed("attr/tunnel-segment/", "SegmentTypeA", "SegmentTypeB")...)
	l = append(l, c18Prefixed("attr/pmsi-id/", "IngressReplTunnelID", "DefaultPmsiTunnelID")...)
	l = append(l, c18Prefixed("attr/aigp-tlv/", "AigpTLVIgpMetric", "AigpTLVDefault")...)
	l = append(l, "attr/prefix-sid-tlv/SRv6ServiceTLV", "attr/prefix-sid-service-type/5", "attr/prefix-sid-service-type/6")
	l = append(l, c18Prefixed("attr/ls-tlv/", "LsTLVNodeFlagBits", "LsTLVOpaqueNodeAttr", "LsTLVNodeName", "LsTLVIsisArea", "LsTLVLocalIPv4RouterID",
		"LsTLVLocalIPv6RouterID", "LsTLVSrCapabilities", "LsTLVSrAlgorithm", "LsTLVSrLocalBlock", "LsTLVLinkName", "LsTLVRemoteIPv4RouterID",
		"LsTLVRemoteIPv6RouterID", "LsTLVAdminGroup", "LsTLVTEDefaultMetric", "LsTLVUnidirectionalLinkDelay", "LsTLVMinMaxUnidirectionalLinkDelay",
		"LsTLVUnidirectionalDelayVariation", "LsTLVIGPMetric", "LsTLVOpaqueLinkAttr", "LsTLVMaxLinkBw", "LsTLVMaxReservableLinkBw", "LsTLVUnreservedBw",
		"LsTLVSrlg", "LsTLVAdjacencySID", "LsTLVSrv6EndXSID", "LsTLVIGPFlags", "LsTLVOpaquePrefixAttr", "LsTLVPrefixSID", "LsTLVPeerNodeSID",
		"LsTLVPeerAdjacencySID", "LsTLVPeerSetSID", "LsTLVSrv6SIDStructure", "LsTLVSrv6BgpPeerNodeSID", "LsTLVSrv6EndpointBehavior", "LsTLVFlexAlgoDef",
		"LsTLVFADPrefixMetric")...)
	return l
}

func c18CapExpected() []string {
	l := c18Prefixed("cap/", "CapMultiProtocol", "CapRouteRefresh", "CapExtendedMessage", "CapCarryingLabelInfo", "CapExtendedNexthop", "CapGracefulRestart",
		"CapFourOctetASNumber", "CapAddPath", "CapEnhancedRouteRefresh", "CapRouteRefreshCisco", "CapLongLivedGracefulRestart", "CapFQDN",
		"CapSoftwareVersion", "CapUnknown")
	for k := 0; k < verifgen.NumCapKinds; k++ {
		l = append(l, "cap-kind/"+verifgen.CapName(k))
	}
	return l
}

var c18Epoch = time.Unix(1700000000, 0)
