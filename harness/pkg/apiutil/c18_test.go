package apiutil

// C18 — API and native representations convert losslessly in both directions
// (path attributes, NLRI and capabilities; the policy and route parts live in
// pkg/server/c18_server_test.go).
//
// For every native value v built by the verifgen generators:
//
//	a  := Marshal(v)            native -> API
//	v' := Unmarshal(a)          API    -> native
//	a' := Marshal(v')           native -> API
//
// the oracle wants  Serialize(v') == Serialize(v)  (same wire bytes) and
// proto.Equal(a', a)  (API -> native -> API is the identity on a).
//
// What is *not* compared, and why:
//   - path identifiers inside MP_REACH_NLRI / MP_UNREACH_NLRI: the API messages
//     MpReachNLRIAttribute / MpUnreachNLRIAttribute carry a list of NLRI without
//     identifier (the identifier of a route is api.Path.identifier), so these
//     attributes are compared as they are sent on a session without ADD-PATH
//     and, when all generated identifiers are zero, with ADD-PATH as well.
//   - nothing else.  Every other difference is reported; the ones that are
//     consequences of how the API message is defined are listed in KnownIssues
//     together with the ones that look like plain bugs, for triage.

import (
	"bytes"
	"fmt"
	"net/netip"
	"os"
	"reflect"
	"sort"
	"strings"
	"sync"
	"testing"
	"time"

	"github.com/osrg/gobgp/v4/api"
	"github.com/osrg/gobgp/v4/internal/pkg/verifgen"
	"github.com/osrg/gobgp/v4/internal/pkg/verifkit"
	"github.com/osrg/gobgp/v4/pkg/packet/bgp"
	"google.golang.org/protobuf/proto"
	"pgregory.net/rapid"
)

// KnownIssues lists the shapes for which the API conversion of the unchanged
// tree is not lossless (key -> true: a failing case that has the shape is
// counted as excluded instead of failing the test; set an entry to false to
// see the failure).  Every key is documented in c18KnownNotes with a minimal
// reproducer.
var KnownIssues = map[string]bool{
	"nlri-srpolicy-length-unit":       true,
	"nlri-flowspec-unknown-component": true,
	"nlri-rtc-prefix-length":          true,
	"nlri-ls-multi-topo-descriptor":   true,

	"attr-aggregator-2octet-as":          true,
	"attr-extcomm-l2-attributes":         true,
	"attr-ip6-extcomm-unknown":           true,
	"attr-tunnel-srbsid-empty":           true,
	"attr-tunnel-srbsid-label-shift":     true,
	"attr-tunnel-segment-list-no-weight": true,
	"attr-prefix-sid-l2-service":         true,
	"attr-mp-reach-no-nexthop":           true,
	"attr-mp-reach-link-local-afi":       true,
}

// c18KnownNotes documents each key of KnownIssues.
var c18KnownNotes = map[string]string{}

// ---------------------------------------------------------------------------
// coverage bookkeeping: every concrete Go type the generators produce is
// labelled; the test fails when an expected type was never produced.
// ---------------------------------------------------------------------------

type c18Cover struct {
	mu    sync.Mutex
	seen  map[string]int
	cases int
}

func (c *c18Cover) label(st *verifkit.Stats, l string) {
	st.Label(l)
	c.mu.Lock()
	if c.seen == nil {
		c.seen = map[string]int{}
	}
	c.seen[l]++
	c.mu.Unlock()
}

func (c *c18Cover) done() { c.mu.Lock(); c.cases++; c.mu.Unlock() }

// require fails the test when the run was long enough to expect full coverage and a label is missing.
func (c *c18Cover) require(t *testing.T, minCases int, want []string) {
	c.mu.Lock()
	defer c.mu.Unlock()
	if c.cases < minCases {
		return
	}
	var missing []string
	for _, w := range want {
		if c.seen[w] == 0 {
			missing = append(missing, w)
		}
	}
	if len(missing) > 0 {
		sort.Strings(missing)
		t.Errorf("VERIF-COVERAGE: %d cases ran but these types were never produced: %s", c.cases, strings.Join(missing, ", "))
	}
}

func typeName(v any) string { return strings.TrimPrefix(fmt.Sprintf("%T", v), "*bgp.") }

// c18Known decides what to do with a failure f of a value that has the known shapes keys.
func c18Known(st *verifkit.Stats, f *verifkit.Failure, keys []string) *verifkit.Failure {
	if f == nil {
		return nil
	}
	for _, k := range keys {
		on, ok := KnownIssues[k]
		if !ok {
			panic("c18: shape " + k + " is not listed in KnownIssues")
		}
		if on {
			st.Exclude(k)
			st.Label("known-issue/" + k)
			return nil
		}
	}
	if len(keys) > 0 {
		f.Msg += fmt.Sprintf(" [known shapes, unmasked: %s]", strings.Join(keys, ","))
	}
	return f
}

// Survey mode (development aid): VERIF_C18_SURVEY=1 turns every failure into a label and keeps
// the shortest message per class, so that one run lists all failure classes instead of the first.
var (
	c18Survey   = os.Getenv("VERIF_C18_SURVEY") != ""
	c18SurveyMu sync.Mutex
	c18SurveyEx = map[string]string{}
	c18SurveyN  = map[string]int{}
)

func c18SurveyOr(st *verifkit.Stats, class string, f *verifkit.Failure) *verifkit.Failure {
	if f == nil || !c18Survey {
		return f
	}
	k := f.Sig + " " + class
	c18SurveyMu.Lock()
	c18SurveyN[k]++
	if old, ok := c18SurveyEx[k]; !ok || len(f.Msg) < len(old) {
		c18SurveyEx[k] = f.Msg
	}
	c18SurveyMu.Unlock()
	return nil
}

func c18SurveyReport(t *testing.T) {
	if !c18Survey {
		return
	}
	var ks []string
	for k := range c18SurveyEx {
		ks = append(ks, k)
	}
	sort.Strings(ks)
	for _, k := range ks {
		m := c18SurveyEx[k]
		if len(m) > 1500 {
			m = m[:1500] + "..."
		}
		t.Logf("SURVEY %6d  %s\n      %s", c18SurveyN[k], k, m)
	}
}

func guard(sig, what string, fn func()) (f *verifkit.Failure) {
	defer func() {
		if r := recover(); r != nil {
			f = verifkit.Failf(sig, "%s panicked: %v", what, r)
		}
	}()
	fn()
	return nil
}

type c18Case struct {
	Kind   int      `json:"kind"`
	Recipe []uint32 `json:"recipe"`
}

func drawC18(maxKind func() int) func(t *rapid.T) c18Case {
	return func(t *rapid.T) c18Case {
		return c18Case{
			Kind:   rapid.IntRange(0, maxKind()-1).Draw(t, "kind"),
			Recipe: rapid.SliceOfN(rapid.Uint32(), 40, 240).Draw(t, "recipe"),
		}
	}
}

func c18FuzzCase(data []byte) (c18Case, bool) {
	if len(data) < 1 {
		return c18Case{}, false
	}
	c := c18Case{Kind: int(data[0])}
	src := data[1:]
	for len(src) >= 4 {
		c.Recipe = append(c.Recipe, uint32(src[0])|uint32(src[1])<<8|uint32(src[2])<<16|uint32(src[3])<<24)
		src = src[4:]
	}
	return c, true
}

func c18FuzzSeeds(f *testing.F, kinds int) {
	for k := 0; k < kinds && k < 256; k++ {
		f.Add([]byte{byte(k)})
		f.Add([]byte{byte(k), 9, 9, 9, 9, 1, 0, 0, 0, 7, 7, 7, 7, 3, 0, 0, 0, 2, 0, 0, 0, 5, 5, 5, 5, 0xff, 0xff, 0xff, 0xff, 8, 1, 2, 3})
	}
}

// ---------------------------------------------------------------------------
// path attributes
// ---------------------------------------------------------------------------

var c18AttrCover c18Cover

// the kinds after the verifgen attribute kinds: MP_REACH_NLRI / MP_UNREACH_NLRI (drawn more often:
// they stand for 26 families each)
const c18MPSlots = 8

func c18NumAttrKinds() int { return verifgen.NumAttrKinds + c18MPSlots }

func c18AllAddPath() *bgp.MarshallingOption {
	o := &bgp.MarshallingOption{AddPath: map[bgp.Family]bgp.BGPAddPathMode{}}
	for _, f := range verifgen.AllFamilies {
		o.AddPath[f] = bgp.BGP_ADD_PATH_BOTH
	}
	return o
}

// c18BuildAttr builds the native attribute of the case; idsZero tells whether an MP attribute
// has only zero path identifiers.
func c18BuildAttr(c c18Case) (a bgp.PathAttributeInterface, what string, idsZero bool) {
	s := verifgen.NewSrc(c.Recipe)
	n := c18NumAttrKinds()
	kind := ((c.Kind % n) + n) % n
	if kind < verifgen.NumAttrKinds {
		return verifgen.Attr(s, kind), verifgen.AttrName(kind), true
	}
	f := verifgen.Pick(s, verifgen.AllFamilies)
	l := verifgen.PathNLRIs(s, f, 4)
	if s.Bool() {
		for i := range l {
			l[i].ID = 0
		}
	}
	idsZero = true
	for _, p := range l {
		if p.ID != 0 {
			idsZero = false
		}
	}
	if (kind-verifgen.NumAttrKinds)%2 == 0 {
		a, _ = bgp.NewPathAttributeMpReachNLRI(f, l, verifgen.MPNextHops(s, f)...)
		return a, "mp-reach/" + f.String(), idsZero
	}
	a, _ = bgp.NewPathAttributeMpUnreachNLRI(f, l)
	return a, "mp-unreach/" + f.String(), idsZero
}

// c18AttrComponents labels the nested concrete types of an attribute and tells whether the
// attribute is non-trivial (>=1 optional/nested component or a non-core type).
func c18AttrComponents(a bgp.PathAttributeInterface, lab func(string)) (nontrivial bool) {
	switch v := a.(type) {
	case *bgp.PathAttributeAsPath:
		for _, p := range v.Value {
			lab("attr/as-path-param/" + typeName(p))
		}
		return len(v.Value) >= 2
	case *bgp.PathAttributeAs4Path:
		return len(v.Value) >= 2
	case *bgp.PathAttributeCommunities:
		return len(v.Value) >= 2
	case *bgp.PathAttributeClusterList:
		return len(v.Value) >= 2
	case *bgp.PathAttributeLargeCommunities:
		return len(v.Values) >= 2
	case *bgp.PathAttributeOrigin, *bgp.PathAttributeNextHop, *bgp.PathAttributeMultiExitDisc, *bgp.PathAttributeLocalPref,
		*bgp.PathAttributeAtomicAggregate, *bgp.PathAttributeAggregator, *bgp.PathAttributeOriginatorId, *bgp.PathAttributeAs4Aggregator:
		return false
	case *bgp.PathAttributeExtendedCommunities:
		for _, e := range v.Value {
			lab("attr/ext-community/" + typeName(e))
		}
	case *bgp.PathAttributeIP6ExtendedCommunities:
		for _, e := range v.Value {
			lab("attr/ip6-ext-community/" + typeName(e))
		}
	case *bgp.PathAttributeTunnelEncap:
		for _, t := range v.Value {
			for _, st := range t.Value {
				lab("attr/tunnel-sub-tlv/" + typeName(st))
				if sl, ok := st.(*bgp.TunnelEncapSubTLVSRSegmentList); ok {
					for _, seg := range sl.Segments {
						lab("attr/tunnel-segment/" + typeName(seg))
					}
				}
			}
		}
	case *bgp.PathAttributePmsiTunnel:
		lab("attr/pmsi-id/" + typeName(v.TunnelID))
	case *bgp.PathAttributeAigp:
		for _, t := range v.Values {
			lab("attr/aigp-tlv/" + typeName(t))
		}
	case *bgp.PathAttributePrefixSID:
		for _, t := range v.TLVs {
			lab("attr/prefix-sid-tlv/" + typeName(t))
			if sv, ok := t.(*bgp.SRv6ServiceTLV); ok {
				lab(fmt.Sprintf("attr/prefix-sid-service-type/%d", sv.Type))
			}
		}
	case *bgp.PathAttributeLs:
		for _, t := range v.TLVs {
			lab("attr/ls-tlv/" + typeName(t))
		}
	case *bgp.PathAttributeMpReachNLRI:
		for _, n := range v.Value {
			c18NLRIComponents(n.NLRI, lab)
		}
	case *bgp.PathAttributeMpUnreachNLRI:
		for _, n := range v.Value {
			c18NLRIComponents(n.NLRI, lab)
		}
	}
	return true
}

func c18MarshalAttr(a bgp.PathAttributeInterface) (m *api.Attribute, f *verifkit.Failure) {
	var l []*api.Attribute
	var err error
	if f = guard("panic-marshal", "MarshalPathAttributes", func() { l, err = MarshalPathAttributes([]bgp.PathAttributeInterface{a}) }); f != nil {
		return nil, f
	}
	if err != nil {
		return nil, verifkit.Failf("marshal-error", "MarshalPathAttributes refuses a constructible %T: %v", a, err)
	}
	if len(l) != 1 || l[0] == nil || l[0].Attr == nil {
		return nil, verifkit.Failf("marshal-empty", "MarshalPathAttributes turns a %T into an empty api.Attribute (no conversion for this type)", a)
	}
	return l[0], nil
}

// c18CheckAttr is the oracle for one native attribute.
func c18CheckAttr(a bgp.PathAttributeInterface, idsZero bool, st *verifkit.Stats) *verifkit.Failure {
	opts := []*bgp.MarshallingOption{{}}
	if idsZero {
		opts = append(opts, c18AllAddPath())
	}
	wire := make([][]byte, len(opts))
	for i, o := range opts {
		b, err := a.Serialize(o)
		if err != nil {
			return verifkit.Failf("generator", "generated %T does not serialise: %v", a, err)
		}
		wire[i] = b
	}
	m, f := c18MarshalAttr(a)
	if f != nil {
		return f
	}
	var a2 bgp.PathAttributeInterface
	var err error
	if f = guard("panic-unmarshal", "UnmarshalAttribute", func() { a2, err = UnmarshalAttribute(m) }); f != nil {
		f.Msg += fmt.Sprintf(" (api %v, native wire %x)", m, wire[0])
		return f
	}
	if err != nil {
		return verifkit.Failf("unmarshal-error", "UnmarshalAttribute refuses the API form of a constructible %T: %v (api %v, native wire %x)", a, err, m, wire[0])
	}
	if a2 == nil {
		return verifkit.Failf("unmarshal-nil", "UnmarshalAttribute returns nil without error for %v", m)
	}
	for i, o := range opts {
		var b2 []byte
		if f = guard("panic-serialize-converted", "Serialize of the converted attribute", func() { b2, err = a2.Serialize(o) }); f != nil {
			f.Msg += fmt.Sprintf(" (api %v, native wire %x)", m, wire[0])
			return f
		}
		if err != nil {
			return verifkit.Failf("converted-unserialisable", "%T -> API -> native no longer serialises: %v (api %v, native wire %x)", a, err, m, wire[i])
		}
		st.SubEval(1)
		if !bytes.Equal(wire[i], b2) {
			return verifkit.Failf("wire-mismatch", "%T: native wire %x, after native->API->native %x (options %s, api %v)", a, wire[i], b2, verifgen.OptString(o), m)
		}
	}
	m2, f := c18MarshalAttr(a2)
	if f != nil {
		f.Msg += " (second conversion)"
		return f
	}
	st.SubEval(1)
	if !proto.Equal(m, m2) {
		return verifkit.Failf("api-mismatch", "%T: API %v, after API->native->API %v", a, m, m2)
	}
	// the batch entry point must agree with the single-attribute one
	l, err := UnmarshalPathAttributes([]*api.Attribute{m})
	if err != nil || len(l) != 1 {
		return verifkit.Failf("unmarshal-list", "UnmarshalPathAttributes refuses what UnmarshalAttribute accepts: %v", err)
	}
	return nil
}

func runC18Attr(c c18Case, st *verifkit.Stats) *verifkit.Failure {
	defer c18AttrCover.done()
	lab := func(l string) { c18AttrCover.label(st, l) }
	a, what, idsZero := c18BuildAttr(c)
	if a == nil {
		return verifkit.Failf("generator", "generator returned no attribute for %s", what)
	}
	lab("attr-kind/" + what)
	lab("attr/" + typeName(a))
	if c18AttrComponents(a, lab) {
		st.Nontrivial()
	}
	f := c18CheckAttr(a, idsZero, st)
	if c18LsSurvey(st, a, f) {
		return nil
	}
	return c18SurveyOr(st, what, c18Known(st, f, c18AttrShapes(a)))
}

func TestVerifC18_attr(t *testing.T) {
	verifkit.Run(t, "C18_attr", drawC18(c18NumAttrKinds), runC18Attr)
	c18SurveyReport(t)
	c18AttrCover.require(t, 5000, c18AttrExpected())
}

func FuzzVerifC18_attr(f *testing.F) {
	c18FuzzSeeds(f, c18NumAttrKinds())
	f.Fuzz(func(t *testing.T, data []byte) {
		c, ok := c18FuzzCase(data)
		if !ok {
			return
		}
		if fail := runC18Attr(c, verifkit.Scratch("C18_attr")); fail != nil {
			t.Fatalf("VERIF-FAIL C18_attr sig=%q: %s", fail.Sig, fail.Msg)
		}
	})
}

// ---------------------------------------------------------------------------
// NLRI
// ---------------------------------------------------------------------------

var c18NLRICover c18Cover

func c18RDName(rd bgp.RouteDistinguisherInterface) string {
	if rd == nil {
		return "none"
	}
	return typeName(rd)
}

// c18NLRIComponents labels the concrete types inside an NLRI; true when non-trivial.
func c18NLRIComponents(n bgp.NLRI, lab func(string)) (nontrivial bool) {
	lab("nlri/" + typeName(n))
	switch v := n.(type) {
	case *bgp.IPAddrPrefix:
		return false
	case *bgp.LabeledIPAddrPrefix:
		lab(fmt.Sprintf("nlri/labels/%d", len(v.Labels.Labels)))
	case *bgp.LabeledVPNIPAddrPrefix:
		lab(fmt.Sprintf("nlri/labels/%d", len(v.Labels.Labels)))
		lab("nlri/rd/" + c18RDName(v.RD))
	case *bgp.VPLSNLRI:
		lab("nlri/rd/" + c18RDName(v.RD()))
	case *bgp.EVPNNLRI:
		lab("nlri/evpn/" + typeName(v.RouteTypeData))
		lab("nlri/rd/" + c18RDName(v.RD()))
		switch r := v.RouteTypeData.(type) {
		case *bgp.EVPNEthernetAutoDiscoveryRoute:
			lab(fmt.Sprintf("nlri/esi-type/%d", r.ESI.Type))
		case *bgp.EVPNMacIPAdvertisementRoute:
			lab(fmt.Sprintf("nlri/esi-type/%d", r.ESI.Type))
			lab(fmt.Sprintf("nlri/evpn-macip-iplen/%d", r.IPAddressLength))
			lab(fmt.Sprintf("nlri/evpn-macip-labels/%d", len(r.Labels)))
		case *bgp.EVPNEthernetSegmentRoute:
			lab(fmt.Sprintf("nlri/esi-type/%d", r.ESI.Type))
		case *bgp.EVPNIPPrefixRoute:
			lab(fmt.Sprintf("nlri/esi-type/%d", r.ESI.Type))
		}
	case *bgp.RouteTargetMembershipNLRI:
		if v.RouteTarget == nil {
			lab("nlri/rtc-rt/none")
		} else {
			lab("nlri/rtc-rt/" + typeName(v.RouteTarget))
		}
		switch {
		case v.Length == 0:
			lab("nlri/rtc-len/0")
		case v.Length == 32:
			lab("nlri/rtc-len/32")
		case v.Length == 96:
			lab("nlri/rtc-len/96")
		default:
			lab("nlri/rtc-len/partial")
		}
	case *bgp.FlowSpecNLRI:
		lab("nlri/rd/" + c18RDName(v.RD()))
		for _, c := range v.Value {
			lab("nlri/flowspec/" + typeName(c))
		}
	case *bgp.LsAddrPrefix:
		lab("nlri/ls/" + typeName(v.NLRI))
	case *bgp.MUPNLRI:
		lab("nlri/mup/" + typeName(v.RouteTypeData))
		switch r := v.RouteTypeData.(type) {
		case *bgp.MUPType1SessionTransformedRoute:
			for _, t := range r.TLVs {
				lab("nlri/mup-tlv/" + typeName(t))
			}
		case *bgp.MUPType2SessionTransformedRoute:
			for _, t := range r.TLVs {
				lab("nlri/mup-tlv/" + typeName(t))
			}
		}
	}
	return true
}

func c18MarshalNLRI(n bgp.NLRI) (m *api.NLRI, f *verifkit.Failure) {
	var err error
	if f = guard("panic-marshal", "MarshalNLRI", func() { m, err = MarshalNLRI(n) }); f != nil {
		return nil, f
	}
	if err != nil {
		return nil, verifkit.Failf("marshal-error", "MarshalNLRI refuses a constructible %T: %v", n, err)
	}
	if m == nil || m.Nlri == nil {
		return nil, verifkit.Failf("marshal-empty", "MarshalNLRI turns %T (%s) into an empty api.NLRI (no conversion for this type)", n, c18NLRIInner(n))
	}
	return m, nil
}

func c18NLRIInner(n bgp.NLRI) string {
	switch v := n.(type) {
	case *bgp.EVPNNLRI:
		return typeName(v.RouteTypeData)
	case *bgp.MUPNLRI:
		return typeName(v.RouteTypeData)
	case *bgp.LsAddrPrefix:
		return typeName(v.NLRI)
	}
	return typeName(n)
}

func c18CheckNLRI(f bgp.Family, n bgp.NLRI, st *verifkit.Stats) *verifkit.Failure {
	wire, err := n.Serialize()
	if err != nil {
		return verifkit.Failf("generator", "generated %T does not serialise: %v", n, err)
	}
	m, fail := c18MarshalNLRI(n)
	if fail != nil {
		return fail
	}
	var n2 bgp.NLRI
	if fail = guard("panic-unmarshal", "UnmarshalNLRI", func() { n2, err = UnmarshalNLRI(f, m) }); fail != nil {
		fail.Msg += fmt.Sprintf(" (family %s, api %v, native wire %x)", f, m, wire)
		return fail
	}
	if err != nil {
		return verifkit.Failf("unmarshal-error", "UnmarshalNLRI(%s) refuses the API form of a constructible %s: %v (api %v, native wire %x)", f, c18NLRIInner(n), err, m, wire)
	}
	if n2 == nil {
		return verifkit.Failf("unmarshal-nil", "UnmarshalNLRI(%s) returns nil without error for %v", f, m)
	}
	var wire2 []byte
	if fail = guard("panic-serialize-converted", "Serialize of the converted NLRI", func() { wire2, err = n2.Serialize() }); fail != nil {
		fail.Msg += fmt.Sprintf(" (family %s, api %v, native wire %x)", f, m, wire)
		return fail
	}
	if err != nil {
		return verifkit.Failf("converted-unserialisable", "%s -> API -> native no longer serialises: %v (api %v, native wire %x)", c18NLRIInner(n), err, m, wire)
	}
	st.SubEval(1)
	if !bytes.Equal(wire, wire2) {
		return verifkit.Failf("wire-mismatch", "%s (%s): native wire %x, after native->API->native %x (api %v)", c18NLRIInner(n), f, wire, wire2, m)
	}
	m2, fail := c18MarshalNLRI(n2)
	if fail != nil {
		fail.Msg += " (second conversion)"
		return fail
	}
	st.SubEval(1)
	if !proto.Equal(m, m2) {
		return verifkit.Failf("api-mismatch", "%s (%s): API %v, after API->native->API %v", c18NLRIInner(n), f, m, m2)
	}
	// the api.Path entry points (NewPath / GetNativeNlri) must agree
	p, err := NewPath(f, n, false, nil, c18Epoch)
	if err != nil {
		return verifkit.Failf("newpath-error", "NewPath refuses %s: %v", c18NLRIInner(n), err)
	}
	if !proto.Equal(p.Nlri, m) || ToFamily(p.Family) != f {
		return verifkit.Failf("newpath-mismatch", "NewPath: nlri %v family %v, MarshalNLRI %v family %s", p.Nlri, p.Family, m, f)
	}
	n3, err := GetNativeNlri(p)
	if err != nil {
		return verifkit.Failf("getnative-error", "GetNativeNlri refuses the api.Path NewPath built: %v", err)
	}
	wire3, err := n3.Serialize()
	st.SubEval(1)
	if err != nil || !bytes.Equal(wire, wire3) {
		return verifkit.Failf("wire-mismatch", "%s (%s): native wire %x, via NewPath/GetNativeNlri %x (%v)", c18NLRIInner(n), f, wire, wire3, err)
	}
	// ... and the binary form of the same api.Path
	pb := &api.Path{Family: p.Family, NlriBinary: wire}
	n4, err := GetNativeNlri(pb)
	if err != nil {
		return verifkit.Failf("getnative-binary-error", "GetNativeNlri refuses nlri_binary %x of family %s: %v", wire, f, err)
	}
	wire4, err := n4.Serialize()
	st.SubEval(1)
	if err != nil || !bytes.Equal(wire, wire4) {
		return verifkit.Failf("wire-mismatch-binary", "%s (%s): native wire %x, via nlri_binary %x (%v)", c18NLRIInner(n), f, wire, wire4, err)
	}
	return nil
}

func runC18NLRI(c c18Case, st *verifkit.Stats) *verifkit.Failure {
	defer c18NLRICover.done()
	lab := func(l string) { c18NLRICover.label(st, l) }
	s := verifgen.NewSrc(c.Recipe)
	nf := len(verifgen.AllFamilies)
	f := verifgen.AllFamilies[((c.Kind%nf)+nf)%nf]
	n := verifgen.NLRI(s, f)
	if n == nil {
		return verifkit.Failf("generator", "generator returned no NLRI for %s", f)
	}
	lab("family/" + f.String())
	if c18NLRIComponents(n, lab) {
		st.Nontrivial()
	}
	return c18SurveyOr(st, f.String()+"/"+c18NLRIInner(n), c18Known(st, c18CheckNLRI(f, n, st), c18NLRIShapes(f, n)))
}

func TestVerifC18_nlri(t *testing.T) {
	verifkit.Run(t, "C18_nlri", drawC18(func() int { return len(verifgen.AllFamilies) }), runC18NLRI)
	c18SurveyReport(t)
	c18NLRICover.require(t, 5000, c18NLRIExpected())
}

func FuzzVerifC18_nlri(f *testing.F) {
	c18FuzzSeeds(f, len(verifgen.AllFamilies))
	f.Fuzz(func(t *testing.T, data []byte) {
		c, ok := c18FuzzCase(data)
		if !ok {
			return
		}
		if fail := runC18NLRI(c, verifkit.Scratch("C18_nlri")); fail != nil {
			t.Fatalf("VERIF-FAIL C18_nlri sig=%q: %s", fail.Sig, fail.Msg)
		}
	})
}

// ---------------------------------------------------------------------------
// capabilities
// ---------------------------------------------------------------------------

var c18CapCover c18Cover

func c18CapNontrivial(c bgp.ParameterCapabilityInterface) bool {
	switch v := c.(type) {
	case *bgp.CapExtendedNexthop:
		return len(v.Tuples) > 0
	case *bgp.CapGracefulRestart:
		return len(v.Tuples) > 0
	case *bgp.CapAddPath:
		return len(v.Tuples) > 0
	case *bgp.CapLongLivedGracefulRestart:
		return len(v.Tuples) > 0
	case *bgp.CapFQDN, *bgp.CapSoftwareVersion, *bgp.CapUnknown:
		return true
	}
	return false
}

func c18CheckCap(c bgp.ParameterCapabilityInterface, st *verifkit.Stats) *verifkit.Failure {
	wire, err := c.Serialize()
	if err != nil {
		return verifkit.Failf("generator", "generated %T does not serialise: %v", c, err)
	}
	var m *api.Capability
	if f := guard("panic-marshal", "MarshalCapability", func() { m, err = MarshalCapability(c) }); f != nil {
		return f
	}
	if err != nil || m == nil || m.Cap == nil {
		return verifkit.Failf("marshal-error", "MarshalCapability refuses a constructible %T: %v", c, err)
	}
	var c2 bgp.ParameterCapabilityInterface
	if f := guard("panic-unmarshal", "unmarshalCapability", func() { c2, err = unmarshalCapability(m) }); f != nil {
		f.Msg += fmt.Sprintf(" (api %v, native wire %x)", m, wire)
		return f
	}
	if err != nil || c2 == nil {
		return verifkit.Failf("unmarshal-error", "unmarshalCapability refuses the API form of a constructible %T: %v (api %v, native wire %x)", c, err, m, wire)
	}
	var wire2 []byte
	if f := guard("panic-serialize-converted", "Serialize of the converted capability", func() { wire2, err = c2.Serialize() }); f != nil {
		return f
	}
	st.SubEval(1)
	if err != nil || !bytes.Equal(wire, wire2) {
		return verifkit.Failf("wire-mismatch", "%T: native wire %x, after native->API->native %x (%v; api %v)", c, wire, wire2, err, m)
	}
	m2, err := MarshalCapability(c2)
	st.SubEval(1)
	if err != nil || !proto.Equal(m, m2) {
		return verifkit.Failf("api-mismatch", "%T: API %v, after API->native->API %v (%v)", c, m, m2, err)
	}
	// list entry points
	ml, err := MarshalCapabilities([]bgp.ParameterCapabilityInterface{c, c})
	if err != nil || len(ml) != 2 || !proto.Equal(ml[0], m) || !proto.Equal(ml[1], m) {
		return verifkit.Failf("list-mismatch", "MarshalCapabilities disagrees with MarshalCapability for %T: %v (%v)", c, ml, err)
	}
	cl, err := UnmarshalCapabilities(ml)
	if err != nil || len(cl) != 2 {
		return verifkit.Failf("list-mismatch", "UnmarshalCapabilities refuses %v: %v", ml, err)
	}
	for _, x := range cl {
		b, err := x.Serialize()
		st.SubEval(1)
		if err != nil || !bytes.Equal(b, wire) {
			return verifkit.Failf("wire-mismatch", "%T: native wire %x, via UnmarshalCapabilities %x (%v)", c, wire, b, err)
		}
	}
	return nil
}

func runC18Cap(c c18Case, st *verifkit.Stats) *verifkit.Failure {
	defer c18CapCover.done()
	lab := func(l string) { c18CapCover.label(st, l) }
	s := verifgen.NewSrc(c.Recipe)
	kind := ((c.Kind % verifgen.NumCapKinds) + verifgen.NumCapKinds) % verifgen.NumCapKinds
	v := verifgen.Capability(s, kind)
	if v == nil {
		return verifkit.Failf("generator", "generator returned no capability for kind %d", kind)
	}
	lab("cap-kind/" + verifgen.CapName(kind))
	lab("cap/" + typeName(v))
	if c18CapNontrivial(v) {
		st.Nontrivial()
	}
	return c18SurveyOr(st, typeName(v), c18Known(st, c18CheckCap(v, st), c18CapShapes(v)))
}

func TestVerifC18_cap(t *testing.T) {
	verifkit.Run(t, "C18_cap", drawC18(func() int { return verifgen.NumCapKinds }), runC18Cap)
	c18CapCover.require(t, 2000, c18CapExpected())
}

func FuzzVerifC18_cap(f *testing.F) {
	c18FuzzSeeds(f, verifgen.NumCapKinds)
	f.Fuzz(func(t *testing.T, data []byte) {
		c, ok := c18FuzzCase(data)
		if !ok {
			return
		}
		if fail := runC18Cap(c, verifkit.Scratch("C18_cap")); fail != nil {
			t.Fatalf("VERIF-FAIL C18_cap sig=%q: %s", fail.Sig, fail.Msg)
		}
	})
}

// ---------------------------------------------------------------------------
// known shapes (predicates on the generated value; see KnownIssues)
// ---------------------------------------------------------------------------

func c18AttrShapes(a bgp.PathAttributeInterface) (keys []string) {
	add := func(k string) {
		for _, x := range keys {
			if x == k {
				return
			}
		}
		keys = append(keys, k)
	}
	switch v := a.(type) {
	case *bgp.PathAttributeAggregator:
		if v.Value.Askind == reflect.Uint16 {
			add("attr-aggregator-2octet-as")
		}
	case *bgp.PathAttributeExtendedCommunities:
		for _, e := range v.Value {
			if _, ok := e.(*bgp.Layer2AttributesExtended); ok {
				add("attr-extcomm-l2-attributes")
			}
		}
	case *bgp.PathAttributeIP6ExtendedCommunities:
		for _, e := range v.Value {
			if _, ok := e.(*bgp.UnknownIP6Extended); ok {
				add("attr-ip6-extcomm-unknown")
			}
		}
	case *bgp.PathAttributeTunnelEncap:
		for _, t := range v.Value {
			for _, st := range t.Value {
				switch x := st.(type) {
				case *bgp.TunnelEncapSubTLVSRBSID:
					switch {
					case x.BSID == nil || len(x.BSID.Value) == 0:
						add("attr-tunnel-srbsid-empty")
					case len(x.BSID.Value) == 4:
						add("attr-tunnel-srbsid-label-shift")
					}
				case *bgp.TunnelEncapSubTLVSRSegmentList:
					if x.Weight == nil {
						add("attr-tunnel-segment-list-no-weight")
					}
				}
			}
		}
	case *bgp.PathAttributePrefixSID:
		for _, t := range v.TLVs {
			if sv, ok := t.(*bgp.SRv6ServiceTLV); ok && sv.Type == bgp.TLVTypeSRv6L2Service {
				add("attr-prefix-sid-l2-service")
			}
		}
	case *bgp.PathAttributeMpReachNLRI:
		f := bgp.NewFamily(v.AFI, v.SAFI)
		for _, n := range v.Value {
			for _, k := range c18NLRIShapes(f, n.NLRI) {
				add(k)
			}
		}
		fs := v.SAFI == bgp.SAFI_FLOW_SPEC_UNICAST || v.SAFI == bgp.SAFI_FLOW_SPEC_VPN
		if !fs && !v.Nexthop.IsValid() {
			add("attr-mp-reach-no-nexthop")
		}
		if !fs && v.LinkLocalNexthop.IsValid() && v.AFI != bgp.AFI_IP6 {
			add("attr-mp-reach-link-local-afi")
		}
	case *bgp.PathAttributeMpUnreachNLRI:
		f := bgp.NewFamily(v.AFI, v.SAFI)
		for _, n := range v.Value {
			for _, k := range c18NLRIShapes(f, n.NLRI) {
				add(k)
			}
		}
	}
	return keys
}

// c18LsSurvey (survey mode only) splits a failing BGP-LS attribute into single-TLV attributes and
// records the TLVs that fail on their own.
func c18LsSurvey(st *verifkit.Stats, a bgp.PathAttributeInterface, f *verifkit.Failure) bool {
	ls, ok := a.(*bgp.PathAttributeLs)
	if !ok || !c18Survey || f == nil {
		return false
	}
	n := 0
	var all []string
	for _, t := range ls.TLVs {
		all = append(all, typeName(t))
		one := &bgp.PathAttributeLs{PathAttribute: bgp.PathAttribute{Flags: ls.Flags, Type: ls.Type, Length: uint16(t.Len())}, TLVs: []bgp.LsTLVInterface{t}}
		f1 := c18CheckAttr(one, true, verifkit.Scratch("C18_attr"))
		if f1 != nil && len(c18AttrShapes(one)) == 0 {
			n++
			c18SurveyOr(st, "ls-single/"+typeName(t), f1)
		}
	}
	if n == 0 && len(c18AttrShapes(a)) == 0 {
		c18SurveyOr(st, "ls-combination", f)
	}
	return true
}

func c18NLRIShapes(f bgp.Family, n bgp.NLRI) (keys []string) {
	hasMT := func(l []bgp.LsTLVInterface) bool {
		for _, t := range l {
			if _, ok := t.(*bgp.LsTLVMultiTopoID); ok {
				return true
			}
		}
		return false
	}
	switch v := n.(type) {
	case *bgp.SRPolicyNLRI:
		keys = append(keys, "nlri-srpolicy-length-unit")
	case *bgp.FlowSpecNLRI:
		for _, c := range v.Value {
			if _, ok := c.(*bgp.FlowSpecUnknown); ok {
				keys = append(keys, "nlri-flowspec-unknown-component")
				break
			}
		}
	case *bgp.RouteTargetMembershipNLRI:
		if v.Length != bgp.NewRouteTargetMembershipNLRI(v.AS, v.RouteTarget).Length {
			keys = append(keys, "nlri-rtc-prefix-length")
		}
	case *bgp.LsAddrPrefix:
		switch l := v.NLRI.(type) {
		case *bgp.LsLinkNLRI:
			if hasMT(l.LinkDesc) {
				keys = append(keys, "nlri-ls-multi-topo-descriptor")
			}
		case *bgp.LsPrefixV4NLRI:
			if hasMT(l.PrefixDesc) {
				keys = append(keys, "nlri-ls-multi-topo-descriptor")
			}
		case *bgp.LsPrefixV6NLRI:
			if hasMT(l.PrefixDesc) {
				keys = append(keys, "nlri-ls-multi-topo-descriptor")
			}
		}
	}
	return keys
}

func c18CapShapes(c bgp.ParameterCapabilityInterface) []string { return nil }

// ---------------------------------------------------------------------------
// expected coverage
// ---------------------------------------------------------------------------

func c18AttrExpected() []string { return nil }
func c18NLRIExpected() []string { return nil }
func c18CapExpected() []string  { return nil }

var _ = netip.Addr{}

var c18Epoch = time.Unix(1700000000, 0)
