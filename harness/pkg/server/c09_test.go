package server

// C09 — per-peer-type export rewriting and loop prevention.
//
// One source (local / eBGP / iBGP / RR client / confederation member) announces
// routes with generated attribute sets; two target peers of generated kinds and
// options receive them over real sessions in virtual time.  What each target
// holds after applying the UPDATE bytes written to it is compared with the
// reference export function (routesim_test.go); the route stored for the source
// must be unchanged by producing the targets' copies.

import (
	"fmt"
	"net/netip"
	"testing"
	"time"

	"github.com/osrg/gobgp/v4/api"
	"github.com/osrg/gobgp/v4/internal/pkg/verifkit"
	"github.com/osrg/gobgp/v4/pkg/apiutil"
	"github.com/osrg/gobgp/v4/pkg/packet/bgp"
	"pgregory.net/rapid"
)

type c09Route struct {
	V6    bool    `json:"v6"`
	Attrs rsAttrs `json:"attrs"`
}

type c09Case struct {
	Global  rsGlobal   `json:"global"`
	SrcKind int        `json:"src_kind"` // -1 local (API), else rs* kind
	Src     rsPeer     `json:"src"`
	Targets []rsPeer   `json:"targets"`
	Routes  []c09Route `json:"routes"`
	// Hosts > 0: route 0 (IPv4 only) is also announced for this many /32 prefixes; afterwards the targets start new
	// sessions, so that the exported copies are packed in one go into UPDATEs filled to the size limit
	Hosts int `json:"hosts,omitempty"`
}

func c09DrawPeer(t *rapid.T, l string, idx int, g rsGlobal, kinds []int) rsPeer {
	p := rsPeer{Addr: fmt.Sprintf("10.0.0.%d", idx+1), ID: fmt.Sprintf("10.0.0.%d", idx+1)}
	p.Kind = rapid.SampledFrom(kinds).Draw(t, l+"kind")
	switch p.Kind {
	case rsEBGP:
		p.AS = rapid.SampledFrom([]uint32{65001, 65002, 64512, 4200000001}).Draw(t, l+"as")
		p.RemovePrivate = rapid.SampledFrom([]int{0, 0, 1, 2}).Draw(t, l+"rmpriv")
		p.ReplacePeerAS = rapid.IntRange(0, 4).Draw(t, l+"replace") == 0

	case rsConfed:
		p.AS = rsConfedMem
	default:
		p.AS = rsLocalAS
	}
	p.AllowOwnAS = rapid.SampledFrom([]int{0, 0, 0, 1}).Draw(t, l+"allowown")
	return p
}

func c09DrawAttrs(t *rapid.T, l string, srcKind int, g rsGlobal, v6 bool, targets []rsPeer) rsAttrs {
	a := rsAttrs{MED: -1, LocalPref: -1, Origin: rapid.IntRange(0, 2).Draw(t, l+"origin")}
	asPool := []uint32{100, 200, 64512, 65010, 4200000100, rsLocalAS, rsConfedID}
	for _, tg := range targets {
		asPool = append(asPool, tg.AS)
	}
	if srcKind == rsConfed {
		a.ASPath = append(a.ASPath, rsSeg{T: bgp.BGP_ASPATH_ATTR_TYPE_CONFED_SEQ, AS: []uint32{rsConfedMem}})
		if rapid.IntRange(0, 3).Draw(t, l+"cset") == 0 {
			a.ASPath = append(a.ASPath, rsSeg{T: bgp.BGP_ASPATH_ATTR_TYPE_CONFED_SET, AS: []uint32{65101, 65102}})
		}
	}
	nseg := rapid.IntRange(0, 3).Draw(t, l+"nseg")
	if srcKind == rsEBGP && nseg == 0 {
		nseg = 1
	}
	for i := 0; i < nseg; i++ {
		s := rsSeg{T: bgp.BGP_ASPATH_ATTR_TYPE_SEQ}
		if i > 0 && rapid.IntRange(0, 3).Draw(t, fmt.Sprintf("%sset%d", l, i)) == 0 {
			s.T = bgp.BGP_ASPATH_ATTR_TYPE_SET
		}
		n := rapid.SampledFrom([]int{1, 1, 2, 3, 255}).Draw(t, fmt.Sprintf("%sn%d", l, i))
		for j := 0; j < n; j++ {
			if n == 255 {
				s.AS = append(s.AS, 300)
			} else {
				s.AS = append(s.AS, rapid.SampledFrom(asPool).Draw(t, fmt.Sprintf("%sas%d_%d", l, i, j)))
			}
		}
		a.ASPath = append(a.ASPath, s)
	}
	if v6 {
		a.NextHop = rapid.SampledFrom([]string{"2001:db8::1", "2001:db8::2"}).Draw(t, l+"nh")
		if rapid.IntRange(0, 2).Draw(t, l+"ll") == 0 {
			a.LinkLocal = "fe80::1:2"
		}
	} else {
		a.NextHop = rapid.SampledFrom([]string{"192.0.2.1", "192.0.2.2"}).Draw(t, l+"nh")
	}
	if srcKind == -1 && rapid.IntRange(0, 2).Draw(t, l+"unspec") == 0 {
		a.NextHop = "0.0.0.0"
		if v6 {
			a.NextHop = "::"
		}
	}
	if rapid.Bool().Draw(t, l+"hasmed") {
		a.MED = int64(rapid.SampledFrom([]uint32{0, 50, 4294967295}).Draw(t, l+"med"))
	}
	if rapid.Bool().Draw(t, l+"haslp") {
		a.LocalPref = int64(rapid.SampledFrom([]uint32{100, 200, 0}).Draw(t, l+"lp"))
	}
	nc := rapid.IntRange(0, 3).Draw(t, l+"ncomm")
	for i := 0; i < nc; i++ {
		a.Comms = append(a.Comms, rapid.SampledFrom([]uint32{65000<<16 | 1, 100<<16 | 200, 0xffffff01, 0xffffff02}).Draw(t, fmt.Sprintf("%scomm%d", l, i)))
	}
	if srcKind == rsIBGP || srcKind == rsRRClient {
		switch rapid.IntRange(0, 3).Draw(t, l+"orig") {
		case 0:
			a.Originator = "10.9.9.9"
		case 1:
			a.Originator = rsRouterID
		}
		// (3, 5, 6 entries: a decoded list whose slice has spare capacity)
		ncl := rapid.SampledFrom([]int{0, 0, 1, 2, 3, 3, 5, 6}).Draw(t, l+"ncl")
		for i := 0; i < ncl; i++ {
			a.Cluster = append(a.Cluster, rapid.SampledFrom([]string{"10.8.8.8", "10.7.7.7", "10.6.6.6", "10.5.5.5", "10.8.8.8", "10.7.7.7", rsRouterID}).Draw(t, fmt.Sprintf("%scl%d", l, i)))
		}
	}
	a.UnkT = rapid.SampledFrom([]int{0, 0, 3, 300}).Draw(t, l+"unkt")
	a.UnkNT = rapid.SampledFrom([]int{0, 0, 4}).Draw(t, l+"unknt")
	return a
}

func drawC09(t *rapid.T) c09Case {
	c := c09Case{Global: rsGlobal{Confed: rapid.IntRange(0, 3).Draw(t, "confed") == 0, NoClusterID: rapid.Bool().Draw(t, "no_cluster_id")}}
	kinds := []int{rsEBGP, rsEBGP, rsIBGP, rsRRClient}
	if c.Global.Confed {
		kinds = append(kinds, rsConfed, rsConfed)
	}
	c.SrcKind = rapid.SampledFrom(append([]int{-1}, kinds...)).Draw(t, "src_kind")
	if c.SrcKind >= 0 {
		c.Src = c09DrawPeer(t, "src", 0, c.Global, []int{c.SrcKind})
		c.Src.RemovePrivate, c.Src.ReplacePeerAS = 0, false
	}
	for i := 0; i < 2; i++ {
		tg := c09DrawPeer(t, fmt.Sprintf("t%d", i), i+1, c.Global, kinds)
		tg.AllowOwnAS = 0
		if rapid.IntRange(0, 7).Draw(t, fmt.Sprintf("t%dsameid", i)) == 0 && c.SrcKind >= 0 {
			tg.ID = c.Src.ID // a second session to the router the route came from
		}
		c.Targets = append(c.Targets, tg)
	}
	if c.SrcKind == rsEBGP && !c.Global.Confed && rapid.IntRange(0, 2).Draw(t, "route_server") == 0 {
		// route-server mode: the source and both targets are route-server clients (external peers); a client is
		// sent the routes of the other clients unchanged
		c.Src.RSClient = true
		for i := range c.Targets {
			tg := &c.Targets[i]
			tg.Kind, tg.RSClient, tg.RemovePrivate, tg.ReplacePeerAS = rsEBGP, true, 0, false
			tg.AS = []uint32{65002, 65003}[i]
			tg.Secondary = rapid.Bool().Draw(t, fmt.Sprintf("t%dsecondary", i))
		}
	}
	nr := rapid.IntRange(1, 3).Draw(t, "nroutes")
	for i := 0; i < nr; i++ {
		v6 := rapid.IntRange(0, 3).Draw(t, fmt.Sprintf("r%dv6", i)) == 0
		c.Routes = append(c.Routes, c09Route{V6: v6, Attrs: c09DrawAttrs(t, fmt.Sprintf("r%d", i), c.SrcKind, c.Global, v6, c.Targets)})
	}
	if !c.Routes[0].V6 && rapid.IntRange(0, 7).Draw(t, "hostsk") == 0 {
		c.Hosts = rapid.IntRange(820, 1300).Draw(t, "hosts")
	}
	return c
}

func runC09(t *testing.T) func(c c09Case, st *verifkit.Stats) *verifkit.Failure {
	return func(c c09Case, st *verifkit.Stats) *verifkit.Failure {
		return simRun(t, func() *verifkit.Failure {
			n, err := simStart(rsApiGlobal(c.Global))
			if err != nil {
				return verifkit.Failf("start", "%v", err)
			}
			defer n.stop()
			peers := append([]rsPeer{}, c.Targets...)
			if c.SrcKind >= 0 {
				peers = append(peers, c.Src)
			}
			if err := rsAddPeers(n, c.Global, peers); err != nil {
				return verifkit.Failf("addpeer", "%v", err)
			}
			n.settle()
			sess := map[string]*simSess{}
			for i := range peers {
				ss, _, err := n.establish(peers[i].def(), rsOpenSpec(&peers[i]))
				if err != nil {
					return verifkit.Failf("establish", "%s: %v", peers[i].Addr, err)
				}
				sess[peers[i].Addr] = ss
			}
			var src *rsPeer
			if c.SrcKind >= 0 {
				src = &c.Src
			}
			// announce
			for i, r := range c.Routes {
				if src == nil {
					nlri, _ := bgp.NewIPAddrPrefix(rsPrefix(r.V6, i))
					attrs := r.Attrs.toBGP(nlri, r.V6, 0)
					fam := bgp.RF_IPv4_UC
					if r.V6 {
						fam = bgp.RF_IPv6_UC
					}
					if _, err := n.s.AddPath(apiutil.AddPathRequest{Paths: []*apiutil.Path{{Family: fam, Nlri: nlri, Attrs: attrs}}}); err != nil {
						return verifkit.Failf("addpath", "%v", err)
					}
				} else {
					if err := sess[src.Addr].send(rsAnnounce(src, r.V6, i, 0, r.Attrs), rsTxOpt(src)); err != nil {
						return verifkit.Failf("send", "%v", err)
					}
				}
			}
			n.settle()
			if src != nil {
				if _, eof, _ := sess[src.Addr].snapshot(); eof {
					rx, _, _ := sess[src.Addr].snapshot()
					last := ""
					if len(rx) > 0 {
						last = fmt.Sprintf("%x", rx[len(rx)-1].Raw)
					}
					return verifkit.Failf("source-session-reset", "the source session was reset by a well-formed announcement (last message %s)\n routes %s", last, verifkit.JSON(c.Routes))
				}
			}
			fired := false
			for ti := range c.Targets {
				dst := &c.Targets[ti]
				rx, eof, _ := sess[dst.Addr].snapshot()
				if eof {
					return verifkit.Failf("target-session-down", "session to target %d went down", ti)
				}
				view := newRsView()
				view.feed(rx, rsRxOpt(dst))
				if len(view.errs) > 0 {
					return verifkit.Failf("view-error", "target %d: %s", ti, view.errs[0])
				}
				for i, r := range c.Routes {
					key := rsViewKey{V6: r.V6, Prefix: rsPrefix(r.V6, i).String()}
					got, have := view.entries[key]
					in, usable := rsInbound(c.Global, src, r.Attrs)
					var want rsAttrs
					adv, why := false, "route is not usable (own AS / ORIGINATOR_ID)"
					if usable {
						if dst.RSClient {
							in = r.Attrs // unchanged: as received, LOCAL_PREF of the external neighbour included
						}
						want, adv, why = rsExport(c.Global, src, in, dst, r.V6)
					}
					st.SubEval(1)
					desc := fmt.Sprintf("route %d (%s) from %s to target %d %s", i, key.Prefix, c09Who(src), ti, c09Who(dst))
					switch {
					case have && !adv:
						return verifkit.Failf("advertised-but-forbidden", "%s was advertised although: %s\n sent attrs %s\n got %s", desc, why, verifkit.JSON(r.Attrs), verifkit.JSON(got.Attrs))
					case !have && adv:
						return verifkit.Failf("not-advertised", "%s was not advertised\n sent attrs %s\n expected %s", desc, verifkit.JSON(r.Attrs), verifkit.JSON(want))
					case have && adv:
						if ok, diff := rsAttrsEqual(rsNormalise(got.Attrs), rsNormalise(want)); !ok {
							return verifkit.Failf("wrong-export-attrs", "%s: exported attributes differ from the reference: %s\n sent %s\n got  %s\n want %s", desc, diff, verifkit.JSON(r.Attrs), verifkit.JSON(got.Attrs), verifkit.JSON(want))
						}
					}
					if !adv || !c09Same(want, in) {
						fired = true
					}
					if !adv {
						st.Label("filtered")
					} else {
						st.Label("advertised")
					}
				}
			}
			// ---- many host routes with the attributes of route 0, told to new sessions of the targets ----
			if c.Hosts > 0 {
				r0 := c.Routes[0]
				hostPfx := func(i int) netip.Prefix {
					return netip.PrefixFrom(netip.AddrFrom4([4]byte{10, 209, byte(i >> 8), byte(i)}), 32)
				}
				var nl []bgp.PathNLRI
				var paths []*apiutil.Path
				chunk := 300
				{
					x, _ := bgp.NewIPAddrPrefix(hostPfx(0))
					al := 0
					for _, a := range r0.Attrs.toBGP(x, false, 0) {
						b, _ := a.Serialize()
						al += len(b)
					}
					if room := (4096 - 23 - al) / 5; room < chunk {
						chunk = room
					}
					if chunk < 1 {
						chunk = 1
					}
				}
				for i := 0; i < c.Hosts; i++ {
					x, _ := bgp.NewIPAddrPrefix(hostPfx(i))
					if src == nil {
						paths = append(paths, &apiutil.Path{Family: bgp.RF_IPv4_UC, Nlri: x, Attrs: r0.Attrs.toBGP(x, false, 0)})
						continue
					}
					nl = append(nl, bgp.PathNLRI{NLRI: x})
					if len(nl) == chunk || i == c.Hosts-1 {
						if err := sess[src.Addr].send(bgp.NewBGPUpdateMessage(nil, r0.Attrs.toBGP(x, false, 0), nl), rsTxOpt(src)); err != nil {
							return verifkit.Failf("send", "%v", err)
						}
						nl = nil
					}
				}
				if src == nil {
					if _, err := n.s.AddPath(apiutil.AddPathRequest{Paths: paths}); err != nil {
						return verifkit.Failf("addpath", "%v", err)
					}
				}
				n.settle()
				for ti := range c.Targets {
					sess[c.Targets[ti].Addr].close()
				}
				n.settle()
				n.advance(6 * time.Second)
				in, usable := rsInbound(c.Global, src, r0.Attrs)
				for ti := range c.Targets {
					dst := &c.Targets[ti]
					ss, _, err := n.establish(dst.def(), rsOpenSpec(dst))
					if err != nil {
						return verifkit.Failf("establish", "%s again: %v", dst.Addr, err)
					}
					n.advance(time.Second)
					rx, eof, _ := ss.snapshot()
					if eof {
						return verifkit.Failf("target-session-down", "the new session to target %d went down", ti)
					}
					view := newRsView()
					view.feed(rx, rsRxOpt(dst))
					if len(view.errs) > 0 {
						return verifkit.Failf("view-error", "target %d: %s", ti, view.errs[0])
					}
					var want rsAttrs
					adv := false
					if usable {
						if dst.RSClient {
							want, adv, _ = rsExport(c.Global, src, r0.Attrs, dst, false)
						} else {
							want, adv, _ = rsExport(c.Global, src, in, dst, false)
						}
					}
					missing, extra, wrong := 0, 0, ""
					for i := 0; i < c.Hosts; i++ {
						got, have := view.entries[rsViewKey{Prefix: hostPfx(i).String()}]
						switch {
						case have && !adv:
							extra++
						case !have && adv:
							missing++
						case have && adv:
							if ok, diff := rsAttrsEqual(rsNormalise(got.Attrs), rsNormalise(want)); !ok && wrong == "" {
								wrong = diff
							}
						}
					}
					st.SubEval(1)
					desc := fmt.Sprintf("%d host routes from %s to the new session of target %d %s", c.Hosts, c09Who(src), ti, c09Who(dst))
					if missing > 0 {
						return verifkit.Failf("hosts-not-advertised", "%s: %d of them were not advertised\n sent attrs %s", desc, missing, verifkit.JSON(r0.Attrs))
					}
					if extra > 0 {
						return verifkit.Failf("advertised-but-forbidden", "%s: %d of them were advertised although the route must not be", desc, extra)
					}
					if wrong != "" {
						return verifkit.Failf("wrong-export-attrs", "%s: %s", desc, wrong)
					}
				}
				st.Label("host-routes")
			}
			// producing the targets' copies must not alter what is stored for the source
			if src != nil {
				for i, r := range c.Routes {
					fam := bgp.RF_IPv4_UC
					if r.V6 {
						fam = bgp.RF_IPv6_UC
					}
					want, _ := rsInbound(c.Global, src, r.Attrs)
					_ = want
					found := false
					var lerr *verifkit.Failure
					_ = n.s.ListPath(apiutil.ListPathRequest{TableType: api.TableType_TABLE_TYPE_ADJ_IN, Name: src.Addr, Family: fam}, func(prefix bgp.NLRI, paths []*apiutil.Path) {
						if prefix.String() != rsPrefix(r.V6, i).String() || len(paths) == 0 {
							return
						}
						found = true
						got, _ := rsFromWire(paths[0].Attrs)
						exp := rsCloneAttrs(r.Attrs) // the Adj-RIB-In holds the route as it was received
						// (the link-local next hop of a neighbour is only meaningful on that link: gobgp drops it on
						// receipt, RFC 2545 section 3 forbids passing it on; it is not part of what is compared)
						exp.LinkLocal, got.LinkLocal = "", ""
						if !src.internal() {
							// LOCAL_PREF from an external peer is ignored on ingress; whether the stored copy still shows it is not specified
							exp.LocalPref, got.LocalPref = -1, -1
						}
						if ok, diff := rsAttrsEqual(rsNormalise(got), rsNormalise(exp)); !ok {
							lerr = verifkit.Failf("stored-route-altered", "route %d as stored for the source differs from what was received: %s", i, diff)
						}
					})
					if lerr != nil {
						return lerr
					}
					if !found {
						return verifkit.Failf("adj-in-missing", "route %d is not in the source's Adj-RIB-In", i)
					}
				}
			}
			if fired {
				st.Nontrivial()
			}
			st.Label(fmt.Sprintf("src-kind-%d", c.SrcKind))
			for _, tg := range c.Targets {
				st.Label(fmt.Sprintf("target-kind-%d", tg.Kind))
			}
			if f := n.stop(); f != nil {
				return f
			}
			return nil
		})
	}
}

func c09Who(p *rsPeer) string {
	if p == nil {
		return "local"
	}
	return fmt.Sprintf("[%s kind=%d AS%d id=%s rmpriv=%d replace=%v]", p.Addr, p.Kind, p.AS, p.ID, p.RemovePrivate, p.ReplacePeerAS)
}

func c09Same(a, b rsAttrs) bool {
	ok, _ := rsAttrsEqual(rsNormalise(a), rsNormalise(b))
	return ok
}

// rsNormalise merges adjacent AS_SEQUENCE segments (how a sequence is split carries no meaning
// as long as every segment has 1..255 members) and treats an absent ORIGIN as IGP for comparison.
func rsNormalise(a rsAttrs) rsAttrs {
	o := rsCloneAttrs(a)
	var segs []rsSeg
	for _, s := range o.ASPath {
		if len(segs) > 0 && s.T == bgp.BGP_ASPATH_ATTR_TYPE_SEQ && segs[len(segs)-1].T == bgp.BGP_ASPATH_ATTR_TYPE_SEQ {
			segs[len(segs)-1].AS = append(segs[len(segs)-1].AS, s.AS...)
			continue
		}
		segs = append(segs, s)
	}
	o.ASPath = segs
	if len(o.ASPath) == 0 {
		o.ASPath = nil
	}
	if len(o.Comms) == 0 {
		o.Comms = nil
	}
	if len(o.Cluster) == 0 {
		o.Cluster = nil
	}
	_ = netip.Addr{}
	return o
}

func TestVerifC09(t *testing.T) {
	verifkit.Run(t, "C09", drawC09, runC09(t))
}
