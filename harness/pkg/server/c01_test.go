package server

// C01 / C02 — histories of announcements, replacements, withdrawals, session
// flaps and API route injection against a real BgpServer in virtual time.
//
// At every quiescent point:
//   C02: every peer's Adj-RIB-In equals the model (latest un-withdrawn route per
//        (prefix, path-id) of the current session); the Loc-RIB holds exactly the
//        usable ones plus the local routes, one per (source, path-id), nothing of
//        an ended session; counters agree.
//   C01: every established peer's wire view (all UPDATE bytes of the session
//        applied in order) equals the reference export of the current best path
//        of every destination (ADD-PATH: a validity predicate).
// Routes are identified by a unique community tag per announcement, so the
// oracle does not depend on the server's own bookkeeping.

import (
	"context"
	"fmt"
	"io"
	"log/slog"
	"net/netip"
	"os"
	"sort"
	"testing"
	"time"

	"github.com/google/uuid"
	"github.com/osrg/gobgp/v4/api"
	"github.com/osrg/gobgp/v4/internal/pkg/table"
	"github.com/osrg/gobgp/v4/internal/pkg/verifkit"
	"github.com/osrg/gobgp/v4/pkg/apiutil"
	"github.com/osrg/gobgp/v4/pkg/packet/bgp"
	"pgregory.net/rapid"
)

const (
	hAnnounce = iota
	hWithdraw
	hFlap
	hApiAdd
	hApiDel
	hDown // close the session and leave it down
	hUp   // re-establish a session that is down
	hDeletePeer
	hBurst       // several announcements written back to back before settling
	hRace        // two peers announce / withdraw the same prefix at the same time
	hRaceUp      // a session completes its handshake while another peer's update is in flight
	hRaceRefresh // a peer asks for a ROUTE-REFRESH while another peer's update is in flight
	hTwin        // another peer announces the route this peer has, attribute for attribute (two relays of one route)
	hFlood       // several hundred host routes sharing one attribute set (the UPDATEs relaying them are filled to the size limit)
	hApiHuge     // a local route whose attributes do not fit into a 4096-octet UPDATE: no peer can be told, everything else goes on
)

type h01Op struct {
	Kind    int  `json:"kind"`
	Peer    int  `json:"peer"`
	Prefix  int  `json:"prefix"`
	V6      bool `json:"v6"`
	PathID  int  `json:"path_id"`
	Variant int  `json:"variant"` // attribute variant
	N       int  `json:"n"`       // burst size
}

type h01Case struct {
	Global rsGlobal `json:"global"`
	Peers  []rsPeer `json:"peers"`
	Ops    []h01Op  `json:"ops"`
	Sched  uint64   `json:"sched"` // seed steering the verif yield points (0 = untouched scheduling)
	Focus  bool     `json:"focus"` // most operations hit one or two prefixes
}

func drawH01(t *rapid.T) h01Case {
	var c h01Case
	c.Focus = rapid.IntRange(0, 2).Draw(t, "focus") == 0
	if rapid.IntRange(0, 2).Draw(t, "sched_on") != 0 {
		c.Sched = uint64(rapid.IntRange(1, 1<<30).Draw(t, "sched"))
	}
	np := rapid.IntRange(2, 5).Draw(t, "npeers")
	if c.Focus && np < 4 {
		np = 4
	}
	for i := 0; i < np; i++ {
		l := fmt.Sprintf("p%d", i)
		p := rsPeer{Addr: fmt.Sprintf("10.0.0.%d", i+1), ID: fmt.Sprintf("10.0.0.%d", i+1)}
		p.Kind = rapid.SampledFrom([]int{rsEBGP, rsEBGP, rsEBGP, rsIBGP, rsRRClient}).Draw(t, l+"kind")
		if p.Kind == rsEBGP {
			p.AS = rapid.SampledFrom([]uint32{65001, 65002, 65003}).Draw(t, l+"as")
		} else {
			p.AS = rsLocalAS
		}
		p.SendMax = rapid.SampledFrom([]int{0, 0, 0, 1, 2}).Draw(t, l+"sendmax")
		if c.Focus && i == 0 && p.SendMax == 0 {
			p.SendMax = 1 + rapid.IntRange(0, 1).Draw(t, l+"sendmax_f")
		}
		p.AddPathRecv = rapid.IntRange(0, 3).Draw(t, l+"aprecv") == 0
		if i > 0 && rapid.IntRange(0, 9).Draw(t, l+"sameid") == 0 {
			p.ID = c.Peers[0].ID // second session to the same router
			p.AS = c.Peers[0].AS
			p.Kind = c.Peers[0].Kind
		}
		c.Peers = append(c.Peers, p)
	}
	flood := rapid.IntRange(0, 5).Draw(t, "flood") == 0
	n := rapid.IntRange(3, 40).Draw(t, "nops")
	kinds := []int{hAnnounce, hAnnounce, hAnnounce, hAnnounce, hAnnounce, hWithdraw, hWithdraw, hFlap, hApiAdd, hApiDel, hDown, hUp, hBurst, hDeletePeer, hRace, hRaceUp, hRaceRefresh, hTwin, hTwin}
	maxPrefix := 5
	if c.Focus {
		kinds = []int{hAnnounce, hAnnounce, hAnnounce, hAnnounce, hWithdraw, hWithdraw, hWithdraw, hRace, hRace, hRaceUp, hRaceRefresh, hRaceRefresh, hFlap, hApiAdd, hApiDel, hTwin, hTwin}
		maxPrefix = 1
		n = rapid.IntRange(8, 40).Draw(t, "nops_f")
	}
	floodAt := -1
	if flood {
		floodAt = rapid.IntRange(0, n-1).Draw(t, "flood_at")
	}
	hugeAt := -1
	if rapid.IntRange(0, 5).Draw(t, "huge") == 0 {
		hugeAt = rapid.IntRange(0, n-1).Draw(t, "huge_at")
	}
	for i := 0; i < n; i++ {
		l := fmt.Sprintf("o%d", i)
		if i == hugeAt {
			c.Ops = append(c.Ops, h01Op{Kind: hApiHuge, PathID: 1, N: 2})
		}
		if i == floodAt {
			c.Ops = append(c.Ops, h01Op{Kind: hFlood, Peer: rapid.IntRange(0, np-1).Draw(t, l+"fpeer"), Prefix: rapid.IntRange(0, 1).Draw(t, l+"fprefix"),
				PathID: 1, Variant: rapid.IntRange(0, 4).Draw(t, l+"fvariant"), N: rapid.IntRange(2, 5).Draw(t, l+"fn")})
			continue
		}
		op := h01Op{
			Kind:    rapid.SampledFrom(kinds).Draw(t, l+"kind"),
			Peer:    rapid.IntRange(0, np-1).Draw(t, l+"peer"),
			Prefix:  rapid.IntRange(0, maxPrefix).Draw(t, l+"prefix"),
			V6:      !c.Focus && rapid.IntRange(0, 4).Draw(t, l+"v6") == 0,
			PathID:  rapid.IntRange(1, 2).Draw(t, l+"pathid"),
			Variant: rapid.IntRange(0, 8).Draw(t, l+"variant"),
			N:       rapid.IntRange(2, 5).Draw(t, l+"n"),
		}
		c.Ops = append(c.Ops, op)
	}
	return c
}

type h01Route struct {
	attrs rsAttrs
	tag   uint32
	huge  bool // cannot be sent on a session without Extended Message
	uuid  []byte // of an API-added route (AddPath response)
}

type h01Peer struct {
	spec    *rsPeer
	sess    *simSess
	view    *rsView
	up      bool
	deleted bool
	adjin   map[rsViewKey]h01Route
	downAt  time.Duration
}

type h01Run struct {
	c       *h01Case
	n       *simNet
	st      *verifkit.Stats
	peers   []*h01Peer
	local   map[rsViewKey]h01Route
	serial  uint32
	log     []string
	raced   bool
	twins   bool
	flooded bool
	huge    bool
	// for the non-trivial rule
	bestChangedAfterTold bool
	told                 map[rsViewKey]bool
}

func (r *h01Run) logf(f string, a ...any) {
	r.log = append(r.log, fmt.Sprintf("[%v] ", r.n.now())+fmt.Sprintf(f, a...))
}

func (r *h01Run) fail(sig, f string, a ...any) *verifkit.Failure {
	h := ""
	for _, l := range r.log {
		h += "\n   " + l
	}
	return verifkit.Failf(sig, "%s\n  history:%s", fmt.Sprintf(f, a...), h)
}

// attribute variants: differ in LOCAL_PREF / AS_PATH length / MED / ORIGIN so that the best path changes
func h01Attrs(p *rsPeer, v6 bool, variant int, tag uint32) rsAttrs {
	a := rsAttrs{MED: -1, LocalPref: -1, Comms: []uint32{tag}}
	a.NextHop = "192.0.2.1"
	if v6 {
		a.NextHop = "2001:db8::1"
	}
	first := p.AS
	switch variant {
	case 0:
		a.ASPath = []rsSeg{{T: 2, AS: []uint32{first, 100}}}
	case 1:
		a.ASPath = []rsSeg{{T: 2, AS: []uint32{first, 100, 200}}}
	case 2:
		a.ASPath = []rsSeg{{T: 2, AS: []uint32{first}}}
		a.MED = 10
	case 3:
		a.ASPath = []rsSeg{{T: 2, AS: []uint32{first, 100}}}
		a.Origin = 2
	case 4:
		a.ASPath = []rsSeg{{T: 2, AS: []uint32{first, 65002}}} // contains a possible neighbour AS: loop prevention towards it
	case 6:
		a.ASPath = []rsSeg{{T: 2, AS: []uint32{first, 100}}, {T: 1, AS: []uint32{65002, 65010}}} // a possible neighbour AS in an AS_SET only
	default:
		a.ASPath = []rsSeg{{T: 2, AS: []uint32{first, rsLocalAS, 300}}} // own AS: not usable
	}
	if p.internal() {
		a.ASPath = a.ASPath[:0]
		if variant%2 == 1 {
			a.ASPath = []rsSeg{{T: 2, AS: []uint32{100}}}
		}
		if variant == 5 {
			a.ASPath = []rsSeg{{T: 2, AS: []uint32{700, rsLocalAS}}}
		}
		if variant == 6 {
			a.ASPath = []rsSeg{{T: 2, AS: []uint32{100}}, {T: 1, AS: []uint32{65002, 65010}}}
		}
		if variant == 7 {
			a.Originator = rsRouterID // reflected back to its originator: not usable (RFC 4456 section 8)
		}
		if variant == 8 {
			a.Originator = "10.9.9.9" // reflected by the peer, originated elsewhere
			a.Cluster = []string{"10.8.8.8"}
		}
		a.LocalPref = int64(100 + 10*(variant%3))
	}
	return a
}

func (r *h01Run) nextTag(src int) uint32 {
	r.serial++
	return uint32(src+1)<<16 | r.serial&0xffff
}

func (r *h01Run) establish(i int) *verifkit.Failure {
	p := r.peers[i]
	ss, _, err := r.n.establish(p.spec.def(), rsOpenSpec(p.spec))
	if err != nil {
		return r.fail("establish", "peer %d: %v", i, err)
	}
	p.sess, p.view, p.up = ss, newRsView(), true
	p.adjin = map[rsViewKey]h01Route{}
	return nil
}

func (r *h01Run) apply(op h01Op) *verifkit.Failure {
	n := r.n
	p := r.peers[op.Peer]
	key := func(pathID int) rsViewKey {
		k := rsViewKey{V6: op.V6, Prefix: rsPrefix(op.V6, op.Prefix).String()}
		if p.spec.AddPathRecv {
			k.ID = uint32(pathID)
		}
		return k
	}
	announceFrom := func(pi int, prefix, pathID, variant int) {
		p := r.peers[pi]
		tag := r.nextTag(pi)
		a := h01Attrs(p.spec, op.V6, variant, tag)
		k := rsViewKey{V6: op.V6, Prefix: rsPrefix(op.V6, prefix).String()}
		id := uint32(0)
		if p.spec.AddPathRecv {
			id = uint32(pathID)
			k.ID = id
		}
		_ = p.sess.send(rsAnnounce(p.spec, op.V6, prefix, id, a), rsTxOpt(p.spec))
		p.adjin[k] = h01Route{attrs: a, tag: tag}
		r.logf("peer %d announces %s id=%d variant %d tag %#x", pi, k.Prefix, id, variant, tag)
	}
	withdrawFrom := func(pi int, prefix, pathID int) {
		p := r.peers[pi]
		k := rsViewKey{V6: op.V6, Prefix: rsPrefix(op.V6, prefix).String()}
		if p.spec.AddPathRecv {
			k.ID = uint32(pathID)
		}
		_ = p.sess.send(rsWithdraw(op.V6, prefix, k.ID), rsTxOpt(p.spec))
		delete(p.adjin, k)
		r.logf("peer %d withdraws %s id=%d", pi, k.Prefix, k.ID)
	}
	// the update the "other" peer of a racing operation sends: withdraw what it has, else announce
	otherUpdate := func(qi int) {
		q := r.peers[qi]
		k := rsViewKey{V6: op.V6, Prefix: rsPrefix(op.V6, op.Prefix).String()}
		if q.spec.AddPathRecv {
			k.ID = uint32(op.PathID)
		}
		if _, has := q.adjin[k]; has && op.N%2 == 0 {
			withdrawFrom(qi, op.Prefix, op.PathID)
		} else {
			announceFrom(qi, op.Prefix, op.PathID, (op.Variant+op.N)%5)
		}
	}
	announce := func(prefix, pathID, variant int) { announceFrom(op.Peer, prefix, pathID, variant) }
	otherPeer := func() int {
		for d := 1; d < len(r.peers); d++ {
			qi := (op.Peer + op.N + d) % len(r.peers)
			if qi != op.Peer && r.peers[qi].up {
				return qi
			}
		}
		return -1
	}
	switch op.Kind {
	case hAnnounce:
		if !p.up {
			return nil
		}
		announce(op.Prefix, op.PathID, op.Variant)
	case hBurst:
		if !p.up {
			return nil
		}
		for i := 0; i < op.N; i++ {
			announce((op.Prefix+i)%6, op.PathID, (op.Variant+i)%6)
		}
	case hRace:
		qi := otherPeer()
		if !p.up || qi < 0 {
			return nil
		}
		r.logf("-- racing --")
		if op.Variant%3 == 0 {
			if _, has := p.adjin[key(op.PathID)]; has {
				withdrawFrom(op.Peer, op.Prefix, op.PathID)
			} else {
				announce(op.Prefix, op.PathID, op.Variant)
			}
		} else {
			announce(op.Prefix, op.PathID, op.Variant)
		}
		otherUpdate(qi)
		r.raced = true
	case hApiHuge:
		tag := r.nextTag(7)
		a := rsAttrs{MED: -1, LocalPref: -1, Comms: []uint32{tag}, NextHop: "192.0.2.9"}
		for i := 0; i < 1100; i++ {
			a.Comms = append(a.Comms, uint32(64900<<16|i))
		}
		nlri, _ := bgp.NewIPAddrPrefix(rsPrefix(false, 250))
		if _, err := n.s.AddPath(apiutil.AddPathRequest{Paths: []*apiutil.Path{{Family: bgp.RF_IPv4_UC, Nlri: nlri, Attrs: a.toBGP(nlri, false, 0)}}}); err != nil {
			return r.fail("addpath", "%v", err)
		}
		r.local[rsViewKey{Prefix: nlri.String()}] = h01Route{attrs: a, tag: tag, huge: true}
		r.huge = true
		r.logf("API adds %s with 1101 communities (4.4 kB of attributes) tag %#x", nlri, tag)
	case hFlood:
		if !p.up {
			return nil
		}
		// 850..1450 /32 routes with one attribute set (one tag), written as UPDATEs of 300 routes; afterwards another
		// peer starts a new session, so that the whole set is packed in one go (UPDATEs filled to the size limit)
		cnt := 450 + 200*op.N
		tag := r.nextTag(op.Peer)
		a := h01Attrs(p.spec, false, op.Variant, tag)
		id := uint32(0)
		if p.spec.AddPathRecv {
			id = uint32(op.PathID)
		}
		var nl []bgp.PathNLRI
		flush := func() {
			if len(nl) > 0 {
				_ = p.sess.send(bgp.NewBGPUpdateMessage(nil, a.toBGP(nl[0].NLRI, false, id), nl), rsTxOpt(p.spec))
				nl = nil
			}
		}
		for i := 0; i < cnt; i++ {
			pfx := netip.PrefixFrom(netip.AddrFrom4([4]byte{10, byte(200 + op.Prefix), byte(i >> 8), byte(i)}), 32)
			x, _ := bgp.NewIPAddrPrefix(pfx)
			nl = append(nl, bgp.PathNLRI{NLRI: x, ID: id})
			p.adjin[rsViewKey{Prefix: pfx.String(), ID: id}] = h01Route{attrs: a, tag: tag}
			if len(nl) == 300 {
				flush()
			}
		}
		flush()
		n.settle()
		// one other peer starts a new session: it is sent the whole table in one go
		if qi := otherPeer(); qi >= 0 {
			q := r.peers[qi]
			q.sess.close()
			q.up, q.adjin, q.downAt = false, map[rsViewKey]h01Route{}, n.now()
			n.settle()
			n.advance(6 * time.Second)
			if f := r.establish(qi); f != nil {
				return f
			}
			r.logf("peer %d session closed and re-established", qi)
		}
		r.flooded = true
		r.logf("peer %d announces %d host routes 10.%d.0.0/32.. id=%d variant %d tag %#x", op.Peer, cnt, 200+op.Prefix, id, op.Variant, tag)
	case hTwin:
		qi := otherPeer()
		if !p.up || qi < 0 || r.peers[qi].spec.internal() != p.spec.internal() {
			return nil
		}
		rt, has := p.adjin[key(op.PathID)]
		if !has {
			announce(op.Prefix, op.PathID, op.Variant)
			n.settle()
			rt = p.adjin[key(op.PathID)]
		}
		q := r.peers[qi]
		kq := rsViewKey{V6: op.V6, Prefix: rsPrefix(op.V6, op.Prefix).String()}
		if q.spec.AddPathRecv {
			kq.ID = uint32(op.PathID)
		}
		_ = q.sess.send(rsAnnounce(q.spec, op.V6, op.Prefix, kq.ID, rt.attrs), rsTxOpt(q.spec))
		q.adjin[kq] = h01Route{attrs: rt.attrs, tag: rt.tag}
		r.twins = true
		r.logf("peer %d announces %s id=%d with the attributes of peer %d's route (tag %#x)", qi, kq.Prefix, kq.ID, op.Peer, rt.tag)
	case hRaceRefresh:
		qi := otherPeer()
		if !p.up || qi < 0 {
			return nil
		}
		r.logf("-- racing: peer %d sends ROUTE-REFRESH --", op.Peer)
		afi, safi := uint16(bgp.AFI_IP), uint8(bgp.SAFI_UNICAST)
		if op.V6 {
			afi = bgp.AFI_IP6
		}
		if op.N%2 == 0 {
			_ = p.sess.send(bgp.NewBGPRouteRefreshMessage(afi, 0, safi), nil)
			otherUpdate(qi)
		} else {
			otherUpdate(qi)
			_ = p.sess.send(bgp.NewBGPRouteRefreshMessage(afi, 0, safi), nil)
		}
		r.raced = true
	case hRaceUp:
		qi := otherPeer()
		if p.deleted || qi < 0 {
			return nil
		}
		if p.up {
			p.sess.close()
			p.up, p.adjin, p.downAt = false, map[rsViewKey]h01Route{}, n.now()
			n.settle()
			r.logf("peer %d session closed", op.Peer)
		}
		if wait := p.downAt + 6*time.Second - n.now(); wait > 0 {
			n.advance(wait)
		}
		// handshake up to the last KEEPALIVE
		ss := n.connect(p.spec.def())
		n.settle()
		if err := ss.send(p.spec.def().open(rsOpenSpec(p.spec)), nil); err != nil {
			return r.fail("establish", "peer %d: writing OPEN: %v", op.Peer, err)
		}
		n.settle()
		r.logf("-- racing: peer %d completes its handshake --", op.Peer)
		if err := ss.send(bgp.NewBGPKeepAliveMessage(), nil); err != nil {
			return r.fail("establish", "peer %d: writing KEEPALIVE: %v", op.Peer, err)
		}
		otherUpdate(qi)
		n.settle()
		p.sess, p.view, p.up = ss, newRsView(), true
		p.adjin = map[rsViewKey]h01Route{}
		if st, _, _ := n.peerState(p.spec.Addr); st != api.PeerState_SESSION_STATE_ESTABLISHED {
			return r.fail("establish", "peer %d is %v after a complete handshake", op.Peer, st)
		}
		r.raced = true
	case hWithdraw:
		if !p.up {
			return nil
		}
		k := key(op.PathID)
		_ = p.sess.send(rsWithdraw(op.V6, op.Prefix, k.ID), rsTxOpt(p.spec))
		delete(p.adjin, k)
		r.logf("peer %d withdraws %s id=%d", op.Peer, k.Prefix, k.ID)
	case hFlap, hDown:
		if !p.up {
			return nil
		}
		p.sess.close()
		p.up, p.adjin, p.downAt = false, map[rsViewKey]h01Route{}, n.now()
		n.settle()
		r.logf("peer %d session closed", op.Peer)
		if op.Kind == hFlap {
			n.advance(6 * time.Second) // idle hold time
			if f := r.establish(op.Peer); f != nil {
				return f
			}
			r.logf("peer %d re-established", op.Peer)
		}
	case hUp:
		if p.up || p.deleted {
			return nil
		}
		if wait := p.downAt + 6*time.Second - n.now(); wait > 0 {
			n.advance(wait)
		}
		if f := r.establish(op.Peer); f != nil {
			return f
		}
		r.logf("peer %d re-established", op.Peer)
	case hDeletePeer:
		if p.deleted {
			return nil
		}
		// keep at least two peers
		alive := 0
		for _, q := range r.peers {
			if !q.deleted {
				alive++
			}
		}
		if alive <= 2 {
			return nil
		}
		if err := n.s.DeletePeer(context.Background(), &api.DeletePeerRequest{Address: p.spec.Addr}); err != nil {
			return r.fail("delete-peer", "%v", err)
		}
		p.deleted, p.up, p.adjin = true, false, map[rsViewKey]h01Route{}
		r.logf("peer %d deleted", op.Peer)
	case hApiAdd:
		tag := r.nextTag(7)
		a := rsAttrs{MED: -1, LocalPref: -1, Comms: []uint32{tag}, NextHop: "192.0.2.9"}
		if op.V6 {
			a.NextHop = "2001:db8::9"
		}
		if op.Variant%2 == 1 {
			a.MED = 5
		}
		nlri, _ := bgp.NewIPAddrPrefix(rsPrefix(op.V6, op.Prefix))
		fam := bgp.RF_IPv4_UC
		if op.V6 {
			fam = bgp.RF_IPv6_UC
		}
		resp, err := n.s.AddPath(apiutil.AddPathRequest{Paths: []*apiutil.Path{{Family: fam, Nlri: nlri, Attrs: a.toBGP(nlri, op.V6, 0)}}})
		if err != nil {
			return r.fail("addpath", "%v", err)
		}
		lr := h01Route{attrs: a, tag: tag}
		if len(resp) == 1 && resp[0].Error == nil {
			lr.uuid = append([]byte(nil), resp[0].UUID[:]...)
		}
		r.local[rsViewKey{V6: op.V6, Prefix: nlri.String()}] = lr
		r.logf("API adds %s tag %#x", nlri, tag)
	case hApiDel:
		k := rsViewKey{V6: op.V6, Prefix: rsPrefix(op.V6, op.Prefix).String()}
		lr, ok := r.local[k]
		if !ok {
			return nil
		}
		nlri, _ := bgp.NewIPAddrPrefix(rsPrefix(op.V6, op.Prefix))
		fam := bgp.RF_IPv4_UC
		if op.V6 {
			fam = bgp.RF_IPv6_UC
		}
		if len(lr.uuid) == 16 && (op.N+op.Variant)%2 == 0 {
			// by the identifier AddPath returned
			var id uuid.UUID
			copy(id[:], lr.uuid)
			if err := n.s.DeletePath(apiutil.DeletePathRequest{UUIDs: []uuid.UUID{id}}); err != nil {
				return r.fail("deletepath", "by UUID: %v", err)
			}
			r.logf("API deletes %s by UUID", nlri)
		} else {
			if err := n.s.DeletePath(apiutil.DeletePathRequest{Paths: []*apiutil.Path{{Family: fam, Nlri: nlri, Attrs: lr.attrs.toBGP(nlri, op.V6, 0)}}}); err != nil {
				return r.fail("deletepath", "%v", err)
			}
			r.logf("API deletes %s", nlri)
		}
		delete(r.local, k)
	}
	n.settle()
	return nil
}

func h01Tag(attrs []bgp.PathAttributeInterface) uint32 {
	for _, a := range attrs {
		if c, ok := a.(*bgp.PathAttributeCommunities); ok && len(c.Value) > 0 {
			return c.Value[0]
		}
	}
	return 0
}

// verify checks C02 (RIB content) and C01 (per-peer wire views) at a quiescent point.
func (r *h01Run) verify() *verifkit.Failure {
	n := r.n
	// ---- C02: Adj-RIB-In per peer ----
	for i, p := range r.peers {
		if p.deleted {
			continue
		}
		got := map[rsViewKey]uint32{}
		for _, fam := range []bgp.Family{bgp.RF_IPv4_UC, bgp.RF_IPv6_UC} {
			_ = n.s.ListPath(apiutil.ListPathRequest{TableType: api.TableType_TABLE_TYPE_ADJ_IN, Name: p.spec.Addr, Family: fam}, func(prefix bgp.NLRI, paths []*apiutil.Path) {
				for _, pa := range paths {
					got[rsViewKey{V6: fam == bgp.RF_IPv6_UC, Prefix: prefix.String(), ID: pa.RemoteID}] = h01Tag(pa.Attrs)
				}
			})
		}
		for k, want := range p.adjin {
			if g, ok := got[k]; !ok {
				return r.fail("adjin-missing", "peer %d: route %v (tag %#x) is missing from the Adj-RIB-In", i, k, want.tag)
			} else if g != want.tag {
				return r.fail("adjin-stale", "peer %d: Adj-RIB-In holds tag %#x for %v, the latest announcement is %#x", i, g, k, want.tag)
			}
		}
		for k, g := range got {
			if _, ok := p.adjin[k]; !ok {
				return r.fail("adjin-extra", "peer %d: Adj-RIB-In holds %v (tag %#x) which was withdrawn or belongs to an ended session", i, k, g)
			}
		}
		// counters
		_, _, lp := n.peerState(p.spec.Addr)
		if lp != nil {
			var recv, acc uint64
			for _, af := range lp.AfiSafis {
				if af.State != nil {
					recv += af.State.Received
					acc += af.State.Accepted
				}
			}
			usable := 0
			for _, rt := range p.adjin {
				if _, ok := rsInbound(r.c.Global, p.spec, rt.attrs); ok {
					usable++
				}
			}
			if int(recv) != len(p.adjin) {
				return r.fail("received-counter", "peer %d: received counter %d, Adj-RIB-In has %d routes", i, recv, len(p.adjin))
			}
			if int(acc) != usable {
				return r.fail("accepted-counter", "peer %d: accepted counter %d, %d of its routes pass the loop checks", i, acc, usable)
			}
		}
	}
	// ---- C02: Loc-RIB ----
	type locPath struct {
		tag  uint32
		best bool
		src  string
		id   uint32
	}
	loc := map[rsViewKey][]locPath{}
	for _, fam := range []bgp.Family{bgp.RF_IPv4_UC, bgp.RF_IPv6_UC} {
		_ = n.s.ListPath(apiutil.ListPathRequest{TableType: api.TableType_TABLE_TYPE_GLOBAL, Family: fam}, func(prefix bgp.NLRI, paths []*apiutil.Path) {
			k := rsViewKey{V6: fam == bgp.RF_IPv6_UC, Prefix: prefix.String()}
			for _, pa := range paths {
				loc[k] = append(loc[k], locPath{tag: h01Tag(pa.Attrs), best: pa.Best, src: pa.PeerAddress.String(), id: pa.RemoteID})
			}
		})
	}
	// per destination: tag -> number of sources that hold a usable route with it (more than one for twins)
	wantLoc := map[rsViewKey]map[uint32]int{}
	addWant := func(k rsViewKey, tag uint32) {
		kk := rsViewKey{V6: k.V6, Prefix: k.Prefix}
		if wantLoc[kk] == nil {
			wantLoc[kk] = map[uint32]int{}
		}
		wantLoc[kk][tag]++
	}
	for _, p := range r.peers {
		if !p.up {
			continue
		}
		for k, rt := range p.adjin {
			if _, ok := rsInbound(r.c.Global, p.spec, rt.attrs); ok {
				addWant(k, rt.tag)
			}
		}
	}
	for k, rt := range r.local {
		addWant(k, rt.tag)
	}
	for k, paths := range loc {
		seenSrc := map[string]bool{}
		for pi, lp := range paths {
			if wantLoc[k][lp.tag] == 0 {
				return r.fail("locrib-stale", "Loc-RIB holds tag %#x for %s which is withdrawn, replaced, unusable or from an ended session (paths %+v)", lp.tag, k.Prefix, paths)
			}
			sk := fmt.Sprintf("%s/%d", lp.src, lp.id)
			if seenSrc[sk] {
				return r.fail("locrib-duplicate", "Loc-RIB holds two paths for %s from source %s", k.Prefix, sk)
			}
			seenSrc[sk] = true
			if lp.best != (pi == 0) {
				return r.fail("locrib-best-flag", "%s: best flag on path %d of %d (paths %+v)", k.Prefix, pi, len(paths), paths)
			}
		}
	}
	for k, tags := range wantLoc {
		have := map[uint32]int{}
		for _, lp := range loc[k] {
			have[lp.tag]++
		}
		for tag, cnt := range tags {
			if have[tag] == 0 {
				return r.fail("locrib-missing", "Loc-RIB lacks tag %#x for %s (has %+v)", tag, k.Prefix, loc[k])
			}
			if have[tag] != cnt {
				return r.fail("locrib-count", "Loc-RIB holds %d paths with tag %#x for %s, %d sources announce it (has %+v)", have[tag], tag, k.Prefix, cnt, loc[k])
			}
		}
	}
	// ---- C01: wire views ----
	isHuge := func(tag uint32) bool {
		for _, rt := range r.local {
			if rt.tag == tag && rt.huge {
				return true
			}
		}
		return false
	}
	find := func(src string, tag uint32) (*rsPeer, rsAttrs, bool) {
		for _, p := range r.peers {
			if p.spec.Addr != src {
				continue
			}
			for _, rt := range p.adjin {
				if rt.tag == tag {
					return p.spec, rt.attrs, true
				}
			}
		}
		for _, rt := range r.local {
			if rt.tag == tag {
				return nil, rt.attrs, true
			}
		}
		return nil, rsAttrs{}, false
	}
	established := 0
	for i, p := range r.peers {
		if !p.up {
			continue
		}
		established++
		rx, eof, _ := p.sess.snapshot()
		if eof {
			return r.fail("session-lost", "peer %d: the server closed the session", i)
		}
		if os.Getenv("VERIF_C01_TRACE") != "" {
			for k := p.view.seen; k < len(rx); k++ {
				if rx[k].Type() == bgp.BGP_MSG_UPDATE {
					if pm, err := bgp.ParseBGPMessage(rx[k].Raw, rsRxOpt(p.spec)); err == nil {
						u := pm.Body.(*bgp.BGPUpdate)
						if len(u.NLRI) > 8 {
							fmt.Fprintf(os.Stderr, "   -> peer %d gets UPDATE of %d octets with %d routes\n", i, len(rx[k].Raw), len(u.NLRI))
						}
						r.logf("   -> peer %d gets UPDATE withdrawn=%v nlri=%v tag=%#x", i, u.WithdrawnRoutes, u.NLRI, h01Tag(u.PathAttributes))
					}
				}
			}
		}
		p.view.feed(rx, rsRxOpt(p.spec))
		if len(p.view.errs) > 0 {
			return r.fail("view-error", "peer %d: %s", i, p.view.errs[0])
		}
		// group the view per destination
		perDest := map[rsViewKey][]rsViewEntry{}
		ids := map[rsViewKey]map[uint32]bool{}
		for k, e := range p.view.entries {
			d := rsViewKey{V6: k.V6, Prefix: k.Prefix}
			perDest[d] = append(perDest[d], e)
			if ids[d] == nil {
				ids[d] = map[uint32]bool{}
			}
			ids[d][k.ID] = true
		}
		dests := map[rsViewKey]bool{}
		for d := range perDest {
			dests[d] = true
		}
		for d := range loc {
			dests[d] = true
		}
		var order []rsViewKey
		for d := range dests {
			order = append(order, d)
		}
		sort.Slice(order, func(a, b int) bool { return fmt.Sprint(order[a]) < fmt.Sprint(order[b]) })
		for _, d := range order {
			paths := loc[d]
			// exportable set under the reference
			type cand struct {
				want rsAttrs
				tag  uint32
			}
			var exportable []cand
			for pi, lp := range paths {
				src, attrs, ok := find(lp.src, lp.tag)
				if !ok {
					continue
				}
				if isHuge(lp.tag) {
					// does not fit into an UPDATE of this session: it cannot be told (and must not stop anything else)
					if p.spec.SendMax == 0 && pi == 0 {
						break
					}
					continue
				}
				in, _ := rsInbound(r.c.Global, src, attrs)
				want, adv, _ := rsExport(r.c.Global, src, in, p.spec, d.V6)
				if adv {
					exportable = append(exportable, cand{want, lp.tag})
				}
				if p.spec.SendMax == 0 && pi == 0 {
					break // without ADD-PATH only the best path is considered
				}
			}
			got := perDest[d]
			if p.spec.SendMax == 0 {
				switch {
				case len(exportable) == 0 && len(got) > 0:
					return r.fail("stale-advertisement", "peer %d still holds %s (tag %#x) although the current best path must not be advertised to it (Loc-RIB %+v)", i, d.Prefix, h01TagOf(got[0].Attrs), paths)
				case len(exportable) == 1 && len(got) == 0:
					return r.fail("missing-advertisement", "peer %d was not told about %s: best path tag %#x is exportable to it (Loc-RIB %+v)", i, d.Prefix, exportable[0].tag, paths)
				case len(exportable) == 1:
					if t := h01TagOf(got[0].Attrs); t != exportable[0].tag {
						return r.fail("wrong-route-advertised", "peer %d holds tag %#x for %s, the best path is tag %#x", i, t, d.Prefix, exportable[0].tag)
					}
					if ok, diff := rsAttrsEqual(rsNormalise(got[0].Attrs), rsNormalise(exportable[0].want)); !ok {
						return r.fail("wrong-export-attrs", "peer %d, %s: %s", i, d.Prefix, diff)
					}
				}
				if len(got) > 1 {
					return r.fail("duplicate-advertisement", "peer %d holds %d paths for %s without ADD-PATH", i, len(got), d.Prefix)
				}
			} else {
				wantN := len(exportable)
				if wantN > p.spec.SendMax {
					wantN = p.spec.SendMax
				}
				if len(got) != wantN {
					return r.fail("addpath-count", "peer %d (send-max %d) holds %d paths for %s, %d are exportable (Loc-RIB %+v)", i, p.spec.SendMax, len(got), d.Prefix, len(exportable), paths)
				}
				for _, e := range got {
					t := h01TagOf(e.Attrs)
					ok, same, firstDiff := false, false, ""
					for _, c := range exportable {
						if c.tag == t {
							ok = true
							// twins carry one tag: the entry has to be the export of one of them
							if eq, diff := rsAttrsEqual(rsNormalise(e.Attrs), rsNormalise(c.want)); eq {
								same = true
							} else if firstDiff == "" {
								firstDiff = diff
							}
						}
					}
					if !ok {
						return r.fail("stale-advertisement", "peer %d holds tag %#x for %s which is not an exportable current path", i, t, d.Prefix)
					}
					if !same {
						return r.fail("wrong-export-attrs", "peer %d, %s tag %#x: %s", i, d.Prefix, t, firstDiff)
					}
				}
			}
		}
	}
	if established >= 2 {
		r.st.Label("two-established")
	}
	return nil
}

func h01TagOf(a rsAttrs) uint32 {
	if len(a.Comms) > 0 {
		return a.Comms[0]
	}
	return 0
}

func runH01(t *testing.T) func(c h01Case, st *verifkit.Stats) *verifkit.Failure {
	return func(c h01Case, st *verifkit.Stats) *verifkit.Failure {
		return simRun(t, func() *verifkit.Failure {
			n, err := simStart(rsApiGlobal(c.Global))
			if err != nil {
				return verifkit.Failf("start", "%v", err)
			}
			defer n.stop()
			r := &h01Run{c: &c, n: n, st: st, local: map[rsViewKey]h01Route{}, told: map[rsViewKey]bool{}}
			if simYieldAvailable {
				simYieldInstall(c.Sched)
				defer simYieldInstall(0)
			}
			if err := rsAddPeers(n, c.Global, c.Peers); err != nil {
				return verifkit.Failf("addpeer", "%v", err)
			}
			n.settle()
			for i := range c.Peers {
				r.peers = append(r.peers, &h01Peer{spec: &c.Peers[i], adjin: map[rsViewKey]h01Route{}})
				if f := r.establish(i); f != nil {
					return f
				}
			}
			replaced := false
			for i, op := range c.Ops {
				if f := r.apply(op); f != nil {
					return f
				}
				if f := r.verify(); f != nil {
					f.Msg = fmt.Sprintf("after op %d %+v: ", i, op) + f.Msg
					return f
				}
				st.SubEval(1)
				if op.Kind == hWithdraw || op.Kind == hFlap || op.Kind == hDown || (op.Kind == hAnnounce && i > 2) {
					replaced = true
				}
			}
			if replaced && len(c.Peers) >= 2 {
				st.Nontrivial()
			}
			if r.raced {
				st.Label("racing-operations")
			}
			if r.twins {
				st.Label("twin-routes")
			}
			if r.flooded {
				st.Label("flood-of-host-routes")
			}
			if r.huge {
				st.Label("unsendable-route")
			}
			if c.Sched != 0 && simYieldAvailable {
				st.Label("steered-schedule")
			}
			if c.Focus {
				st.Label("focused")
			}
			if f := n.stop(); f != nil {
				return r.fail(f.Sig, "%s", f.Msg)
			}
			return nil
		})
	}
}

// h01CoalesceProbe: the packing step of the coalescing sender, without ADD-PATH, keeps only
// the last queued action per prefix (deterministic form of the "wrong-route-advertised"
// failures the racing histories find only under load: the emission order of the two
// announcements is a map iteration order).
func h01CoalesceProbe(st *verifkit.Stats) *verifkit.Failure {
	for round := 0; round < 40; round++ {
		tm := table.NewTableManager(slog.New(slog.NewTextHandler(io.Discard, nil)), []bgp.Family{bgp.RF_IPv4_UC})
		nlri, _ := bgp.NewIPAddrPrefix(netip.MustParsePrefix("10.100.0.0/24"))
		mk := func(peer string, as uint32, tag uint32) *table.Path {
			src := &table.PeerInfo{AS: as, LocalAS: rsLocalAS, ID: netip.MustParseAddr(peer), Address: netip.MustParseAddr(peer), LocalID: netip.MustParseAddr(rsRouterID)}
			nh, _ := bgp.NewPathAttributeNextHop(netip.MustParseAddr(peer))
			attrs := []bgp.PathAttributeInterface{bgp.NewPathAttributeOrigin(0), bgp.NewPathAttributeAsPath([]bgp.AsPathParamInterface{bgp.NewAs4PathParam(2, []uint32{as})}), nh, bgp.NewPathAttributeCommunities([]uint32{tag})}
			return table.NewPath(bgp.RF_IPv4_UC, src, bgp.PathNLRI{NLRI: nlri}, false, attrs, time.Unix(1, 0), false)
		}
		tm.Update(mk("10.0.0.1", 65001, 1))
		tm.Update(mk("10.0.0.2", 65002, 2))
		paths := tm.GetPathList(table.GLOBAL_RIB_NAME, 0, []bgp.Family{bgp.RF_IPv4_UC})
		if len(paths) != 2 || paths[0].LocalID() == paths[1].LocalID() {
			return verifkit.Failf("probe-setup", "expected two paths with distinct local identifiers, got %d", len(paths))
		}
		// queued for one peer: first the one, then the other became best
		first, second := paths[round%2], paths[1-round%2]
		msgs := table.CreateUpdateMsgFromPaths([]*table.Path{first, second}, &bgp.MarshallingOption{})
		holds := uint32(0)
		for _, m := range msgs {
			u := m.Body.(*bgp.BGPUpdate)
			for range u.NLRI {
				holds = h01Tag(u.PathAttributes)
			}
		}
		st.SubEval(1)
		if want := h01Tag(second.GetPathAttrs()); holds != want {
			return verifkit.Failf("wrong-route-advertised", "round %d: two announcements of 10.100.0.0/24 queued for a peer without ADD-PATH (tag %d, then tag %d) are packed into %d UPDATEs after which the peer holds tag %d", round, h01Tag(first.GetPathAttrs()), want, len(msgs), holds)
		}
	}
	st.Nontrivial()
	return nil
}

func TestVerifC01(t *testing.T) {
	verifkit.RegisterProbe("C01", "coalesce-last-per-prefix", h01CoalesceProbe)
	verifkit.Run(t, "C01", drawH01, runH01(t))
}

// C02 is decided on the same histories (RIB content, counters) under its own id.
func TestVerifC02(t *testing.T) {
	verifkit.RegisterProbe("C02", "stale-message-of-previous-session", h02StaleProbe(t))
	verifkit.Run(t, "C02", drawH01, runH01(t))
}

// Probe (white box): "messages ... older than the session's uptime are ignored" (C07's mechanism list, C02's "ended
// session" clause).  The receive goroutine of a session cannot outlive it in a history (Established waits for it), so
// the guard in handleFSMMessage is reached here directly: on an established session an UPDATE stamped before the
// session came up must change neither the Adj-RIB-In nor the Loc-RIB; one stamped now is taken.
func h02StaleProbe(t *testing.T) func(st *verifkit.Stats) *verifkit.Failure {
	return func(st *verifkit.Stats) *verifkit.Failure {
		return simRun(t, func() *verifkit.Failure {
			n, err := simStart(rsApiGlobal(rsGlobal{}))
			if err != nil {
				return verifkit.Failf("start", "%v", err)
			}
			p := rsPeer{Addr: "10.0.0.1", ID: "10.0.0.1", Kind: rsEBGP, AS: 65001}
			if err := rsAddPeers(n, rsGlobal{}, []rsPeer{p}); err != nil {
				n.stop()
				return verifkit.Failf("addpeer", "%v", err)
			}
			n.settle()
			n.advance(30 * time.Second) // the session comes up half a minute after the start
			if _, _, err := n.establish(p.def(), rsOpenSpec(&p)); err != nil {
				n.stop()
				return verifkit.Failf("establish", "%v", err)
			}
			n.advance(2 * time.Second)
			var pr *peer
			_ = n.s.mgmtOperation(func() error { pr = n.s.neighborMap[netip.MustParseAddr(p.Addr)]; return nil }, false)
			if pr == nil {
				n.stop()
				return verifkit.Failf("probe-setup", "peer not found")
			}
			count := func() int {
				c := 0
				_ = n.s.ListPath(apiutil.ListPathRequest{TableType: api.TableType_TABLE_TYPE_ADJ_IN, Name: p.Addr, Family: bgp.RF_IPv4_UC}, func(bgp.NLRI, []*apiutil.Path) { c++ })
				_ = n.s.ListPath(apiutil.ListPathRequest{TableType: api.TableType_TABLE_TYPE_GLOBAL, Family: bgp.RF_IPv4_UC}, func(bgp.NLRI, []*apiutil.Path) { c++ })
				return c
			}
			attrs := rsAttrs{ASPath: []rsSeg{{T: 2, AS: []uint32{p.AS}}}, NextHop: p.Addr, MED: -1, LocalPref: -1}
			for _, back := range []time.Duration{20 * time.Second, 5 * time.Second, 3 * time.Second} {
				st.SubEval(1)
				n.s.handleFSMMessage(pr, &fsmMsg{MsgType: fsmMsgBGPMessage, MsgData: rsAnnounce(&p, false, 1, 0, attrs), timestamp: time.Now().Add(-back)})
				n.settle()
				if c := count(); c != 0 {
					n.stop()
					return verifkit.Failf("stale-message-accepted", "an UPDATE read %v ago, before the current session came up (2 s ago), was installed (%d table entries)", back, c)
				}
			}
			n.s.handleFSMMessage(pr, &fsmMsg{MsgType: fsmMsgBGPMessage, MsgData: rsAnnounce(&p, false, 2, 0, attrs), timestamp: time.Now()})
			n.settle()
			if c := count(); c != 2 {
				n.stop()
				return verifkit.Failf("fresh-message-ignored", "an UPDATE of the current session was not installed (%d table entries, want 2)", c)
			}
			st.Nontrivial()
			return n.stop()
		})
	}
}
