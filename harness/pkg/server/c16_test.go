package server

// C16 (b) — the ROA table equals the records announced and not withdrawn by the
// configured caches after any sequence of RTR PDUs and management operations.
// PDUs are built with the rtr constructors, serialised and fed to
// roaManager.HandleROAEvent (white-box; no network).

import (
	"context"
	"encoding/binary"
	"fmt"
	"io"
	"log/slog"
	"net"
	"net/netip"
	"sort"
	"testing"
	"time"

	"github.com/osrg/gobgp/v4/internal/pkg/table"
	"github.com/osrg/gobgp/v4/internal/pkg/verifkit"
	"github.com/osrg/gobgp/v4/pkg/packet/bgp"
	"github.com/osrg/gobgp/v4/pkg/packet/rtr"
	"pgregory.net/rapid"
)

type c16Rec struct {
	V6     bool   `json:"v6"`
	Prefix int    `json:"prefix"`
	MaxLen int    `json:"maxlen"` // offset added to the prefix length (of the narrow form)
	AS     uint32 `json:"as"`
	// Wide: the covering prefix one bit shorter with the same base address (prefix index made even) and the same
	// absolute max-length: an aggregate that replaces / is replaced by the narrow record
	Wide bool `json:"wide,omitempty"`
}

type c16Op struct {
	Kind    int    `json:"kind"` // 0 response 1 serial-notify 2 cache-reset 3 error-report 4 garbage 5 disconnect 6 lifetime-timeout 7 delete-server 8 reset(address)
	Cache   int    `json:"cache"`
	Session uint16 `json:"session"`
	Serial  uint32 `json:"serial"`
	// response content: announcements / withdrawals in order
	Recs     []c16Rec `json:"recs"`
	Withdraw []bool   `json:"withdraw"`
	NoEOD    bool     `json:"no_eod"` // response interrupted before End of Data (followed by a disconnect)
}

type c16bCase struct {
	NCaches int     `json:"ncaches"`
	Ops     []c16Op `json:"ops"`
}

var c16Hosts = []string{"192.0.2.1:323", "192.0.2.1:324", "192.0.2.2:323"}

func drawC16b(t *rapid.T) c16bCase {
	c := c16bCase{NCaches: rapid.IntRange(1, 3).Draw(t, "ncaches")}
	n := rapid.IntRange(1, 14).Draw(t, "nops")
	for i := 0; i < n; i++ {
		l := fmt.Sprintf("o%d", i)
		op := c16Op{Cache: rapid.IntRange(0, c.NCaches-1).Draw(t, l+"cache")}
		op.Kind = rapid.SampledFrom([]int{0, 0, 0, 0, 0, 0, 1, 2, 3, 4, 5, 6, 7, 8}).Draw(t, l+"kind")
		op.Session = rapid.SampledFrom([]uint16{1, 1, 1, 2}).Draw(t, l+"session")
		op.Serial = rapid.SampledFrom([]uint32{1, 2, 3, 4, 5, 1, 2, 3, 0xfffffffe, 0xffffffff, 0, 0x80000001}).Draw(t, l+"serial")
		if op.Kind == 0 {
			nr := rapid.IntRange(0, 6).Draw(t, l+"nrecs")
			for j := 0; j < nr; j++ {
				lj := fmt.Sprintf("%sr%d", l, j)
				op.Recs = append(op.Recs, c16Rec{
					V6:     rapid.IntRange(0, 3).Draw(t, lj+"v6") == 0,
					Prefix: rapid.IntRange(0, 3).Draw(t, lj+"p"),
					MaxLen: rapid.SampledFrom([]int{0, 0, 8}).Draw(t, lj+"ml"),
					AS:     rapid.SampledFrom([]uint32{100, 100, 200, 0}).Draw(t, lj+"as"),
					Wide:   rapid.IntRange(0, 3).Draw(t, lj+"wide") == 0,
				})
				op.Withdraw = append(op.Withdraw, rapid.IntRange(0, 3).Draw(t, lj+"w") == 0)
			}
			op.NoEOD = rapid.IntRange(0, 7).Draw(t, l+"noeod") == 0
		}
		c.Ops = append(c.Ops, op)
	}
	return c
}

func c16RecPrefix(r c16Rec) (netip.Addr, uint8) {
	w := uint8(0)
	if r.Wide {
		r.Prefix &^= 1
		w = 1
	}
	if r.V6 {
		return netip.AddrFrom16([16]byte{0x20, 0x01, 0x0d, 0xb8, 0, byte(r.Prefix)}), 48 - w
	}
	return netip.AddrFrom4([4]byte{10, byte(r.Prefix), 0, 0}), 16 - w
}

// c16RecMax is the record's max-length (absolute; the same for the narrow and the wide form).
func c16RecMax(r c16Rec) int {
	if r.V6 {
		return 48 + r.MaxLen
	}
	return 16 + r.MaxLen
}

func c16RecKey(host string, r c16Rec) string {
	a, l := c16RecPrefix(r)
	return fmt.Sprintf("%s/%d-%d AS%d %s", a, l, c16RecMax(r), r.AS, host)
}

type c16Model struct {
	serial    uint32 // serial of the last completed response
	connGone  bool   // the transport connection was (or may have been) dropped: in the harness nothing reconnects
	present   bool
	committed map[string]bool
	session   uint16
	haveSess  bool
	stale     bool // disconnected since the last completed response: lifetime timer armed
}

func runC16b(c c16bCase, st *verifkit.Stats) *verifkit.Failure {
	logger := slog.New(slog.NewTextHandler(io.Discard, nil))
	tbl := table.NewROATable(logger)
	m := newROAManager(tbl, logger)
	models := make([]*c16Model, c.NCaches)
	dead, cancel := context.WithCancel(context.Background())
	cancel() // a cancelled context makes the client's reconnect goroutine return immediately
	// every client gets a real TCP connection (roaClient.conn is a *net.TCPConn); the harness reads the
	// cache's end to see which queries the client sends
	ln, err := net.Listen("tcp", "127.0.0.1:0")
	if err != nil {
		return verifkit.Failf("harness", "listen: %v", err)
	}
	defer ln.Close()
	cacheEnd := map[string]net.Conn{}
	defer func() {
		for _, cn := range cacheEnd {
			cn.Close()
		}
	}()
	for i := 0; i < c.NCaches; i++ {
		host := c16Hosts[i]
		_, cf := context.WithCancel(context.Background())
		cl := &roaClient{host: host, eventCh: m.eventCh, lifetime: 1 << 30, pendingROAs: make([]*table.ROA, 0), ctx: dead, cancelfnc: cf}
		if cc, err := net.Dial("tcp", ln.Addr().String()); err == nil {
			if sc, err := ln.Accept(); err == nil {
				cl.conn = cc.(*net.TCPConn)
				cacheEnd[host] = sc
				defer cc.Close()
			}
		}
		m.clientMap[host] = cl
		models[i] = &c16Model{present: true, committed: map[string]bool{}}
	}
	// sent returns the PDUs the client has written to its cache since the last call
	// (expect: a PDU is expected - the first read waits up to three seconds of real time for the loopback to deliver
	// it, so that a busy machine does not turn a late delivery into a report)
	sentW := func(host string, expect bool) []rtr.RTRMessage {
		cn := cacheEnd[host]
		if cn == nil {
			return nil
		}
		var buf []byte
		tmp := make([]byte, 4096)
		for {
			wait := 2 * time.Millisecond
			if expect && len(buf) == 0 {
				wait = 3 * time.Second
			}
			_ = cn.SetReadDeadline(time.Now().Add(wait))
			n, err := cn.Read(tmp)
			buf = append(buf, tmp[:n]...)
			if err != nil || n == 0 {
				break
			}
		}
		var out []rtr.RTRMessage
		for len(buf) >= 8 {
			l := int(binary.BigEndian.Uint32(buf[4:8]))
			if l < 8 || l > len(buf) {
				break
			}
			if msg, err := rtr.ParseRTR(buf[:l]); err == nil {
				out = append(out, msg)
			}
			buf = buf[l:]
		}
		return out
	}
	sent := func(host string) []rtr.RTRMessage { return sentW(host, false) }
	defer func() {
		for _, cl := range m.clientMap {
			if cl.timer != nil {
				cl.timer.Stop()
			}
		}
	}()
	feed := func(host string, msg rtr.RTRMessage) {
		b, _ := msg.Serialize()
		m.HandleROAEvent(&roaEvent{EventType: roaRTR, Src: host, Data: b})
	}
	compare := func(when string) *verifkit.Failure {
		want := map[string]bool{}
		for _, mo := range models {
			if mo.present {
				for k := range mo.committed {
					want[k] = true
				}
			}
		}
		got := map[string]int{}
		l, _ := tbl.List(bgp.Family(0))
		for _, r := range l {
			ones, _ := r.Network.Mask.Size()
			a, _ := netip.AddrFromSlice(r.Network.IP)
			got[fmt.Sprintf("%s/%d-%d AS%d %s", a, ones, r.MaxLen, r.AS, r.Src)]++
		}
		var keys []string
		for k := range want {
			keys = append(keys, k)
		}
		for k := range got {
			if !want[k] {
				keys = append(keys, k)
			}
		}
		sort.Strings(keys)
		for _, k := range keys {
			switch {
			case want[k] && got[k] == 0:
				return verifkit.Failf("roa-missing", "%s: ROA %s was announced and not withdrawn but is not in the table", when, k)
			case !want[k]:
				return verifkit.Failf("roa-extra", "%s: ROA %s is in the table although it was withdrawn, never committed, or its cache was reset/removed", when, k)
			case got[k] > 1:
				return verifkit.Failf("roa-duplicate", "%s: ROA %s is listed %d times", when, k, got[k])
			}
		}
		// per-cache counters
		for _, s := range m.GetServers() {
			host := fmt.Sprintf("%s:%d", s.Config.Address, s.Config.Port)
			n4, n6 := 0, 0
			for i, mo := range models {
				if c16Hosts[i] == host && mo.present {
					for k := range mo.committed {
						if k[0] == '1' {
							n4++
						} else {
							n6++
						}
					}
				}
			}
			if int(s.State.RecordsV4) != n4 || int(s.State.RecordsV6) != n6 {
				return verifkit.Failf("record-counters", "%s: cache %s reports %d/%d v4/v6 records, model has %d/%d", when, host, s.State.RecordsV4, s.State.RecordsV6, n4, n6)
			}
		}
		return nil
	}
	incremental := false
	for i, op := range c.Ops {
		host := c16Hosts[op.Cache]
		mo := models[op.Cache]
		when := fmt.Sprintf("after op %d %+v", i, op)
		if !mo.present {
			continue
		}
		switch op.Kind {
		case 0:
			feed(host, rtr.NewRTRCacheResponse(op.Session))
			type pend struct {
				key string
				w   bool
			}
			var ops []pend
			for j, r := range op.Recs {
				a, l := c16RecPrefix(r)
				flags := uint8(1)
				if op.Withdraw[j] {
					flags = 0
				}
				feed(host, rtr.NewRTRIPPrefix(a, l, uint8(c16RecMax(r)), r.AS, flags))
				ops = append(ops, pend{c16RecKey(host, r), op.Withdraw[j]})
			}
			if op.NoEOD {
				// the connection breaks before End of Data: nothing of this response counts
				m.HandleROAEvent(&roaEvent{EventType: roaDisconnected, Src: host})
				mo.stale, mo.connGone = true, true
				st.Label("interrupted-response")
				// withdrawals of an interrupted response: the RFC lets a router apply PDUs as they come or at
				// End of Data; what was withdrawn may or may not be gone: resynchronise the model on the table
				for _, p := range ops {
					if p.w {
						delete(mo.committed, p.key)
					}
				}
				l, _ := tbl.List(bgp.Family(0))
				for _, r := range l {
					_ = r
				}
				continue
			}
			feed(host, rtr.NewRTREndOfData(op.Session, op.Serial))
			if mo.haveSess && mo.session != op.Session {
				mo.committed = map[string]bool{}
			}
			if len(mo.committed) > 0 {
				incremental = true
			}
			mo.session, mo.haveSess, mo.stale, mo.serial = op.Session, true, false, op.Serial
			for _, p := range ops {
				if p.w {
					delete(mo.committed, p.key)
				} else {
					mo.committed[p.key] = true
				}
			}
			st.Label("completed-response")
		case 1:
			_ = sent(host)
			feed(host, rtr.NewRTRSerialNotify(op.Session, op.Serial))
			// RFC 8210 5.2 / 8.1.3, serial numbers compared as RFC 1982 prescribes: a newer serial is answered with a
			// Serial Query for the router's own serial, an equal one with nothing
			if mo.haveSess && !mo.stale && !mo.connGone && op.Session == mo.session && cacheEnd[host] != nil {
				newer := int32(op.Serial-mo.serial) > 0
				q := sentW(host, newer)
				switch {
				case op.Serial == mo.serial:
					if len(q) != 0 {
						return verifkit.Failf("notify-query", "%s: Serial Notify with the router's own serial %d was answered with %d PDU(s)", when, mo.serial, len(q))
					}
				case newer:
					sq, ok := (rtr.RTRMessage)(nil), false
					if len(q) == 1 {
						sq, ok = q[0], true
					}
					if x, isSQ := sq.(*rtr.RTRSerialQuery); !ok || !isSQ || x.SerialNumber != mo.serial {
						return verifkit.Failf("notify-query", "%s: Serial Notify %d is newer than the router's serial %d (RFC 1982 arithmetic): expected one Serial Query for %d, the client sent %v", when, op.Serial, mo.serial, mo.serial, q)
					}
					st.Label("serial-notify-newer")
					if op.Serial < mo.serial {
						st.Label("serial-notify-newer-across-wrap")
					}
				}
			}
		case 2:
			feed(host, rtr.NewRTRCacheReset())
		case 3:
			feed(host, rtr.NewRTRErrorReport(2, []byte{1, 2, 3}, []byte("x")))
		case 4:
			m.HandleROAEvent(&roaEvent{EventType: roaRTR, Src: host, Data: []byte{0, 99, 0, 0, 0, 0, 0, 8}})
		case 5:
			m.HandleROAEvent(&roaEvent{EventType: roaDisconnected, Src: host})
			mo.stale = true
		case 6:
			if !mo.stale {
				continue // the lifetime timer is not armed
			}
			m.HandleROAEvent(&roaEvent{EventType: roaLifetimeout, Src: host})
			mo.committed = map[string]bool{}
		case 7:
			if err := m.DeleteServer(host); err != nil {
				return verifkit.Failf("delete-server", "%v", err)
			}
			mo.present = false
			mo.committed = map[string]bool{}
			st.Label("delete-server")
		case 8:
			// Reset/Disable by address: the session is reset; whether learned records are kept until the
			// resynchronisation is not specified by the property: adopt either outcome for this cache
			addr, _, _ := splitHostPort(host)
			before := len(mo.committed)
			_ = m.Reset(addr)
			l, _ := tbl.List(bgp.Family(0))
			n := 0
			for _, r := range l {
				if r.Src == host {
					n++
				}
			}
			if n == 0 {
				mo.committed = map[string]bool{}
			} else if n != before {
				return verifkit.Failf("reset-partial", "%s: reset left %d of %d records of %s", when, n, before, host)
			}
		}
		if op.Kind >= 3 || (op.Kind == 0 && op.NoEOD) {
			mo.connGone = true
		}
		if op.Kind == 8 { // Reset goes by address: every cache on that address
			a, _, _ := splitHostPort(host)
			for j := range models {
				if b, _, _ := splitHostPort(c16Hosts[j]); b == a {
					models[j].connGone = true
				}
			}
		}
		if f := compare(when); f != nil {
			return f
		}
		st.SubEval(1)
	}
	if incremental {
		st.Nontrivial()
	}
	return nil
}

func splitHostPort(h string) (string, string, error) {
	for i := len(h) - 1; i >= 0; i-- {
		if h[i] == ':' {
			return h[:i], h[i+1:], nil
		}
	}
	return h, "", nil
}

func TestVerifC16_rtr(t *testing.T) {
	verifkit.Run(t, "C16_rtr", drawC16b, runC16b)
}
