package server

// C07 (active side) — outbound connects, the handshake on them, connection
// collision and the timers of an ACTIVE (non-passive) peer.
//
// The peer's outgoing TCP connect ends in the harness through the verif-tagged
// dial hook; inbound connections are handed to the server as the accept loop
// does.  A generated sequence over {outbound connect completes / is refused,
// inbound connect, OPEN / KEEPALIVE on either connection (the two OPENs carry
// different hold times), close, silence} runs in virtual time.  The scripted
// peer's writes are queued per connection like a TCP send buffer, so "sent" and
// "read by the server" are distinct facts.
//
// Oracle: invariants over the whole observed history, written from RFC 4271
// sections 6.8, 8 and 10 (not a trace prediction — the connect timer is jittered
// by design):
//   - per connection the server speaks OPEN first and once (on an outbound
//     connection at the instant it completes), KEEPALIVE only after a valid OPEN
//     was read on that connection, UPDATE only on the connection of an
//     Established session, and a NOTIFICATION ends the connection;
//   - an invalid OPEN is answered on its connection with the OPEN-error subcode,
//     at that instant, and the connection is closed;
//   - hold timers: no OPEN within 240 s on a connection the server has sent its
//     OPEN on, no KEEPALIVE within the hold time negotiated FROM THAT
//     CONNECTION'S OPEN after the server's KEEPALIVE, silence for that hold time
//     in Established: NOTIFICATION 4/0 exactly then, never at another instant;
//   - Established is reported iff exactly one live connection has the complete
//     handshake (server OPEN+KEEPALIVE sent, peer OPEN+KEEPALIVE read), and the
//     negotiated hold time reported is min(configured, hold time of the OPEN read
//     on THAT connection);
//   - collision (6.8): once valid OPENs were read on an inbound and an outbound
//     connection that are both open and neither is Established, only the one
//     initiated by the speaker with the higher BGP identifier stays open; a
//     connection whose OPEN is read while another one is Established is closed;
//   - after a refused connect the next attempt comes after the ConnectRetry time
//     (jitter 0.75..1.0), no connect is attempted while Established.

import (
	"context"
	"fmt"
	"sync"
	"testing"
	"time"

	"github.com/osrg/gobgp/v4/api"
	"github.com/osrg/gobgp/v4/internal/pkg/verifkit"
	"github.com/osrg/gobgp/v4/pkg/packet/bgp"
	"pgregory.net/rapid"
)

const (
	aAccept = iota
	aRefuse
	aInbound
	aOpenOut // arg: 0 valid, 1 bad peer AS, 2 hold time 1
	aOpenIn
	aKeepOut
	aKeepIn
	aCloseOut
	aCloseIn
	aWait        // arg: 0 1s, 1 3s, 2 next hold deadline - 10ms, 3 next hold deadline + 10ms, 4 250s, 5 12s
	aOpenBoth    // valid OPEN on both connections without letting the server run in between; arg: 0 out first, 1 in first
	aUpdate      // UPDATE on the established connection (resets its hold timer)
	aDisable     // DisablePeer (administrative shutdown)
	aEnable      // EnablePeer
	aKeepOpen    // KEEPALIVE on one connection and a valid OPEN on the other at once; arg bit 0: the KEEPALIVE goes out on the outbound connection, bit 1: the OPEN is written first
	aDisableOpen // a valid OPEN on the outbound connection, DisablePeer arg*100 microseconds later (the OPEN handling of the outgoing connection manager races the shutdown)
	numA07
)

var a07Names = [...]string{"accept-dial", "refuse-dial", "inbound", "open-out", "open-in", "keepalive-out", "keepalive-in", "close-out", "close-in", "wait", "open-both", "update", "disable", "enable", "keepalive+open", "open+disable"}

type a07Ev struct {
	Kind int `json:"kind"`
	Arg  int `json:"arg"`
}

type a07Case struct {
	PeerIDHigh   bool    `json:"peer_id_high"` // the peer's BGP identifier is above the local one
	IBGP         bool    `json:"ibgp"`
	LocalHold    int     `json:"local_hold"`
	HoldOut      int     `json:"hold_out"` // hold time of the OPEN the peer sends on outbound (server-initiated) connections
	HoldIn       int     `json:"hold_in"`  // ... on inbound connections
	ConnectRetry int     `json:"connect_retry"`
	Events       []a07Ev `json:"events"`
	// Sched (0 = off) steers the verif yield point before the outgoing connection manager hands a connection to the FSM
	Sched uint64 `json:"sched,omitempty"`
}

func drawA07(t *rapid.T) a07Case {
	c := a07Case{
		PeerIDHigh:   rapid.Bool().Draw(t, "peer_id_high"),
		IBGP:         rapid.IntRange(0, 3).Draw(t, "ibgp") == 0,
		LocalHold:    rapid.SampledFrom([]int{30, 90, 9}).Draw(t, "local_hold"),
		HoldOut:      rapid.SampledFrom([]int{30, 9, 12, 90, 3, 0, 60}).Draw(t, "hold_out"),
		HoldIn:       rapid.SampledFrom([]int{30, 9, 12, 90, 3, 0, 60}).Draw(t, "hold_in"),
		ConnectRetry: rapid.SampledFrom([]int{5, 10, 30}).Draw(t, "connect_retry"),
	}
	pool := []int{aAccept, aAccept, aAccept, aRefuse, aInbound, aInbound, aOpenOut, aOpenOut, aOpenIn, aOpenIn, aKeepOut, aKeepOut, aKeepIn, aKeepIn,
		aCloseOut, aCloseIn, aWait, aWait, aWait, aOpenBoth, aUpdate, aDisable, aEnable, aEnable, aKeepOpen, aKeepOpen, aDisableOpen}
	if rapid.IntRange(0, 1).Draw(t, "sched_on") == 1 {
		c.Sched = uint64(rapid.IntRange(1, 1<<30).Draw(t, "sched"))
	}
	switch rapid.IntRange(0, 9).Draw(t, "prelude") {
	case 4: // collision: OPEN on both at once
		c.Events = append(c.Events, a07Ev{Kind: aInbound}, a07Ev{Kind: aAccept}, a07Ev{Kind: aOpenBoth, Arg: rapid.IntRange(0, 1).Draw(t, "pboth")})
		if rapid.Bool().Draw(t, "pboth_ka") {
			// ... and the survivor's handshake is completed (the KEEPALIVE on the closed connection goes nowhere)
			c.Events = append(c.Events, a07Ev{Kind: aKeepOut}, a07Ev{Kind: aKeepIn}, a07Ev{Kind: aWait, Arg: 0})
		}
	case 5: // collision: outbound first, then inbound
		c.Events = append(c.Events, a07Ev{Kind: aAccept}, a07Ev{Kind: aInbound}, a07Ev{Kind: aOpenOut}, a07Ev{Kind: aOpenIn})
	case 6: // collision: inbound in OpenConfirm, then the OPEN on the outbound connection
		c.Events = append(c.Events, a07Ev{Kind: aInbound}, a07Ev{Kind: aAccept}, a07Ev{Kind: aOpenIn}, a07Ev{Kind: aOpenOut})
	case 7: // session on the inbound connection
		c.Events = append(c.Events, a07Ev{Kind: aInbound}, a07Ev{Kind: aOpenIn}, a07Ev{Kind: aKeepIn})
	case 8: // the inbound connection reaches Established at the moment the peer's OPEN arrives on the outbound one
		c.Events = append(c.Events, a07Ev{Kind: aInbound}, a07Ev{Kind: aAccept}, a07Ev{Kind: aOpenIn}, a07Ev{Kind: aKeepOpen, Arg: rapid.IntRange(0, 1).Draw(t, "pko") * 2})
	case 9: // administrative shutdown while the peer's OPEN on the outbound connection is being handled
		c.Events = append(c.Events, a07Ev{Kind: aAccept}, a07Ev{Kind: aDisableOpen, Arg: rapid.IntRange(0, 3).Draw(t, "pdo")}, a07Ev{Kind: aWait, Arg: 1})
	case 0: // plain active open
		c.Events = append(c.Events, a07Ev{Kind: aAccept}, a07Ev{Kind: aOpenOut}, a07Ev{Kind: aKeepOut})
	case 1: // both connections up, nothing said yet
		c.Events = append(c.Events, a07Ev{Kind: aAccept}, a07Ev{Kind: aInbound})
	case 2:
		c.Events = append(c.Events, a07Ev{Kind: aInbound}, a07Ev{Kind: aAccept})
	case 3: // inbound reaches OpenConfirm, then the outbound connection completes
		c.Events = append(c.Events, a07Ev{Kind: aInbound}, a07Ev{Kind: aOpenIn}, a07Ev{Kind: aAccept})
	}
	n := rapid.IntRange(1, 14).Draw(t, "n")
	for i := 0; i < n; i++ {
		e := a07Ev{Kind: rapid.SampledFrom(pool).Draw(t, fmt.Sprintf("k%d", i))}
		switch e.Kind {
		case aOpenOut, aOpenIn:
			e.Arg = rapid.SampledFrom([]int{0, 0, 0, 0, 0, 1, 2}).Draw(t, fmt.Sprintf("a%d", i))
		case aWait:
			e.Arg = rapid.SampledFrom([]int{0, 1, 2, 3, 3, 3, 4, 5, 5}).Draw(t, fmt.Sprintf("a%d", i))
		case aOpenBoth:
			e.Arg = rapid.IntRange(0, 1).Draw(t, fmt.Sprintf("a%d", i))
		case aKeepOpen:
			e.Arg = rapid.IntRange(0, 3).Draw(t, fmt.Sprintf("a%d", i))
		case aDisableOpen:
			e.Arg = rapid.IntRange(0, 3).Draw(t, fmt.Sprintf("a%d", i))
		}
		c.Events = append(c.Events, e)
	}
	return c
}

type a07Tx struct {
	typ       uint8
	bad       uint8 // OPEN: expected OPEN-error subcode (0 = valid)
	queuedAt  time.Duration
	delivered bool
	readAt    time.Duration
}

type a07Conn struct {
	idx      int
	out      bool
	ss       *simSess
	openedAt time.Duration
	hold     int // hold time of the OPEN the peer sends on it
	weClosed bool
	closedAt time.Duration

	mu  sync.Mutex
	tx  []*a07Tx
	txq chan []byte
	txn chan *a07Tx
}

func (c *a07Conn) writer(n *simNet) {
	for b := range c.txq {
		x := <-c.txn
		if _, err := c.ss.conn.Write(b); err == nil {
			c.mu.Lock()
			x.delivered, x.readAt = true, n.now()
			c.mu.Unlock()
		}
	}
}

func (c *a07Conn) txs() []a07Tx {
	c.mu.Lock()
	defer c.mu.Unlock()
	out := make([]a07Tx, len(c.tx))
	for i, x := range c.tx {
		out[i] = *x
	}
	return out
}

// firstRead returns the first delivered message of a type (and whether there is one).
func a07FirstRead(txs []a07Tx, typ uint8) (a07Tx, bool) {
	for _, x := range txs {
		if x.typ == typ && x.delivered {
			return x, true
		}
	}
	return a07Tx{}, false
}

type a07Run struct {
	c      *a07Case
	n      *simNet
	d      *simDialer
	st     *verifkit.Stats
	peer   *simPeerDef
	conns  []*a07Conn
	log    []string
	evIdx  int
	refAt  map[int]time.Duration // dial index -> instant it was refused
	estOn  map[int]time.Duration // conn idx -> instant the session was first seen Established on it
	labels map[string]bool
	down   [][2]time.Duration // intervals of administrative shutdown (an open one ends at 0)
}

func (r *a07Run) logf(f string, a ...any) {
	r.log = append(r.log, fmt.Sprintf("[%v ev#%d] ", r.n.now(), r.evIdx)+fmt.Sprintf(f, a...))
}

func (r *a07Run) fail(sig, f string, a ...any) *verifkit.Failure {
	hist := ""
	for _, l := range r.log {
		hist += "\n   " + l
	}
	for _, c := range r.conns {
		rx, eof, eofAt := c.ss.snapshot()
		hist += fmt.Sprintf("\n   conn#%d out=%v opened %v weClosed=%v eof=%v@%v server->peer:", c.idx, c.out, c.openedAt, c.weClosed, eof, eofAt)
		for _, m := range rx {
			hist += fmt.Sprintf(" %s@%v", c07Describe(m), m.At)
		}
		hist += " peer->server:"
		for _, x := range c.txs() {
			hist += fmt.Sprintf(" type%d(bad=%d)@%v read=%v@%v", x.typ, x.bad, x.queuedAt, x.delivered, x.readAt)
		}
	}
	return verifkit.Failf(sig, "%s\n  case: peer id high=%v local hold %d, OPEN hold out/in %d/%d, connect-retry %d\n  history:%s", fmt.Sprintf(f, a...),
		r.c.PeerIDHigh, r.c.LocalHold, r.c.HoldOut, r.c.HoldIn, r.c.ConnectRetry, hist)
}

func (r *a07Run) newConn(ss *simSess, out bool) *a07Conn {
	c := &a07Conn{idx: len(r.conns), out: out, ss: ss, openedAt: r.n.now(), txq: make(chan []byte, 64), txn: make(chan *a07Tx, 64)}
	c.hold = r.c.HoldIn
	if out {
		c.hold = r.c.HoldOut
	}
	r.conns = append(r.conns, c)
	go c.writer(r.n)
	return c
}

// latest returns the most recent connection of a direction that the harness has not closed.
func (r *a07Run) latest(out bool) *a07Conn {
	for i := len(r.conns) - 1; i >= 0; i-- {
		if r.conns[i].out == out {
			if r.conns[i].weClosed {
				return nil
			}
			return r.conns[i]
		}
	}
	return nil
}

func (r *a07Run) queue(c *a07Conn, m *bgp.BGPMessage, bad uint8) {
	m.Header.Len = 0
	b, _ := m.Serialize()
	x := &a07Tx{typ: m.Header.Type, bad: bad, queuedAt: r.n.now()}
	c.mu.Lock()
	c.tx = append(c.tx, x)
	c.mu.Unlock()
	c.txn <- x
	c.txq <- b
}

func (r *a07Run) openMsg(c *a07Conn, arg int) (*bgp.BGPMessage, uint8) {
	spec := simOpenSpec{HoldTime: uint16(c.hold), Families: []uint32{uint32(bgp.RF_IPv4_UC)}}
	bad := uint8(0)
	switch arg {
	case 1:
		spec.AS = r.peer.AS + 7
		bad = bgp.BGP_ERROR_SUB_BAD_PEER_AS
	case 2:
		spec.HoldTime = 1
		bad = bgp.BGP_ERROR_SUB_UNACCEPTABLE_HOLD_TIME
	}
	return r.peer.open(spec), bad
}

func (r *a07Run) negotiated(c *a07Conn) time.Duration {
	h := r.c.LocalHold
	if c.hold < h {
		h = c.hold
	}
	return time.Duration(h) * time.Second
}

// phaseDeadline: the hold-timer deadline that applies to connection c at instant "at" (0 = none), by the facts before "at".
func (r *a07Run) phaseDeadline(c *a07Conn, rx []simMsg, txs []a07Tx, at time.Duration) (time.Duration, string) {
	var srvOpen, srvKA *simMsg
	for i := range rx {
		if rx[i].At >= at {
			break
		}
		switch rx[i].Type() {
		case bgp.BGP_MSG_OPEN:
			if srvOpen == nil {
				srvOpen = &rx[i]
			}
		case bgp.BGP_MSG_KEEPALIVE:
			if srvKA == nil {
				srvKA = &rx[i]
			}
		}
	}
	if srvOpen == nil {
		return 0, "nothing sent"
	}
	var open, ka *a07Tx
	last := time.Duration(0)
	for i := range txs {
		x := &txs[i]
		if !x.delivered || x.readAt >= at {
			continue
		}
		if x.typ == bgp.BGP_MSG_OPEN && open == nil {
			open = x
		}
		if x.typ == bgp.BGP_MSG_KEEPALIVE && ka == nil && open != nil {
			ka = x
		}
		if ka != nil && (x.typ == bgp.BGP_MSG_KEEPALIVE || x.typ == bgp.BGP_MSG_UPDATE) {
			last = x.readAt
		}
	}
	switch {
	case open == nil:
		return srvOpen.At + 240*time.Second, "OpenSent (no OPEN read for 240 s)"
	case srvKA == nil:
		return 0, "OPEN read, no KEEPALIVE sent yet"
	case ka == nil:
		if h := r.negotiated(c); h > 0 {
			return srvKA.At + h, fmt.Sprintf("OpenConfirm (hold %v negotiated from this connection's OPEN)", h)
		}
		return 0, "OpenConfirm, hold time 0"
	default:
		if h := r.negotiated(c); h > 0 {
			return last + h, fmt.Sprintf("Established (hold %v negotiated from this connection's OPEN)", h)
		}
		return 0, "Established, hold time 0"
	}
}

func (r *a07Run) apply(ev a07Ev) *verifkit.Failure {
	n := r.n
	name := a07Names[ev.Kind]
	send := func(c *a07Conn, what string, m *bgp.BGPMessage, bad uint8) {
		if c == nil {
			r.logf("%s: no such connection, skipped", what)
			return
		}
		r.logf("%s on conn#%d", what, c.idx)
		r.queue(c, m, bad)
	}
	switch ev.Kind {
	case aAccept, aRefuse:
		x := r.d.pending()
		// nothing holds the peer back from dialling: administratively up and every connection so far is gone
		free := !(len(r.down) > 0 && r.down[len(r.down)-1][1] == 0)
		for _, c := range r.conns {
			if _, eof, _ := c.ss.snapshot(); !eof && !c.weClosed {
				free = false
			}
		}
		for i := 0; x == nil && i < 40; i++ { // the connect timer is at most ConnectRetry
			n.advance(time.Second)
			x = r.d.pending()
		}
		if x == nil {
			r.logf("%s: the server does not dial (40 s)", name)
			if free {
				// (idle hold time 5 s, then the connect timer of at most ConnectRetry <= 30 s)
				return r.fail("no-redial", "the peer is administratively up and has had no connection for 40 s, yet the server does not try to connect (ConnectRetry %d s)", r.c.ConnectRetry)
			}
			return nil
		}
		if ev.Kind == aRefuse {
			r.logf("refuse dial #%d (started %v)", r.d.count()-1, x.at)
			r.refAt[r.d.count()-1] = n.now()
			r.d.refuse(x)
		} else {
			ss := r.d.accept(x, r.peer)
			c := r.newConn(ss, true)
			r.logf("accept dial (started %v) -> conn#%d", x.at, c.idx)
		}
	case aInbound:
		ss := n.connect(r.peer)
		c := r.newConn(ss, false)
		r.logf("inbound -> conn#%d", c.idx)
	case aOpenOut, aOpenIn:
		c := r.latest(ev.Kind == aOpenOut)
		if c == nil {
			r.logf("%s: no such connection, skipped", name)
			return nil
		}
		m, bad := r.openMsg(c, ev.Arg)
		send(c, fmt.Sprintf("OPEN(arg %d, hold %d)", ev.Arg, c.hold), m, bad)
	case aOpenBoth:
		co, ci := r.latest(true), r.latest(false)
		if co == nil || ci == nil {
			r.logf("open-both: needs both connections, skipped")
			return nil
		}
		mo, _ := r.openMsg(co, 0)
		mi, _ := r.openMsg(ci, 0)
		if ev.Arg == 0 {
			send(co, "OPEN(both)", mo, 0)
			send(ci, "OPEN(both)", mi, 0)
		} else {
			send(ci, "OPEN(both)", mi, 0)
			send(co, "OPEN(both)", mo, 0)
		}
	case aKeepOpen:
		ck, co := r.latest(ev.Arg&1 == 1), r.latest(ev.Arg&1 == 0)
		if ck == nil || co == nil {
			r.logf("keepalive+open: needs both connections, skipped")
			return nil
		}
		mo, _ := r.openMsg(co, 0)
		if ev.Arg&2 != 0 {
			send(co, "OPEN(with keepalive)", mo, 0)
			send(ck, "KEEPALIVE(with open)", bgp.NewBGPKeepAliveMessage(), 0)
		} else {
			send(ck, "KEEPALIVE(with open)", bgp.NewBGPKeepAliveMessage(), 0)
			send(co, "OPEN(with keepalive)", mo, 0)
		}
	case aKeepOut, aKeepIn:
		send(r.latest(ev.Kind == aKeepOut), "KEEPALIVE", bgp.NewBGPKeepAliveMessage(), 0)
	case aUpdate:
		for _, c := range r.conns {
			if _, ok := r.estOn[c.idx]; ok && !c.weClosed {
				if _, eof, _ := c.ss.snapshot(); !eof {
					send(c, "UPDATE", c07Update(uint32(0x7a000+r.evIdx), r.evIdx%4), 0)
				}
			}
		}
	case aDisableOpen:
		co := r.latest(true)
		if co == nil || (len(r.down) > 0 && r.down[len(r.down)-1][1] == 0) {
			r.logf("open+disable: no outbound connection / already down, skipped")
			return nil
		}
		mo, _ := r.openMsg(co, 0)
		send(co, "OPEN(with disable)", mo, 0)
		if ev.Arg > 0 {
			time.Sleep(time.Duration(ev.Arg) * 100 * time.Microsecond)
		}
		err := n.s.DisablePeer(context.Background(), &api.DisablePeerRequest{Address: r.peer.Addr})
		r.logf("disable: %v", err)
		r.down = append(r.down, [2]time.Duration{n.now(), 0})
	case aDisable:
		if len(r.down) > 0 && r.down[len(r.down)-1][1] == 0 {
			return nil // already down
		}
		err := n.s.DisablePeer(context.Background(), &api.DisablePeerRequest{Address: r.peer.Addr})
		r.logf("disable: %v", err)
		r.down = append(r.down, [2]time.Duration{n.now(), 0})
	case aEnable:
		if len(r.down) == 0 || r.down[len(r.down)-1][1] != 0 {
			return nil
		}
		err := n.s.EnablePeer(context.Background(), &api.EnablePeerRequest{Address: r.peer.Addr})
		r.logf("enable: %v", err)
		r.down[len(r.down)-1][1] = n.now()
	case aCloseOut, aCloseIn:
		c := r.latest(ev.Kind == aCloseOut)
		if c == nil {
			return nil
		}
		r.logf("peer closes conn#%d", c.idx)
		c.weClosed, c.closedAt = true, n.now()
		c.ss.close()
	case aWait:
		d := time.Second
		switch ev.Arg {
		case 1:
			d = 3 * time.Second
		case 2, 3:
			best := time.Duration(0)
			for _, c := range r.conns {
				rx, eof, _ := c.ss.snapshot()
				if eof || c.weClosed {
					continue
				}
				if dl, _ := r.phaseDeadline(c, rx, c.txs(), n.now()+time.Nanosecond); dl > n.now() && (best == 0 || dl < best) {
					best = dl
				}
			}
			if best != 0 {
				d = best - n.now() - 10*time.Millisecond
				if ev.Arg == 3 {
					d = best - n.now() + 10*time.Millisecond
				}
				if d <= 0 {
					d = time.Millisecond
				}
			}
		case 4:
			d = 250 * time.Second
		case 5:
			d = 12 * time.Second
		}
		r.logf("wait %v", d)
		n.advance(d)
		return nil
	}
	n.settle()
	return nil
}

func (r *a07Run) verify() *verifkit.Failure {
	tol := 3 * time.Millisecond
	now := r.n.now()
	st, _, p := r.n.peerState(r.peer.Addr)
	if p == nil {
		return r.fail("peer-missing", "peer not listed")
	}
	localHigh := !r.c.PeerIDHigh
	type fact struct {
		c                *a07Conn
		rx               []simMsg
		txs              []a07Tx
		eof              bool
		eofAt            time.Duration
		live             bool
		srvOpen, srvKA   bool
		openRead, kaRead bool
		openReadAt       time.Duration
		kaReadAt         time.Duration // when the first KEEPALIVE after the valid OPEN was read
		complete         bool
	}
	var facts []*fact
	for _, c := range r.conns {
		f := &fact{c: c, txs: c.txs()}
		f.rx, f.eof, f.eofAt = c.ss.snapshot()
		f.live = !f.eof && !c.weClosed
		validOpen, hasOpenTx := a07Tx{}, false
		for _, x := range f.txs {
			if x.typ == bgp.BGP_MSG_OPEN && x.delivered {
				validOpen, hasOpenTx = x, true
				break
			}
		}
		f.openRead = hasOpenTx && validOpen.bad == 0
		f.openReadAt = validOpen.readAt
		if f.openRead {
			for _, x := range f.txs {
				if x.typ == bgp.BGP_MSG_KEEPALIVE && x.delivered && x.readAt >= validOpen.readAt {
					if !f.kaRead {
						f.kaReadAt = x.readAt
					}
					f.kaRead = true
				}
			}
		}
		// ---- per-connection grammar of what the server says ----
		nOpen := 0
		for mi, m := range f.rx {
			switch m.Type() {
			case bgp.BGP_MSG_OPEN:
				nOpen++
				if mi != 0 || nOpen > 1 {
					return r.fail("open-not-first", "conn#%d: OPEN is message %d of the server on this connection", c.idx, mi)
				}
				f.srvOpen = true
				if c.out && (m.At < c.openedAt-tol || m.At > c.openedAt+tol) {
					return r.fail("open-instant", "conn#%d: the outbound connection completed at %v, the OPEN was sent at %v", c.idx, c.openedAt, m.At)
				}
			case bgp.BGP_MSG_KEEPALIVE:
				if !f.srvOpen {
					return r.fail("keepalive-before-open", "conn#%d: KEEPALIVE before OPEN", c.idx)
				}
				if !f.openRead || m.At < validOpen.readAt-tol {
					return r.fail("keepalive-without-open", "conn#%d: the server sent KEEPALIVE at %v without having read a valid OPEN on this connection", c.idx, m.At)
				}
				f.srvKA = true
			case bgp.BGP_MSG_UPDATE:
				if at, ok := r.estOn[c.idx]; !ok || m.At < at-tol {
					if !(f.openRead && f.kaRead && f.srvKA) {
						return r.fail("update-outside-established", "conn#%d: UPDATE at %v on a connection without completed handshake", c.idx, m.At)
					}
				}
			case bgp.BGP_MSG_NOTIFICATION:
				// (keepalive and hold timer expiring at the same instant: the KEEPALIVE of the sender goroutine may come
				// out before or after the NOTIFICATION of the FSM goroutine — same allowance as in the passive unit)
				tieKA := mi == len(f.rx)-2 && f.rx[mi+1].Type() == bgp.BGP_MSG_KEEPALIVE && f.rx[mi+1].At <= m.At+tol && m.Raw[19] == bgp.BGP_ERROR_HOLD_TIMER_EXPIRED
				if mi != len(f.rx)-1 && !tieKA {
					return r.fail("message-after-notification", "conn#%d: the server kept talking after its NOTIFICATION", c.idx)
				}
				if !f.eof && now > m.At+time.Second {
					return r.fail("not-closed-after-notification", "conn#%d: still open %v after the NOTIFICATION", c.idx, now-m.At)
				}
				code, sub := m.Raw[19], m.Raw[20]
				if code == bgp.BGP_ERROR_HOLD_TIMER_EXPIRED {
					dl, phase := r.phaseDeadline(c, f.rx, f.txs, m.At)
					if dl == 0 || m.At < dl-tol || m.At > dl+tol {
						return r.fail("hold-expiry-instant", "conn#%d: NOTIFICATION hold-timer-expired at %v; the connection was in %s, deadline %v", c.idx, m.At, phase, dl)
					}
					r.labels["hold-expiry:"+phase[:4]] = true
				}
				if code == bgp.BGP_ERROR_OPEN_MESSAGE_ERROR {
					if !hasOpenTx || validOpen.bad != sub {
						return r.fail("open-error-unfounded", "conn#%d: NOTIFICATION 2/%d, the OPEN sent on this connection calls for subcode %d (0 = none)", c.idx, sub, validOpen.bad)
					}
				}
			}
		}
		// an invalid OPEN read on a connection that had the server's OPEN: answered there, at once
		if hasOpenTx && validOpen.bad != 0 && f.srvOpen && !c.weClosed {
			okNotif := false
			for _, m := range f.rx {
				if m.Type() == bgp.BGP_MSG_NOTIFICATION && m.Raw[19] == bgp.BGP_ERROR_OPEN_MESSAGE_ERROR && m.Raw[20] == validOpen.bad && m.At >= validOpen.readAt-tol && m.At <= validOpen.readAt+tol {
					okNotif = true
				}
			}
			if !okNotif || !f.eof {
				return r.fail("bad-open-notification", "conn#%d: invalid OPEN (subcode %d) read at %v: no matching NOTIFICATION at that instant / connection not closed (eof=%v)", c.idx, validOpen.bad, validOpen.readAt, f.eof)
			}
			r.labels["bad-open"] = true
		}
		// hold timers that must have fired
		if f.live {
			if dl, phase := r.phaseDeadline(c, f.rx, f.txs, now+time.Nanosecond); dl != 0 && now > dl+tol {
				return r.fail("hold-timer-missed", "conn#%d: in %s since before %v, now %v: no NOTIFICATION, connection still open", c.idx, phase, dl, now)
			}
		}
		f.complete = f.live && f.srvOpen && f.srvKA && f.openRead && f.kaRead
		facts = append(facts, f)
	}
	// ---- Established <-> exactly one complete live connection ----
	var complete []*fact
	for _, f := range facts {
		if f.complete {
			complete = append(complete, f)
		}
	}
	if st == api.PeerState_SESSION_STATE_ESTABLISHED {
		if len(complete) == 0 {
			return r.fail("established-without-handshake", "ListPeer reports ESTABLISHED, no live connection has the complete handshake")
		}
		if len(complete) > 1 {
			return r.fail("two-sessions", "two live connections have the complete handshake (conn#%d and conn#%d)", complete[0].c.idx, complete[1].c.idx)
		}
		x := complete[0]
		if _, ok := r.estOn[x.c.idx]; !ok {
			r.estOn[x.c.idx] = now
		}
		want := uint64(r.negotiated(x.c) / time.Second)
		if got := p.Timers.GetState().GetNegotiatedHoldTime(); got != want {
			return r.fail("negotiated-from-wrong-open", "Established on conn#%d whose OPEN carried hold time %d (configured %d): negotiated hold time reported %d, must be %d", x.c.idx, x.c.hold, r.c.LocalHold, got, want)
		}
		r.labels["established"] = true
		if x.c.out {
			r.labels["established-on-outbound"] = true
		} else {
			r.labels["established-on-inbound"] = true
		}
		// a connection whose OPEN is read while another one is Established is closed (6.8)
		for _, f := range facts {
			if f != x && f.live && f.openRead && now > f.openReadAt+time.Second && now > r.estOn[x.c.idx]+time.Second {
				return r.fail("collision-with-established-not-closed", "conn#%d is Established; conn#%d (out=%v) has had its OPEN read at %v and is still open at %v", x.c.idx, f.c.idx, f.c.out, f.openReadAt, now)
			}
		}
	} else if len(complete) > 0 {
		return r.fail("handshake-complete-not-established", "conn#%d has the complete handshake and is open, ListPeer reports %s", complete[0].c.idx, st)
	}
	// ---- collision between two connections before Established (6.8) ----
	for _, a := range facts {
		for _, b := range facts {
			if !(a.c.out && !b.c.out) {
				continue
			}
			if !(a.srvOpen && b.srvOpen && a.openRead && b.openRead) {
				continue
			}
			// both were open when the later OPEN was read
			later := a.openReadAt
			if b.openReadAt > later {
				later = b.openReadAt
			}
			aOpenThen := !(a.c.weClosed && a.c.closedAt <= later) && !(a.eof && a.eofAt < later-tol)
			bOpenThen := !(b.c.weClosed && b.c.closedAt <= later) && !(b.eof && b.eofAt < later-tol)
			if !aOpenThen || !bOpenThen {
				continue
			}
			// neither was Established by then
			if at, ok := r.estOn[a.c.idx]; ok && at < later {
				continue
			}
			if at, ok := r.estOn[b.c.idx]; ok && at < later {
				continue
			}
			// one of them completed its handshake at that very instant (KEEPALIVE on one, OPEN on the other, read by two
			// goroutines): whether the server saw a collision of two unestablished connections or a new connection
			// colliding with an Established one is not observable; the Established invariants above cover the second reading
			if (a.kaRead && a.kaReadAt <= later+tol) || (b.kaRead && b.kaReadAt <= later+tol) {
				r.labels["collision-at-established-instant"] = true
				continue
			}
			// an administrative shutdown at that instant (or in force): every connection goes, with its own NOTIFICATION
			admin := false
			for _, iv := range r.down {
				if later >= iv[0]-tol && (iv[1] == 0 || later <= iv[1]+tol) {
					admin = true
				}
			}
			if admin {
				continue
			}
			r.labels["collision"] = true
			winner, loser := a, b
			if !localHigh {
				winner, loser = b, a
			}
			if now < later+time.Second {
				continue // give the resolution the rest of this instant
			}
			// the designated survivor failed for a reason of its own at that very instant (e.g. a second OPEN on
			// it): which came first is not observable, no collision to resolve
			tie := false
			for _, m := range winner.rx {
				if m.Type() == bgp.BGP_MSG_NOTIFICATION && !(m.Raw[19] == bgp.BGP_ERROR_CEASE && m.Raw[20] == bgp.BGP_ERROR_SUB_CONNECTION_COLLISION_RESOLUTION) && m.At <= later+tol {
					tie = true
				}
			}
			if tie {
				continue
			}
			if loser.live {
				return r.fail("collision-loser-open", "collision: OPENs read on conn#%d (outbound) at %v and conn#%d (inbound) at %v; local id higher=%v, so conn#%d must go — it is still open at %v",
					a.c.idx, a.openReadAt, b.c.idx, b.openReadAt, localHigh, loser.c.idx, now)
			}
			if !winner.live && !winner.c.weClosed {
				// the winner may have gone down later for its own reasons (hold timer, bad message): only a close at the collision instant is wrong
				ownReason := false
				for _, m := range winner.rx {
					if m.Type() == bgp.BGP_MSG_NOTIFICATION && !(m.Raw[19] == bgp.BGP_ERROR_CEASE && m.Raw[20] == bgp.BGP_ERROR_SUB_CONNECTION_COLLISION_RESOLUTION) {
						ownReason = true // an error of its own (e.g. a second OPEN on it), answered as such
					}
				}
				for _, iv := range r.down {
					if winner.eofAt >= iv[0]-tol && (iv[1] == 0 || winner.eofAt <= iv[1]) {
						ownReason = true // administrative shutdown
					}
				}
				if winner.eofAt <= later+tol && !ownReason {
					return r.fail("collision-winner-closed", "collision: OPENs read on conn#%d (outbound) and conn#%d (inbound) at %v; local id higher=%v, conn#%d must survive — the server closed it at %v",
						a.c.idx, b.c.idx, later, localHigh, winner.c.idx, winner.eofAt)
				}
			}
			// the connection that lost is closed by a NOTIFICATION Cease / Connection Collision Resolution (RFC 4271 6.8, RFC 4486)
			if !loser.c.weClosed && loser.eofAt <= later+tol {
				last := simMsg{}
				if len(loser.rx) > 0 {
					last = loser.rx[len(loser.rx)-1]
				}
				if last.Type() != bgp.BGP_MSG_NOTIFICATION {
					return r.fail("collision-notification", "collision at %v: conn#%d (out=%v) lost and was closed at %v without a NOTIFICATION (Cease / Connection Collision Resolution)", later, loser.c.idx, loser.c.out, loser.eofAt)
				}
				if last.Raw[19] == bgp.BGP_ERROR_CEASE && last.Raw[20] != bgp.BGP_ERROR_SUB_CONNECTION_COLLISION_RESOLUTION {
					return r.fail("collision-notification", "collision at %v: conn#%d lost and got NOTIFICATION %d/%d", later, loser.c.idx, last.Raw[19], last.Raw[20])
				}
				r.labels["collision-cease-7"] = true
			}
			if localHigh {
				r.labels["collision-local-wins"] = true
			} else {
				r.labels["collision-peer-wins"] = true
			}
		}
	}
	// ---- administrative shutdown: nothing is dialled, nothing is accepted, every connection goes ----
	isDown := func(t time.Duration) bool {
		for _, iv := range r.down {
			if t > iv[0]+tol && (iv[1] == 0 || t < iv[1]-tol) {
				return true
			}
		}
		return false
	}
	for i, x := range r.d.all() {
		if isDown(x.at) {
			return r.fail("connect-while-admin-down", "connect attempt #%d started at %v although the peer is administratively down (%v)", i, x.at, r.down)
		}
	}
	for _, f := range facts {
		if isDown(f.c.openedAt) && len(f.rx) > 0 {
			return r.fail("talks-while-admin-down", "conn#%d came up at %v while the peer is administratively down and the server spoke on it (%s)", f.c.idx, f.c.openedAt, c07Describe(f.rx[0]))
		}
		if f.live && isDown(now) && len(r.down) > 0 && now > r.down[len(r.down)-1][0]+time.Second {
			return r.fail("open-while-admin-down", "conn#%d is still open %v after DisablePeer", f.c.idx, now-r.down[len(r.down)-1][0])
		}
	}
	if len(r.down) > 0 {
		r.labels["admin-down"] = true
	}
	// ---- connect attempts ----
	dials := r.d.all()
	for i, x := range dials {
		if ra, ok := r.refAt[i]; ok && i+1 < len(dials) {
			// the ConnectRetry timer runs undisturbed only while there is no connection at all
			quiet := true
			for _, f := range facts {
				end := now
				if f.eof {
					end = f.eofAt
				}
				if f.c.weClosed && f.c.closedAt < end {
					end = f.c.closedAt
				}
				if f.c.openedAt <= dials[i+1].at && end >= ra-40*time.Second {
					quiet = false
				}
			}
			for _, iv := range r.down {
				if iv[0] <= dials[i+1].at && (iv[1] == 0 || iv[1] >= ra-40*time.Second) {
					quiet = false // an administrative shutdown in between restarts everything
				}
			}
			if !quiet {
				continue
			}
			gap := dials[i+1].at - ra
			lo, hi := time.Duration(float64(r.c.ConnectRetry)*0.75*float64(time.Second)), time.Duration(r.c.ConnectRetry)*time.Second
			if gap < lo-tol || gap > hi+tol {
				return r.fail("connect-retry-instant", "connect #%d was refused at %v, the next attempt came at %v: %v later, ConnectRetry is %d s (jitter 0.75..1)", i, ra, dials[i+1].at, gap, r.c.ConnectRetry)
			}
			r.labels["connect-retry"] = true
		}
		for ci, at := range r.estOn {
			c := r.conns[ci]
			_, eof, eofAt := c.ss.snapshot()
			end := now
			if eof {
				end = eofAt
			}
			if c.weClosed && c.closedAt < end {
				end = c.closedAt
			}
			if x.at > at+tol && x.at < end-tol {
				return r.fail("connect-while-established", "a connect was attempted at %v while the session on conn#%d was Established (%v..%v)", x.at, ci, at, end)
			}
		}
	}
	return nil
}

func runA07(t *testing.T) func(c a07Case, st *verifkit.Stats) *verifkit.Failure {
	return func(c a07Case, st *verifkit.Stats) *verifkit.Failure {
		if !simDialAvailable {
			return nil
		}
		return simRun(t, func() *verifkit.Failure {
			n, err := simStart(&api.Global{Asn: c07LocalAS, RouterId: c07LocalID})
			if err != nil {
				return verifkit.Failf("start", "%v", err)
			}
			defer n.stop()
			d, uninstall := simDialInstall(n)
			defer uninstall()
			if simYieldAvailable && c.Sched != 0 {
				simYieldOnly = "ocm."
				simYieldInstall(c.Sched)
				defer simYieldInstall(0)
			}
			r := &a07Run{c: &c, n: n, d: d, st: st, refAt: map[int]time.Duration{}, estOn: map[int]time.Duration{}, labels: map[string]bool{}}
			cleaned := false
			cleanup := func() {
				if cleaned {
					return
				}
				cleaned = true
				for _, cc := range r.conns {
					cc.ss.close()
					close(cc.txq)
				}
			}
			defer cleanup()
			n.beforeLeakCheck = cleanup
			r.peer = &simPeerDef{Addr: "10.0.0.1", AS: 65001, ID: "10.0.0.1"}
			if c.PeerIDHigh {
				r.peer.ID = "200.0.0.1"
			}
			if c.IBGP {
				r.peer.AS = c07LocalAS
			}
			err = n.s.AddPeer(context.Background(), &api.AddPeerRequest{Peer: &api.Peer{
				Conf:      &api.PeerConf{NeighborAddress: r.peer.Addr, PeerAsn: r.peer.AS},
				Transport: &api.Transport{PassiveMode: false},
				Timers:    &api.Timers{Config: &api.TimersConfig{HoldTime: uint64(c.LocalHold), KeepaliveInterval: uint64(c.LocalHold / 3), ConnectRetry: uint64(c.ConnectRetry)}},
				AfiSafis: []*api.AfiSafi{{
					Config: &api.AfiSafiConfig{Family: &api.Family{Afi: api.Family_AFI_IP, Safi: api.Family_SAFI_UNICAST}, Enabled: true},
				}},
			}})
			if err != nil {
				return verifkit.Failf("addpeer", "%v", err)
			}
			n.settle()
			for i, ev := range c.Events {
				r.evIdx = i
				if f := r.apply(ev); f != nil {
					return f
				}
				if f := r.verify(); f != nil {
					return f
				}
				st.SubEval(1)
			}
			r.evIdx = len(c.Events)
			n.advance(1100 * time.Millisecond)
			if f := r.verify(); f != nil {
				return f
			}
			for l := range r.labels {
				st.Label(l)
			}
			if r.labels["established"] || r.labels["collision"] || r.labels["bad-open"] {
				st.Nontrivial()
			}
			if f := n.stop(); f != nil {
				return r.fail(f.Sig, "%s", f.Msg)
			}
			return nil
		})
	}
}

func TestVerifC07_active(t *testing.T) {
	verifkit.Run(t, "C07_active", drawA07, runA07(t))
}
