package server

// C06 — malformed UPDATEs are contained.
//
// A scripted peer (eBGP / iBGP / confederation member; revised error handling
// on or off) sends a sequence of UPDATEs to a real BgpServer in virtual time.
// Every UPDATE is assembled octet by octet by this file's own serialiser from a
// valid base message and up to two faults of a catalogue.  The reference
// (written from RFC 7606 sections 3-7, RFC 4271 section 6.3 and the property
// text) says which reaction the strongest fault calls for; the harness then
// looks at the NOTIFICATION bytes, the session state, the peer's Adj-RIB-In,
// the Loc-RIB and what an observer peer was told, and compares them with a map
// model of the peer's routes.

import (
	"context"
	"encoding/binary"
	"fmt"
	"net/netip"
	"sort"
	"strings"
	"testing"
	"time"

	"github.com/osrg/gobgp/v4/api"
	"github.com/osrg/gobgp/v4/internal/pkg/verifkit"
	"github.com/osrg/gobgp/v4/pkg/apiutil"
	"github.com/osrg/gobgp/v4/pkg/config/oc"
	"github.com/osrg/gobgp/v4/pkg/packet/bgp"
	"pgregory.net/rapid"
)

const (
	c06None = iota
	c06Discard
	c06TAW
	c06Reset
)

var c06ClassName = []string{"none", "attribute-discard", "treat-as-withdraw", "session-reset"}

const (
	fFlags = iota
	fLen
	fValue
	fASPath
	fDup
	fMissing
	fOverrun
	fTrunc
	fTotal
	fNLRI
	fUnknownWK
	fMPNextHop
	fMPNLRI
	fWithdrawnLen
	fKinds
)

var c06FaultName = []string{"flags", "length", "value", "as-path-segment", "duplicate", "missing-mandatory", "attr-overrun", "attr-area-trailing", "total-length", "nlri-field", "unknown-well-known", "mp-nexthop-length", "mp-nlri-prefix-length", "withdrawn-length"}

type c06Fault struct {
	Kind   int `json:"kind"`
	Target int `json:"target"`
	Arg    int `json:"arg"`
}

type c06MsgSpec struct {
	NLRI       []int      `json:"nlri"`
	Withdraw   []int      `json:"withdraw"`
	V6         []int      `json:"v6"`
	V6Withdraw []int      `json:"v6_withdraw"`
	Opt        uint32     `json:"opt"` // bit per optional attribute
	Variant    int        `json:"variant"`
	Faults     []c06Fault `json:"faults"`
}

type c06Case struct {
	Kind    int          `json:"kind"` // rsEBGP, rsIBGP, rsConfed
	TAW     bool         `json:"treat_as_withdraw"`
	AS2     bool         `json:"as2"`      // the tested peer has no 4-octet-AS capability: AS_PATH and AGGREGATOR carry 2-octet AS numbers
	AddPath bool         `json:"add_path"` // ADD-PATH from the tested peer: every NLRI it names carries a path identifier
	Msgs    []c06MsgSpec `json:"msgs"`
}

const c06Pool = 5

// bits of Opt
const (
	oMED = 1 << iota
	oLocalPref
	oAtomic
	oAggregator
	oComm
	oExtComm
	oLarge
	oOriginator
	oCluster
	oUnkT
	oUnkNT
)

func drawC06(t *rapid.T) c06Case {
	c := c06Case{Kind: rapid.SampledFrom([]int{rsEBGP, rsIBGP, rsConfed}).Draw(t, "kind"), TAW: rapid.IntRange(0, 3).Draw(t, "taw") != 0}
	c.AS2 = rapid.IntRange(0, 3).Draw(t, "as2") == 0
	c.AddPath = rapid.IntRange(0, 3).Draw(t, "add_path") == 0
	n := rapid.IntRange(2, 9).Draw(t, "nmsg")
	subset := func(l string, max int) []int {
		m := rapid.IntRange(0, (1<<c06Pool)-1).Draw(t, l)
		var out []int
		for i := 0; i < c06Pool && len(out) < max; i++ {
			if m&(1<<i) != 0 {
				out = append(out, i)
			}
		}
		return out
	}
	for i := 0; i < n; i++ {
		l := fmt.Sprintf("m%d", i)
		var m c06MsgSpec
		shape := rapid.IntRange(0, 9).Draw(t, l+"shape")
		switch {
		case shape <= 4: // v4 reachability (+ maybe withdraw)
			m.NLRI = subset(l+"nlri", 4)
			if len(m.NLRI) == 0 {
				m.NLRI = []int{i % c06Pool}
			}
			if shape == 4 {
				m.Withdraw = subset(l+"wd", 2)
			}
		case shape <= 6: // v4 + v6
			m.NLRI = []int{rapid.IntRange(0, c06Pool-1).Draw(t, l+"n1")}
			m.V6 = subset(l+"v6", 3)
		case shape == 7: // v6 only
			m.V6 = subset(l+"v6", 3)
			if len(m.V6) == 0 {
				m.V6 = []int{0}
			}
			m.V6Withdraw = subset(l+"v6w", 2)
		default: // withdraw only (attributes optional)
			m.Withdraw = subset(l+"wd", 3)
			if len(m.Withdraw) == 0 {
				m.Withdraw = []int{0}
			}
		}
		// a prefix is not both withdrawn and announced in one message
		m.Withdraw = c06Minus(m.Withdraw, m.NLRI)
		m.V6Withdraw = c06Minus(m.V6Withdraw, m.V6)
		m.Opt = uint32(rapid.IntRange(0, (1<<11)-1).Draw(t, l+"opt"))
		m.Variant = rapid.IntRange(0, 5).Draw(t, l+"variant")
		nf := rapid.SampledFrom([]int{0, 0, 1, 1, 1, 2, 2, 2}).Draw(t, l+"nf")
		for j := 0; j < nf; j++ {
			m.Faults = append(m.Faults, c06Fault{
				Kind:   rapid.IntRange(0, fKinds-1).Draw(t, fmt.Sprintf("%sf%dkind", l, j)),
				Target: rapid.IntRange(0, 15).Draw(t, fmt.Sprintf("%sf%dtarget", l, j)),
				Arg:    rapid.IntRange(0, 7).Draw(t, fmt.Sprintf("%sf%darg", l, j)),
			})
		}
		c.Msgs = append(c.Msgs, m)
	}
	return c
}

func c06Minus(a, b []int) []int {
	var out []int
	for _, x := range a {
		keep := true
		for _, y := range b {
			if x == y {
				keep = false
			}
		}
		if keep {
			out = append(out, x)
		}
	}
	return out
}

// ---- own serialiser ----

type c06TLV struct {
	Flags, Type byte
	Val         []byte
	lenDelta    int  // added to the length field only (overrun)
	bad         bool // arrived malformed (must never be installed)
	dup         bool // a second occurrence (must never be installed)
}

func (a c06TLV) bytes() []byte {
	l := len(a.Val) + a.lenDelta
	if a.Flags&0x10 != 0 || l > 255 {
		b := []byte{a.Flags | 0x10, a.Type, byte(l >> 8), byte(l)}
		return append(b, a.Val...)
	}
	return append([]byte{a.Flags, a.Type, byte(l)}, a.Val...)
}

func c06V4(i int) netip.Prefix { return netip.MustParsePrefix(fmt.Sprintf("10.60.%d.0/24", i)) }
func c06V6(i int) netip.Prefix { return netip.MustParsePrefix(fmt.Sprintf("2001:db8:60:%d::/64", i)) }

// c06PathID: when non-zero, the tested session carries ADD-PATH path identifiers (peer sends, server receives) and every
// NLRI the harness writes is preceded by this identifier (set per case; cases run one at a time).
var c06PathID uint32

func c06ID() []byte {
	if c06PathID == 0 {
		return nil
	}
	return be32(c06PathID)
}

func c06Enc(p netip.Prefix) []byte {
	n := (p.Bits() + 7) / 8
	return append(append(c06ID(), byte(p.Bits())), p.Addr().AsSlice()[:n]...)
}

func be32(v uint32) []byte { b := make([]byte, 4); binary.BigEndian.PutUint32(b, v); return b }

// c06ASN encodes an AS number as the session carries it in AS_PATH and AGGREGATOR.
func c06ASN(as2 bool, v uint32) []byte {
	if as2 {
		return be32(v)[2:]
	}
	return be32(v)
}

const c06PeerAS = 65001

func c06PeerASFor(kind int) uint32 {
	switch kind {
	case rsEBGP:
		return c06PeerAS
	case rsConfed:
		return rsConfedMem
	}
	return rsLocalAS
}

// c06Base builds the attribute list of the valid base message.
func c06Base(kind int, as2 bool, m c06MsgSpec) []c06TLV {
	v := m.Variant
	var out []c06TLV
	reach := len(m.NLRI) > 0 || len(m.V6) > 0
	if !reach && m.Opt&oComm == 0 {
		// a pure withdrawal usually has no attributes at all
		if len(m.V6Withdraw) == 0 {
			return nil
		}
	}
	if reach {
		out = append(out, c06TLV{Flags: 0x40, Type: 1, Val: []byte{byte(v % 3)}})
		var asp []byte
		seg := func(t byte, as ...uint32) {
			asp = append(asp, t, byte(len(as)))
			for _, a := range as {
				asp = append(asp, c06ASN(as2, a)...)
			}
		}
		switch kind {
		case rsEBGP:
			seg(2, c06PeerAS, 64600+uint32(v))
			if v%2 == 0 {
				seg(1, 64700, 64701)
			}
		case rsConfed:
			seg(3, rsConfedMem)
			if v%2 == 0 {
				seg(2, 64600+uint32(v))
			}
		default:
			if v%3 != 0 {
				seg(2, 64600+uint32(v), 64610)
			}
		}
		out = append(out, c06TLV{Flags: 0x40, Type: 2, Val: asp})
		if len(m.NLRI) > 0 {
			out = append(out, c06TLV{Flags: 0x40, Type: 3, Val: []byte{10, 0, 0, byte(1 + v)}})
		}
		if m.Opt&oMED != 0 {
			out = append(out, c06TLV{Flags: 0x80, Type: 4, Val: be32(uint32(100 + v))})
		}
		if m.Opt&oLocalPref != 0 && kind == rsIBGP { // LOCAL_PREF from (confederation) external peers is dropped on receipt: not this property
			out = append(out, c06TLV{Flags: 0x40, Type: 5, Val: be32(uint32(200 + v))})
		}
		if m.Opt&oAtomic != 0 {
			out = append(out, c06TLV{Flags: 0x40, Type: 6})
		}
		if m.Opt&oAggregator != 0 {
			out = append(out, c06TLV{Flags: 0xc0, Type: 7, Val: append(c06ASN(as2, 64800+uint32(v)), 10, 7, 7, byte(v))})
		}
	}
	if m.Opt&oComm != 0 || !reach {
		val := be32(0xfde80000 | uint32(v))
		if v%2 == 1 {
			val = append(val, be32(0xfde90001)...)
		}
		out = append(out, c06TLV{Flags: 0xc0, Type: 8, Val: val})
	}
	if reach {
		if m.Opt&oOriginator != 0 && kind == rsIBGP {
			out = append(out, c06TLV{Flags: 0x80, Type: 9, Val: []byte{10, 9, 9, byte(v)}})
		}
		if m.Opt&oCluster != 0 && kind == rsIBGP {
			val := []byte{10, 8, 8, byte(v)}
			if v%2 == 0 {
				val = append(val, 10, 8, 7, 1)
			}
			out = append(out, c06TLV{Flags: 0x80, Type: 10, Val: val})
		}
	}
	if len(m.V6) > 0 {
		val := []byte{0, 2, 1, 16}
		val = append(val, netip.MustParseAddr("2001:db8::1").AsSlice()...)
		val = append(val, 0)
		for _, i := range m.V6 {
			val = append(val, c06Enc(c06V6(i))...)
		}
		out = append(out, c06TLV{Flags: 0x80, Type: 14, Val: val})
	}
	if len(m.V6Withdraw) > 0 {
		val := []byte{0, 2, 1}
		for _, i := range m.V6Withdraw {
			val = append(val, c06Enc(c06V6(i))...)
		}
		out = append(out, c06TLV{Flags: 0x80, Type: 15, Val: val})
	}
	if reach {
		if m.Opt&oExtComm != 0 {
			val := []byte{0x00, 0x02, 0xfd, 0xe8, 0, 0, 0, byte(v)}
			if v%2 == 0 {
				val = append(val, 0x40, 0x04, 0, 0, 0, 0, 0, byte(v)) // non-transitive link bandwidth style
			}
			out = append(out, c06TLV{Flags: 0xc0, Type: 16, Val: val})
		}
		if m.Opt&oLarge != 0 {
			val := append(append(be32(64600), be32(1)...), be32(uint32(v))...)
			if v%2 == 1 {
				val = append(val, append(append(be32(64601), be32(2)...), be32(uint32(v))...)...)
			}
			out = append(out, c06TLV{Flags: 0xc0, Type: 32, Val: val})
		}
		if m.Opt&oUnkT != 0 {
			out = append(out, c06TLV{Flags: 0xc0, Type: 240, Val: rsFill(3+v, 0xa0)})
		}
		if m.Opt&oUnkNT != 0 {
			out = append(out, c06TLV{Flags: 0x80, Type: 241, Val: rsFill(2+v, 0xb0)})
		}
	}
	return out
}

type c06Built struct {
	raw      []byte
	class    int           // strongest reaction called for with revised error handling
	subs     map[byte]bool // NOTIFICATION subcodes acceptable if the session is reset
	missing  []byte        // when non-nil, "missing well-known" data acceptable
	attrs    []c06TLV      // as sent
	applied  []string
	skipped  int
	named4   []netip.Prefix // every IPv4 prefix the message names (NLRI + withdrawn)
	named6   []netip.Prefix
	resetSub map[byte]bool // subcodes of the reset-class faults only
	as2      bool
}

func c06Find(attrs []c06TLV, typ byte) int {
	for i, a := range attrs {
		if a.Type == typ && !a.dup {
			return i
		}
	}
	return -1
}

// c06Build assembles the message and derives the reference reaction.
func c06Build(kind int, as2 bool, m c06MsgSpec) *c06Built {
	b := &c06Built{subs: map[byte]bool{}, resetSub: map[byte]bool{}, as2: as2}
	attrs := c06Base(kind, as2, m)
	touched := map[byte]bool{}
	note := func(class int, f c06Fault, what string, subs ...byte) {
		if class > b.class {
			b.class = class
		}
		for _, s := range subs {
			b.subs[s] = true
			if class == c06Reset {
				b.resetSub[s] = true
			}
		}
		b.applied = append(b.applied, fmt.Sprintf("%s(%s)->%s", c06FaultName[f.Kind], what, c06ClassName[class]))
	}
	var nlriExtra, attrTail []byte
	totalDelta, wdDelta := 0, 0
	structural := false
	reach := len(m.NLRI) > 0 || len(m.V6) > 0
	// attributes with a defined structure, by type, for flag/length faults
	known := func() []int {
		var idx []int
		for i, a := range attrs {
			if a.Type <= 10 || a.Type == 16 || a.Type == 32 {
				if !touched[a.Type] && !a.dup {
					idx = append(idx, i)
				}
			}
		}
		return idx
	}
	// the overrun applies to whatever attribute ends up last
	faults := append([]c06Fault(nil), m.Faults...)
	sort.SliceStable(faults, func(i, j int) bool { return faults[i].Kind != fOverrun && faults[j].Kind == fOverrun })
	for _, f := range faults {
		switch f.Kind {
		case fFlags:
			idx := known()
			if f.Target >= 8 {
				// ... or on MP_REACH_NLRI / MP_UNREACH_NLRI (the NLRI can still be located: treat-as-withdraw, RFC 7606 3.c)
				var mp []int
				for i, a := range attrs {
					if (a.Type == 14 || a.Type == 15) && !touched[a.Type] && !a.dup {
						mp = append(mp, i)
					}
				}
				if len(mp) > 0 {
					idx = mp
				}
			}
			if len(idx) == 0 {
				b.skipped++
				continue
			}
			i := idx[f.Target%len(idx)]
			switch f.Arg % 3 {
			case 0:
				attrs[i].Flags ^= 0x80
			case 1:
				attrs[i].Flags ^= 0x40
			default:
				// the Partial bit where it must be 0 (RFC 4271 4.3): well-known and optional non-transitive attributes
				var must0 []int
				for _, j := range idx {
					if attrs[j].Flags&0x80 == 0 || attrs[j].Flags&0x40 == 0 {
						must0 = append(must0, j)
					}
				}
				if len(must0) == 0 {
					attrs[i].Flags ^= 0x80
				} else {
					i = must0[f.Target%len(must0)]
					attrs[i].Flags |= 0x20
				}
			}
			attrs[i].bad = true
			touched[attrs[i].Type] = true
			if attrs[i].Type == 14 || attrs[i].Type == 15 {
				// the prefixes a refused MP attribute names cannot be handed to treat-as-withdraw: the reaction of its
				// own class (RFC 7606 5.3: the NLRI of the UPDATE cannot be determined)
				note(c06Reset, f, fmt.Sprintf("type %d flags %#x", attrs[i].Type, attrs[i].Flags), 4)
			} else {
				note(c06TAW, f, fmt.Sprintf("type %d flags %#x", attrs[i].Type, attrs[i].Flags), 4)
			}
		case fLen:
			idx := known()
			var cand []int
			for _, i := range idx {
				if attrs[i].Type != 2 {
					cand = append(cand, i)
				}
			}
			if len(cand) == 0 {
				b.skipped++
				continue
			}
			i := cand[f.Target%len(cand)]
			a := &attrs[i]
			class := c06TAW
			switch a.Type {
			case 1:
				a.Val = [][]byte{{}, {0, 0}}[f.Arg%2]
			case 3, 4, 5, 9:
				if f.Arg%2 == 0 {
					a.Val = a.Val[:3]
				} else {
					a.Val = append(a.Val, 1)
				}
			case 6:
				a.Val = []byte{0}
				class = c06Discard
			case 7:
				if f.Arg%2 == 0 {
					a.Val = a.Val[:len(a.Val)-1]
				} else {
					a.Val = append(a.Val, 1)
				}
				class = c06Discard
			case 8, 10, 16, 32:
				if f.Arg%2 == 0 {
					a.Val = a.Val[:len(a.Val)-1]
				} else {
					a.Val = nil
				}
			}
			a.bad = true
			touched[a.Type] = true
			note(class, f, fmt.Sprintf("type %d length %d", a.Type, len(a.Val)), 5, 9)
		case fValue:
			i := c06Find(attrs, 1)
			what := "origin"
			if f.Arg%2 == 1 {
				if j := c06Find(attrs, 3); j >= 0 {
					i, what = j, "next-hop"
				}
			}
			if i < 0 || touched[attrs[i].Type] {
				b.skipped++
				continue
			}
			if what == "origin" {
				attrs[i].Val = []byte{byte(3 + f.Target*13)}
				note(c06TAW, f, fmt.Sprintf("origin %d", attrs[i].Val[0]), 6)
			} else {
				attrs[i].Val = [][]byte{{0, 0, 0, 0}, {224, 0, 0, 5}, {255, 255, 255, 255}, {0, 1, 2, 3}}[f.Target%4]
				note(c06TAW, f, fmt.Sprintf("next hop %v", attrs[i].Val), 8)
			}
			attrs[i].bad = true
			touched[attrs[i].Type] = true
		case fASPath:
			i := c06Find(attrs, 2)
			if i < 0 || touched[2] {
				b.skipped++
				continue
			}
			a := &attrs[i]
			v := f.Arg % 6
			if v == 5 && kind == rsIBGP {
				v = 0
			}
			if len(a.Val) == 0 && v < 5 {
				a.Val = append([]byte{2, 1}, c06ASN(as2, 64650)...)
			}
			what := ""
			switch v {
			case 0:
				a.Val[0] = 0
				what = "segment type 0"
			case 1:
				a.Val[0] = 7
				what = "segment type 7"
			case 2:
				a.Val = append([]byte{2, 0}, a.Val...)
				what = "empty segment"
			case 3:
				a.Val[1]++
				what = "segment overruns the attribute"
			case 4:
				a.Val = append(a.Val, 2)
				what = "trailing octet"
			case 5:
				if kind == rsEBGP {
					seg := append([]byte{byte(3 + f.Target/2%2), 1}, c06ASN(as2, 65010)...) // AS_CONFED_SEQUENCE or AS_CONFED_SET
					if f.Target%2 == 0 {
						a.Val = append(seg, a.Val...)
						what = "leading confederation segment from an external peer"
					} else {
						a.Val = append(append([]byte{}, a.Val...), seg...)
						what = "confederation segment behind other segments, from an external peer"
					}
				} else {
					a.Val = append([]byte{2, 1}, c06ASN(as2, 64650)...)
					what = "no leading AS_CONFED_SEQUENCE from a confederation member"
				}
			}
			a.bad = true
			touched[2] = true
			if v == 5 && kind == rsConfed {
				// RFC 7606 7.2 would allow treat-as-withdraw; the repository's own
				// Test_Validate_aspath pins a session reset for this one, so that is
				// what this error "calls for" here.
				note(c06Reset, f, what, 11)
			} else {
				note(c06TAW, f, what, 11)
			}
		case fDup:
			var cand []int
			for i, a := range attrs {
				if !touched[a.Type] && !a.dup && a.Type < 240 {
					cand = append(cand, i)
				}
			}
			if len(cand) == 0 {
				b.skipped++
				continue
			}
			i := cand[f.Target%len(cand)]
			d := attrs[i]
			d.Val = append([]byte(nil), d.Val...)
			d.dup = true
			switch d.Type { // a different, well-formed value
			case 1:
				d.Val[0] = (d.Val[0] + 1) % 3
			case 3, 4, 5, 7, 8, 9, 10, 16, 32:
				d.Val[len(d.Val)-1] ^= 0x55
			}
			touched[d.Type] = true
			if f.Arg%2 == 0 {
				attrs = append(attrs, d)
			} else {
				attrs = append(attrs[:i+1], append([]c06TLV{d}, attrs[i+1:]...)...)
			}
			if d.Type == 14 || d.Type == 15 {
				note(c06Reset, f, fmt.Sprintf("type %d", d.Type), 1)
			} else {
				note(c06Discard, f, fmt.Sprintf("type %d", d.Type), 1)
			}
		case fMissing:
			if !reach {
				b.skipped++
				continue
			}
			typ := []byte{1, 2, 3}[f.Target%3]
			i := c06Find(attrs, typ)
			if i < 0 || touched[typ] {
				b.skipped++
				continue
			}
			attrs = append(attrs[:i], attrs[i+1:]...)
			touched[typ] = true
			b.missing = append(b.missing, typ)
			note(c06TAW, f, fmt.Sprintf("type %d", typ), 3)
		case fOverrun:
			// (an unparsable last attribute hides that it is an unrecognised well-known one)
			if structural || len(attrs) == 0 || (attrs[len(attrs)-1].Type >= 200 && attrs[len(attrs)-1].Type < 240) {
				b.skipped++
				continue
			}
			structural = true
			attrs[len(attrs)-1].lenDelta = 1 + f.Arg%3
			attrs[len(attrs)-1].bad = true
			cls := c06TAW
			if t := attrs[len(attrs)-1].Type; t == 14 || t == 15 {
				cls = c06Reset // the MP NLRI cannot be located reliably (RFC 7606 section 5.3 / 7.11)
			}
			subs := []byte{5, 1}
			if attrs[len(attrs)-1].Type == 2 {
				subs = append(subs, 11) // the segment parser may see the octets that follow first
			}
			if cls == c06Reset {
				subs = []byte{5, 1, 9, 10} // the MP NLRI runs into the octets that follow
			}
			note(cls, f, fmt.Sprintf("last attribute (type %d) claims %d more octets than the attribute area has", attrs[len(attrs)-1].Type, 1+f.Arg%3), subs...)
		case fTrunc:
			if structural || len(attrs) == 0 {
				b.skipped++
				continue
			}
			structural = true
			attrTail = [][]byte{{0x40}, {0x40, 0x01}}[f.Arg%2]
			note(c06TAW, f, fmt.Sprintf("%d stray octets at the end of the attribute area", len(attrTail)), 5, 1)
		case fTotal:
			totalDelta = 1 + f.Arg
			note(c06Reset, f, "total path attribute length beyond the message", 1)
		case fWithdrawnLen:
			wdDelta = 1 + f.Arg
			note(c06Reset, f, "withdrawn routes length beyond the message", 1)
		case fNLRI:
			if len(m.NLRI) == 0 || nlriExtra != nil {
				b.skipped++
				continue
			}
			if f.Arg%2 == 0 {
				nlriExtra = append(c06ID(), 33, 10, 61, 0, 0, 1)
			} else {
				nlriExtra = append(c06ID(), 24, 10, 61)
			}
			note(c06Reset, f, fmt.Sprintf("NLRI field ends with % x", nlriExtra), 10, 1)
		case fUnknownWK:
			typ := byte(200 + f.Arg)
			if touched[typ] {
				b.skipped++
				continue
			}
			touched[typ] = true
			u := c06TLV{Flags: 0x40, Type: typ, Val: []byte{1, 2, 3}, bad: true}
			pos := 0
			if len(attrs) > 0 {
				pos = f.Target % (len(attrs) + 1)
			}
			attrs = append(attrs[:pos], append([]c06TLV{u}, attrs[pos:]...)...)
			note(c06Reset, f, fmt.Sprintf("type %d", typ), 2)
		case fMPNextHop, fMPNLRI:
			i := c06Find(attrs, 14)
			if i < 0 || touched[14] {
				b.skipped++
				continue
			}
			touched[14] = true
			a := &attrs[i]
			if f.Kind == fMPNextHop {
				n := []int{5, 15, 17, 3}[f.Arg%4]
				val := []byte{0, 2, 1, byte(n)}
				val = append(val, rsFill(n, 0x20)...)
				val = append(val, a.Val[4+16:]...)
				a.Val = val
				note(c06Reset, f, fmt.Sprintf("next hop length %d", n), 9, 5, 1)
			} else {
				a.Val = append(append(a.Val, c06ID()...), 129, 0x20, 0x01)
				note(c06Reset, f, "prefix length 129", 9, 10, 1, 5)
			}
			a.bad = true
		}
	}
	// assemble
	var wd, area, nl []byte
	for _, i := range m.Withdraw {
		wd = append(wd, c06Enc(c06V4(i))...)
		b.named4 = append(b.named4, c06V4(i))
	}
	for _, a := range attrs {
		area = append(area, a.bytes()...)
	}
	area = append(area, attrTail...)
	for _, i := range m.NLRI {
		nl = append(nl, c06Enc(c06V4(i))...)
		b.named4 = append(b.named4, c06V4(i))
	}
	nl = append(nl, nlriExtra...)
	for _, i := range m.V6 {
		b.named6 = append(b.named6, c06V6(i))
	}
	for _, i := range m.V6Withdraw {
		b.named6 = append(b.named6, c06V6(i))
	}
	wl, tl := len(wd), len(area)
	if wdDelta > 0 {
		wl = len(wd) + 2 + len(area) + len(nl) + wdDelta
	}
	if totalDelta > 0 {
		tl = len(area) + len(nl) + totalDelta
	}
	body := []byte{byte(wl >> 8), byte(wl)}
	body = append(body, wd...)
	body = append(body, byte(tl>>8), byte(tl))
	body = append(body, area...)
	body = append(body, nl...)
	hdr := make([]byte, 19)
	for i := 0; i < 16; i++ {
		hdr[i] = 0xff
	}
	binary.BigEndian.PutUint16(hdr[16:], uint16(19+len(body)))
	hdr[18] = bgp.BGP_MSG_UPDATE
	b.raw = append(hdr, body...)
	b.attrs = attrs
	return b
}

// installed is the canonical rendering of the attributes a route of this
// message may carry once installed: the well-formed first occurrences.
func (b *c06Built) installed() []string {
	var out []string
	for _, a := range b.attrs {
		if a.bad || a.dup || a.Type == 14 || a.Type == 15 {
			continue
		}
		val := a.Val
		if b.as2 {
			// stored with 4-octet AS numbers (RFC 6793; no AS4_PATH / AS4_AGGREGATOR is sent here)
			switch a.Type {
			case 2:
				val = nil
				for d := a.Val; len(d) >= 2; {
					n := int(d[1])
					val = append(val, d[0], d[1])
					for i := 0; i < n; i++ {
						val = append(val, 0, 0, d[2+2*i], d[3+2*i])
					}
					d = d[2+2*n:]
				}
			case 7:
				val = append([]byte{0, 0}, a.Val...)
			}
		}
		out = append(out, c06Canon(a.Flags, a.Type, val))
	}
	sort.Strings(out)
	return out
}

func c06Canon(flags, typ byte, val []byte) string {
	return fmt.Sprintf("%d/%02x/%x", typ, flags&^0x30, val)
}

func c06CanonOf(attrs []bgp.PathAttributeInterface) []string {
	var out []string
	for _, a := range attrs {
		if a.GetType() == bgp.BGP_ATTR_TYPE_MP_REACH_NLRI || a.GetType() == bgp.BGP_ATTR_TYPE_MP_UNREACH_NLRI {
			continue
		}
		raw, err := a.Serialize()
		if err != nil || len(raw) < 3 {
			out = append(out, fmt.Sprintf("%d/unserialisable:%v", a.GetType(), err))
			continue
		}
		v := raw[3:]
		if raw[0]&0x10 != 0 {
			v = raw[4:]
		}
		out = append(out, c06Canon(raw[0], raw[1], v))
	}
	sort.Strings(out)
	return out
}

type c06Run struct {
	c     *c06Case
	n     *simNet
	st    *verifkit.Stats
	peer  rsPeer
	obs   rsPeer
	ss    *simSess
	obsSS *simSess
	view  *rsView
	model map[rsViewKey][]string // prefix -> canonical attributes
	log   []string
	seen  int // messages of the current session already examined
}

func (r *c06Run) fail(sig, f string, a ...any) *verifkit.Failure {
	return verifkit.Failf(sig, "%s\n  history:\n   %s", fmt.Sprintf(f, a...), strings.Join(r.log, "\n   "))
}

func (r *c06Run) addPeer(p *rsPeer, taw bool) error {
	return r.n.s.mgmtOperation(func() error {
		c, err := newNeighborFromAPIStruct(rsApiPeer(rsGlobal{Confed: r.c.Kind == rsConfed}, p))
		if err != nil {
			return err
		}
		if err := oc.SetDefaultNeighborConfigValues(c, nil, &r.n.s.bgpConfig.Global); err != nil {
			return err
		}
		// what "treat-as-withdraw = false" in the configuration file gives
		c.ErrorHandling.Config.TreatAsWithdraw = taw
		return r.n.s.addNeighbor(c)
	}, true)
}

func (r *c06Run) establish() *verifkit.Failure {
	spec := rsOpenSpec(&r.peer)
	spec.NoAS4 = r.c.AS2
	ss, _, err := r.n.establish(r.peer.def(), spec)
	if err != nil {
		return r.fail("establish", "session of the tested peer: %v", err)
	}
	r.ss, r.seen = ss, 0
	r.n.settle()
	if st, _, _ := r.n.peerState(r.peer.Addr); st != api.PeerState_SESSION_STATE_ESTABLISHED {
		return r.fail("establish", "tested peer is %v after the handshake", st)
	}
	return nil
}

func (r *c06Run) ribOf(tt api.TableType) map[rsViewKey][]string {
	got := map[rsViewKey][]string{}
	for _, fam := range []bgp.Family{bgp.RF_IPv4_UC, bgp.RF_IPv6_UC} {
		req := apiutil.ListPathRequest{TableType: tt, Family: fam}
		if tt == api.TableType_TABLE_TYPE_ADJ_IN {
			req.Name = r.peer.Addr
		}
		_ = r.n.s.ListPath(req, func(prefix bgp.NLRI, paths []*apiutil.Path) {
			for _, pa := range paths {
				if tt == api.TableType_TABLE_TYPE_GLOBAL && pa.PeerAddress.String() != r.peer.Addr {
					continue
				}
				got[rsViewKey{V6: fam == bgp.RF_IPv6_UC, Prefix: prefix.String()}] = c06CanonOf(pa.Attrs)
			}
		})
	}
	return got
}

func (r *c06Run) compare(what string, got map[rsViewKey][]string, v6NextHopLenient bool) *verifkit.Failure {
	for k, want := range r.model {
		g, ok := got[k]
		if !ok {
			return r.fail(what+"-missing", "%s: %v is missing although the peer announced it in a message that had to be accepted", what, k)
		}
		if strings.Join(g, " ") != strings.Join(want, " ") {
			return r.fail(what+"-attrs", "%s: %v carries\n     %v\n   the well-formed attributes of its UPDATE are\n     %v", what, k, g, want)
		}
	}
	for k, g := range got {
		if _, ok := r.model[k]; !ok {
			return r.fail(what+"-extra", "%s: holds %v %v, which the peer withdrew, sent in an UPDATE that had to be treated as withdraw, or announced on an ended session", what, k, g)
		}
	}
	return nil
}

func (r *c06Run) step(i int, m c06MsgSpec) *verifkit.Failure {
	b := c06Build(r.c.Kind, r.c.AS2, m)
	r.st.LabelN("fault-not-applicable", b.skipped)
	want := b.class
	if want != c06None && !r.c.TAW {
		want = c06Reset
	}
	r.log = append(r.log, fmt.Sprintf("msg %d: %x  faults %v  expect %s", i, b.raw[19:], b.applied, c06ClassName[want]))
	if err := r.ss.sendRaw(b.raw); err != nil {
		return r.fail("write", "msg %d: %v", i, err)
	}
	r.n.settle()
	r.st.SubEval(1)
	rx, eof, _ := r.ss.snapshot()
	var notif *bgp.BGPNotification
	for _, x := range rx[r.seen:] {
		if x.Type() == bgp.BGP_MSG_NOTIFICATION {
			if pm, err := bgp.ParseBGPMessage(x.Raw); err == nil {
				notif = pm.Body.(*bgp.BGPNotification)
			}
		}
	}
	r.seen = len(rx)
	state, _, _ := r.n.peerState(r.peer.Addr)
	r.st.Label("class-" + c06ClassName[want])
	for _, a := range b.applied {
		r.st.Label("fault-" + a[:strings.IndexByte(a, '(')])
	}
	if want == c06Reset {
		if notif == nil {
			return r.fail("no-reset", "msg %d (%v) calls for a session reset (revised error handling %v) but no NOTIFICATION was sent (session %v, eof=%v)", i, b.applied, r.c.TAW, state, eof)
		}
		subs := b.subs
		if r.c.TAW {
			subs = b.resetSub
		}
		if notif.ErrorCode != bgp.BGP_ERROR_UPDATE_MESSAGE_ERROR || !subs[notif.ErrorSubcode] {
			return r.fail("notification-code", "msg %d (%v): NOTIFICATION %d/%d data %x; RFC 4271 6.3 gives code 3 and a subcode of %v", i, b.applied, notif.ErrorCode, notif.ErrorSubcode, notif.Data, c06Keys(subs))
		}
		if notif.ErrorSubcode == 3 {
			ok := false
			for _, t := range b.missing {
				if len(notif.Data) == 1 && notif.Data[0] == t {
					ok = true
				}
			}
			if !ok {
				return r.fail("notification-data", "msg %d: missing well-known attribute NOTIFICATION carries data %x, the missing type is one of %v", i, notif.Data, b.missing)
			}
		}
		r.n.settle()
		if state, _, _ = r.n.peerState(r.peer.Addr); state == api.PeerState_SESSION_STATE_ESTABLISHED {
			return r.fail("no-reset", "msg %d: NOTIFICATION sent but the session is still established", i)
		}
		r.model = map[rsViewKey][]string{}
		if f := r.verify(i); f != nil {
			return f
		}
		// come back after the idle hold time
		r.n.advance(7 * time.Second)
		return r.establish()
	}
	if notif != nil || eof || state != api.PeerState_SESSION_STATE_ESTABLISHED {
		code := ""
		if notif != nil {
			code = fmt.Sprintf(" NOTIFICATION %d/%d", notif.ErrorCode, notif.ErrorSubcode)
		}
		sig := "penalised"
		if want != c06None {
			sig = "over-reaction"
		}
		return r.fail(sig, "msg %d (%v) calls for %s, but the session was reset:%s (state %v, eof=%v)", i, b.applied, c06ClassName[want], code, state, eof)
	}
	switch want {
	case c06TAW:
		for _, p := range b.named4 {
			delete(r.model, rsViewKey{Prefix: p.String()})
		}
		for _, p := range b.named6 {
			delete(r.model, rsViewKey{V6: true, Prefix: p.String()})
		}
	default:
		inst := b.installed()
		for _, j := range m.Withdraw {
			delete(r.model, rsViewKey{Prefix: c06V4(j).String()})
		}
		for _, j := range m.V6Withdraw {
			delete(r.model, rsViewKey{V6: true, Prefix: c06V6(j).String()})
		}
		for _, j := range m.NLRI {
			r.model[rsViewKey{Prefix: c06V4(j).String()}] = inst
		}
		for _, j := range m.V6 {
			r.model[rsViewKey{V6: true, Prefix: c06V6(j).String()}] = inst
		}
	}
	return r.verify(i)
}

func c06Keys(m map[byte]bool) []int {
	var out []int
	for k := range m {
		out = append(out, int(k))
	}
	sort.Ints(out)
	return out
}

func (r *c06Run) verify(i int) *verifkit.Failure {
	if f := r.compare("adj-in", r.ribOf(api.TableType_TABLE_TYPE_ADJ_IN), false); f != nil {
		f.Msg = fmt.Sprintf("after msg %d: ", i) + f.Msg
		return f
	}
	if f := r.compare("loc-rib", r.ribOf(api.TableType_TABLE_TYPE_GLOBAL), false); f != nil {
		f.Msg = fmt.Sprintf("after msg %d: ", i) + f.Msg
		return f
	}
	// what the observer was told
	rx, eof, _ := r.obsSS.snapshot()
	if eof {
		return r.fail("observer", "after msg %d: the observer's session ended", i)
	}
	r.view.feed(rx, rsRxOpt(&r.obs))
	for _, e := range r.view.errs {
		if strings.HasPrefix(e, "message ") { // the route model of routesim knows fewer attribute types than this check sends
			return r.fail("observer-wire", "after msg %d: %s", i, e)
		}
	}
	for k := range r.view.entries {
		if _, ok := r.model[rsViewKey{V6: k.V6, Prefix: k.Prefix}]; !ok {
			return r.fail("propagated-extra", "after msg %d: the observer peer still holds %v", i, k)
		}
	}
	for k := range r.model {
		if _, ok := r.view.entries[k]; !ok {
			return r.fail("propagated-missing", "after msg %d: the observer peer was not told about %v", i, k)
		}
	}
	return nil
}

func runC06(t *testing.T) func(c c06Case, st *verifkit.Stats) *verifkit.Failure {
	return func(c c06Case, st *verifkit.Stats) *verifkit.Failure {
		return simRun(t, func() *verifkit.Failure {
			g := rsGlobal{Confed: c.Kind == rsConfed}
			n, err := simStart(rsApiGlobal(g))
			if err != nil {
				return verifkit.Failf("start", "%v", err)
			}
			defer n.stop()
			r := &c06Run{c: &c, n: n, st: st, model: map[rsViewKey][]string{}, view: newRsView()}
			r.peer = rsPeer{Addr: "10.0.0.1", ID: "10.0.0.1", Kind: c.Kind, AS: c06PeerASFor(c.Kind), AddPathRecv: c.AddPath}
			c06PathID = 0
			if c.AddPath {
				c06PathID = 7
			}
			defer func() { c06PathID = 0 }()
			r.obs = rsPeer{Addr: "10.0.0.9", ID: "10.0.0.9", Kind: rsEBGP, AS: 65200}
			if err := r.addPeer(&r.peer, c.TAW); err != nil {
				return verifkit.Failf("addpeer", "%v", err)
			}
			if err := n.s.AddPeer(context.Background(), &api.AddPeerRequest{Peer: rsApiPeer(g, &r.obs)}); err != nil {
				return verifkit.Failf("addpeer", "%v", err)
			}
			n.settle()
			oss, _, err := n.establish(r.obs.def(), rsOpenSpec(&r.obs))
			if err != nil {
				return verifkit.Failf("establish", "observer: %v", err)
			}
			r.obsSS = oss
			if f := r.establish(); f != nil {
				return f
			}
			twoFaults, afterInstall := false, false
			for i, m := range c.Msgs {
				if len(m.Faults) > 0 && len(r.model) > 0 {
					afterInstall = true
				}
				if len(m.Faults) >= 2 {
					twoFaults = true
				}
				if f := r.step(i, m); f != nil {
					return f
				}
			}
			if twoFaults || afterInstall {
				st.Nontrivial()
			}
			if f := n.stop(); f != nil {
				return r.fail(f.Sig, "%s", f.Msg)
			}
			return nil
		})
	}
}

func TestVerifC06(t *testing.T) {
	verifkit.Run(t, "C06", drawC06, runC06(t))
}
