package server

// C15 — soft reset and route refresh equal a fresh evaluation under the current policy.
//
// Metamorphic relation.  "History run": a BgpServer starts with an old import/export
// policy, two source peers announce a generated route set, the policy is changed to a new
// one (new statements, changed defined sets, changed assignment defaults), the
// corresponding soft reset is issued (API in/out/both, or ROUTE-REFRESH messages from the
// target peers) — optionally while further announcements/withdrawals are in flight — and
// the server settles.  "Fresh run": a second server starts with the new policy and
// receives the final route set.  The Loc-RIB (prefix, source, attributes) and what each
// target peer holds (every UPDATE written to its session applied in order) must be the
// same in both runs.  The reset is then repeated: nothing may change.

import (
	"context"
	"fmt"
	"net/netip"
	"sort"
	"strings"
	"testing"

	"github.com/osrg/gobgp/v4/api"
	"github.com/osrg/gobgp/v4/internal/pkg/table"
	"github.com/osrg/gobgp/v4/internal/pkg/verifkit"
	"github.com/osrg/gobgp/v4/pkg/apiutil"
	"github.com/osrg/gobgp/v4/pkg/config/oc"
	"github.com/osrg/gobgp/v4/pkg/packet/bgp"
	"pgregory.net/rapid"
)

type c15Stmt struct {
	PrefixSet    int  `json:"prefix_set"` // -1 none
	PrefixInvert bool `json:"prefix_invert"`
	Neighbor     int  `json:"neighbor"` // -1 none, else peer index
	Comm         int  `json:"comm"`     // -1 none, else index into c15Comms
	PathLenGE    int  `json:"path_len_ge"`
	Disp         int  `json:"disp"` // 0 none 1 accept 2 reject
	SetMed       int  `json:"set_med"`
	AddComm      int  `json:"add_comm"` // -1 none
	SetLP        int  `json:"set_lp"`
	Prepend      int  `json:"prepend"`
}

type c15Dir struct {
	Stmts    []c15Stmt `json:"stmts"`
	Accept   bool      `json:"default_accept"`
	Assigned bool      `json:"assigned"` // the policy is in the assignment (else only the default applies)
}

type c15Program struct {
	PrefixSets [][]string `json:"prefix_sets"` // entries "prefix" or "prefix min..max"
	Import     c15Dir     `json:"import"`
	Export     c15Dir     `json:"export"`
}

type c15Route struct {
	Src     int `json:"src"` // source peer index (0, 1)
	Prefix  int `json:"prefix"`
	Variant int `json:"variant"`
	Comm    int `json:"comm"` // -1 none
}

type c15Op struct {
	Withdraw bool     `json:"withdraw"`
	Route    c15Route `json:"route"`
}

type c15Case struct {
	Old        c15Program `json:"old"`
	New        c15Program `json:"new"`
	Routes     []c15Route `json:"routes"`
	Concurrent []c15Op    `json:"concurrent"` // sent while the reset is issued
	Reset      int        `json:"reset"`      // 0 both/all, 1 out then in, 2 in then out, 3 in + ROUTE-REFRESH from the targets, 4 per-peer both
	Sched      uint64     `json:"sched"`
	// Incremental: the new program is the old one with entries appended to its prefix sets, and the
	// change is made with AddDefinedSet (no replace) instead of SetPolicies
	Incremental bool `json:"incremental"`
	// Removal (with Incremental): the new program is the old one with the last entries of its prefix sets removed
	// (at least one entry stays, and only entries that do not occur among the kept ones go), made with DeleteDefinedSet
	Removal bool `json:"removal,omitempty"`
	// ReplaceSets (with Incremental): the new program has other prefix sets altogether, put in place with
	// AddDefinedSet(replace) - the policies and statements that refer to them are not touched
	ReplaceSets bool `json:"replace_sets,omitempty"`
	// StaleSource: source peer 0 negotiates graceful restart and loses its transport after its
	// announcements, so its routes are retained as stale when the policy changes
	StaleSource bool `json:"stale_source"`
	// Mid: an intermediate policy, installed (with the same kind of reset) after the initial announcements and before
	// the concurrent operations; nothing of it may survive under New
	Mid *c15Program `json:"mid"`
	// SendMax: ADD-PATH send-max towards target 0 (0 = no ADD-PATH)
	SendMax int `json:"send_max"`
}

var c15Prefixes = []string{"10.100.0.0/24", "10.100.1.0/24", "10.100.128.0/17", "10.200.0.0/16", "10.200.5.0/24", "192.168.7.0/24"}
var c15PrefixEntries = []string{"10.100.0.0/16 16..24", "10.100.0.0/24", "10.200.0.0/16", "10.200.0.0/16 16..32", "10.0.0.0/8 8..32", "192.168.0.0/16 24..24", "10.100.0.0/16 17..17"}
var c15Comms = []uint32{65000<<16 | 1, 65000<<16 | 2, 65001<<16 | 7}

func c15Peers() []rsPeer {
	return []rsPeer{
		{Addr: "10.0.0.1", ID: "10.0.0.1", Kind: rsEBGP, AS: 65001},
		{Addr: "10.0.0.2", ID: "10.0.0.2", Kind: rsEBGP, AS: 65002},
		{Addr: "10.0.0.3", ID: "10.0.0.3", Kind: rsEBGP, AS: 65003},
		{Addr: "10.0.0.4", ID: "10.0.0.4", Kind: rsIBGP, AS: rsLocalAS},
		{Addr: "10.0.0.5", ID: "10.0.0.5", Kind: rsEBGP, AS: 65005}, // third source (route.Src 2)
	}
}

func drawC15(t *rapid.T) c15Case {
	var c c15Case
	dir := func(l string) c15Dir {
		d := c15Dir{Accept: rapid.IntRange(0, 3).Draw(t, l+"acc") != 0, Assigned: rapid.IntRange(0, 4).Draw(t, l+"asg") != 0}
		for i, n := 0, rapid.IntRange(0, 3).Draw(t, l+"n"); i < n; i++ {
			sl := fmt.Sprintf("%ss%d", l, i)
			s := c15Stmt{PrefixSet: -1, Neighbor: -1, Comm: -1, PathLenGE: -1, AddComm: -1}
			if rapid.IntRange(0, 1).Draw(t, sl+"pfx") == 0 {
				s.PrefixSet = rapid.IntRange(0, 1).Draw(t, sl+"ps")
				s.PrefixInvert = rapid.IntRange(0, 3).Draw(t, sl+"pi") == 0
			}
			if rapid.IntRange(0, 3).Draw(t, sl+"nb") == 0 {
				s.Neighbor = rapid.IntRange(0, 3).Draw(t, sl+"nbi")
			}
			if rapid.IntRange(0, 3).Draw(t, sl+"cm") == 0 {
				s.Comm = rapid.IntRange(0, len(c15Comms)-1).Draw(t, sl+"cmi")
			}
			if rapid.IntRange(0, 5).Draw(t, sl+"pl") == 0 {
				s.PathLenGE = rapid.IntRange(1, 3).Draw(t, sl+"plv")
			}
			s.Disp = rapid.SampledFrom([]int{0, 1, 2, 2}).Draw(t, sl+"disp")
			if rapid.IntRange(0, 2).Draw(t, sl+"med") == 0 {
				s.SetMed = rapid.SampledFrom([]int{5, 50}).Draw(t, sl+"medv")
			}
			if rapid.IntRange(0, 2).Draw(t, sl+"ac") == 0 {
				s.AddComm = rapid.IntRange(0, len(c15Comms)-1).Draw(t, sl+"acv")
			}
			if rapid.IntRange(0, 3).Draw(t, sl+"lp") == 0 {
				s.SetLP = rapid.SampledFrom([]int{50, 300}).Draw(t, sl+"lpv")
			}
			if rapid.IntRange(0, 4).Draw(t, sl+"pp") == 0 {
				s.Prepend = rapid.IntRange(1, 2).Draw(t, sl+"ppv")
			}
			d.Stmts = append(d.Stmts, s)
		}
		return d
	}
	prog := func(l string) c15Program {
		p := c15Program{Import: dir(l + "imp"), Export: dir(l + "exp")}
		for i := 0; i < 2; i++ {
			var es []string
			for j, n := 0, rapid.IntRange(1, 3).Draw(t, fmt.Sprintf("%sps%dn", l, i)); j < n; j++ {
				es = append(es, rapid.SampledFrom(c15PrefixEntries).Draw(t, fmt.Sprintf("%sps%d_%d", l, i, j)))
			}
			p.PrefixSets = append(p.PrefixSets, es)
		}
		return p
	}
	c.Old, c.New = prog("old"), prog("new")
	c.Incremental = rapid.IntRange(0, 3).Draw(t, "incremental") == 0
	if c.Incremental {
		c.New.Import, c.New.Export = c.Old.Import, c.Old.Export
		switch rapid.IntRange(0, 3).Draw(t, "removal") {
		case 0:
			c.Removal = true
		case 1:
			c.ReplaceSets = true
		}
		for i := range c.New.PrefixSets {
			if c.ReplaceSets {
				continue // as drawn for the new program
			}
			if c.Removal {
				old := c.Old.PrefixSets[i]
				keep := len(old)
				for keep > 1 && rapid.Bool().Draw(t, fmt.Sprintf("rm%d_%d", i, keep)) {
					dup := false
					for _, e := range old[:keep-1] {
						dup = dup || e == old[keep-1]
					}
					if dup {
						break
					}
					keep--
				}
				c.New.PrefixSets[i] = append([]string{}, old[:keep]...)
				continue
			}
			extra := c.New.PrefixSets[i]
			c.New.PrefixSets[i] = append(append([]string{}, c.Old.PrefixSets[i]...), extra...)
		}
	}
	c.StaleSource = rapid.IntRange(0, 3).Draw(t, "stale_source") == 0
	route := func(l string) c15Route {
		r := c15Route{Src: rapid.IntRange(0, 2).Draw(t, l+"src"), Prefix: rapid.IntRange(0, len(c15Prefixes)-1).Draw(t, l+"p"), Variant: rapid.SampledFrom([]int{0, 1, 2, 3, 0, 1, 2, 3, 4}).Draw(t, l+"v"), Comm: -1}
		if rapid.Bool().Draw(t, l+"c") {
			r.Comm = rapid.IntRange(0, len(c15Comms)-1).Draw(t, l+"cv")
		}
		return r
	}
	for i, n := 0, rapid.IntRange(2, 8).Draw(t, "nroutes"); i < n; i++ {
		c.Routes = append(c.Routes, route(fmt.Sprintf("r%d", i)))
	}
	for i, n := 0, rapid.SampledFrom([]int{0, 0, 1, 2, 3}).Draw(t, "nconc"); i < n; i++ {
		l := fmt.Sprintf("c%d", i)
		c.Concurrent = append(c.Concurrent, c15Op{Withdraw: rapid.IntRange(0, 2).Draw(t, l+"w") == 0, Route: route(l)})
	}
	if c.StaleSource {
		c.Concurrent = nil
	}
	switch rapid.IntRange(0, 3).Draw(t, "mid") {
	case 1:
		m := prog("mid")
		m.PrefixSets = c.New.PrefixSets
		c.Mid = &m
	case 2: // one source is rejected on import for a while, then the new policy is back without that statement
		m := c.New
		m.Import.Assigned = true
		m.Import.Stmts = append([]c15Stmt{{PrefixSet: -1, Neighbor: c15SrcPeer(rapid.IntRange(0, 2).Draw(t, "mid_src")), Comm: -1, PathLenGE: -1, AddComm: -1, Disp: 2}}, c.New.Import.Stmts...)
		c.Mid = &m
	}
	if c.Incremental || c.StaleSource {
		c.Mid = nil
	}
	// (send-max is first come, first served in gobgp: with fewer slots than candidates the advertised set depends on
	// the arrival order by design and the two runs are not comparable; 3 sources, so 3 or 4 slots)
	c.SendMax = rapid.SampledFrom([]int{0, 0, 3, 4}).Draw(t, "send_max")
	c.Reset = rapid.IntRange(0, 4).Draw(t, "reset")
	if rapid.IntRange(0, 2).Draw(t, "sched_on") != 0 {
		c.Sched = uint64(rapid.IntRange(1, 1<<30).Draw(t, "sched"))
	}
	return c
}

// ---- configuration objects ----

func c15Config(p *c15Program, peers []rsPeer) (*api.SetPoliciesRequest, []*api.PolicyAssignment, error) {
	rp := &oc.RoutingPolicy{}
	for i, es := range p.PrefixSets {
		ps := oc.PrefixSet{PrefixSetName: fmt.Sprintf("ps%d", i)}
		for _, e := range es {
			pfx, rng, _ := strings.Cut(e, " ")
			ps.PrefixList = append(ps.PrefixList, oc.Prefix{IpPrefix: netip.MustParsePrefix(pfx), MasklengthRange: rng})
		}
		rp.DefinedSets.PrefixSets = append(rp.DefinedSets.PrefixSets, ps)
	}
	for i, pr := range peers {
		rp.DefinedSets.NeighborSets = append(rp.DefinedSets.NeighborSets, oc.NeighborSet{NeighborSetName: fmt.Sprintf("ns%d", i), NeighborInfoList: []string{pr.Addr}})
	}
	for i, cv := range c15Comms {
		rp.DefinedSets.BgpDefinedSets.CommunitySets = append(rp.DefinedSets.BgpDefinedSets.CommunitySets, oc.CommunitySet{CommunitySetName: fmt.Sprintf("cs%d", i), CommunityList: []string{fmt.Sprintf("%d:%d", cv>>16, cv&0xffff)}})
	}
	mk := func(name string, d c15Dir) {
		pd := oc.PolicyDefinition{Name: name}
		for i, s := range d.Stmts {
			st := oc.Statement{Name: fmt.Sprintf("%s-st%d", name, i)}
			if s.PrefixSet >= 0 {
				st.Conditions.MatchPrefixSet = oc.MatchPrefixSet{PrefixSet: fmt.Sprintf("ps%d", s.PrefixSet), MatchSetOptions: oc.MATCH_SET_OPTIONS_RESTRICTED_TYPE_ANY}
				if s.PrefixInvert {
					st.Conditions.MatchPrefixSet.MatchSetOptions = oc.MATCH_SET_OPTIONS_RESTRICTED_TYPE_INVERT
				}
			}
			if s.Neighbor >= 0 {
				st.Conditions.MatchNeighborSet = oc.MatchNeighborSet{NeighborSet: fmt.Sprintf("ns%d", s.Neighbor), MatchSetOptions: oc.MATCH_SET_OPTIONS_RESTRICTED_TYPE_ANY}
			}
			if s.Comm >= 0 {
				st.Conditions.BgpConditions.MatchCommunitySet = oc.MatchCommunitySet{CommunitySet: fmt.Sprintf("cs%d", s.Comm), MatchSetOptions: oc.MATCH_SET_OPTIONS_TYPE_ANY}
			}
			if s.PathLenGE >= 0 {
				st.Conditions.BgpConditions.AsPathLength = oc.AsPathLength{Operator: oc.ATTRIBUTE_COMPARISON_ATTRIBUTE_GE, Value: uint32(s.PathLenGE)}
			}
			st.Actions.RouteDisposition = []oc.RouteDisposition{oc.ROUTE_DISPOSITION_NONE, oc.ROUTE_DISPOSITION_ACCEPT_ROUTE, oc.ROUTE_DISPOSITION_REJECT_ROUTE}[s.Disp]
			if s.SetMed > 0 {
				st.Actions.BgpActions.SetMed = oc.BgpSetMedType(fmt.Sprint(s.SetMed))
			}
			if s.AddComm >= 0 {
				cv := c15Comms[s.AddComm]
				st.Actions.BgpActions.SetCommunity = oc.SetCommunity{Options: "add", SetCommunityMethod: oc.SetCommunityMethod{CommunitiesList: []string{fmt.Sprintf("%d:%d", cv>>16, cv&0xffff)}}}
			}
			st.Actions.BgpActions.SetLocalPref = uint32(s.SetLP)
			if s.Prepend > 0 {
				st.Actions.BgpActions.SetAsPathPrepend = oc.SetAsPathPrepend{As: "65099", RepeatN: uint8(s.Prepend)}
			}
			pd.Statements = append(pd.Statements, st)
		}
		rp.PolicyDefinitions = append(rp.PolicyDefinitions, pd)
	}
	mk("imp", p.Import)
	mk("exp", p.Export)
	arp, err := table.NewAPIRoutingPolicyFromConfigStruct(rp)
	if err != nil {
		return nil, nil, err
	}
	asg := func(dir table.PolicyDirection, name string, d c15Dir) *api.PolicyAssignment {
		a := &table.PolicyAssignment{Name: table.GLOBAL_RIB_NAME, Type: dir, Default: table.ROUTE_TYPE_REJECT}
		if d.Accept {
			a.Default = table.ROUTE_TYPE_ACCEPT
		}
		if d.Assigned {
			a.Policies = []*table.Policy{{Name: name}}
		}
		return table.NewAPIPolicyAssignmentFromTableStruct(a)
	}
	return &api.SetPoliciesRequest{DefinedSets: arp.DefinedSets, Policies: arp.Policies},
		[]*api.PolicyAssignment{asg(table.POLICY_DIRECTION_IMPORT, "imp", p.Import), asg(table.POLICY_DIRECTION_EXPORT, "exp", p.Export)}, nil
}

func c15Attrs(p *rsPeer, r c15Route) rsAttrs {
	a := rsAttrs{MED: -1, LocalPref: -1, NextHop: "192.0.2.1"}
	switch r.Variant {
	case 0:
		a.ASPath = []rsSeg{{T: 2, AS: []uint32{p.AS}}}
	case 1:
		a.ASPath = []rsSeg{{T: 2, AS: []uint32{p.AS, 100}}}
	case 2:
		a.ASPath = []rsSeg{{T: 2, AS: []uint32{p.AS, 100, 200}}}
		a.MED = 20
	case 4:
		// the local AS in the path: kept in the Adj-RIB-In as rejected, never used - also not after a soft reset in
		a.ASPath = []rsSeg{{T: 2, AS: []uint32{p.AS, rsLocalAS, 400}}}
	default:
		a.ASPath = []rsSeg{{T: 2, AS: []uint32{p.AS, 300}}}
		a.Origin = 2
	}
	if r.Comm >= 0 {
		a.Comms = []uint32{c15Comms[r.Comm]}
	}
	return a
}

type c15Result struct {
	loc   []string
	views [][]string
	rx    []int // messages seen per target
}

func (r *c15Result) diff(o *c15Result) string {
	if a, b := strings.Join(r.loc, "\n     "), strings.Join(o.loc, "\n     "); a != b {
		return fmt.Sprintf("Loc-RIB after the reset:\n     %s\n   Loc-RIB of the fresh run:\n     %s", a, b)
	}
	for i := range r.views {
		if a, b := strings.Join(r.views[i], "\n     "), strings.Join(o.views[i], "\n     "); a != b {
			return fmt.Sprintf("target %d holds after the reset:\n     %s\n   in the fresh run it holds:\n     %s", i, a, b)
		}
	}
	return ""
}

type c15Run struct {
	n     *simNet
	peers []rsPeer
	sess  []*simSess
	views []*rsView
	log   []string
	lastAsg string // the assignments in force (rendered)
}

func (r *c15Run) logf(f string, a ...any) { r.log = append(r.log, fmt.Sprintf(f, a...)) }

func (r *c15Run) setPolicy(p *c15Program) error {
	req, asg, err := c15Config(p, r.peers)
	if err != nil {
		return err
	}
	ctx := context.Background()
	if err := r.n.s.SetPolicies(ctx, req); err != nil {
		return fmt.Errorf("SetPolicies: %w", err)
	}
	// like a configuration reload: the assignments are only set again when they differ from what is in force;
	// otherwise SetPolicies itself has to bind the existing assignments to the new policy objects
	sig := verifkit.JSON(asg)
	if sig == r.lastAsg {
		return nil
	}
	for _, a := range asg {
		if err := r.n.s.SetPolicyAssignment(ctx, &api.SetPolicyAssignmentRequest{Assignment: a}); err != nil {
			return fmt.Errorf("SetPolicyAssignment: %w", err)
		}
	}
	r.lastAsg = sig
	return nil
}

func c15Start(p *c15Program, staleSource bool, sendMax ...int) (*c15Run, error) {
	g := rsApiGlobal(rsGlobal{})
	// the decision between equal external paths must not depend on arrival order (the two runs differ in it)
	g.RouteSelectionOptions = &api.RouteSelectionOptionsConfig{ExternalCompareRouterId: true}
	n, err := simStart(g)
	if err != nil {
		return nil, err
	}
	r := &c15Run{n: n, peers: c15Peers()}
	if len(sendMax) > 0 {
		r.peers[2].SendMax = sendMax[0]
	}
	for i := range r.peers {
		ap := rsApiPeer(rsGlobal{}, &r.peers[i])
		if staleSource && i == 0 {
			ap.GracefulRestart = &api.GracefulRestart{Enabled: true, RestartTime: 120}
			for _, af := range ap.AfiSafis {
				af.MpGracefulRestart = &api.MpGracefulRestart{Config: &api.MpGracefulRestartConfig{Enabled: true}}
			}
		}
		if err := n.s.AddPeer(context.Background(), &api.AddPeerRequest{Peer: ap}); err != nil {
			return r, err
		}
	}
	if err := r.setPolicy(p); err != nil {
		return r, err
	}
	n.settle()
	for i := range r.peers {
		spec := rsOpenSpec(&r.peers[i])
		if staleSource && i == 0 {
			spec.GR = &simGR{Time: 300, Families: []uint32{uint32(bgp.RF_IPv4_UC)<<1 | 1, uint32(bgp.RF_IPv6_UC)<<1 | 1}}
		}
		ss, _, err := n.establish(r.peers[i].def(), spec)
		if err != nil {
			return r, fmt.Errorf("peer %d: %w", i, err)
		}
		r.sess = append(r.sess, ss)
		r.views = append(r.views, newRsView())
	}
	n.settle()
	return r, nil
}

// c15SrcPeer maps a route's source number to the index of the peer that announces it.
func c15SrcPeer(src int) int { return []int{0, 1, 4}[src] }

func c15Prefix(i int) netip.Prefix { return netip.MustParsePrefix(c15Prefixes[i]) }

func (r *c15Run) announce(rt c15Route) {
	p := &r.peers[c15SrcPeer(rt.Src)]
	nlri, _ := bgp.NewIPAddrPrefix(c15Prefix(rt.Prefix))
	a := c15Attrs(p, rt)
	m := bgp.NewBGPUpdateMessage(nil, a.toBGP(nlri, false, 0), []bgp.PathNLRI{{NLRI: nlri}})
	_ = r.sess[c15SrcPeer(rt.Src)].send(m, rsTxOpt(p))
	r.logf("peer %d announces %s variant %d comm %d", c15SrcPeer(rt.Src), c15Prefixes[rt.Prefix], rt.Variant, rt.Comm)
}

func (r *c15Run) withdraw(rt c15Route) {
	p := &r.peers[c15SrcPeer(rt.Src)]
	nlri, _ := bgp.NewIPAddrPrefix(c15Prefix(rt.Prefix))
	m := bgp.NewBGPUpdateMessage([]bgp.PathNLRI{{NLRI: nlri}}, nil, nil)
	_ = r.sess[c15SrcPeer(rt.Src)].send(m, rsTxOpt(p))
	r.logf("peer %d withdraws %s", c15SrcPeer(rt.Src), c15Prefixes[rt.Prefix])
}

func (r *c15Run) collect() (*c15Result, *verifkit.Failure) {
	res := &c15Result{}
	_ = r.n.s.ListPath(apiutil.ListPathRequest{TableType: api.TableType_TABLE_TYPE_GLOBAL, Family: bgp.RF_IPv4_UC}, func(prefix bgp.NLRI, paths []*apiutil.Path) {
		for i, pa := range paths {
			a, _ := rsFromWire(pa.Attrs)
			a.NextHop = "" // (the stored next hop is the received one in both runs; not the subject)
			res.loc = append(res.loc, fmt.Sprintf("%s from %s best=%v %s", prefix, pa.PeerAddress, i == 0, verifkit.JSON(a)))
		}
	})
	sort.Strings(res.loc)
	for i := 2; i < len(r.peers); i++ {
		rx, eof, _ := r.sess[i].snapshot()
		if eof {
			return nil, verifkit.Failf("session-lost", "the session of target %d ended\n  %s", i-2, strings.Join(r.log, "\n  "))
		}
		if len(simOfType(rx, bgp.BGP_MSG_NOTIFICATION)) > 0 {
			return nil, verifkit.Failf("session-lost", "target %d got a NOTIFICATION", i-2)
		}
		r.views[i].feed(rx, rsRxOpt(&r.peers[i]))
		for _, e := range r.views[i].errs {
			if strings.HasPrefix(e, "message ") {
				return nil, verifkit.Failf("wire", "target %d: %s", i-2, e)
			}
		}
		var l []string
		for k, e := range r.views[i].entries {
			l = append(l, fmt.Sprintf("%s %s", k.Prefix, verifkit.JSON(e.Attrs)))
		}
		sort.Strings(l)
		res.views = append(res.views, l)
		res.rx = append(res.rx, len(rx))
	}
	return res, nil
}

func (r *c15Run) reset(kind int) error {
	ctx := context.Background()
	soft := func(addr string, d api.ResetPeerRequest_Direction) error {
		return r.n.s.ResetPeer(ctx, &api.ResetPeerRequest{Address: addr, Soft: true, Direction: d})
	}
	switch kind {
	case 0:
		return soft("all", api.ResetPeerRequest_DIRECTION_BOTH)
	case 1:
		if err := soft("all", api.ResetPeerRequest_DIRECTION_OUT); err != nil {
			return err
		}
		return soft("all", api.ResetPeerRequest_DIRECTION_IN)
	case 2:
		if err := soft("all", api.ResetPeerRequest_DIRECTION_IN); err != nil {
			return err
		}
		return soft("all", api.ResetPeerRequest_DIRECTION_OUT)
	case 3:
		if err := soft("all", api.ResetPeerRequest_DIRECTION_IN); err != nil {
			return err
		}
		r.n.settle()
		for i := 2; i < len(r.peers); i++ {
			_ = r.sess[i].send(bgp.NewBGPRouteRefreshMessage(bgp.AFI_IP, 0, bgp.SAFI_UNICAST), nil)
		}
		return nil
	default:
		for i := range r.peers {
			if err := soft(r.peers[i].Addr, api.ResetPeerRequest_DIRECTION_BOTH); err != nil {
				return err
			}
		}
		return nil
	}
}

func runC15(t *testing.T) func(c c15Case, st *verifkit.Stats) *verifkit.Failure {
	return func(c c15Case, st *verifkit.Stats) *verifkit.Failure {
		var after, again *c15Result
		var hist []string
		// ---- history run ----
		if f := simRun(t, func() *verifkit.Failure {
			r, err := c15Start(&c.Old, c.StaleSource, c.SendMax)
			if r != nil && r.n != nil {
				defer r.n.stop()
			}
			if err != nil {
				return verifkit.Failf("setup", "history run: %v", err)
			}
			if simYieldAvailable {
				simYieldInstall(c.Sched)
				defer simYieldInstall(0)
			}
			for _, rt := range c.Routes {
				r.announce(rt)
			}
			r.n.settle()
			if c.StaleSource {
				r.sess[0].close()
				r.n.settle()
				r.logf("-- source 0 lost (graceful restart: its routes are stale) --")
			}
			if _, f := r.collect(); f != nil {
				return f
			}
			if c.Mid != nil {
				r.logf("-- intermediate policy, soft reset kind %d --", c.Reset)
				if err := r.setPolicy(c.Mid); err != nil {
					return verifkit.Failf("setup", "history run, intermediate policy: %v", err)
				}
				if err := r.reset(c.Reset); err != nil {
					return verifkit.Failf("reset-error", "soft reset (intermediate policy): %v", err)
				}
				r.n.settle()
				if _, f := r.collect(); f != nil {
					return f
				}
			}
			r.logf("-- policy changed (incremental=%v) --", c.Incremental)
			if c.Incremental {
				for i, es := range c.New.PrefixSets {
					var extra []string
					if c.ReplaceSets {
						extra = es
					} else if c.Removal {
						extra = c.Old.PrefixSets[i][len(es):]
						if len(extra) == 0 {
							continue
						}
					} else {
						extra = es[len(c.Old.PrefixSets[i]):]
					}
					ds := &api.DefinedSet{DefinedType: api.DefinedType_DEFINED_TYPE_PREFIX, Name: fmt.Sprintf("ps%d", i)}
					for _, e := range extra {
						pfx, rng, _ := strings.Cut(e, " ")
						ap := &api.Prefix{IpPrefix: pfx, MaskLengthMin: uint32(netip.MustParsePrefix(pfx).Bits()), MaskLengthMax: uint32(netip.MustParsePrefix(pfx).Bits())}
						if rng != "" {
							fmt.Sscanf(rng, "%d..%d", &ap.MaskLengthMin, &ap.MaskLengthMax)
						}
						ds.Prefixes = append(ds.Prefixes, ap)
					}
					if c.Removal {
						if err := r.n.s.DeleteDefinedSet(context.Background(), &api.DeleteDefinedSetRequest{DefinedSet: ds, All: false}); err != nil {
							return verifkit.Failf("setup", "DeleteDefinedSet: %v", err)
						}
						continue
					}
					if err := r.n.s.AddDefinedSet(context.Background(), &api.AddDefinedSetRequest{DefinedSet: ds, Replace: c.ReplaceSets}); err != nil {
						return verifkit.Failf("setup", "AddDefinedSet: %v", err)
					}
				}
			} else if err := r.setPolicy(&c.New); err != nil {
				return verifkit.Failf("setup", "history run, new policy: %v", err)
			}
			for _, op := range c.Concurrent {
				if op.Withdraw {
					r.withdraw(op.Route)
				} else {
					r.announce(op.Route)
				}
			}
			r.logf("-- soft reset kind %d --", c.Reset)
			if err := r.reset(c.Reset); err != nil {
				return verifkit.Failf("reset-error", "soft reset: %v", err)
			}
			r.n.settle()
			var f *verifkit.Failure
			if after, f = r.collect(); f != nil {
				return f
			}
			// once more: nothing further changes
			if err := r.reset(c.Reset); err != nil {
				return verifkit.Failf("reset-error", "second soft reset: %v", err)
			}
			r.n.settle()
			if again, f = r.collect(); f != nil {
				return f
			}
			hist = r.log
			if f := r.n.stop(); f != nil {
				return f
			}
			return nil
		}); f != nil {
			return f
		}
		// ---- fresh run under the new policy ----
		var fresh *c15Result
		if f := simRun(t, func() *verifkit.Failure {
			r, err := c15Start(&c.New, c.StaleSource, c.SendMax)
			if r != nil && r.n != nil {
				defer r.n.stop()
			}
			if err != nil {
				return verifkit.Failf("setup", "fresh run: %v", err)
			}
			for _, rt := range c.Routes {
				r.announce(rt)
			}
			for _, op := range c.Concurrent {
				if op.Withdraw {
					r.withdraw(op.Route)
				} else {
					r.announce(op.Route)
				}
			}
			r.n.settle()
			if c.StaleSource {
				r.sess[0].close()
				r.n.settle()
			}
			var f *verifkit.Failure
			fresh, f = r.collect()
			return f
		}); f != nil {
			return f
		}
		st.SubEval(2)
		if d := after.diff(fresh); d != "" {
			return verifkit.Failf("differs-from-fresh", "%s\n  history:\n   %s", d, strings.Join(hist, "\n   "))
		}
		if d := again.diff(after); d != "" {
			return verifkit.Failf("second-reset-changes", "the repeated reset changed the state: %s\n  history:\n   %s", d, strings.Join(hist, "\n   "))
		}
		changed := verifkit.JSON(c.Old) != verifkit.JSON(c.New)
		if changed && len(fresh.loc) > 0 {
			st.Nontrivial()
		}
		if len(c.Concurrent) > 0 {
			st.Label("concurrent-route-changes")
		}
		st.Label(fmt.Sprintf("reset-kind-%d", c.Reset))
		if c.Incremental {
			st.Label("incremental-defined-set-change")
		}
		if c.Removal {
			st.Label("incremental-removal")
		}
		if c.ReplaceSets {
			st.Label("incremental-replace")
		}
		if c.StaleSource {
			st.Label("stale-source")
		}
		if c.Mid != nil {
			st.Label("intermediate-policy")
		}
		if c.SendMax > 0 {
			st.Label("add-path-target")
		}
		return nil
	}
}

func TestVerifC15(t *testing.T) {
	verifkit.Run(t, "C15", drawC15, runC15(t))
}
