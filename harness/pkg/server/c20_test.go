package server

// C20 — no data race, deadlock or goroutine leak in any interleaving; clean shutdown.
//
// Several actors run concurrently as goroutines inside one synctest bubble against a
// real BgpServer: one per scripted peer (announce / withdraw / bursts / session flap /
// ROUTE-REFRESH) and one or two management actors (AddPath / DeletePath, List*, policy
// replacement + soft resets, Disable/EnablePeer, DeletePeer + AddPeer, UpdatePeer,
// AddVrf / DeleteVrf, watchers that come and go).  The verif yield points are steered
// from the case's seed.  The test binary is built with the race detector.  Oracle:
// no race report and no panic; every API call returns; the scenario reaches
// quiescence (a real-time watchdog catches lock cycles, which virtual time cannot
// pass); after the actors are done every configured, enabled peer can establish a
// session and the server answers; Stop() leaves no goroutine of the bubble behind.

import (
	"context"
	"fmt"
	"net"
	"os"
	"path/filepath"
	"runtime"
	"strconv"
	"strings"
	"sync"
	"testing"
	"testing/synctest"
	"time"

	"github.com/osrg/gobgp/v4/api"
	"github.com/osrg/gobgp/v4/internal/pkg/verifkit"
	"github.com/osrg/gobgp/v4/pkg/apiutil"
	"github.com/osrg/gobgp/v4/pkg/packet/bgp"
	"pgregory.net/rapid"
)

const (
	c20Announce = iota
	c20Withdraw
	c20Burst
	c20Flap
	c20Refresh
	c20PeerOps
)

const (
	c20AddPath = iota
	c20DelPath
	c20List
	c20Policy
	c20SoftReset
	c20Disable
	c20Enable
	c20DeleteAdd
	c20UpdatePeer
	c20Vrf
	c20Watch
	c20Mrt  // EnableMrt / DisableMrt of one of two dump files (updates or table dump); what is enabled at the end stays enabled at Stop
	c20Misc // the rest of the management API: shutdown / hard reset, table and global getters, fine-grained policy objects, peer groups and dynamic neighbours, RPKI listings, log level
	c20MgmtOps
)

type c20Op struct {
	Kind  int `json:"kind"`
	A     int `json:"a"`
	B     int `json:"b"`
	Pause int `json:"pause"` // virtual microseconds before the operation
}

type c20Case struct {
	Peers  []rsPeer  `json:"peers"`
	PeerOp [][]c20Op `json:"peer_ops"` // one list per peer
	Mgmt   [][]c20Op `json:"mgmt"`     // one list per management actor
	Sched  uint64    `json:"sched"`
	// management calls (AddPeer of new neighbours, AddPath, ListPeer) issued while Stop runs: all must return, and
	// nothing they start may survive the stop
	StopRace int `json:"stop_race"`
}

func drawC20(t *rapid.T) c20Case {
	var c c20Case
	np := rapid.IntRange(2, 4).Draw(t, "npeers")
	for i := 0; i < np; i++ {
		l := fmt.Sprintf("p%d", i)
		p := rsPeer{Addr: fmt.Sprintf("10.0.0.%d", i+1), ID: fmt.Sprintf("10.0.0.%d", i+1)}
		p.Kind = rapid.SampledFrom([]int{rsEBGP, rsEBGP, rsIBGP, rsRRClient}).Draw(t, l+"kind")
		p.AS = rsLocalAS
		if p.Kind == rsEBGP {
			p.AS = 65001 + uint32(i)
		}
		p.SendMax = rapid.SampledFrom([]int{0, 0, 1, 2}).Draw(t, l+"sendmax")
		p.AddPathRecv = rapid.IntRange(0, 3).Draw(t, l+"aprecv") == 0
		p.PfxLimit = rapid.SampledFrom([]int{0, 0, 0, 2, 3}).Draw(t, l+"pfxlimit")
		c.Peers = append(c.Peers, p)
	}
	ops := func(l string, kinds, n int) []c20Op {
		var out []c20Op
		for i := 0; i < n; i++ {
			ol := fmt.Sprintf("%s_%d", l, i)
			out = append(out, c20Op{
				Kind:  rapid.IntRange(0, kinds-1).Draw(t, ol+"k"),
				A:     rapid.IntRange(0, 5).Draw(t, ol+"a"),
				B:     rapid.IntRange(0, 5).Draw(t, ol+"b"),
				Pause: rapid.SampledFrom([]int{0, 0, 50, 200, 1000, 20000}).Draw(t, ol+"p"),
			})
		}
		return out
	}
	for i := 0; i < np; i++ {
		c.PeerOp = append(c.PeerOp, ops(fmt.Sprintf("po%d", i), c20PeerOps, rapid.IntRange(2, 10).Draw(t, fmt.Sprintf("npo%d", i))))
	}
	nm := rapid.IntRange(1, 2).Draw(t, "nmgmt")
	for i := 0; i < nm; i++ {
		c.Mgmt = append(c.Mgmt, ops(fmt.Sprintf("mo%d", i), c20MgmtOps, rapid.IntRange(3, 12).Draw(t, fmt.Sprintf("nmo%d", i))))
	}
	c.Sched = uint64(rapid.IntRange(0, 1<<30).Draw(t, "sched"))
	c.StopRace = rapid.SampledFrom([]int{0, 0, 2, 4}).Draw(t, "stop_race")
	return c
}

type c20Run struct {
	c     *c20Case
	n     *simNet
	dir   string // scratch directory for MRT dumps (no time-layout verbs in the path)
	mrtOn map[string]bool
	mu    sync.Mutex
	calls int
	errs  []string
	log   []string
}

func (r *c20Run) logf(f string, a ...any) {
	r.mu.Lock()
	r.log = append(r.log, fmt.Sprintf("[%v] ", r.n.now())+fmt.Sprintf(f, a...))
	r.mu.Unlock()
}

func (r *c20Run) called() {
	r.mu.Lock()
	r.calls++
	r.mu.Unlock()
}

// establishQuiet runs the handshake without assuming the server accepts it (the peer may be
// disabled or deleted at this moment).
func (r *c20Run) establishQuiet(p *rsPeer) *simSess {
	ss := r.n.connect(p.def())
	time.Sleep(2 * time.Millisecond)
	rx, eof, _ := ss.snapshot()
	if eof || len(rx) == 0 || rx[0].Type() != bgp.BGP_MSG_OPEN {
		ss.close()
		return nil
	}
	if ss.send(p.def().open(rsOpenSpec(p)), nil) != nil {
		ss.close()
		return nil
	}
	time.Sleep(2 * time.Millisecond)
	if ss.send(bgp.NewBGPKeepAliveMessage(), nil) != nil {
		ss.close()
		return nil
	}
	time.Sleep(2 * time.Millisecond)
	if _, eof, _ := ss.snapshot(); eof {
		ss.close()
		return nil
	}
	return ss
}

func (r *c20Run) peerActor(i int, wg *sync.WaitGroup) {
	defer wg.Done()
	p := &r.c.Peers[i]
	var ss *simSess
	up := func() bool {
		if ss != nil {
			if _, eof, _ := ss.snapshot(); !eof && ss.wrErr == nil {
				return true
			}
			ss.close()
			ss = nil
		}
		for try := 0; try < 3 && ss == nil; try++ {
			ss = r.establishQuiet(p)
			if ss == nil {
				time.Sleep(3 * time.Second)
			}
		}
		return ss != nil
	}
	tag := uint32(i+1) << 16
	for k, op := range r.c.PeerOp[i] {
		time.Sleep(time.Duration(op.Pause) * time.Microsecond)
		if !up() {
			r.logf("peer %d: op %d skipped, no session", i, k)
			continue
		}
		id := uint32(0)
		if p.AddPathRecv {
			id = uint32(1 + op.B%2)
		}
		switch op.Kind {
		case c20Announce:
			tag++
			_ = ss.send(rsAnnounce(p, false, op.A, id, h01Attrs(p, false, op.B, tag)), rsTxOpt(p))
		case c20Withdraw:
			_ = ss.send(rsWithdraw(false, op.A, id), rsTxOpt(p))
		case c20Burst:
			for j := 0; j < 3+op.B; j++ {
				tag++
				_ = ss.send(rsAnnounce(p, j%2 == 1, (op.A+j)%6, id, h01Attrs(p, j%2 == 1, (op.B+j)%5, tag)), rsTxOpt(p))
			}
		case c20Flap:
			ss.close()
			ss = nil
			time.Sleep(6 * time.Second)
		case c20Refresh:
			_ = ss.send(bgp.NewBGPRouteRefreshMessage(bgp.AFI_IP, 0, bgp.SAFI_UNICAST), nil)
		}
	}
	r.logf("peer actor %d done", i)
}

func (r *c20Run) mgmtActor(m int, wg *sync.WaitGroup) {
	defer wg.Done()
	ctx := context.Background()
	s := r.n.s
	note := func(what string, err error) {
		r.called()
		if err != nil {
			r.logf("mgmt %d: %s: %v", m, what, err)
			if os.Getenv("VERIF_C20_TRACE") != "" {
				fmt.Fprintf(os.Stderr, "mgmt %d: %s: %v\n", m, what, err)
			}
		}
	}
	var watchCancel context.CancelFunc
	for _, op := range r.c.Mgmt[m] {
		time.Sleep(time.Duration(op.Pause) * time.Microsecond)
		target := r.c.Peers[op.A%len(r.c.Peers)]
		switch op.Kind {
		case c20AddPath, c20DelPath:
			nlri, _ := bgp.NewIPAddrPrefix(rsPrefix(false, op.A))
			a := rsAttrs{MED: -1, LocalPref: -1, NextHop: "192.0.2.9", Comms: []uint32{uint32(0x70000 + op.B)}}
			paths := []*apiutil.Path{{Family: bgp.RF_IPv4_UC, Nlri: nlri, Attrs: a.toBGP(nlri, false, 0)}}
			if op.Kind == c20AddPath {
				_, err := s.AddPath(apiutil.AddPathRequest{Paths: paths})
				note("AddPath", err)
			} else {
				note("DeletePath", s.DeletePath(apiutil.DeletePathRequest{Paths: paths}))
			}
		case c20List:
			tt := []api.TableType{api.TableType_TABLE_TYPE_GLOBAL, api.TableType_TABLE_TYPE_ADJ_IN, api.TableType_TABLE_TYPE_ADJ_OUT}[op.B%3]
			req := apiutil.ListPathRequest{TableType: tt, Family: bgp.RF_IPv4_UC}
			if tt != api.TableType_TABLE_TYPE_GLOBAL {
				req.Name = target.Addr
			}
			note("ListPath", s.ListPath(req, func(bgp.NLRI, []*apiutil.Path) {}))
			note("ListPeer", s.ListPeer(ctx, &api.ListPeerRequest{EnableAdvertised: op.B%2 == 0}, func(*api.Peer) {}))
		case c20Policy:
			prog := c15Program{PrefixSets: [][]string{{"10.100.0.0/16 16..24"}, {"10.100.1.0/24"}}}
			prog.Import = c15Dir{Accept: true, Assigned: true, Stmts: []c15Stmt{{PrefixSet: op.B % 2, Neighbor: -1, Comm: -1, PathLenGE: -1, AddComm: op.B % 3, Disp: op.B % 3, SetMed: 5 * (op.B % 2)}}}
			prog.Export = c15Dir{Accept: op.B%4 != 0, Assigned: op.B%2 == 0, Stmts: []c15Stmt{{PrefixSet: -1, Neighbor: -1, Comm: op.B % 3, PathLenGE: -1, AddComm: -1, Disp: 2}}}
			peers := c15Peers()
			req, asg, err := c15Config(&prog, peers[:len(r.c.Peers)])
			if err == nil {
				err = s.SetPolicies(ctx, req)
				for _, a := range asg {
					if err == nil {
						err = s.SetPolicyAssignment(ctx, &api.SetPolicyAssignmentRequest{Assignment: a})
					}
				}
			}
			note("SetPolicies", err)
		case c20SoftReset:
			addr := target.Addr
			if op.B%3 == 0 {
				addr = "all"
			}
			dir := []api.ResetPeerRequest_Direction{api.ResetPeerRequest_DIRECTION_IN, api.ResetPeerRequest_DIRECTION_OUT, api.ResetPeerRequest_DIRECTION_BOTH}[op.B%3]
			note("ResetPeer", s.ResetPeer(ctx, &api.ResetPeerRequest{Address: addr, Soft: true, Direction: dir}))
		case c20Disable:
			note("DisablePeer", s.DisablePeer(ctx, &api.DisablePeerRequest{Address: target.Addr, Communication: "maintenance"}))
		case c20Enable:
			note("EnablePeer", s.EnablePeer(ctx, &api.EnablePeerRequest{Address: target.Addr}))
		case c20DeleteAdd:
			note("DeletePeer", s.DeletePeer(ctx, &api.DeletePeerRequest{Address: target.Addr}))
			time.Sleep(time.Duration(op.B) * 300 * time.Microsecond)
			note("AddPeer", s.AddPeer(ctx, &api.AddPeerRequest{Peer: rsApiPeer(rsGlobal{}, &target)}))
		case c20UpdatePeer:
			ap := rsApiPeer(rsGlobal{}, &target)
			ap.Conf.Description = fmt.Sprintf("rev %d", op.B)
			if op.B%2 == 1 {
				ap.Conf.AllowOwnAsn = uint32(op.B % 3)
			}
			_, err := s.UpdatePeer(ctx, &api.UpdatePeerRequest{Peer: ap, DoSoftResetIn: op.B%3 == 0})
			note("UpdatePeer", err)
		case c20Vrf:
			name := fmt.Sprintf("vrf%d", op.A%2)
			if op.B%2 == 0 {
				rd, _ := bgp.ParseRouteDistinguisher(fmt.Sprintf("65000:%d", 100+op.A%2))
				rt, _ := bgp.ParseRouteTarget(fmt.Sprintf("65000:%d", 100+op.A%2))
				note("AddVrf", s.AddVrf(ctx, &api.AddVrfRequest{Vrf: &api.Vrf{Name: name, Id: uint32(1 + op.A%2),
					Rd: mustRD(rd), ImportRt: mustRTs(rt), ExportRt: mustRTs(rt)}}))
			} else {
				note("DeleteVrf", s.DeleteVrf(ctx, &api.DeleteVrfRequest{Name: name}))
			}
		case c20Mrt:
			file := filepath.Join(r.dir, []string{"table.mrt", "updates.mrt"}[op.A%2])
			r.mu.Lock()
			on := r.mrtOn[file]
			r.mrtOn[file] = !on
			r.mu.Unlock()
			if on {
				note("DisableMrt", s.DisableMrt(ctx, &api.DisableMrtRequest{Filename: file}))
			} else if op.A%2 == 0 {
				note("EnableMrt", s.EnableMrt(ctx, &api.EnableMrtRequest{DumpType: api.EnableMrtRequest_DUMP_TYPE_TABLE, Filename: file, DumpInterval: 60}))
			} else {
				note("EnableMrt", s.EnableMrt(ctx, &api.EnableMrtRequest{DumpType: api.EnableMrtRequest_DUMP_TYPE_UPDATES, Filename: file}))
			}
		case c20Misc:
			switch op.B {
			case 0:
				note("ShutdownPeer", s.ShutdownPeer(ctx, &api.ShutdownPeerRequest{Address: target.Addr, Communication: "bye"}))
			case 1:
				note("ResetPeer(hard)", s.ResetPeer(ctx, &api.ResetPeerRequest{Address: target.Addr, Communication: "reset"}))
			case 2:
				_, err := s.GetTable(ctx, &api.GetTableRequest{TableType: api.TableType_TABLE_TYPE_GLOBAL, Family: &api.Family{Afi: api.Family_AFI_IP, Safi: api.Family_SAFI_UNICAST}})
				note("GetTable", err)
				_, err = s.GetTable(ctx, &api.GetTableRequest{TableType: api.TableType_TABLE_TYPE_ADJ_IN, Family: &api.Family{Afi: api.Family_AFI_IP, Safi: api.Family_SAFI_UNICAST}, Name: target.Addr})
				note("GetTable(adj-in)", err)
				_, err = s.GetBgp(ctx, &api.GetBgpRequest{})
				note("GetBgp", err)
				note("ListVrf", s.ListVrf(ctx, &api.ListVrfRequest{}, func(*api.Vrf) {}))
			case 3:
				name := fmt.Sprintf("misc-ps%d", m)
				ds := &api.DefinedSet{DefinedType: api.DefinedType_DEFINED_TYPE_PREFIX, Name: name, Prefixes: []*api.Prefix{{IpPrefix: "10.100.0.0/16", MaskLengthMin: 16, MaskLengthMax: 24}}}
				note("AddDefinedSet", s.AddDefinedSet(ctx, &api.AddDefinedSetRequest{DefinedSet: ds}))
				note("ListDefinedSet", s.ListDefinedSet(ctx, &api.ListDefinedSetRequest{DefinedType: api.DefinedType_DEFINED_TYPE_PREFIX}, func(*api.DefinedSet) {}))
				stn, pn := fmt.Sprintf("misc-st%d", m), fmt.Sprintf("misc-pol%d", m)
				st := &api.Statement{Name: stn, Conditions: &api.Conditions{PrefixSet: &api.MatchSet{Type: api.MatchSet_TYPE_ANY, Name: name}}, Actions: &api.Actions{RouteAction: api.RouteAction_ROUTE_ACTION_ACCEPT, Med: &api.MedAction{Type: api.MedAction_TYPE_REPLACE, Value: int64(10 + op.A)}}}
				note("AddStatement", s.AddStatement(ctx, &api.AddStatementRequest{Statement: st}))
				note("AddPolicy", s.AddPolicy(ctx, &api.AddPolicyRequest{Policy: &api.Policy{Name: pn, Statements: []*api.Statement{{Name: stn}}}, ReferExistingStatements: true}))
				asg := &api.PolicyAssignment{Name: "global", Direction: api.PolicyDirection_POLICY_DIRECTION_IMPORT, Policies: []*api.Policy{{Name: pn}}, DefaultAction: api.RouteAction_ROUTE_ACTION_ACCEPT}
				note("AddPolicyAssignment", s.AddPolicyAssignment(ctx, &api.AddPolicyAssignmentRequest{Assignment: asg}))
				note("ListPolicy", s.ListPolicy(ctx, &api.ListPolicyRequest{}, func(*api.Policy) {}))
				note("ListStatement", s.ListStatement(ctx, &api.ListStatementRequest{}, func(*api.Statement) {}))
				note("ListPolicyAssignment", s.ListPolicyAssignment(ctx, &api.ListPolicyAssignmentRequest{Name: "global", Direction: api.PolicyDirection_POLICY_DIRECTION_IMPORT}, func(*api.PolicyAssignment) {}))
				time.Sleep(time.Duration(op.A) * 200 * time.Microsecond)
				note("DeletePolicyAssignment", s.DeletePolicyAssignment(ctx, &api.DeletePolicyAssignmentRequest{Assignment: asg}))
				note("DeletePolicy", s.DeletePolicy(ctx, &api.DeletePolicyRequest{Policy: &api.Policy{Name: pn}, PreserveStatements: false, All: true}))
				note("DeleteStatement", s.DeleteStatement(ctx, &api.DeleteStatementRequest{Statement: &api.Statement{Name: stn}, All: true}))
				note("DeleteDefinedSet", s.DeleteDefinedSet(ctx, &api.DeleteDefinedSetRequest{DefinedSet: &api.DefinedSet{DefinedType: api.DefinedType_DEFINED_TYPE_PREFIX, Name: name}, All: true}))
			case 4:
				pg := fmt.Sprintf("misc-pg%d", m)
				g := &api.PeerGroup{Conf: &api.PeerGroupConf{PeerGroupName: pg, PeerAsn: 65090}, Transport: &api.Transport{PassiveMode: true}}
				note("AddPeerGroup", s.AddPeerGroup(ctx, &api.AddPeerGroupRequest{PeerGroup: g}))
				note("AddDynamicNeighbor", s.AddDynamicNeighbor(ctx, &api.AddDynamicNeighborRequest{DynamicNeighbor: &api.DynamicNeighbor{Prefix: fmt.Sprintf("10.9%d.0.0/24", m), PeerGroup: pg}}))
				note("ListPeerGroup", s.ListPeerGroup(ctx, &api.ListPeerGroupRequest{}, func(*api.PeerGroup) {}))
				note("ListDynamicNeighbor", s.ListDynamicNeighbor(ctx, &api.ListDynamicNeighborRequest{}, func(*api.DynamicNeighbor) {}))
				g2 := &api.PeerGroup{Conf: &api.PeerGroupConf{PeerGroupName: pg, PeerAsn: 65090, Description: fmt.Sprintf("rev %d", op.A)}, Transport: &api.Transport{PassiveMode: true}}
				_, err := s.UpdatePeerGroup(ctx, &api.UpdatePeerGroupRequest{PeerGroup: g2})
				note("UpdatePeerGroup", err)
				note("DeleteDynamicNeighbor", s.DeleteDynamicNeighbor(ctx, &api.DeleteDynamicNeighborRequest{Prefix: fmt.Sprintf("10.9%d.0.0/24", m), PeerGroup: pg}))
				note("DeletePeerGroup", s.DeletePeerGroup(ctx, &api.DeletePeerGroupRequest{Name: pg}))
			default:
				note("ListRpki", s.ListRpki(ctx, &api.ListRpkiRequest{}, func(*api.Rpki) {}))
				note("ListRpkiTable", s.ListRpkiTable(ctx, &api.ListRpkiTableRequest{Family: &api.Family{Afi: api.Family_AFI_IP, Safi: api.Family_SAFI_UNICAST}}, func(*api.Roa) {}))
				note("ListBmp", s.ListBmp(ctx, &api.ListBmpRequest{}, func(*api.ListBmpResponse_BmpStation) {}))
				note("SetLogLevel", s.SetLogLevel(ctx, &api.SetLogLevelRequest{Level: []api.SetLogLevelRequest_Level{api.SetLogLevelRequest_LEVEL_ERROR, api.SetLogLevelRequest_LEVEL_WARN}[op.A%2]}))
			}
		case c20Watch:
			if watchCancel != nil {
				watchCancel()
				watchCancel = nil
				continue
			}
			var wctx context.Context
			wctx, watchCancel = context.WithCancel(ctx)
			note("WatchEvent", s.WatchEvent(wctx, WatchEventMessageCallbacks{
				OnPeerUpdate: func(*apiutil.WatchEventMessage_PeerEvent, time.Time) {},
				OnBestPath:   func([]*apiutil.Path, time.Time) {},
				OnPathUpdate: func([]*apiutil.Path, time.Time) {},
			}, WatchPeer(), WatchBestPath(op.B%2 == 0), WatchUpdate(op.B%2 == 1, "", "")))
		}
	}
	if watchCancel != nil {
		watchCancel()
	}
	r.logf("mgmt actor %d done", m)
}

func mustRD(rd bgp.RouteDistinguisherInterface) *api.RouteDistinguisher {
	a, err := apiutil.MarshalRD(rd)
	if err != nil {
		panic(err)
	}
	return a
}

func mustRTs(rt bgp.ExtendedCommunityInterface) []*api.RouteTarget {
	a, err := apiutil.MarshalRTs([]bgp.ExtendedCommunityInterface{rt})
	if err != nil {
		panic(err)
	}
	return a
}

// c20Bubble runs fn in a synctest bubble and gives up after a real-time budget: a lock
// cycle or a goroutine spinning on a lock cannot be passed by the fake clock.
func c20Bubble(t *testing.T, budget time.Duration, fn func() *verifkit.Failure) *verifkit.Failure {
	done := make(chan *verifkit.Failure, 1)
	go func() {
		var inner *verifkit.Failure
		defer func() { done <- inner }()
		defer func() {
			if r := recover(); r != nil {
				buf := make([]byte, 1<<16)
				buf = buf[:runtime.Stack(buf, false)]
				if inner == nil { // (a bubble left with blocked goroutines panics after fn returned its own failure: keep that one)
					inner = &verifkit.Failure{Sig: "panic", Msg: fmt.Sprintf("panic: %v\n%s", r, buf)}
				}
			}
		}()
		synctest.Test(t, func(t *testing.T) {
			defer func() {
				if r := recover(); r != nil {
					buf := make([]byte, 1<<16)
					buf = buf[:runtime.Stack(buf, false)]
					inner = &verifkit.Failure{Sig: "panic", Msg: fmt.Sprintf("panic in scenario: %v\n%s", r, buf)}
				}
			}()
			inner = fn()
		})
	}()
	// A goroutine of the code under test parked on a lock after the budget (and still there five seconds later) is a
	// hang; a scenario that is merely slow on a saturated machine gets ten times the budget and is then given up as
	// inconclusive, never reported.
	lockWaiters := func() (string, []string) {
		buf := make([]byte, 4<<20)
		buf = buf[:runtime.Stack(buf, true)]
		var stuck []string
		for _, g := range strings.Split(string(buf), "\n\n") {
			if !strings.Contains(g, "synctest") || strings.Contains(g, "runtime.Stack(") {
				continue
			}
			if !(strings.Contains(g, "sync.(*Mutex)") || strings.Contains(g, "sync.(*RWMutex)") || strings.Contains(g, "sync.(*WaitGroup)")) {
				continue
			}
			if strings.Contains(g, "/pkg/server.(") || strings.Contains(g, "/internal/pkg/table.(") {
				stuck = append(stuck, g)
			}
		}
		return string(buf), stuck
	}
	for i := 0; i < 10; i++ {
		select {
		case f := <-done:
			return f
		case <-time.After(budget):
		}
		all, stuck := lockWaiters()
		if len(stuck) == 0 {
			continue
		}
		time.Sleep(5 * time.Second)
		if _, again := lockWaiters(); len(again) > 0 {
			if os.Getenv("VERIF_DEBUG_GOROUTINES") != "" {
				fmt.Fprintf(os.Stderr, "%s\n", all)
			}
			return verifkit.Failf("hang", "the scenario did not finish within %v of real time (virtual time cannot advance while a goroutine waits for a lock); goroutines of the code under test waiting for locks:\n%s", time.Duration(i+1)*budget, strings.Join(stuck, "\n\n"))
		}
	}
	select {
	case f := <-done:
		return f
	default:
	}
	fmt.Fprintf(os.Stderr, "C20-WATCHDOG: scenario still running after %v of real time with no goroutine of the code under test waiting for a lock: given up (inconclusive)\n", 10*budget)
	os.Exit(3)
	return nil
}

func runC20(t *testing.T) func(c c20Case, st *verifkit.Stats) *verifkit.Failure {
	return func(c c20Case, st *verifkit.Stats) *verifkit.Failure {
		return c20Bubble(t, 90*time.Second, func() *verifkit.Failure {
			n, err := simStart(rsApiGlobal(rsGlobal{}))
			if err != nil {
				return verifkit.Failf("start", "%v", err)
			}
			defer n.stop()
			r := &c20Run{c: &c, n: n, mrtOn: map[string]bool{}}
			tag := []byte(fmt.Sprintf("%d-%d", os.Getpid(), c19dDirSeq.Add(1)))
			for i := range tag {
				if tag[i] != '-' {
					tag[i] = 'a' + (tag[i] - '0')
				}
			}
			r.dir = filepath.Join(os.TempDir(), "verif-ct-"+string(tag))
			if err := os.MkdirAll(r.dir, 0o755); err != nil {
				return verifkit.Failf("setup", "%v", err)
			}
			defer os.RemoveAll(r.dir)
			if err := rsAddPeers(n, rsGlobal{}, c.Peers); err != nil {
				return verifkit.Failf("addpeer", "%v", err)
			}
			n.settle()
			if simYieldAvailable {
				simYieldInstall(c.Sched)
				defer simYieldInstall(0)
			}
			var wg sync.WaitGroup
			for i := range c.Peers {
				wg.Add(1)
				go r.peerActor(i, &wg)
			}
			for m := range c.Mgmt {
				wg.Add(1)
				go r.mgmtActor(m, &wg)
			}
			wg.Wait()
			n.settle()
			// ---- liveness: the server answers, enabled peers can come up ----
			ctx := context.Background()
			for i := range c.Peers {
				_ = n.s.EnablePeer(ctx, &api.EnablePeerRequest{Address: c.Peers[i].Addr})
				_ = n.s.AddPeer(ctx, &api.AddPeerRequest{Peer: rsApiPeer(rsGlobal{}, &c.Peers[i])}) // no-op (error) when present
			}
			n.advance(8 * time.Second)
			for _, ss := range n.sessions() {
				ss.close()
			}
			// (after an administrative reset the peer stays in Idle for idle-hold-time-after-reset, 30 s by default)
			n.advance(35 * time.Second)
			for i := range c.Peers {
				if _, _, err := n.establish(c.Peers[i].def(), rsOpenSpec(&c.Peers[i])); err != nil {
					return verifkit.Failf("peer-stuck", "peer %d cannot establish a session after the concurrent phase: %v\n  %s", i, err, strings.Join(r.log, "\n  "))
				}
			}
			seen := 0
			if err := n.s.ListPeer(ctx, &api.ListPeerRequest{}, func(*api.Peer) { seen++ }); err != nil || seen != len(c.Peers) {
				return verifkit.Failf("list-peer", "ListPeer after the concurrent phase: %d peers, err %v", seen, err)
			}
			st.SubEval(r.calls)
			if len(c.Mgmt) > 0 && r.calls >= 3 {
				st.Nontrivial()
			}
			// ---- clean shutdown, with management calls racing it ----
			var rwg sync.WaitGroup
			for k := 0; k < c.StopRace; k++ {
				rwg.Add(1)
				go func(k int) {
					defer rwg.Done()
					np := rsPeer{Addr: fmt.Sprintf("10.0.9.%d", k+1), ID: fmt.Sprintf("10.0.9.%d", k+1), Kind: rsEBGP, AS: 65100 + uint32(k)}
					time.Sleep(time.Duration(k*(int(c.Sched%7))) * 30 * time.Microsecond)
					_ = n.s.AddPeer(ctx, &api.AddPeerRequest{Peer: rsApiPeer(rsGlobal{}, &np)})
					_ = n.s.ListPeer(ctx, &api.ListPeerRequest{}, func(*api.Peer) {})
				}(k)
			}
			if c.StopRace > 0 {
				time.Sleep(time.Duration(c.Sched%5) * 30 * time.Microsecond)
			}
			f := n.stop()
			rwg.Wait()
			if f == nil {
				synctest.Wait()
				if left := simLeftover(); len(left) > 0 {
					f = verifkit.Failf("goroutine-leak", "%d goroutine(s) of the server are still alive after Stop and the management calls that raced it:\n%s", len(left), strings.Join(left, "\n\n"))
				}
			}
			if f != nil {
				f.Msg += "\n  " + strings.Join(r.log, "\n  ")
				return f
			}
			return nil
		})
	}
}

func TestVerifC20(t *testing.T) {
	verifkit.Run(t, "C20", drawC20, runC20(t))
}

// Probe (real time, real loopback TCP): a burst of incoming connections arrives while the management loop is busy, so
// that accepted connections pile up between the listener and the management loop (more than the hand-over queue holds),
// and the next management operation is StopBgp: it must return, and so must the call after it.
func init() {
	verifkit.RegisterProbe("C20", "stop-with-pending-accepted-connections", func(st *verifkit.Stats) *verifkit.Failure {
		for round := 0; round < 2; round++ {
			tmp, err := net.Listen("tcp", "127.0.0.1:0")
			if err != nil {
				return nil // no loopback in this environment: nothing to probe
			}
			port := tmp.Addr().(*net.TCPAddr).Port
			_ = tmp.Close()
			s := NewBgpServer()
			go s.Serve()
			ctx := context.Background()
			if err := s.StartBgp(ctx, &api.StartBgpRequest{Global: &api.Global{Asn: 65000, RouterId: "192.0.2.254", ListenPort: int32(port), ListenAddresses: []string{"127.0.0.1"}}}); err != nil {
				s.Stop()
				return nil // the port was taken in between: not what is probed
			}
			entered, release := make(chan struct{}), make(chan struct{})
			opDone := make(chan error, 1)
			go func() {
				opDone <- s.mgmtOperation(func() error { close(entered); <-release; return nil }, true)
			}()
			<-entered
			var conns []net.Conn
			for i := 0; i < 80; i++ {
				c, err := net.DialTimeout("tcp", net.JoinHostPort("127.0.0.1", strconv.Itoa(port)), time.Second)
				if err == nil {
					conns = append(conns, c)
				}
			}
			time.Sleep(200 * time.Millisecond) // the accept loop fills the hand-over queue and blocks on it
			stopDone := make(chan error, 1)
			go func() { stopDone <- s.StopBgp(ctx, &api.StopBgpRequest{}) }()
			time.Sleep(50 * time.Millisecond)
			close(release)
			<-opDone
			closeAll := func() {
				for _, c := range conns {
					_ = c.Close()
				}
			}
			select {
			case <-stopDone:
			case <-time.After(10 * time.Second):
				closeAll()
				return verifkit.Failf("stop-hangs", "round %d: StopBgp does not return within 10 s with %d accepted connections waiting for the management loop", round, len(conns))
			}
			listDone := make(chan struct{})
			go func() {
				_ = s.ListPeer(ctx, &api.ListPeerRequest{}, func(*api.Peer) {})
				close(listDone)
			}()
			select {
			case <-listDone:
			case <-time.After(10 * time.Second):
				closeAll()
				return verifkit.Failf("api-hangs", "round %d: ListPeer after StopBgp does not return within 10 s", round)
			}
			closeAll()
			s.Stop()
			st.SubEval(1)
		}
		st.Nontrivial()
		return nil
	})
}

// c20StopLeavesBmp (real time, no bubble: the BMP client dials a real TCP address): a BMP
// station that cannot be reached keeps its client goroutine in the connect loop; Stop must end it.
func init() {
	verifkit.RegisterProbe("C20", "stop-leaves-bmp-client", func(st *verifkit.Stats) *verifkit.Failure {
		count := func() int {
			buf := make([]byte, 4<<20)
			buf = buf[:runtime.Stack(buf, true)]
			return strings.Count(string(buf), "(*bmpClient).loop")
		}
		before := count()
		s := NewBgpServer()
		go s.Serve()
		ctx := context.Background()
		if err := s.StartBgp(ctx, &api.StartBgpRequest{Global: &api.Global{Asn: 65000, RouterId: "192.0.2.254", ListenPort: -1}}); err != nil {
			return verifkit.Failf("start", "%v", err)
		}
		// port 1 on the loopback: refused at once, the client retries with a growing interval
		if err := s.AddBmp(ctx, &api.AddBmpRequest{Address: "127.0.0.1", Port: 1, Policy: api.AddBmpRequest_MONITORING_POLICY_PRE}); err != nil {
			s.Stop()
			return verifkit.Failf("add-bmp", "%v", err)
		}
		time.Sleep(50 * time.Millisecond)
		if count() <= before {
			s.Stop()
			return verifkit.Failf("probe", "no BMP client goroutine after AddBmp")
		}
		s.Stop()
		deadline := time.Now().Add(8 * time.Second)
		for time.Now().Before(deadline) {
			if count() <= before {
				st.Nontrivial()
				return nil
			}
			time.Sleep(100 * time.Millisecond)
		}
		return verifkit.Failf("goroutine-leak", "the BMP client of an unreachable station is still in its connect loop 8 s after Stop()")
	})
}
