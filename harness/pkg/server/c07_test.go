package server

// C07 — peering sessions follow the RFC 4271 state machine, timers included.
//
// A generated event sequence is applied to a passive peer of a real BgpServer
// running in virtual time; after every event the bytes seen on every transport
// connection (with virtual timestamps), the state reported by ListPeer and the
// peer-state events are compared with a small explicit reference FSM written
// from RFC 4271 section 8 (+ RFC 6608 subcodes, gobgp's documented constants:
// idle hold 5 s, OpenSent hold 240 s, keepalive = negotiated hold / 3).

import (
	"context"
	"fmt"
	"net/netip"
	"testing"
	"time"

	"github.com/osrg/gobgp/v4/api"
	"github.com/osrg/gobgp/v4/internal/pkg/verifkit"
	"github.com/osrg/gobgp/v4/pkg/apiutil"
	"github.com/osrg/gobgp/v4/pkg/packet/bgp"
	"pgregory.net/rapid"
)

const (
	evConnect = iota
	evOpen    // arg: 0 valid, 1 bad version, 2 bad AS, 3 id 0.0.0.0, 4 hold 1, 5 hold 2, 6 id = local id (iBGP only meaningful)
	evKeepalive
	evUpdate
	evRouteRefresh
	evNotification
	evGarbage // arg: 0 bad marker, 1 length 18, 2 length 4097, 3 type 9
	evClose
	evWait // arg: 0 1s, 1 3s, 2 20s, 3 next deadline - 10ms, 4 next deadline + 10ms, 5 250s, 6 6s
	evEnable
	evDisable
	evShutdown
	evReset
	evSoftReset
	evDelete
	numC07Events
)

var c07EvNames = [...]string{"connect", "open", "keepalive", "update", "route-refresh", "notification", "garbage", "close", "wait",
	"enable", "disable", "shutdown", "reset", "soft-reset", "delete"}

type c07Ev struct {
	Kind int `json:"kind"`
	Arg  int `json:"arg"`
}

type c07Case struct {
	IBGP       bool    `json:"ibgp"`
	LocalHold  int     `json:"local_hold"`  // configured hold time (0 = no keepalives)
	RemoteHold int     `json:"remote_hold"` // hold time in the peer's valid OPEN
	PfxLimit   int     `json:"pfx_limit"`   // max-prefixes for IPv4 unicast (0 = none)
	Events     []c07Ev `json:"events"`
	// WideAS: the local AS (and with IBGP the peer's) needs four octets: the OPEN headers carry AS_TRANS and the
	// real number is in the capability
	WideAS bool `json:"wide_as,omitempty"`
}

func (c *c07Case) localAS() uint32 {
	if c.WideAS {
		return 4200000000
	}
	return c07LocalAS
}

func drawC07(t *rapid.T) c07Case {
	c := c07Case{
		IBGP:       rapid.IntRange(0, 3).Draw(t, "ibgp") == 0,
		LocalHold:  rapid.SampledFrom([]int{9, 30, 90, 0, 3}).Draw(t, "local_hold"),
		RemoteHold: rapid.SampledFrom([]int{9, 3, 30, 180, 0, 12}).Draw(t, "remote_hold"),
	}
	c.PfxLimit = rapid.SampledFrom([]int{0, 0, 1, 2}).Draw(t, "pfx_limit")
	c.WideAS = rapid.IntRange(0, 3).Draw(t, "wide_as") == 0
	n := rapid.IntRange(1, 25).Draw(t, "n")
	// weights: make handshakes likely
	pool := []int{evConnect, evConnect, evConnect, evOpen, evOpen, evOpen, evKeepalive, evKeepalive, evKeepalive, evUpdate, evRouteRefresh,
		evNotification, evGarbage, evClose, evWait, evWait, evWait, evEnable, evDisable, evShutdown, evReset, evSoftReset, evDelete}
	// often start with a complete handshake so that the deeper states are explored
	switch rapid.IntRange(0, 3).Draw(t, "prelude") {
	case 0, 1:
		c.Events = append(c.Events, c07Ev{Kind: evConnect}, c07Ev{Kind: evOpen}, c07Ev{Kind: evKeepalive})
	case 2:
		c.Events = append(c.Events, c07Ev{Kind: evConnect}, c07Ev{Kind: evOpen})
	}
	if rapid.Bool().Draw(t, "est_pool") {
		// events that make sense on an established session get more weight
		pool = append(pool, evUpdate, evUpdate, evUpdate, evKeepalive, evWait, evWait, evRouteRefresh, evConnect, evOpen, evKeepalive)
	}
	for i := 0; i < n; i++ {
		e := c07Ev{Kind: rapid.SampledFrom(pool).Draw(t, fmt.Sprintf("k%d", i))}
		switch e.Kind {
		case evOpen:
			e.Arg = rapid.SampledFrom([]int{0, 0, 0, 0, 0, 1, 2, 3, 4, 5, 6}).Draw(t, fmt.Sprintf("a%d", i))
		case evGarbage:
			e.Arg = rapid.IntRange(0, 3).Draw(t, fmt.Sprintf("a%d", i))
		case evWait:
			e.Arg = rapid.SampledFrom([]int{0, 1, 2, 3, 3, 4, 4, 4, 5, 6}).Draw(t, fmt.Sprintf("a%d", i))
		case evNotification:
			e.Arg = rapid.IntRange(0, 1).Draw(t, fmt.Sprintf("a%d", i))
		}
		c.Events = append(c.Events, e)
	}
	return c
}

// ---- reference FSM ----

type c07Expect struct {
	typ       uint8 // message type
	code, sub uint8 // for NOTIFICATION (sub 255 = any)
	at        time.Duration
	anyTime   bool
	optional  bool   // presence not required (unspecified by the RFC), but nothing else may appear instead
	sig       string // signature used when this expectation is not met
}

type c07Conn struct {
	ss       *simSess
	expect   []c07Expect
	seen     int  // messages of ss.rx already matched
	closed   bool // model: server must have closed it
	weClosed bool
}

type c07Model struct {
	st          bgp.FSMState
	adminDown   bool
	exists      bool
	cur         *c07Conn
	idleHold    time.Duration
	idleUntil   time.Duration // valid in Idle with admin up
	holdAt      time.Duration // hold-timer deadline, 0 = none
	kaNext      time.Duration // next keepalive, 0 = none
	kaPeriod    time.Duration
	hold        time.Duration // negotiated hold of the current/last session
	ka          time.Duration
	estCount    int
	updAccepted int
	pfxCt       bool         // shut down by the prefix limit: stays Idle until enabled
	prefixes    map[int]bool // distinct prefixes announced on the current session
}

const c07LocalAS = 65000
const c07LocalID = "192.0.2.254"

type c07Run struct {
	c     *c07Case
	n     *simNet
	m     c07Model
	conns []*c07Conn
	peer  *simPeerDef
	st    *verifkit.Stats
	ctx   context.Context
	evIdx int
	log   []string
}

func (r *c07Run) logf(f string, a ...any) {
	r.log = append(r.log, fmt.Sprintf("[%v ev#%d] ", r.n.now(), r.evIdx)+fmt.Sprintf(f, a...))
}

func (r *c07Run) fail(sig, f string, a ...any) *verifkit.Failure {
	msg := fmt.Sprintf(f, a...)
	hist := ""
	for _, l := range r.log {
		hist += "\n   " + l
	}
	return verifkit.Failf(sig, "%s\n  history:%s", msg, hist)
}

func (r *c07Run) enterIdle(now time.Duration) {
	r.m.prefixes = nil
	r.m.st = bgp.BGP_FSM_IDLE
	r.m.idleUntil = now + r.m.idleHold
	r.m.holdAt, r.m.kaNext = 0, 0
	r.m.cur = nil
}

// expectClose: the server sends (optionally) a NOTIFICATION on the current connection, closes it, goes Idle.
func (r *c07Run) dropSession(now time.Duration, code, sub uint8, withNotif bool, sig string) {
	if r.m.cur != nil {
		if withNotif {
			r.m.cur.expect = append(r.m.cur.expect, c07Expect{typ: bgp.BGP_MSG_NOTIFICATION, code: code, sub: sub, at: now, sig: sig})
		}
		r.m.cur.closed = true
	}
	r.enterIdle(now)
}

func (r *c07Run) negotiated() (time.Duration, time.Duration) {
	local := r.c.LocalHold
	if local == 0 {
		local = 90 // an unset hold time means the documented default (90 s, keepalive 30 s)
	}
	h := local
	if r.c.RemoteHold < h {
		h = r.c.RemoteHold
	}
	// keepalive: configured interval (local hold / 3) unless the negotiated hold is smaller than the configured hold
	ka := local / 3
	if h < local {
		ka = h / 3
	}
	if h == 0 {
		return 0, 0
	}
	if ka == 0 {
		ka = 1
	}
	return time.Duration(h) * time.Second, time.Duration(ka) * time.Second
}

// advanceTimers processes every model timer that fires in (from, to].
func (r *c07Run) advanceTimers(to time.Duration) {
	for {
		next, what := time.Duration(0), ""
		pick := func(t time.Duration, w string) {
			if t != 0 && t <= to && (what == "" || t < next) {
				next, what = t, w
			}
		}
		if r.m.exists && r.m.st == bgp.BGP_FSM_IDLE && !r.m.adminDown && !r.m.pfxCt {
			t := r.m.idleUntil
			if t == 0 {
				t = 1 // immediate
			}
			pick(t, "idle")
		}
		pick(r.m.holdAt, "hold")
		pick(r.m.kaNext, "ka")
		if what == "" {
			return
		}
		switch what {
		case "idle":
			r.m.st = bgp.BGP_FSM_ACTIVE
			r.m.idleUntil = 0
			r.m.idleHold = 5 * time.Second
		case "hold":
			tie := r.m.kaNext == next && r.m.cur != nil
			cur := r.m.cur
			if tie {
				// keepalive and hold timers expire at the same instant: the KEEPALIVE (written by the
				// sender goroutine) may come before or after the NOTIFICATION (written by the FSM goroutine)
				cur.expect = append(cur.expect, c07Expect{typ: bgp.BGP_MSG_KEEPALIVE, at: next, optional: true})
			}
			r.dropSession(next, bgp.BGP_ERROR_HOLD_TIMER_EXPIRED, 0, true, "hold-expiry-notification")
			if tie {
				cur.expect = append(cur.expect, c07Expect{typ: bgp.BGP_MSG_KEEPALIVE, at: next, optional: true})
			}
		case "ka":
			if r.m.cur != nil {
				r.m.cur.expect = append(r.m.cur.expect, c07Expect{typ: bgp.BGP_MSG_KEEPALIVE, at: next, sig: "keepalive-cadence"})
			}
			r.m.kaNext = next + r.m.kaPeriod
		}
	}
}

func (r *c07Run) nextDeadline() time.Duration {
	best := time.Duration(0)
	pick := func(t time.Duration) {
		if t != 0 && (best == 0 || t < best) {
			best = t
		}
	}
	if r.m.exists && r.m.st == bgp.BGP_FSM_IDLE && !r.m.adminDown && !r.m.pfxCt {
		pick(r.m.idleUntil)
	}
	pick(r.m.holdAt)
	return best
}

func c07Update(tag uint32, prefix int) *bgp.BGPMessage {
	n, _ := bgp.NewIPAddrPrefix(netip.PrefixFrom(netip.AddrFrom4([4]byte{10, 7, byte(prefix), 0}), 24))
	nh, _ := bgp.NewPathAttributeNextHop(netip.MustParseAddr("10.0.0.1"))
	attrs := []bgp.PathAttributeInterface{
		bgp.NewPathAttributeOrigin(0),
		bgp.NewPathAttributeAsPath([]bgp.AsPathParamInterface{bgp.NewAs4PathParam(2, []uint32{65001})}),
		nh,
		bgp.NewPathAttributeCommunities([]uint32{tag}),
	}
	return bgp.NewBGPUpdateMessage(nil, attrs, []bgp.PathNLRI{{NLRI: n}})
}

func (r *c07Run) ribHasPeerRoute() (bool, error) {
	found := false
	err := r.n.s.ListPath(apiutil.ListPathRequest{TableType: api.TableType_TABLE_TYPE_GLOBAL, Family: bgp.RF_IPv4_UC}, func(prefix bgp.NLRI, paths []*apiutil.Path) {
		if len(paths) > 0 {
			found = true
		}
	})
	return found, err
}

func (r *c07Run) apply(ev c07Ev) *verifkit.Failure {
	n := r.n
	now := n.now()
	m := &r.m
	name := c07EvNames[ev.Kind]
	sendOnCur := func(raw []byte, msg *bgp.BGPMessage) bool {
		// deliver on the connection the model considers current; false if there is none (nothing to send)
		if m.cur == nil || m.cur.weClosed {
			return false
		}
		var err error
		if raw != nil {
			err = m.cur.ss.sendRaw(raw)
		} else {
			err = m.cur.ss.send(msg, nil)
		}
		if err != nil {
			r.logf("%s: write error %v", name, err)
		}
		return true
	}
	switch ev.Kind {
	case evConnect:
		ss := n.connect(r.peer)
		cc := &c07Conn{ss: ss}
		r.conns = append(r.conns, cc)
		r.logf("connect -> conn#%d (model state %s)", len(r.conns)-1, m.st)
		if m.exists && m.st == bgp.BGP_FSM_ACTIVE && !m.adminDown && !m.pfxCt {
			m.st = bgp.BGP_FSM_OPENSENT
			m.cur = cc
			cc.expect = append(cc.expect, c07Expect{typ: bgp.BGP_MSG_OPEN, at: now, sig: "open-on-connect"})
			m.holdAt = now + 240*time.Second
		} else {
			// Idle / busy / unknown peer: the connection is refused (closed), nothing is sent on it
			cc.closed = true
		}
	case evOpen:
		spec := simOpenSpec{HoldTime: uint16(r.c.RemoteHold), Families: []uint32{uint32(bgp.RF_IPv4_UC)}}
		bad := uint8(0)
		switch ev.Arg {
		case 1:
			spec.Version = 3
			bad = bgp.BGP_ERROR_SUB_UNSUPPORTED_VERSION_NUMBER
		case 2:
			spec.AS = r.peer.AS + 7
			bad = bgp.BGP_ERROR_SUB_BAD_PEER_AS
		case 3:
			spec.ID = "0.0.0.0"
			bad = bgp.BGP_ERROR_SUB_BAD_BGP_IDENTIFIER
		case 4:
			spec.HoldTime = 1
			bad = bgp.BGP_ERROR_SUB_UNACCEPTABLE_HOLD_TIME
		case 5:
			spec.HoldTime = 2
			bad = bgp.BGP_ERROR_SUB_UNACCEPTABLE_HOLD_TIME
		case 6:
			spec.ID = c07LocalID
			if r.c.IBGP {
				bad = bgp.BGP_ERROR_SUB_BAD_BGP_IDENTIFIER
			}
		}
		if !sendOnCur(nil, r.peer.open(spec)) {
			r.logf("open(%d): no connection, skipped", ev.Arg)
			return nil
		}
		r.logf("open(%d) in %s", ev.Arg, m.st)
		switch m.st {
		case bgp.BGP_FSM_OPENSENT:
			if bad != 0 {
				r.dropSession(now, bgp.BGP_ERROR_OPEN_MESSAGE_ERROR, bad, true, "bad-open-notification")
			} else {
				m.st = bgp.BGP_FSM_OPENCONFIRM
				m.cur.expect = append(m.cur.expect, c07Expect{typ: bgp.BGP_MSG_KEEPALIVE, at: now, sig: "keepalive-after-open"})
				m.hold, m.ka = r.negotiated()
				m.holdAt = 0
				if m.hold != 0 {
					m.holdAt = now + m.hold
					m.kaPeriod = m.ka
					m.kaNext = now + m.ka
				}
			}
		case bgp.BGP_FSM_OPENCONFIRM:
			// RFC 4271: collision handling or FSM error; either way this connection goes down
			r.dropSession(now, bgp.BGP_ERROR_FSM_ERROR, 255, true, "unexpected-msg-openconfirm-notification")
		case bgp.BGP_FSM_ESTABLISHED:
			// unspecified by the RFC without CollisionDetectEstablishedState: accept either "ignored" or FSM error
			r.st.Label("open-in-established-unasserted")
			return r.resync("open in established")
		}
	case evKeepalive, evUpdate, evRouteRefresh:
		var msg *bgp.BGPMessage
		switch ev.Kind {
		case evKeepalive:
			msg = bgp.NewBGPKeepAliveMessage()
		case evUpdate:
			msg = c07Update(uint32(0x70000+r.evIdx), r.evIdx%4)
		default:
			msg = bgp.NewBGPRouteRefreshMessage(bgp.AFI_IP, 0, bgp.SAFI_UNICAST)
		}
		if !sendOnCur(nil, msg) {
			r.logf("%s: no connection, skipped", name)
			return nil
		}
		r.logf("%s in %s", name, m.st)
		switch m.st {
		case bgp.BGP_FSM_OPENSENT:
			r.dropSession(now, bgp.BGP_ERROR_FSM_ERROR, 255, true, "unexpected-msg-opensent-notification")
		case bgp.BGP_FSM_OPENCONFIRM:
			if ev.Kind == evKeepalive {
				m.st = bgp.BGP_FSM_ESTABLISHED
				m.estCount++
				if m.hold != 0 {
					m.holdAt = now + m.hold
					m.kaPeriod = m.ka
					m.kaNext = now + m.ka
				} else {
					m.holdAt, m.kaNext = 0, 0
				}
				// End-of-RIB / initial table transfer may follow: UPDATEs are allowed, not required
			} else {
				r.dropSession(now, bgp.BGP_ERROR_FSM_ERROR, 255, true, "unexpected-msg-openconfirm-notification")
			}
		case bgp.BGP_FSM_ESTABLISHED:
			if ev.Kind != evRouteRefresh && m.hold != 0 {
				m.holdAt = now + m.hold
			}
			if ev.Kind == evUpdate {
				m.updAccepted++
				if m.prefixes == nil {
					m.prefixes = map[int]bool{}
				}
				m.prefixes[r.evIdx%4] = true
				if r.c.PfxLimit > 0 && len(m.prefixes) > r.c.PfxLimit {
					// prefix-limit overrun: Cease/Maximum Number of Prefixes Reached, and the peer stays down
					m.pfxCt = true
					r.st.Label("prefix-limit-overrun")
					r.dropSession(now, bgp.BGP_ERROR_CEASE, bgp.BGP_ERROR_SUB_MAXIMUM_NUMBER_OF_PREFIXES_REACHED, true, "prefix-limit-notification")
				}
			}
		}
	case evNotification:
		msg := bgp.NewBGPNotificationMessage(bgp.BGP_ERROR_CEASE, bgp.BGP_ERROR_SUB_PEER_DECONFIGURED, nil)
		if ev.Arg == 1 {
			msg = bgp.NewBGPNotificationMessage(bgp.BGP_ERROR_UPDATE_MESSAGE_ERROR, 1, []byte{1})
		}
		if !sendOnCur(nil, msg) {
			return nil
		}
		r.logf("notification in %s", m.st)
		switch m.st {
		case bgp.BGP_FSM_OPENSENT:
			// RFC 4271 8.2.2 OpenSent: NotifMsg (event 25) is an "any other event": FSM error NOTIFICATION, Idle.
			// Replying to a NOTIFICATION is optional in practice: accept silence too.
			if m.cur != nil {
				m.cur.expect = append(m.cur.expect, c07Expect{typ: bgp.BGP_MSG_NOTIFICATION, code: bgp.BGP_ERROR_FSM_ERROR, sub: 255, at: now, optional: true})
				m.cur.closed = true
			}
			r.enterIdle(now)
		default:
			r.dropSession(now, 0, 0, false, "")
		}
	case evGarbage:
		raw := make([]byte, 19)
		for i := 0; i < 16; i++ {
			raw[i] = 0xff
		}
		raw[16], raw[17], raw[18] = 0, 19, bgp.BGP_MSG_KEEPALIVE
		sub := uint8(0)
		switch ev.Arg {
		case 0:
			raw[3] = 0
			sub = bgp.BGP_ERROR_SUB_CONNECTION_NOT_SYNCHRONIZED
		case 1:
			raw[17] = 18
			sub = bgp.BGP_ERROR_SUB_BAD_MESSAGE_LENGTH
		case 2:
			raw[16], raw[17] = 0x10, 0x01
			sub = bgp.BGP_ERROR_SUB_BAD_MESSAGE_LENGTH
		default:
			raw[18] = 9
			sub = bgp.BGP_ERROR_SUB_BAD_MESSAGE_TYPE
		}
		if !sendOnCur(raw, nil) {
			return nil
		}
		r.logf("garbage(%d) in %s", ev.Arg, m.st)
		if m.st == bgp.BGP_FSM_OPENSENT || m.st == bgp.BGP_FSM_OPENCONFIRM || m.st == bgp.BGP_FSM_ESTABLISHED {
			r.dropSession(now, bgp.BGP_ERROR_MESSAGE_HEADER_ERROR, sub, true, "header-error-notification")
		}
	case evClose:
		if m.cur == nil || m.cur.weClosed {
			return nil
		}
		r.logf("remote close in %s", m.st)
		m.cur.ss.close()
		m.cur.weClosed = true
		r.dropSession(now, 0, 0, false, "")
	case evWait:
		var d time.Duration
		switch ev.Arg {
		case 0:
			d = time.Second
		case 1:
			d = 3 * time.Second
		case 2:
			d = 20 * time.Second
		case 3, 4:
			dl := r.nextDeadline()
			if dl == 0 || dl <= now {
				d = time.Second
			} else if ev.Arg == 3 {
				d = dl - now - 10*time.Millisecond
				if d <= 0 {
					d = time.Millisecond
				}
			} else {
				d = dl - now + 10*time.Millisecond
			}
		case 5:
			d = 250 * time.Second
		default:
			d = 6 * time.Second
		}
		r.logf("wait %v", d)
		n.advance(d)
		r.advanceTimers(n.now())
		return nil
	case evEnable:
		err := n.s.EnablePeer(r.ctx, &api.EnablePeerRequest{Address: r.peer.Addr})
		r.logf("enable in %s adminDown=%v err=%v", m.st, m.adminDown, err)
		if m.exists && (m.adminDown || m.pfxCt) {
			m.adminDown, m.pfxCt = false, false
			m.idleUntil = now + m.idleHold
		}
	case evDisable:
		err := n.s.DisablePeer(r.ctx, &api.DisablePeerRequest{Address: r.peer.Addr})
		r.logf("disable in %s adminDown=%v err=%v", m.st, m.adminDown, err)
		if m.exists && !m.adminDown {
			m.adminDown, m.pfxCt = true, false
			switch m.st {
			case bgp.BGP_FSM_ESTABLISHED:
				r.dropSession(now, bgp.BGP_ERROR_CEASE, bgp.BGP_ERROR_SUB_ADMINISTRATIVE_SHUTDOWN, true, "admin-down-notification")
			case bgp.BGP_FSM_OPENSENT, bgp.BGP_FSM_OPENCONFIRM:
				r.dropSession(now, bgp.BGP_ERROR_CEASE, 255, true, "admin-down-notification-before-established")
			case bgp.BGP_FSM_ACTIVE:
				r.enterIdle(now)
			}
		}
	case evShutdown, evReset:
		sub := uint8(bgp.BGP_ERROR_SUB_ADMINISTRATIVE_SHUTDOWN)
		var err error
		if ev.Kind == evShutdown {
			err = n.s.ShutdownPeer(r.ctx, &api.ShutdownPeerRequest{Address: r.peer.Addr})
		} else {
			sub = bgp.BGP_ERROR_SUB_ADMINISTRATIVE_RESET
			err = n.s.ResetPeer(r.ctx, &api.ResetPeerRequest{Address: r.peer.Addr})
		}
		r.logf("%s in %s err=%v", name, m.st, err)
		if m.exists && m.st == bgp.BGP_FSM_ESTABLISHED {
			if ev.Kind == evReset {
				m.idleHold = 30 * time.Second
			}
			r.dropSession(now, bgp.BGP_ERROR_CEASE, sub, true, "admin-"+name+"-notification")
		}
		// in any other state these operations only emit a NOTIFICATION on an established session: nothing to do
	case evSoftReset:
		err := n.s.ResetPeer(r.ctx, &api.ResetPeerRequest{Address: r.peer.Addr, Soft: true, Direction: api.ResetPeerRequest_DIRECTION_IN})
		r.logf("soft reset in %s err=%v", m.st, err)
	case evDelete:
		err := n.s.DeletePeer(r.ctx, &api.DeletePeerRequest{Address: r.peer.Addr})
		r.logf("delete in %s err=%v", m.st, err)
		if m.exists {
			m.exists = false
			switch m.st {
			case bgp.BGP_FSM_ESTABLISHED:
				r.dropSession(now, bgp.BGP_ERROR_CEASE, bgp.BGP_ERROR_SUB_PEER_DECONFIGURED, true, "deconfigured-notification")
			case bgp.BGP_FSM_OPENSENT, bgp.BGP_FSM_OPENCONFIRM:
				r.dropSession(now, bgp.BGP_ERROR_CEASE, 255, true, "deconfigured-notification-before-established")
			default:
				r.enterIdle(now)
			}
		}
	}
	n.settle()
	r.advanceTimers(n.now())
	return nil
}

// resync adopts the server's reported state after an event whose outcome the RFC leaves open.
func (r *c07Run) resync(why string) *verifkit.Failure {
	r.n.settle()
	defer func() { r.advanceTimers(r.n.now()) }()
	st, _, p := r.n.peerState(r.peer.Addr)
	if p == nil {
		return nil
	}
	if st != api.PeerState_SESSION_STATE_ESTABLISHED && r.m.st == bgp.BGP_FSM_ESTABLISHED {
		now := r.n.now()
		if r.m.cur != nil && r.m.kaNext != 0 && r.m.kaNext <= now+5*time.Millisecond {
			// the keepalive timer expires at the instant the session is torn down: the KEEPALIVE of the sender
			// goroutine may still come out (before or after the NOTIFICATION), as with the hold-timer tie
			r.m.cur.expect = append(r.m.cur.expect, c07Expect{typ: bgp.BGP_MSG_KEEPALIVE, at: r.m.kaNext, optional: true, anyTime: true})
		}
		if r.m.cur != nil {
			r.m.cur.expect = append(r.m.cur.expect, c07Expect{typ: bgp.BGP_MSG_NOTIFICATION, code: bgp.BGP_ERROR_FSM_ERROR, sub: 255, at: now, optional: true, anyTime: true})
			if r.m.kaNext != 0 && r.m.kaNext <= now+5*time.Millisecond {
				r.m.cur.expect = append(r.m.cur.expect, c07Expect{typ: bgp.BGP_MSG_KEEPALIVE, at: r.m.kaNext, optional: true, anyTime: true})
			}
			if r.m.holdAt != 0 && r.m.holdAt <= now+5*time.Millisecond {
				// ... and the hold timer expires at that instant too: its NOTIFICATION may win
				r.m.cur.expect = append(r.m.cur.expect, c07Expect{typ: bgp.BGP_MSG_NOTIFICATION, code: bgp.BGP_ERROR_HOLD_TIMER_EXPIRED, sub: 0, at: r.m.holdAt, optional: true, anyTime: true})
				if r.m.kaNext != 0 && r.m.kaNext <= now+5*time.Millisecond {
					r.m.cur.expect = append(r.m.cur.expect, c07Expect{typ: bgp.BGP_MSG_KEEPALIVE, at: r.m.kaNext, optional: true, anyTime: true})
				}
			}
			r.m.cur.closed = true
		}
		r.enterIdle(now)
	}
	return nil
}

var c07StateMap = map[api.PeerState_SessionState]bgp.FSMState{
	api.PeerState_SESSION_STATE_IDLE:        bgp.BGP_FSM_IDLE,
	api.PeerState_SESSION_STATE_ACTIVE:      bgp.BGP_FSM_ACTIVE,
	api.PeerState_SESSION_STATE_OPENSENT:    bgp.BGP_FSM_OPENSENT,
	api.PeerState_SESSION_STATE_OPENCONFIRM: bgp.BGP_FSM_OPENCONFIRM,
	api.PeerState_SESSION_STATE_ESTABLISHED: bgp.BGP_FSM_ESTABLISHED,
	api.PeerState_SESSION_STATE_CONNECT:     bgp.BGP_FSM_CONNECT,
}

// verify compares everything observed so far with the model.
func (r *c07Run) verify() *verifkit.Failure {
	tol := 3 * time.Millisecond
	for ci, cc := range r.conns {
		rx, eof, _ := cc.ss.snapshot()
		// match messages against expectations, in order
		ei := 0
		for mi := cc.seen; mi < len(rx); mi++ {
			msg := rx[mi]
			// UPDATEs (initial table transfer, End-of-RIB) are allowed on an established session without being predicted
			if msg.Type() == bgp.BGP_MSG_UPDATE && cc == r.lastEstablishedConn() {
				cc.seen = mi + 1
				continue
			}
			// skip optional expectations that did not materialise (and those whose absence is a listed known finding)
			for ei < len(cc.expect) && !c07Matches(cc.expect[ei], msg) &&
				(cc.expect[ei].optional || (cc.expect[ei].sig != "" && r.st.KnownHit(cc.expect[ei].sig, "expected "+c07DescribeExp(cc.expect[ei])+" did not arrive"))) {
				ei++
			}
			if ei >= len(cc.expect) {
				return r.fail("unexpected-message", "conn#%d: unexpected %s at %v (model state %s)", ci, c07Describe(msg), msg.At, r.m.st)
			}
			e := cc.expect[ei]
			if !c07Matches(e, msg) {
				sig := e.sig
				if sig == "" {
					sig = "wrong-message"
				}
				return r.fail(sig, "conn#%d: expected %s, got %s at %v", ci, c07DescribeExp(e), c07Describe(msg), msg.At)
			}
			if !e.anyTime && (msg.At < e.at-tol || msg.At > e.at+tol) {
				return r.fail("timing", "conn#%d: %s arrived at %v, the timers prescribe %v", ci, c07Describe(msg), msg.At, e.at)
			}
			ei++
			cc.seen = mi + 1
		}
		// drop satisfied expectations; anything left and due must have arrived
		rest := cc.expect[ei:]
		cc.expect = nil
		for _, e := range rest {
			if e.optional {
				continue
			}
			if e.at+tol < r.n.now() {
				sig := e.sig
				if sig == "" {
					sig = "missing-message"
				}
				if r.st.KnownHit(sig, fmt.Sprintf("%s prescribed by RFC 4271 never arrived", c07DescribeExp(e))) {
					continue
				}
				return r.fail(sig, "conn#%d: %s prescribed for %v never arrived (now %v, eof=%v)", ci, c07DescribeExp(e), e.at, r.n.now(), eof)
			}
			cc.expect = append(cc.expect, e)
		}
		if cc.closed && !eof && !cc.weClosed {
			return r.fail("not-closed", "conn#%d: the server should have closed this connection (model state %s)", ci, r.m.st)
		}
		if !cc.closed && eof && !cc.weClosed {
			return r.fail("closed-unexpectedly", "conn#%d: the server closed the connection, the reference FSM keeps it (model state %s)", ci, r.m.st)
		}
	}
	st, admin, p := r.n.peerState(r.peer.Addr)
	if !r.m.exists {
		if p != nil {
			return r.fail("deleted-peer-listed", "deleted peer still listed in state %s", st)
		}
		return nil
	}
	if p == nil {
		return r.fail("peer-missing", "peer not listed")
	}
	if got := c07StateMap[st]; got != r.m.st {
		return r.fail("state-mismatch", "ListPeer reports %s, reference FSM is in %s", st, r.m.st)
	}
	wantAdmin := api.PeerState_ADMIN_STATE_UP
	if r.m.adminDown {
		wantAdmin = api.PeerState_ADMIN_STATE_DOWN
	} else if r.m.pfxCt {
		wantAdmin = api.PeerState_ADMIN_STATE_PFX_CT
	}
	if admin != wantAdmin {
		return r.fail("admin-state-mismatch", "ListPeer reports admin state %s, last accepted admin operation implies %s", admin, wantAdmin)
	}
	// routing messages only take effect in Established
	has, _ := r.ribHasPeerRoute()
	if has && r.m.updAccepted == 0 {
		return r.fail("rib-changed-outside-established", "a route is installed although no UPDATE was delivered in Established")
	}
	return nil
}

func (r *c07Run) lastEstablishedConn() *c07Conn {
	if r.m.st == bgp.BGP_FSM_ESTABLISHED {
		return r.m.cur
	}
	return nil
}

func c07Matches(e c07Expect, m simMsg) bool {
	if m.Type() != e.typ {
		return false
	}
	if e.typ == bgp.BGP_MSG_NOTIFICATION {
		if len(m.Raw) < 21 {
			return false
		}
		if m.Raw[19] != e.code {
			return false
		}
		if e.sub != 255 && m.Raw[20] != e.sub {
			return false
		}
	}
	return true
}

func c07Describe(m simMsg) string {
	names := map[uint8]string{1: "OPEN", 2: "UPDATE", 3: "NOTIFICATION", 4: "KEEPALIVE", 5: "ROUTE-REFRESH"}
	if m.Type() == bgp.BGP_MSG_NOTIFICATION && len(m.Raw) >= 21 {
		return fmt.Sprintf("NOTIFICATION %d/%d", m.Raw[19], m.Raw[20])
	}
	return names[m.Type()]
}

func c07DescribeExp(e c07Expect) string {
	if e.typ == bgp.BGP_MSG_NOTIFICATION {
		if e.sub == 255 {
			return fmt.Sprintf("NOTIFICATION %d/any", e.code)
		}
		return fmt.Sprintf("NOTIFICATION %d/%d", e.code, e.sub)
	}
	return c07Describe(simMsg{Raw: append(make([]byte, 18), e.typ)})
}

func runC07(t *testing.T) func(c c07Case, st *verifkit.Stats) *verifkit.Failure {
	return func(c c07Case, st *verifkit.Stats) *verifkit.Failure {
		return simRun(t, func() *verifkit.Failure {
			n, err := simStart(&api.Global{Asn: c.localAS(), RouterId: c07LocalID})
			if err != nil {
				return verifkit.Failf("start", "%v", err)
			}
			defer n.stop()
			r := &c07Run{c: &c, n: n, st: st, ctx: context.Background()}
			r.peer = &simPeerDef{Addr: "10.0.0.1", AS: 65001, ID: "10.0.0.1"}
			if c.IBGP {
				r.peer.AS = c.localAS()
			}
			ka := uint64(c.LocalHold / 3)
			err = n.s.AddPeer(r.ctx, &api.AddPeerRequest{Peer: &api.Peer{
				Conf:      &api.PeerConf{NeighborAddress: r.peer.Addr, PeerAsn: r.peer.AS},
				Transport: &api.Transport{PassiveMode: true},
				Timers:    &api.Timers{Config: &api.TimersConfig{HoldTime: uint64(c.LocalHold), KeepaliveInterval: ka}},
				AfiSafis: []*api.AfiSafi{{
					Config:       &api.AfiSafiConfig{Family: &api.Family{Afi: api.Family_AFI_IP, Safi: api.Family_SAFI_UNICAST}, Enabled: true},
					PrefixLimits: &api.PrefixLimit{Family: &api.Family{Afi: api.Family_AFI_IP, Safi: api.Family_SAFI_UNICAST}, MaxPrefixes: uint32(c.PfxLimit)},
				}},
			}})
			if err != nil {
				return verifkit.Failf("addpeer", "%v", err)
			}
			r.m = c07Model{st: bgp.BGP_FSM_IDLE, exists: true}
			n.settle()
			r.advanceTimers(n.now())
			if f := r.verify(); f != nil {
				return f
			}
			reachedOpenSent, afterward := false, false
			for i, ev := range c.Events {
				r.evIdx = i
				if f := r.apply(ev); f != nil {
					return f
				}
				if f := r.verify(); f != nil {
					return f
				}
				st.SubEval(1)
				if reachedOpenSent && (ev.Kind >= evNotification && ev.Kind != evWait || ev.Kind == evOpen && ev.Arg != 0 || ev.Kind == evWait && ev.Arg >= 3) {
					afterward = true
				}
				if r.m.st >= bgp.BGP_FSM_OPENSENT {
					reachedOpenSent = true
				}
			}
			// let everything prescribed for "now" become overdue, then check once more
			r.evIdx = len(c.Events)
			n.advance(20 * time.Millisecond)
			r.advanceTimers(n.now())
			if f := r.verify(); f != nil {
				return f
			}
			if r.m.estCount > 0 {
				st.Label("reached-established")
			}
			if reachedOpenSent {
				st.Label("reached-opensent")
			}
			if reachedOpenSent && afterward {
				st.Nontrivial()
			}
			if f := n.stop(); f != nil {
				return r.fail(f.Sig, "%s", f.Msg)
			}
			return nil
		})
	}
}

func TestVerifC07(t *testing.T) {
	verifkit.Run(t, "C07", drawC07, runC07(t))
}
