package server

// C14 (wire level) — what a peer without the 4-octet-AS capability is sent loses nothing.
//
// A BgpServer in virtual time holds routes whose AS_PATH and AGGREGATOR carry 4-octet AS
// numbers (added through the API in ONE batch, so that routes sharing an attribute set are
// packed together and, when there are many, split over several UPDATEs).  An observer peer
// without the 4-octet-AS capability (control: with it) receives them.  Every UPDATE is parsed
// under the session's options and each route is reconstructed with this file's own RFC 6793
// section 4.2.3 merge (AS_PATH + AS4_PATH, AGGREGATOR + AS4_AGGREGATOR).  Oracle: for every
// route the reconstruction equals the stored AS_PATH with the local AS prepended, and the
// stored AGGREGATOR; on a 2-octet session no AS number above 65535 appears in AS_PATH /
// AGGREGATOR, AS_TRANS stands in for each of them, AS4_PATH / AS4_AGGREGATOR are present
// exactly when needed; on a 4-octet session neither AS4_* attribute is sent.

import (
	"fmt"
	"net/netip"
	"os"
	"reflect"
	"sort"
	"testing"
	"time"

	"github.com/osrg/gobgp/v4/api"
	"github.com/osrg/gobgp/v4/internal/pkg/verifkit"
	"github.com/osrg/gobgp/v4/pkg/apiutil"
	"github.com/osrg/gobgp/v4/pkg/packet/bgp"
	"pgregory.net/rapid"
)

type c14sSet struct {
	Path    []rsSeg `json:"path"`   // first segment is an AS_SEQUENCE
	AggAS   uint32  `json:"agg_as"` // 0 = no AGGREGATOR
	Count   int     `json:"count"`  // number of prefixes carrying this attribute set
	Variant int     `json:"variant"`
}

type c14sCase struct {
	LocalAS uint32    `json:"local_as"`
	NoAS4   bool      `json:"no_as4"` // the observer lacks the 4-octet-AS capability
	Sets    []c14sSet `json:"sets"`
	// Source: 0 the routes are added through the API; 1 they are learned from a peer without the 4-octet-AS
	// capability, which sends them in the RFC 6793 OLD-speaker form (built here, not by the code under test);
	// 2 as 1, and every UPDATE also carries an attribute RFC 7606 discards (ATOMIC_AGGREGATE with a body);
	// 3 (control) learned from a peer with the capability
	Source int `json:"source,omitempty"`
}

func drawC14s(t *rapid.T) c14sCase {
	c := c14sCase{
		LocalAS: rapid.SampledFrom([]uint32{65000, 65000, 4200000000}).Draw(t, "local_as"),
		NoAS4:   rapid.IntRange(0, 4).Draw(t, "no_as4") != 0,
	}
	asn := func(l string) uint32 {
		return rapid.SampledFrom([]uint32{100, 200, 65010, 23456, 65536, 4200000001, 4200000002, 70000}).Draw(t, l)
	}
	c.Source = rapid.SampledFrom([]int{0, 0, 1, 1, 2, 2, 3}).Draw(t, "source")
	ns := rapid.IntRange(1, 3).Draw(t, "nsets")
	for i := 0; i < ns; i++ {
		l := fmt.Sprintf("s%d", i)
		s := c14sSet{Variant: i}
		nseg := rapid.IntRange(1, 3).Draw(t, l+"nseg")
		for j := 0; j < nseg; j++ {
			seg := rsSeg{T: 2}
			if j > 0 && rapid.Bool().Draw(t, fmt.Sprintf("%sset%d", l, j)) {
				seg.T = 1
			}
			n := rapid.IntRange(1, 4).Draw(t, fmt.Sprintf("%sn%d", l, j))
			for k := 0; k < n; k++ {
				seg.AS = append(seg.AS, asn(fmt.Sprintf("%sa%d_%d", l, j, k)))
			}
			s.Path = append(s.Path, seg)
		}
		if rapid.IntRange(0, 2).Draw(t, l+"agg") != 0 {
			s.AggAS = rapid.SampledFrom([]uint32{64800, 4200000009, 4200000009, 23456, 70000}).Draw(t, l+"aggas")
		}
		// many prefixes: the packer needs several UPDATEs for one attribute set
		s.Count = rapid.SampledFrom([]int{1, 2, 5, 900, 1300, 2100}).Draw(t, l+"count")
		c.Sets = append(c.Sets, s)
	}
	return c
}

type c14sAttrs struct {
	Path  []rsSeg
	AggAS uint32
	Agg   bool
}

func c14sNorm(p []rsSeg) []rsSeg {
	// adjacent AS_SEQUENCE segments are one sequence
	var out []rsSeg
	for _, s := range p {
		if len(s.AS) == 0 {
			continue
		}
		if n := len(out); n > 0 && out[n-1].T == 2 && s.T == 2 {
			out[n-1].AS = append(append([]uint32(nil), out[n-1].AS...), s.AS...)
			continue
		}
		out = append(out, rsSeg{T: s.T, AS: append([]uint32(nil), s.AS...)})
	}
	return out
}

func c14sLen(p []rsSeg) int {
	n := 0
	for _, s := range p {
		switch s.T {
		case 2:
			n += len(s.AS)
		case 1:
			n++
		}
	}
	return n
}

// c14sMerge is RFC 6793 4.2.3: the leading (len(AS_PATH) - len(AS4_PATH)) AS numbers of AS_PATH, then AS4_PATH.
func c14sMerge(asPath, as4 []rsSeg) []rsSeg {
	if len(as4) == 0 {
		return c14sNorm(asPath)
	}
	la, l4 := c14sLen(asPath), c14sLen(as4)
	if la < l4 {
		return c14sNorm(asPath) // AS4_PATH is ignored
	}
	keep := la - l4
	var out []rsSeg
	for _, s := range asPath {
		if keep == 0 {
			break
		}
		switch s.T {
		case 2:
			n := len(s.AS)
			if n > keep {
				n = keep
			}
			out = append(out, rsSeg{T: 2, AS: append([]uint32(nil), s.AS[:n]...)})
			keep -= n
		case 1:
			out = append(out, rsSeg{T: 1, AS: append([]uint32(nil), s.AS...)})
			keep--
		default:
			out = append(out, s)
		}
	}
	return c14sNorm(append(out, as4...))
}

// c14sOldForm is what an OLD speaker relays (RFC 6793 4.2.2): AS_PATH in 2-octet form with AS_TRANS for every wide
// AS number and, when there is one, the AS4_PATH with the true numbers.
func c14sOldForm(path []rsSeg, old bool) []bgp.PathAttributeInterface {
	if !old {
		var ps []bgp.AsPathParamInterface
		for _, sg := range path {
			ps = append(ps, bgp.NewAs4PathParam(sg.T, append([]uint32(nil), sg.AS...)))
		}
		return []bgp.PathAttributeInterface{bgp.NewPathAttributeAsPath(ps)}
	}
	var ps []bgp.AsPathParamInterface
	var p4 []*bgp.As4PathParam
	wide := false
	for _, sg := range path {
		var two []uint16
		for _, a := range sg.AS {
			if a > 65535 {
				wide = true
				two = append(two, bgp.AS_TRANS)
			} else {
				two = append(two, uint16(a))
			}
		}
		ps = append(ps, bgp.NewAsPathParam(sg.T, two))
		p4 = append(p4, bgp.NewAs4PathParam(sg.T, append([]uint32(nil), sg.AS...)))
	}
	out := []bgp.PathAttributeInterface{bgp.NewPathAttributeAsPath(ps)}
	if wide {
		out = append(out, bgp.NewPathAttributeAs4Path(p4))
	}
	return out
}

func c14sOldAggregator(as uint32, old bool) []bgp.PathAttributeInterface {
	addr := netip.MustParseAddr("10.9.9.9")
	if !old {
		a, _ := bgp.NewPathAttributeAggregator(as, addr)
		return []bgp.PathAttributeInterface{a}
	}
	if as > 65535 {
		a, _ := bgp.NewPathAttributeAggregator(uint16(bgp.AS_TRANS), addr)
		a4, _ := bgp.NewPathAttributeAs4Aggregator(as, addr)
		return []bgp.PathAttributeInterface{a, a4}
	}
	a, _ := bgp.NewPathAttributeAggregator(uint16(as), addr)
	return []bgp.PathAttributeInterface{a}
}

func runC14s(t *testing.T) func(c c14sCase, st *verifkit.Stats) *verifkit.Failure {
	return func(c c14sCase, st *verifkit.Stats) *verifkit.Failure {
		return simRun(t, func() *verifkit.Failure {
			n, err := simStart(&api.Global{Asn: c.LocalAS, RouterId: rsRouterID})
			if err != nil {
				return verifkit.Failf("start", "%v", err)
			}
			defer n.stop()
			obs := rsPeer{Addr: "10.0.0.2", ID: "10.0.0.2", Kind: rsEBGP, AS: 65002}
			if err := n.s.AddPeer(t.Context(), &api.AddPeerRequest{Peer: rsApiPeer(rsGlobal{}, &obs)}); err != nil {
				return verifkit.Failf("addpeer", "%v", err)
			}
			n.settle()
			spec := rsOpenSpec(&obs)
			spec.NoAS4 = c.NoAS4
			ss, _, err := n.establish(obs.def(), spec)
			if err != nil {
				return verifkit.Failf("establish", "%v", err)
			}
			// ---- one batch of routes ----
			want := map[string]c14sAttrs{}
			var paths []*apiutil.Path
			idx := 0
			var srcSess *simSess
			src := rsPeer{Addr: "10.0.0.1", ID: "10.0.0.1", Kind: rsEBGP, AS: 65001}
			if c.Source != 0 {
				if err := n.s.AddPeer(t.Context(), &api.AddPeerRequest{Peer: rsApiPeer(rsGlobal{}, &src)}); err != nil {
					return verifkit.Failf("addpeer", "%v", err)
				}
				n.settle()
				sspec := rsOpenSpec(&src)
				sspec.NoAS4 = c.Source != 3
				if srcSess, _, err = n.establish(src.def(), sspec); err != nil {
					return verifkit.Failf("establish", "source: %v", err)
				}
			}
			stored := map[string]c14sAttrs{} // what the tables must hold for a learned route
			for _, s := range c.Sets {
				if c.Source != 0 {
					// the neighbour's own AS first; the rest as drawn
					full := append([]rsSeg{{T: 2, AS: []uint32{src.AS}}}, s.Path...)
					for off := 0; off < s.Count; off += 400 {
						cnt := s.Count - off
						if cnt > 400 {
							cnt = 400
						}
						var nl []bgp.PathNLRI
						for k := 0; k < cnt; k++ {
							pfx := netip.PrefixFrom(netip.AddrFrom4([4]byte{10, byte(20 + idx>>16), byte(idx >> 8), byte(idx)}), 32)
							idx++
							x, _ := bgp.NewIPAddrPrefix(pfx)
							nl = append(nl, bgp.PathNLRI{NLRI: x})
							w := c14sAttrs{Path: c14sNorm(append([]rsSeg{{T: 2, AS: []uint32{c.LocalAS}}}, full...))}
							sw := c14sAttrs{Path: c14sNorm(full)}
							if s.AggAS != 0 {
								w.Agg, w.AggAS = true, s.AggAS
								sw.Agg, sw.AggAS = true, s.AggAS
							}
							want[pfx.String()] = w
							stored[pfx.String()] = sw
						}
						nh, _ := bgp.NewPathAttributeNextHop(netip.MustParseAddr(src.Addr))
						attrs := []bgp.PathAttributeInterface{bgp.NewPathAttributeOrigin(0)}
						attrs = append(attrs, c14sOldForm(full, c.Source != 3)...)
						attrs = append(attrs, nh)
						if c.Source == 2 {
							attrs = append(attrs, bgp.NewPathAttributeUnknown(bgp.BGP_ATTR_FLAG_TRANSITIVE, bgp.BGP_ATTR_TYPE_ATOMIC_AGGREGATE, []byte{1}))
						}
						if s.AggAS != 0 {
							attrs = append(attrs, c14sOldAggregator(s.AggAS, c.Source != 3)...)
						}
						attrs = append(attrs, bgp.NewPathAttributeCommunities([]uint32{uint32(0x140000 | s.Variant)}))
						sort.SliceStable(attrs, func(a, b int) bool { return attrs[a].GetType() < attrs[b].GetType() })
						if err := srcSess.send(bgp.NewBGPUpdateMessage(nil, attrs, nl), &bgp.MarshallingOption{}); err != nil {
							return verifkit.Failf("send", "%v", err)
						}
					}
					continue
				}
				var params []bgp.AsPathParamInterface
				for _, seg := range s.Path {
					params = append(params, bgp.NewAs4PathParam(seg.T, append([]uint32(nil), seg.AS...)))
				}
				for k := 0; k < s.Count; k++ {
					pfx := netip.PrefixFrom(netip.AddrFrom4([4]byte{10, byte(20 + idx>>16), byte(idx >> 8), byte(idx)}), 32)
					idx++
					nlri, _ := bgp.NewIPAddrPrefix(pfx)
					nh, _ := bgp.NewPathAttributeNextHop(netip.MustParseAddr("192.0.2.1"))
					attrs := []bgp.PathAttributeInterface{bgp.NewPathAttributeOrigin(0), bgp.NewPathAttributeAsPath(params), nh,
						bgp.NewPathAttributeCommunities([]uint32{uint32(0x140000 | s.Variant)})}
					w := c14sAttrs{Path: c14sNorm(append([]rsSeg{{T: 2, AS: []uint32{c.LocalAS}}}, s.Path...))}
					if s.AggAS != 0 {
						agg, _ := bgp.NewPathAttributeAggregator(s.AggAS, netip.MustParseAddr("10.9.9.9"))
						attrs = append(attrs, agg)
						w.Agg, w.AggAS = true, s.AggAS
					}
					paths = append(paths, &apiutil.Path{Family: bgp.RF_IPv4_UC, Nlri: nlri, Attrs: attrs})
					want[pfx.String()] = w
				}
			}
			if c.Source == 0 {
				if _, err := n.s.AddPath(apiutil.AddPathRequest{Paths: paths}); err != nil {
					return verifkit.Failf("addpath", "%v", err)
				}
			}
			n.settle()
			n.advance(2 * time.Second)
			if c.Source != 0 {
				// ---- what was learned: the Adj-RIB-In and the Loc-RIB hold the reconstructed attributes ----
				if _, eof, _ := srcSess.snapshot(); eof {
					return verifkit.Failf("session-lost", "the source's session ended (source mode %d)", c.Source)
				}
				for _, tt := range []api.TableType{api.TableType_TABLE_TYPE_ADJ_IN, api.TableType_TABLE_TYPE_GLOBAL} {
					seen := 0
					var f *verifkit.Failure
					name := ""
					if tt == api.TableType_TABLE_TYPE_ADJ_IN {
						name = src.Addr
					}
					_ = n.s.ListPath(apiutil.ListPathRequest{TableType: tt, Family: bgp.RF_IPv4_UC, Name: name}, func(prefix bgp.NLRI, ps []*apiutil.Path) {
						for _, pa := range ps {
							seen++
							w, ok := stored[prefix.String()]
							if !ok || f != nil {
								continue
							}
							g := c14sAttrs{}
							for _, a := range pa.Attrs {
								switch v := a.(type) {
								case *bgp.PathAttributeAsPath:
									var segs []rsSeg
									for _, p := range v.Value {
										segs = append(segs, rsSeg{T: p.GetType(), AS: append([]uint32(nil), p.GetAS()...)})
										if _, two := p.(*bgp.AsPathParam); two {
											f = verifkit.Failf("learned-as-path-2-octet", "%s in %v: the stored AS_PATH still has a 2-octet segment %v", prefix, tt, p)
										}
									}
									g.Path = c14sNorm(segs)
								case *bgp.PathAttributeAggregator:
									g.Agg, g.AggAS = true, v.Value.AS
								case *bgp.PathAttributeAs4Path, *bgp.PathAttributeAs4Aggregator:
									f = verifkit.Failf("learned-as4-attr-kept", "%s in %v: the stored route still carries %v", prefix, tt, a.GetType())
								case *bgp.PathAttributeAtomicAggregate:
									if c.Source == 2 {
										f = verifkit.Failf("discarded-attr-kept", "%s in %v: the malformed ATOMIC_AGGREGATE was kept", prefix, tt)
									}
								}
							}
							if f != nil {
								continue
							}
							if !reflect.DeepEqual(g.Path, w.Path) {
								f = verifkit.Failf("learned-as-path-lost", "%s in %v (source mode %d): stored AS_PATH %v, the OLD speaker's AS_PATH/AS4_PATH stand for %v", prefix, tt, c.Source, g.Path, w.Path)
							} else if g.Agg != w.Agg || g.AggAS != w.AggAS {
								f = verifkit.Failf("learned-aggregator-lost", "%s in %v (source mode %d): stored AGGREGATOR present=%v AS %d, sent present=%v AS %d", prefix, tt, c.Source, g.Agg, g.AggAS, w.Agg, w.AggAS)
							}
						}
					})
					if f != nil {
						return f
					}
					if seen != len(stored) {
						return verifkit.Failf("learned-route-missing", "%v holds %d routes, %d were announced (source mode %d)", tt, seen, len(stored), c.Source)
					}
				}
			}
			// ---- what the observer was sent ----
			rx, eof, _ := ss.snapshot()
			if eof {
				return verifkit.Failf("session-lost", "the observer's session ended")
			}
			opt := &bgp.MarshallingOption{Use2ByteAS: c.NoAS4}
			got := map[string]c14sAttrs{}
			nupd, needed4 := 0, false
			for mi, m := range rx {
				if m.Type() != bgp.BGP_MSG_UPDATE {
					continue
				}
				pm, err := bgp.ParseBGPMessage(m.Raw, opt)
				if err != nil {
					return verifkit.Failf("unparsable", "UPDATE %d does not parse under the session's options (2-octet AS: %v): %v\n%x", mi, c.NoAS4, err, m.Raw)
				}
				u := pm.Body.(*bgp.BGPUpdate)
				if os.Getenv("VERIF_C14_TRACE") != "" {
					fmt.Fprintf(os.Stderr, "observer UPDATE %d at %v: %d nlri %d withdrawn %d attrs len %d\n", mi, m.At, len(u.NLRI), len(u.WithdrawnRoutes), len(u.PathAttributes), len(m.Raw))
				}
				if len(u.NLRI) == 0 {
					continue
				}
				nupd++
				var asPath, as4 []rsSeg
				var agg, agg4 *uint32
				for _, a := range u.PathAttributes {
					switch v := a.(type) {
					case *bgp.PathAttributeAsPath:
						for _, p := range v.Value {
							asPath = append(asPath, rsSeg{T: p.GetType(), AS: append([]uint32(nil), p.GetAS()...)})
							if _, two := p.(*bgp.AsPathParam); two != c.NoAS4 {
								return verifkit.Failf("as-path-width", "UPDATE %d: AS_PATH segment of type %T on a session with 2-octet AS = %v", mi, p, c.NoAS4)
							}
						}
					case *bgp.PathAttributeAs4Path:
						for _, p := range v.Value {
							as4 = append(as4, rsSeg{T: p.Type, AS: append([]uint32(nil), p.AS...)})
						}
					case *bgp.PathAttributeAggregator:
						x := v.Value.AS
						agg = &x
						if (v.Value.Askind == reflect.Uint16) != c.NoAS4 {
							return verifkit.Failf("aggregator-width", "UPDATE %d: AGGREGATOR with %v AS number on a session with 2-octet AS = %v", mi, v.Value.Askind, c.NoAS4)
						}
					case *bgp.PathAttributeAs4Aggregator:
						x := v.Value.AS
						agg4 = &x
					}
				}
				if !c.NoAS4 && (len(as4) > 0 || agg4 != nil) {
					return verifkit.Failf("as4-attrs-to-new-speaker", "UPDATE %d carries AS4_PATH / AS4_AGGREGATOR although the peer announced the 4-octet-AS capability", mi)
				}
				if c.NoAS4 {
					for _, s := range asPath {
						for _, a := range s.AS {
							if a > 65535 {
								return verifkit.Failf("wide-as-on-old-session", "UPDATE %d: AS %d in the AS_PATH of a 2-octet session", mi, a)
							}
						}
					}
				}
				rec := c14sAttrs{Path: c14sMerge(asPath, as4)}
				if agg != nil {
					rec.Agg, rec.AggAS = true, *agg
					if c.NoAS4 && *agg == bgp.AS_TRANS && agg4 != nil {
						rec.AggAS = *agg4
					}
				}
				if len(as4) > 0 || agg4 != nil {
					needed4 = true
				}
				for _, nl := range u.NLRI {
					got[nl.NLRI.String()] = rec
				}
			}
			st.SubEval(len(got))
			nglobal, nout := 0, 0
			_ = n.s.ListPath(apiutil.ListPathRequest{TableType: api.TableType_TABLE_TYPE_GLOBAL, Family: bgp.RF_IPv4_UC}, func(prefix bgp.NLRI, paths []*apiutil.Path) { nglobal++ })
			_ = n.s.ListPath(apiutil.ListPathRequest{TableType: api.TableType_TABLE_TYPE_ADJ_OUT, Family: bgp.RF_IPv4_UC, Name: obs.Addr}, func(prefix bgp.NLRI, paths []*apiutil.Path) { nout++ })
			for pfx, w := range want {
				g, ok := got[pfx]
				if !ok {
					return verifkit.Failf("route-missing", "%s was not sent to the observer (%d UPDATEs, %d of %d routes arrived, Loc-RIB %d, Adj-RIB-Out %d; sets %+v)", pfx, nupd, len(got), len(want), nglobal, nout, c.Sets)
				}
				if !reflect.DeepEqual(g.Path, w.Path) {
					return verifkit.Failf("as-path-lost", "%s (2-octet session: %v): reconstructed AS_PATH %v, stored path with the local AS prepended %v", pfx, c.NoAS4, g.Path, w.Path)
				}
				if g.Agg != w.Agg || g.AggAS != w.AggAS {
					return verifkit.Failf("aggregator-lost", "%s (2-octet session: %v, %d UPDATEs): reconstructed AGGREGATOR present=%v AS %d, stored present=%v AS %d", pfx, c.NoAS4, nupd, g.Agg, g.AggAS, w.Agg, w.AggAS)
				}
			}
			if c.Source == 1 || c.Source == 2 {
				for _, w := range stored {
					wide := w.AggAS > 65535
					for _, sg := range w.Path {
						for _, a := range sg.AS {
							wide = wide || a > 65535
						}
					}
					if wide {
						st.Nontrivial()
						st.Label(fmt.Sprintf("learned-from-old-speaker-mode-%d", c.Source))
						break
					}
				}
			}
			if c.NoAS4 && needed4 && nupd >= 2 {
				st.Nontrivial()
				st.Label("as4-attrs-over-several-updates")
			} else if c.NoAS4 && needed4 {
				st.Nontrivial()
			}
			return n.stop()
		})
	}
}

func TestVerifC14_server(t *testing.T) {
	verifkit.Run(t, "C14_server", drawC14s, runC14s(t))
}
