package server

// C12 — graceful-restart and long-lived-GR stale routes live exactly as long as the RFCs allow.
//
// A scripted peer R (generated GR / LLGR capabilities, N bit, restart time, families
// listed) announces IPv4 and IPv6 routes to a real BgpServer (generated GR / LLGR /
// notification configuration per family), two observers watch: O1 without LLGR, O2
// LLGR-capable.  The session is lost in a generated way (transport close, hold-timer
// expiry, NOTIFICATION with or without the N bit negotiated, hard reset,
// administrative shutdown) and the harness moves through virtual time: right after
// the loss, just before and just after the restart timer, just before and after the
// long-lived timer; or R comes back inside the window, re-announces a subset and
// sends End-of-RIB per family at generated instants (possibly later than the original
// restart time).  At every instant the reference model (RFC 4724 / 8538 / 9494 as
// summarised by the property) says which routes are present, stale, LLGR-stale; the
// Loc-RIB (presence, stale flag, LLGR_STALE community) and both observers' wire
// views are compared with it.

import (
	"context"
	"fmt"
	"sort"
	"strings"
	"testing"
	"time"

	"github.com/osrg/gobgp/v4/api"
	"github.com/osrg/gobgp/v4/internal/pkg/verifkit"
	"github.com/osrg/gobgp/v4/pkg/apiutil"
	"github.com/osrg/gobgp/v4/pkg/packet/bgp"
	"pgregory.net/rapid"
)

const (
	c12Close = iota
	c12HoldExpiry
	c12NotifCease
	c12NotifHardReset
	c12AdminDown
	c12NotifOther
)

type c12Open struct {
	GR     bool    `json:"gr"`
	NBit   bool    `json:"n_bit"`
	Time   int     `json:"time"`
	Fams   [2]bool `json:"fams"` // v4, v6 listed in the GR capability (forwarding bit set)
	LLGR   [2]bool `json:"llgr"`
	LLTime int     `json:"ll_time"`
	// LLTime6 != 0: the long-lived time of IPv6 differs from the one of IPv4 (LLTime)
	LLTime6 int `json:"ll_time6,omitempty"`
}

func (o c12Open) llTime(v6 bool) int {
	if v6 && o.LLTime6 != 0 {
		return o.LLTime6
	}
	return o.LLTime
}

type c12Route struct {
	V6     bool `json:"v6"`
	Prefix int  `json:"prefix"`
	NoLLGR bool `json:"no_llgr"`
	// ID: path identifier (1..3) when R announces with ADD-PATH (case field AddPath), else 0; several entries may
	// then share a prefix, each is one path with its own stale / re-announced fate
	ID int `json:"id,omitempty"`
	// Loop: the route carries the local AS in its AS_PATH: stored in the Adj-RIB-In as rejected, never usable - not when
	// it is retained as stale, marked LLGR-stale or re-read either
	Loop bool `json:"loop,omitempty"`
}

type c12EOR struct {
	V6    bool `json:"v6"`
	After int  `json:"after"` // seconds after the previous step
}

type c12Case struct {
	// server configuration for R
	GR     bool       `json:"cfg_gr"`
	Notif  bool       `json:"cfg_notification"`
	LLGR   bool       `json:"cfg_llgr"`
	MpGR   [2]bool    `json:"cfg_mp_gr"`
	MpLLGR [2]bool    `json:"cfg_mp_llgr"`
	Open   c12Open    `json:"open"`
	Routes []c12Route `json:"routes"`
	Loss   int        `json:"loss"`
	// after the loss
	Reconnect   bool     `json:"reconnect"`
	ReconnectAt int      `json:"reconnect_at"` // seconds after the loss (< restart time)
	Reannounce  []int    `json:"reannounce"`
	EORs        []c12EOR `json:"eors"`
	SecondLoss  bool     `json:"second_loss"` // the transport fails again before End-of-RIB
	// SecondCycle: after R is back and has sent every End-of-RIB its transport fails once more, much later: a complete
	// second restart cycle (restart timer, long-lived window) must run like the first
	SecondCycle bool `json:"second_cycle"`
	OtherSub9   bool `json:"other_sub9"` // the non-Cease NOTIFICATION carries subcode 9 (3/9), the number Hard Reset has under Cease
	// Rival: indexes of routes that a third peer V (no graceful restart, session stays up) announces as well, with a
	// longer AS_PATH: R's route is preferred while it is fresh or merely stale, V's as soon as R's is LLGR-stale
	// ("least preferred") or gone
	Rival []int `json:"rival,omitempty"`
	// AddPath: R's session has ADD-PATH (R sends, the server receives); routes carry path identifiers
	AddPath bool `json:"add_path,omitempty"`
	// Open2 (only with SecondCycle, a reconnect inside the restart window and no second loss): the OPEN of R's second
	// session announces another restart time and other long-lived tuples; the second cycle has to run by these
	Open2 *c12Open `json:"open2,omitempty"`
}

func drawC12(t *rapid.T) c12Case {
	b := func(l string, p int) bool { return rapid.IntRange(0, p).Draw(t, l) != 0 }
	c := c12Case{
		GR: b("cfg_gr", 9), Notif: b("cfg_notif", 1), LLGR: b("cfg_llgr", 1),
		MpGR: [2]bool{b("mpgr4", 3), b("mpgr6", 2)}, MpLLGR: [2]bool{b("mpll4", 2), b("mpll6", 2)},
		Loss: rapid.SampledFrom([]int{c12Close, c12Close, c12HoldExpiry, c12NotifCease, c12NotifCease, c12NotifHardReset, c12AdminDown, c12NotifOther}).Draw(t, "loss"),
	}
	c.Open = c12Open{GR: b("o_gr", 9), NBit: b("o_n", 1), Time: rapid.SampledFrom([]int{4, 12, 30}).Draw(t, "o_time"),
		Fams: [2]bool{b("o_f4", 3), b("o_f6", 2)}, LLGR: [2]bool{b("o_l4", 1), b("o_l6", 1)}, LLTime: rapid.SampledFrom([]int{6, 20}).Draw(t, "o_lltime")}
	c.AddPath = rapid.IntRange(0, 3).Draw(t, "add_path") == 0
	n := rapid.IntRange(1, 5).Draw(t, "nroutes")
	seen := map[string]bool{}
	for i := 0; i < n; i++ {
		l := fmt.Sprintf("r%d", i)
		r := c12Route{V6: rapid.Bool().Draw(t, l+"v6"), Prefix: rapid.IntRange(0, 3).Draw(t, l+"p"), NoLLGR: rapid.IntRange(0, 3).Draw(t, l+"nollgr") == 0}
		if c.AddPath {
			r.Prefix = rapid.IntRange(0, 1).Draw(t, l+"p2") // few prefixes: several identifiers per prefix
			r.ID = rapid.IntRange(1, 3).Draw(t, l+"id")
		}
		r.Loop = rapid.IntRange(0, 5).Draw(t, l+"loop") == 0
		k := fmt.Sprint(r.V6, r.Prefix, r.ID)
		if seen[k] {
			continue
		}
		seen[k] = true
		c.Routes = append(c.Routes, r)
	}
	if !c.AddPath && rapid.Bool().Draw(t, "rivals") {
		for i := range c.Routes {
			if rapid.IntRange(0, 1).Draw(t, fmt.Sprintf("rival%d", i)) == 0 {
				c.Rival = append(c.Rival, i)
			}
		}
	}
	if rapid.IntRange(0, 2).Draw(t, "lltime6") == 0 {
		c.Open.LLTime6 = rapid.SampledFrom([]int{6, 13, 20}).Draw(t, "lltime6_v")
		if c.Open.LLTime6 == c.Open.LLTime {
			c.Open.LLTime6 = 0
		}
	}
	// (the server accepts a new connection only after its idle hold time of 5 s)
	c.OtherSub9 = rapid.Bool().Draw(t, "other_sub9")
	c.Reconnect = rapid.Bool().Draw(t, "reconnect")
	if c.Reconnect {
		// inside the restart window, or two seconds into the long-lived window
		if c.Open.Time >= 12 {
			c.ReconnectAt = rapid.SampledFrom([]int{6, 8, c.Open.Time - 1, c.Open.Time + 8, c.Open.Time + 8}).Draw(t, "reconnect_at")
		} else {
			c.ReconnectAt = c.Open.Time + 8 // (the restart-timer expiry sends the FSM through Idle: 5 s idle hold)
		}
		if c.ReconnectAt > c.Open.Time {
			c.Open.LLTime6 = 0 // (the reconnect positions inside / after the long-lived window assume one window)
		}
		c.SecondCycle = rapid.Bool().Draw(t, "second_cycle")
		for i := range c.Routes {
			if rapid.Bool().Draw(t, fmt.Sprintf("re%d", i)) {
				c.Reannounce = append(c.Reannounce, i)
			}
		}
		c.SecondLoss = rapid.IntRange(0, 3).Draw(t, "second_loss") == 0
		if c.ReconnectAt > c.Open.Time && c.ReconnectAt <= c.Open.Time+c.Open.LLTime+1 {
			// a session that resets again inside the long-lived window before it is synchronised: RFC 9494 lets the
			// running long-lived timers go on and gobgp marks routes only once; what happens to the routes of the short
			// session in between is not pinned down by the property: not generated
			c.SecondLoss = false
		}
		// (inside the restart window, or after every timer of the first cycle has expired: in both cases what the
		// second OPEN changes does not touch routes that are LLGR-stale at that moment)
		if c.SecondCycle && !c.SecondLoss && (c.ReconnectAt <= c.Open.Time || c.ReconnectAt > c.Open.Time+c.Open.LLTime) && c.Open.GR && rapid.Bool().Draw(t, "open2") {
			o2 := c.Open
			o2.Time = rapid.SampledFrom([]int{4, 12, 30}).Draw(t, "o2_time")
			o2.LLGR = [2]bool{b("o2_l4", 1), b("o2_l6", 1)}
			o2.LLTime = rapid.SampledFrom([]int{6, 20}).Draw(t, "o2_lltime")
			o2.LLTime6 = rapid.SampledFrom([]int{0, 6, 13, 20}).Draw(t, "o2_lltime6")
			if o2.LLTime6 == o2.LLTime {
				o2.LLTime6 = 0
			}
			c.Open2 = &o2
		}
		order := rapid.Permutation([]bool{false, true}).Draw(t, "eor_order")
		for i, v6 := range order {
			c.EORs = append(c.EORs, c12EOR{V6: v6, After: rapid.SampledFrom([]int{0, 1, 5, 40}).Draw(t, fmt.Sprintf("eor%d", i))})
		}
	}
	return c
}

// ---- reference model ----

type c12State struct {
	present, stale, llgr bool
}

type c12Model struct {
	c      *c12Case
	routes []c12State
}

func (m *c12Model) grNegotiated() bool { return m.c.GR && m.c.Open.GR }
func (m *c12Model) graceful() bool {
	if !m.grNegotiated() {
		return false
	}
	switch m.c.Loss {
	case c12Close, c12HoldExpiry:
		return true
	case c12NotifCease, c12NotifOther:
		return m.c.Notif && m.c.Open.NBit
	}
	return false // hard reset, administrative shutdown
}
func (m *c12Model) preserved(v6 bool) bool {
	i := 0
	if v6 {
		i = 1
	}
	// the helper keeps what the peer listed; the per-family configuration only decides what
	// the server itself announces
	return m.c.Open.Fams[i]
}
func (m *c12Model) llgrNegotiated() bool {
	return m.grNegotiated() && m.c.LLGR && (m.c.Open.LLGR[0] || m.c.Open.LLGR[1])
}
func (m *c12Model) llgrFamily(v6 bool) bool {
	i := 0
	if v6 {
		i = 1
	}
	return m.llgrNegotiated() && m.c.Open.LLGR[i]
}

func (m *c12Model) atLoss() {
	for i, r := range m.c.Routes {
		if m.graceful() && m.preserved(r.V6) {
			m.routes[i].stale = true
		} else {
			m.routes[i] = c12State{}
		}
	}
}

func (m *c12Model) atRestartTimer() {
	for i, r := range m.c.Routes {
		if !m.routes[i].present {
			continue
		}
		if m.llgrFamily(r.V6) && !r.NoLLGR {
			m.routes[i].llgr = true
		} else {
			m.routes[i] = c12State{}
		}
	}
}

func (m *c12Model) atLLGRTimer() {
	for i := range m.routes {
		m.routes[i] = c12State{}
	}
}

// atLLGRTimerFam: the long-lived timer of one family expired
func (m *c12Model) atLLGRTimerFam(v6 bool) {
	for i, r := range m.c.Routes {
		if r.V6 == v6 {
			m.routes[i] = c12State{}
		}
	}
}

// ---- harness ----

func c12Prefix(r c12Route) string { return rsPrefix(r.V6, r.Prefix).String() }

type c12Run struct {
	c     *c12Case
	n     *simNet
	r     rsPeer
	obs   [3]rsPeer // 0: no LLGR capability, 1: LLGR for both families, 2: LLGR for IPv4 only
	sess  *simSess
	osess [3]*simSess
	views [3]*rsView
	log   []string
	t0    time.Duration // instant of the loss
	st    *verifkit.Stats
	v     rsPeer
	vsess *simSess
	rival map[int]bool
}

func (x *c12Run) logf(f string, a ...any) {
	x.log = append(x.log, fmt.Sprintf("[%v] ", x.n.now()-x.t0)+fmt.Sprintf(f, a...))
}

func (x *c12Run) fail(sig, f string, a ...any) *verifkit.Failure {
	return verifkit.Failf(sig, "%s\n  timeline (relative to the loss):\n   %s", fmt.Sprintf(f, a...), strings.Join(x.log, "\n   "))
}

func (x *c12Run) openSpec(restarting bool) simOpenSpec {
	spec := simOpenSpec{Families: []uint32{uint32(bgp.RF_IPv4_UC), uint32(bgp.RF_IPv6_UC)}, RR: true}
	if x.c.AddPath {
		spec.AddPath = []uint32{uint32(bgp.RF_IPv4_UC)<<8 | uint32(bgp.BGP_ADD_PATH_SEND), uint32(bgp.RF_IPv6_UC)<<8 | uint32(bgp.BGP_ADD_PATH_SEND)}
	}
	if x.c.Loss == c12HoldExpiry && !restarting {
		spec.HoldTime = 9 // the second session negotiates hold time 0: the script sends no KEEPALIVEs
	}
	o := x.c.Open
	if restarting && x.c.Open2 != nil {
		o = *x.c.Open2
	}
	if o.GR {
		g := &simGR{Restarting: restarting, Notification: o.NBit, Time: uint16(o.Time), LLGRTime: uint32(o.LLTime)}
		if o.Fams[0] {
			g.Families = append(g.Families, uint32(bgp.RF_IPv4_UC)<<1|1)
		}
		if o.Fams[1] {
			g.Families = append(g.Families, uint32(bgp.RF_IPv6_UC)<<1|1)
		}
		if o.LLGR[0] {
			g.LLGR = append(g.LLGR, uint32(bgp.RF_IPv4_UC))
			g.LLGRTimes = append(g.LLGRTimes, 0)
		}
		if o.LLGR[1] {
			g.LLGR = append(g.LLGR, uint32(bgp.RF_IPv6_UC))
			g.LLGRTimes = append(g.LLGRTimes, uint32(o.LLTime6))
		}
		spec.GR = g
	}
	return spec
}

func (x *c12Run) apiPeerR() *api.Peer {
	ap := rsApiPeer(rsGlobal{}, &x.r)
	if x.c.Loss == c12HoldExpiry {
		ap.Timers = &api.Timers{Config: &api.TimersConfig{HoldTime: 9, KeepaliveInterval: 3}}
	}
	ap.GracefulRestart = &api.GracefulRestart{Enabled: x.c.GR, RestartTime: 120, NotificationEnabled: x.c.Notif, LonglivedEnabled: x.c.LLGR}
	for i, af := range ap.AfiSafis {
		af.MpGracefulRestart = &api.MpGracefulRestart{Config: &api.MpGracefulRestartConfig{Enabled: x.c.MpGR[i]}}
		af.LongLivedGracefulRestart = &api.LongLivedGracefulRestart{Config: &api.LongLivedGracefulRestartConfig{Enabled: x.c.MpLLGR[i], RestartTime: 100}}
	}
	return ap
}

func (x *c12Run) announce(i int) {
	r := x.c.Routes[i]
	a := rsAttrs{MED: -1, LocalPref: -1, NextHop: "192.0.2.1", ASPath: []rsSeg{{T: 2, AS: []uint32{x.r.AS}}}, Comms: []uint32{uint32(0x10000 + i)}}
	if r.V6 {
		a.NextHop = "2001:db8::1"
	}
	if r.NoLLGR {
		a.Comms = append(a.Comms, uint32(bgp.COMMUNITY_NO_LLGR))
	}
	if r.Loop {
		a.ASPath = []rsSeg{{T: 2, AS: []uint32{x.r.AS, rsLocalAS, 64777}}}
	}
	_ = x.sess.send(rsAnnounce(&x.r, r.V6, r.Prefix, uint32(r.ID), a), rsTxOpt(&x.r))
}

func (x *c12Run) verify(m *c12Model, when string) *verifkit.Failure {
	x.n.settle()
	type got struct{ stale, llgr bool }
	loc := map[string]got{}
	best := map[string]string{}
	for _, fam := range []bgp.Family{bgp.RF_IPv4_UC, bgp.RF_IPv6_UC} {
		_ = x.n.s.ListPath(apiutil.ListPathRequest{TableType: api.TableType_TABLE_TYPE_GLOBAL, Family: fam}, func(prefix bgp.NLRI, paths []*apiutil.Path) {
			if len(paths) > 0 {
				best[prefix.String()] = paths[0].PeerAddress.String()
			}
			for _, pa := range paths {
				if pa.PeerAddress.String() != x.r.Addr {
					continue
				}
				g := got{stale: pa.Stale}
				for _, a := range pa.Attrs {
					if c, ok := a.(*bgp.PathAttributeCommunities); ok {
						for _, v := range c.Value {
							if v == uint32(bgp.COMMUNITY_LLGR_STALE) {
								g.llgr = true
							}
						}
					}
				}
				loc[fmt.Sprintf("%s#%d", prefix.String(), pa.RemoteID)] = g
			}
		})
	}
	var want []string
	for i, r := range x.c.Routes {
		s := m.routes[i]
		p := c12Prefix(r)
		g, ok := loc[fmt.Sprintf("%s#%d", p, r.ID)]
		if r.ID != 0 {
			p = fmt.Sprintf("%s (path id %d)", p, r.ID)
		}
		if s.present {
			want = append(want, fmt.Sprintf("%s stale=%v llgr=%v", p, s.stale, s.llgr))
		}
		switch {
		case s.present && !ok:
			return x.fail("route-missing", "%s: %s must still be in the Loc-RIB (stale=%v llgr-stale=%v) and is gone", when, p, s.stale, s.llgr)
		case !s.present && ok:
			return x.fail("route-kept", "%s: %s must be gone from the Loc-RIB and is still there (stale=%v llgr-stale=%v)", when, p, g.stale, g.llgr)
		case s.present && (g.stale != s.stale):
			return x.fail("stale-flag", "%s: %s has stale=%v, must be %v", when, p, g.stale, s.stale)
		case s.present && (g.llgr != s.llgr):
			return x.fail("llgr-community", "%s: %s carries LLGR_STALE=%v, must be %v", when, p, g.llgr, s.llgr)
		}
		if x.rival[i] {
			wantBest := x.v.Addr
			if s.present && !s.llgr {
				wantBest = x.r.Addr
			}
			if best[p] != wantBest {
				return x.fail("llgr-preference", "%s: the best path of %s is the one from %s, must be the one from %s (R's route present=%v stale=%v llgr-stale=%v; V announces it with a longer AS_PATH)", when, p, best[p], wantBest, s.present, s.stale, s.llgr)
			}
		}
	}
	// observers
	for oi := range x.obs {
		rx, eof, _ := x.osess[oi].snapshot()
		if eof {
			return x.fail("observer", "%s: the session of observer %d ended", when, oi)
		}
		x.views[oi].feed(rx, rsRxOpt(&x.obs[oi]))
		held := map[string]rsViewEntry{}
		for k, e := range x.views[oi].entries {
			held[k.Prefix] = e
		}
		for i, r := range x.c.Routes {
			s := m.routes[i]
			p := c12Prefix(r)
			capable := oi == 1 || (oi == 2 && !r.V6) // LLGR-capable for the family of this route
			if r.ID != 0 {
				// several paths of R per prefix: the observer (no ADD-PATH) is sent the best of them - a path that is
				// not LLGR-stale if there is one; evaluated once per prefix
				first := true
				agg := c12State{llgr: true}
				for j, q := range x.c.Routes {
					if q.V6 != r.V6 || q.Prefix != r.Prefix {
						continue
					}
					if j < i {
						first = false
					}
					if t := m.routes[j]; t.present {
						agg.present = true
						agg.stale = agg.stale || t.stale
						if !t.llgr {
							agg.llgr = false
						}
					}
				}
				if !first {
					continue
				}
				if !agg.present {
					agg.llgr = false
				}
				s = agg
			}
			wantHeld := s.present && (!s.llgr || capable)
			fromV := false
			if x.rival[i] {
				wantHeld, fromV = true, !s.present || s.llgr
			}
			e, ok := held[p]
			if ok && x.rival[i] {
				isV := false
				for _, cv := range e.Attrs.Comms {
					if cv == uint32(0x20000+i) {
						isV = true
					}
				}
				if isV != fromV {
					return x.fail("observer-llgr-preference", "%s: observer %d holds %s from V=%v, must be from V=%v (R's route present=%v stale=%v llgr-stale=%v)", when, oi, p, isV, fromV, s.present, s.stale, s.llgr)
				}
			}
			if wantHeld != ok {
				return x.fail("observer-view", "%s: observer %d (LLGR-capable for the family=%v) holds %s = %v, must be %v (route present=%v stale=%v llgr-stale=%v)", when, oi, capable, p, ok, wantHeld, s.present, s.stale, s.llgr)
			}
			if ok && capable {
				has := false
				for _, cv := range e.Attrs.Comms {
					if cv == uint32(bgp.COMMUNITY_LLGR_STALE) {
						has = true
					}
				}
				if has != (s.llgr && !fromV) {
					return x.fail("observer-llgr-community", "%s: observer 1 holds %s with LLGR_STALE=%v, must be %v", when, p, has, s.llgr)
				}
			}
		}
	}
	sort.Strings(want)
	x.st.SubEval(1)
	x.logf("verified %s: %v", when, want)
	return nil
}

func runC12(t *testing.T) func(c c12Case, st *verifkit.Stats) *verifkit.Failure {
	return func(c c12Case, st *verifkit.Stats) *verifkit.Failure {
		return simRun(t, func() *verifkit.Failure {
			ctx := context.Background()
			n, err := simStart(rsApiGlobal(rsGlobal{}))
			if err != nil {
				return verifkit.Failf("start", "%v", err)
			}
			defer n.stop()
			x := &c12Run{c: &c, n: n, st: st}
			x.r = rsPeer{Addr: "10.0.0.1", ID: "10.0.0.1", Kind: rsEBGP, AS: 65001, AddPathRecv: c.AddPath}
			x.obs = [3]rsPeer{{Addr: "10.0.0.8", ID: "10.0.0.8", Kind: rsEBGP, AS: 65008}, {Addr: "10.0.0.9", ID: "10.0.0.9", Kind: rsEBGP, AS: 65009}, {Addr: "10.0.0.7", ID: "10.0.0.7", Kind: rsEBGP, AS: 65007}}
			if err := n.s.AddPeer(ctx, &api.AddPeerRequest{Peer: x.apiPeerR()}); err != nil {
				return verifkit.Failf("addpeer", "%v", err)
			}
			x.v = rsPeer{Addr: "10.0.0.4", ID: "10.0.0.4", Kind: rsEBGP, AS: 65004}
			if len(c.Rival) > 0 {
				if err := n.s.AddPeer(ctx, &api.AddPeerRequest{Peer: rsApiPeer(rsGlobal{}, &x.v)}); err != nil {
					return verifkit.Failf("addpeer", "%v", err)
				}
			}
			for oi := range x.obs {
				ap := rsApiPeer(rsGlobal{}, &x.obs[oi])
				if oi >= 1 {
					ap.GracefulRestart = &api.GracefulRestart{Enabled: true, RestartTime: 120, LonglivedEnabled: true}
					for _, af := range ap.AfiSafis {
						af.MpGracefulRestart = &api.MpGracefulRestart{Config: &api.MpGracefulRestartConfig{Enabled: true}}
						af.LongLivedGracefulRestart = &api.LongLivedGracefulRestart{Config: &api.LongLivedGracefulRestartConfig{Enabled: true, RestartTime: 1000}}
					}
				}
				if err := n.s.AddPeer(ctx, &api.AddPeerRequest{Peer: ap}); err != nil {
					return verifkit.Failf("addpeer", "%v", err)
				}
			}
			n.settle()
			for oi := range x.obs {
				spec := rsOpenSpec(&x.obs[oi])
				if oi == 2 {
					spec.GR = &simGR{Time: 120, Families: []uint32{uint32(bgp.RF_IPv4_UC)<<1 | 1, uint32(bgp.RF_IPv6_UC)<<1 | 1},
						LLGR: []uint32{uint32(bgp.RF_IPv4_UC)}, LLGRTime: 1000}
				}
				if oi == 1 {
					spec.GR = &simGR{Time: 120, Families: []uint32{uint32(bgp.RF_IPv4_UC)<<1 | 1, uint32(bgp.RF_IPv6_UC)<<1 | 1},
						LLGR: []uint32{uint32(bgp.RF_IPv4_UC), uint32(bgp.RF_IPv6_UC)}, LLGRTime: 1000}
				}
				ss, _, err := n.establish(x.obs[oi].def(), spec)
				if err != nil {
					return verifkit.Failf("establish", "observer %d: %v", oi, err)
				}
				x.osess[oi], x.views[oi] = ss, newRsView()
			}
			ss, _, err := n.establish(x.r.def(), x.openSpec(false))
			if err != nil {
				return verifkit.Failf("establish", "R: %v", err)
			}
			x.sess = ss
			m := &c12Model{c: &c, routes: make([]c12State, len(c.Routes))}
			for i := range c.Routes {
				x.announce(i)
				m.routes[i].present = !c.Routes[i].Loop
			}
			x.rival = map[int]bool{}
			if len(c.Rival) > 0 {
				if x.vsess, _, err = n.establish(x.v.def(), rsOpenSpec(&x.v)); err != nil {
					return verifkit.Failf("establish", "V: %v", err)
				}
				for _, i := range c.Rival {
					r := c.Routes[i]
					a := rsAttrs{MED: -1, LocalPref: -1, NextHop: "192.0.2.4", ASPath: []rsSeg{{T: 2, AS: []uint32{x.v.AS, 64999, 64998}}}, Comms: []uint32{uint32(0x20000 + i)}}
					if r.V6 {
						a.NextHop = "2001:db8::4"
					}
					_ = x.vsess.send(rsAnnounce(&x.v, r.V6, r.Prefix, 0, a), rsTxOpt(&x.v))
					x.rival[i] = true
				}
				st.Label("rival-source")
			}
			// End-of-RIB of the first session
			_ = x.sess.send(bgp.NewEndOfRib(bgp.RF_IPv4_UC), rsTxOpt(&x.r))
			_ = x.sess.send(bgp.NewEndOfRib(bgp.RF_IPv6_UC), rsTxOpt(&x.r))
			x.t0 = n.now()
			if f := x.verify(m, "before the loss"); f != nil {
				return f
			}
			// ---- the loss ----
			switch c.Loss {
			case c12Close:
				x.sess.close()
			case c12HoldExpiry:
				n.advance(9*time.Second + 100*time.Millisecond) // silent: the server's hold timer (9 s) fires
			case c12NotifCease:
				_ = x.sess.send(bgp.NewBGPNotificationMessage(bgp.BGP_ERROR_CEASE, bgp.BGP_ERROR_SUB_ADMINISTRATIVE_RESET, nil), nil)
			case c12NotifOther:
				sub := uint8(bgp.BGP_ERROR_SUB_MALFORMED_ATTRIBUTE_LIST)
				if c.OtherSub9 {
					sub = bgp.BGP_ERROR_SUB_OPTIONAL_ATTRIBUTE_ERROR // 9
				}
				_ = x.sess.send(bgp.NewBGPNotificationMessage(bgp.BGP_ERROR_UPDATE_MESSAGE_ERROR, sub, nil), nil)
			case c12NotifHardReset:
				_ = x.sess.send(bgp.NewBGPNotificationMessage(bgp.BGP_ERROR_CEASE, bgp.BGP_ERROR_SUB_HARD_RESET, nil), nil)
			case c12AdminDown:
				if err := n.s.DisablePeer(ctx, &api.DisablePeerRequest{Address: x.r.Addr}); err != nil {
					return verifkit.Failf("disable", "%v", err)
				}
			}
			n.settle()
			x.t0 = n.now()
			x.logf("session lost (kind %d); graceful=%v", c.Loss, m.graceful())
			m.atLoss()
			st.Label(fmt.Sprintf("graceful-%v", m.graceful()))
			if c.AddPath {
				st.Label("add-path-source")
			}
			if f := x.verify(m, "right after the loss"); f != nil {
				return f
			}
			T := time.Duration(c.Open.Time) * time.Second
			at := func(d time.Duration) { n.advance(x.t0 + d - n.now()) }
			// llgrPhase steps through the long-lived timers of the families (one window, or one per family when the
			// peer announced different times): one second before and after each expiry
			llgrPhase := func(prefix string) *verifkit.Failure {
				type ev struct {
					v6 bool
					d  time.Duration
				}
				var evs []ev
				for _, v6 := range []bool{false, true} {
					if m.llgrFamily(v6) {
						evs = append(evs, ev{v6, time.Duration(c.Open.llTime(v6)) * time.Second})
					}
				}
				sort.Slice(evs, func(i, j int) bool { return evs[i].d < evs[j].d })
				if len(evs) == 2 && evs[0].d != evs[1].d {
					st.Label("llgr-times-differ-per-family")
				}
				for i, e := range evs {
					if i > 0 && evs[i-1].d == e.d {
						continue
					}
					fam := map[bool]string{false: "ipv4", true: "ipv6"}[e.v6]
					at(T + e.d - time.Second)
					if f := x.verify(m, prefix+"one second before the long-lived timer ("+fam+")"); f != nil {
						return f
					}
					at(T + e.d + time.Second)
					m.atLLGRTimerFam(e.v6)
					if i+1 < len(evs) && evs[i+1].d == e.d {
						m.atLLGRTimerFam(evs[i+1].v6)
					}
					if f := x.verify(m, prefix+"one second after the long-lived timer ("+fam+")"); f != nil {
						return f
					}
				}
				return nil
			}
			if !c.Reconnect || !m.graceful() || c.Loss == c12AdminDown {
				at(T - time.Second)
				if f := x.verify(m, "one second before the restart timer"); f != nil {
					return f
				}
				at(T + time.Second)
				if m.graceful() {
					m.atRestartTimer()
				}
				if f := x.verify(m, "one second after the restart timer"); f != nil {
					return f
				}
				if m.llgrNegotiated() && m.graceful() {
					if f := llgrPhase(""); f != nil {
						return f
					}
					st.Label("llgr-window")
				}
				if m.graceful() {
					st.Nontrivial()
				}
				return n.stop()
			}
			// ---- R comes back inside the window ----
			inLLGR := false
			if c.ReconnectAt > c.Open.Time {
				at(T + time.Second)
				m.atRestartTimer()
				if f := x.verify(m, "one second after the restart timer"); f != nil {
					return f
				}
				LL := time.Duration(c.Open.LLTime) * time.Second
				if m.llgrNegotiated() && time.Duration(c.ReconnectAt)*time.Second > T+LL {
					at(T + LL + time.Second)
					m.atLLGRTimer()
					if f := x.verify(m, "one second after the long-lived timer"); f != nil {
						return f
					}
				} else if m.llgrNegotiated() {
					inLLGR = true
					st.Label("reconnect-in-long-lived-window")
				}
			}
			at(time.Duration(c.ReconnectAt) * time.Second)
			ss, _, err = n.establish(x.r.def(), x.openSpec(true))
			if err != nil {
				return x.fail("establish", "R cannot come back %d s after the loss: %v", c.ReconnectAt, err)
			}
			x.sess = ss
			x.logf("R re-established")
			if f := x.verify(m, "after re-establishment"); f != nil {
				return f
			}
			for _, i := range c.Reannounce {
				x.announce(i)
				if c.Routes[i].Loop {
					continue
				}
				if !m.routes[i].present {
					m.routes[i].present = true // family not preserved: simply a new route
				}
				m.routes[i].stale, m.routes[i].llgr = false, false
			}
			if f := x.verify(m, "after the re-announcements"); f != nil {
				return f
			}
			if c.SecondLoss {
				// RFC 4724 4.2: "To deal with possible consecutive restarts, a route (from the
				// peer) previously marked as stale MUST be deleted"; what was re-announced is
				// retained as stale again and the restart timer starts over.
				x.sess.close()
				n.settle()
				t1 := n.now()
				x.logf("second loss")
				for i, r := range c.Routes {
					switch {
					case m.routes[i].present && m.routes[i].stale:
						m.routes[i] = c12State{}
					case m.routes[i].present && m.preserved(r.V6):
						m.routes[i].stale = true
					default:
						m.routes[i] = c12State{}
					}
				}
				if f := x.verify(m, "right after the second loss"); f != nil {
					return f
				}
				n.advance(t1 + T - time.Second - n.now())
				if f := x.verify(m, "one second before the second restart timer"); f != nil {
					return f
				}
				n.advance(2 * time.Second)
				m.atRestartTimer()
				if f := x.verify(m, "one second after the second restart timer"); f != nil {
					return f
				}
				st.Label("second-loss")
				st.Nontrivial()
				return n.stop()
			}
			need := map[bool]bool{}
			for i, v6 := range []bool{false, true} {
				if c.Open.Fams[i] {
					need[v6] = true
				}
			}
			for _, e := range c.EORs {
				if inLLGR && e.After > 1 {
					e.After = 1 // (stay inside the long-lived window: what its expiry does to a peer that is back is another question)
				}
				n.advance(time.Duration(e.After) * time.Second)
				fam := bgp.RF_IPv4_UC
				if e.V6 {
					fam = bgp.RF_IPv6_UC
				}
				_ = x.sess.send(bgp.NewEndOfRib(fam), rsTxOpt(&x.r))
				delete(need, e.V6)
				x.logf("End-of-RIB %s", fam)
				if len(need) == 0 {
					for i := range m.routes {
						if m.routes[i].stale {
							m.routes[i] = c12State{}
						}
					}
				}
				if f := x.verify(m, fmt.Sprintf("after End-of-RIB for %s", fam)); f != nil {
					return f
				}
			}
			// well past every timer of the first session
			n.advance(T + 60*time.Second)
			if f := x.verify(m, "long after"); f != nil {
				return f
			}
			st.Label("reconnected")
			st.Nontrivial()
			if c.SecondCycle && !c.SecondLoss && len(need) == 0 {
				// ---- a second, complete restart cycle ----
				if c.Open2 != nil {
					// ... under what the second session's OPEN announced
					c.Open = *c.Open2
					T = time.Duration(c.Open.Time) * time.Second
					st.Label("second-session-other-capabilities")
				}
				x.sess.close()
				n.settle()
				x.t0 = n.now()
				first := c.Loss
				c.Loss = c12Close // (the model's graceful() looks at the kind of loss)
				x.logf("second cycle: transport lost; graceful=%v", m.graceful())
				m.atLoss()
				if f := x.verify(m, "second cycle, right after the loss"); f != nil {
					return f
				}
				at(T - time.Second)
				if f := x.verify(m, "second cycle, one second before the restart timer"); f != nil {
					return f
				}
				at(T + time.Second)
				if m.graceful() {
					m.atRestartTimer()
				}
				if f := x.verify(m, "second cycle, one second after the restart timer"); f != nil {
					return f
				}
				if m.llgrNegotiated() && m.graceful() {
					if f := llgrPhase("second cycle, "); f != nil {
						return f
					}
				}
				c.Loss = first
				st.Label("second-cycle")
			}
			return n.stop()
		})
	}
}

func TestVerifC12(t *testing.T) {
	verifkit.Run(t, "C12", drawC12, runC12(t))
}

// ---- (d) the restarting speaker withholds its advertisements ----
//
// Peers A and B are configured for graceful restart with the local-restarting state set
// (what gobgpd -r gives) and generated deferral times; C has no GR.  A and B establish
// at generated instants, announce routes and send End-of-RIB at generated instants or
// never.  Reference: a GR peer X gets nothing before T_X = min(instant at which every GR
// peer has sent End-of-RIB, establishment of X + deferral time of X) and holds exactly
// the routes of the others (plus the local one) afterwards; C is served at once.

type c12RestartCase struct {
	Deferral [2]int `json:"deferral"` // seconds
	EstB     int    `json:"est_b"`    // B establishes this many seconds after A
	EOR      [2]int `json:"eor"`      // seconds after the peer's establishment, -1 never
	Routes   [2]int `json:"routes"`   // number of routes announced by A, B
}

func drawC12Restart(t *rapid.T) c12RestartCase {
	return c12RestartCase{
		Deferral: [2]int{rapid.SampledFrom([]int{10, 30}).Draw(t, "da"), rapid.SampledFrom([]int{10, 30, 60}).Draw(t, "db")},
		EstB:     rapid.SampledFrom([]int{0, 5, 20}).Draw(t, "estb"),
		EOR:      [2]int{rapid.SampledFrom([]int{-1, 2, 15, 40}).Draw(t, "eora"), rapid.SampledFrom([]int{-1, 2, 15, 40}).Draw(t, "eorb")},
		Routes:   [2]int{rapid.IntRange(0, 2).Draw(t, "ra"), rapid.IntRange(1, 2).Draw(t, "rb")},
	}
}

func runC12Restart(t *testing.T) func(c c12RestartCase, st *verifkit.Stats) *verifkit.Failure {
	return func(c c12RestartCase, st *verifkit.Stats) *verifkit.Failure {
		return simRun(t, func() *verifkit.Failure {
			ctx := context.Background()
			n, err := simStart(rsApiGlobal(rsGlobal{}))
			if err != nil {
				return verifkit.Failf("start", "%v", err)
			}
			defer n.stop()
			peers := []rsPeer{{Addr: "10.0.0.1", ID: "10.0.0.1", Kind: rsEBGP, AS: 65001}, {Addr: "10.0.0.2", ID: "10.0.0.2", Kind: rsEBGP, AS: 65002}, {Addr: "10.0.0.3", ID: "10.0.0.3", Kind: rsEBGP, AS: 65003}}
			for i := range peers {
				ap := rsApiPeer(rsGlobal{}, &peers[i])
				if i < 2 {
					ap.GracefulRestart = &api.GracefulRestart{Enabled: true, RestartTime: 120, LocalRestarting: true, DeferralTime: uint32(c.Deferral[i])}
					for _, af := range ap.AfiSafis {
						af.MpGracefulRestart = &api.MpGracefulRestart{Config: &api.MpGracefulRestartConfig{Enabled: true}}
					}
				}
				if err := n.s.AddPeer(ctx, &api.AddPeerRequest{Peer: ap}); err != nil {
					return verifkit.Failf("addpeer", "%v", err)
				}
			}
			// a locally originated route
			nlri, _ := bgp.NewIPAddrPrefix(rsPrefix(false, 5))
			la := rsAttrs{MED: -1, LocalPref: -1, NextHop: "192.0.2.9"}
			if _, err := n.s.AddPath(apiutil.AddPathRequest{Paths: []*apiutil.Path{{Family: bgp.RF_IPv4_UC, Nlri: nlri, Attrs: la.toBGP(nlri, false, 0)}}}); err != nil {
				return verifkit.Failf("addpath", "%v", err)
			}
			n.settle()
			t0 := n.now()
			var log []string
			logf := func(f string, a ...any) { log = append(log, fmt.Sprintf("[%v] ", n.now()-t0)+fmt.Sprintf(f, a...)) }
			fail := func(sig, f string, a ...any) *verifkit.Failure {
				return verifkit.Failf(sig, "%s\n  timeline:\n   %s", fmt.Sprintf(f, a...), strings.Join(log, "\n   "))
			}
			grSpec := func(p *rsPeer) simOpenSpec {
				spec := rsOpenSpec(p)
				spec.GR = &simGR{Time: 120, Families: []uint32{uint32(bgp.RF_IPv4_UC)<<1 | 1, uint32(bgp.RF_IPv6_UC)<<1 | 1}}
				return spec
			}
			sess := make([]*simSess, 3)
			views := []*rsView{newRsView(), newRsView(), newRsView()}
			est := [2]time.Duration{0, time.Duration(c.EstB) * time.Second}
			// events in time order
			type ev struct {
				at   time.Duration
				what string
				peer int
			}
			var evs []ev
			for i := 0; i < 2; i++ {
				evs = append(evs, ev{est[i], "establish", i})
				if c.EOR[i] >= 0 {
					evs = append(evs, ev{est[i] + time.Duration(c.EOR[i])*time.Second, "eor", i})
				}
			}
			evs = append(evs, ev{time.Second, "establish", 2})
			for _, o := range []int{1, 9, 11, 16, 25, 29, 31, 36, 41, 51, 61, 75, 85} {
				evs = append(evs, ev{time.Duration(o)*time.Second + 500*time.Millisecond, "observe", -1})
			}
			sort.SliceStable(evs, func(i, j int) bool { return evs[i].at < evs[j].at })
			// reference instants
			never := time.Duration(1 << 60)
			eorAt := [2]time.Duration{never, never}
			for i := 0; i < 2; i++ {
				if c.EOR[i] >= 0 {
					eorAt[i] = est[i] + time.Duration(c.EOR[i])*time.Second
				}
			}
			tAll := max(eorAt[0], eorAt[1])
			tX := [2]time.Duration{}
			for i := 0; i < 2; i++ {
				tX[i] = min(tAll, est[i]+time.Duration(c.Deferral[i])*time.Second)
			}
			announced := [2]bool{}
			for _, e := range evs {
				n.advance(t0 + e.at - n.now())
				switch e.what {
				case "establish":
					spec := rsOpenSpec(&peers[e.peer])
					if e.peer < 2 {
						spec = grSpec(&peers[e.peer])
					}
					ss, _, err := n.establish(peers[e.peer].def(), spec)
					if err != nil {
						return fail("establish", "peer %d: %v", e.peer, err)
					}
					sess[e.peer] = ss
					logf("peer %d established", e.peer)
					if e.peer < 2 {
						for k := 0; k < c.Routes[e.peer]; k++ {
							a := rsAttrs{MED: -1, LocalPref: -1, NextHop: "192.0.2.1", ASPath: []rsSeg{{T: 2, AS: []uint32{peers[e.peer].AS}}}}
							_ = ss.send(rsAnnounce(&peers[e.peer], false, e.peer*2+k, 0, a), rsTxOpt(&peers[e.peer]))
						}
						announced[e.peer] = true
					}
				case "eor":
					_ = sess[e.peer].send(bgp.NewEndOfRib(bgp.RF_IPv4_UC), rsTxOpt(&peers[e.peer]))
					_ = sess[e.peer].send(bgp.NewEndOfRib(bgp.RF_IPv6_UC), rsTxOpt(&peers[e.peer]))
					logf("peer %d sends End-of-RIB", e.peer)
				case "observe":
					n.settle()
					for i := 0; i < 3; i++ {
						if sess[i] == nil {
							continue
						}
						rx, eof, _ := sess[i].snapshot()
						if eof {
							return fail("session", "peer %d session ended", i)
						}
						views[i].feed(rx, rsRxOpt(&peers[i]))
						want := map[string]bool{}
						served := i == 2 || e.at >= tX[i]
						if served {
							want[rsPrefix(false, 5).String()] = true
							for j := 0; j < 2; j++ {
								if j != i && announced[j] {
									for k := 0; k < c.Routes[j]; k++ {
										want[rsPrefix(false, j*2+k).String()] = true
									}
								}
							}
						}
						got := map[string]bool{}
						for k := range views[i].entries {
							got[k.Prefix] = true
						}
						st.SubEval(1)
						for p := range got {
							if !want[p] {
								if !served {
									return fail("advertised-while-deferring", "at %v peer %d already holds %s; the server is restarting and must withhold its advertisements until %v (every GR peer sent End-of-RIB at %v, deferral of this peer ends at %v)", e.at, i, p, tX[i], tAll, est[i]+time.Duration(c.Deferral[i])*time.Second)
								}
								return fail("restart-view-extra", "at %v peer %d holds %s", e.at, i, p)
							}
						}
						for p := range want {
							if !got[p] {
								return fail("not-advertised-after-deferral", "at %v peer %d (served since %v) was not told about %s", e.at, i, map[bool]any{true: tX[min(i, 1)], false: "its establishment"}[i < 2], p)
							}
						}
					}
					logf("observed")
				}
			}
			if tX[0] > est[0]+2*time.Second || tX[1] > est[1]+2*time.Second {
				st.Nontrivial()
			}
			return n.stop()
		})
	}
}

func TestVerifC12_restart(t *testing.T) {
	verifkit.Run(t, "C12_restart", drawC12Restart, runC12Restart(t))
}
