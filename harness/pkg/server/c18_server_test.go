package server

// C18 (server half) — policy objects and routes survive the API in both directions.
//
// C18_policy: generated defined sets (prefix / neighbor / as-path / community /
// ext-community / large-community), statements with every condition and action
// the API defines (including the next-hop list condition), policies and policy
// assignments are added through AddDefinedSet / AddStatement / AddPolicy /
// AddPolicyAssignment and read back with the List* calls.  The oracle is
// equality of the generated fields after the normalisation the documentation
// defines (docs/sources/policy.md): a plain community / large community value
// is an exact match ("65100:10" == "^65100:10$"), well-known community names and
// decimal community numbers mean their AA:NN value, "_" in an as-path pattern
// abbreviates "(^|[,{}() ]|$)", the sub-type keyword of an extended community is
// case-insensitive, list order inside a defined set carries no meaning (any /
// all / invert are symmetric), neighbour and prefix entries are compared as
// masked prefixes, an absent Conditions/Actions message equals an empty one.
// The expected strings are computed by the generator from these rules, never by
// calling the parser under test.
//
// C18_path: routes of several families with generated attribute sets are added
// the way the gRPC AddPath handler does it (api.Path -> api2apiutilPath ->
// BgpServer.AddPath) and read back the way ListPath does it (BgpServer.ListPath ->
// toPathApi).  Each listed route must carry the same NLRI, family, path
// identifier and attribute bytes.  Excluded, because the server rebuilds or
// derives them for locally originated routes (apiutil2Path / fixupApiPath):
//   - NEXT_HOP / MP_REACH_NLRI: apiutil2Path drops both and builds NEXT_HOP
//     (IPv4 unicast with IPv4 next hop) or an MP_REACH_NLRI holding the route's
//     own NLRI; the expected attribute is built by the oracle from the next hop
//     that was sent, so the next hop itself is still compared;
//   - attribute order: attributes are compared as a set keyed by type code (both
//     lists are sorted by type before the comparison);
//   - EVPN Ethernet Segment routes get an ES-Import route target derived from
//     the ESI (RFC 7432 7.6) when none was given: added to the expectation;
//   - EVPN MAC/IP routes may get a MAC Mobility community when the RIB already
//     holds the MAC (RFC 7432 15): at most one such route per case is generated;
//   - age, UUID, local identifier, best/validation flags: state of the RIB.
// Attributes whose API conversion alone is lossy (C18_attr territory, see
// pkg/apiutil KnownIssues) are left out of the generated sets: this check is
// about what the server adds on top of the conversion.  Routes whose RIB key
// does not include every NLRI field (labelled, VPN, EVPN, VPLS, MUP) are
// limited to one per family and case: a second one would legitimately replace
// the first.
//
// C18_peer (the "neighbour configuration" clause of the property): a generated
// api.Peer goes through newNeighborFromAPIStruct (what AddPeer/UpdatePeer do)
// and back through oc.NewPeerFromConfigStruct (what ListPeer does); every
// configuration field that was set must come back with the same value.
//
// Recipes are longer than the usual 40..240 numbers for C18_policy and C18_path:
// one case builds up to 7 defined sets + 4 statements, or up to 4 routes.
// Every case starts and stops its own BgpServer (about 12-25 ms).
// VERIF_C18_SURVEY / VERIF_C18_UNMASK work as in pkg/apiutil/c18_test.go;
// TestVerifC18ServerProbes runs the minimal reproducer of every known issue.

import (
	"bytes"
	"context"
	"fmt"
	"net"
	"net/netip"
	"os"
	"runtime"
	"sort"
	"strings"
	"sync"
	"testing"
	"time"

	"github.com/osrg/gobgp/v4/api"
	"github.com/osrg/gobgp/v4/internal/pkg/table"
	"github.com/osrg/gobgp/v4/internal/pkg/verifgen"
	"github.com/osrg/gobgp/v4/internal/pkg/verifkit"
	"github.com/osrg/gobgp/v4/pkg/apiutil"
	"github.com/osrg/gobgp/v4/pkg/config/oc"
	"github.com/osrg/gobgp/v4/pkg/packet/bgp"
	"google.golang.org/protobuf/proto"
	"google.golang.org/protobuf/reflect/protoreflect"
	"pgregory.net/rapid"
)

// C18KnownIssues: shapes for which the unchanged tree fails the round trip
// (true = a failing case that has the shape is counted as excluded).  Named
// with the property prefix because package server is shared with other checks.
// Every key is documented in c18ServerNotes and has a probe of the same name.
var C18KnownIssues = map[string]bool{
	"policy-zero-value-dropped":           true,
	"peer-field-lost/conf.send_community": true,
}

// c18ServerFixed lists the former C18KnownIssues keys that were repaired in gobgp (key -> subject
// of the fixing commit).  Their masks are gone and their probes are kept as regression tests:
// they must pass.  (peer-field-lost/graceful_restart.mode was a false alarm of this harness: the
// field is operational state - oc.GracefulRestartState.Mode, bgp-op:mode - like local_restarting
// and peer_restarting, nothing promises that it can be configured; it is no longer generated.)
var c18ServerFixed = map[string]string{
	"policy-origin-condition-not-listed":                                                     "fix: policy: list the origin condition of a statement",
	"policy-empty-community-action":                                                          "fix: ListStatement: keep a community action with an empty community list",
	"policy-med-mod-zero":                                                                    "fix: policy: a MED modification by zero is not listed as 'replace with 0'",
	"policy-as4-plain-number-clamped":                                                        "fix: a 4-octet AS written as a plain number in an extended community text is not clamped to 65535",
	"policy-list-statement-community-action-type":                                            "fix: ListStatement: action type of ext-community and large-community actions",
	"path-link-local-next-hop-dropped":                                                       "fix: AddPath keeps the link-local next hop of MP_REACH_NLRI",
	"peer-field-lost/graceful_restart.stale_routes_time":                                     "fix: keep graceful_restart.stale_routes_time of a neighbour",
	"peer-field-lost/transport.mtu_discovery":                                                "fix: keep transport.mtu_discovery of a neighbour",
	"peer-field-lost/route_reflector.route_reflector_cluster_id":                             "fix: ListPeer reports a configured route reflector cluster id",
	"peer-field-lost/timers.config.minimum_advertisement_interval":                           "fix: ListPeer/ListPeerGroup report the minimum advertisement interval",
	"peer-field-lost/afi_safis[].route_selection_options.config.disable_best_path_selection": "fix: keep disable_best_path_selection of an address family's route selection options",
}

// c18ServerNotes documents the keys of C18KnownIssues and of c18ServerFixed (as they were before the fix).
var c18ServerNotes = map[string]string{
	"policy-origin-condition-not-listed": "statement with conditions.origin (AddStatement / AddPolicy accept it, newOriginConditionFromApiStruct): ListStatement never reports it " +
		"(pkg/server toStatementApi has no code for OriginEq); ListPolicy / ListPolicyAssignment (internal/pkg/table toStatementApi) report the origin of the *set-route-origin action* " +
		"instead of the condition (switch on s.Actions.BgpActions.SetRouteOrigin), i.e. nothing without such an action and a wrong value with one.",
	"policy-zero-value-dropped": "conditions.local_pref_eq{0}, conditions.med_eq{0} and actions.local_pref{0} are accepted and silently dropped (new*FromApiStruct return nil for value 0; " +
		"NewLocalPrefAction(0) returns nil): a statement 'match MED 0' becomes 'match everything', 'set local-pref 0' becomes no action.",
	"policy-empty-community-action": "actions.community with an empty list (REPLACE with no communities = strip all communities): kept by the policy engine and by ListPolicy, " +
		"but ListStatement (pkg/server toStatementApi) drops a community action whose list is empty.",
	"policy-med-mod-zero": "actions.med{type: MOD, value: 0} is stored as MedAction{MOD,0}; MedAction.ToConfig renders it as \"0\" (the sign is only written for value > 0) " +
		"and every List call reads that back as REPLACE 0: 'add 0 to MED' is listed as 'set MED to 0'.",
	"policy-as4-plain-number-clamped": "a 4-octet AS written as a plain number in an extended community / route target text (\"soo:100000:5\", rtc_prefix \"65000:100000:5/96\"): " +
		"bgp.ParseExtendedCommunity parses the AS with ParseUint(s, 10, 16) and ignores the range error, so the value is silently clamped to 65535 (only the asdot form \"1.34464:5\" works).",
	"policy-list-statement-community-action-type": "actions.ext_community / actions.large_community: ListStatement (pkg/server toStatementApi) converts the option with " +
		"api.CommunityAction_Type(oc.BgpSetCommunityOptionTypeToIntMap[...]); that map counts ADD=0, REMOVE=1, REPLACE=2 while the API enum is ADD=1, REMOVE=2, REPLACE=3: " +
		"ADD is listed as UNSPECIFIED, REMOVE as ADD, REPLACE as REMOVE (ListPolicy uses a name switch and is right).",
	"peer-field-lost/conf.send_community":                "api.PeerConf.send_community: newNeighborFromAPIStruct never reads it (oc.NeighborConfig.SendCommunity stays empty), NewPeerFromConfigStruct never writes it.",
	"peer-field-lost/graceful_restart.stale_routes_time": "api.GracefulRestart.stale_routes_time: not read by newNeighborFromAPIStruct (oc.GracefulRestartConfig.StaleRoutesTime), not written by NewPeerFromConfigStruct.",
	"peer-field-lost/transport.mtu_discovery":            "api.Transport.mtu_discovery: not read by newNeighborFromAPIStruct (oc.TransportConfig.MtuDiscovery), not written by NewPeerFromConfigStruct.",
	"peer-field-lost/route_reflector.route_reflector_cluster_id": "api.RouteReflector.route_reflector_cluster_id: newNeighborFromAPIStruct stores it in RouteReflector.Config, " +
		"NewPeerFromConfigStruct reports RouteReflector.State.RouteReflectorClusterId, which only a running peer fills: a configured cluster id reads back as \"invalid IP\".",
	"peer-field-lost/timers.config.minimum_advertisement_interval":                           "api.TimersConfig.minimum_advertisement_interval: read into oc.TimersConfig.MinimumAdvertisementInterval, never written back by NewPeerFromConfigStruct.",
	"peer-field-lost/afi_safis[].route_selection_options.config.disable_best_path_selection": "api.RouteSelectionOptionsConfig.disable_best_path_selection of an address family: dropped by the AfiSafi conversion (the other six options survive).",
	"path-link-local-next-hop-dropped": "AddPath of an IPv6-family route whose MP_REACH_NLRI carries a global and a link-local next hop: apiutil2Path (and api2Path) rebuild MP_REACH_NLRI " +
		"from mp.Nexthop only, the link-local address is lost (ListPath shows a 16 octet next hop).",
}

func init() {
	for _, k := range strings.Split(os.Getenv("VERIF_C18_UNMASK"), ",") {
		if k == "all" {
			for x := range C18KnownIssues {
				C18KnownIssues[x] = false
			}
		} else if _, ok := C18KnownIssues[k]; ok {
			C18KnownIssues[k] = false
		}
	}
}

type c18sCase struct {
	Recipe []uint32 `json:"recipe"`
}

func drawC18s(t *rapid.T) c18sCase {
	return c18sCase{Recipe: rapid.SliceOfN(rapid.Uint32(), 40, 240).Draw(t, "recipe")}
}

// a policy case (up to 7 defined sets, 4 statements, a policy and an assignment) consumes several
// hundred numbers; with the usual 40..240 most statements would be built from an exhausted recipe
func drawC18Policy(t *rapid.T) c18sCase {
	return c18sCase{Recipe: rapid.SliceOfN(rapid.Uint32(), 250, 700).Draw(t, "recipe")}
}

// survey mode, see pkg/apiutil/c18_test.go
var (
	c18sSurvey   = os.Getenv("VERIF_C18_SURVEY") != ""
	c18sSurveyMu sync.Mutex
	c18sSurveyEx = map[string]string{}
	c18sSurveyN  = map[string]int{}
)

func c18sSurveyReport(t *testing.T) {
	if !c18sSurvey {
		return
	}
	var ks []string
	for k := range c18sSurveyEx {
		ks = append(ks, k)
	}
	sort.Strings(ks)
	for _, k := range ks {
		m := c18sSurveyEx[k]
		if len(m) > 1800 {
			m = m[:1800] + "..."
		}
		t.Logf("SURVEY %6d  %s\n      %s", c18sSurveyN[k], k, m)
	}
}

// c18sSettle decides what to do with the failures of one case: known shapes are masked, the
// first remaining failure is returned (survey mode: all are recorded and none returned).
type c18sFail struct {
	f      *verifkit.Failure
	shapes []string
	class  string // finer class for the survey
}

func c18sSettle(st *verifkit.Stats, fails []c18sFail) *verifkit.Failure {
	for _, x := range fails {
		masked := false
		for _, k := range x.shapes {
			on, ok := C18KnownIssues[k]
			if !ok {
				panic("c18: shape " + k + " is not listed in C18KnownIssues")
			}
			if on {
				st.Exclude(k)
				st.Label("known-issue/" + k)
				masked = true
				break
			}
		}
		if masked {
			continue
		}
		if len(x.shapes) > 0 {
			x.f.Msg += fmt.Sprintf(" [known shapes, unmasked: %s]", strings.Join(x.shapes, ","))
		}
		if c18sSurvey {
			c18sSurveyMu.Lock()
			k := x.f.Sig + " " + x.class
			c18sSurveyN[k]++
			if old, ok := c18sSurveyEx[k]; !ok || len(x.f.Msg) < len(old) {
				c18sSurveyEx[k] = x.f.Msg
			}
			c18sSurveyMu.Unlock()
			continue
		}
		return x.f
	}
	return nil
}

func c18sStart() (*BgpServer, error) {
	s := NewBgpServer()
	go s.Serve()
	fams := make([]uint32, 0, 26)
	for i := uint32(0); i < 26; i++ {
		fams = append(fams, i)
	}
	err := s.StartBgp(context.Background(), &api.StartBgpRequest{Global: &api.Global{Asn: 65000, RouterId: "192.0.2.254", ListenPort: -1, Families: fams}})
	return s, err
}

// ---------------------------------------------------------------------------
// policy generator (every element comes with the text the List* calls must return)
// ---------------------------------------------------------------------------

type c18Set struct {
	set    *api.DefinedSet
	want   []string // normalised elements (order-free); prefix sets: "prefix min..max"
	shapes []string
}

// c18As4 writes a 4-octet AS number the way ExtendedCommunity.String does (asdot), or - rarely - as a
// plain number (asplain); want is the asdot text every List call reports.
func c18As4(s *verifgen.Src, label func(string)) (in, want string) {
	as := uint32(65536 + s.Intn(1<<20))
	want = fmt.Sprintf("%d.%d", as>>16, as&0xffff)
	if s.Chance(1, 6) {
		label("as4-text/plain")
		return fmt.Sprintf("%d", as), want
	}
	label("as4-text/asdot")
	return want, want
}

var c18WellKnown = []struct {
	name string
	val  string
}{
	{"no-export", "65535:65281"}, {"no-advertise", "65535:65282"}, {"no-export-subconfed", "65535:65283"},
	{"blackhole", "65535:666"}, {"NO_EXPORT", "65535:65281"}, {"No-Advertise", "65535:65282"},
}

// c18Community returns a community as a user writes it and its AA:NN value.
// names: 0 none, 1 the registered names as they are, 2 also in other case / with underscores
// (community sets only: the set parser folds case, the action parser does not).
func c18Community(s *verifgen.Src, names int) (in, canon string) {
	hi, lo := uint32(s.U16()), uint32(s.U16())
	canon = fmt.Sprintf("%d:%d", hi, lo)
	switch s.Intn(4) {
	case 1:
		return fmt.Sprintf("%d", hi<<16|lo), canon
	case 2:
		switch names {
		case 1:
			w := verifgen.Pick(s, c18WellKnown[:4])
			return w.name, w.val
		case 2:
			w := verifgen.Pick(s, c18WellKnown)
			return w.name, w.val
		}
	}
	return canon, canon
}

// c18CommunityPattern: an element of a community set / a community to remove and its documented meaning.
func c18CommunityPattern(s *verifgen.Src, label func(string)) (in, want string) {
	if s.Chance(2, 5) {
		p := verifgen.Pick(s, []string{"^65000:.*$", "6[0-9]+:[0-9]+", "^(100|200):[0-9]+$", "^65535:6528[1-3]$", "[0-9]+:100$", "^.*:.*$"})
		label("community-pattern/regexp")
		return p, p
	}
	in, canon := c18Community(s, 2)
	switch {
	case strings.Contains(in, ":"):
		label("community-pattern/aa:nn")
	case in[0] >= '0' && in[0] <= '9':
		label("community-pattern/decimal")
	default:
		label("community-pattern/well-known-name")
	}
	return in, "^" + canon + "$"
}

func c18ExtCommunityPattern(s *verifgen.Src, label func(string)) (in, want string) {
	kw := verifgen.Pick(s, []string{"rt", "RT", "soo", "SoO", "Rt"})
	var v, w string
	switch s.Intn(4) {
	case 0:
		v = fmt.Sprintf("%d:%d", s.U16(), s.U32())
		w = "^" + v + "$"
		label("ext-community-pattern/as:nn")
	case 1:
		v = fmt.Sprintf("%s:%d", s.V4(), s.U16())
		w = "^" + v + "$"
		label("ext-community-pattern/ipv4:nn")
	case 2:
		v = fmt.Sprintf("%d:%d", 65536+s.Intn(1<<20), s.U16())
		w = "^" + v + "$"
		label("ext-community-pattern/as4:nn")
	default:
		v = verifgen.Pick(s, []string{"^65000:.*$", "6[0-9]+:[0-9]+", "^(100|200):[0-9]+$", "^10\\.0\\.0\\.[0-9]+:100$"})
		w = v
		label("ext-community-pattern/regexp")
	}
	return kw + ":" + v, strings.ToLower(kw) + ":" + w
}

func c18LargeCommunityPattern(s *verifgen.Src, label func(string)) (in, want string) {
	if s.Chance(1, 3) {
		p := verifgen.Pick(s, []string{"^65000:.*:.*$", "^[0-9]+:100:[0-9]+$", "6[0-9]+:[0-9]+:0$"})
		label("large-community-pattern/regexp")
		return p, p
	}
	v := fmt.Sprintf("%d:%d:%d", s.U32(), s.U32(), s.U32())
	label("large-community-pattern/exact")
	return v, "^" + v + "$"
}

const c18AsPathMagic = "(^|[,{}() ]|$)"

func c18AsPathPattern(s *verifgen.Src, label func(string)) (in, want string, single bool) {
	asn := verifgen.ASN(s)
	switch s.Intn(6) {
	case 0:
		label("as-path-pattern/from")
		p := fmt.Sprintf("^%d_", asn)
		return p, p, true
	case 1:
		label("as-path-pattern/origin")
		p := fmt.Sprintf("_%d$", asn)
		return p, p, true
	case 2:
		label("as-path-pattern/any")
		p := fmt.Sprintf("_%d_", asn)
		return p, p, true
	case 3:
		label("as-path-pattern/only")
		p := fmt.Sprintf("^%d$", asn)
		return p, p, true
	case 4:
		label("as-path-pattern/regexp-underscore")
		p := verifgen.Pick(s, []string{"^65100_65001", "65100_[0-9]+_.*$", "^6[0-9]_5.*_65.?00$", fmt.Sprintf("^%d_%d_", asn, asn+1)})
		return p, p, false // listed in the configured notation (since the C10-F1 repair; the expanded form was listed before)
	default:
		label("as-path-pattern/regexp")
		p := verifgen.Pick(s, []string{"^65[0-9]+$", "^65100", "[0-9]+ 65001$", "^(65001|65002) "})
		return p, p, false
	}
}

func c18MaskedPrefix(p string) string {
	x, err := netip.ParsePrefix(p)
	if err != nil {
		return "unparsable:" + p
	}
	return x.Masked().String()
}

var c18SetTypes = []api.DefinedType{
	api.DefinedType_DEFINED_TYPE_PREFIX, api.DefinedType_DEFINED_TYPE_NEIGHBOR, api.DefinedType_DEFINED_TYPE_AS_PATH,
	api.DefinedType_DEFINED_TYPE_COMMUNITY, api.DefinedType_DEFINED_TYPE_EXT_COMMUNITY, api.DefinedType_DEFINED_TYPE_LARGE_COMMUNITY,
}

func c18SetTypeName(t api.DefinedType) string {
	return strings.ToLower(strings.TrimPrefix(t.String(), "DEFINED_TYPE_"))
}

func c18GenSet(s *verifgen.Src, name string, typ api.DefinedType, label func(string)) *c18Set {
	ds := &c18Set{set: &api.DefinedSet{DefinedType: typ, Name: name}}
	n := 1 + s.Len(4)
	switch typ {
	case api.DefinedType_DEFINED_TYPE_PREFIX:
		kind := s.Intn(5) // one family per set: 0,1 IPv4  2,3 IPv6  4 RT membership
		for i := 0; i < n; i++ {
			var p *api.Prefix
			rtcWant := "" // the listed text of an RT membership prefix when it differs from the written one
			switch {
			case kind == 4:
				as := verifgen.ASN(s)
				var rt string
				switch s.Intn(3) {
				case 0:
					rt = fmt.Sprintf("%d:%d", 1+s.Intn(65535), s.U32())
				case 1:
					rt = fmt.Sprintf("%s:%d", s.V4(), s.U16())
				default:
					in, want := c18As4(s, label)
					la := s.U16()
					rt = fmt.Sprintf("%s:%d", in, la)
					if in != want { // asplain: listed in the asdot form
						rtcWant = fmt.Sprintf("%d:%s:%d/96", as, want, la)
					}
				}
				p = &api.Prefix{RtcPrefix: fmt.Sprintf("%d:%s/96", as, rt), MaskLengthMin: 96, MaskLengthMax: 96}
				label("prefix-set/rtc")
			default:
				pfx, max := s.Prefix4(), 32
				if kind >= 2 {
					pfx, max = s.Prefix6(), 128
				}
				p = &api.Prefix{IpPrefix: pfx.String()}
				if s.Chance(1, 8) && pfx.Bits() < max { // written with host bits set
					a := pfx.Addr().AsSlice()
					a[len(a)-1] |= 1
					ha, _ := netip.AddrFromSlice(a)
					p.IpPrefix = netip.PrefixFrom(ha, pfx.Bits()).String()
					label("prefix-set/host-bits")
				}
				switch s.Intn(4) {
				case 0: // unset: 0..0
					label("prefix-set/range-unset")
				case 1:
					p.MaskLengthMin, p.MaskLengthMax = uint32(pfx.Bits()), uint32(pfx.Bits())
					label("prefix-set/range-exact")
				case 2:
					p.MaskLengthMin, p.MaskLengthMax = uint32(pfx.Bits()), uint32(max)
					label("prefix-set/range-orlonger")
				default:
					lo := pfx.Bits() + s.Intn(max-pfx.Bits()+1)
					p.MaskLengthMin, p.MaskLengthMax = uint32(lo), uint32(lo+s.Intn(max-lo+1))
					label("prefix-set/range-window")
				}
				label(fmt.Sprintf("prefix-set/ipv%d", map[bool]int{false: 4, true: 6}[kind >= 2]))
			}
			ds.set.Prefixes = append(ds.set.Prefixes, p)
			key := p.RtcPrefix
			if rtcWant != "" {
				key = rtcWant
			}
			if p.IpPrefix != "" {
				key = p.IpPrefix // listed as it was written, host bits included
			}
			ds.want = append(ds.want, fmt.Sprintf("%s %d..%d", key, p.MaskLengthMin, p.MaskLengthMax))
		}
	case api.DefinedType_DEFINED_TYPE_NEIGHBOR:
		for i := 0; i < n; i++ {
			var p netip.Prefix
			if s.Chance(1, 3) {
				p = verifgen.Pick(s, []netip.Prefix{netip.PrefixFrom(s.V6(), 128), s.Prefix6()})
				label("neighbor-set/ipv6")
			} else {
				p = verifgen.Pick(s, []netip.Prefix{netip.PrefixFrom(s.V4(), 32), s.Prefix4()})
				label("neighbor-set/ipv4")
			}
			in := p.String()
			if s.Chance(1, 8) && p.Bits() < p.Addr().BitLen() {
				a := p.Addr().AsSlice()
				a[len(a)-1] |= 1
				ha, _ := netip.AddrFromSlice(a)
				in = netip.PrefixFrom(ha, p.Bits()).String()
				label("neighbor-set/host-bits")
			}
			ds.set.List = append(ds.set.List, in)
			ds.want = append(ds.want, p.Masked().String())
		}
	case api.DefinedType_DEFINED_TYPE_AS_PATH:
		for i := 0; i < n; i++ {
			in, want, _ := c18AsPathPattern(s, label)
			ds.set.List = append(ds.set.List, in)
			ds.want = append(ds.want, want)
		}
	case api.DefinedType_DEFINED_TYPE_COMMUNITY:
		for i := 0; i < n; i++ {
			in, want := c18CommunityPattern(s, label)
			ds.set.List = append(ds.set.List, in)
			ds.want = append(ds.want, want)
		}
	case api.DefinedType_DEFINED_TYPE_EXT_COMMUNITY:
		for i := 0; i < n; i++ {
			in, want := c18ExtCommunityPattern(s, label)
			ds.set.List = append(ds.set.List, in)
			ds.want = append(ds.want, want)
		}
	case api.DefinedType_DEFINED_TYPE_LARGE_COMMUNITY:
		for i := 0; i < n; i++ {
			in, want := c18LargeCommunityPattern(s, label)
			ds.set.List = append(ds.set.List, in)
			ds.want = append(ds.want, want)
		}
	}
	return ds
}

// c18Listed renders a listed defined set the way want is written.
func c18Listed(d *api.DefinedSet) []string {
	if d.DefinedType == api.DefinedType_DEFINED_TYPE_PREFIX {
		out := make([]string, 0, len(d.Prefixes))
		for _, p := range d.Prefixes {
			key := p.RtcPrefix
			if p.IpPrefix != "" {
				key = p.IpPrefix
			}
			out = append(out, fmt.Sprintf("%s %d..%d", key, p.MaskLengthMin, p.MaskLengthMax))
		}
		return out
	}
	out := append([]string{}, d.List...)
	if d.DefinedType == api.DefinedType_DEFINED_TYPE_NEIGHBOR {
		for i := range out {
			out[i] = c18MaskedPrefix(out[i])
		}
	}
	return out
}

func c18SameMultiset(a, b []string) bool {
	if len(a) != len(b) {
		return false
	}
	x, y := append([]string{}, a...), append([]string{}, b...)
	sort.Strings(x)
	sort.Strings(y)
	for i := range x {
		if x[i] != y[i] {
			return false
		}
	}
	return true
}

// c18GenStatement builds a statement and the statement the List calls must return.
// shapes collects the known-issue shapes the statement has.
func c18GenStatement(s *verifgen.Src, name string, sets []*c18Set, label func(string)) (in, want *api.Statement, shapes []string) {
	in = &api.Statement{Name: name}
	want = &api.Statement{Name: name, Conditions: &api.Conditions{}, Actions: &api.Actions{}}
	add := func(k string) { shapes = append(shapes, k) }
	pick := func(t api.DefinedType) string {
		var names []string
		for _, d := range sets {
			if d.set.DefinedType == t {
				names = append(names, d.set.Name)
			}
		}
		if len(names) == 0 {
			return ""
		}
		return verifgen.Pick(s, names)
	}
	if !s.Chance(1, 10) {
		c, w := &api.Conditions{}, want.Conditions
		in.Conditions = c
		ms := func(t api.DefinedType, restricted bool, what string) *api.MatchSet {
			n := pick(t)
			if n == "" || !s.Chance(1, 3) {
				return nil
			}
			typ := verifgen.Pick(s, []api.MatchSet_Type{api.MatchSet_TYPE_ANY, api.MatchSet_TYPE_ALL, api.MatchSet_TYPE_INVERT})
			if restricted && typ == api.MatchSet_TYPE_ALL {
				typ = api.MatchSet_TYPE_INVERT
			}
			label("condition/" + what + "/" + strings.ToLower(strings.TrimPrefix(typ.String(), "TYPE_")))
			return &api.MatchSet{Type: typ, Name: n}
		}
		c.PrefixSet = ms(api.DefinedType_DEFINED_TYPE_PREFIX, true, "prefix-set")
		c.NeighborSet = ms(api.DefinedType_DEFINED_TYPE_NEIGHBOR, true, "neighbor-set")
		c.AsPathSet = ms(api.DefinedType_DEFINED_TYPE_AS_PATH, false, "as-path-set")
		c.CommunitySet = ms(api.DefinedType_DEFINED_TYPE_COMMUNITY, false, "community-set")
		c.ExtCommunitySet = ms(api.DefinedType_DEFINED_TYPE_EXT_COMMUNITY, false, "ext-community-set")
		c.LargeCommunitySet = ms(api.DefinedType_DEFINED_TYPE_LARGE_COMMUNITY, false, "large-community-set")
		w.PrefixSet, w.NeighborSet, w.AsPathSet = c.PrefixSet, c.NeighborSet, c.AsPathSet
		w.CommunitySet, w.ExtCommunitySet, w.LargeCommunitySet = c.CommunitySet, c.ExtCommunitySet, c.LargeCommunitySet
		cmp := func() api.Comparison {
			return verifgen.Pick(s, []api.Comparison{api.Comparison_COMPARISON_EQ, api.Comparison_COMPARISON_GE, api.Comparison_COMPARISON_LE})
		}
		if s.Chance(1, 4) {
			c.AsPathLength = &api.AsPathLength{Type: cmp(), Length: uint32(s.Intn(300))}
			w.AsPathLength = c.AsPathLength
			label("condition/as-path-length/" + c.AsPathLength.Type.String())
		}
		if s.Chance(1, 4) {
			c.CommunityCount = &api.CommunityCount{Type: cmp(), Count: uint32(s.Intn(300))}
			w.CommunityCount = c.CommunityCount
			label("condition/community-count/" + c.CommunityCount.Type.String())
		}
		if s.Chance(1, 4) {
			c.RpkiResult = verifgen.Pick(s, []api.ValidationState{api.ValidationState_VALIDATION_STATE_VALID, api.ValidationState_VALIDATION_STATE_INVALID,
				api.ValidationState_VALIDATION_STATE_NOT_FOUND, api.ValidationState_VALIDATION_STATE_NONE})
			w.RpkiResult = c.RpkiResult
			label("condition/rpki/" + c.RpkiResult.String())
			if c.RpkiResult == api.ValidationState_VALIDATION_STATE_NONE {
				w.RpkiResult = api.ValidationState_VALIDATION_STATE_UNSPECIFIED // "none" = no RPKI condition
			}
		}
		if s.Chance(1, 4) {
			c.RouteType = api.Conditions_RouteType(1 + s.Intn(3))
			w.RouteType = c.RouteType
			label("condition/route-type/" + c.RouteType.String())
		}
		if s.Chance(1, 4) {
			c.Origin = api.OriginType(1 + s.Intn(3))
			w.Origin = c.Origin
			label("condition/origin/" + c.Origin.String())
		}
		if s.Chance(1, 4) {
			n := 1 + s.Intn(3)
			for i := 0; i < n; i++ {
				a := s.V4()
				if s.Chance(1, 3) {
					a = s.V6()
				}
				c.NextHopInList = append(c.NextHopInList, a.String())
				w.NextHopInList = append(w.NextHopInList, a.String())
			}
			label(fmt.Sprintf("condition/next-hop-in/%d", n))
		}
		if s.Chance(1, 4) {
			n := 1 + s.Intn(3)
			seen := map[bgp.Family]bool{}
			for i := 0; i < n; i++ {
				f := verifgen.Pick(s, verifgen.AllFamilies)
				if seen[f] {
					continue
				}
				seen[f] = true
				c.AfiSafiIn = append(c.AfiSafiIn, &api.Family{Afi: api.Family_Afi(f.Afi()), Safi: api.Family_Safi(f.Safi())})
			}
			w.AfiSafiIn = c.AfiSafiIn
			label(fmt.Sprintf("condition/afi-safi-in/%d", len(c.AfiSafiIn)))
		}
		if s.Chance(1, 4) {
			c.LocalPrefEq = &api.LocalPrefEq{Value: s.U32()}
			w.LocalPrefEq = c.LocalPrefEq
			label("condition/local-pref-eq")
			if c.LocalPrefEq.Value == 0 {
				add("policy-zero-value-dropped")
			}
		}
		if s.Chance(1, 4) {
			c.MedEq = &api.MedEq{Value: s.U32()}
			w.MedEq = c.MedEq
			label("condition/med-eq")
			if c.MedEq.Value == 0 {
				add("policy-zero-value-dropped")
			}
		}
	} else {
		label("statement/no-conditions")
	}
	if !s.Chance(1, 10) {
		a, w := &api.Actions{}, want.Actions
		in.Actions = a
		a.RouteAction = api.RouteAction(s.Intn(3))
		w.RouteAction = a.RouteAction
		label("action/route/" + a.RouteAction.String())
		ctype := func() api.CommunityAction_Type {
			return verifgen.Pick(s, []api.CommunityAction_Type{api.CommunityAction_TYPE_ADD, api.CommunityAction_TYPE_REMOVE, api.CommunityAction_TYPE_REPLACE})
		}
		if s.Chance(1, 3) {
			ca, cw := &api.CommunityAction{Type: ctype()}, &api.CommunityAction{}
			cw.Type = ca.Type
			n := s.Len(3)
			for i := 0; i < n; i++ {
				if ca.Type == api.CommunityAction_TYPE_REMOVE {
					in, want := c18CommunityPattern(s, func(string) {})
					ca.Communities, cw.Communities = append(ca.Communities, in), append(cw.Communities, want)
				} else {
					in, canon := c18Community(s, 1)
					ca.Communities, cw.Communities = append(ca.Communities, in), append(cw.Communities, canon)
				}
			}
			a.Community, w.Community = ca, cw
			label(fmt.Sprintf("action/community/%s/%d", ca.Type, min(n, 2)))
		}
		if s.Chance(1, 3) {
			ca, cw := &api.CommunityAction{Type: ctype()}, &api.CommunityAction{}
			cw.Type = ca.Type
			n := 1 + s.Len(2)
			for i := 0; i < n; i++ {
				if ca.Type == api.CommunityAction_TYPE_REMOVE {
					in, want := c18ExtCommunityPattern(s, func(string) {})
					ca.Communities, cw.Communities = append(ca.Communities, in), append(cw.Communities, want)
					continue
				}
				var in, want string
				switch s.Intn(6) {
				case 0:
					v := fmt.Sprintf("%d:%d", 1+s.Intn(65535), s.U32())
					in, want = "rt:"+v, "rt:"+v
				case 1:
					v := fmt.Sprintf("%s:%d", s.V4(), s.U16())
					in, want = "RT:"+v, "rt:"+v
				case 2:
					asIn, asWant := c18As4(s, label)
					la := s.U16()
					in, want = fmt.Sprintf("soo:%s:%d", asIn, la), fmt.Sprintf("soo:%s:%d", asWant, la)
				case 3:
					v := verifgen.Pick(s, []string{"vxlan", "gre", "mpls", "ip-in-ip", "geneve"})
					in, want = "encap:"+v, "encap:"+v
				case 4:
					v := verifgen.Pick(s, []string{"valid", "not-found", "invalid"})
					in, want = v, v
				default:
					v := fmt.Sprintf("%d:%d", 1+s.Intn(65535), 125000*(1+s.Intn(8)))
					in, want = "lb:"+v, "lb:"+v
				}
				ca.Communities, cw.Communities = append(ca.Communities, in), append(cw.Communities, want)
			}
			a.ExtCommunity, w.ExtCommunity = ca, cw
			label("action/ext-community/" + ca.Type.String())
		}
		if s.Chance(1, 3) {
			ca, cw := &api.CommunityAction{Type: ctype()}, &api.CommunityAction{}
			cw.Type = ca.Type
			n := 1 + s.Len(2)
			for i := 0; i < n; i++ {
				if ca.Type == api.CommunityAction_TYPE_REMOVE {
					in, want := c18LargeCommunityPattern(s, func(string) {})
					ca.Communities, cw.Communities = append(ca.Communities, in), append(cw.Communities, want)
				} else {
					v := fmt.Sprintf("%d:%d:%d", s.U32(), s.U32(), s.U32())
					ca.Communities, cw.Communities = append(ca.Communities, v), append(cw.Communities, v)
				}
			}
			a.LargeCommunity, w.LargeCommunity = ca, cw
			label("action/large-community/" + ca.Type.String())
		}
		if s.Chance(1, 3) {
			if s.Bool() {
				a.Med = &api.MedAction{Type: api.MedAction_TYPE_REPLACE, Value: int64(s.U32())}
			} else {
				a.Med = &api.MedAction{Type: api.MedAction_TYPE_MOD, Value: int64(s.Intn(2001)) - 1000}
				if s.Chance(1, 8) {
					a.Med.Value = 0
				}
			}
			w.Med = a.Med
			label("action/med/" + a.Med.Type.String())
		}
		if s.Chance(1, 3) {
			if s.Chance(1, 3) {
				a.AsPrepend = &api.AsPrependAction{UseLeftMost: true, Repeat: uint32(s.Intn(256))}
				label("action/as-prepend/last-as")
			} else {
				a.AsPrepend = &api.AsPrependAction{Asn: verifgen.ASN(s), Repeat: uint32(s.Intn(256))}
				label("action/as-prepend/asn")
			}
			w.AsPrepend = a.AsPrepend
		}
		if s.Chance(1, 3) {
			switch s.Intn(5) {
			case 0:
				a.Nexthop = &api.NexthopAction{Self: true}
				label("action/nexthop/self")
			case 1:
				a.Nexthop = &api.NexthopAction{Unchanged: true}
				label("action/nexthop/unchanged")
			case 2:
				a.Nexthop = &api.NexthopAction{PeerAddress: true}
				label("action/nexthop/peer-address")
			case 3:
				a.Nexthop = &api.NexthopAction{Address: s.V6().String()}
				label("action/nexthop/ipv6")
			default:
				a.Nexthop = &api.NexthopAction{Address: s.V4().String()}
				label("action/nexthop/ipv4")
			}
			w.Nexthop = a.Nexthop
		}
		if s.Chance(1, 3) {
			a.LocalPref = &api.LocalPrefAction{Value: s.U32()}
			w.LocalPref = a.LocalPref
			label("action/local-pref")
			if a.LocalPref.Value == 0 {
				add("policy-zero-value-dropped")
			}
		}
		if s.Chance(1, 3) {
			a.OriginAction = &api.OriginAction{Origin: api.OriginType(1 + s.Intn(3))}
			w.OriginAction = a.OriginAction
			label("action/origin/" + a.OriginAction.Origin.String())
		}
	} else {
		label("statement/no-actions")
	}
	return in, want, shapes
}

// c18FoldEncap folds the tunnel type name of "encap:<type>" entries: the parser accepts
// "vxlan" and "VXLAN", "ip-in-ip" and "IP in IP", ... for the same tunnel type (the listed
// form is the one ExtendedCommunity.String prints), so these are compared by meaning.
func c18FoldEncap(st *api.Statement) {
	ec := st.GetActions().GetExtCommunity()
	if ec == nil {
		return
	}
	for i, x := range ec.Communities {
		if strings.HasPrefix(strings.ToLower(x), "encap:") {
			ec.Communities[i] = "encap:" + strings.ToLower(strings.ReplaceAll(x[6:], "-", " "))
		}
	}
}

func c18StatementNontrivial(st *api.Statement) bool {
	n := 0
	if c := st.Conditions; c != nil {
		for _, m := range []*api.MatchSet{c.PrefixSet, c.NeighborSet, c.AsPathSet, c.CommunitySet, c.ExtCommunitySet, c.LargeCommunitySet} {
			if m != nil {
				n++
			}
		}
		if c.AsPathLength != nil || c.CommunityCount != nil || len(c.NextHopInList) > 0 || len(c.AfiSafiIn) > 0 || c.LocalPrefEq != nil || c.MedEq != nil {
			n++
		}
	}
	if a := st.Actions; a != nil {
		for _, m := range []proto.Message{a.Community, a.ExtCommunity, a.LargeCommunity} {
			if m != nil && !isNilMsg(m) {
				n++
			}
		}
		if a.Med != nil || a.AsPrepend != nil || a.Nexthop != nil || a.LocalPref != nil || a.OriginAction != nil {
			n++
		}
	}
	return n >= 2
}

func isNilMsg(m proto.Message) bool {
	switch v := m.(type) {
	case *api.CommunityAction:
		return v == nil
	}
	return m == nil
}

// ---------------------------------------------------------------------------
// C18_policy
// ---------------------------------------------------------------------------

func runC18Policy(c c18sCase, st *verifkit.Stats) *verifkit.Failure {
	s := verifgen.NewSrc(c.Recipe)
	label := func(l string) { st.Label(l) }
	ctx := context.Background()
	srv, err := c18sStart()
	if err != nil {
		return verifkit.Failf("harness", "StartBgp: %v", err)
	}
	defer srv.Stop()
	var fails []c18sFail
	fail := func(shapes []string, sig, format string, a ...any) {
		fails = append(fails, c18sFail{f: verifkit.Failf(sig, format, a...), shapes: shapes})
	}

	// ---- defined sets
	var sets []*c18Set
	nsets := 1 + s.Len(6)
	for i := 0; i < nsets; i++ {
		typ := verifgen.Pick(s, c18SetTypes)
		ds := c18GenSet(s, fmt.Sprintf("set%d", i), typ, label)
		tn := c18SetTypeName(typ)
		label("defined-set/" + tn)
		if err := srv.AddDefinedSet(ctx, &api.AddDefinedSetRequest{DefinedSet: ds.set}); err != nil {
			fail(nil, "defined-set-rejected", "AddDefinedSet refuses a valid %s set %v: %v", tn, ds.set, err)
			continue
		}
		sets = append(sets, ds)
		var got []*api.DefinedSet
		if err := srv.ListDefinedSet(ctx, &api.ListDefinedSetRequest{DefinedType: typ, Name: ds.set.Name}, func(d *api.DefinedSet) { got = append(got, d) }); err != nil {
			fail(nil, "defined-set-list-error", "ListDefinedSet(%s, %s): %v", tn, ds.set.Name, err)
			continue
		}
		st.SubEval(1)
		if len(got) != 1 {
			fail(nil, "defined-set-missing", "ListDefinedSet(%s, %s) returns %d sets after AddDefinedSet(%v)", tn, ds.set.Name, len(got), ds.set)
			continue
		}
		if got[0].Name != ds.set.Name || got[0].DefinedType != typ {
			fail(nil, "defined-set-identity", "added %s set %q, listed %v", tn, ds.set.Name, got[0])
			continue
		}
		if l := c18Listed(got[0]); !c18SameMultiset(l, ds.want) {
			fail(ds.shapes, "defined-set-"+tn, "%s set: added %v, expected elements %q, listed %q", tn, ds.set, ds.want, l)
		}
	}
	if s.Chance(1, 8) {
		// the API enumerates a next-hop defined-set type; the server has no such named set
		err := srv.AddDefinedSet(ctx, &api.AddDefinedSetRequest{DefinedSet: &api.DefinedSet{DefinedType: api.DefinedType_DEFINED_TYPE_NEXT_HOP, Name: "nh", List: []string{"10.0.0.1"}}})
		if err != nil {
			label("defined-set/next-hop/rejected")
		} else {
			label("defined-set/next-hop/accepted")
		}
	}

	// ---- statements
	type stmt struct {
		in, want *api.Statement
		shapes   []string
	}
	var stmts []stmt
	nst := 1 + s.Len(3)
	nontrivial := false
	inline := s.Chance(1, 3)
	for i := 0; i < nst; i++ {
		in, want, shapes := c18GenStatement(s, fmt.Sprintf("st%d", i), sets, label)
		if c18StatementNontrivial(in) {
			nontrivial = true
		}
		x := stmt{in: in, want: want, shapes: shapes}
		if inline { // defined by AddPolicy below instead of AddStatement
			label("statement/inline-in-policy")
			x.in = proto.Clone(in).(*api.Statement)
			stmts = append(stmts, x)
			continue
		}
		label("statement/by-reference")
		if err := srv.AddStatement(ctx, &api.AddStatementRequest{Statement: proto.Clone(in).(*api.Statement)}); err != nil {
			fail(shapes, "statement-rejected", "AddStatement refuses %v: %v", in, err)
			continue
		}
		x.in = &api.Statement{Name: in.Name} // referred to by name from the policy
		stmts = append(stmts, x)
		var got []*api.Statement
		if err := srv.ListStatement(ctx, &api.ListStatementRequest{Name: in.Name}, func(a *api.Statement) { got = append(got, a) }); err != nil {
			fail(nil, "statement-list-error", "ListStatement(%s): %v", in.Name, err)
			continue
		}
		st.SubEval(1)
		if len(got) != 1 {
			fail(nil, "statement-missing", "ListStatement(%s) returns %d statements", in.Name, len(got))
			continue
		}
		for _, field := range c18StatementDiff(want, got[0]) {
			fail(c18FieldShapes("ListStatement", field, want, got[0]), "statement-mismatch", "ListStatement differs in %s:\n added    %v\n expected %v\n listed   %v", field, in, want, got[0])
			fails[len(fails)-1].class = "ListStatement " + field
		}
	}
	if nontrivial {
		st.Nontrivial()
	}

	// ---- one policy holding the statements (some by reference, some defined inline)
	if len(stmts) == 0 {
		return c18sSettle(st, fails)
	}
	pol := &api.Policy{Name: "pol0"}
	var allShapes []string
	for _, x := range stmts {
		pol.Statements = append(pol.Statements, proto.Clone(x.in).(*api.Statement))
		allShapes = append(allShapes, x.shapes...)
	}
	if err := srv.AddPolicy(ctx, &api.AddPolicyRequest{Policy: proto.Clone(pol).(*api.Policy), ReferExistingStatements: !inline}); err != nil {
		fail(allShapes, "policy-rejected", "AddPolicy refuses %v: %v", pol, err)
		return c18sSettle(st, fails)
	}
	checkPolicy := func(where string, got *api.Policy) {
		st.SubEval(1)
		if got.Name != pol.Name || len(got.Statements) != len(stmts) {
			fail(nil, "policy-mismatch", "%s: added policy %v, listed %v", where, pol, got)
			return
		}
		for i, x := range stmts {
			for _, field := range c18StatementDiff(x.want, got.Statements[i]) {
				fail(c18FieldShapes(where, field, x.want, got.Statements[i]), "policy-statement-mismatch", "%s: statement %d of policy %s differs in %s:\n added    %v\n expected %v\n listed   %v",
					where, i, pol.Name, field, x.in, x.want, got.Statements[i])
				fails[len(fails)-1].class = where + " " + field
			}
		}
	}
	var gotPol []*api.Policy
	if err := srv.ListPolicy(ctx, &api.ListPolicyRequest{Name: pol.Name}, func(p *api.Policy) { gotPol = append(gotPol, p) }); err != nil || len(gotPol) != 1 {
		fail(nil, "policy-missing", "ListPolicy(%s) returns %d policies (%v)", pol.Name, len(gotPol), err)
	} else {
		checkPolicy("ListPolicy", gotPol[0])
	}
	label(fmt.Sprintf("policy/statements/%d", len(stmts)))

	// ---- assignment to the global RIB
	asg := &api.PolicyAssignment{
		Name:          verifgen.Pick(s, []string{"global", ""}),
		Direction:     verifgen.Pick(s, []api.PolicyDirection{api.PolicyDirection_POLICY_DIRECTION_IMPORT, api.PolicyDirection_POLICY_DIRECTION_EXPORT}),
		Policies:      []*api.Policy{{Name: pol.Name}},
		DefaultAction: api.RouteAction(s.Intn(3)),
	}
	label("assignment/" + asg.Direction.String() + "/" + asg.DefaultAction.String())
	if err := srv.AddPolicyAssignment(ctx, &api.AddPolicyAssignmentRequest{Assignment: proto.Clone(asg).(*api.PolicyAssignment)}); err != nil {
		fail(nil, "assignment-rejected", "AddPolicyAssignment refuses %v: %v", asg, err)
		return c18sSettle(st, fails)
	}
	var gotAsg []*api.PolicyAssignment
	if err := srv.ListPolicyAssignment(ctx, &api.ListPolicyAssignmentRequest{Name: asg.Name, Direction: asg.Direction}, func(a *api.PolicyAssignment) { gotAsg = append(gotAsg, a) }); err != nil || len(gotAsg) != 1 {
		fail(nil, "assignment-missing", "ListPolicyAssignment(%q, %s) returns %d assignments (%v)", asg.Name, asg.Direction, len(gotAsg), err)
		return c18sSettle(st, fails)
	}
	g := gotAsg[0]
	st.SubEval(1)
	wantDefault := asg.DefaultAction
	if wantDefault == api.RouteAction_ROUTE_ACTION_UNSPECIFIED {
		wantDefault = api.RouteAction_ROUTE_ACTION_ACCEPT // documented default of default-import/export-policy
	}
	if g.Name != "global" && g.Name != asg.Name || g.Direction != asg.Direction || g.DefaultAction != wantDefault || len(g.Policies) != 1 {
		fail(nil, "assignment-mismatch", "added assignment %v, listed name=%q direction=%s default=%s policies=%d", asg, g.Name, g.Direction, g.DefaultAction, len(g.Policies))
	}
	if len(g.Policies) == 1 {
		checkPolicy("ListPolicyAssignment", g.Policies[0])
	}
	return c18sSettle(st, fails)
}

// c18FieldShapes: the known-issue shapes that explain a difference in one field of a listed statement.
func c18FieldShapes(where, field string, want, got *api.Statement) (keys []string) {
	c, a := want.GetConditions(), want.GetActions()
	switch field {
	case "conditions.local_pref_eq":
		if c.GetLocalPrefEq().GetValue() == 0 {
			keys = append(keys, "policy-zero-value-dropped")
		}
	case "conditions.med_eq":
		if c.GetMedEq().GetValue() == 0 {
			keys = append(keys, "policy-zero-value-dropped")
		}
	case "actions.local_pref":
		if a.GetLocalPref().GetValue() == 0 {
			keys = append(keys, "policy-zero-value-dropped")
		}
	}
	return keys
}

// c18StatementDiff names the top-level fields in which two statements differ.
func c18StatementDiff(a, b *api.Statement) []string {
	a, b = proto.Clone(a).(*api.Statement), proto.Clone(b).(*api.Statement)
	c18FoldEncap(a)
	c18FoldEncap(b)
	var out []string
	if a.Name != b.Name {
		out = append(out, "name")
	}
	ac, bc := a.GetConditions(), b.GetConditions()
	am, bm := ac.ProtoReflect(), bc.ProtoReflect()
	fds := am.Descriptor().Fields()
	for i := 0; i < fds.Len(); i++ {
		fd := fds.Get(i)
		x, y := &api.Conditions{}, &api.Conditions{}
		if ac != nil && am.Has(fd) {
			x.ProtoReflect().Set(fd, am.Get(fd))
		}
		if bc != nil && bm.Has(fd) {
			y.ProtoReflect().Set(fd, bm.Get(fd))
		}
		if !proto.Equal(x, y) {
			out = append(out, "conditions."+string(fd.Name()))
		}
	}
	aa, ba := a.GetActions(), b.GetActions()
	an, bn := aa.ProtoReflect(), ba.ProtoReflect()
	fds = an.Descriptor().Fields()
	for i := 0; i < fds.Len(); i++ {
		fd := fds.Get(i)
		x, y := &api.Actions{}, &api.Actions{}
		if aa != nil && an.Has(fd) {
			x.ProtoReflect().Set(fd, an.Get(fd))
		}
		if ba != nil && bn.Has(fd) {
			y.ProtoReflect().Set(fd, bn.Get(fd))
		}
		if !proto.Equal(x, y) {
			out = append(out, "actions."+string(fd.Name()))
		}
	}
	return out
}

func TestVerifC18_policy(t *testing.T) {
	before := runtime.NumGoroutine()
	verifkit.Run(t, "C18_policy", drawC18Policy, runC18Policy)
	c18sSurveyReport(t)
	c18sLeakCheck(t, before)
}

// c18sLeakCheck: every case starts and stops a BgpServer; the servers must not pile up goroutines.
func c18sLeakCheck(t *testing.T, before int) {
	for i := 0; i < 50 && runtime.NumGoroutine() > before+20; i++ {
		time.Sleep(20 * time.Millisecond)
	}
	if n := runtime.NumGoroutine(); n > before+20 {
		t.Errorf("VERIF-HARNESS: %d goroutines before the run, %d after: stopped servers leave goroutines behind", before, n)
	}
}

// ---------------------------------------------------------------------------
// C18_path
// ---------------------------------------------------------------------------

var c18PathFamilies = []bgp.Family{
	bgp.RF_IPv4_UC, bgp.RF_IPv6_UC, bgp.RF_IPv4_VPN, bgp.RF_EVPN, // the families the property names, drawn more often
	bgp.RF_IPv4_UC, bgp.RF_IPv6_UC, bgp.RF_IPv4_VPN, bgp.RF_EVPN,
	bgp.RF_IPv6_VPN, bgp.RF_IPv4_MPLS, bgp.RF_IPv6_MPLS, bgp.RF_FS_IPv4_UC, bgp.RF_VPLS, bgp.RF_MUP_IPv4,
}

// c18ConvertsLosslessly: true when the pure API conversion of the attribute (C18_attr) is exact.
func c18ConvertsLosslessly(a bgp.PathAttributeInterface) (ok bool) {
	defer func() {
		if recover() != nil {
			ok = false
		}
	}()
	b, err := a.Serialize()
	if err != nil {
		return false
	}
	l, err := apiutil.MarshalPathAttributes([]bgp.PathAttributeInterface{a})
	if err != nil || len(l) != 1 || l[0].Attr == nil {
		return false
	}
	a2, err := apiutil.UnmarshalAttribute(l[0])
	if err != nil {
		return false
	}
	b2, err := a2.Serialize()
	if err != nil || !bytes.Equal(b, b2) {
		return false
	}
	// the binary request form must be decodable as well (an empty COMMUNITIES, for one, is not: C04 territory)
	l2, err := apiutil.GetNativePathAttributes(&api.Path{PattrsBinary: [][]byte{b}})
	return err == nil && len(l2) == 1
}

func c18NLRIConvertsLosslessly(f bgp.Family, n bgp.NLRI) (ok bool) {
	defer func() {
		if recover() != nil {
			ok = false
		}
	}()
	b, err := n.Serialize()
	if err != nil {
		return false
	}
	m, err := apiutil.MarshalNLRI(n)
	if err != nil || m == nil || m.Nlri == nil {
		return false
	}
	n2, err := apiutil.UnmarshalNLRI(f, m)
	if err != nil {
		return false
	}
	b2, err := n2.Serialize()
	if err != nil || !bytes.Equal(b, b2) {
		return false
	}
	_, err = bgp.NLRIFromSlice(f, b)
	return err == nil
}

type c18Route struct {
	fam      bgp.Family
	nlri     bgp.NLRI
	id       uint32
	attrs    []bgp.PathAttributeInterface // what was sent, without next hop
	nexthop  netip.Addr
	linkLoc  netip.Addr
	viaMP    bool // next hop sent inside MP_REACH_NLRI (else NEXT_HOP)
	binary   bool // sent as nlri_binary / pattrs_binary
	stream   bool // added the way AddPathStream does (api2Path), not AddPath (api2apiutilPath)
	sent     *api.Path
	nlriWire []byte
}

func c18TypeName(v any) string { return strings.TrimPrefix(fmt.Sprintf("%T", v), "*bgp.") }

func c18GenRoute(s *verifgen.Src, st *verifkit.Stats, haveMacIP *bool) *c18Route {
	r := &c18Route{fam: verifgen.Pick(s, c18PathFamilies)}
	for try := 0; ; try++ {
		r.nlri = verifgen.NLRI(s, r.fam)
		if e, ok := r.nlri.(*bgp.EVPNNLRI); ok {
			if _, mac := e.RouteTypeData.(*bgp.EVPNMacIPAdvertisementRoute); mac {
				if *haveMacIP && try < 8 {
					continue
				}
				*haveMacIP = true
			}
		}
		if c18NLRIConvertsLosslessly(r.fam, r.nlri) || try >= 8 {
			break
		}
		st.Label("nlri-redrawn-lossy-conversion/" + c18TypeName(r.nlri))
	}
	r.nlriWire, _ = r.nlri.Serialize()
	if s.Chance(1, 2) {
		r.id = uint32(1 + s.Intn(5))
	}
	for _, a := range verifgen.AttrSet(s, true, 6) {
		switch a.GetType() {
		case bgp.BGP_ATTR_TYPE_NEXT_HOP, bgp.BGP_ATTR_TYPE_MP_REACH_NLRI, bgp.BGP_ATTR_TYPE_MP_UNREACH_NLRI:
			continue
		}
		if !c18ConvertsLosslessly(a) {
			st.Label("attr-left-out-lossy-conversion/" + c18TypeName(a))
			continue
		}
		r.attrs = append(r.attrs, a)
	}
	// next hop
	fs := r.fam.Safi() == bgp.SAFI_FLOW_SPEC_UNICAST || r.fam.Safi() == bgp.SAFI_FLOW_SPEC_VPN
	switch {
	case fs:
		r.viaMP = true
	case r.fam == bgp.RF_IPv4_UC && s.Chance(2, 3):
		r.nexthop = s.V4()
	case r.fam.Afi() == bgp.AFI_IP6 || s.Chance(1, 4):
		r.viaMP = true
		r.nexthop = s.V6()
		if r.nexthop.IsUnspecified() || r.nexthop.Is4In6() || r.nexthop.IsLinkLocalUnicast() {
			r.nexthop = netip.MustParseAddr("2001:db8::1")
		}
		if r.fam.Afi() == bgp.AFI_IP6 && s.Chance(1, 4) {
			r.linkLoc = netip.AddrFrom16([16]byte{0xfe, 0x80, 15: byte(1 + s.Intn(200))})
		}
	default:
		r.viaMP = true
		r.nexthop = s.V4()
	}
	r.binary = s.Chance(1, 3)
	return r
}

// nexthopAttr is the attribute that carries the next hop in the request.
func (r *c18Route) nexthopAttr() bgp.PathAttributeInterface {
	if !r.viaMP {
		a, _ := bgp.NewPathAttributeNextHop(r.nexthop)
		return a
	}
	var nhs []netip.Addr
	if r.nexthop.IsValid() {
		nhs = append(nhs, r.nexthop)
	}
	if r.linkLoc.IsValid() {
		nhs = append(nhs, r.linkLoc)
	}
	a, _ := bgp.NewPathAttributeMpReachNLRI(r.fam, []bgp.PathNLRI{{NLRI: r.nlri}}, nhs...)
	return a
}

// expectedAttrs: the attributes the RIB must hold for the route, sorted by type code.
func (r *c18Route) expectedAttrs() []bgp.PathAttributeInterface {
	out := append([]bgp.PathAttributeInterface{}, r.attrs...)
	// apiutil2Path: NEXT_HOP for IPv4 unicast with an IPv4 next hop, else MP_REACH_NLRI with the route's NLRI
	if r.fam == bgp.RF_IPv4_UC && r.nexthop.Is4() {
		a, _ := bgp.NewPathAttributeNextHop(r.nexthop)
		out = append(out, a)
	} else {
		out = append(out, r.nexthopAttr())
		if !r.viaMP { // cannot happen (NEXT_HOP is only generated for IPv4 unicast)
			panic("c18: NEXT_HOP for a non IPv4-unicast route")
		}
	}
	// fixupApiPath: ES-Import route target of an Ethernet Segment route (RFC 7432 7.6)
	if e, ok := r.nlri.(*bgp.EVPNNLRI); ok {
		if es, ok := e.RouteTypeData.(*bgp.EVPNEthernetSegmentRoute); ok {
			switch es.ESI.Type {
			case bgp.ESI_LACP, bgp.ESI_MSTP, bgp.ESI_MAC:
				var ecs []bgp.ExtendedCommunityInterface
				idx, has := -1, false
				for i, a := range out {
					if x, ok := a.(*bgp.PathAttributeExtendedCommunities); ok {
						idx = i
						ecs = append(ecs, x.Value...)
						for _, ec := range x.Value {
							if _, ok := ec.(*bgp.ESImportRouteTarget); ok {
								has = true
							}
						}
					}
				}
				if !has {
					ecs = append(ecs, &bgp.ESImportRouteTarget{ESImport: net.HardwareAddr(append([]byte{}, es.ESI.Value[:6]...))})
					na := bgp.NewPathAttributeExtendedCommunities(ecs)
					if idx >= 0 {
						out[idx] = na
					} else {
						out = append(out, na)
					}
				}
			}
		}
	}
	sort.SliceStable(out, func(i, j int) bool { return out[i].GetType() < out[j].GetType() })
	return out
}

func (r *c18Route) build() (*api.Path, error) {
	all := append(append([]bgp.PathAttributeInterface{}, r.attrs...), r.nexthopAttr())
	p := &api.Path{
		Family:     &api.Family{Afi: api.Family_Afi(r.fam.Afi()), Safi: api.Family_Safi(r.fam.Safi())},
		Identifier: r.id,
	}
	if r.binary {
		p.NlriBinary = r.nlriWire
		for _, a := range all {
			b, err := a.Serialize()
			if err != nil {
				return nil, err
			}
			p.PattrsBinary = append(p.PattrsBinary, b)
		}
		return p, nil
	}
	var err error
	if p.Nlri, err = apiutil.MarshalNLRI(r.nlri); err != nil {
		return nil, err
	}
	if p.Pattrs, err = apiutil.MarshalPathAttributes(all); err != nil {
		return nil, err
	}
	return p, nil
}

// shapes: the known-issue shapes of the route (none at present).
func (r *c18Route) shapes() (keys []string) { return nil }

func c18AttrBytes(l []bgp.PathAttributeInterface) ([][]byte, error) {
	out := make([][]byte, 0, len(l))
	for _, a := range l {
		b, err := a.Serialize()
		if err != nil {
			return nil, fmt.Errorf("%s: %w", a.GetType(), err)
		}
		out = append(out, b)
	}
	return out, nil
}

// c18SortByType orders serialised attributes by their type code (octet 1).
func c18SortByType(b [][]byte) [][]byte {
	out := append([][]byte{}, b...)
	sort.SliceStable(out, func(i, j int) bool { return len(out[i]) > 1 && len(out[j]) > 1 && out[i][1] < out[j][1] })
	return out
}

func c18AttrList(b [][]byte) string {
	var sb strings.Builder
	for i, x := range b {
		if i > 0 {
			sb.WriteString(" ")
		}
		fmt.Fprintf(&sb, "%x", x)
	}
	return "[" + sb.String() + "]"
}

// c18AddRoute sends the route the way the gRPC AddPath handler does.
func c18AddRoute(srv *BgpServer, r *c18Route) (*c18sFail, *verifkit.Failure) {
	p, err := r.build()
	if err != nil {
		return nil, verifkit.Failf("generator", "cannot build the request for %s %s: %v", r.fam, r.nlri, err)
	}
	r.sent = p
	if r.stream {
		// ... or the way the AddPathStream handler does (its own converter)
		tp, err := api2Path(api.TableType_TABLE_TYPE_GLOBAL, proto.Clone(p).(*api.Path), false)
		if err != nil {
			return &c18sFail{f: verifkit.Failf("add-rejected", "api2Path (AddPathStream) refuses %v: %v", p, err), shapes: r.shapes()}, nil
		}
		if err := srv.addPathStream("", []*table.Path{tp}); err != nil {
			return &c18sFail{f: verifkit.Failf("add-rejected", "AddPathStream refuses %v: %v", p, err), shapes: r.shapes()}, nil
		}
		return nil, nil
	}
	up, err := api2apiutilPath(proto.Clone(p).(*api.Path))
	if err != nil {
		return &c18sFail{f: verifkit.Failf("add-rejected", "api2apiutilPath refuses %v: %v", p, err), shapes: r.shapes()}, nil
	}
	resp, err := srv.AddPath(apiutil.AddPathRequest{Paths: []*apiutil.Path{up}})
	if err != nil || len(resp) != 1 || resp[0].Error != nil {
		var e2 error
		if len(resp) == 1 {
			e2 = resp[0].Error
		}
		return &c18sFail{f: verifkit.Failf("add-rejected", "AddPath refuses %v: %v %v", p, err, e2), shapes: r.shapes()}, nil
	}
	return nil, nil
}

// c18CheckRoutes lists the global RIB of every family in use, the way the gRPC ListPath handler
// does, and matches the listed routes with the added ones.
func c18CheckRoutes(srv *BgpServer, routes []*c18Route, st *verifkit.Stats) (fails []c18sFail, hard *verifkit.Failure) {
	fail := func(shapes []string, sig, format string, a ...any) {
		fails = append(fails, c18sFail{f: verifkit.Failf(sig, format, a...), shapes: shapes})
	}
	type listed struct {
		p    *api.Path
		used bool
	}
	byFam := map[bgp.Family][]*listed{}
	var fams []bgp.Family
	for _, r := range routes {
		if _, ok := byFam[r.fam]; ok {
			continue
		}
		byFam[r.fam] = nil
		fams = append(fams, r.fam)
		err := srv.ListPath(apiutil.ListPathRequest{TableType: api.TableType_TABLE_TYPE_GLOBAL, Family: r.fam}, func(prefix bgp.NLRI, paths []*apiutil.Path) {
			for _, p := range paths {
				byFam[r.fam] = append(byFam[r.fam], &listed{p: toPathApi(p, false, true, true)})
			}
		})
		if err != nil {
			fail(nil, "list-error", "ListPath(GLOBAL, %s): %v", r.fam, err)
		}
	}
	for _, r := range routes {
		var hit *listed
		for _, l := range byFam[r.fam] {
			if !l.used && bytes.Equal(l.p.NlriBinary, r.nlriWire) && l.p.Identifier == r.id {
				hit = l
				break
			}
		}
		st.SubEval(1)
		if hit == nil {
			var have []string
			for _, l := range byFam[r.fam] {
				have = append(have, fmt.Sprintf("{nlri %x id %d}", l.p.NlriBinary, l.p.Identifier))
			}
			sort.Strings(have)
			fail(r.shapes(), "route-not-listed", "added %s route nlri %x (%s) path-id %d; ListPath(GLOBAL) has %v (request %v)", r.fam, r.nlriWire, r.nlri, r.id, have, r.sent)
			continue
		}
		hit.used = true
		g := hit.p
		if f := bgp.NewFamily(uint16(g.Family.GetAfi()), uint8(g.Family.GetSafi())); f != r.fam {
			fail(nil, "family-mismatch", "added %s route %s, listed with family %s", r.fam, r.nlri, f)
		}
		wantNlri, _ := apiutil.MarshalNLRI(r.nlri)
		st.SubEval(1)
		if !proto.Equal(g.Nlri, wantNlri) {
			fail(nil, "nlri-mismatch", "added %s route %v, listed %v", r.fam, wantNlri, g.Nlri)
		}
		if g.IsWithdraw {
			fail(nil, "listed-withdrawn", "added %s route %s is listed as a withdrawal", r.fam, r.nlri)
		}
		want, err := c18AttrBytes(r.expectedAttrs())
		if err != nil {
			return fails, verifkit.Failf("generator", "expected attributes do not serialise: %v", err)
		}
		st.SubEval(1)
		want = c18SortByType(want)
		gotAttrs := c18SortByType(g.PattrsBinary)
		same := len(want) == len(gotAttrs)
		for i := 0; same && i < len(want); i++ {
			same = bytes.Equal(want[i], gotAttrs[i])
		}
		if !same {
			sent, _ := c18AttrBytes(append(append([]bgp.PathAttributeInterface{}, r.attrs...), r.nexthopAttr()))
			fail(r.shapes(), "attrs-mismatch", "%s route %s path-id %d (binary request: %v):\n sent     %s\n expected %s\n listed   %s", r.fam, r.nlri, r.id, r.binary,
				c18AttrList(sent), c18AttrList(want), c18AttrList(gotAttrs))
			continue
		}
		// the structured attributes of the listed path must describe the same attributes
		back, err := apiutil.UnmarshalPathAttributes(g.Pattrs)
		if err != nil {
			fail(r.shapes(), "listed-pattrs-unusable", "%s route %s: listed pattrs %v cannot be converted back: %v", r.fam, r.nlri, g.Pattrs, err)
			continue
		}
		bb, err := c18AttrBytes(back)
		bb = c18SortByType(bb)
		st.SubEval(1)
		same = err == nil && len(bb) == len(want)
		for i := 0; same && i < len(want); i++ {
			same = bytes.Equal(want[i], bb[i])
		}
		if !same {
			fail(r.shapes(), "listed-pattrs-mismatch", "%s route %s: listed pattrs_binary %s but pattrs convert to %s (%v)", r.fam, r.nlri, c18AttrList(g.PattrsBinary), c18AttrList(bb), err)
		}
	}
	for _, f := range fams {
		for _, l := range byFam[f] {
			if !l.used {
				fail(nil, "unexpected-route", "ListPath(GLOBAL, %s) lists nlri %x path-id %d that was not added", f, l.p.NlriBinary, l.p.Identifier)
			}
		}
	}
	return fails, nil
}

func runC18Path(c c18sCase, st *verifkit.Stats) *verifkit.Failure {
	s := verifgen.NewSrc(c.Recipe)
	srv, err := c18sStart()
	if err != nil {
		return verifkit.Failf("harness", "StartBgp: %v", err)
	}
	defer srv.Stop()
	var fails []c18sFail

	n := 1 + s.Intn(4)
	var routes []*c18Route
	seen := map[string]bool{}
	haveMacIP := false
	nontrivial := false
	for i := 0; i < n; i++ {
		r := c18GenRoute(s, st, &haveMacIP)
		// Two routes with the same RIB key replace each other.  Labels, ESI, gateway... are not part
		// of the key of labelled / VPN / EVPN / VPLS / MUP routes, so one route per such family.
		key := fmt.Sprintf("%s/%x", r.fam, r.nlriWire)
		if r.fam != bgp.RF_IPv4_UC && r.fam != bgp.RF_IPv6_UC && r.fam != bgp.RF_FS_IPv4_UC {
			key = r.fam.String()
		}
		if seen[key] {
			continue
		}
		seen[key] = true
		// (derived from what is already drawn, so that saved recipes keep their meaning)
		r.stream = (len(r.nlriWire)+int(r.id)+i)%3 == 2
		st.Label(map[bool]string{false: "handler/AddPath", true: "handler/AddPathStream"}[r.stream])
		st.Label("family/" + r.fam.String())
		st.Label("nlri/" + c18TypeName(r.nlri))
		if e, ok := r.nlri.(*bgp.EVPNNLRI); ok {
			st.Label("nlri/evpn/" + c18TypeName(e.RouteTypeData))
		}
		for _, a := range r.attrs {
			st.Label("attr/" + c18TypeName(a))
		}
		st.Label(map[bool]string{false: "request/structured", true: "request/binary"}[r.binary])
		st.Label(map[bool]string{false: "path-id/zero", true: "path-id/non-zero"}[r.id != 0])
		switch {
		case !r.viaMP:
			st.Label("next-hop/NEXT_HOP")
		case !r.nexthop.IsValid():
			st.Label("next-hop/none(flowspec)")
		case r.linkLoc.IsValid():
			st.Label("next-hop/MP_REACH/global+link-local")
		case r.nexthop.Is4():
			st.Label("next-hop/MP_REACH/ipv4")
		default:
			st.Label("next-hop/MP_REACH/ipv6")
		}
		if len(r.attrs) > 2 || r.fam != bgp.RF_IPv4_UC && r.fam != bgp.RF_IPv6_UC {
			nontrivial = true
		}
		f, hard := c18AddRoute(srv, r)
		if hard != nil {
			return hard
		}
		if f != nil {
			fails = append(fails, *f)
			continue
		}
		routes = append(routes, r)
	}
	if nontrivial {
		st.Nontrivial()
	}
	more, hard := c18CheckRoutes(srv, routes, st)
	if hard != nil {
		return hard
	}
	return c18sSettle(st, append(fails, more...))
}

// the generators of a route (NLRI, up to 6 attributes, next hop) times up to 4 routes need more
// than the usual 40..240 numbers
func drawC18Path(t *rapid.T) c18sCase {
	return c18sCase{Recipe: rapid.SliceOfN(rapid.Uint32(), 120, 500).Draw(t, "recipe")}
}

func TestVerifC18_path(t *testing.T) {
	before := runtime.NumGoroutine()
	verifkit.Run(t, "C18_path", drawC18Path, runC18Path)
	c18sSurveyReport(t)
	c18sLeakCheck(t, before)
}

// ---------------------------------------------------------------------------
// minimal reproducers of the known issues
// ---------------------------------------------------------------------------

// c18ProbeStatement adds one statement (and a policy referring to it) to a fresh server and
// returns the differences the List calls show.
func c18ProbeStatement(in, want *api.Statement) ([]c18sFail, *verifkit.Failure) {
	ctx := context.Background()
	srv, err := c18sStart()
	if err != nil {
		return nil, verifkit.Failf("harness", "StartBgp: %v", err)
	}
	defer srv.Stop()
	var fails []c18sFail
	if err := srv.AddStatement(ctx, &api.AddStatementRequest{Statement: proto.Clone(in).(*api.Statement)}); err != nil {
		return nil, verifkit.Failf("statement-rejected", "AddStatement refuses %v: %v", in, err)
	}
	check := func(where string, got *api.Statement) {
		for _, field := range c18StatementDiff(want, got) {
			fails = append(fails, c18sFail{shapes: c18FieldShapes(where, field, want, got),
				f: verifkit.Failf("statement-mismatch", "%s differs in %s: added %v, expected %v, listed %v", where, field, in, want, got)})
		}
	}
	_ = srv.ListStatement(ctx, &api.ListStatementRequest{Name: in.Name}, func(a *api.Statement) { check("ListStatement", a) })
	if err := srv.AddPolicy(ctx, &api.AddPolicyRequest{Policy: &api.Policy{Name: "p", Statements: []*api.Statement{{Name: in.Name}}}, ReferExistingStatements: true}); err != nil {
		return nil, verifkit.Failf("policy-rejected", "AddPolicy: %v", err)
	}
	_ = srv.ListPolicy(ctx, &api.ListPolicyRequest{Name: "p"}, func(p *api.Policy) {
		for _, a := range p.Statements {
			check("ListPolicy", a)
		}
	})
	return fails, nil
}

func c18ProbeRoute(r *c18Route) ([]c18sFail, *verifkit.Failure) {
	srv, err := c18sStart()
	if err != nil {
		return nil, verifkit.Failf("harness", "StartBgp: %v", err)
	}
	defer srv.Stop()
	r.nlriWire, _ = r.nlri.Serialize()
	f, hard := c18AddRoute(srv, r)
	if hard != nil {
		return nil, hard
	}
	if f != nil {
		return []c18sFail{*f}, nil
	}
	return c18CheckRoutes(srv, []*c18Route{r}, verifkit.Scratch("C18_path"))
}

func c18Stmt(c *api.Conditions, a *api.Actions) (in, want *api.Statement) {
	in = &api.Statement{Name: "st", Conditions: c, Actions: a}
	want = proto.Clone(in).(*api.Statement)
	if want.Conditions == nil {
		want.Conditions = &api.Conditions{}
	}
	if want.Actions == nil {
		want.Actions = &api.Actions{}
	}
	return in, want
}

type c18ServerProbe struct {
	test string
	run  func() ([]c18sFail, *verifkit.Failure)
}

var c18ServerProbes = map[string]c18ServerProbe{
	"policy-origin-condition-not-listed": {"C18_policy", func() ([]c18sFail, *verifkit.Failure) {
		return c18ProbeStatement(c18Stmt(&api.Conditions{Origin: api.OriginType_ORIGIN_TYPE_EGP}, &api.Actions{OriginAction: &api.OriginAction{Origin: api.OriginType_ORIGIN_TYPE_IGP}}))
	}},
	"policy-zero-value-dropped": {"C18_policy", func() ([]c18sFail, *verifkit.Failure) {
		return c18ProbeStatement(c18Stmt(&api.Conditions{MedEq: &api.MedEq{Value: 0}}, &api.Actions{LocalPref: &api.LocalPrefAction{Value: 0}}))
	}},
	"policy-empty-community-action": {"C18_policy", func() ([]c18sFail, *verifkit.Failure) {
		return c18ProbeStatement(c18Stmt(nil, &api.Actions{Community: &api.CommunityAction{Type: api.CommunityAction_TYPE_REPLACE}}))
	}},
	"policy-med-mod-zero": {"C18_policy", func() ([]c18sFail, *verifkit.Failure) {
		return c18ProbeStatement(c18Stmt(nil, &api.Actions{Med: &api.MedAction{Type: api.MedAction_TYPE_MOD, Value: 0}}))
	}},
	"policy-as4-plain-number-clamped": {"C18_policy", func() ([]c18sFail, *verifkit.Failure) {
		in, want := c18Stmt(nil, &api.Actions{ExtCommunity: &api.CommunityAction{Type: api.CommunityAction_TYPE_ADD, Communities: []string{"soo:100000:5"}}})
		want.Actions.ExtCommunity.Communities = []string{"soo:1.34464:5"} // listed in the asdot form
		return c18ProbeStatement(in, want)
	}},
	"policy-list-statement-community-action-type": {"C18_policy", func() ([]c18sFail, *verifkit.Failure) {
		in, want := c18Stmt(nil, &api.Actions{LargeCommunity: &api.CommunityAction{Type: api.CommunityAction_TYPE_REMOVE, Communities: []string{"65000:1:2"}}})
		want.Actions.LargeCommunity.Communities = []string{"^65000:1:2$"}
		return c18ProbeStatement(in, want)
	}},
	"path-link-local-next-hop-dropped": {"C18_path", func() ([]c18sFail, *verifkit.Failure) {
		n, _ := bgp.NewIPAddrPrefix(netip.MustParsePrefix("2001:db8:1::/48"))
		return c18ProbeRoute(&c18Route{fam: bgp.RF_IPv6_UC, nlri: n, viaMP: true, nexthop: netip.MustParseAddr("2001:db8::1"), linkLoc: netip.MustParseAddr("fe80::1"),
			attrs: []bgp.PathAttributeInterface{bgp.NewPathAttributeOrigin(0)}})
	}},
}

// c18FullPeer is a neighbour with every configuration field set to a non-default value.
func c18FullPeer() *api.Peer {
	fam := &api.Family{Afi: api.Family_AFI_IP, Safi: api.Family_SAFI_UNICAST}
	return &api.Peer{
		Conf: &api.PeerConf{NeighborAddress: "192.0.2.1", PeerAsn: 65001, LocalAsn: 65000, AuthPassword: "pw", Description: "d", PeerGroup: "g", Type: api.PeerType_PEER_TYPE_EXTERNAL,
			RemovePrivate: api.RemovePrivate_REMOVE_PRIVATE_ALL, RouteFlapDamping: true, SendCommunity: 3, NeighborInterface: "eth0", Vrf: "v", AllowOwnAsn: 2, ReplacePeerAsn: true,
			AdminDown: true, SendSoftwareVersion: true, AllowAspathLoopLocal: true},
		Timers:          &api.Timers{Config: &api.TimersConfig{ConnectRetry: 10, HoldTime: 90, KeepaliveInterval: 30, MinimumAdvertisementInterval: 5, IdleHoldTimeAfterReset: 7}},
		RouteReflector:  &api.RouteReflector{RouteReflectorClient: true, RouteReflectorClusterId: "10.0.0.1"},
		RouteServer:     &api.RouteServer{RouteServerClient: true, SecondaryRoute: true},
		GracefulRestart: &api.GracefulRestart{Enabled: true, RestartTime: 120, HelperOnly: true, DeferralTime: 30, NotificationEnabled: true, LonglivedEnabled: true, StaleRoutesTime: 60},
		Transport:       &api.Transport{LocalAddress: "192.0.2.254", LocalPort: 1179, MtuDiscovery: true, PassiveMode: true, RemotePort: 179, TcpMss: 1400, BindInterface: "eth1", IpTos: 192},
		EbgpMultihop:    &api.EbgpMultihop{Enabled: true, MultihopTtl: 3},
		TtlSecurity:     &api.TtlSecurity{Enabled: true, TtlMin: 254},
		Bfd:             &api.BfdPeerConfig{Enabled: true, Port: 3784, DesiredMinimumTxInterval: 300000, RequiredMinimumReceive: 300000, DetectionMultiplier: 3},
		AfiSafis: []*api.AfiSafi{{Config: &api.AfiSafiConfig{Family: fam, Enabled: true},
			RouteSelectionOptions: &api.RouteSelectionOptions{Config: &api.RouteSelectionOptionsConfig{AlwaysCompareMed: true, IgnoreAsPathLength: true, ExternalCompareRouterId: true,
				AdvertiseInactiveRoutes: true, EnableAigp: true, IgnoreNextHopIgpMetric: true, DisableBestPathSelection: true}}}},
	}
}

func init() {
	peer := func(k string) {
		if !strings.HasPrefix(k, "peer-field-lost/") {
			return
		}
		c18ServerProbes[k] = c18ServerProbe{"C18_peer", func() ([]c18sFail, *verifkit.Failure) {
			return c18CheckPeer(c18FullPeer(), verifkit.Scratch("C18_peer"))
		}}
	}
	for k := range C18KnownIssues {
		peer(k)
	}
	for k := range c18ServerFixed {
		peer(k)
	}
}

// c18RunServerProbe returns the failure of the probe that the shape key explains (nil: the issue does not reproduce).
// The probe of a repaired issue (c18ServerFixed) has no shape any more: any difference in the field
// (peer probes: c18sFail.class is the field path) or any difference at all (the other probes) counts.
func c18RunServerProbe(key string) (f *verifkit.Failure, other []string) {
	fails, hard := c18ServerProbes[key].run()
	if hard != nil {
		return hard, nil
	}
	_, fixed := c18ServerFixed[key]
	for _, x := range fails {
		has := false
		for _, k := range x.shapes {
			if k == key {
				has = true
			}
		}
		if fixed && len(x.shapes) == 0 {
			has = !strings.HasPrefix(key, "peer-field-lost/") || c18PeerShape(x.class) == key
		}
		if has && f == nil {
			f = x.f
		} else if !has {
			other = append(other, x.f.Msg)
		}
	}
	return f, other
}

func init() {
	for key, p := range c18ServerProbes {
		key := key
		verifkit.RegisterProbe(p.test, key, func(st *verifkit.Stats) *verifkit.Failure {
			f, _ := c18RunServerProbe(key)
			if f != nil {
				f.Sig = key
			}
			return f
		})
	}
}

// TestVerifC18ServerProbes keeps C18KnownIssues honest (see TestVerifC18Probes in pkg/apiutil).
func TestVerifC18ServerProbes(t *testing.T) {
	if os.Getenv("VERIF_REPLAY") != "" {
		t.Skip("replay mode")
	}
	keys := make([]string, 0, len(C18KnownIssues))
	for k := range C18KnownIssues {
		keys = append(keys, k)
	}
	sort.Strings(keys)
	for _, k := range keys {
		if c18ServerNotes[k] == "" {
			t.Errorf("known issue %s has no note", k)
		}
		if _, ok := c18ServerProbes[k]; !ok {
			t.Errorf("known issue %s has no minimal reproducer", k)
			continue
		}
		f, other := c18RunServerProbe(k)
		switch {
		case f == nil && C18KnownIssues[k]:
			t.Errorf("known issue %s no longer reproduces: set C18KnownIssues[%q] = false (other differences: %q)", k, k, other)
		case f == nil:
			t.Logf("known issue %s: fixed", k)
		default:
			t.Logf("known issue %s: sig=%s %s", k, f.Sig, f.Msg)
		}
	}
	fixed := make([]string, 0, len(c18ServerFixed))
	for k := range c18ServerFixed {
		fixed = append(fixed, k)
	}
	sort.Strings(fixed)
	for _, k := range fixed {
		if _, open := C18KnownIssues[k]; open {
			t.Errorf("%s is listed as fixed and as known issue", k)
		}
		if _, ok := c18ServerProbes[k]; !ok || c18ServerNotes[k] == "" {
			t.Errorf("fixed issue %s has no note or no reproducer", k)
			continue
		}
		if f, _ := c18RunServerProbe(k); f != nil {
			t.Errorf("VERIF-FAIL fixed issue %s (%s) is back: sig=%s %s", k, c18ServerFixed[k], f.Sig, f.Msg)
		}
	}
	for k := range c18ServerProbes {
		_, open := C18KnownIssues[k]
		_, done := c18ServerFixed[k]
		if !open && !done {
			t.Errorf("probe %s has neither a C18KnownIssues nor a c18ServerFixed entry", k)
		}
	}
}

func c18sFuzzCase(data []byte) c18sCase {
	var c c18sCase
	for len(data) >= 4 {
		c.Recipe = append(c.Recipe, uint32(data[0])|uint32(data[1])<<8|uint32(data[2])<<16|uint32(data[3])<<24)
		data = data[4:]
	}
	return c
}

func FuzzVerifC18_policy(f *testing.F) {
	f.Add([]byte{})
	f.Add(bytes.Repeat([]byte{9, 9, 9, 9, 1, 0, 0, 0, 7, 7, 7, 7, 3, 0, 0, 0, 2, 0, 0, 0, 5, 5, 5, 5, 0xff, 0xff, 0xff, 0xff}, 24))
	f.Fuzz(func(t *testing.T, data []byte) {
		if fail := runC18Policy(c18sFuzzCase(data), verifkit.Scratch("C18_policy")); fail != nil {
			t.Fatalf("VERIF-FAIL C18_policy sig=%q: %s", fail.Sig, fail.Msg)
		}
	})
}

func FuzzVerifC18_path(f *testing.F) {
	f.Add([]byte{})
	f.Add(bytes.Repeat([]byte{9, 9, 9, 9, 1, 0, 0, 0, 7, 7, 7, 7, 3, 0, 0, 0, 2, 0, 0, 0, 5, 5, 5, 5, 0xff, 0xff, 0xff, 0xff}, 12))
	f.Fuzz(func(t *testing.T, data []byte) {
		if fail := runC18Path(c18sFuzzCase(data), verifkit.Scratch("C18_path")); fail != nil {
			t.Fatalf("VERIF-FAIL C18_path sig=%q: %s", fail.Sig, fail.Msg)
		}
	})
}

// ---------------------------------------------------------------------------
// C18_peer — neighbour configuration: api.Peer -> oc.Neighbor -> api.Peer
// ---------------------------------------------------------------------------
//
// The gRPC layer turns the api.Peer of AddPeer/UpdatePeer into the native oc.Neighbor with
// newNeighborFromAPIStruct and reports neighbours with oc.NewPeerFromConfigStruct.  The oracle:
// every configuration field the generator sets (a value the native field can hold) must come
// back with the same value; fields the generator leaves unset and the state sections are not
// compared.

func c18GenFamilyMsg(s *verifgen.Src) *api.Family {
	f := verifgen.Pick(s, verifgen.AllFamilies)
	return &api.Family{Afi: api.Family_Afi(f.Afi()), Safi: api.Family_Safi(f.Safi())}
}

func c18GenApplyPolicy(s *verifgen.Src) *api.ApplyPolicy {
	gen := func(dir api.PolicyDirection) *api.PolicyAssignment {
		if s.Chance(1, 4) {
			return nil
		}
		a := &api.PolicyAssignment{Direction: dir, DefaultAction: api.RouteAction(s.Intn(3))}
		for i, n := 0, s.Len(3); i < n; i++ {
			a.Policies = append(a.Policies, &api.Policy{Name: fmt.Sprintf("pol%d", s.Intn(9))})
		}
		return a
	}
	return &api.ApplyPolicy{ImportPolicy: gen(api.PolicyDirection_POLICY_DIRECTION_IMPORT), ExportPolicy: gen(api.PolicyDirection_POLICY_DIRECTION_EXPORT)}
}

func c18GenPeer(s *verifgen.Src, label func(string)) *api.Peer {
	addr := func() string {
		if s.Chance(1, 3) {
			return s.V6().String()
		}
		return s.V4().String()
	}
	name := func(p string) string { return fmt.Sprintf("%s%d", p, s.Intn(100)) }
	p := &api.Peer{}
	p.Conf = &api.PeerConf{
		NeighborAddress: addr(), PeerAsn: verifgen.ASN(s), LocalAsn: verifgen.ASN(s), AuthPassword: name("pw"), Description: name("peer "),
		PeerGroup: name("grp"), Type: api.PeerType(s.Intn(3)), RemovePrivate: api.RemovePrivate(s.Intn(3)), RouteFlapDamping: s.Bool(), SendCommunity: uint32(s.Intn(4)),
		NeighborInterface: name("eth"), Vrf: name("vrf"), AllowOwnAsn: uint32(s.Intn(256)), ReplacePeerAsn: s.Bool(), AdminDown: s.Bool(),
		SendSoftwareVersion: s.Bool(), AllowAspathLoopLocal: s.Bool(),
	}
	if s.Chance(3, 4) {
		p.Timers = &api.Timers{Config: &api.TimersConfig{ConnectRetry: uint64(s.U16()), HoldTime: uint64(s.U16()), KeepaliveInterval: uint64(s.U16()),
			MinimumAdvertisementInterval: uint64(s.U16()), IdleHoldTimeAfterReset: uint64(s.U16())}}
		label("peer/timers")
	}
	if s.Chance(1, 2) {
		p.RouteReflector = &api.RouteReflector{RouteReflectorClient: s.Bool(), RouteReflectorClusterId: s.V4().String()}
		label("peer/route-reflector")
	}
	if s.Chance(1, 2) {
		p.RouteServer = &api.RouteServer{RouteServerClient: s.Bool(), SecondaryRoute: s.Bool()}
		label("peer/route-server")
	}
	if s.Chance(1, 2) {
		p.GracefulRestart = &api.GracefulRestart{Enabled: s.Bool(), RestartTime: uint32(s.Intn(4096)), HelperOnly: s.Bool(), DeferralTime: uint32(s.U16()),
			NotificationEnabled: s.Bool(), LonglivedEnabled: s.Bool(), StaleRoutesTime: uint32(s.U16())} // mode, *_restarting and peer_restart_time are operational state
		label("peer/graceful-restart")
	}
	if s.Chance(1, 2) {
		p.Transport = &api.Transport{LocalAddress: addr(), LocalPort: uint32(s.U16()), MtuDiscovery: s.Bool(), PassiveMode: s.Bool(), RemotePort: uint32(s.U16()),
			TcpMss: uint32(s.U16()), BindInterface: name("eth"), IpTos: uint32(s.Intn(256))}
		label("peer/transport")
	}
	if s.Chance(1, 2) {
		p.EbgpMultihop = &api.EbgpMultihop{Enabled: s.Bool(), MultihopTtl: uint32(s.Intn(256))}
		label("peer/ebgp-multihop")
	}
	if s.Chance(1, 2) {
		p.TtlSecurity = &api.TtlSecurity{Enabled: s.Bool(), TtlMin: uint32(s.Intn(256))}
		label("peer/ttl-security")
	}
	if s.Chance(1, 2) {
		p.Bfd = &api.BfdPeerConfig{Enabled: s.Bool(), Port: uint32(s.U16()), DesiredMinimumTxInterval: s.U32(), RequiredMinimumReceive: s.U32(), DetectionMultiplier: uint32(s.Intn(256))}
		label("peer/bfd")
	}
	if s.Chance(1, 2) {
		p.ApplyPolicy = c18GenApplyPolicy(s)
		label("peer/apply-policy")
	}
	seen := map[string]bool{}
	for i, n := 0, s.Len(3); i < n; i++ {
		fam := c18GenFamilyMsg(s)
		if seen[fam.String()] {
			continue
		}
		seen[fam.String()] = true
		af := &api.AfiSafi{Config: &api.AfiSafiConfig{Family: fam, Enabled: s.Bool()}}
		if s.Bool() {
			af.MpGracefulRestart = &api.MpGracefulRestart{Config: &api.MpGracefulRestartConfig{Enabled: s.Bool()}}
		}
		if s.Bool() {
			af.ApplyPolicy = c18GenApplyPolicy(s)
		}
		if s.Bool() {
			af.RouteSelectionOptions = &api.RouteSelectionOptions{Config: &api.RouteSelectionOptionsConfig{AlwaysCompareMed: s.Bool(), IgnoreAsPathLength: s.Bool(),
				ExternalCompareRouterId: s.Bool(), AdvertiseInactiveRoutes: s.Bool(), EnableAigp: s.Bool(), IgnoreNextHopIgpMetric: s.Bool(), DisableBestPathSelection: s.Bool()}}
		}
		if s.Bool() {
			af.UseMultiplePaths = &api.UseMultiplePaths{Config: &api.UseMultiplePathsConfig{Enabled: s.Bool()},
				Ebgp: &api.Ebgp{Config: &api.EbgpConfig{AllowMultipleAsn: s.Bool(), MaximumPaths: s.U32()}}, Ibgp: &api.Ibgp{Config: &api.IbgpConfig{MaximumPaths: s.U32()}}}
		}
		if s.Bool() {
			af.PrefixLimits = &api.PrefixLimit{Family: fam, MaxPrefixes: 1 + s.U32()%4294967295, ShutdownThresholdPct: uint32(s.Intn(101))} // 0 = no limit = absent
		}
		if s.Bool() {
			af.RouteTargetMembership = &api.RouteTargetMembership{Config: &api.RouteTargetMembershipConfig{DeferralTime: uint32(s.U16())}}
		}
		if s.Bool() {
			af.LongLivedGracefulRestart = &api.LongLivedGracefulRestart{Config: &api.LongLivedGracefulRestartConfig{Enabled: s.Bool(), RestartTime: uint32(s.Intn(1 << 24))}}
		}
		if s.Bool() {
			af.AddPaths = &api.AddPaths{Config: &api.AddPathsConfig{Receive: s.Bool(), SendMax: uint32(s.Intn(256))}}
		}
		p.AfiSafis = append(p.AfiSafis, af)
	}
	label(fmt.Sprintf("peer/afi-safis/%d", len(p.AfiSafis)))
	return p
}

// c18ProtoLost lists the paths of the fields that are set in a and have another value in b.
func c18ProtoLost(prefix string, a, b protoreflect.Message) (out []string) {
	a.Range(func(fd protoreflect.FieldDescriptor, v protoreflect.Value) bool {
		path := prefix + string(fd.Name())
		switch {
		case fd.IsList():
			la, lb := v.List(), b.Get(fd).List()
			if la.Len() != lb.Len() {
				out = append(out, fmt.Sprintf("%s(len %d -> %d)", path, la.Len(), lb.Len()))
				return true
			}
			for i := 0; i < la.Len(); i++ {
				if fd.Message() != nil {
					out = append(out, c18ProtoLost(path+"[]."+"", la.Get(i).Message(), lb.Get(i).Message())...)
				} else if !la.Get(i).Equal(lb.Get(i)) {
					out = append(out, path+"[]")
				}
			}
		case fd.Message() != nil:
			if !b.Has(fd) {
				out = append(out, path+"(absent)")
				return true
			}
			out = append(out, c18ProtoLost(path+".", v.Message(), b.Get(fd).Message())...)
		default:
			if !v.Equal(b.Get(fd)) {
				out = append(out, path)
			}
		}
		return true
	})
	sort.Strings(out)
	return out
}

// c18PeerNormalise applies the documented defaults to the expected message.
func c18PeerNormalise(p *api.Peer) {
	if p.Conf != nil && p.Conf.Type == api.PeerType_PEER_TYPE_UNSPECIFIED {
		p.Conf.Type = api.PeerType_PEER_TYPE_INTERNAL // PeerTypeFromApi: anything but EXTERNAL is internal
	}
}

func c18PeerShape(path string) string {
	// indices of repeated fields are already elided ("afi_safis[].")
	return "peer-field-lost/" + path
}

func runC18Peer(c c18sCase, st *verifkit.Stats) *verifkit.Failure {
	s := verifgen.NewSrc(c.Recipe)
	in := c18GenPeer(s, func(l string) { st.Label(l) })
	fails, hard := c18CheckPeer(in, st)
	if hard != nil {
		return hard
	}
	if len(in.AfiSafis) > 0 || in.ApplyPolicy != nil || in.Transport != nil {
		st.Nontrivial()
	}
	return c18sSettle(st, fails)
}

func c18CheckPeer(in *api.Peer, st *verifkit.Stats) (fails []c18sFail, hard *verifkit.Failure) {
	want := proto.Clone(in).(*api.Peer)
	c18PeerNormalise(want)
	var n *oc.Neighbor
	var out *api.Peer
	var err error
	func() {
		defer func() {
			if r := recover(); r != nil {
				hard = verifkit.Failf("panic-peer", "converting %v panicked: %v", in, r)
			}
		}()
		n, err = newNeighborFromAPIStruct(proto.Clone(in).(*api.Peer))
		if err == nil {
			out = oc.NewPeerFromConfigStruct(n)
		}
	}()
	if hard != nil {
		return nil, hard
	}
	if err != nil {
		return nil, verifkit.Failf("peer-rejected", "newNeighborFromAPIStruct refuses %v: %v", in, err)
	}
	if out == nil {
		return nil, verifkit.Failf("peer-nil", "NewPeerFromConfigStruct returns nil for %v", in)
	}
	st.SubEval(1)
	lost := c18ProtoLost("", want.ProtoReflect(), out.ProtoReflect())
	seen := map[string]bool{}
	for _, path := range lost {
		key := path
		if i := strings.IndexByte(key, '('); i >= 0 {
			key = key[:i]
		}
		if seen[key] {
			continue
		}
		seen[key] = true
		var shapes []string
		if _, ok := C18KnownIssues[c18PeerShape(key)]; ok {
			shapes = []string{c18PeerShape(key)}
		}
		fails = append(fails, c18sFail{class: key, shapes: shapes,
			f: verifkit.Failf("peer-field-lost", "api.Peer field %s does not survive api -> oc.Neighbor -> api:\n sent   %v\n listed %v", path, in, out)})
	}
	return fails, nil
}

func TestVerifC18_peer(t *testing.T) {
	verifkit.Run(t, "C18_peer", drawC18s, runC18Peer)
	c18sSurveyReport(t)
}

func FuzzVerifC18_peer(f *testing.F) {
	f.Add([]byte{})
	f.Add(bytes.Repeat([]byte{9, 9, 9, 9, 1, 0, 0, 0, 7, 7, 7, 7, 3, 0, 0, 0, 2, 0, 0, 0, 5, 5, 5, 5, 0xff, 0xff, 0xff, 0xff}, 8))
	f.Fuzz(func(t *testing.T, data []byte) {
		if fail := runC18Peer(c18sFuzzCase(data), verifkit.Scratch("C18_peer")); fail != nil {
			t.Fatalf("VERIF-FAIL C18_peer sig=%q: %s", fail.Sig, fail.Msg)
		}
	})
}
