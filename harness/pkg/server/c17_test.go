package server

// C17 — VRF import/export and RT Constraint distribute exactly the matching routes.
//
// Topology in virtual time: a VPN peer P (ipv4-vpn), a VPN peer Q that also
// negotiates Route Target Constraint (ipv4-vpn + rtc), two CE peers attached to
// VRFs v0 and v1 (ipv4-unicast), a third VRF v2 that is added and deleted during the
// history.  VRFs get generated, overlapping import/export route-target sets.  The
// history mixes VPN announcements/withdrawals by P with arbitrary route-target sets,
// CE announcements/withdrawals, RT membership announcements/withdrawals by Q (also
// duplicates, different origin AS, the default membership) and VRF add/delete.  After
// every operation, at quiescence, with G = VPN routes announced by P plus the CE routes
// exported with their VRF's RD and export targets:
//   * ListPath(vrf v)  == { g in G : targets(g) meets import(v) }
//   * CE of v holds    == prefixes of that set not originated by itself
//   * P holds          == the exported CE routes, each with its VRF's RD and export targets
//   * Q holds          == { g in G : Q has a membership for one of targets(g), or the default }

import (
	"context"
	"fmt"
	"net/netip"
	"os"
	"sort"
	"strings"
	"testing"
	"time"

	"github.com/osrg/gobgp/v4/api"
	"github.com/osrg/gobgp/v4/internal/pkg/verifkit"
	"github.com/osrg/gobgp/v4/pkg/apiutil"
	"github.com/osrg/gobgp/v4/pkg/packet/bgp"
	"pgregory.net/rapid"
)

const (
	c17VPNAnnounce = iota
	c17VPNWithdraw
	c17CEAnnounce
	c17CEWithdraw
	c17Member
	c17Unmember
	c17AddVrf
	c17DelVrf
	c17VPN2Announce // a second VPN source announces the same (RD, prefix) with a longer AS_PATH
	c17VPN2Withdraw
	c17QFlap // Q's session is lost (no graceful restart) and comes back: its memberships are gone, it starts from nothing
	c17Ops
)

type c17Op struct {
	Kind   int   `json:"kind"`
	A      int   `json:"a"`      // prefix index / RT index / CE index
	RD     int   `json:"rd"`     // RD index for VPN routes
	RTs    []int `json:"rts"`    // RT indexes on a VPN route
	Origin int   `json:"origin"` // origin AS selector of a membership
	CE     int   `json:"ce"`
}

type c17Vrf struct {
	Import []int `json:"import"`
	Export []int `json:"export"`
}

type c17Case struct {
	Vrfs [3]c17Vrf `json:"vrfs"` // v0, v1 have CEs; v2 comes and goes
	Ops  []c17Op   `json:"ops"`
	// FreeRD lets P announce one prefix under both RDs (never generated: known finding C17-K1,
	// the export to a VRF's CE does no best-path choice across RDs); failures get the suffix "-cross-rd"
	FreeRD bool `json:"free_rd"`
	// Race: bit i set = operation i+1 is issued without waiting for operation i to settle (they are handled concurrently
	// by the goroutines of their sessions); Sched steers the yield points
	Race  uint32 `json:"race"`
	Sched uint64 `json:"sched"`
	// CEAddPath: the CE sessions negotiate ADD-PATH (the server receives); a CE announces its prefix under path
	// identifier 1+Origin and withdraws identifiers one by one: the route is exported while one identifier is left
	CEAddPath bool `json:"ce_add_path,omitempty"`
	// QAddPath: the RTC peer Q is sent up to two paths per VPN destination (ADD-PATH): what it is told and what is
	// withdrawn from it when a membership goes covers every path, not only the best one
	QAddPath bool `json:"q_add_path,omitempty"`
	// QSpecific: (no longer used; once marked the histories in which an ADD-PATH Q announced memberships for specific
	// targets, which finding C17-F5 concerned; kept so that the saved case still parses)
	QSpecific bool `json:"q_specific,omitempty"`
}

const c17NRT = 4

func c17RT(i int) bgp.ExtendedCommunityInterface {
	return bgp.NewTwoOctetAsSpecificExtended(bgp.EC_SUBTYPE_ROUTE_TARGET, 65000, uint32(1+i), true)
}
func c17RTString(i int) string { return fmt.Sprintf("65000:%d", 1+i) }

func drawC17(t *rapid.T) c17Case {
	var c c17Case
	set := func(l string) []int {
		m := rapid.IntRange(1, (1<<c17NRT)-1).Draw(t, l)
		var out []int
		for i := 0; i < c17NRT; i++ {
			if m&(1<<i) != 0 && len(out) < 3 {
				out = append(out, i)
			}
		}
		return out
	}
	for i := range c.Vrfs {
		c.Vrfs[i] = c17Vrf{Import: set(fmt.Sprintf("v%dimp", i)), Export: set(fmt.Sprintf("v%dexp", i))}
	}
	n := rapid.IntRange(3, 30).Draw(t, "nops")
	for i := 0; i < n; i++ {
		l := fmt.Sprintf("o%d", i)
		op := c17Op{Kind: rapid.SampledFrom([]int{c17VPNAnnounce, c17VPNAnnounce, c17VPNAnnounce, c17VPNWithdraw, c17VPNWithdraw, c17CEAnnounce, c17CEAnnounce, c17CEWithdraw, c17Member, c17Member, c17Unmember, c17AddVrf, c17DelVrf, c17VPN2Announce, c17VPN2Announce, c17VPN2Withdraw, c17QFlap}).Draw(t, l+"k"),
			A: rapid.IntRange(0, 3).Draw(t, l+"a"), RD: rapid.IntRange(0, 1).Draw(t, l+"rd"), Origin: rapid.IntRange(0, 1).Draw(t, l+"orig"), CE: rapid.IntRange(0, 1).Draw(t, l+"ce")}
		if op.Kind == c17VPNAnnounce || op.Kind == c17VPN2Announce {
			// a list, not a set: a target may be repeated
			for j, n := 0, rapid.IntRange(0, 4).Draw(t, l+"nrts"); j < n; j++ {
				op.RTs = append(op.RTs, rapid.IntRange(0, c17NRT-1).Draw(t, fmt.Sprintf("%srt%d", l, j)))
			}
		}
		if op.Kind == c17Member || op.Kind == c17Unmember {
			op.A = rapid.IntRange(-1, c17NRT-1).Draw(t, l+"rt") // -1 = default membership
		}
		c.Ops = append(c.Ops, op)
	}
	c.CEAddPath = rapid.IntRange(0, 2).Draw(t, "ce_add_path") == 0
	c.QAddPath = rapid.IntRange(0, 2).Draw(t, "q_add_path") == 0
	if rapid.IntRange(0, 1).Draw(t, "racing") == 0 {
		c.Race = rapid.Uint32().Draw(t, "race")
		c.Sched = uint64(rapid.IntRange(1, 1<<30).Draw(t, "sched"))
	}
	return c
}

type c17Route struct {
	rd     string
	prefix string
	rts    map[int]bool
	fromCE int // -1: from P
}

type c17Run struct {
	c      *c17Case
	n      *simNet
	p, q   rsPeer
	p2     rsPeer
	sp2    *simSess
	vp2    *c17View
	vpn2   map[string]c17Route // the second source's announcements
	ce     [2]rsPeer
	sp, sq *simSess
	sce    [2]*simSess
	vp, vq *c17View
	vce    [2]*rsView
	vpn    map[string]c17Route // P's announcements, key rd|prefix
	ceRt   [2]map[int]bool     // CE announcements (prefix indexes)
	ceIDs  [2]map[uint32]bool  // with ADD-PATH: the path identifiers the CE currently announces its prefix under
	member map[string]bool     // Q's memberships, key origin|rt
	v2     bool
	log    []string
}

// c17View: what a VPN peer holds, key "rd prefix" -> sorted route targets
type c17View struct {
	seen    int
	entries map[string]string
	errs    []string
	// addpath: the session carries path identifiers towards this peer; a destination is held while one identifier is
	paths map[string]map[uint32]string
	opt   *bgp.MarshallingOption
}

func (v *c17View) feed(rx []simMsg) {
	for ; v.seen < len(rx); v.seen++ {
		m := rx[v.seen]
		if m.Type() != bgp.BGP_MSG_UPDATE {
			continue
		}
		var pm *bgp.BGPMessage
		var err error
		if v.opt != nil {
			pm, err = bgp.ParseBGPMessage(m.Raw, v.opt)
		} else {
			pm, err = bgp.ParseBGPMessage(m.Raw)
		}
		if err != nil {
			v.errs = append(v.errs, fmt.Sprintf("message %d does not parse: %v", v.seen, err))
			continue
		}
		u := pm.Body.(*bgp.BGPUpdate)
		var rts []string
		for _, a := range u.PathAttributes {
			if ec, ok := a.(*bgp.PathAttributeExtendedCommunities); ok {
				for _, e := range ec.Value {
					if _, st := e.GetTypes(); st == bgp.EC_SUBTYPE_ROUTE_TARGET {
						rts = append(rts, e.String())
					}
				}
			}
		}
		sort.Strings(rts)
		rts = c10UniqSorted(rts) // a repeated target is passed on as received; the set is what matters
		for _, a := range u.PathAttributes {
			switch mp := a.(type) {
			case *bgp.PathAttributeMpUnreachNLRI:
				if mp.SAFI == bgp.SAFI_MPLS_VPN {
					for _, nl := range mp.Value {
						if l, ok := nl.NLRI.(*bgp.LabeledVPNIPAddrPrefix); ok {
							k := l.RD.String() + " " + l.Prefix.String()
							if os.Getenv("VERIF_C17_TRACE") != "" {
								fmt.Fprintf(os.Stderr, "view unreach %s id %d opt=%v paths=%v\n", k, nl.ID, v.opt != nil, v.paths[k])
							}
							if v.opt != nil {
								delete(v.paths[k], nl.ID)
								if len(v.paths[k]) > 0 {
									continue
								}
							}
							delete(v.entries, k)
						}
					}
				}
			case *bgp.PathAttributeMpReachNLRI:
				if mp.SAFI == bgp.SAFI_MPLS_VPN {
					for _, nl := range mp.Value {
						if l, ok := nl.NLRI.(*bgp.LabeledVPNIPAddrPrefix); ok {
							k := l.RD.String() + " " + l.Prefix.String()
							if v.opt != nil {
								if v.paths == nil {
									v.paths = map[string]map[uint32]string{}
								}
								if v.paths[k] == nil {
									v.paths[k] = map[uint32]string{}
								}
								v.paths[k][nl.ID] = strings.Join(rts, ",")
								if os.Getenv("VERIF_C17_TRACE") != "" {
									fmt.Fprintf(os.Stderr, "view reach %s id %d paths=%v at msg %d\n", k, nl.ID, v.paths[k], v.seen)
								}
							}
							v.entries[k] = strings.Join(rts, ",")
						}
					}
				}
			}
		}
	}
}

// newQView: Q's view parses path identifiers when its session has ADD-PATH
func (r *c17Run) newQView() *c17View {
	v := &c17View{entries: map[string]string{}}
	if r.c.QAddPath {
		v.opt = &bgp.MarshallingOption{AddPath: map[bgp.Family]bgp.BGPAddPathMode{bgp.RF_IPv4_VPN: bgp.BGP_ADD_PATH_RECEIVE}}
	}
	return v
}

func (r *c17Run) qSpec() simOpenSpec {
	spec := simOpenSpec{Families: []uint32{uint32(bgp.RF_IPv4_VPN), uint32(bgp.RF_RTC_UC)}, RR: true}
	if r.c.QAddPath {
		spec.AddPath = []uint32{uint32(bgp.RF_IPv4_VPN)<<8 | uint32(bgp.BGP_ADD_PATH_RECEIVE)}
	}
	return spec
}

func (r *c17Run) logf(f string, a ...any) { r.log = append(r.log, fmt.Sprintf(f, a...)) }
func (r *c17Run) fail(sig, f string, a ...any) *verifkit.Failure {
	if r.c.FreeRD {
		sig += "-cross-rd"
	}
	return verifkit.Failf(sig, "%s\n  history:\n   %s", fmt.Sprintf(f, a...), strings.Join(r.log, "\n   "))
}

func c17Prefix(i int) netip.Prefix { return netip.MustParsePrefix(fmt.Sprintf("10.17.%d.0/24", i)) }
func c17RD(i int) string           { return fmt.Sprintf("65001:%d", 1+i) }
func c17VrfRD(i int) string        { return fmt.Sprintf("65000:%d", 100+i) }

func c17ApiVrf(i int, v c17Vrf) *api.Vrf {
	rd, _ := bgp.ParseRouteDistinguisher(c17VrfRD(i))
	var im, ex []bgp.ExtendedCommunityInterface
	for _, x := range v.Import {
		im = append(im, c17RT(x))
	}
	for _, x := range v.Export {
		ex = append(ex, c17RT(x))
	}
	ard, _ := apiutil.MarshalRD(rd)
	aim, _ := apiutil.MarshalRTs(im)
	aex, _ := apiutil.MarshalRTs(ex)
	return &api.Vrf{Name: fmt.Sprintf("v%d", i), Id: uint32(1 + i), Rd: ard, ImportRt: aim, ExportRt: aex}
}

func c17VpnPeer(p *rsPeer, rtc bool) *api.Peer {
	ap := &api.Peer{
		Conf:      &api.PeerConf{NeighborAddress: p.Addr, PeerAsn: p.AS},
		Transport: &api.Transport{PassiveMode: true},
		Timers:    &api.Timers{Config: &api.TimersConfig{HoldTime: 0, KeepaliveInterval: 0}},
	}
	fams := []bgp.Family{bgp.RF_IPv4_VPN}
	if rtc {
		fams = append(fams, bgp.RF_RTC_UC)
	}
	for _, f := range fams {
		ap.AfiSafis = append(ap.AfiSafis, &api.AfiSafi{Config: &api.AfiSafiConfig{Family: c08ApiFamily(f), Enabled: true}})
	}
	return ap
}

func (r *c17Run) global() map[string]c17Route {
	g := map[string]c17Route{}
	for k, v := range r.vpn2 {
		g[k] = v // (P's announcement of the same key, with the shorter AS_PATH, wins below)
	}
	for k, v := range r.vpn {
		g[k] = v
	}
	for ci := 0; ci < 2; ci++ {
		for pi := range r.ceRt[ci] {
			rts := map[int]bool{}
			for _, x := range r.c.Vrfs[ci].Export {
				rts[x] = true
			}
			rt := c17Route{rd: c17VrfRD(ci), prefix: c17Prefix(pi).String(), rts: rts, fromCE: ci}
			g[rt.rd+" "+rt.prefix] = rt
		}
	}
	return g
}

func c17Meets(rts map[int]bool, set []int) bool {
	for _, x := range set {
		if rts[x] {
			return true
		}
	}
	return false
}

func (r *c17Run) verify(step string) *verifkit.Failure {
	r.n.settle()
	g := r.global()
	// ---- VRF tables ----
	for vi := 0; vi < 3; vi++ {
		if vi == 2 && !r.v2 {
			continue
		}
		// the VRF table lists the imported VPN destinations ("rd:prefix")
		want := map[string]bool{}
		for _, rt := range g {
			if c17Meets(rt.rts, r.c.Vrfs[vi].Import) {
				want[rt.rd+":"+rt.prefix] = true
			}
		}
		got := map[string]bool{}
		err := r.n.s.ListPath(apiutil.ListPathRequest{TableType: api.TableType_TABLE_TYPE_VRF, Name: fmt.Sprintf("v%d", vi), Family: bgp.RF_IPv4_UC}, func(prefix bgp.NLRI, paths []*apiutil.Path) {
			// one path per source that announces the destination (both carry the same targets)
			n := 0
			for _, st := range []map[string]c17Route{r.vpn, r.vpn2} {
				for _, rt := range st {
					if rt.rd+":"+rt.prefix == prefix.String() {
						n++
					}
				}
			}
			if n == 0 {
				n = 1 // a CE route
				for ci := 0; ci < 2; ci++ {
					if r.c.CEAddPath && strings.HasPrefix(prefix.String(), c17VrfRD(ci)+":") {
						n = len(r.ceIDs[ci]) // one path per identifier
					}
				}
			}
			if len(paths) != n {
				got[fmt.Sprintf("%s x%d (expected x%d)", prefix, len(paths), n)] = true
				return
			}
			got[prefix.String()] = true
		})
		if err != nil {
			return r.fail("vrf-list", "%s: ListPath(vrf v%d): %v", step, vi, err)
		}
		for k := range want {
			if !got[k] {
				return r.fail("vrf-missing", "%s: VRF v%d (import %v) lacks %s (listed: %v)", step, vi, r.c.Vrfs[vi].Import, k, got)
			}
		}
		for k := range got {
			if !want[k] {
				return r.fail("vrf-extra", "%s: VRF v%d (import %v) shows %s, which has none of its import targets or is gone", step, vi, r.c.Vrfs[vi].Import, k)
			}
		}
	}
	// ---- CE views ----
	for ci := 0; ci < 2; ci++ {
		rx, eof, _ := r.sce[ci].snapshot()
		if eof {
			return r.fail("session", "%s: CE %d session ended", step, ci)
		}
		r.vce[ci].feed(rx, rsRxOpt(&r.ce[ci]))
		want := map[string]bool{}
		for _, rt := range g {
			if c17Meets(rt.rts, r.c.Vrfs[ci].Import) && rt.fromCE != ci {
				want[rt.prefix] = true
			}
		}
		got := map[string]bool{}
		for k := range r.vce[ci].entries {
			got[k.Prefix] = true
		}
		for k := range want {
			if !got[k] {
				return r.fail("ce-missing", "%s: CE %d (VRF v%d, import %v) was not told about %s", step, ci, ci, r.c.Vrfs[ci].Import, k)
			}
		}
		for k := range got {
			if !want[k] {
				return r.fail("ce-extra", "%s: CE %d (VRF v%d, import %v) holds %s, which is not importable (any more)", step, ci, ci, r.c.Vrfs[ci].Import, k)
			}
		}
	}
	// ---- P: the exported CE routes ----
	check := func(who string, ss *simSess, v *c17View, want map[string]string) *verifkit.Failure {
		rx, eof, _ := ss.snapshot()
		if eof {
			return r.fail("session", "%s: %s session ended", step, who)
		}
		v.feed(rx)
		if len(v.errs) > 0 {
			return r.fail("wire", "%s: %s: %s", step, who, v.errs[0])
		}
		for k, w := range want {
			g, ok := v.entries[k]
			if !ok {
				return r.fail(who+"-missing", "%s: %s was not told about %s (targets %s); it holds %v (per identifier: %v)", step, who, k, w, v.entries, v.paths)
			}
			if g != w {
				return r.fail(who+"-targets", "%s: %s holds %s with route targets [%s], must be [%s]", step, who, k, g, w)
			}
		}
		for k, g := range v.entries {
			if _, ok := want[k]; !ok {
				return r.fail(who+"-extra", "%s: %s holds %s (targets %s), which must not be advertised to it (any more)", step, who, k, g)
			}
		}
		return nil
	}
	rtString := func(rts map[int]bool) string {
		var l []string
		for x := range rts {
			l = append(l, c17RTString(x))
		}
		sort.Strings(l)
		return strings.Join(l, ",")
	}
	wantP, wantP2 := map[string]string{}, map[string]string{}
	for k, rt := range g {
		switch rt.fromCE {
		case -1: // P's own: goes to the second source
			wantP2[k] = rtString(rt.rts)
		case -2: // the second source's: goes to P
			wantP[k] = rtString(rt.rts)
		default:
			wantP[k] = rtString(rt.rts)
			wantP2[k] = rtString(rt.rts)
		}
	}
	if f := check("P", r.sp, r.vp, wantP); f != nil {
		return f
	}
	if f := check("P2", r.sp2, r.vp2, wantP2); f != nil {
		return f
	}
	// ---- Q: filtered by its memberships ----
	def := false
	has := map[int]bool{}
	for k := range r.member {
		var o, x int
		fmt.Sscanf(k, "%d|%d", &o, &x)
		if x < 0 {
			def = true
		} else {
			has[x] = true
		}
	}
	wantQ := map[string]string{}
	for k, rt := range g {
		ok := def
		for x := range rt.rts {
			if has[x] {
				ok = true
			}
		}
		if ok {
			wantQ[k] = rtString(rt.rts)
		}
	}
	return check("Q", r.sq, r.vq, wantQ)
}

func c17Keys(m map[int]bool) []int {
	var out []int
	for k := range m {
		out = append(out, k)
	}
	sort.Ints(out)
	return out
}

func (r *c17Run) apply(op c17Op) *verifkit.Failure {
	ctx := context.Background()
	switch op.Kind {
	case c17VPNAnnounce, c17VPNWithdraw, c17VPN2Announce, c17VPN2Withdraw:
		second := op.Kind == c17VPN2Announce || op.Kind == c17VPN2Withdraw
		sess, who, store, src, peerAS := r.sp, "P", r.vpn, -1, []uint32{r.p.AS}
		if second {
			sess, who, store, src, peerAS = r.sp2, "P2", r.vpn2, -2, []uint32{r.p2.AS, 64999, 64998}
		}
		op.A %= 2 // the VPN sources' prefixes; the CEs use 2 and 3
		if !r.c.FreeRD {
			op.RD = op.A // one RD per prefix: the VRF export picks no best path across RDs (C17-K1)
		}
		rd, _ := bgp.ParseRouteDistinguisher(c17RD(op.RD))
		nlri, _ := bgp.NewLabeledVPNIPAddrPrefix(c17Prefix(op.A), *bgp.NewMPLSLabelStack(uint32(100 + op.A)), rd)
		key := c17RD(op.RD) + " " + c17Prefix(op.A).String()
		if op.Kind == c17VPNWithdraw || op.Kind == c17VPN2Withdraw {
			mp, _ := bgp.NewPathAttributeMpUnreachNLRI(bgp.RF_IPv4_VPN, []bgp.PathNLRI{{NLRI: nlri}})
			_ = sess.send(bgp.NewBGPUpdateMessage(nil, []bgp.PathAttributeInterface{mp}, nil), nil)
			delete(store, key)
			r.logf("%s withdraws %s", who, key)
			return nil
		}
		var ecs []bgp.ExtendedCommunityInterface
		rts := map[int]bool{}
		if (op.A+len(op.RTs))%2 == 1 {
			// other extended communities in front of the route targets (encapsulation, colour)
			ecs = append(ecs, bgp.NewEncapExtended(bgp.TUNNEL_TYPE_VXLAN), bgp.NewColorExtended(7))
		}
		for _, x := range op.RTs {
			ecs = append(ecs, c17RT(x))
			rts[x] = true
		}
		if len(ecs) > 0 || op.Origin == 0 {
			// a site-of-origin community behind the targets (a route without any extended community at all, which
			// only the default membership covers, when there is no target and Origin is 1)
			ecs = append(ecs, bgp.NewTwoOctetAsSpecificExtended(bgp.EC_SUBTYPE_ROUTE_ORIGIN, 65001, 9, true))
		}
		mp, _ := bgp.NewPathAttributeMpReachNLRI(bgp.RF_IPv4_VPN, []bgp.PathNLRI{{NLRI: nlri}}, netip.MustParseAddr("192.0.2.1"))
		attrs := []bgp.PathAttributeInterface{bgp.NewPathAttributeOrigin(0), bgp.NewPathAttributeAsPath([]bgp.AsPathParamInterface{bgp.NewAs4PathParam(2, peerAS)}), mp}
		if len(ecs) > 0 {
			attrs = append(attrs, bgp.NewPathAttributeExtendedCommunities(ecs))
		}
		_ = sess.send(bgp.NewBGPUpdateMessage(nil, attrs, nil), nil)
		store[key] = c17Route{rd: c17RD(op.RD), prefix: c17Prefix(op.A).String(), rts: rts, fromCE: src}
		r.logf("%s announces %s targets %v", who, key, op.RTs)
		// Both sources of one (RD, prefix) carry the same targets: the other one follows suit.
		// (With different target sets the non-best path can be importable while the best is
		// not, and the export to CEs / RTC peers follows the best path only — the per-destination
		// limitation recorded as C17-K1.)
		other, osess, ostore, osrc, oAS := "P2", r.sp2, r.vpn2, -2, []uint32{r.p2.AS, 64999, 64998}
		if second {
			other, osess, ostore, osrc, oAS = "P", r.sp, r.vpn, -1, []uint32{r.p.AS}
		}
		if _, has := ostore[key]; has {
			attrs2 := []bgp.PathAttributeInterface{bgp.NewPathAttributeOrigin(0), bgp.NewPathAttributeAsPath([]bgp.AsPathParamInterface{bgp.NewAs4PathParam(2, oAS)}), mp}
			if len(ecs) > 0 {
				attrs2 = append(attrs2, bgp.NewPathAttributeExtendedCommunities(ecs))
			}
			_ = osess.send(bgp.NewBGPUpdateMessage(nil, attrs2, nil), nil)
			ostore[key] = c17Route{rd: c17RD(op.RD), prefix: c17Prefix(op.A).String(), rts: rts, fromCE: osrc}
			r.logf("%s follows with the same targets", other)
		}
	case c17CEAnnounce:
		op.A = 2 + op.CE
		ce := &r.ce[op.CE]
		a := rsAttrs{MED: -1, LocalPref: -1, NextHop: "192.0.2.1", ASPath: []rsSeg{{T: 2, AS: []uint32{ce.AS}}}}
		id := uint32(0)
		if r.c.CEAddPath {
			id = uint32(1 + op.Origin)
			a.MED = int64(id) // the two versions differ
			r.ceIDs[op.CE][id] = true
		}
		nlri, _ := bgp.NewIPAddrPrefix(c17Prefix(op.A))
		_ = r.sce[op.CE].send(bgp.NewBGPUpdateMessage(nil, a.toBGP(nlri, false, id), []bgp.PathNLRI{{NLRI: nlri, ID: id}}), rsTxOpt(ce))
		r.ceRt[op.CE][op.A] = true
		r.logf("CE %d announces %s id=%d", op.CE, c17Prefix(op.A), id)
	case c17CEWithdraw:
		op.A = 2 + op.CE
		id := uint32(0)
		if r.c.CEAddPath {
			id = uint32(1 + op.Origin)
			delete(r.ceIDs[op.CE], id)
		}
		nlri, _ := bgp.NewIPAddrPrefix(c17Prefix(op.A))
		_ = r.sce[op.CE].send(bgp.NewBGPUpdateMessage([]bgp.PathNLRI{{NLRI: nlri, ID: id}}, nil, nil), rsTxOpt(&r.ce[op.CE]))
		if !r.c.CEAddPath || len(r.ceIDs[op.CE]) == 0 {
			delete(r.ceRt[op.CE], op.A)
		}
		r.logf("CE %d withdraws %s id=%d", op.CE, c17Prefix(op.A), id)
	case c17Member, c17Unmember:
		origin := []uint32{65002, 65077}[op.Origin]
		var nlri *bgp.RouteTargetMembershipNLRI
		if op.A < 0 {
			nlri = bgp.NewRouteTargetMembershipNLRI(0, nil) // default: all route targets
			origin = 0
		} else {
			nlri = bgp.NewRouteTargetMembershipNLRI(origin, c17RT(op.A))
		}
		key := fmt.Sprintf("%d|%d", origin, op.A)
		if op.Kind == c17Unmember {
			mp, _ := bgp.NewPathAttributeMpUnreachNLRI(bgp.RF_RTC_UC, []bgp.PathNLRI{{NLRI: nlri}})
			_ = r.sq.send(bgp.NewBGPUpdateMessage(nil, []bgp.PathAttributeInterface{mp}, nil), nil)
			delete(r.member, key)
			r.logf("Q withdraws membership %s", key)
			return nil
		}
		mp, _ := bgp.NewPathAttributeMpReachNLRI(bgp.RF_RTC_UC, []bgp.PathNLRI{{NLRI: nlri}}, netip.MustParseAddr("192.0.2.1"))
		attrs := []bgp.PathAttributeInterface{bgp.NewPathAttributeOrigin(0), bgp.NewPathAttributeAsPath([]bgp.AsPathParamInterface{bgp.NewAs4PathParam(2, []uint32{r.q.AS})}), mp}
		_ = r.sq.send(bgp.NewBGPUpdateMessage(nil, attrs, nil), nil)
		r.member[key] = true
		r.logf("Q announces membership %s", key)
	case c17QFlap:
		r.n.settle()
		r.sq.close()
		r.n.settle()
		r.n.advance(6 * time.Second) // idle hold time
		ss, _, err := r.n.establish(r.q.def(), r.qSpec())
		if err != nil {
			return r.fail("establish", "Q again: %v", err)
		}
		r.sq, r.vq = ss, r.newQView()
		r.member = map[string]bool{}
		r.logf("Q's session lost and re-established")
	case c17AddVrf:
		if r.v2 {
			return nil
		}
		if err := r.n.s.AddVrf(ctx, &api.AddVrfRequest{Vrf: c17ApiVrf(2, r.c.Vrfs[2])}); err != nil {
			return r.fail("addvrf", "%v", err)
		}
		r.v2 = true
		r.logf("VRF v2 added (import %v)", r.c.Vrfs[2].Import)
	case c17DelVrf:
		if !r.v2 {
			return nil
		}
		if err := r.n.s.DeleteVrf(ctx, &api.DeleteVrfRequest{Name: "v2"}); err != nil {
			return r.fail("delvrf", "%v", err)
		}
		r.v2 = false
		r.logf("VRF v2 deleted")
	}
	return nil
}

func runC17(t *testing.T) func(c c17Case, st *verifkit.Stats) *verifkit.Failure {
	return func(c c17Case, st *verifkit.Stats) *verifkit.Failure {
		return simRun(t, func() *verifkit.Failure {
			ctx := context.Background()
			n, err := simStart(rsApiGlobal(rsGlobal{}))
			if err != nil {
				return verifkit.Failf("start", "%v", err)
			}
			defer n.stop()
			r := &c17Run{c: &c, n: n, vpn: map[string]c17Route{}, vpn2: map[string]c17Route{}, member: map[string]bool{}, vp: &c17View{entries: map[string]string{}}, vq: &c17View{entries: map[string]string{}}, vp2: &c17View{entries: map[string]string{}}}
			r.p2 = rsPeer{Addr: "10.0.0.3", ID: "10.0.0.3", Kind: rsEBGP, AS: 65003}
			r.ceRt = [2]map[int]bool{{}, {}}
			r.ceIDs = [2]map[uint32]bool{{}, {}}
			r.p = rsPeer{Addr: "10.0.0.1", ID: "10.0.0.1", Kind: rsEBGP, AS: 65001}
			r.q = rsPeer{Addr: "10.0.0.2", ID: "10.0.0.2", Kind: rsEBGP, AS: 65002}
			r.ce = [2]rsPeer{{Addr: "10.0.1.1", ID: "10.0.1.1", Kind: rsEBGP, AS: 65101}, {Addr: "10.0.1.2", ID: "10.0.1.2", Kind: rsEBGP, AS: 65102}}
			if c.CEAddPath {
				r.ce[0].AddPathRecv, r.ce[1].AddPathRecv = true, true
			}
			for i := 0; i < 2; i++ {
				if err := n.s.AddVrf(ctx, &api.AddVrfRequest{Vrf: c17ApiVrf(i, c.Vrfs[i])}); err != nil {
					return verifkit.Failf("addvrf", "%v", err)
				}
			}
			if err := n.s.AddPeer(ctx, &api.AddPeerRequest{Peer: c17VpnPeer(&r.p, false)}); err != nil {
				return verifkit.Failf("addpeer", "P: %v", err)
			}
			r.vq = r.newQView()
			qp := c17VpnPeer(&r.q, true)
			if c.QAddPath {
				qp.AfiSafis[0].AddPaths = &api.AddPaths{Config: &api.AddPathsConfig{SendMax: 2}}
			}
			if err := n.s.AddPeer(ctx, &api.AddPeerRequest{Peer: qp}); err != nil {
				return verifkit.Failf("addpeer", "Q: %v", err)
			}
			if err := n.s.AddPeer(ctx, &api.AddPeerRequest{Peer: c17VpnPeer(&r.p2, false)}); err != nil {
				return verifkit.Failf("addpeer", "P2: %v", err)
			}
			for i := range r.ce {
				ap := rsApiPeer(rsGlobal{}, &r.ce[i])
				ap.Conf.Vrf = fmt.Sprintf("v%d", i)
				ap.AfiSafis = ap.AfiSafis[:1] // ipv4-unicast
				if err := n.s.AddPeer(ctx, &api.AddPeerRequest{Peer: ap}); err != nil {
					return verifkit.Failf("addpeer", "CE %d: %v", i, err)
				}
			}
			n.settle()
			vpnSpec := simOpenSpec{Families: []uint32{uint32(bgp.RF_IPv4_VPN)}, RR: true}
			if r.sp, _, err = n.establish(r.p.def(), vpnSpec); err != nil {
				return verifkit.Failf("establish", "P: %v", err)
			}
			if r.sp2, _, err = n.establish(r.p2.def(), vpnSpec); err != nil {
				return verifkit.Failf("establish", "P2: %v", err)
			}
			rtcSpec := r.qSpec()
			if r.sq, _, err = n.establish(r.q.def(), rtcSpec); err != nil {
				return verifkit.Failf("establish", "Q: %v", err)
			}
			for i := range r.ce {
				spec := simOpenSpec{Families: []uint32{uint32(bgp.RF_IPv4_UC)}, RR: true}
				if c.CEAddPath {
					spec.AddPath = []uint32{uint32(bgp.RF_IPv4_UC)<<8 | uint32(bgp.BGP_ADD_PATH_SEND)}
				}
				if r.sce[i], _, err = n.establish(r.ce[i].def(), spec); err != nil {
					return verifkit.Failf("establish", "CE %d: %v", i, err)
				}
				r.vce[i] = newRsView()
			}
			if f := r.verify("after establishment"); f != nil {
				return f
			}
			memberOps, filtered := 0, false
			if simYieldAvailable && c.Sched != 0 {
				simYieldInstall(c.Sched)
				defer simYieldInstall(0)
			}
			for i, op := range c.Ops {
				if f := r.apply(op); f != nil {
					return f
				}
				if i < 32 && c.Race&(1<<uint(i)) != 0 && i+1 < len(c.Ops) {
					continue // the next operation is issued while this one is in flight
				}
				if f := r.verify(fmt.Sprintf("after op %d %+v", i, op)); f != nil {
					return f
				}
				st.SubEval(1)
				if op.Kind == c17Member || op.Kind == c17Unmember {
					memberOps++
				}
				if len(r.global()) > 0 && len(r.vq.entries) < len(r.global()) {
					filtered = true
				}
			}
			if memberOps > 0 && filtered && len(r.global()) >= 2 {
				st.Nontrivial()
			}
			if c.CEAddPath {
				st.Label("ce-add-path")
			}
			if c.QAddPath {
				st.Label("q-add-path")
			}
			return n.stop()
		})
	}
}

func TestVerifC17(t *testing.T) {
	verifkit.Run(t, "C17", drawC17, runC17(t))
}

func c10UniqSorted(l []string) []string {
	var out []string
	for i, x := range l {
		if i == 0 || x != l[i-1] {
			out = append(out, x)
		}
	}
	return out
}
