//go:build !verif

package server

import "time"

// Without the verif hooks in the tree an active peer's connect cannot be intercepted.
const simDialAvailable = false

type simDial struct {
	addr      string
	at        time.Duration
	answered  bool
	cancelled bool
}

type simDialer struct{}

func simDialInstall(n *simNet) (*simDialer, func())            { return &simDialer{}, func() {} }
func (d *simDialer) pending() *simDial                         { return nil }
func (d *simDialer) count() int                                { return 0 }
func (d *simDialer) all() []simDial                            { return nil }
func (d *simDialer) accept(x *simDial, p *simPeerDef) *simSess { return nil }
func (d *simDialer) refuse(x *simDial)                         {}
