//go:build verif

package server

// The verif-tagged dial hook (pkg/server/verif_hooks_on.go): the outgoing TCP
// connect of an active peer's connect loop ends in the harness, which accepts it
// (one end of an in-memory pipe), refuses it, or leaves it pending.

import (
	"context"
	"errors"
	"net"
	"strconv"
	"sync"
	"time"
)

const simDialAvailable = true

type simDialRes struct {
	conn net.Conn
	err  error
}

type simDial struct {
	addr      string
	at        time.Duration
	res       chan simDialRes
	answered  bool
	cancelled bool
}

type simDialer struct {
	n       *simNet
	mu      sync.Mutex
	dials   []*simDial
	outPort int
}

// simDialInstall routes every outgoing connect of the server to the returned dialer until uninstall is called.
func simDialInstall(n *simNet) (d *simDialer, uninstall func()) {
	d = &simDialer{n: n, outPort: 50000}
	fn := func(ctx context.Context, network, address string) (net.Conn, error) {
		x := &simDial{addr: address, at: n.now(), res: make(chan simDialRes, 1)}
		d.mu.Lock()
		d.dials = append(d.dials, x)
		d.mu.Unlock()
		select {
		case r := <-x.res:
			return r.conn, r.err
		case <-ctx.Done():
			d.mu.Lock()
			x.cancelled = true
			d.mu.Unlock()
			return nil, ctx.Err()
		}
	}
	verifDialFn.Store(&fn)
	return d, func() { verifDialFn.Store(nil) }
}

// pending returns the oldest dial that is neither answered nor given up by the server.
func (d *simDialer) pending() *simDial {
	d.mu.Lock()
	defer d.mu.Unlock()
	for _, x := range d.dials {
		if !x.answered && !x.cancelled {
			return x
		}
	}
	return nil
}

func (d *simDialer) count() int {
	d.mu.Lock()
	defer d.mu.Unlock()
	return len(d.dials)
}

func (d *simDialer) all() []simDial {
	d.mu.Lock()
	defer d.mu.Unlock()
	out := make([]simDial, len(d.dials))
	for i, x := range d.dials {
		out[i] = *x
	}
	return out
}

// accept completes the dial: the server gets one end of a pipe, the scripted peer the other.
func (d *simDialer) accept(x *simDial, p *simPeerDef) *simSess {
	a, b := net.Pipe()
	d.mu.Lock()
	x.answered = true
	d.outPort++
	port := d.outPort
	d.mu.Unlock()
	host, ps, _ := net.SplitHostPort(x.addr)
	rp, _ := strconv.Atoi(ps)
	la := "192.0.2.254"
	srvEnd := &simConn{Conn: a, local: &net.TCPAddr{IP: simIP(la), Port: port}, remote: &net.TCPAddr{IP: simIP(host), Port: rp}}
	ss := &simSess{sim: d.n, peer: p, conn: b, done: make(chan struct{}), opened: d.n.now()}
	d.n.mu.Lock()
	d.n.sesss = append(d.n.sesss, ss)
	d.n.mu.Unlock()
	go ss.reader()
	x.res <- simDialRes{conn: srvEnd}
	return ss
}

func (d *simDialer) refuse(x *simDial) {
	d.mu.Lock()
	x.answered = true
	d.mu.Unlock()
	x.res <- simDialRes{err: errors.New("connect: connection refused")}
}
