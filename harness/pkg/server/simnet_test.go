package server

// simnet — virtual-time simulation of a whole BgpServer.
//
// One real, unmodified BgpServer runs inside a testing/synctest bubble.
// Scripted peers talk to it over net.Pipe; every byte the server writes to a
// session is recorded with its virtual timestamp (the observation point named
// by the properties).  All random choices are made OUTSIDE the bubble (plain
// data case); inside the bubble nothing touches rapid.

import (
	"context"
	"encoding/binary"
	"errors"
	"fmt"
	"io"
	"log/slog"
	"net"
	"net/netip"
	"os"
	"runtime"
	"strings"
	"sync"
	"syscall"
	"testing"
	"testing/synctest"
	"time"

	"github.com/osrg/gobgp/v4/api"
	"github.com/osrg/gobgp/v4/internal/pkg/table"
	"github.com/osrg/gobgp/v4/internal/pkg/verifkit"
	"github.com/osrg/gobgp/v4/pkg/apiutil"
	"github.com/osrg/gobgp/v4/pkg/config/oc"
	"github.com/osrg/gobgp/v4/pkg/packet/bgp"
)

// ---- in-memory transport ----

type simConn struct {
	net.Conn
	local, remote *net.TCPAddr
}

func (c *simConn) LocalAddr() net.Addr  { return c.local }
func (c *simConn) RemoteAddr() net.Addr { return c.remote }

// SyscallConn makes the TTL/MSS/TOS socket options fail cleanly (the server logs and goes on).
func (c *simConn) SyscallConn() (syscall.RawConn, error) {
	return nil, errors.New("simnet: no socket")
}

type simMsg struct {
	At  time.Duration // virtual time since simulation start
	Raw []byte        // whole message incl. header
}

func (m simMsg) Type() uint8 {
	if len(m.Raw) < 19 {
		return 0
	}
	return m.Raw[18]
}

// simSess is one transport connection of a scripted peer.
type simSess struct {
	sim      *simNet
	peer     *simPeerDef
	conn     net.Conn // harness end
	mu       sync.Mutex
	rx       []simMsg
	eof      bool
	eofAt    time.Duration
	junk     []byte // bytes that did not frame as a BGP message
	done     chan struct{}
	wrErr    error
	opened   time.Duration
	weClosed bool // the harness closed its end
}

// simPeerDef is the scripted peer's identity (plain data).
type simPeerDef struct {
	Addr      string `json:"addr"`       // peer address as the server sees it
	LocalAddr string `json:"local_addr"` // server-side local address of the session
	AS        uint32 `json:"as"`
	ID        string `json:"id"`
}

type simNet struct {
	s           *BgpServer
	t0          time.Time
	sesss       []*simSess
	mu          sync.Mutex
	peerEvs     []simPeerEvent
	watchCancel context.CancelFunc
	stopped     bool
	// beforeLeakCheck (optional) ends the scenario's own goroutines after the server was stopped and its
	// connections were looked at, before the leftover-goroutine check
	beforeLeakCheck func()
}

type simPeerEvent struct {
	At    time.Duration
	Addr  string
	Type  apiutil.PeerEventType
	State bgp.FSMState
	Admin api.PeerState_AdminState
}

func (n *simNet) now() time.Duration { return time.Since(n.t0) }

// settle lets the server run until every goroutine is durably blocked.
func (n *simNet) settle() {
	time.Sleep(time.Millisecond)
	synctest.Wait()
	// goroutines parked in a yield point (simyield) count as running
	for i := 0; simYieldBusy() && i < 10000; i++ {
		time.Sleep(100 * time.Microsecond)
		synctest.Wait()
	}
}

// advance moves virtual time forward by d and settles.
func (n *simNet) advance(d time.Duration) {
	time.Sleep(d)
	synctest.Wait()
	for i := 0; simYieldBusy() && i < 10000; i++ {
		time.Sleep(100 * time.Microsecond)
		synctest.Wait()
	}
}

func simStart(g *api.Global) (*simNet, error) {
	table.SelectionOptions = oc.RouteSelectionOptionsConfig{}
	table.UseMultiplePaths = oc.UseMultiplePathsConfig{}
	n := &simNet{t0: time.Now()}
	if os.Getenv("VERIF_SERVER_LOG") != "" {
		// development aid: the server's own log on stderr
		lv := new(slog.LevelVar)
		lv.Set(slog.LevelDebug)
		n.s = NewBgpServer(LoggerOption(slog.New(slog.NewTextHandler(os.Stderr, &slog.HandlerOptions{Level: lv})), lv))
	} else {
		n.s = NewBgpServer()
	}
	go n.s.Serve()
	if g.ListenPort == 0 {
		g.ListenPort = -1
	}
	if err := n.s.StartBgp(context.Background(), &api.StartBgpRequest{Global: g}); err != nil {
		return n, err
	}
	return n, nil
}

func (n *simNet) watchPeers() {
	ctx, cancel := context.WithCancel(context.Background())
	n.watchCancel = cancel
	_ = n.s.WatchEvent(ctx, WatchEventMessageCallbacks{
		OnPeerUpdate: func(p *apiutil.WatchEventMessage_PeerEvent, _ time.Time) {
			n.mu.Lock()
			n.peerEvs = append(n.peerEvs, simPeerEvent{At: n.now(), Addr: p.Peer.State.NeighborAddress.String(), Type: p.Type,
				State: p.Peer.State.SessionState, Admin: p.Peer.State.AdminState})
			n.mu.Unlock()
		},
	}, WatchPeer())
}

// connect opens a new transport connection from the scripted peer to the server
// through the same function the accept loop calls.
func (n *simNet) connect(p *simPeerDef) *simSess {
	a, b := net.Pipe()
	n.mu.Lock()
	port := 40000 + len(n.sesss)
	n.mu.Unlock()
	remote := &net.TCPAddr{IP: simIP(p.Addr), Port: port}
	la := p.LocalAddr
	if la == "" {
		la = "192.0.2.254"
		if strings.Contains(p.Addr, ":") {
			la = "2001:db8:ffff::254"
		}
	}
	local := &net.TCPAddr{IP: simIP(la), Port: 179}
	srvEnd := &simConn{Conn: a, local: local, remote: remote}
	ss := &simSess{sim: n, peer: p, conn: b, done: make(chan struct{}), opened: n.now()}
	n.mu.Lock()
	n.sesss = append(n.sesss, ss)
	n.mu.Unlock()
	go ss.reader()
	_ = n.s.mgmtOperation(func() error {
		n.s.passConnToPeer(srvEnd)
		return nil
	}, false)
	return ss
}

// sessions returns the transport connections opened so far.
func (n *simNet) sessions() []*simSess {
	n.mu.Lock()
	defer n.mu.Unlock()
	return append([]*simSess(nil), n.sesss...)
}

// simIP parses an address the way the kernel hands it to net.TCPAddr (4 bytes for IPv4).
func simIP(a string) net.IP {
	ip := net.ParseIP(a)
	if v4 := ip.To4(); v4 != nil {
		return v4
	}
	return ip
}

func (ss *simSess) reader() {
	defer close(ss.done)
	for {
		hdr := make([]byte, 19)
		if _, err := io.ReadFull(ss.conn, hdr); err != nil {
			ss.mu.Lock()
			ss.eof, ss.eofAt = true, ss.sim.now()
			ss.mu.Unlock()
			return
		}
		l := int(binary.BigEndian.Uint16(hdr[16:18]))
		if l < 19 {
			ss.mu.Lock()
			ss.junk = append(ss.junk, hdr...)
			ss.mu.Unlock()
			continue
		}
		body := make([]byte, l-19)
		if _, err := io.ReadFull(ss.conn, body); err != nil {
			ss.mu.Lock()
			ss.junk = append(ss.junk, hdr...)
			ss.eof, ss.eofAt = true, ss.sim.now()
			ss.mu.Unlock()
			return
		}
		ss.mu.Lock()
		ss.rx = append(ss.rx, simMsg{At: ss.sim.now(), Raw: append(hdr, body...)})
		ss.mu.Unlock()
	}
}

func (ss *simSess) snapshot() (rx []simMsg, eof bool, eofAt time.Duration) {
	ss.mu.Lock()
	defer ss.mu.Unlock()
	return append([]simMsg(nil), ss.rx...), ss.eof, ss.eofAt
}

// sendRaw writes bytes to the server (blocks until the server has read them or closed).
func (ss *simSess) sendRaw(b []byte) error {
	_ = ss.conn.SetWriteDeadline(time.Now().Add(2 * time.Second))
	_, err := ss.conn.Write(b)
	if err != nil {
		ss.wrErr = err
	}
	return err
}

func (ss *simSess) send(m *bgp.BGPMessage, o *bgp.MarshallingOption) error {
	m.Header.Len = 0
	b, err := m.Serialize(o)
	if err != nil {
		return fmt.Errorf("simnet: cannot serialise scripted message: %w", err)
	}
	return ss.sendRaw(b)
}

func (ss *simSess) close() {
	ss.mu.Lock()
	ss.weClosed = true
	ss.mu.Unlock()
	_ = ss.conn.Close()
}

// msgsOfType returns the received messages of one type.
func simOfType(rx []simMsg, typ uint8) []simMsg {
	var out []simMsg
	for _, m := range rx {
		if m.Type() == typ {
			out = append(out, m)
		}
	}
	return out
}

// simOpenFor builds the scripted peer's OPEN.
type simOpenSpec struct {
	HoldTime uint16   `json:"hold"`
	Families []uint32 `json:"families"` // bgp.Family values; nil = no MP capability at all
	NoAS4    bool     `json:"no_as4"`
	ExtMsg   bool     `json:"ext_msg"`
	AddPath  []uint32 `json:"add_path"` // family<<8|mode
	GR       *simGR   `json:"gr"`
	RR       bool     `json:"rr"`
	AS       uint32   `json:"as"` // 0 = peer def AS
	ID       string   `json:"id"` // "" = peer def ID
	Version  uint8    `json:"version"`
}

type simGR struct {
	Restarting   bool     `json:"restarting"`
	Notification bool     `json:"notification"`
	Time         uint16   `json:"time"`
	Families     []uint32 `json:"families"` // family<<1|forwarding
	LLGR         []uint32 `json:"llgr"`     // family (time taken from LLGRTime)
	LLGRTime     uint32   `json:"llgr_time"`
	LLGRTimes    []uint32 `json:"llgr_times,omitempty"` // optional, parallel to LLGR: a long-lived time per family (0 = LLGRTime)
}

func (p *simPeerDef) open(spec simOpenSpec) *bgp.BGPMessage {
	as := spec.AS
	if as == 0 {
		as = p.AS
	}
	id := spec.ID
	if id == "" {
		id = p.ID
	}
	var caps []bgp.ParameterCapabilityInterface
	for _, f := range spec.Families {
		caps = append(caps, bgp.NewCapMultiProtocol(bgp.Family(f)))
	}
	if !spec.NoAS4 {
		caps = append(caps, bgp.NewCapFourOctetASNumber(as))
	}
	if spec.ExtMsg {
		caps = append(caps, bgp.NewCapExtendedMessage())
	}
	if spec.RR {
		caps = append(caps, bgp.NewCapRouteRefresh())
	}
	if len(spec.AddPath) > 0 {
		var ts []*bgp.CapAddPathTuple
		for _, v := range spec.AddPath {
			ts = append(ts, bgp.NewCapAddPathTuple(bgp.Family(v>>8), bgp.BGPAddPathMode(v&3)))
		}
		caps = append(caps, bgp.NewCapAddPath(ts))
	}
	if spec.GR != nil {
		var ts []*bgp.CapGracefulRestartTuple
		for _, v := range spec.GR.Families {
			ts = append(ts, bgp.NewCapGracefulRestartTuple(bgp.Family(v>>1), v&1 == 1))
		}
		caps = append(caps, bgp.NewCapGracefulRestart(spec.GR.Restarting, spec.GR.Notification, spec.GR.Time, ts))
		if len(spec.GR.LLGR) > 0 {
			var lt []*bgp.CapLongLivedGracefulRestartTuple
			for i, v := range spec.GR.LLGR {
				tm := spec.GR.LLGRTime
				if i < len(spec.GR.LLGRTimes) && spec.GR.LLGRTimes[i] != 0 {
					tm = spec.GR.LLGRTimes[i]
				}
				lt = append(lt, bgp.NewCapLongLivedGracefulRestartTuple(bgp.Family(v), true, tm))
			}
			caps = append(caps, bgp.NewCapLongLivedGracefulRestart(lt))
		}
	}
	my := uint16(as)
	if as > 65535 {
		my = bgp.AS_TRANS
	}
	var params []bgp.OptionParameterInterface
	if len(caps) > 0 {
		params = append(params, bgp.NewOptionParameterCapability(caps))
	}
	m, _ := bgp.NewBGPOpenMessage(my, spec.HoldTime, netip.MustParseAddr(id), params)
	if spec.Version != 0 {
		m.Body.(*bgp.BGPOpen).Version = spec.Version
	}
	return m
}

// establish performs the passive-side handshake: connect, read the server's OPEN,
// send ours, read KEEPALIVE, send KEEPALIVE.  Returns the session and the
// server's OPEN (nil if the handshake did not complete).
func (n *simNet) establish(p *simPeerDef, spec simOpenSpec) (*simSess, *bgp.BGPOpen, error) {
	ss := n.connect(p)
	n.settle()
	rx, eof, _ := ss.snapshot()
	if len(rx) == 0 || rx[0].Type() != bgp.BGP_MSG_OPEN {
		return ss, nil, fmt.Errorf("no OPEN from the server (eof=%v, %d msgs)", eof, len(rx))
	}
	m, err := bgp.ParseBGPMessage(rx[0].Raw)
	if err != nil {
		return ss, nil, fmt.Errorf("server OPEN does not parse: %v", err)
	}
	if err := ss.send(p.open(spec), nil); err != nil {
		return ss, m.Body.(*bgp.BGPOpen), fmt.Errorf("writing OPEN: %v", err)
	}
	n.settle()
	rx, _, _ = ss.snapshot()
	if len(simOfType(rx, bgp.BGP_MSG_KEEPALIVE)) == 0 {
		return ss, m.Body.(*bgp.BGPOpen), fmt.Errorf("no KEEPALIVE after our OPEN (got %d msgs)", len(rx))
	}
	if err := ss.send(bgp.NewBGPKeepAliveMessage(), nil); err != nil {
		return ss, m.Body.(*bgp.BGPOpen), fmt.Errorf("writing KEEPALIVE: %v", err)
	}
	n.settle()
	return ss, m.Body.(*bgp.BGPOpen), nil
}

// stop shuts the server down and reports leftover goroutines of the bubble.
func (n *simNet) stop() *verifkit.Failure {
	if n.stopped {
		return nil
	}
	n.stopped = true
	if n.watchCancel != nil {
		n.watchCancel()
	}
	n.s.Stop()
	n.settle()
	time.Sleep(2 * time.Second) // write deadlines etc.
	synctest.Wait()
	// "Stopping the server ... closes its connections" (C20): every transport connection the scripted peers have not
	// closed themselves has reached its end
	var open []string
	for i, ss := range n.sessions() {
		ss.mu.Lock()
		if !ss.eof && !ss.weClosed {
			open = append(open, fmt.Sprintf("connection #%d of %s opened at %v (%d messages received on it)", i, ss.peer.Addr, ss.opened, len(ss.rx)))
		}
		ss.mu.Unlock()
	}
	for _, ss := range n.sessions() {
		ss.close()
	}
	if n.beforeLeakCheck != nil {
		n.beforeLeakCheck()
	}
	n.settle()
	time.Sleep(2 * time.Second)
	synctest.Wait()
	if len(open) > 0 {
		return verifkit.Failf("connection-left-open", "%d connection(s) are still open 2 s after Stop:\n  %s", len(open), strings.Join(open, "\n  "))
	}
	if left := simLeftover(); len(left) > 0 {
		return verifkit.Failf("goroutine-leak", "%d goroutine(s) of the server are still alive after Stop:\n%s", len(left), strings.Join(left, "\n\n"))
	}
	return nil
}

// simLeftover returns the stacks of bubble goroutines other than the caller and
// the synctest infrastructure.
func simLeftover() []string {
	buf := make([]byte, 4<<20)
	buf = buf[:runtime.Stack(buf, true)]
	var out []string
	if os.Getenv("VERIF_DEBUG_GOROUTINES") != "" {
		fmt.Fprintf(os.Stderr, "==== goroutines after stop ====\n%s\n", buf)
	}
	for i, g := range strings.Split(string(buf), "\n\n") {
		if i == 0 { // the calling goroutine
			continue
		}
		hdr, _, _ := strings.Cut(g, "\n")
		if !strings.Contains(hdr, "synctest") {
			continue
		}
		if strings.Contains(g, "testing/synctest.Test") || strings.Contains(g, "internal/synctest.Run") || strings.Contains(g, "synctest.(*bubble)") ||
			strings.Contains(g, "simRun") {
			continue
		}
		out = append(out, g)
	}
	return out
}

// peerState reads the session/admin state through the public API.
func (n *simNet) peerState(addr string) (api.PeerState_SessionState, api.PeerState_AdminState, *api.Peer) {
	var out *api.Peer
	_ = n.s.ListPeer(context.Background(), &api.ListPeerRequest{Address: addr, EnableAdvertised: false}, func(p *api.Peer) { out = p })
	if out == nil {
		return api.PeerState_SESSION_STATE_UNSPECIFIED, 0, nil
	}
	return out.State.SessionState, out.State.AdminState, out
}

// ---- running a scenario inside a bubble, failures carried out ----

// simRun executes fn inside a synctest bubble.  Panics of the scenario goroutine
// are converted to failures; a real-time watchdog aborts a stuck bubble.
func simRun(t *testing.T, fn func() *verifkit.Failure) (res *verifkit.Failure) {
	done := make(chan struct{})
	var inner *verifkit.Failure
	go func() {
		// virtual time cannot pass a goroutine that waits for a lock (or spins): a scenario of milliseconds that takes
		// minutes of real time with a goroutine of the code under test parked on a lock is a deadlock or a livelock.
		// A scenario that is merely slow (a saturated machine, a flood of routes) is not: it gets twenty minutes and is
		// then given up as inconclusive, never reported.
		lockWaiters := func() (all string, stuck []string) {
			buf := make([]byte, 4<<20)
			buf = buf[:runtime.Stack(buf, true)]
			for _, g := range strings.Split(string(buf), "\n\n") {
				if !strings.Contains(g, "synctest") || strings.Contains(g, "runtime.Stack(") {
					continue
				}
				if !(strings.Contains(g, "sync.(*Mutex)") || strings.Contains(g, "sync.(*RWMutex)") || strings.Contains(g, "sync.(*WaitGroup)")) {
					continue
				}
				if strings.Contains(g, "/pkg/server.(") || strings.Contains(g, "/internal/pkg/table.(") {
					stuck = append(stuck, g)
				}
			}
			return string(buf), stuck
		}
		for waited := 0; waited < 1200; waited += 300 {
			select {
			case <-done:
				return
			case <-time.After(300 * time.Second):
			}
			all, stuck := lockWaiters()
			if len(stuck) > 0 {
				// the same goroutines must still be there a little later (a lock held for a moment is not a hang)
				time.Sleep(5 * time.Second)
				if _, again := lockWaiters(); len(again) > 0 {
					fmt.Fprintf(os.Stderr, "SIMNET-WATCHDOG: bubble stuck for %ds of real time\n%s\n", waited+300, all)
					verifkit.AbortCase("hang", fmt.Sprintf("the scenario did not finish within %d s of real time; goroutines of the code under test waiting for locks:\n%s", waited+300, strings.Join(stuck, "\n\n")))
				}
			}
		}
		select {
		case <-done:
			return
		default:
		}
		fmt.Fprintf(os.Stderr, "SIMNET-WATCHDOG: scenario still running after 1200 s of real time with no goroutine of the code under test waiting for a lock: given up (inconclusive)\n")
		os.Exit(3)
	}()
	defer close(done)
	defer func() {
		// a bubble whose scenario returned while goroutines are still blocked panics in synctest.Test; the scenario's
		// own failure (usually the goroutine-leak report of stop) is the better message
		if r := recover(); r != nil {
			if inner != nil {
				res = inner
				return
			}
			res = &verifkit.Failure{Sig: "panic", Msg: fmt.Sprintf("panic after the scenario: %v", r)}
		}
	}()
	synctest.Test(t, func(t *testing.T) {
		defer func() {
			if r := recover(); r != nil {
				buf := make([]byte, 1<<16)
				buf = buf[:runtime.Stack(buf, false)]
				inner = &verifkit.Failure{Sig: "panic", Msg: fmt.Sprintf("panic in scenario: %v\n%s", r, buf)}
			}
		}()
		inner = fn()
	})
	return inner
}
