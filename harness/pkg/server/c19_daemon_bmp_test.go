package server

// C19 (c) — the BMP records the daemon emits parse back to the same peers, routes and
// attributes.
//
// A BMP station (a TCP listener on the loopback, served by goroutines OUTSIDE the
// synctest bubble) receives what a BgpServer running in virtual time sends: generated
// peers (eBGP/iBGP, 2-/4-octet AS, with and without ADD-PATH receive) come up before
// and after the station is added, announce and withdraw IPv4/IPv6 routes, go down and
// come back.  After DeleteBmp the byte stream is cut with bmp.SplitBMP and read like a
// real station reads it: per monitored peer the decoding options of the Route
// Monitoring payloads are derived from the two OPEN messages of the Peer Up
// notification and the A flag of the per-peer header.  Oracle:
//   - framing: Initiation first, Termination last, every token parses;
//   - peers: every session that was up while the station was connected has a Peer Up
//     whose header names the peer (address, AS, BGP id), whose local address/ports are
//     those of the session and whose OPENs are the octets exchanged on the wire; every
//     session that went down has a Peer Down after it;
//   - routes (replay model): applying the pre-policy Route Monitoring messages of a peer
//     in order (a Peer Down clears the peer) to a map prefix/path-id -> attributes gives
//     exactly that peer's Adj-RIB-In as ListPath reports it at the end; the same for
//     the post-policy stream (L flag) against the accepted routes, and for the Loc-RIB
//     stream (peer type 3) against the global best paths;
//   - statistics reports name established peers and their Adj-RIB-In count.

import (
	"bufio"
	"bytes"
	"context"
	"fmt"
	"io"
	"net"
	"sort"
	"strings"
	"sync"
	"testing"
	"time"

	"github.com/osrg/gobgp/v4/api"
	"github.com/osrg/gobgp/v4/internal/pkg/verifkit"
	"github.com/osrg/gobgp/v4/pkg/apiutil"
	"github.com/osrg/gobgp/v4/pkg/packet/bgp"
	"github.com/osrg/gobgp/v4/pkg/packet/bmp"
	"pgregory.net/rapid"
)

const (
	dbAnnounce = iota
	dbWithdraw
	dbDown // the peer closes its session
	dbUp   // the peer (re-)establishes
	dbWait // 11 s (statistics interval is 10 s)
	dbFlip // the route is announced, replaced by another version and announced again as it was
	dbOps
)

type dbOp struct {
	Kind  int       `json:"kind"`
	Peer  int       `json:"peer"`
	Route c19dRoute `json:"route"`
}

type dbCase struct {
	Peers   []rsPeer `json:"peers"`
	NoAS4   []bool   `json:"no_as4"`
	Policy  int      `json:"policy"`   // api.AddBmpRequest_MonitoringPolicy: 1 pre, 2 post, 4 local-rib, 5 all
	Stats   int      `json:"stats"`    // statistics timeout (0 = off)
	UpFirst []bool   `json:"up_first"` // per peer: established before the station is added
	Before  []dbOp   `json:"before"`   // operations before the station is added
	After   []dbOp   `json:"after"`
}

func drawDB(t *rapid.T) dbCase {
	var c dbCase
	np := rapid.IntRange(1, 3).Draw(t, "npeers")
	for i := 0; i < np; i++ {
		l := fmt.Sprintf("p%d", i)
		p := rsPeer{Addr: fmt.Sprintf("10.0.0.%d", i+1), ID: fmt.Sprintf("10.0.%d.%d", i, i+1), Kind: rapid.SampledFrom([]int{rsEBGP, rsEBGP, rsIBGP}).Draw(t, l+"kind")}
		p.AS = rsLocalAS
		if p.Kind == rsEBGP {
			p.AS = rapid.SampledFrom([]uint32{65001, 65002, 4200000001}).Draw(t, l+"as")
		}
		p.AddPathRecv = rapid.IntRange(0, 2).Draw(t, l+"ap") == 0
		c.Peers = append(c.Peers, p)
		c.NoAS4 = append(c.NoAS4, p.AS < 65536 && rapid.IntRange(0, 3).Draw(t, l+"noas4") == 0)
		c.UpFirst = append(c.UpFirst, rapid.Bool().Draw(t, l+"first"))
	}
	c.Policy = rapid.SampledFrom([]int{1, 1, 2, 2, 4, 5, 5}).Draw(t, "policy")
	c.Stats = rapid.SampledFrom([]int{0, 0, 10}).Draw(t, "stats")
	ops := func(l string, n int, all bool) []dbOp {
		var out []dbOp
		for i := 0; i < n; i++ {
			ol := fmt.Sprintf("%s%d", l, i)
			kinds := []int{dbAnnounce, dbAnnounce, dbAnnounce, dbWithdraw}
			if all {
				kinds = append(kinds, dbAnnounce, dbDown, dbUp, dbUp, dbWait, dbFlip, dbFlip)
			}
			o := dbOp{Kind: rapid.SampledFrom(kinds).Draw(t, ol+"k"), Peer: rapid.IntRange(0, np-1).Draw(t, ol+"peer")}
			o.Route = c19dRoute{Src: o.Peer, V6: rapid.IntRange(0, 2).Draw(t, ol+"v6") == 0, Prefix: rapid.IntRange(0, 3).Draw(t, ol+"p"),
				PathID: rapid.IntRange(1, 2).Draw(t, ol+"id"), Variant: rapid.IntRange(0, 3).Draw(t, ol+"v")}
			out = append(out, o)
		}
		return out
	}
	c.Before = ops("b", rapid.IntRange(0, 5).Draw(t, "nbefore"), false)
	c.After = ops("a", rapid.IntRange(1, 12).Draw(t, "nafter"), true)
	return c
}

// ---- the station ----

type dbStation struct {
	ln   net.Listener
	mu   sync.Mutex
	buf  []byte
	done chan struct{} // closed when the (first) connection has ended
	got  chan struct{} // closed when a connection was accepted
}

func newDBStation() (*dbStation, error) {
	ln, err := net.Listen("tcp", "127.0.0.1:0")
	if err != nil {
		return nil, err
	}
	s := &dbStation{ln: ln, done: make(chan struct{}), got: make(chan struct{})}
	go func() {
		conn, err := ln.Accept()
		if err != nil {
			close(s.got)
			close(s.done)
			return
		}
		close(s.got)
		b, _ := io.ReadAll(conn)
		s.mu.Lock()
		s.buf = b
		s.mu.Unlock()
		conn.Close()
		close(s.done)
	}()
	return s, nil
}

func (s *dbStation) port() uint32 { return uint32(s.ln.Addr().(*net.TCPAddr).Port) }

type dbRouteKey struct {
	fam    bgp.Family
	prefix string
	id     uint32
}

// dbView is what a station knows about one monitored peer and one stream.
type dbView struct {
	routes map[dbRouteKey]string
}

// dbWiden renders a 2-octet AS_PATH (A flag in the per-peer header) in the 4-octet form the server stores.
func dbWiden(attrs []bgp.PathAttributeInterface) []bgp.PathAttributeInterface {
	out := append([]bgp.PathAttributeInterface(nil), attrs...)
	for i, a := range out {
		if v, ok := a.(*bgp.PathAttributeAsPath); ok {
			var ps []bgp.AsPathParamInterface
			for _, p := range v.Value {
				ps = append(ps, bgp.NewAs4PathParam(p.GetType(), append([]uint32(nil), p.GetAS()...)))
			}
			out[i] = bgp.NewPathAttributeAsPath(ps)
		}
	}
	return out
}

func dbApply(v *dbView, u *bgp.BGPUpdate) {
	attrs := c19dCanon(dbWiden(u.PathAttributes))
	for _, w := range u.WithdrawnRoutes {
		delete(v.routes, dbRouteKey{bgp.RF_IPv4_UC, w.NLRI.String(), w.ID})
	}
	for _, a := range u.PathAttributes {
		switch x := a.(type) {
		case *bgp.PathAttributeMpUnreachNLRI:
			for _, w := range x.Value {
				delete(v.routes, dbRouteKey{bgp.NewFamily(x.AFI, x.SAFI), w.NLRI.String(), w.ID})
			}
		case *bgp.PathAttributeMpReachNLRI:
			for _, n := range x.Value {
				v.routes[dbRouteKey{bgp.NewFamily(x.AFI, x.SAFI), n.NLRI.String(), n.ID}] = attrs
			}
		}
	}
	for _, n := range u.NLRI {
		v.routes[dbRouteKey{bgp.RF_IPv4_UC, n.NLRI.String(), n.ID}] = attrs
	}
}

func dbDiff(what string, got, want map[dbRouteKey]string) string {
	var keys []dbRouteKey
	for k := range got {
		keys = append(keys, k)
	}
	for k := range want {
		if _, ok := got[k]; !ok {
			keys = append(keys, k)
		}
	}
	sort.Slice(keys, func(i, j int) bool { return fmt.Sprint(keys[i]) < fmt.Sprint(keys[j]) })
	for _, k := range keys {
		g, gok := got[k]
		w, wok := want[k]
		switch {
		case gok && !wok:
			return fmt.Sprintf("%s: the BMP stream leaves %s %s (path id %d) in place, the server does not have it", what, k.fam, k.prefix, k.id)
		case !gok && wok:
			return fmt.Sprintf("%s: the server has %s %s (path id %d), the BMP stream never reported it (or withdrew it)", what, k.fam, k.prefix, k.id)
		case g != w:
			return fmt.Sprintf("%s: %s %s (path id %d) attributes differ\n   BMP:    %s\n   server: %s", what, k.fam, k.prefix, k.id, g, w)
		}
	}
	return ""
}

type dbSessFact struct {
	peer      int
	upAt      time.Duration
	downAt    time.Duration // 0 = still up
	sentOpen  []byte        // the server's OPEN as the peer read it
	recvOpen  []byte        // the peer's OPEN
	localPort uint16
	peerPort  uint16
}

func runDB(t *testing.T) func(c dbCase, st *verifkit.Stats) *verifkit.Failure {
	return func(c dbCase, st *verifkit.Stats) *verifkit.Failure {
		station, err := newDBStation()
		if err != nil {
			return verifkit.Failf("setup", "%v", err)
		}
		defer station.ln.Close()
		return simRun(t, func() *verifkit.Failure {
			ctx := context.Background()
			n, err := simStart(rsApiGlobal(rsGlobal{}))
			if err != nil {
				return verifkit.Failf("start", "%v", err)
			}
			defer n.stop()
			bmpOn := false
			defer func() {
				if bmpOn {
					_ = n.s.DeleteBmp(ctx, &api.DeleteBmpRequest{Address: "127.0.0.1", Port: station.port()})
					<-station.done
				}
			}()
			if err := rsAddPeers(n, rsGlobal{}, c.Peers); err != nil {
				return verifkit.Failf("addpeer", "%v", err)
			}
			n.settle()
			sess := make([]*simSess, len(c.Peers))
			var facts []*dbSessFact
			cur := make([]*dbSessFact, len(c.Peers))
			var log []string
			logf := func(f string, a ...any) { log = append(log, fmt.Sprintf("[%v] ", n.now())+fmt.Sprintf(f, a...)) }
			fail := func(sig, f string, a ...any) *verifkit.Failure {
				return verifkit.Failf(sig, "%s\n  policy %d stats %d\n  history:\n   %s", fmt.Sprintf(f, a...), c.Policy, c.Stats, strings.Join(log, "\n   "))
			}
			txOpt := func(i int) *bgp.MarshallingOption {
				o := rsTxOpt(&c.Peers[i])
				o.Use2ByteAS = c.NoAS4[i]
				return o
			}
			up := func(i int) *verifkit.Failure {
				if cur[i] != nil {
					return nil
				}
				spec := rsOpenSpec(&c.Peers[i])
				spec.NoAS4 = c.NoAS4[i]
				ss, _, err := n.establish(c.Peers[i].def(), spec)
				if err != nil {
					// (idle hold after a session went down: wait it out once)
					n.advance(6 * time.Second)
					ss, _, err = n.establish(c.Peers[i].def(), spec)
					if err != nil {
						return fail("establish", "peer %d: %v", i, err)
					}
				}
				sess[i] = ss
				rx, _, _ := ss.snapshot()
				m := c.Peers[i].def().open(spec)
				m.Header.Len = 0
				ob, _ := m.Serialize()
				f := &dbSessFact{peer: i, upAt: n.now(), sentOpen: rx[0].Raw, recvOpen: ob}
				facts = append(facts, f)
				cur[i] = f
				logf("peer %d up", i)
				return nil
			}
			serial := uint32(0)
			apply := func(o dbOp) *verifkit.Failure {
				switch o.Kind {
				case dbAnnounce, dbWithdraw:
					if cur[o.Peer] == nil {
						return nil
					}
					p := &c.Peers[o.Peer]
					id := uint32(0)
					if p.AddPathRecv {
						id = uint32(o.Route.PathID)
					}
					serial++
					var m *bgp.BGPMessage
					if o.Kind == dbAnnounce {
						m = rsAnnounce(p, o.Route.V6, o.Route.Prefix, id, c19dAttrs(p, o.Route, serial))
						if c.NoAS4[o.Peer] {
							m = rs2ByteAS(m)
						}
						logf("peer %d announces v6=%v prefix %d id %d variant %d", o.Peer, o.Route.V6, o.Route.Prefix, id, o.Route.Variant)
					} else {
						m = rsWithdraw(o.Route.V6, o.Route.Prefix, id)
						logf("peer %d withdraws v6=%v prefix %d id %d", o.Peer, o.Route.V6, o.Route.Prefix, id)
					}
					_ = sess[o.Peer].send(m, txOpt(o.Peer))
				case dbFlip:
					if cur[o.Peer] == nil {
						return nil
					}
					p := &c.Peers[o.Peer]
					id := uint32(0)
					if p.AddPathRecv {
						id = uint32(o.Route.PathID)
					}
					for step, variant := range []int{o.Route.Variant, (o.Route.Variant + 1) % 4, o.Route.Variant} {
						r := o.Route
						r.Variant = variant
						// same attributes for the same version: the serial (a community) is that of the version
						m := rsAnnounce(p, r.V6, r.Prefix, id, c19dAttrs(p, r, uint32(0xf000+variant)))
						if c.NoAS4[o.Peer] {
							m = rs2ByteAS(m)
						}
						logf("peer %d announces (flip %d) v6=%v prefix %d id %d variant %d", o.Peer, step, r.V6, r.Prefix, id, variant)
						_ = sess[o.Peer].send(m, txOpt(o.Peer))
						n.settle()
					}
				case dbDown:
					if cur[o.Peer] == nil {
						return nil
					}
					sess[o.Peer].close()
					cur[o.Peer].downAt = n.now()
					cur[o.Peer] = nil
					logf("peer %d closes its session", o.Peer)
				case dbUp:
					if f := up(o.Peer); f != nil {
						return f
					}
				case dbWait:
					n.advance(11 * time.Second)
					logf("waited 11 s")
					return nil
				}
				n.settle()
				return nil
			}
			for i := range c.Peers {
				if c.UpFirst[i] {
					if f := up(i); f != nil {
						return f
					}
				}
			}
			for _, o := range c.Before {
				if f := apply(o); f != nil {
					return f
				}
			}
			// ---- the station is added ----
			if err := n.s.AddBmp(ctx, &api.AddBmpRequest{Address: "127.0.0.1", Port: station.port(), Policy: api.AddBmpRequest_MonitoringPolicy(c.Policy), StatisticsTimeout: int32(c.Stats)}); err != nil {
				return fail("add-bmp", "%v", err)
			}
			bmpOn = true
			<-station.got // (real time: the client's connect)
			n.settle()
			addedAt := n.now()
			logf("station added")
			for _, o := range c.After {
				if f := apply(o); f != nil {
					return f
				}
			}
			n.settle()
			// ---- what the server holds now ----
			type ribs struct{ adjIn, accepted map[dbRouteKey]string }
			want := make([]ribs, len(c.Peers))
			for i := range c.Peers {
				want[i] = ribs{map[dbRouteKey]string{}, map[dbRouteKey]string{}}
				for _, fam := range []bgp.Family{bgp.RF_IPv4_UC, bgp.RF_IPv6_UC} {
					_ = n.s.ListPath(apiutil.ListPathRequest{TableType: api.TableType_TABLE_TYPE_ADJ_IN, Family: fam, Name: c.Peers[i].Addr}, func(prefix bgp.NLRI, paths []*apiutil.Path) {
						for _, pa := range paths {
							k := dbRouteKey{fam, prefix.String(), pa.RemoteID}
							want[i].adjIn[k] = c19dCanon(pa.Attrs)
							if !pa.Filtered {
								want[i].accepted[k] = c19dCanon(pa.Attrs)
							}
						}
					})
				}
			}
			best := map[dbRouteKey]string{}
			for _, fam := range []bgp.Family{bgp.RF_IPv4_UC, bgp.RF_IPv6_UC} {
				_ = n.s.ListPath(apiutil.ListPathRequest{TableType: api.TableType_TABLE_TYPE_GLOBAL, Family: fam}, func(prefix bgp.NLRI, paths []*apiutil.Path) {
					for _, pa := range paths {
						if pa.Best {
							best[dbRouteKey{fam, prefix.String(), 0}] = c19dCanon(pa.Attrs)
						}
					}
				})
			}
			established := map[string]bool{}
			for i := range c.Peers {
				if cur[i] != nil {
					established[c.Peers[i].Addr] = true
				}
			}
			if err := n.s.DeleteBmp(ctx, &api.DeleteBmpRequest{Address: "127.0.0.1", Port: station.port()}); err != nil {
				return fail("delete-bmp", "%v", err)
			}
			bmpOn = false
			<-station.done
			n.settle()

			// ---- read the stream like a station ----
			station.mu.Lock()
			stream := station.buf
			station.mu.Unlock()
			sc := bufio.NewScanner(bytes.NewReader(stream))
			sc.Buffer(make([]byte, 0, 1<<20), 1<<24)
			sc.Split(bmp.SplitBMP)
			type peerState struct {
				opt   *bgp.MarshallingOption // from the OPENs of the Peer Up
				up    bool
				pre   dbView
				post  dbView
				ups   int
				downs int
			}
			peers := map[string]*peerState{}
			ps := func(a string) *peerState {
				if peers[a] == nil {
					peers[a] = &peerState{pre: dbView{map[dbRouteKey]string{}}, post: dbView{map[dbRouteKey]string{}}}
				}
				return peers[a]
			}
			loc := dbView{map[dbRouteKey]string{}}
			locUp := false
			nmsg, consumed := 0, 0
			var lastType uint8
			upIdx := map[string]int{} // next session fact per peer
			for sc.Scan() {
				tok := append([]byte(nil), sc.Bytes()...)
				consumed += len(tok)
				msg, err := bmp.ParseBMPMessageWithOptions(tok, func(h bmp.BMPPeerHeader) []*bgp.MarshallingOption {
					if h.PeerType == bmp.BMP_PEER_TYPE_LOCAL_RIB {
						return []*bgp.MarshallingOption{{AddPath: map[bgp.Family]bgp.BGPAddPathMode{bgp.RF_IPv4_UC: bgp.BGP_ADD_PATH_BOTH, bgp.RF_IPv6_UC: bgp.BGP_ADD_PATH_BOTH}}}
					}
					p := ps(h.PeerAddress.String())
					o := &bgp.MarshallingOption{}
					if p.opt != nil {
						*o = *p.opt
					}
					o.Use2ByteAS = h.Flags&bmp.BMP_PEER_FLAG_TWO_AS != 0
					return []*bgp.MarshallingOption{o}
				})
				if err != nil {
					return fail("bmp-unparsable", "BMP message %d (type %d, %d octets) does not parse: %v\n   %x", nmsg, tok[5], len(tok), err, tok)
				}
				if nmsg == 0 && msg.Header.Type != bmp.BMP_MSG_INITIATION {
					return fail("bmp-no-initiation", "the first BMP message is of type %d", msg.Header.Type)
				}
				lastType = msg.Header.Type
				nmsg++
				h := msg.PeerHeader
				switch b := msg.Body.(type) {
				case *bmp.BMPPeerUpNotification:
					if h.PeerType == bmp.BMP_PEER_TYPE_LOCAL_RIB {
						locUp = true
						continue
					}
					addr := h.PeerAddress.String()
					pi := -1
					for i := range c.Peers {
						if c.Peers[i].Addr == addr {
							pi = i
						}
					}
					if pi < 0 {
						return fail("bmp-peer-up-unknown", "Peer Up for %s, which is not a configured peer", addr)
					}
					p := ps(addr)
					if p.up {
						return fail("bmp-peer-up-twice", "second Peer Up for %s without a Peer Down in between", addr)
					}
					p.up = true
					p.ups++
					if h.PeerAS != c.Peers[pi].AS || h.PeerBGPID.String() != c.Peers[pi].ID {
						return fail("bmp-peer-header", "Peer Up for %s: AS %d BGP id %s; the peer is AS %d id %s", addr, h.PeerAS, h.PeerBGPID, c.Peers[pi].AS, c.Peers[pi].ID)
					}
					// which session is it: the next one of this peer that was up while the station was connected
					var sf *dbSessFact
					for upIdx[addr] < len(facts) {
						f := facts[upIdx[addr]]
						upIdx[addr]++
						if f.peer == pi && (f.downAt == 0 || f.downAt >= addedAt) {
							sf = f
							break
						}
					}
					if sf == nil {
						return fail("bmp-peer-up-extra", "Peer Up for %s without a session that was up while the station was connected", addr)
					}
					b.SentOpenMsg.Header.Len = 0
					so, _ := b.SentOpenMsg.Serialize()
					b.ReceivedOpenMsg.Header.Len = 0
					ro, _ := b.ReceivedOpenMsg.Serialize()
					if !bytes.Equal(so, sf.sentOpen) {
						return fail("bmp-peer-up-sent-open", "Peer Up for %s: Sent OPEN %x, on the wire %x", addr, so, sf.sentOpen)
					}
					if !bytes.Equal(ro, sf.recvOpen) {
						return fail("bmp-peer-up-received-open", "Peer Up for %s: Received OPEN %x, the peer sent %x", addr, ro, sf.recvOpen)
					}
					if b.LocalAddress.String() != "192.0.2.254" || b.LocalPort != 179 {
						return fail("bmp-peer-up-local", "Peer Up for %s: local address %s port %d, the session's are 192.0.2.254:179", addr, b.LocalAddress, b.LocalPort)
					}
					// decoding options of this peer's Route Monitoring: ADD-PATH where the peer sends and the server receives
					o := &bgp.MarshallingOption{AddPath: map[bgp.Family]bgp.BGPAddPathMode{}}
					mode := func(m *bgp.BGPMessage) map[bgp.Family]bgp.BGPAddPathMode {
						out := map[bgp.Family]bgp.BGPAddPathMode{}
						for _, prm := range m.Body.(*bgp.BGPOpen).OptParams {
							if pc, ok := prm.(*bgp.OptionParameterCapability); ok {
								for _, cp := range pc.Capability {
									if ap, ok := cp.(*bgp.CapAddPath); ok {
										for _, tu := range ap.Tuples {
											out[tu.Family] = tu.Mode
										}
									}
								}
							}
						}
						return out
					}
					sentM, recvM := mode(b.SentOpenMsg), mode(b.ReceivedOpenMsg)
					for f, m := range recvM {
						if m&bgp.BGP_ADD_PATH_SEND != 0 && sentM[f]&bgp.BGP_ADD_PATH_RECEIVE != 0 {
							o.AddPath[f] = bgp.BGP_ADD_PATH_BOTH
						}
					}
					p.opt = o
				case *bmp.BMPPeerDownNotification:
					if h.PeerType == bmp.BMP_PEER_TYPE_LOCAL_RIB {
						locUp = false
						continue
					}
					p := ps(h.PeerAddress.String())
					if !p.up {
						return fail("bmp-peer-down-without-up", "Peer Down for %s without a Peer Up", h.PeerAddress)
					}
					p.up = false
					p.downs++
					p.pre.routes, p.post.routes = map[dbRouteKey]string{}, map[dbRouteKey]string{}
				case *bmp.BMPRouteMonitoring:
					if b.BGPUpdate == nil {
						return fail("bmp-route-monitoring-empty", "Route Monitoring without a parsable UPDATE")
					}
					u, ok := b.BGPUpdate.Body.(*bgp.BGPUpdate)
					if !ok {
						return fail("bmp-route-monitoring-not-update", "Route Monitoring carries a message of type %d", b.BGPUpdate.Header.Type)
					}
					if h.PeerType == bmp.BMP_PEER_TYPE_LOCAL_RIB {
						if !locUp {
							return fail("bmp-locrib-without-peer-up", "Loc-RIB Route Monitoring before the Loc-RIB Peer Up")
						}
						// one path per prefix in this view
						for i := range u.NLRI {
							u.NLRI[i].ID = 0
						}
						for i := range u.WithdrawnRoutes {
							u.WithdrawnRoutes[i].ID = 0
						}
						for _, a := range u.PathAttributes {
							switch x := a.(type) {
							case *bgp.PathAttributeMpReachNLRI:
								for i := range x.Value {
									x.Value[i].ID = 0
								}
							case *bgp.PathAttributeMpUnreachNLRI:
								for i := range x.Value {
									x.Value[i].ID = 0
								}
							}
						}
						dbApply(&loc, u)
						continue
					}
					p := ps(h.PeerAddress.String())
					if !p.up {
						return fail("bmp-route-without-peer-up", "Route Monitoring for %s while the peer is not up in the stream (no Peer Up before it)", h.PeerAddress)
					}
					if h.IsPostPolicy() {
						dbApply(&p.post, u)
					} else {
						dbApply(&p.pre, u)
					}
				case *bmp.BMPStatisticsReport:
					addr := h.PeerAddress.String()
					if !ps(addr).up {
						return fail("bmp-stats-without-peer-up", "Statistics Report for %s, which is not up in the stream", addr)
					}
				}
			}
			if consumed != len(stream) {
				return fail("bmp-trailing-octets", "%d of %d octets of the stream frame as BMP messages (scanner: %v)", consumed, len(stream), sc.Err())
			}
			if nmsg == 0 || lastType != bmp.BMP_MSG_TERMINATION {
				return fail("bmp-no-termination", "%d messages, the last one is of type %d, not a Termination", nmsg, lastType)
			}
			st.SubEval(nmsg)
			pre := c.Policy == 1 || c.Policy == 5
			post := c.Policy == 2 || c.Policy == 5
			local := c.Policy == 4 || c.Policy == 5
			for i := range c.Peers {
				addr := c.Peers[i].Addr
				p := ps(addr)
				if established[addr] != p.up {
					return fail("bmp-peer-state", "peer %s: established at the end=%v, in the BMP stream up=%v (%d Peer Up, %d Peer Down)", addr, established[addr], p.up, p.ups, p.downs)
				}
				// sessions that were up while the station was connected
				wantUps := 0
				for _, f := range facts {
					if f.peer == i && (f.downAt == 0 || f.downAt >= addedAt) {
						wantUps++
					}
				}
				if p.ups != wantUps {
					return fail("bmp-peer-up-count", "peer %s: %d sessions were up while the station was connected, %d Peer Up notifications", addr, wantUps, p.ups)
				}
				if !established[addr] {
					continue
				}
				if pre {
					if d := dbDiff("peer "+addr+" pre-policy", p.pre.routes, want[i].adjIn); d != "" {
						return fail("bmp-pre-policy-routes", "%s", d)
					}
				}
				if post {
					if d := dbDiff("peer "+addr+" post-policy", p.post.routes, want[i].accepted); d != "" {
						return fail("bmp-post-policy-routes", "%s", d)
					}
				}
			}
			if local {
				if d := dbDiff("Loc-RIB", loc.routes, best); d != "" {
					return fail("bmp-locrib-routes", "%s", d)
				}
			}
			if nmsg >= 4 {
				st.Nontrivial()
			}
			st.Label(fmt.Sprintf("policy-%d", c.Policy))
			return n.stop()
		})
	}
}

func TestVerifC19_daemon_bmp(t *testing.T) {
	verifkit.Run(t, "C19_daemon_bmp", drawDB, runDB(t))
}
