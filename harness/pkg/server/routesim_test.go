package server

// routesim — shared pieces of the route-propagation checks (C01, C02, C09, ...):
// plain-data peers and attribute sets, scripted announcements, the per-peer
// wire view (what a peer holds after applying, in order, every UPDATE written
// to its session) and the reference export function written from RFC 4271 /
// 4456 / 5065 and the property text.

import (
	"context"
	"fmt"
	"net/netip"
	"sort"
	"strings"

	"github.com/osrg/gobgp/v4/api"
	"github.com/osrg/gobgp/v4/pkg/packet/bgp"
)

const (
	rsLocalAS   = 65000
	rsRouterID  = "192.0.2.254"
	rsConfedID  = 64999 // confederation identifier (when enabled)
	rsConfedMem = 65100 // the other member AS
)

const (
	rsEBGP = iota
	rsIBGP
	rsRRClient
	rsConfed // eBGP session to another member AS of the confederation
)

type rsSeg struct {
	T  uint8    `json:"t"`
	AS []uint32 `json:"as"`
}

type rsAttrs struct {
	Origin     int      `json:"origin"`
	ASPath     []rsSeg  `json:"aspath"`
	NextHop    string   `json:"nexthop"`
	LinkLocal  string   `json:"link_local,omitempty"` // second (link-local) next hop of an IPv6 route
	MED        int64    `json:"med"`                  // -1 absent
	LocalPref  int64    `json:"lp"`                   // -1 absent
	Comms      []uint32 `json:"comms"`
	Originator string   `json:"originator"`
	Cluster    []string `json:"cluster"`
	UnkT       int      `json:"unk_t"`  // length of an unknown optional transitive attribute (0 none)
	UnkNT      int      `json:"unk_nt"` // length of an unknown optional non-transitive attribute (0 none)
}

type rsPeer struct {
	Addr          string `json:"addr"`
	AS            uint32 `json:"as"`
	ID            string `json:"id"`
	Kind          int    `json:"kind"`
	RemovePrivate int    `json:"remove_private"` // 0 none 1 all 2 replace
	ReplacePeerAS bool   `json:"replace_peer_as"`
	AllowOwnAS    int    `json:"allow_own_as"`
	SendMax       int    `json:"send_max"` // ADD-PATH send-max towards this peer (0 = off)
	AddPathRecv   bool   `json:"add_path_recv"`
	PfxLimit      int    `json:"pfx_limit,omitempty"` // max-prefixes per family (0 = none)
	// RSClient: the (external) peer is a route-server client: it is sent routes unchanged; Secondary: with the
	// secondary-route option (the client is offered the best path that is not its own)
	RSClient  bool `json:"rs_client,omitempty"`
	Secondary bool `json:"secondary,omitempty"`
}

type rsGlobal struct {
	Confed bool `json:"confed"`
	// NoClusterID: route-reflector clients are configured without a cluster-id; the effective one is the router-id
	// (which is what the harness configures explicitly otherwise, so the reference does not change)
	NoClusterID bool `json:"no_cluster_id,omitempty"`
}

// localAS is the AS the server presents to this peer.
func (g rsGlobal) localASFor(p *rsPeer) uint32 {
	if g.Confed && p.Kind == rsEBGP {
		return rsConfedID
	}
	return rsLocalAS
}

func (p *rsPeer) def() *simPeerDef {
	return &simPeerDef{Addr: p.Addr, AS: p.AS, ID: p.ID}
}

func (p *rsPeer) internal() bool { return p.Kind == rsIBGP || p.Kind == rsRRClient }

func rsApiPeer(g rsGlobal, p *rsPeer) *api.Peer {
	ap := &api.Peer{
		Conf:      &api.PeerConf{NeighborAddress: p.Addr, PeerAsn: p.AS, RemovePrivate: api.RemovePrivate(p.RemovePrivate), ReplacePeerAsn: p.ReplacePeerAS, AllowOwnAsn: uint32(p.AllowOwnAS)},
		Transport: &api.Transport{PassiveMode: true},
		Timers:    &api.Timers{Config: &api.TimersConfig{HoldTime: 0, KeepaliveInterval: 0}},
	}
	if p.Kind == rsRRClient {
		ap.RouteReflector = &api.RouteReflector{RouteReflectorClient: true, RouteReflectorClusterId: rsRouterID}
		if g.NoClusterID {
			ap.RouteReflector.RouteReflectorClusterId = ""
		}
	}
	if p.RSClient {
		ap.RouteServer = &api.RouteServer{RouteServerClient: true, SecondaryRoute: p.Secondary}
	}
	for _, f := range []bgp.Family{bgp.RF_IPv4_UC, bgp.RF_IPv6_UC} {
		as := &api.AfiSafi{
			Config:   &api.AfiSafiConfig{Family: c08ApiFamily(f), Enabled: true},
			AddPaths: &api.AddPaths{Config: &api.AddPathsConfig{Receive: p.AddPathRecv, SendMax: uint32(p.SendMax)}},
		}
		if p.PfxLimit > 0 {
			as.PrefixLimits = &api.PrefixLimit{Family: c08ApiFamily(f), MaxPrefixes: uint32(p.PfxLimit)}
		}
		ap.AfiSafis = append(ap.AfiSafis, as)
	}
	return ap
}

func rsApiGlobal(g rsGlobal) *api.Global {
	ag := &api.Global{Asn: rsLocalAS, RouterId: rsRouterID}
	if g.Confed {
		ag.Confederation = &api.Confederation{Enabled: true, Identifier: rsConfedID, MemberAsList: []uint32{rsConfedMem}}
	}
	return ag
}

// rsOpen is the scripted peer's OPEN: IPv4+IPv6 unicast, 4-octet AS, ADD-PATH complementing the server's configuration.
func rsOpenSpec(p *rsPeer) simOpenSpec {
	spec := simOpenSpec{HoldTime: 0, Families: []uint32{uint32(bgp.RF_IPv4_UC), uint32(bgp.RF_IPv6_UC)}, RR: true}
	mode := uint32(0)
	if p.SendMax > 0 {
		mode |= uint32(bgp.BGP_ADD_PATH_RECEIVE)
	}
	if p.AddPathRecv {
		mode |= uint32(bgp.BGP_ADD_PATH_SEND)
	}
	if mode != 0 {
		spec.AddPath = []uint32{uint32(bgp.RF_IPv4_UC)<<8 | mode, uint32(bgp.RF_IPv6_UC)<<8 | mode}
	}
	return spec
}

// options for decoding what the server sends to p / encoding what p sends
func rsRxOpt(p *rsPeer) *bgp.MarshallingOption {
	o := &bgp.MarshallingOption{AddPath: map[bgp.Family]bgp.BGPAddPathMode{}}
	if p.SendMax > 0 {
		o.AddPath[bgp.RF_IPv4_UC] = bgp.BGP_ADD_PATH_BOTH
		o.AddPath[bgp.RF_IPv6_UC] = bgp.BGP_ADD_PATH_BOTH
	}
	return o
}

func rsTxOpt(p *rsPeer) *bgp.MarshallingOption {
	o := &bgp.MarshallingOption{AddPath: map[bgp.Family]bgp.BGPAddPathMode{}}
	if p.AddPathRecv {
		o.AddPath[bgp.RF_IPv4_UC] = bgp.BGP_ADD_PATH_BOTH
		o.AddPath[bgp.RF_IPv6_UC] = bgp.BGP_ADD_PATH_BOTH
	}
	return o
}

// ---- building attributes / messages ----

const (
	rsUnkTType  = 241
	rsUnkNTType = 242
)

func (a rsAttrs) toBGP(nlri bgp.NLRI, v6 bool, pathID uint32) []bgp.PathAttributeInterface {
	attrs := []bgp.PathAttributeInterface{bgp.NewPathAttributeOrigin(uint8(a.Origin))}
	params := make([]bgp.AsPathParamInterface, 0, len(a.ASPath))
	for _, s := range a.ASPath {
		params = append(params, bgp.NewAs4PathParam(s.T, append([]uint32(nil), s.AS...)))
	}
	attrs = append(attrs, bgp.NewPathAttributeAsPath(params))
	if !v6 {
		nh, _ := bgp.NewPathAttributeNextHop(netip.MustParseAddr(a.NextHop))
		attrs = append(attrs, nh)
	}
	if a.MED >= 0 {
		attrs = append(attrs, bgp.NewPathAttributeMultiExitDisc(uint32(a.MED)))
	}
	if a.LocalPref >= 0 {
		attrs = append(attrs, bgp.NewPathAttributeLocalPref(uint32(a.LocalPref)))
	}
	if len(a.Comms) > 0 {
		attrs = append(attrs, bgp.NewPathAttributeCommunities(append([]uint32(nil), a.Comms...)))
	}
	if a.Originator != "" {
		o, _ := bgp.NewPathAttributeOriginatorId(netip.MustParseAddr(a.Originator))
		attrs = append(attrs, o)
	}
	if len(a.Cluster) > 0 {
		var l []netip.Addr
		for _, c := range a.Cluster {
			l = append(l, netip.MustParseAddr(c))
		}
		c, _ := bgp.NewPathAttributeClusterList(l)
		attrs = append(attrs, c)
	}
	if v6 {
		nhs := []netip.Addr{netip.MustParseAddr(a.NextHop)}
		if a.LinkLocal != "" {
			nhs = append(nhs, netip.MustParseAddr(a.LinkLocal))
		}
		mp, _ := bgp.NewPathAttributeMpReachNLRI(bgp.RF_IPv6_UC, []bgp.PathNLRI{{NLRI: nlri, ID: pathID}}, nhs...)
		attrs = append(attrs, mp)
	}
	if a.UnkT > 0 {
		attrs = append(attrs, bgp.NewPathAttributeUnknown(bgp.BGP_ATTR_FLAG_OPTIONAL|bgp.BGP_ATTR_FLAG_TRANSITIVE, rsUnkTType, rsFill(a.UnkT, 0x71)))
	}
	if a.UnkNT > 0 {
		attrs = append(attrs, bgp.NewPathAttributeUnknown(bgp.BGP_ATTR_FLAG_OPTIONAL, rsUnkNTType, rsFill(a.UnkNT, 0x72)))
	}
	return attrs
}

func rsFill(n int, b byte) []byte {
	out := make([]byte, n)
	for i := range out {
		out[i] = b
	}
	return out
}

func rsPrefix(v6 bool, i int) netip.Prefix {
	if v6 {
		return netip.PrefixFrom(netip.AddrFrom16([16]byte{0x20, 0x01, 0x0d, 0xb8, 0, byte(i)}), 48)
	}
	return netip.PrefixFrom(netip.AddrFrom4([4]byte{10, 100, byte(i), 0}), 24)
}

func rsAnnounce(p *rsPeer, v6 bool, prefix int, pathID uint32, a rsAttrs) *bgp.BGPMessage {
	nlri, _ := bgp.NewIPAddrPrefix(rsPrefix(v6, prefix))
	attrs := a.toBGP(nlri, v6, pathID)
	if v6 {
		return bgp.NewBGPUpdateMessage(nil, attrs, nil)
	}
	return bgp.NewBGPUpdateMessage(nil, attrs, []bgp.PathNLRI{{NLRI: nlri, ID: pathID}})
}

// rs2ByteAS rewrites the AS_PATH of an UPDATE the way a speaker without the 4-octet-AS
// capability sends it: 2-octet AS numbers (the generated AS numbers all fit).
func rs2ByteAS(m *bgp.BGPMessage) *bgp.BGPMessage {
	u, ok := m.Body.(*bgp.BGPUpdate)
	if !ok {
		return m
	}
	for i, a := range u.PathAttributes {
		if v, ok := a.(*bgp.PathAttributeAsPath); ok {
			var ps []bgp.AsPathParamInterface
			for _, p := range v.Value {
				l := p.GetAS()
				as := make([]uint16, len(l))
				for j := range l {
					as[j] = uint16(l[j])
				}
				ps = append(ps, bgp.NewAsPathParam(p.GetType(), as))
			}
			u.PathAttributes[i] = bgp.NewPathAttributeAsPath(ps)
		}
	}
	return m
}

func rsWithdraw(v6 bool, prefix int, pathID uint32) *bgp.BGPMessage {
	nlri, _ := bgp.NewIPAddrPrefix(rsPrefix(v6, prefix))
	if v6 {
		mp, _ := bgp.NewPathAttributeMpUnreachNLRI(bgp.RF_IPv6_UC, []bgp.PathNLRI{{NLRI: nlri, ID: pathID}})
		return bgp.NewBGPUpdateMessage(nil, []bgp.PathAttributeInterface{mp}, nil)
	}
	return bgp.NewBGPUpdateMessage([]bgp.PathNLRI{{NLRI: nlri, ID: pathID}}, nil, nil)
}

// ---- wire view ----

type rsViewKey struct {
	V6     bool
	Prefix string
	ID     uint32
}

type rsViewEntry struct {
	Attrs rsAttrs
	At    int // index of the message that last set it
}

type rsView struct {
	entries map[rsViewKey]rsViewEntry
	eor     map[bgp.Family]int
	seen    int
	errs    []string
	churn   int
}

func newRsView() *rsView {
	return &rsView{entries: map[rsViewKey]rsViewEntry{}, eor: map[bgp.Family]int{}}
}

func rsFromWire(attrs []bgp.PathAttributeInterface) (rsAttrs, []string) {
	a := rsAttrs{MED: -1, LocalPref: -1, Origin: -1}
	var extra []string
	for _, pa := range attrs {
		switch v := pa.(type) {
		case *bgp.PathAttributeOrigin:
			a.Origin = int(v.Value)
		case *bgp.PathAttributeAsPath:
			for _, prm := range v.Value {
				a.ASPath = append(a.ASPath, rsSeg{T: prm.GetType(), AS: append([]uint32(nil), prm.GetAS()...)})
			}
		case *bgp.PathAttributeNextHop:
			a.NextHop = v.Value.String()
		case *bgp.PathAttributeMpReachNLRI:
			a.NextHop = v.Nexthop.String()
			if v.LinkLocalNexthop.IsValid() {
				a.LinkLocal = v.LinkLocalNexthop.String()
			}
		case *bgp.PathAttributeMultiExitDisc:
			a.MED = int64(v.Value)
		case *bgp.PathAttributeLocalPref:
			a.LocalPref = int64(v.Value)
		case *bgp.PathAttributeCommunities:
			a.Comms = append([]uint32(nil), v.Value...)
		case *bgp.PathAttributeOriginatorId:
			a.Originator = v.Value.String()
		case *bgp.PathAttributeClusterList:
			for _, c := range v.Value {
				a.Cluster = append(a.Cluster, c.String())
			}
		case *bgp.PathAttributeUnknown:
			switch v.Type {
			case rsUnkTType:
				a.UnkT = len(v.Value)
			case rsUnkNTType:
				a.UnkNT = len(v.Value)
			default:
				extra = append(extra, fmt.Sprintf("unknown attribute type %d", v.Type))
			}
		case *bgp.PathAttributeMpUnreachNLRI:
		default:
			extra = append(extra, fmt.Sprintf("unexpected attribute %s", pa.GetType()))
		}
	}
	return a, extra
}

// feed applies the UPDATEs of a session that have not been applied yet.
func (v *rsView) feed(rx []simMsg, opt *bgp.MarshallingOption) {
	for ; v.seen < len(rx); v.seen++ {
		m := rx[v.seen]
		if m.Type() != bgp.BGP_MSG_UPDATE {
			continue
		}
		pm, err := bgp.ParseBGPMessage(m.Raw, opt)
		if err != nil {
			v.errs = append(v.errs, fmt.Sprintf("message %d does not parse under the negotiated options: %v (%x)", v.seen, err, m.Raw))
			continue
		}
		if len(m.Raw) > 4096 {
			v.errs = append(v.errs, fmt.Sprintf("message %d is %d octets on a session without extended messages", v.seen, len(m.Raw)))
		}
		u := pm.Body.(*bgp.BGPUpdate)
		if eor, f := u.IsEndOfRib(); eor {
			v.eor[f]++
			continue
		}
		a, extra := rsFromWire(u.PathAttributes)
		v.errs = append(v.errs, extra...)
		for _, n := range u.WithdrawnRoutes {
			delete(v.entries, rsViewKey{Prefix: n.NLRI.String(), ID: n.ID})
		}
		for _, pa := range u.PathAttributes {
			switch mp := pa.(type) {
			case *bgp.PathAttributeMpUnreachNLRI:
				for _, n := range mp.Value {
					delete(v.entries, rsViewKey{V6: true, Prefix: n.NLRI.String(), ID: n.ID})
				}
			case *bgp.PathAttributeMpReachNLRI:
				for _, n := range mp.Value {
					v.entries[rsViewKey{V6: true, Prefix: n.NLRI.String(), ID: n.ID}] = rsViewEntry{Attrs: a, At: v.seen}
				}
			}
		}
		for _, n := range u.NLRI {
			v.entries[rsViewKey{Prefix: n.NLRI.String(), ID: n.ID}] = rsViewEntry{Attrs: a, At: v.seen}
		}
	}
}

// ---- reference: is a received route usable, and what is exported to a target ----

func rsCountAS(a rsAttrs, as uint32) int {
	n := 0
	for _, s := range a.ASPath {
		for _, x := range s.AS {
			if x == as {
				n++
			}
		}
	}
	return n
}

// rsInbound: what the route looks like once accepted from src (nil = local), or rejected.
func rsInbound(g rsGlobal, src *rsPeer, a rsAttrs) (rsAttrs, bool) {
	if src == nil {
		return a, true
	}
	own := rsCountAS(a, g.localASFor(src))
	if g.Confed && g.localASFor(src) != rsConfedID {
		own += rsCountAS(a, rsConfedID)
	}
	if own > src.AllowOwnAS {
		return a, false
	}
	if src.internal() && a.Originator == rsRouterID {
		return a, false
	}
	out := a
	if !src.internal() {
		out.LocalPref = -1 // LOCAL_PREF is only meaningful inside the AS
	}
	return out, true
}

func rsIsPrivate(as uint32) bool {
	return 64512 <= as && as <= 65534 || 4200000000 <= as && as <= 4294967294
}

func rsCloneAttrs(a rsAttrs) rsAttrs {
	o := a
	o.ASPath = nil
	for _, s := range a.ASPath {
		o.ASPath = append(o.ASPath, rsSeg{T: s.T, AS: append([]uint32(nil), s.AS...)})
	}
	o.Comms = append([]uint32(nil), a.Comms...)
	o.Cluster = append([]string(nil), a.Cluster...)
	return o
}

// rsExport decides whether the (accepted) route a learned from src is advertised to dst and with which attributes.
// localAddr is the server's address on the session to dst.
func rsExport(g rsGlobal, src *rsPeer, a rsAttrs, dst *rsPeer, v6 bool) (rsAttrs, bool, string) {
	out := rsCloneAttrs(a)
	local := src == nil
	if !local {
		// RFC 2545 section 3: the link-local next hop of the neighbour the route was learned from is never passed on
		out.LinkLocal = ""
	}
	// replace-peer-as happens before the loop check
	if dst.ReplacePeerAS {
		for i := range out.ASPath {
			for j, x := range out.ASPath[i].AS {
				if x == dst.AS {
					out.ASPath[i].AS[j] = g.localASFor(dst)
				}
			}
		}
	}
	if dst.internal() && !local {
		// RFC 4271 9.2 / RFC 4456: routes learned from an internal peer go to internal peers only through reflection
		if src.internal() && src.Kind != rsRRClient && dst.Kind != rsRRClient {
			return out, false, "iBGP-learned route is not passed to a non-client iBGP peer"
		}
		if dst.Kind == rsRRClient {
			for _, c := range a.Cluster {
				if c == rsRouterID {
					return out, false, "CLUSTER_LIST contains the local cluster id"
				}
			}
		}
	}
	if !local && src.ID == dst.ID {
		return out, false, "route came from this router"
	}
	// AS loop toward the peer (AS_SEQUENCE and AS_SET members)
	for _, s := range out.ASPath {
		if s.T == bgp.BGP_ASPATH_ATTR_TYPE_SEQ || s.T == bgp.BGP_ASPATH_ATTR_TYPE_SET {
			for _, x := range s.AS {
				if x == dst.AS {
					return out, false, "peer AS already in the AS_PATH"
				}
			}
		}
	}
	if dst.RSClient {
		// "to route-server clients the route is unchanged" (after the two loop rules above)
		return out, true, ""
	}
	localAddr := "192.0.2.254"
	if v6 {
		// the sessions of the simulation run over IPv4: the session's local address as an IPv6 next hop
		localAddr = "::ffff:192.0.2.254"
	}
	out.UnkNT = 0 // unrecognised non-transitive attributes are never passed on
	if dst.internal() {
		if dst.Kind != rsRRClient {
			out.Originator, out.Cluster = "", nil
		} else {
			if out.Originator == "" {
				if local {
					out.Originator = rsRouterID
				} else {
					out.Originator = src.ID
				}
			}
			out.Cluster = append([]string{rsRouterID}, out.Cluster...)
		}
		if out.LocalPref < 0 {
			out.LocalPref = 100
		}
		if local && (out.NextHop == "0.0.0.0" || out.NextHop == "::") {
			out.NextHop = localAddr
			out.LinkLocal = ""
		}
		return out, true, ""
	}
	// external (incl. confederation member)
	out.Originator, out.Cluster = "", nil
	if !local || out.NextHop == "0.0.0.0" || out.NextHop == "::" {
		out.NextHop = localAddr
		out.LinkLocal = "" // the link-local address belongs to the next hop that was replaced
	}
	las := g.localASFor(dst)
	if dst.RemovePrivate != 0 {
		var segs []rsSeg
		for _, s := range out.ASPath {
			var as []uint32
			for _, x := range s.AS {
				if rsIsPrivate(x) {
					if dst.RemovePrivate == 2 {
						as = append(as, las)
					}
					continue
				}
				as = append(as, x)
			}
			if len(as) > 0 {
				segs = append(segs, rsSeg{T: s.T, AS: as})
			}
		}
		out.ASPath = segs
	}
	if dst.Kind == rsConfed {
		if len(out.ASPath) > 0 && out.ASPath[0].T == bgp.BGP_ASPATH_ATTR_TYPE_CONFED_SEQ && len(out.ASPath[0].AS) < 255 {
			out.ASPath[0].AS = append([]uint32{las}, out.ASPath[0].AS...)
		} else {
			out.ASPath = append([]rsSeg{{T: bgp.BGP_ASPATH_ATTR_TYPE_CONFED_SEQ, AS: []uint32{las}}}, out.ASPath...)
		}
	} else {
		var segs []rsSeg
		for _, s := range out.ASPath {
			if s.T == bgp.BGP_ASPATH_ATTR_TYPE_SEQ || s.T == bgp.BGP_ASPATH_ATTR_TYPE_SET {
				segs = append(segs, s)
			}
		}
		if len(segs) > 0 && segs[0].T == bgp.BGP_ASPATH_ATTR_TYPE_SEQ && len(segs[0].AS) < 255 {
			segs[0].AS = append([]uint32{las}, segs[0].AS...)
		} else {
			segs = append([]rsSeg{{T: bgp.BGP_ASPATH_ATTR_TYPE_SEQ, AS: []uint32{las}}}, segs...)
		}
		out.ASPath = segs
	}
	if !local {
		out.MED = -1
	}
	out.LocalPref = -1
	return out, true, ""
}

func rsAttrsEqual(a, b rsAttrs) (bool, string) {
	var diffs []string
	if a.Origin != b.Origin {
		diffs = append(diffs, fmt.Sprintf("ORIGIN %d vs %d", a.Origin, b.Origin))
	}
	if fmt.Sprint(a.ASPath) != fmt.Sprint(b.ASPath) {
		diffs = append(diffs, fmt.Sprintf("AS_PATH %v vs %v", a.ASPath, b.ASPath))
	}
	if a.NextHop != b.NextHop {
		diffs = append(diffs, fmt.Sprintf("next hop %s vs %s", a.NextHop, b.NextHop))
	}
	if a.LinkLocal != b.LinkLocal {
		diffs = append(diffs, fmt.Sprintf("link-local next hop %q vs %q", a.LinkLocal, b.LinkLocal))
	}
	if a.MED != b.MED {
		diffs = append(diffs, fmt.Sprintf("MED %d vs %d", a.MED, b.MED))
	}
	if a.LocalPref != b.LocalPref {
		diffs = append(diffs, fmt.Sprintf("LOCAL_PREF %d vs %d", a.LocalPref, b.LocalPref))
	}
	ca, cb := append([]uint32(nil), a.Comms...), append([]uint32(nil), b.Comms...)
	sort.Slice(ca, func(i, j int) bool { return ca[i] < ca[j] })
	sort.Slice(cb, func(i, j int) bool { return cb[i] < cb[j] })
	if fmt.Sprint(ca) != fmt.Sprint(cb) {
		diffs = append(diffs, fmt.Sprintf("communities %v vs %v", a.Comms, b.Comms))
	}
	if a.Originator != b.Originator {
		diffs = append(diffs, fmt.Sprintf("ORIGINATOR_ID %q vs %q", a.Originator, b.Originator))
	}
	if strings.Join(a.Cluster, ",") != strings.Join(b.Cluster, ",") {
		diffs = append(diffs, fmt.Sprintf("CLUSTER_LIST %v vs %v", a.Cluster, b.Cluster))
	}
	if a.UnkT != b.UnkT {
		diffs = append(diffs, fmt.Sprintf("unknown transitive attribute %d vs %d octets", a.UnkT, b.UnkT))
	}
	if a.UnkNT != b.UnkNT {
		diffs = append(diffs, fmt.Sprintf("unknown non-transitive attribute %d vs %d octets", a.UnkNT, b.UnkNT))
	}
	return len(diffs) == 0, strings.Join(diffs, "; ")
}

// rsAddPeers configures the peers through the public API.
func rsAddPeers(n *simNet, g rsGlobal, peers []rsPeer) error {
	for i := range peers {
		if err := n.s.AddPeer(context.Background(), &api.AddPeerRequest{Peer: rsApiPeer(g, &peers[i])}); err != nil {
			return fmt.Errorf("AddPeer %s: %w", peers[i].Addr, err)
		}
	}
	return nil
}
