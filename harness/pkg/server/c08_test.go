package server

// C08 — session parameters are negotiated as the intersection of both OPENs.
//
// Generated neighbour configurations x generated peer OPENs (any capability
// multiset).  A reference negotiation function written from RFC 4271/4760/
// 5492/6793/7911/8654 and the property text is compared with: the OPEN bytes
// the server sends, the handshake outcome, ListPeer (timers, ADD-PATH state,
// peer type), and the behaviour afterwards in virtual time (keepalive cadence,
// encoding of the UPDATEs the server sends, acceptance of path identifiers and
// of messages above 4096 octets).

import (
	"bytes"
	"context"
	"fmt"
	"net/netip"
	"sort"
	"testing"
	"time"

	"github.com/osrg/gobgp/v4/api"
	"github.com/osrg/gobgp/v4/internal/pkg/verifkit"
	"github.com/osrg/gobgp/v4/pkg/apiutil"
	"github.com/osrg/gobgp/v4/pkg/packet/bgp"
	"pgregory.net/rapid"
)

type c08Fam struct {
	Fam     int  `json:"fam"` // index into c08Families
	Receive bool `json:"receive"`
	SendMax int  `json:"send_max"`
}

type c08Tuple struct {
	Fam  int `json:"fam"`
	Mode int `json:"mode"` // 1 receive 2 send 3 both
}

type c08Case struct {
	// local side
	LocalAS    uint32   `json:"local_as"`
	PeerAS     uint32   `json:"peer_as"`      // what the peer really is
	AcceptAny  bool     `json:"accept_any"`   // configure peer-as 0
	Hold       int      `json:"hold"`         // configured hold (0 = default 90)
	KAMode     int      `json:"ka_mode"`      // configured keepalive interval: 0 a third of the hold time (default), 1 one second, 2 half of it, 3 two thirds
	NbrLocalAS uint32   `json:"nbr_local_as"` // per-neighbour local-as (0 = none): the AS this speaker presents to the peer
	Fams       []c08Fam `json:"fams"`
	// remote OPEN
	RHold     int          `json:"rhold"`
	RFams     []int        `json:"rfams"` // MP capabilities announced (indexes), may repeat; nil+NoMP => none
	NoMP      bool         `json:"no_mp"`
	RAddPath  [][]c08Tuple `json:"radd_path"` // several ADD-PATH capabilities, each a tuple list
	RAS4      bool         `json:"ras4"`
	// RAS4Decoy != 0: the OPEN carries the 4-octet AS capability twice; the first instance holds this value, the last
	// one the real AS (the last instance of a repeated capability is the one that counts, in validation and after it)
	RAS4Decoy uint32       `json:"ras4_decoy,omitempty"`
	RExt      bool         `json:"rext"`
	RUnknown  int          `json:"runknown"`   // number of unknown capabilities
	SplitCaps bool         `json:"split_caps"` // one optional parameter per capability
	// an earlier session of the same neighbour with another OPEN: nothing of it may survive
	Prev *c08Remote `json:"prev"`
}

type c08Remote struct {
	RHold    int          `json:"rhold"`
	RFams    []int        `json:"rfams"`
	RAddPath [][]c08Tuple `json:"radd_path"`
	RAS4     bool         `json:"ras4"`
	RExt     bool         `json:"rext"`
}

var c08Families = []bgp.Family{bgp.RF_IPv4_UC, bgp.RF_IPv6_UC, bgp.RF_IPv4_VPN, bgp.RF_EVPN, bgp.RF_FS_IPv4_UC}

func c08ApiFamily(f bgp.Family) *api.Family {
	return &api.Family{Afi: api.Family_Afi(f.Afi()), Safi: api.Family_Safi(f.Safi())}
}

// effLocalAS is the AS the server presents to this neighbour.
func (c *c08Case) effLocalAS() uint32 {
	if c.NbrLocalAS != 0 {
		return c.NbrLocalAS
	}
	return c.LocalAS
}

// confKeepalive is the configured keepalive interval (seconds) and the value handed to the API (0 = unset).
func (c *c08Case) confKeepalive() (int, uint64) {
	local := c.Hold
	if local == 0 {
		local = 90
	}
	switch c.KAMode {
	case 1:
		return 1, 1
	case 2:
		return local / 2, uint64(local / 2)
	case 3:
		return local * 2 / 3, uint64(local * 2 / 3)
	}
	return local / 3, uint64(c.Hold / 3)
}

func drawC08(t *rapid.T) c08Case {
	c := c08Case{
		LocalAS:   rapid.SampledFrom([]uint32{65000, 65000, 4200000000}).Draw(t, "local_as"),
		AcceptAny: rapid.IntRange(0, 3).Draw(t, "accept_any") == 0,
		Hold:      rapid.SampledFrom([]int{0, 9, 30, 3, 90}).Draw(t, "hold"),
		RHold:     rapid.SampledFrom([]int{0, 3, 9, 30, 180, 65535, 4}).Draw(t, "rhold"),
		RAS4:      rapid.IntRange(0, 3).Draw(t, "ras4") != 0,
		RExt:      rapid.Bool().Draw(t, "rext"),
		RUnknown:  rapid.IntRange(0, 2).Draw(t, "runknown"),
		SplitCaps: rapid.Bool().Draw(t, "split"),
	}
	c.KAMode = rapid.SampledFrom([]int{0, 0, 0, 1, 2, 3}).Draw(t, "ka_mode")
	if rapid.IntRange(0, 3).Draw(t, "nbr_local_as") == 0 {
		c.NbrLocalAS = rapid.SampledFrom([]uint32{65100, 64999, 4200000100}).Draw(t, "nbr_local_as_v")
	}
	switch rapid.IntRange(0, 4).Draw(t, "peer_kind") {
	case 0:
		c.PeerAS = c.effLocalAS() // iBGP
	case 4:
		c.PeerAS = c.LocalAS // the global AS: internal only if no other local-as is presented to this neighbour
	case 1:
		c.PeerAS = 4200000001
	default:
		c.PeerAS = 65001
	}
	if !c.RAS4 && c.PeerAS > 65535 {
		c.PeerAS = 65001
	}
	if c.RAS4 && rapid.IntRange(0, 3).Draw(t, "ras4_decoy") == 0 {
		c.RAS4Decoy = rapid.SampledFrom([]uint32{c.effLocalAS(), c.LocalAS, c.PeerAS + 1, 65001, 4200000001}).Draw(t, "ras4_decoy_v")
		if c.RAS4Decoy == c.PeerAS {
			c.RAS4Decoy = c.PeerAS + 2
		}
	}
	nf := rapid.IntRange(1, len(c08Families)).Draw(t, "nfams")
	perm := rapid.Permutation([]int{0, 1, 2, 3, 4}).Draw(t, "fams")
	for i := 0; i < nf; i++ {
		c.Fams = append(c.Fams, c08Fam{Fam: perm[i], Receive: rapid.Bool().Draw(t, fmt.Sprintf("recv%d", i)), SendMax: rapid.SampledFrom([]int{0, 0, 1, 2}).Draw(t, fmt.Sprintf("smax%d", i))})
	}
	c.NoMP = rapid.IntRange(0, 5).Draw(t, "no_mp") == 0
	if !c.NoMP {
		n := rapid.IntRange(1, 6).Draw(t, "nrf")
		for i := 0; i < n; i++ {
			c.RFams = append(c.RFams, rapid.IntRange(0, len(c08Families)-1).Draw(t, fmt.Sprintf("rf%d", i)))
		}
	}
	nap := rapid.IntRange(0, 2).Draw(t, "nap")
	for i := 0; i < nap; i++ {
		var ts []c08Tuple
		nt := rapid.IntRange(1, 4).Draw(t, fmt.Sprintf("nt%d", i))
		for j := 0; j < nt; j++ {
			ts = append(ts, c08Tuple{Fam: rapid.IntRange(0, len(c08Families)-1).Draw(t, fmt.Sprintf("apf%d_%d", i, j)), Mode: rapid.IntRange(1, 3).Draw(t, fmt.Sprintf("apm%d_%d", i, j))})
		}
		c.RAddPath = append(c.RAddPath, ts)
	}
	if rapid.IntRange(0, 2).Draw(t, "prev") != 0 {
		pr := &c08Remote{
			RHold: rapid.SampledFrom([]int{0, 3, 9, 30, 180}).Draw(t, "p_rhold"),
			RAS4:  c.PeerAS > 65535 || rapid.Bool().Draw(t, "p_ras4"),
			RExt:  rapid.IntRange(0, 3).Draw(t, "p_rext") != 0,
		}
		n := rapid.IntRange(1, 5).Draw(t, "p_nrf")
		for i := 0; i < n; i++ {
			pr.RFams = append(pr.RFams, rapid.IntRange(0, len(c08Families)-1).Draw(t, fmt.Sprintf("p_rf%d", i)))
		}
		var ts []c08Tuple
		nt := rapid.IntRange(0, 4).Draw(t, "p_nt")
		for j := 0; j < nt; j++ {
			ts = append(ts, c08Tuple{Fam: rapid.IntRange(0, len(c08Families)-1).Draw(t, fmt.Sprintf("p_apf%d", j)), Mode: rapid.IntRange(1, 3).Draw(t, fmt.Sprintf("p_apm%d", j))})
		}
		if len(ts) > 0 {
			pr.RAddPath = [][]c08Tuple{ts}
		}
		c.Prev = pr
	}
	return c
}

// ---- reference negotiation ----

type c08Ref struct {
	refused   bool  // OPEN must be refused
	refSub    uint8 // NOTIFICATION subcode (code 2)
	hold      int
	keepalive int
	fams      map[bgp.Family]bgp.BGPAddPathMode // negotiated families with ADD-PATH mode (send/receive from the server's view)
	as4       bool
	ext       bool
	ibgp      bool
}

func c08Reference(c *c08Case) c08Ref {
	r := c08Ref{fams: map[bgp.Family]bgp.BGPAddPathMode{}}
	if c.RHold == 1 || c.RHold == 2 {
		r.refused, r.refSub = true, bgp.BGP_ERROR_SUB_UNACCEPTABLE_HOLD_TIME
		return r
	}
	local := c.Hold
	if local == 0 {
		local = 90
	}
	r.hold = local
	if c.RHold < r.hold {
		r.hold = c.RHold
	}
	r.keepalive, _ = c.confKeepalive() // the configured one applies when the local hold time is the negotiated one
	if r.hold < local {
		r.keepalive = r.hold / 3
	}
	if r.hold != 0 && r.keepalive == 0 {
		r.keepalive = 1
	}
	remote := map[bgp.Family]bool{}
	if c.NoMP {
		remote[bgp.RF_IPv4_UC] = true // no multiprotocol capability: IPv4 unicast only
	}
	for _, i := range c.RFams {
		remote[c08Families[i]] = true
	}
	rmode := map[bgp.Family]bgp.BGPAddPathMode{}
	for _, cap := range c.RAddPath {
		for _, tu := range cap {
			rmode[c08Families[tu.Fam]] = bgp.BGPAddPathMode(tu.Mode) // the last tuple for a family wins
		}
	}
	for _, lf := range c.Fams {
		f := c08Families[lf.Fam]
		if !remote[f] {
			continue
		}
		var m bgp.BGPAddPathMode
		if lf.SendMax > 0 && rmode[f]&bgp.BGP_ADD_PATH_RECEIVE != 0 {
			m |= bgp.BGP_ADD_PATH_SEND
		}
		if lf.Receive && rmode[f]&bgp.BGP_ADD_PATH_SEND != 0 {
			m |= bgp.BGP_ADD_PATH_RECEIVE
		}
		r.fams[f] = m
	}
	r.as4 = c.RAS4
	r.ext = c.RExt
	r.ibgp = c.PeerAS == c.effLocalAS()
	return r
}

func c08PeerOpen(c *c08Case, p *simPeerDef) *bgp.BGPMessage {
	var caps []bgp.ParameterCapabilityInterface
	for _, i := range c.RFams {
		caps = append(caps, bgp.NewCapMultiProtocol(c08Families[i]))
	}
	if c.RAS4 {
		if c.RAS4Decoy != 0 {
			caps = append(caps, bgp.NewCapFourOctetASNumber(c.RAS4Decoy))
		}
		caps = append(caps, bgp.NewCapFourOctetASNumber(c.PeerAS))
	}
	if c.RExt {
		caps = append(caps, bgp.NewCapExtendedMessage())
	}
	for _, cap := range c.RAddPath {
		var ts []*bgp.CapAddPathTuple
		for _, tu := range cap {
			ts = append(ts, bgp.NewCapAddPathTuple(c08Families[tu.Fam], bgp.BGPAddPathMode(tu.Mode)))
		}
		caps = append(caps, bgp.NewCapAddPath(ts))
	}
	for i := 0; i < c.RUnknown; i++ {
		caps = append(caps, bgp.NewCapUnknown(bgp.BGPCapabilityCode(200+i), []byte{1, 2, byte(i)}))
	}
	caps = append(caps, bgp.NewCapRouteRefresh())
	var params []bgp.OptionParameterInterface
	if c.SplitCaps {
		for _, cp := range caps {
			params = append(params, bgp.NewOptionParameterCapability([]bgp.ParameterCapabilityInterface{cp}))
		}
	} else {
		params = append(params, bgp.NewOptionParameterCapability(caps))
	}
	my := uint16(c.PeerAS)
	if c.PeerAS > 65535 {
		my = bgp.AS_TRANS
	}
	m, _ := bgp.NewBGPOpenMessage(my, uint16(c.RHold), netip.MustParseAddr(p.ID), params)
	return m
}

func c08LocalRoute(f bgp.Family, i int) (bgp.NLRI, []bgp.PathAttributeInterface) {
	origin := bgp.NewPathAttributeOrigin(0)
	switch f {
	case bgp.RF_IPv4_UC:
		n, _ := bgp.NewIPAddrPrefix(netip.PrefixFrom(netip.AddrFrom4([4]byte{10, 8, byte(i), 0}), 24))
		nh, _ := bgp.NewPathAttributeNextHop(netip.MustParseAddr("192.0.2.1"))
		return n, []bgp.PathAttributeInterface{origin, nh}
	case bgp.RF_IPv6_UC:
		n, _ := bgp.NewIPAddrPrefix(netip.PrefixFrom(netip.AddrFrom16([16]byte{0x20, 0x01, 0x0d, 0xb8, 8, byte(i)}), 48))
		mp, _ := bgp.NewPathAttributeMpReachNLRI(f, []bgp.PathNLRI{{NLRI: n}}, netip.MustParseAddr("2001:db8::1"))
		return n, []bgp.PathAttributeInterface{origin, mp}
	case bgp.RF_IPv4_VPN:
		n, _ := bgp.NewLabeledVPNIPAddrPrefix(netip.PrefixFrom(netip.AddrFrom4([4]byte{10, 9, byte(i), 0}), 24), *bgp.NewMPLSLabelStack(uint32(100 + i)), bgp.NewRouteDistinguisherTwoOctetAS(65000, 1))
		mp, _ := bgp.NewPathAttributeMpReachNLRI(f, []bgp.PathNLRI{{NLRI: n}}, netip.MustParseAddr("192.0.2.1"))
		return n, []bgp.PathAttributeInterface{origin, mp}
	}
	return nil, nil
}

func runC08(t *testing.T) func(c c08Case, st *verifkit.Stats) *verifkit.Failure {
	return func(c c08Case, st *verifkit.Stats) *verifkit.Failure {
		return simRun(t, func() *verifkit.Failure {
			ctx := context.Background()
			// no Families in the global config: every family is enabled in the global RIB by default
			n, err := simStart(&api.Global{Asn: c.LocalAS, RouterId: "192.0.2.254"})
			if err != nil {
				return verifkit.Failf("start", "%v", err)
			}
			defer n.stop()
			p := &simPeerDef{Addr: "10.0.0.1", AS: c.PeerAS, ID: "10.0.0.1"}
			peer := &api.Peer{
				Conf:      &api.PeerConf{NeighborAddress: p.Addr, PeerAsn: c.PeerAS},
				Transport: &api.Transport{PassiveMode: true},
				Timers:    &api.Timers{Config: &api.TimersConfig{HoldTime: uint64(c.Hold)}},
			}
			_, peer.Timers.Config.KeepaliveInterval = c.confKeepalive()
			peer.Conf.LocalAsn = c.NbrLocalAS
			if c.AcceptAny {
				peer.Conf.PeerAsn = 0
			}
			for _, lf := range c.Fams {
				f := c08Families[lf.Fam]
				peer.AfiSafis = append(peer.AfiSafis, &api.AfiSafi{
					Config:   &api.AfiSafiConfig{Family: c08ApiFamily(f), Enabled: true},
					AddPaths: &api.AddPaths{Config: &api.AddPathsConfig{Receive: lf.Receive, SendMax: uint32(lf.SendMax)}},
				})
			}
			if err := n.s.AddPeer(ctx, &api.AddPeerRequest{Peer: peer}); err != nil {
				return verifkit.Failf("addpeer", "%v", err)
			}
			// local routes in every family that has a simple generator, two paths per prefix are not needed here
			for _, f := range []bgp.Family{bgp.RF_IPv4_UC, bgp.RF_IPv6_UC, bgp.RF_IPv4_VPN} {
				for i := 0; i < 2; i++ {
					nl, attrs := c08LocalRoute(f, i)
					if _, err := n.s.AddPath(apiutil.AddPathRequest{Paths: []*apiutil.Path{{Family: f, Nlri: nl, Attrs: attrs}}}); err != nil {
						return verifkit.Failf("addpath", "%s: %v", f, err)
					}
				}
			}
			n.settle()
			ref := c08Reference(&c)

			// ---- an earlier session with a different OPEN ----
			if c.Prev != nil {
				pc := c
				pc.RHold, pc.RFams, pc.NoMP, pc.RAddPath, pc.RAS4, pc.RExt, pc.RUnknown = c.Prev.RHold, c.Prev.RFams, false, c.Prev.RAddPath, c.Prev.RAS4, c.Prev.RExt, 0
				pss := n.connect(p)
				n.settle()
				_ = pss.send(c08PeerOpen(&pc, p), nil)
				n.settle()
				_ = pss.send(bgp.NewBGPKeepAliveMessage(), nil)
				n.settle()
				if stt, _, _ := n.peerState(p.Addr); stt == api.PeerState_SESSION_STATE_ESTABLISHED {
					st.Label("previous-session-established")
				}
				n.advance(time.Second)
				pss.close()
				n.settle()
				n.advance(12 * time.Second) // idle hold time
			}

			// ---- the OPEN the server sends reflects the configuration ----
			ss := n.connect(p)
			n.settle()
			rx, _, _ := ss.snapshot()
			if len(rx) == 0 || rx[0].Type() != bgp.BGP_MSG_OPEN {
				return verifkit.Failf("no-open", "server sent no OPEN")
			}
			om, err := bgp.ParseBGPMessage(rx[0].Raw)
			if err != nil {
				return verifkit.Failf("open-unparsable", "server OPEN does not parse: %v\n%x", err, rx[0].Raw)
			}
			open := om.Body.(*bgp.BGPOpen)
			wantMy := uint16(c.effLocalAS())
			if c.effLocalAS() > 65535 {
				wantMy = bgp.AS_TRANS
			}
			if open.MyAS != wantMy {
				return verifkit.Failf("open-myas", "OPEN My-AS is %d, want %d for local AS %d", open.MyAS, wantMy, c.effLocalAS())
			}
			localHold := c.Hold
			if localHold == 0 {
				localHold = 90
			}
			if int(open.HoldTime) != localHold {
				return verifkit.Failf("open-hold", "OPEN hold time is %d, configured %d", open.HoldTime, localHold)
			}
			if open.ID.String() != "192.0.2.254" {
				return verifkit.Failf("open-id", "OPEN identifier is %s", open.ID)
			}
			gotMP := map[bgp.Family]int{}
			gotAP := map[bgp.Family]bgp.BGPAddPathMode{}
			as4seen, extseen := uint32(0), false
			for _, op := range open.OptParams {
				pc, ok := op.(*bgp.OptionParameterCapability)
				if !ok {
					continue
				}
				for _, cp := range pc.Capability {
					switch v := cp.(type) {
					case *bgp.CapMultiProtocol:
						gotMP[v.CapValue]++
					case *bgp.CapAddPath:
						for _, tu := range v.Tuples {
							gotAP[tu.Family] = tu.Mode
						}
					case *bgp.CapFourOctetASNumber:
						as4seen = v.CapValue
					case *bgp.CapExtendedMessage:
						extseen = true
					}
				}
			}
			for _, lf := range c.Fams {
				f := c08Families[lf.Fam]
				if gotMP[f] != 1 {
					return verifkit.Failf("open-mp", "OPEN announces %s %d times, configured once", f, gotMP[f])
				}
				var want bgp.BGPAddPathMode
				if lf.Receive {
					want |= bgp.BGP_ADD_PATH_RECEIVE
				}
				if lf.SendMax > 0 {
					want |= bgp.BGP_ADD_PATH_SEND
				}
				if gotAP[f] != want {
					return verifkit.Failf("open-addpath", "OPEN ADD-PATH mode for %s is %d, configuration implies %d", f, gotAP[f], want)
				}
			}
			if len(gotMP) != len(c.Fams) {
				return verifkit.Failf("open-mp-extra", "OPEN announces %d families, %d configured", len(gotMP), len(c.Fams))
			}
			if as4seen != c.effLocalAS() {
				return verifkit.Failf("open-as4", "4-octet AS capability carries %d, local AS is %d", as4seen, c.effLocalAS())
			}
			if !extseen {
				return verifkit.Failf("open-ext", "Extended Message capability not announced")
			}

			// ---- handshake ----
			if err := ss.send(c08PeerOpen(&c, p), nil); err != nil {
				return verifkit.Failf("send-open", "%v", err)
			}
			n.settle()
			rx, eof, _ := ss.snapshot()
			if ref.refused {
				nots := simOfType(rx, bgp.BGP_MSG_NOTIFICATION)
				if len(nots) != 1 || nots[0].Raw[19] != bgp.BGP_ERROR_OPEN_MESSAGE_ERROR || nots[0].Raw[20] != ref.refSub || !eof {
					return verifkit.Failf("not-refused", "OPEN with hold time %d must be refused with NOTIFICATION 2/%d", c.RHold, ref.refSub)
				}
				st.Label("refused-hold")
				return nil
			}
			if len(simOfType(rx, bgp.BGP_MSG_NOTIFICATION)) > 0 || eof {
				return verifkit.Failf("valid-open-refused", "a valid OPEN was refused: %x", rx[len(rx)-1].Raw)
			}
			tEst := n.now()
			if err := ss.send(bgp.NewBGPKeepAliveMessage(), nil); err != nil {
				return verifkit.Failf("send-keepalive", "%v", err)
			}
			n.settle()
			stt, _, pl := n.peerState(p.Addr)
			if stt != api.PeerState_SESSION_STATE_ESTABLISHED {
				return verifkit.Failf("not-established", "session is %s after a complete handshake", stt)
			}

			// ---- ListPeer ----
			if got := int(pl.Timers.State.NegotiatedHoldTime); got != ref.hold {
				return verifkit.Failf("hold", "negotiated hold time %d, want min(%d, %d)", got, localHold, c.RHold)
			}
			if ref.hold != 0 {
				if got := int(pl.Timers.State.KeepaliveInterval); got != ref.keepalive {
					return verifkit.Failf("keepalive", "keepalive interval %d, want %d (hold %d, configured hold %d)", got, ref.keepalive, ref.hold, localHold)
				}
			}
			wantType := api.PeerType_PEER_TYPE_EXTERNAL
			if ref.ibgp {
				wantType = api.PeerType_PEER_TYPE_INTERNAL
			}
			if pl.State.Type != wantType {
				return verifkit.Failf("peer-type", "peer type %s, real remote AS %d vs local %d (global %d)", pl.State.Type, c.PeerAS, c.effLocalAS(), c.LocalAS)
			}
			if pl.State.PeerAsn != c.PeerAS {
				return verifkit.Failf("peer-as", "reported peer AS %d, real %d", pl.State.PeerAsn, c.PeerAS)
			}
			for _, af := range pl.AfiSafis {
				f := bgp.NewFamily(uint16(af.Config.Family.Afi), uint8(af.Config.Family.Safi))
				m, negotiated := ref.fams[f]
				if af.AddPaths == nil || af.AddPaths.State == nil {
					continue
				}
				wantRecv := negotiated && m&bgp.BGP_ADD_PATH_RECEIVE != 0
				wantSend := negotiated && m&bgp.BGP_ADD_PATH_SEND != 0
				if af.AddPaths.State.Receive != wantRecv || (af.AddPaths.State.SendMax > 0) != wantSend {
					return verifkit.Failf("addpath-state", "%s: reported ADD-PATH receive=%v send-max=%d, reference receive=%v send=%v", f, af.AddPaths.State.Receive, af.AddPaths.State.SendMax, wantRecv, wantSend)
				}
			}

			// ---- encoding of what the server sends ----
			opt := &bgp.MarshallingOption{AddPath: map[bgp.Family]bgp.BGPAddPathMode{}, ExtendedMessage: ref.ext, Use2ByteAS: !ref.as4}
			for f, m := range ref.fams {
				// options for reading (and re-writing) what the server sends: path ids iff it negotiated "send"
				if m&bgp.BGP_ADD_PATH_SEND != 0 {
					opt.AddPath[f] = bgp.BGP_ADD_PATH_BOTH
				}
			}
			rx, _, _ = ss.snapshot()
			seenFam := map[bgp.Family]int{}
			for _, m := range simOfType(rx, bgp.BGP_MSG_UPDATE) {
				u, err := bgp.ParseBGPMessage(m.Raw, opt)
				if err != nil {
					return verifkit.Failf("update-encoding", "an UPDATE sent by the server does not parse under the negotiated options (as4=%v, add-path %v): %v\n%x", ref.as4, opt.AddPath, err, m.Raw)
				}
				u.Header.Len = 0
				back, err := u.Serialize(&bgp.MarshallingOption{AddPath: opt.AddPath, ExtendedMessage: ref.ext})
				if err == nil && !ref.as4 {
					// 2-octet sessions: re-serialisation needs the transition, skip the byte comparison
					back = m.Raw
				}
				if err != nil || !bytes.Equal(back, m.Raw) {
					return verifkit.Failf("update-encoding", "an UPDATE sent by the server does not re-serialise identically under the negotiated options: %v\n%x\n%x", err, m.Raw, back)
				}
				body := u.Body.(*bgp.BGPUpdate)
				count := func(f bgp.Family, l []bgp.PathNLRI) *verifkit.Failure {
					if _, ok := ref.fams[f]; !ok && len(l) > 0 {
						return verifkit.Failf("family-not-negotiated", "the server sent %s routes although the family was not negotiated (local %v, remote %v)", f, c.Fams, c.RFams)
					}
					for _, nl := range l {
						seenFam[f]++
						if ref.fams[f]&bgp.BGP_ADD_PATH_SEND != 0 && nl.ID == 0 {
							return verifkit.Failf("pathid-missing", "%s route %s sent with path identifier 0 on an ADD-PATH session", f, nl.NLRI)
						}
					}
					return nil
				}
				if f := count(bgp.RF_IPv4_UC, body.NLRI); f != nil {
					return f
				}
				for _, a := range body.PathAttributes {
					switch v := a.(type) {
					case *bgp.PathAttributeMpReachNLRI:
						if f := count(bgp.NewFamily(v.AFI, v.SAFI), v.Value); f != nil {
							return f
						}
					case *bgp.PathAttributeMpUnreachNLRI:
						if _, ok := ref.fams[bgp.NewFamily(v.AFI, v.SAFI)]; !ok {
							return verifkit.Failf("family-not-negotiated", "the server sent MP_UNREACH for %s which was not negotiated", bgp.NewFamily(v.AFI, v.SAFI))
						}
					case *bgp.PathAttributeAsPath:
						for _, prm := range v.Value {
							if _, is4 := prm.(*bgp.As4PathParam); is4 != ref.as4 {
								return verifkit.Failf("as-encoding", "AS_PATH sent with 4-octet=%v encoding, negotiated %v", is4, ref.as4)
							}
						}
					}
				}
				// "peer type taken from the real remote AS": the local routes go out the way the peer's type requires
				if eor, _ := body.IsEndOfRib(); !eor && (len(body.NLRI) > 0 || func() bool {
					for _, a := range body.PathAttributes {
						if _, ok := a.(*bgp.PathAttributeMpReachNLRI); ok {
							return true
						}
					}
					return false
				}()) {
					pathLen, hasLP := 0, false
					for _, a := range body.PathAttributes {
						switch v := a.(type) {
						case *bgp.PathAttributeAsPath:
							for _, prm := range v.Value {
								pathLen += len(prm.GetAS())
							}
						case *bgp.PathAttributeLocalPref:
							hasLP = true
						}
					}
					if ref.ibgp && (pathLen != 0 || !hasLP) {
						return verifkit.Failf("export-as-to-wrong-peer-type", "the peer's real AS %d is the local AS (internal peer), but a local route is sent with %d AS numbers in the AS_PATH and LOCAL_PREF present=%v", c.PeerAS, pathLen, hasLP)
					}
					if !ref.ibgp && (pathLen != 1 || hasLP) {
						return verifkit.Failf("export-as-to-wrong-peer-type", "the peer's real AS %d differs from the local AS %d (external peer), but a local route is sent with %d AS numbers in the AS_PATH and LOCAL_PREF present=%v", c.PeerAS, c.effLocalAS(), pathLen, hasLP)
					}
				}
			}
			for _, f := range []bgp.Family{bgp.RF_IPv4_UC, bgp.RF_IPv6_UC, bgp.RF_IPv4_VPN} {
				if _, ok := ref.fams[f]; ok && seenFam[f] != 2 {
					dump := ""
					for _, m := range rx {
						dump += fmt.Sprintf("\n  %v type %d %x", m.At, m.Type(), m.Raw)
					}
					return verifkit.Failf("routes-missing", "%s was negotiated but %d of the 2 local routes were advertised; received:%s", f, seenFam[f], dump)
				}
			}

			// ---- keepalive cadence in virtual time ----
			if ref.hold != 0 {
				n.advance(time.Duration(ref.keepalive)*time.Second + 50*time.Millisecond)
				rx, _, _ = ss.snapshot()
				var kas []time.Duration
				for _, m := range simOfType(rx, bgp.BGP_MSG_KEEPALIVE) {
					if m.At > tEst {
						kas = append(kas, m.At-tEst)
					}
				}
				if len(kas) != 1 || kas[0] < time.Duration(ref.keepalive)*time.Second-5*time.Millisecond || kas[0] > time.Duration(ref.keepalive)*time.Second+5*time.Millisecond {
					return verifkit.Failf("keepalive-cadence", "KEEPALIVEs %v after establishment, negotiated interval %ds", kas, ref.keepalive)
				}
				_ = ss.send(bgp.NewBGPKeepAliveMessage(), nil)
			} else {
				n.advance(100 * time.Second)
				rx, eofNow, _ := ss.snapshot()
				for _, m := range simOfType(rx, bgp.BGP_MSG_KEEPALIVE) {
					if m.At > tEst+time.Second {
						return verifkit.Failf("keepalive-with-hold-0", "KEEPALIVE sent at %v although the negotiated hold time is 0", m.At)
					}
				}
				if eofNow {
					return verifkit.Failf("hold-0-expired", "session with hold time 0 was closed")
				}
			}

			// ---- acceptance of large messages ----
			nl, _ := bgp.NewIPAddrPrefix(netip.MustParsePrefix("10.88.0.0/16"))
			nh, _ := bgp.NewPathAttributeNextHop(netip.MustParseAddr("10.0.0.1"))
			var asp bgp.AsPathParamInterface = bgp.NewAs4PathParam(2, []uint32{c.PeerAS})
			if !ref.as4 {
				asp = bgp.NewAsPathParam(2, []uint16{uint16(c.PeerAS)})
			}
			attrs := []bgp.PathAttributeInterface{bgp.NewPathAttributeOrigin(0), nh}
			if !ref.ibgp {
				attrs = append(attrs, bgp.NewPathAttributeAsPath([]bgp.AsPathParamInterface{asp}))
			} else {
				attrs = append(attrs, bgp.NewPathAttributeAsPath(nil), bgp.NewPathAttributeLocalPref(100))
			}
			big := append([]bgp.PathAttributeInterface{}, attrs...)
			big = append(big, bgp.NewPathAttributeUnknown(bgp.BGP_ATTR_FLAG_OPTIONAL|bgp.BGP_ATTR_FLAG_TRANSITIVE, 241, bytes.Repeat([]byte{1}, 4500)))
			if _, v4 := ref.fams[bgp.RF_IPv4_UC]; v4 {
				pn := []bgp.PathNLRI{{NLRI: nl}}
				if ref.fams[bgp.RF_IPv4_UC]&bgp.BGP_ADD_PATH_RECEIVE != 0 {
					pn[0].ID = 7
				}
				sendOpt := &bgp.MarshallingOption{ExtendedMessage: true, AddPath: map[bgp.Family]bgp.BGPAddPathMode{}}
				if ref.fams[bgp.RF_IPv4_UC]&bgp.BGP_ADD_PATH_RECEIVE != 0 {
					sendOpt.AddPath[bgp.RF_IPv4_UC] = bgp.BGP_ADD_PATH_BOTH
				}
				_ = ss.send(bgp.NewBGPUpdateMessage(nil, big, pn), sendOpt)
				n.settle()
				rx, eofNow, _ := ss.snapshot()
				nots := simOfType(rx, bgp.BGP_MSG_NOTIFICATION)
				if ref.ext {
					if len(nots) > 0 || eofNow {
						return verifkit.Failf("large-refused", "a 4.5k UPDATE was refused although the peer announced Extended Message")
					}
					found := false
					_ = n.s.ListPath(apiutil.ListPathRequest{TableType: api.TableType_TABLE_TYPE_ADJ_IN, Name: p.Addr, Family: bgp.RF_IPv4_UC}, func(prefix bgp.NLRI, paths []*apiutil.Path) {
						if prefix.String() == "10.88.0.0/16" {
							found = true
							if want := pn[0].ID; len(paths) > 0 && paths[0].RemoteID != want {
								found = false
							}
						}
					})
					if !found {
						return verifkit.Failf("large-lost", "the 4.5k UPDATE (path-id %d) did not arrive in the Adj-RIB-In", pn[0].ID)
					}
					st.Label("large-accepted")
				} else {
					if len(nots) != 1 || nots[0].Raw[19] != bgp.BGP_ERROR_MESSAGE_HEADER_ERROR || nots[0].Raw[20] != bgp.BGP_ERROR_SUB_BAD_MESSAGE_LENGTH {
						return verifkit.Failf("large-accepted", "a 4.5k UPDATE must be refused with NOTIFICATION 1/2 when the peer did not announce Extended Message (got %d notifications)", len(nots))
					}
					st.Label("large-refused")
				}
			}
			// non-trivial: local and remote differ in a dimension that changes the result
			differs := c.RHold != localHold || len(ref.fams) != len(c.Fams) || !ref.as4 || !ref.ext
			for _, m := range ref.fams {
				if m != 0 {
					differs = true
				}
			}
			if differs {
				st.Nontrivial()
			}
			var fl []string
			for f := range ref.fams {
				fl = append(fl, f.String())
			}
			sort.Strings(fl)
			st.Label(fmt.Sprintf("nfams-%d", len(fl)))
			if f := n.stop(); f != nil {
				return f
			}
			return nil
		})
	}
}

func TestVerifC08(t *testing.T) {
	// deterministic reproduction of known finding C08-K1 (needs the bubble, hence registered here)
	verifkit.RegisterProbe("C08", "open-optparam-overflow", func(st *verifkit.Stats) *verifkit.Failure {
		return simRun(t, func() *verifkit.Failure {
			n, err := simStart(&api.Global{Asn: 65000, RouterId: "192.0.2.254"})
			if err != nil {
				return verifkit.Failf("start", "%v", err)
			}
			defer n.stop()
			p := &simPeerDef{Addr: "10.0.0.1", AS: 65001, ID: "10.0.0.1"}
			peer := &api.Peer{Conf: &api.PeerConf{NeighborAddress: p.Addr, PeerAsn: 65001}, Transport: &api.Transport{PassiveMode: true},
				GracefulRestart: &api.GracefulRestart{Enabled: true, RestartTime: 120, LonglivedEnabled: true}}
			fams := []bgp.Family{bgp.RF_IPv4_UC, bgp.RF_IPv6_UC, bgp.RF_IPv4_MC, bgp.RF_IPv6_MC, bgp.RF_IPv4_MPLS, bgp.RF_IPv6_MPLS, bgp.RF_IPv4_VPN, bgp.RF_IPv6_VPN,
				bgp.RF_EVPN, bgp.RF_VPLS, bgp.RF_RTC_UC, bgp.RF_FS_IPv4_UC}
			for _, f := range fams {
				peer.AfiSafis = append(peer.AfiSafis, &api.AfiSafi{Config: &api.AfiSafiConfig{Family: c08ApiFamily(f), Enabled: true},
					AddPaths:                 &api.AddPaths{Config: &api.AddPathsConfig{Receive: true, SendMax: 2}},
					MpGracefulRestart:        &api.MpGracefulRestart{Config: &api.MpGracefulRestartConfig{Enabled: true}},
					LongLivedGracefulRestart: &api.LongLivedGracefulRestart{Config: &api.LongLivedGracefulRestartConfig{Enabled: true, RestartTime: 1000}}})
			}
			if err := n.s.AddPeer(context.Background(), &api.AddPeerRequest{Peer: peer}); err != nil {
				return verifkit.Failf("addpeer", "%v", err)
			}
			n.settle()
			ss := n.connect(p)
			n.settle()
			rx, _, _ := ss.snapshot()
			if len(rx) == 0 {
				return verifkit.Failf("open-optparam-overflow", "no OPEN sent for a 12-family configuration with GR, LLGR and ADD-PATH")
			}
			raw := rx[0].Raw
			if int(raw[28])+29 != len(raw) {
				return verifkit.Failf("open-optparam-overflow", "OPEN of %d octets declares %d octets of optional parameters: with 12 families, GR, LLGR and ADD-PATH the capabilities exceed the one-octet length fields, which wrap", len(raw), raw[28])
			}
			return nil
		})
	})
	verifkit.Run(t, "C08", drawC08, runC08(t))
}
