//go:build !verif

package server

// Without the verif hooks in the tree the schedule cannot be steered.
const simYieldAvailable = false

var simYieldOnly string

func simYieldInstall(seed uint64) {}
func simYieldBusy() bool          { return false }
