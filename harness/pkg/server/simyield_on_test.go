//go:build verif

package server

// Steering of the verif-tagged yield points (pkg/server/verif_hooks_on.go) from
// a per-case seed: lock-free points may sleep on the bubble's fake clock (so
// every other runnable goroutine goes first), points reached under a lock only
// call runtime.Gosched a varying number of times.

import (
	"os"
	"runtime"
	"strings"
	"sync"
	"sync/atomic"
	"time"
)

const simYieldAvailable = true

var simYieldTrace = os.Getenv("VERIF_YIELD_TRACE") != ""

var (
	simYieldMu       sync.Mutex
	simYieldCtr      = map[string]uint64{} // calls per point and peer in the current case
	simYieldSleepers atomic.Int64
	simYieldHits     atomic.Uint64
)

func simYieldMix(a, b uint64) uint64 {
	x := a*0x9e3779b97f4a7c15 ^ b
	x ^= x >> 31
	x *= 0xbf58476d1ce4e5b9
	x ^= x >> 29
	return x
}

// simYieldOnly, when not empty, restricts the steering to the points with this prefix (harnesses with tight timing
// oracles steer one point only); reset by simYieldInstall(0).
var simYieldOnly string

// simYieldInstall activates the yield points for the current case; seed 0 turns them off.
func simYieldInstall(seed uint64) {
	if seed == 0 {
		verifYieldFn.Store(nil)
		simYieldOnly = ""
		return
	}
	only := simYieldOnly
	simYieldMu.Lock()
	simYieldCtr = map[string]uint64{}
	simYieldMu.Unlock()
	f := func(point, peer string) {
		if only != "" && !strings.HasPrefix(point, only) {
			return
		}
		// the decision depends on the seed, the point and how often the point was
		// reached in this case: the same for every run of a sequential history
		simYieldMu.Lock()
		simYieldCtr[point+"@"+peer]++
		n := simYieldCtr[point+"@"+peer]
		simYieldMu.Unlock()
		h := uint64(0)
		for _, c := range point + "@" + peer {
			h = h*131 + uint64(c)
		}
		h = simYieldMix(seed^h, n)
		if simYieldTrace {
			println("yield", point, peer, n, h%4, (h>>8)%7)
		}
		// (bit 62 of the seed: hand-written scenarios in which nothing else can want the
		// lock may park under it as well; never generated)
		if strings.HasPrefix(point, "locked.") && seed&(1<<62) == 0 {
			if h%4 == 0 {
				simYieldHits.Add(1)
				for i := uint64(0); i < 1+(h>>8)%300; i++ {
					runtime.Gosched()
				}
			}
			return
		}
		// lock-free point: park for 0..7 quanta of the fake clock, so that the
		// order of concurrent activities is decided by the seed, not by the Go scheduler
		if d := time.Duration((h>>8)%8) * 50 * time.Microsecond; d > 0 {
			simYieldHits.Add(1)
			simYieldSleepers.Add(1)
			time.Sleep(d)
			simYieldSleepers.Add(-1)
		}
	}
	verifYieldFn.Store(&f)
}

// simYieldBusy reports whether a goroutine is parked in a yield point.
func simYieldBusy() bool { return simYieldSleepers.Load() > 0 }
