package server

// C19 (c) — the MRT records the daemon emits parse back to the same peers, routes and
// attributes.
//
// In virtual time: generated peers (with and without ADD-PATH receive, 2-octet or 4-octet
// AS session) announce generated IPv4/IPv6 routes, local routes are added through the
// API.  (1) Table dump: EnableMrt(TABLE) with the minimum interval, the fake clock moves
// past it, the file is read back with mrt.SplitMrt / ParseHeader / ParseBody: the first
// record is a PEER_INDEX_TABLE whose peers (address, router id, AS) are those of the
// sources; every RIB record names a prefix of the Loc-RIB and its entries (peer, path
// id, attributes) equal the Loc-RIB paths; nothing of the Loc-RIB is missing.
// (2) Updates dump: EnableMrt(UPDATES), every UPDATE the peers send afterwards is in the
// file as a BGP4MP record with the peer's AS and address and a payload that parses (with
// the sub-type's ADD-PATH / AS4 meaning) to the message that was sent.

import (
	"bufio"
	"bytes"
	"context"
	"fmt"
	"os"
	"path/filepath"
	"sort"
	"strings"
	"sync/atomic"
	"testing"
	"time"

	"github.com/osrg/gobgp/v4/api"
	"github.com/osrg/gobgp/v4/internal/pkg/verifkit"
	"github.com/osrg/gobgp/v4/pkg/apiutil"
	"github.com/osrg/gobgp/v4/pkg/packet/bgp"
	"github.com/osrg/gobgp/v4/pkg/packet/mrt"
	"pgregory.net/rapid"
)

type c19dRoute struct {
	Src     int  `json:"src"` // -1 local
	V6      bool `json:"v6"`
	Prefix  int  `json:"prefix"`
	PathID  int  `json:"path_id"`
	Variant int  `json:"variant"`
}

type c19dCase struct {
	Peers   []rsPeer    `json:"peers"`
	NoAS4   []bool      `json:"no_as4"` // per peer: 2-octet-AS session
	Routes  []c19dRoute `json:"routes"`
	Updates []c19dRoute `json:"updates"` // sent while the UPDATES dump is on
}

func drawC19d(t *rapid.T) c19dCase {
	var c c19dCase
	np := rapid.IntRange(1, 3).Draw(t, "npeers")
	for i := 0; i < np; i++ {
		l := fmt.Sprintf("p%d", i)
		p := rsPeer{Addr: fmt.Sprintf("10.0.0.%d", i+1), ID: fmt.Sprintf("10.0.%d.%d", i, i+1), Kind: rapid.SampledFrom([]int{rsEBGP, rsEBGP, rsIBGP}).Draw(t, l+"kind")}
		p.AS = rsLocalAS
		if p.Kind == rsEBGP {
			p.AS = rapid.SampledFrom([]uint32{65001, 65002, 4200000001}).Draw(t, l+"as")
		}
		p.AddPathRecv = rapid.Bool().Draw(t, l+"ap")
		c.Peers = append(c.Peers, p)
		c.NoAS4 = append(c.NoAS4, p.AS < 65536 && rapid.IntRange(0, 3).Draw(t, l+"noas4") == 0)
	}
	route := func(l string, local bool) c19dRoute {
		r := c19dRoute{Src: rapid.IntRange(0, np-1).Draw(t, l+"src"), V6: rapid.IntRange(0, 2).Draw(t, l+"v6") == 0, Prefix: rapid.IntRange(0, 4).Draw(t, l+"p"),
			PathID: rapid.IntRange(1, 2).Draw(t, l+"id"), Variant: rapid.IntRange(0, 3).Draw(t, l+"v")}
		if local && rapid.IntRange(0, 4).Draw(t, l+"local") == 0 {
			r.Src = -1
		}
		return r
	}
	for i, n := 0, rapid.IntRange(1, 8).Draw(t, "nroutes"); i < n; i++ {
		c.Routes = append(c.Routes, route(fmt.Sprintf("r%d", i), true))
	}
	for i, n := 0, rapid.IntRange(1, 5).Draw(t, "nupd"); i < n; i++ {
		c.Updates = append(c.Updates, route(fmt.Sprintf("u%d", i), false))
	}
	return c
}

func c19dAttrs(p *rsPeer, r c19dRoute, serial uint32) rsAttrs {
	a := h01Attrs(p, r.V6, r.Variant, 0x190000|serial)
	if r.Variant == 3 {
		a.MED = 7
	}
	return a
}

func c19dReadMrt(file string) ([]*mrt.MRTMessage, error) {
	b, err := os.ReadFile(file)
	if err != nil {
		return nil, err
	}
	sc := bufio.NewScanner(bytes.NewReader(b))
	sc.Buffer(make([]byte, 0, 1<<20), 1<<24)
	sc.Split(mrt.SplitMrt)
	var out []*mrt.MRTMessage
	for sc.Scan() {
		tok := sc.Bytes()
		h, err := mrt.ParseHeader(tok[:mrt.MRT_COMMON_HEADER_LEN])
		if err != nil {
			return out, fmt.Errorf("record %d: header: %v", len(out), err)
		}
		m, err := mrt.ParseBody(tok[mrt.MRT_COMMON_HEADER_LEN:], h)
		if err != nil {
			return out, fmt.Errorf("record %d (type %v subtype %v, %d octets): body: %v", len(out), h.Type, h.SubType, len(tok), err)
		}
		out = append(out, m)
	}
	return out, sc.Err()
}

func c19dCanon(attrs []bgp.PathAttributeInterface) string {
	var l []string
	for _, a := range attrs {
		if a.GetType() == bgp.BGP_ATTR_TYPE_MP_REACH_NLRI {
			// the table dump carries the next hop only (RFC 6396 4.3.4)
			if mp, ok := a.(*bgp.PathAttributeMpReachNLRI); ok {
				l = append(l, fmt.Sprintf("14/nexthop=%s", mp.Nexthop))
			}
			continue
		}
		b, err := a.Serialize()
		if err != nil {
			l = append(l, fmt.Sprintf("%d/unserialisable", a.GetType()))
			continue
		}
		l = append(l, fmt.Sprintf("%d/%x", a.GetType(), b))
	}
	sort.Strings(l)
	return strings.Join(l, " ")
}

var c19dDirSeq atomic.Int64

func runC19d(t *testing.T) func(c c19dCase, st *verifkit.Stats) *verifkit.Failure {
	return func(c c19dCase, st *verifkit.Stats) *verifkit.Failure {
		// the UPDATES dump file name is a time layout (rotation): keep layout verbs (digits,
		// "pm", "Jan", ...) out of the path
		tag := []byte(fmt.Sprintf("%d-%d", os.Getpid(), c19dDirSeq.Add(1)))
		for i := range tag {
			if tag[i] != '-' {
				tag[i] = 'a' + (tag[i] - '0')
			}
		}
		dir := filepath.Join(os.TempDir(), "verif-cd-"+string(tag))
		if err := os.MkdirAll(dir, 0o755); err != nil {
			return verifkit.Failf("setup", "%v", err)
		}
		defer os.RemoveAll(dir)
		return simRun(t, func() *verifkit.Failure {
			ctx := context.Background()
			n, err := simStart(rsApiGlobal(rsGlobal{}))
			if err != nil {
				return verifkit.Failf("start", "%v", err)
			}
			defer n.stop()
			// an MRT writer outlives Stop (C20 known finding / fix); never leave one behind
			var mrtFile string
			defer func() {
				if mrtFile != "" {
					_ = n.s.DisableMrt(ctx, &api.DisableMrtRequest{Filename: mrtFile})
				}
			}()
			disable := func() *verifkit.Failure {
				f := mrtFile
				mrtFile = ""
				if err := n.s.DisableMrt(ctx, &api.DisableMrtRequest{Filename: f}); err != nil {
					// leave nothing behind: the writer is reachable white-box only
					_ = n.s.mgmtOperation(func() error {
						for k, w := range n.s.mrtManager.writer {
							w.Stop()
							delete(n.s.mrtManager.writer, k)
						}
						return nil
					}, false)
					return verifkit.Failf("disable-mrt", "DisableMrt(%q) after EnableMrt of the same file: %v", filepath.Base(f), err)
				}
				return nil
			}
			if err := rsAddPeers(n, rsGlobal{}, c.Peers); err != nil {
				return verifkit.Failf("addpeer", "%v", err)
			}
			n.settle()
			sess := make([]*simSess, len(c.Peers))
			for i := range c.Peers {
				spec := rsOpenSpec(&c.Peers[i])
				spec.NoAS4 = c.NoAS4[i]
				ss, _, err := n.establish(c.Peers[i].def(), spec)
				if err != nil {
					return verifkit.Failf("establish", "peer %d: %v", i, err)
				}
				sess[i] = ss
			}
			txOpt := func(i int) *bgp.MarshallingOption {
				o := rsTxOpt(&c.Peers[i])
				o.Use2ByteAS = c.NoAS4[i]
				return o
			}
			serial := uint32(0)
			send := func(r c19dRoute) *bgp.BGPMessage {
				serial++
				if r.Src < 0 {
					nlri, _ := bgp.NewIPAddrPrefix(rsPrefix(r.V6, r.Prefix))
					a := rsAttrs{MED: -1, LocalPref: -1, NextHop: "192.0.2.9", Comms: []uint32{0x190000 | serial}}
					if r.V6 {
						a.NextHop = "2001:db8::9"
					}
					fam := bgp.RF_IPv4_UC
					if r.V6 {
						fam = bgp.RF_IPv6_UC
					}
					_, _ = n.s.AddPath(apiutil.AddPathRequest{Paths: []*apiutil.Path{{Family: fam, Nlri: nlri, Attrs: a.toBGP(nlri, r.V6, 0)}}})
					return nil
				}
				p := &c.Peers[r.Src]
				id := uint32(0)
				if p.AddPathRecv {
					id = uint32(r.PathID)
				}
				m := rsAnnounce(p, r.V6, r.Prefix, id, c19dAttrs(p, r, serial))
				if c.NoAS4[r.Src] {
					m = rs2ByteAS(m)
				}
				_ = sess[r.Src].send(m, txOpt(r.Src))
				return m
			}
			for _, r := range c.Routes {
				send(r)
			}
			n.settle()

			// ---- (1) table dump ----
			tfile := filepath.Join(dir, "table.mrt")
			if err := n.s.EnableMrt(ctx, &api.EnableMrtRequest{DumpType: api.EnableMrtRequest_DUMP_TYPE_TABLE, Filename: tfile, DumpInterval: 60}); err != nil {
				return verifkit.Failf("enable-mrt", "%v", err)
			}
			mrtFile = tfile
			n.advance(61 * time.Second)
			if f := disable(); f != nil {
				return f
			}
			n.settle()
			recs, err := c19dReadMrt(tfile)
			if err != nil {
				return verifkit.Failf("mrt-table-unreadable", "the table dump does not parse back: %v", err)
			}
			if len(recs) == 0 {
				return verifkit.Failf("mrt-table-empty", "no record in the table dump after 61 s with a 60 s dump interval")
			}
			pit, ok := recs[0].Body.(*mrt.PeerIndexTable)
			if !ok {
				return verifkit.Failf("mrt-table-no-index", "the first record is %T, not a PEER_INDEX_TABLE", recs[0].Body)
			}
			if pit.CollectorBgpId.String() != rsRouterID {
				return verifkit.Failf("mrt-collector-id", "collector BGP id %s, router id %s", pit.CollectorBgpId, rsRouterID)
			}
			type want struct {
				peer, attrs string
				id          uint32
			}
			loc := map[string][]want{}
			for _, fam := range []bgp.Family{bgp.RF_IPv4_UC, bgp.RF_IPv6_UC} {
				_ = n.s.ListPath(apiutil.ListPathRequest{TableType: api.TableType_TABLE_TYPE_GLOBAL, Family: fam}, func(prefix bgp.NLRI, paths []*apiutil.Path) {
					for _, pa := range paths {
						src := "0.0.0.0"
						if pa.PeerAddress.IsValid() {
							src = pa.PeerAddress.String()
						}
						loc[prefix.String()] = append(loc[prefix.String()], want{peer: src, attrs: c19dCanon(pa.Attrs), id: pa.RemoteID})
					}
				})
			}
			seen := map[string]int{}
			for ri, rec := range recs[1:] {
				rib, ok := rec.Body.(*mrt.Rib)
				if !ok {
					return verifkit.Failf("mrt-table-record", "record %d of the table dump is %T", ri+1, rec.Body)
				}
				pf := rib.Prefix.String()
				wl, ok := loc[pf]
				if !ok {
					return verifkit.Failf("mrt-table-extra", "the table dump has a RIB record for %s, which is not in the Loc-RIB", pf)
				}
				for _, e := range rib.Entries {
					if int(e.PeerIndex) >= len(pit.Peers) {
						return verifkit.Failf("mrt-peer-index", "%s: entry refers to peer index %d, the index table has %d peers", pf, e.PeerIndex, len(pit.Peers))
					}
					pe := pit.Peers[e.PeerIndex]
					found := false
					for _, w := range wl {
						if w.peer == pe.IpAddress.String() && w.id == e.PathIdentifier && w.attrs == c19dCanon(e.PathAttributes) {
							found = true
						}
					}
					if !found {
						return verifkit.Failf("mrt-table-entry", "%s: the dump has an entry from peer %s path id %d with attributes\n   %s\n the Loc-RIB paths of the prefix are %+v", pf, pe.IpAddress, e.PathIdentifier, c19dCanon(e.PathAttributes), wl)
					}
					seen[pf]++
					// the peer entry describes the source
					if pe.IpAddress.String() != "0.0.0.0" {
						for i := range c.Peers {
							if c.Peers[i].Addr == pe.IpAddress.String() {
								if pe.AS != c.Peers[i].AS || pe.BgpId.String() != c.Peers[i].ID {
									return verifkit.Failf("mrt-peer-entry", "peer index table: peer %s is listed with AS %d and BGP id %s; it is AS %d, id %s", pe.IpAddress, pe.AS, pe.BgpId, c.Peers[i].AS, c.Peers[i].ID)
								}
							}
						}
					}
				}
			}
			for pf, wl := range loc {
				if seen[pf] != len(wl) {
					return verifkit.Failf("mrt-table-missing", "%s has %d paths in the Loc-RIB, the table dump has %d entries for it", pf, len(wl), seen[pf])
				}
			}
			st.SubEval(len(recs))

			// ---- (2) updates dump ----
			ufile := filepath.Join(dir, "updates.mrt")
			if err := n.s.EnableMrt(ctx, &api.EnableMrtRequest{DumpType: api.EnableMrtRequest_DUMP_TYPE_UPDATES, Filename: ufile}); err != nil {
				return verifkit.Failf("enable-mrt", "updates: %v", err)
			}
			mrtFile = ufile
			n.settle()
			type sent struct {
				peer int
				raw  string
			}
			var sentL []sent
			for _, r := range c.Updates {
				if m := send(r); m != nil {
					m.Header.Len = 0
					b, _ := m.Serialize(txOpt(r.Src))
					sentL = append(sentL, sent{r.Src, fmt.Sprintf("%x", b)})
				}
				n.settle()
			}
			if f := disable(); f != nil {
				return f
			}
			n.settle()
			urecs, err := c19dReadMrt(ufile)
			if err != nil {
				return verifkit.Failf("mrt-updates-unreadable", "the updates dump does not parse back: %v", err)
			}
			if len(urecs) != len(sentL) {
				return verifkit.Failf("mrt-updates-count", "%d UPDATEs were received while the dump was on, the file has %d records", len(sentL), len(urecs))
			}
			for i, rec := range urecs {
				mp, ok := rec.Body.(*mrt.BGP4MPMessage)
				if !ok {
					return verifkit.Failf("mrt-updates-record", "record %d is %T", i, rec.Body)
				}
				p := &c.Peers[sentL[i].peer]
				if mp.PeerIpAddress.String() != p.Addr || mp.PeerAS != p.AS || mp.LocalAS != rsLocalAS {
					return verifkit.Failf("mrt-updates-peer", "record %d: peer %s AS %d local AS %d; sent by %s AS %d to AS %d", i, mp.PeerIpAddress, mp.PeerAS, mp.LocalAS, p.Addr, p.AS, rsLocalAS)
				}
				if mp.BGPMessage == nil {
					return verifkit.Failf("mrt-updates-payload", "record %d (sub-type %v): the embedded message does not parse under the sub-type's meaning; payload %x, sent %s", i, rec.Header.SubType, mp.BGPMessagePayload, sentL[i].raw)
				}
				// the parsed message (decoded under the sub-type's options) is the one that was sent
				if mp.BGPMessage != nil {
					mp.BGPMessage.Header.Len = 0
					b, err := mp.BGPMessage.Serialize(txOpt(sentL[i].peer))
					if err != nil || fmt.Sprintf("%x", b) != sentL[i].raw {
						return verifkit.Failf("mrt-updates-message", "record %d (sub-type %v): the embedded message parses to %x (%v), sent %s", i, rec.Header.SubType, b, err, sentL[i].raw)
					}
				}
			}
			st.SubEval(len(urecs))
			if len(loc) >= 2 && len(sentL) >= 1 {
				st.Nontrivial()
			}
			return n.stop()
		})
	}
}

func TestVerifC19_daemon_mrt(t *testing.T) {
	verifkit.Run(t, "C19_daemon_mrt", drawC19d, runC19d(t))
}
