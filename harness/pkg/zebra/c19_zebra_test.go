package zebra

// C19 (Zebra API part) — the ZAPI codec decodes safely and round-trips, for every protocol
// version 2..6 and every software flavour the package distinguishes.
//
// (a) decode safety.  Inputs: arbitrary bytes, structure-aware mutants of bodies serialised by
//     the package, and mutants of well-formed zebra->client messages assembled by hand from the
//     FRR/Quagga wire formats (interface add, interface address, router-id update, nexthop
//     update with nexthops, redistributed routes in the ZAPI 2-4 layout, nexthop/import lookup
//     replies, label manager replies) - the package only has stub encoders for those.  Entry
//     points: Header.decodeFromBytes, parseMessage (which dispatches to every body decoder by
//     command, per version and flavour), the body decoders parseMessage does not reach
//     (HelloBody, redistributeBody, NexthopRegisterBody) and ReceiveSingleMsg over an in-memory
//     connection.  Oracle: no panic; terminates; the caller's buffer is unchanged; slices have
//     cap==len inside a poisoned buffer; spare capacity behind a slice is never consulted;
//     ReceiveSingleMsg returns the same result whatever follows the declared message on the
//     connection.
// (b) round trip.  Message level: every command the client can send (hello, router-id add,
//     interface add, redistribute add, route add/delete incl. the IPv6 commands of ZAPI 2-4,
//     nexthop register/unregister, label manager connect (sync/async), get/release label
//     chunk, vrf label) and the bodies it can build for received commands (nexthop update,
//     redistributed route, unknown) is serialised per version/flavour; the header must decode to
//     the same header, and where ZAPI uses the same layout in both directions the body must
//     decode to an equal body and re-serialise to the same bytes: IPRouteBody for ZAPI 5/6
//     (zapi_route_encode/decode), HelloBody, redistributeBody, NexthopRegisterBody,
//     NexthopUpdateBody (without nexthops: its encoder is a stub), vrfLabelBody, unknownBody.
//     Bodies whose request and reply layouts differ by protocol design (router-id, interface,
//     label manager, lookup, IPRouteBody of ZAPI 2-4) are only required to serialise, to keep
//     the header intact and not to disturb the decoder.
//
// Non-trivial rule: (a) the header decodes and a body decoder is reached; (b) ZAPI messages
// embed no BGP message: the body has >= 2 entries (nexthops / registered nexthops).

import (
	"bytes"
	"encoding/binary"
	"fmt"
	"io"
	"log/slog"
	"math"
	"net"
	"net/netip"
	"regexp"
	"strings"
	"syscall"
	"testing"
	"time"

	"github.com/osrg/gobgp/v4/internal/pkg/verifgen"
	"github.com/osrg/gobgp/v4/internal/pkg/verifkit"
	"pgregory.net/rapid"
)

// KnownIssues: key -> true = mask the defect (shape avoided / observation only counted),
// false = let the test fail on it.
// (empty: zebra-tableid-decoded-into-mtu, zebra-opaque-full-array, zebra-frr7.5-srte-bit,
// zebra-label-block-precedence, zebra-backup-nexthops-no-version-guard,
// zebra-frr7.4-route-header-size, zebra-nexthop-register-frr8.2, zebra-hello-v4-length,
// zebra-nexthop-update-frr8.2, zebra-newsoftware-cumulus-renamed, zebra-newsoftware-zapi5-default
// and zebra-evpn-v5-no-nexthop-panics are fixed; c19ZProbes keeps their reproducers)
var KnownIssues = map[string]bool{}

// ---------------------------------------------------------------------------
// flavours
// ---------------------------------------------------------------------------

type c19ZFlavour struct {
	v    uint8
	sw   Software
	name string
}

var c19ZFlavours = func() []c19ZFlavour {
	var out []c19ZFlavour
	add := func(v uint8, n string) {
		out = append(out, c19ZFlavour{v, NewSoftware(v, n), fmt.Sprintf("v%d-%s", v, map[bool]string{true: "default", false: n}[n == ""])})
	}
	for _, n := range []string{"quagga", ""} {
		add(2, n)
		add(3, n)
	}
	for _, n := range []string{"frr3", ""} {
		add(4, n)
	}
	for _, n := range []string{"frr4", "frr5", "cumulus", ""} {
		add(5, n)
	}
	out = append(out, c19ZFlavour{5, NewSoftware(5, "cumulus3.7"), "v5-cumulus3.7"})
	for _, n := range []string{"frr6", "frr7", "frr7.1", "frr7.2", "frr7.3", "frr7.4", "frr7.5", "frr8", "frr8.1", "frr8.2", ""} {
		add(6, n)
	}
	return out
}()

func (f c19ZFlavour) frr(min, max float64) bool { // min <= version < max on ZAPI 6
	return f.v == 6 && f.sw.name == "frr" && f.sw.version >= min && f.sw.version < max
}

// ---------------------------------------------------------------------------
// case
// ---------------------------------------------------------------------------

type c19ZCase struct {
	Recipe []uint32 `json:"recipe"`
	Raw    []byte   `json:"raw,omitempty"`
	Mode   int      `json:"mode"`
}

const (
	c19ZRoundTrip = iota
	c19ZMutant
	c19ZRaw
	c19ZSweep
	c19ZStream
	c19ZModes
)

var c19ZModeNames = []string{"mode-roundtrip", "mode-mutant", "mode-raw", "mode-sweep", "mode-stream"}

func drawC19Z(t *rapid.T) c19ZCase {
	c := c19ZCase{Mode: rapid.IntRange(0, c19ZModes-1).Draw(t, "mode")}
	if c.Mode == c19ZRaw || (c.Mode == c19ZStream && rapid.Bool().Draw(t, "rawinput")) {
		c.Raw = rapid.SliceOfN(rapid.Byte(), 0, 120).Draw(t, "raw")
	}
	c.Recipe = rapid.SliceOfN(rapid.Uint32(), 40, 240).Draw(t, "recipe")
	return c
}

// ---------------------------------------------------------------------------
// helpers
// ---------------------------------------------------------------------------

func c19ZGuarded(b []byte, poison byte) []byte {
	buf := make([]byte, len(b)+64)
	for i := range buf {
		buf[i] = poison
	}
	copy(buf[32:], b)
	return buf[32 : 32+len(b) : 32+len(b)]
}

func c19ZSlack(b []byte) []byte {
	buf := make([]byte, len(b)+256)
	for i := len(b); i < len(buf); i++ {
		buf[i] = 0x01
	}
	copy(buf, b)
	return buf[:len(b)]
}

func c19ZTail(n int, variant byte) []byte {
	t := make([]byte, n)
	x := uint32(0x2545f491)
	for i := range t {
		x ^= x << 13
		x ^= x >> 17
		x ^= x << 5
		t[i] = byte(x) & 0x07
		if variant != 0 {
			t[i] ^= 0x07
		}
	}
	return t
}

func c19ZSafely(what string, f func()) (fail *verifkit.Failure) {
	defer func() {
		if r := recover(); r != nil {
			fail = verifkit.Failf("panic-"+what, "%s panicked: %v", what, r)
		}
	}()
	f()
	return nil
}

var c19ZLogger = slog.New(slog.NewTextHandler(io.Discard, &slog.HandlerOptions{Level: slog.Level(100)}))

// c19ZConn is an in-memory net.Conn that serves a fixed byte string.
type c19ZConn struct {
	r *bytes.Reader
}

func (c *c19ZConn) Read(p []byte) (int, error)       { return c.r.Read(p) }
func (c *c19ZConn) Write(p []byte) (int, error)      { return len(p), nil }
func (c *c19ZConn) Close() error                     { return nil }
func (c *c19ZConn) LocalAddr() net.Addr              { return &net.UnixAddr{Name: "local", Net: "unix"} }
func (c *c19ZConn) RemoteAddr() net.Addr             { return &net.UnixAddr{Name: "remote", Net: "unix"} }
func (c *c19ZConn) SetDeadline(time.Time) error      { return nil }
func (c *c19ZConn) SetReadDeadline(time.Time) error  { return nil }
func (c *c19ZConn) SetWriteDeadline(time.Time) error { return nil }

func c19ZBodyName(b Body) string {
	switch b.(type) {
	case nil:
		return "nil"
	case *unknownBody:
		return "unknown"
	case *HelloBody:
		return "hello"
	case *redistributeBody:
		return "redistribute"
	case *interfaceUpdateBody:
		return "interface"
	case *interfaceAddressUpdateBody:
		return "interface-address"
	case *routerIDUpdateBody:
		return "router-id"
	case *IPRouteBody:
		return "ip-route"
	case *lookupBody:
		return "lookup"
	case *NexthopRegisterBody:
		return "nexthop-register"
	case *NexthopUpdateBody:
		return "nexthop-update"
	case *labelManagerConnectBody:
		return "label-manager-connect"
	case *GetLabelChunkBody:
		return "get-label-chunk"
	case *releaseLabelChunkBody:
		return "release-label-chunk"
	case *vrfLabelBody:
		return "vrf-label"
	}
	return fmt.Sprintf("%T", b)
}

var c19ZOpaqueRe = regexp.MustCompile(`opaque:\{length:0 data:\[[0 ]*\]\} `)

// c19ZRender renders a body completely (unexported fields included; nil and empty slices alike).
func c19ZRender(b Body, f c19ZFlavour) string {
	switch x := b.(type) {
	case nil:
		return "nil"
	case *IPRouteBody:
		c := *x
		c.API = 0
		op := fmt.Sprintf(" opaque=%d:%x", c.opaque.length, c.opaque.data[:min(int(c.opaque.length), len(c.opaque.data))])
		c.opaque = opaque{}
		return c19ZOpaqueRe.ReplaceAllString(fmt.Sprintf("%+v", c), "") + op
	case *NexthopUpdateBody:
		c := *x
		c.API = 0
		c.Message = 0 // not on the wire before frr7.5; the decoder ORs MessageLabel in for older flavours
		c.opaque = opaque{}
		return c19ZOpaqueRe.ReplaceAllString(fmt.Sprintf("msg=%#x %+v", c19ZNhuMessage(x, f), c), "")
	case *NexthopRegisterBody:
		r := "nexthop-register"
		for _, n := range x.Nexthops {
			r += fmt.Sprintf(" {%+v}", *n)
		}
		return r
	case *unknownBody:
		return fmt.Sprintf("unknown %x", x.Data)
	case *HelloBody:
		return fmt.Sprintf("%+v", *x)
	case *redistributeBody:
		return fmt.Sprintf("%+v", *x)
	case *vrfLabelBody:
		return fmt.Sprintf("%+v", *x)
	}
	var s string
	if f2 := c19ZSafely("string", func() { s = b.string(f.v, f.sw) }); f2 != nil {
		return f2.Msg
	}
	return fmt.Sprintf("%T %s", b, s)
}

func c19ZNhuMessage(b *NexthopUpdateBody, f c19ZFlavour) MessageFlag {
	if f.frr(7.5, 100) {
		return b.Message
	}
	return 0
}

func c19ZAddr(s *verifgen.Src, v6 bool) netip.Addr {
	if v6 {
		return s.V6()
	}
	return s.V4()
}

func c19ZFamily(v6 bool) uint8 {
	if v6 {
		return syscall.AF_INET6
	}
	return syscall.AF_INET
}

// ---------------------------------------------------------------------------
// generator of constructible bodies
// ---------------------------------------------------------------------------

type c19ZBuilt struct {
	cmd    APIType // common command
	body   Body
	name   string
	symm   bool   // the same layout in both directions: the body must round-trip
	viaMsg bool   // parseMessage yields the same body type for this command
	rich   bool   // >= 2 entries
	issue  string // KnownIssues key the shape trips when unmasked
	auto   bool   // nexthop types left to the encoder (Type 0), as the daemon does
}

func c19ZMask(st *verifkit.Stats, key string) bool {
	if KnownIssues[key] {
		if st != nil {
			st.Exclude(key)
		}
		return true
	}
	return false
}

// c19ZNexthop builds one nexthop that is canonical for the flavour (flags agree with the
// optional blocks present).
func c19ZNexthop(s *verifgen.Src, f c19ZFlavour, v6pfx bool, msg MessageFlag, evpn bool, auto bool) Nexthop {
	var n Nexthop
	n.VrfID = s.U32()
	fam := netip.IPv4Unspecified()
	if v6pfx {
		fam = netip.IPv6Unspecified()
	}
	flagged := f.frr(7.3, 100)
	t := nexthopType(1 + s.Intn(6))
	if auto {
		t = verifgen.Pick(s, []nexthopType{nexthopTypeIPv4, nexthopTypeIPv6, nexthopTypeIPv4IFIndex, nexthopTypeIPv6IFIndex, nexthopTypeIFIndex})
	}
	n.Type = t
	n.Gate = fam
	switch t {
	case nexthopTypeIPv4, nexthopTypeIPv4IFIndex:
		n.Gate = s.V4()
	case nexthopTypeIPv6, nexthopTypeIPv6IFIndex:
		n.Gate = s.V6()
	case nexthopTypeBlackhole:
		n.blackholeType = uint8(s.Intn(4))
	}
	switch t {
	case nexthopTypeIFIndex, nexthopTypeIPv4IFIndex, nexthopTypeIPv6IFIndex:
		n.Ifindex = 1 + uint32(s.Intn(1000))
	case nexthopTypeIPv4, nexthopTypeIPv6:
		if flagged && !auto { // since frr7.3 the plain IP types carry an ifindex as well
			n.Ifindex = uint32(s.Intn(5))
		}
	}
	if auto {
		// gateToType picks the type from gate and ifindex; leave both as they are and zero the type
		if (t == nexthopTypeIPv4 || t == nexthopTypeIPv6) && n.Ifindex != 0 {
			n.Ifindex = 0
		}
		if t == nexthopTypeIFIndex {
			n.Gate = netip.Addr{}
		}
		n.Type = 0
	}
	labels := func() {
		n.LabelNum = uint8(s.Len(maxMplsLabel))
		for i := 0; i < int(n.LabelNum); i++ {
			n.MplsLabels = append(n.MplsLabels, verifgen.Label(s))
		}
	}
	switch {
	case flagged:
		if s.Bool() {
			n.flags |= zapiNexthopFlagOnlink
		}
		if s.Chance(1, 3) {
			labels()
			if n.LabelNum > 0 {
				n.flags |= zapiNexthopFlagLabel
			}
		}
		if s.Chance(1, 3) {
			n.Weight = 1 + uint32(s.Intn(255))
			n.flags |= zapiNexthopFlagWeight
		}
		if f.frr(7.4, 100) && s.Chance(1, 4) {
			n.backupNum = uint8(1 + s.Intn(3))
			for i := 0; i < int(n.backupNum); i++ {
				n.backupIndex = append(n.backupIndex, uint8(s.Intn(8)))
			}
			n.flags |= zapiNexthopFlagHasBackup
		}
		if f.frr(8.1, 100) && s.Chance(1, 5) {
			n.flags |= zapiNexthopFlagSeg6
			n.seg6localAction = uint32(s.Intn(16))
			n.seg6localCtx = seg6localContext{nh4: net.IP(s.Bytes(4)).To4(), nh6: net.IP(s.Bytes(16)).To16(), table: s.U32()}
		}
		if f.frr(8.1, 100) && s.Chance(1, 5) {
			n.flags |= zapiNexthopFlagSeg6Local
			n.seg6Segs = net.IP(s.Bytes(16)).To16()
		}
	case f.frr(7.1, 7.3):
		if s.Bool() {
			n.flags = zapiNexthopFlagOnlink
		}
		fallthrough
	default:
		if msg&MessageLabel > 0 { // ZAPI 5 and ZAPI 6 before frr7.3: one label block per nexthop
			labels()
		}
	}
	if evpn {
		copy(n.rmac[:], s.Bytes(6))
	}
	if msg&messageSRTE.ToEach(f.v, f.sw) > 0 && f.frr(7.5, 100) {
		n.srteColor = s.U32()
	}
	return n
}

func c19ZPrefix(s *verifgen.Src, v6 bool) Prefix {
	var p netip.Prefix
	if v6 {
		p = s.Prefix6()
	} else {
		p = s.Prefix4()
	}
	p = p.Masked()
	return Prefix{Family: c19ZFamily(v6), PrefixLen: uint8(p.Bits()), Prefix: p.Addr()}
}

// c19ZRoute builds an IPRouteBody.  For ZAPI 5/6 every optional block the flavour defines is
// drawn; for ZAPI 2-4 the shape the daemon sends (the request layout).
func c19ZRoute(s *verifgen.Src, f c19ZFlavour, st *verifkit.Stats, b *c19ZBuilt) *IPRouteBody {
	v6 := s.Bool()
	r := &IPRouteBody{}
	r.Prefix = c19ZPrefix(s, v6)
	r.instance = s.U16()
	if f.v < 4 {
		r.instance = 0
	}
	if f.v < 5 {
		// (Type is converted by serialize with RouteType.toEach but kept as the wire value by the decoder;
		// irrelevant here because the ZAPI 2-4 request and reply layouts differ anyway)
		r.Type = RouteType(s.Intn(int(routeBABEL) + 1))
		r.Safi = SafiUnicast
		r.Flags = Flag(s.Intn(256))
		r.Message = MessageNexthop
		if s.Bool() {
			r.Message |= MessageMetric.ToEach(f.v, f.sw)
			r.Metric = s.U32()
		}
		if s.Bool() {
			r.Message |= MessageDistance.ToEach(f.v, f.sw)
			r.Distance = s.U8()
		}
		n := 1 + s.Len(3)
		for i := 0; i < n; i++ {
			r.Nexthops = append(r.Nexthops, Nexthop{Gate: c19ZAddr(s, v6)})
		}
		b.rich = n >= 2
		return r
	}
	r.Type = RouteType(s.Intn(int(getRouteAll(f.v, f.sw)) + 1))
	r.Safi = Safi(s.Intn(int(safiMax) + 1))
	// flags (flavour encoding): anything, except that EVPN on ZAPI 5 uses a request-only layout
	evpnBit := flagEvpnRoute.ToEach(f.v, f.sw)
	r.Flags = Flag(s.Intn(1 << 11))
	evpn := false
	r.Flags &^= evpnBit
	if s.Chance(1, 5) {
		// (on ZAPI 5 the router MAC travels in front of the prefix and is taken from / decoded into a
		// nexthop of its own: the request does not decode to an equal body, see c19ZBuild)
		r.Flags |= evpnBit
	}
	evpn = r.Flags&evpnBit > 0
	// message bits this flavour defines
	bit := func(m MessageFlag) bool {
		if s.Bool() {
			r.Message |= m
			return true
		}
		return false
	}
	hasNH := s.Chance(4, 5)
	if hasNH {
		r.Message |= MessageNexthop
	}
	if bit(MessageDistance) {
		r.Distance = s.U8()
	}
	if bit(MessageMetric) {
		r.Metric = s.U32()
	}
	if bit(messageTag) {
		r.tag = s.U32()
	}
	if bit(MessageMTU) {
		r.Mtu = s.U32()
	}
	if bit(messageSRCPFX) {
		r.srcPrefix = c19ZPrefix(s, v6)
		r.srcPrefix.Family = 0 // not on the wire: the family is that of the prefix
	}
	if f.v == 5 || f.frr(0, 7.3) { // flavours with MessageLabel (0x40): one label block per nexthop
		if s.Bool() {
			r.Message |= MessageLabel
		}
	}
	hasBackup := false
	if f.frr(7.4, 100) {
		hasBackup = bit(messageBackupNexthops)
	}
	tableBit := messageTableID.ToEach(f.v, f.sw)
	if !(f.v == 5 && f.sw.name == "frr" && f.sw.version == 4) && s.Chance(1, 4) {
		r.Message |= tableBit
		r.tableID = 1 + uint32(s.Intn(1000))
	}
	if f.frr(8, 100) {
		if bit(messageNhg) {
			r.nhgid = s.U32()
		}
		bit(messageSRTE)
		if s.Chance(1, 4) {
			r.Message |= messageOpaque
			r.opaque.length = uint16(s.Len(int(messageOpaqueLenth)))
			if s.Chance(1, 8) {
				r.opaque.length = messageOpaqueLenth
			}
			copy(r.opaque.data[:r.opaque.length], s.Bytes(int(r.opaque.length)))
		}
	} else if f.frr(7.5, 8) {
		if s.Chance(1, 4) {
			r.Message |= messageSRTE.ToEach(f.v, f.sw) // 0x100 on frr7.5
		}
		if s.Chance(1, 8) {
			r.Message |= 0x200 // not defined on frr7.5 (MESSAGE_SRTE / MESSAGE_OPAQUE of frr8 after conversion): carried, no block
		}
	}
	auto := s.Chance(1, 5)
	b.auto = auto
	if hasNH {
		n := 1 + s.Intn(4)
		switch s.Intn(12) {
		case 0:
			n = 0
		case 1:
			n = maxPathNum
		}
		for i := 0; i < n; i++ {
			r.Nexthops = append(r.Nexthops, c19ZNexthop(s, f, v6, r.Message, evpn, auto))
		}
		b.rich = n >= 2
	}
	if hasBackup {
		n := s.Len(3)
		for i := 0; i < n; i++ {
			r.backupNexthops = append(r.backupNexthops, c19ZNexthop(s, f, v6, r.Message, evpn, auto))
		}
	}
	if st != nil {
		lab := func(c bool, l string) {
			if c {
				st.Label("route-with-" + l)
			}
		}
		lab(v6, "ipv6-prefix")
		lab(!v6, "ipv4-prefix")
		lab(evpn, "evpn-rmac")
		lab(auto, "auto-typed-nexthops")
		lab(r.Message&messageSRCPFX > 0, "src-prefix")
		lab(r.Message&MessageLabel > 0 && (f.v == 5 || f.frr(0, 7.3)), "message-label")
		lab(hasBackup, "backup-nexthops")
		lab(len(r.backupNexthops) > 0, "backup-nexthops>0")
		lab(f.frr(8, 100) && r.Message&messageNhg > 0, "nhgid")
		lab(f.frr(7.5, 100) && r.Message&messageSRTE.ToEach(f.v, f.sw) > 0, "srte-color")
		lab(r.Message&messageOpaque > 0 && f.frr(8, 100), "opaque")
		lab(r.tableID != 0, "table-id")
		st.Label(fmt.Sprintf("route-nexthops-%d", min(len(r.Nexthops), 5)))
		for _, n := range r.Nexthops {
			st.Label(fmt.Sprintf("nexthop-type-%d", n.Type))
			lab(n.LabelNum > 0, "nexthop-labels")
			lab(n.Weight > 0, "nexthop-weight")
			lab(n.backupNum > 0, "nexthop-backup-index")
			lab(n.flags&zapiNexthopFlagSeg6 > 0, "nexthop-seg6local")
			lab(n.flags&zapiNexthopFlagSeg6Local > 0, "nexthop-seg6-segs")
			lab(n.flags&zapiNexthopFlagOnlink > 0, "nexthop-onlink")
		}
	}
	return r
}

var c19ZKinds = []string{"hello", "router-id-add", "interface-add", "redistribute-add", "route", "route", "route", "route", "route", "route", "nexthop-register", "nexthop-register", "nexthop-update",
	"label-manager-connect", "get-label-chunk", "release-label-chunk", "vrf-label", "unknown", "redistributed-route"}

func c19ZBuild(s *verifgen.Src, f c19ZFlavour, st *verifkit.Stats) c19ZBuilt {
	var b c19ZBuilt
	b.name = verifgen.Pick(s, c19ZKinds)
	switch b.name {
	case "hello":
		h := &HelloBody{redistDefault: RouteType(s.Intn(int(routeMax))), instance: s.U16()}
		if f.v < 4 {
			h.instance = 0
		}
		if f.v > 4 {
			h.receiveNotify = uint8(s.Intn(2))
		}
		if f.frr(7.4, 100) {
			h.sessionID, h.synchronous = s.U32(), uint8(s.Intn(2))
		}
		b.cmd, b.body, b.symm = Hello, h, true
	case "router-id-add":
		b.cmd, b.body = routerIDAdd, &routerIDUpdateBody{afi: afi(1 + s.Intn(2))}
	case "interface-add":
		b.cmd, b.body = interfaceAdd, nil
	case "redistribute-add":
		r := &redistributeBody{redist: RouteType(s.Intn(int(routeMax)))}
		if f.v >= 4 {
			r.afi, r.instance = afi(1+s.Intn(3)), s.U16()
		}
		b.cmd, b.body, b.symm = redistributeAdd, r, true
	case "route", "redistributed-route":
		r := c19ZRoute(s, f, st, &b)
		b.cmd = verifgen.Pick(s, []APIType{RouteAdd, RouteDelete})
		if b.name == "redistributed-route" {
			b.cmd = verifgen.Pick(s, []APIType{RedistributeRouteAdd, RedistributeRouteDel})
		}
		if f.v < 5 && r.Prefix.Family == syscall.AF_INET6 {
			if b.cmd == RouteAdd {
				b.cmd = BackwardIPv6RouteAdd
			} else if b.cmd == RouteDelete {
				b.cmd = BackwardIPv6RouteDelete
			}
		}
		b.body, b.symm, b.viaMsg = r, f.v >= 5, true
		if f.v == 5 && r.Flags&flagEvpnRoute.ToEach(f.v, f.sw) > 0 {
			b.symm = false // the decoder appends a nexthop of its own that holds the router MAC
		}
	case "nexthop-register":
		n := 1 + s.Len(4)
		nb := &NexthopRegisterBody{}
		for i := 0; i < n; i++ {
			v6 := s.Bool()
			rn := &RegisteredNexthop{connected: uint8(s.Intn(2)), Family: uint16(c19ZFamily(v6)), Prefix: c19ZAddr(s, v6)}
			if f.frr(8.2, 100) {
				rn.resolveViaDef, rn.safi = uint8(s.Intn(2)), uint16(SafiUnicast)
			}
			nb.Nexthops = append(nb.Nexthops, rn)
		}
		b.cmd, b.body, b.symm, b.rich = verifgen.Pick(s, []APIType{nexthopRegister, nexthopUnregister}), nb, true, n >= 2
	case "nexthop-update":
		v6 := s.Bool()
		nu := &NexthopUpdateBody{Prefix: Prefix{Family: c19ZFamily(v6), Prefix: c19ZAddr(s, v6)}, Metric: s.U32()}
		nu.Prefix.PrefixLen = 32
		if v6 {
			nu.Prefix.PrefixLen = 128
		}
		if f.v >= 4 {
			nu.Distance = s.U8()
		}
		if f.v >= 5 {
			nu.Type, nu.instance = RouteType(s.Intn(int(routeMax))), s.U16()
		}
		if f.frr(7.5, 100) && s.Bool() {
			nu.Message, nu.srteColor = messageSRTE.ToEach(f.v, f.sw), s.U32()
		}
		if f.frr(8.2, 100) {
			nu.Safi = Safi(s.Intn(int(safiMax) + 1))
		}
		b.cmd, b.body, b.symm, b.viaMsg = nexthopUpdate, nu, true, true
	case "label-manager-connect":
		b.cmd = verifgen.Pick(s, []APIType{labelManagerConnect, labelManagerConnectAsync})
		b.body = &labelManagerConnectBody{redistDefault: RouteBGP, instance: s.U16()}
	case "get-label-chunk":
		b.cmd, b.body = getLabelChunk, &GetLabelChunkBody{proto: uint8(RouteBGP), instance: s.U16(), keep: uint8(s.Intn(2)), ChunkSize: s.U32()}
	case "release-label-chunk":
		b.cmd, b.body = releaseLabelChunk, &releaseLabelChunkBody{proto: uint8(RouteBGP), instance: s.U16(), start: s.U32(), end: s.U32()}
	case "vrf-label":
		b.cmd, b.body, b.symm, b.viaMsg = vrfLabel, &vrfLabelBody{label: verifgen.Label(s), afi: afi(1 + s.Intn(2)), labelType: lspTYPE(s.Intn(6))}, true, true
	default:
		b.cmd, b.body, b.symm, b.viaMsg = APIType(200+s.Intn(100)), &unknownBody{Data: s.Bytes(s.Len(64))}, true, true
	}
	return b
}

// ---------------------------------------------------------------------------
// round trip
// ---------------------------------------------------------------------------

func c19ZNewBody(b Body, api APIType) Body {
	switch b.(type) {
	case *HelloBody:
		return &HelloBody{}
	case *redistributeBody:
		return &redistributeBody{}
	case *IPRouteBody:
		return &IPRouteBody{API: api}
	case *NexthopRegisterBody:
		return &NexthopRegisterBody{}
	case *NexthopUpdateBody:
		return &NexthopUpdateBody{}
	case *vrfLabelBody:
		return &vrfLabelBody{}
	case *unknownBody:
		return &unknownBody{}
	}
	return nil
}

// c19ZAdoptTypes: for nexthops whose type was left to the encoder, take over the decoded type
// when it fits the gate (the encoder's choice is not part of the constructed value).
func c19ZAdoptTypes(con, par []Nexthop, fam uint8) {
	for i := range con {
		if i >= len(par) || con[i].Type != 0 {
			continue
		}
		t := par[i].Type
		ok := false
		switch {
		case con[i].Gate.Is4():
			ok = t == nexthopTypeIPv4 || t == nexthopTypeIPv4IFIndex
		case con[i].Gate.Is6():
			ok = t == nexthopTypeIPv6 || t == nexthopTypeIPv6IFIndex
		default:
			ok = t == nexthopTypeIFIndex || t == nexthopTypeBlackhole
			if ok { // the decoder fills the gate of gateless nexthops with the unspecified address of the prefix family
				con[i].Gate = netip.IPv4Unspecified()
				if fam == syscall.AF_INET6 {
					con[i].Gate = netip.IPv6Unspecified()
				}
			}
		}
		if ok {
			con[i].Type = t
		}
	}
}

func c19ZRoundTripCheck(s *verifgen.Src, f c19ZFlavour, st *verifkit.Stats) *verifkit.Failure {
	b := c19ZBuild(s, f, st)
	known := func(fl *verifkit.Failure) *verifkit.Failure {
		if b.issue != "" {
			fl.Sig = b.issue + ":" + fl.Sig
		}
		fl.Msg = fmt.Sprintf("[%s %s] ", f.name, b.name) + fl.Msg
		return fl
	}
	st.Label("rt-" + b.name)
	st.Label("rt-flavour-" + f.name)
	each := b.cmd.ToEach(f.v, f.sw)
	if b.cmd < 200 && each == zebraError && b.cmd != zebraError {
		st.Label("command-not-in-flavour")
		return nil // the flavour has no such command (the client refuses to send it)
	}
	vrf := uint32(0)
	switch f.v {
	case 3, 4:
		vrf = uint32(s.U16())
	case 5, 6:
		vrf = s.U32()
	}
	m := &Message{Header: Header{Len: HeaderSize(f.v), Marker: HeaderMarker(f.v), Version: f.v, VrfID: vrf, Command: each}, Body: b.body}
	if rb, ok := b.body.(*IPRouteBody); ok {
		rb.API = each
	}
	var wire []byte
	var err error
	if fl := c19ZSafely("Serialize", func() { wire, err = m.Serialize(f.sw) }); fl != nil {
		return known(fl)
	}
	if err != nil {
		return known(verifkit.Failf("serialize", "does not serialise: %v", err))
	}
	hs := int(HeaderSize(f.v))
	if len(wire) < hs || int(binary.BigEndian.Uint16(wire[:2])) != len(wire) {
		return known(verifkit.Failf("length-field", "%d octets on the wire, header Len %d", len(wire), binary.BigEndian.Uint16(wire[:2])))
	}
	keep := append([]byte{}, wire...)
	g := c19ZGuarded(wire, 0xaa)
	h := &Header{}
	if fl := c19ZSafely("Header.decodeFromBytes", func() { err = h.decodeFromBytes(g[:hs:hs]) }); fl != nil {
		return known(fl)
	}
	if err != nil {
		return known(verifkit.Failf("reparse-header", "serialised header %x does not decode: %v", wire[:hs], err))
	}
	if *h != m.Header {
		return known(verifkit.Failf("header-not-equal", "decoded header %+v, constructed %+v", *h, m.Header))
	}
	st.SubEval(1)
	// the real reader
	var rm *Message
	conn := &c19ZConn{r: bytes.NewReader(append(append([]byte{}, wire...), c19ZTail(8, 0)...))}
	if fl := c19ZSafely("ReceiveSingleMsg", func() { rm, err = ReceiveSingleMsg(c19ZLogger, conn, f.v, f.sw, "verif") }); fl != nil {
		return known(fl)
	}
	consumed := len(wire) + 8 - conn.r.Len()
	if err != nil || consumed != len(wire) {
		return known(verifkit.Failf("receive", "ReceiveSingleMsg on the serialised message: err %v, consumed %d of %d octets", err, consumed, len(wire)))
	}
	// parseMessage on the body
	var pm *Message
	var perr error
	if fl := c19ZSafely("parseMessage", func() { pm, perr = parseMessage(h, g[hs:], f.sw) }); fl != nil {
		fl.Msg += fmt.Sprintf(" (wire %x)", wire)
		return known(fl)
	}
	if !bytes.Equal(g, keep) {
		return verifkit.Failf("input-modified", "parsing modified the caller's buffer")
	}
	if pm != nil {
		st.Label("rt-parsed-as-" + c19ZBodyName(pm.Body))
	}
	if !b.symm {
		st.Label("rt-header-only")
		return nil
	}
	// body decode: through parseMessage when it dispatches to this body type, else directly
	var pb Body
	if b.viaMsg {
		if perr != nil {
			return known(verifkit.Failf("reparse", "parseMessage rejects the serialised body: %v\n constructed %s\n wire %x", perr, c19ZRender(b.body, f), wire))
		}
		if c19ZBodyName(pm.Body) != c19ZBodyName(b.body) {
			return known(verifkit.Failf("not-equal", "command %d parses back as %s", each, c19ZBodyName(pm.Body)))
		}
		if rm == nil {
			return known(verifkit.Failf("receive", "ReceiveSingleMsg dropped the message although parseMessage accepts it"))
		}
		pb = pm.Body
	} else {
		pb = c19ZNewBody(b.body, each)
		if fl := c19ZSafely(fmt.Sprintf("%T.decodeFromBytes", pb), func() { perr = pb.decodeFromBytes(g[hs:], f.v, f.sw) }); fl != nil {
			return known(fl)
		}
		if perr != nil {
			return known(verifkit.Failf("reparse", "%s.decodeFromBytes rejects the serialised body: %v\n constructed %s\n body %x", c19ZBodyName(pb), perr, c19ZRender(b.body, f), wire[hs:]))
		}
	}
	if b.auto {
		if cr, ok := b.body.(*IPRouteBody); ok {
			pr := pb.(*IPRouteBody)
			c19ZAdoptTypes(cr.Nexthops, pr.Nexthops, cr.Prefix.Family)
			c19ZAdoptTypes(cr.backupNexthops, pr.backupNexthops, cr.Prefix.Family)
		}
	}
	if r1, r2 := c19ZRender(b.body, f), c19ZRender(pb, f); r1 != r2 {
		return known(verifkit.Failf("not-equal", "decoded body differs from the constructed one:\n constructed %s\n decoded     %s\n wire %x", c19ZTrim(r1), c19ZTrim(r2), wire))
	}
	var s1, s2 string
	if fl := c19ZSafely("string", func() { s1, s2 = b.body.string(f.v, f.sw), pb.string(f.v, f.sw) }); fl != nil {
		return known(fl)
	}
	if s1 != s2 && !b.auto {
		return known(verifkit.Failf("not-equal-string", "decoded body renders differently:\n constructed %s\n decoded     %s", s1, s2))
	}
	var body2 []byte
	if fl := c19ZSafely("re-serialize", func() { body2, err = pb.serialize(f.v, f.sw) }); fl != nil {
		return known(fl)
	}
	if err != nil || !bytes.Equal(keep[hs:], body2) {
		return known(verifkit.Failf("fixpoint", "decoded body re-serialises differently (%v):\n first  %x\n second %x", err, keep[hs:], body2))
	}
	st.SubEval(3)
	if b.rich {
		st.Nontrivial()
	}
	return nil
}

func c19ZTrim(s string) string {
	s = strings.ReplaceAll(s, " 0 0 0 0 0 0 0 0 0 0 0 0 0 0 0 0", "")
	if len(s) > 1500 {
		return s[:1500] + "..."
	}
	return s
}

// ---------------------------------------------------------------------------
// hand-assembled zebra -> client messages (decode inputs)
// ---------------------------------------------------------------------------

func c19ZPut16(b []byte, v uint16) []byte { return binary.BigEndian.AppendUint16(b, v) }
func c19ZPut32(b []byte, v uint32) []byte { return binary.BigEndian.AppendUint32(b, v) }

func c19ZHandNexthop(s *verifgen.Src, f c19ZFlavour, b []byte, withVrf, withType, withFlag bool, message MessageFlag) []byte {
	if withVrf {
		b = c19ZPut32(b, s.U32())
	}
	t := nexthopType(1 + s.Intn(6))
	if f.v < 4 {
		t = nexthopType(1 + s.Intn(9))
	}
	if withType {
		b = append(b, byte(t))
	}
	flags := byte(0)
	if withFlag {
		flags = byte(s.Intn(64))
		b = append(b, flags)
	}
	switch t {
	case nexthopTypeIPv4.toEach(f.v), nexthopTypeIPv4IFIndex.toEach(f.v), nexthopTypeIPv4IFName:
		b = append(b, s.V4().AsSlice()...)
	case nexthopTypeIPv6.toEach(f.v), nexthopTypeIPv6IFIndex.toEach(f.v), nexthopTypeIPv6IFName:
		b = append(b, s.V6().AsSlice()...)
	}
	b = c19ZPut32(b, uint32(s.Intn(100))) // ifindex (present for most types in most flavours)
	if flags&zapiNexthopFlagLabel > 0 || message&MessageLabel > 0 {
		n := s.Intn(4)
		b = append(b, byte(n))
		for i := 0; i < n; i++ {
			b = binary.LittleEndian.AppendUint32(b, verifgen.Label(s))
		}
	}
	if flags&zapiNexthopFlagWeight > 0 {
		b = c19ZPut32(b, s.U32())
	}
	if flags&zapiNexthopFlagHasBackup > 0 {
		n := s.Intn(4)
		b = append(b, byte(n))
		b = append(b, s.Bytes(n)...)
	}
	return b
}

// c19ZHand returns (common command, body) of a well-formed message zebra sends to its clients.
func c19ZHand(s *verifgen.Src, f c19ZFlavour) (APIType, []byte, string) {
	var b []byte
	v6 := s.Bool()
	alen := 4
	if v6 {
		alen = 16
	}
	switch s.Intn(8) {
	case 0: // interface add / delete / up / down
		name := make([]byte, interfaceNameSize)
		copy(name, "eth"+fmt.Sprint(s.Intn(100)))
		b = append(b, name...)
		b = c19ZPut32(b, uint32(s.Intn(100)))
		b = append(b, byte(s.Intn(16)))
		b = binary.BigEndian.AppendUint64(b, uint64(s.U32()))
		if f.v > 3 {
			b = append(b, byte(s.Intn(3)), byte(s.Intn(3)))
		}
		b = c19ZPut32(b, s.U32()) // metric
		if f.v > 3 {
			b = c19ZPut32(b, s.U32()) // speed
		}
		b = c19ZPut32(c19ZPut32(c19ZPut32(b, 1500), 1500), s.U32())
		if f.frr(7.2, 100) {
			b = c19ZPut32(b, uint32(s.Intn(10)))
		}
		if f.v > 2 {
			b = c19ZPut32(b, uint32(s.Intn(50)))
		}
		hl := verifgen.Pick(s, []int{6, 0, 8, 20})
		b = c19ZPut32(b, uint32(hl))
		b = append(b, s.Bytes(hl)...)
		if f.v > 2 {
			if s.Bool() {
				b = append(b, 1)
				b = c19ZPut32(c19ZPut32(c19ZPut32(c19ZPut32(b, s.U32()), s.U32()), math.Float32bits(1e9)), math.Float32bits(1e8))
				n := s.Intn(8)
				b = c19ZPut32(b, uint32(n))
				for i := 0; i < n; i++ {
					b = c19ZPut32(b, math.Float32bits(float32(i)))
				}
				b = append(b, s.Bytes(44)...)
			} else {
				b = append(b, 0)
			}
		}
		return verifgen.Pick(s, []APIType{interfaceAdd, interfaceDelete, interfaceUp, interfaceDown}), b, "hand-interface"
	case 1: // interface address add / delete
		b = c19ZPut32(b, uint32(s.Intn(100)))
		b = append(b, byte(s.Intn(8)), c19ZFamily(v6))
		b = append(b, c19ZAddr(s, v6).AsSlice()...)
		b = append(b, byte(s.Intn(alen*8+1)))
		b = append(b, c19ZAddr(s, v6).AsSlice()...)
		return verifgen.Pick(s, []APIType{interfaceAddressAdd, interfaceAddressDelete}), b, "hand-interface-address"
	case 2: // router-id update
		b = append(b, c19ZFamily(v6))
		b = append(b, c19ZAddr(s, v6).AsSlice()...)
		b = append(b, byte(alen*8))
		return routerIDUpdate, b, "hand-router-id"
	case 3: // nexthop update with nexthops
		msg := MessageFlag(0)
		if f.frr(7.5, 100) {
			if s.Bool() {
				msg = messageSRTE
			}
			b = c19ZPut32(b, uint32(msg))
			if f.frr(8.2, 100) {
				b = c19ZPut16(b, uint16(SafiUnicast))
				b = c19ZPut16(b, uint16(c19ZFamily(v6)))
				b = append(b, byte(alen*8))
				b = append(b, c19ZAddr(s, v6).AsSlice()...)
			}
		}
		b = c19ZPut16(b, uint16(c19ZFamily(v6)))
		b = append(b, byte(alen*8))
		b = append(b, c19ZAddr(s, v6).AsSlice()...)
		if msg&messageSRTE > 0 {
			b = c19ZPut32(b, s.U32())
		}
		if f.v > 4 {
			b = append(b, byte(s.Intn(30)))
			b = c19ZPut16(b, s.U16())
		}
		if f.v > 3 {
			b = append(b, s.U8())
		}
		b = c19ZPut32(b, s.U32())
		n := s.Intn(4)
		b = append(b, byte(n))
		legacy := f.frr(0, 7.3) || (f.v == 5 && f.sw.name == "frr" && f.sw.version == 5)
		lm := MessageFlag(0)
		if legacy {
			lm = MessageLabel
		}
		for i := 0; i < n; i++ {
			b = c19ZHandNexthop(s, f, b, f.frr(7, 100), true, f.frr(7.3, 100), lm)
		}
		return nexthopUpdate, b, "hand-nexthop-update"
	case 4: // redistributed route, ZAPI 2-4 layout (zebra_read_ipv4/6); for ZAPI 5/6 the package's own encoder
		if f.v >= 5 {
			var bb c19ZBuilt
			r := c19ZRoute(s, f, nil, &bb)
			body, err := r.serialize(f.v, f.sw)
			if err != nil {
				return RedistributeRouteAdd, nil, "hand-route"
			}
			return verifgen.Pick(s, []APIType{RedistributeRouteAdd, RedistributeRouteDel, RouteAdd}), body, "own-route"
		}
		b = append(b, byte(s.Intn(12)))
		if f.v <= 3 {
			b = append(b, byte(s.Intn(256)))
		} else {
			b = c19ZPut16(b, s.U16())
			b = c19ZPut32(b, uint32(s.Intn(1024)))
		}
		msg := MessageNexthop
		for _, m := range []MessageFlag{messageIFIndex, zapi4MessageDistance, zapi4MessageMetric} {
			if s.Bool() {
				msg |= m
			}
		}
		b = append(b, byte(msg))
		p := c19ZPrefix(s, v6)
		b = append(b, p.PrefixLen)
		b = append(b, p.Prefix.AsSlice()[:(int(p.PrefixLen)+7)/8]...)
		n := 1 + s.Intn(3)
		b = append(b, byte(n))
		for i := 0; i < n; i++ {
			b = append(b, c19ZAddr(s, v6).AsSlice()...)
		}
		if msg&messageIFIndex > 0 {
			k := s.Intn(3)
			b = append(b, byte(k))
			for i := 0; i < k; i++ {
				b = c19ZPut32(b, uint32(s.Intn(100)))
			}
		}
		if msg&zapi4MessageDistance > 0 {
			b = append(b, s.U8())
		}
		if msg&zapi4MessageMetric > 0 {
			b = c19ZPut32(b, s.U32())
		}
		cmd := RedistributeRouteAdd
		if f.v < 4 {
			cmd = RouteAdd // quagga redistributes with the route add/delete commands
			if s.Bool() {
				cmd = RouteDelete
			}
		}
		if v6 {
			if f.v == 4 {
				return APIType(250), b, "hand-route-v4-ipv6" // marker: use zapi4RedistributeIPv6Add
			}
			cmd = BackwardIPv6RouteAdd
		}
		return cmd, b, "hand-route"
	case 5: // nexthop / import lookup replies (quagga) and MRIB lookup
		fam6 := v6 && f.v < 4
		if fam6 {
			b = append(b, s.V6().AsSlice()...)
		} else {
			b = append(b, s.V4().AsSlice()...)
		}
		cmd := ipv4NexthopLookupMRIB
		if f.v < 4 {
			cmd = verifgen.Pick(s, []APIType{ipv4NexthopLookupMRIB, APIType(251), APIType(253)})
			if fam6 {
				cmd = APIType(252)
			}
		}
		if cmd == ipv4NexthopLookupMRIB {
			b = append(b, s.U8())
		}
		b = c19ZPut32(b, s.U32())
		n := s.Intn(4)
		b = append(b, byte(n))
		for i := 0; i < n; i++ {
			b = c19ZHandNexthop(s, f, b, false, true, false, 0)
		}
		return cmd, b, "hand-lookup"
	case 6: // label manager connect reply
		if f.v > 4 && !(f.sw.name == "frr" && f.sw.version == 4) {
			b = append(b, byte(RouteBGP))
			b = c19ZPut16(b, s.U16())
		}
		b = append(b, byte(s.Intn(2)))
		return labelManagerConnect, b, "hand-label-manager-connect"
	default: // get label chunk reply / vrf label
		if s.Bool() {
			b = c19ZPut32(b, verifgen.Label(s))
			b = append(b, byte(1+s.Intn(2)), byte(s.Intn(6)))
			return vrfLabel, b, "hand-vrf-label"
		}
		if f.v > 4 && !(f.sw.name == "frr" && f.sw.version == 4) {
			b = append(b, byte(RouteBGP))
			b = c19ZPut16(b, s.U16())
		}
		b = append(b, byte(s.Intn(2)))
		b = c19ZPut32(c19ZPut32(b, 16), 16+uint32(s.Intn(1000)))
		return getLabelChunk, b, "hand-get-label-chunk"
	}
}

// c19ZEach maps the command of a hand-assembled message to the flavour's number.
func c19ZEach(cmd APIType, f c19ZFlavour) (APIType, bool) {
	switch cmd {
	case 250:
		return zapi4RedistributeIPv6Add, true
	case 251:
		return zapi3IPv4NexthopLookup, true
	case 252:
		return zapi3IPv6NexthopLookup, true
	case 253:
		return zapi3IPv4ImportLookup, true
	}
	each := cmd.ToEach(f.v, f.sw)
	return each, each != zebraError
}

func c19ZFrame(f c19ZFlavour, each APIType, vrf uint32, body []byte) []byte {
	h := Header{Len: HeaderSize(f.v) + uint16(len(body)), Marker: HeaderMarker(f.v), Version: f.v, VrfID: vrf, Command: each}
	hb, _ := h.serialize()
	return append(hb, body...)
}

// c19ZWire produces one well-formed message for the flavour: hand-assembled or serialised by the package.
func c19ZWire(s *verifgen.Src, f c19ZFlavour) ([]byte, string) {
	if s.Chance(3, 5) {
		cmd, body, name := c19ZHand(s, f)
		if each, ok := c19ZEach(cmd, f); ok && body != nil {
			return c19ZFrame(f, each, uint32(s.Intn(3)), body), name
		}
	}
	for i := 0; i < 4; i++ {
		b := c19ZBuild(s, f, nil)
		each := b.cmd.ToEach(f.v, f.sw)
		if b.cmd < 200 && each == zebraError {
			continue
		}
		var body []byte
		var err error
		if b.body != nil {
			if rb, ok := b.body.(*IPRouteBody); ok {
				rb.API = each
			}
			if c19ZSafely("serialize", func() { body, err = b.body.serialize(f.v, f.sw) }) != nil || err != nil {
				continue
			}
		}
		if len(body) > 60000 {
			continue
		}
		return c19ZFrame(f, each, uint32(s.Intn(3)), body), "own-" + b.name
	}
	return c19ZFrame(f, Hello.ToEach(f.v, f.sw), 0, []byte{9}), "own-hello"
}

// ---------------------------------------------------------------------------
// decode safety
// ---------------------------------------------------------------------------

func c19ZOutcome(m *Message, err error, f c19ZFlavour) string {
	r := "nil"
	if m != nil {
		r = fmt.Sprintf("%+v %s", m.Header, c19ZRender(m.Body, f))
	}
	if err != nil {
		r += " error: " + err.Error()
	}
	return r
}

// c19ZCheckMessage: the input is a whole message (header + body) for flavour f.
func c19ZCheckMessage(in []byte, f c19ZFlavour, st *verifkit.Stats) *verifkit.Failure {
	g := c19ZGuarded(in, 0xaa)
	keep := append([]byte{}, g...)
	h := &Header{}
	var herr error
	if fl := c19ZSafely("Header.decodeFromBytes", func() { herr = h.decodeFromBytes(g) }); fl != nil {
		fl.Msg += fmt.Sprintf(" (input %x)", in)
		return fl
	}
	st.SubEval(1)
	h2 := &Header{}
	var herr2 error
	if fl := c19ZSafely("Header.decodeFromBytes", func() { herr2 = h2.decodeFromBytes(c19ZSlack(in)) }); fl != nil {
		return fl
	}
	if (herr == nil) != (herr2 == nil) || *h != *h2 {
		return verifkit.Failf("reads-beyond-len", "Header.decodeFromBytes(%x) depends on the spare capacity behind the slice: %+v %v / %+v %v", in, *h, herr, *h2, herr2)
	}
	if herr != nil {
		st.Label("header-error")
	} else {
		hs := int(HeaderSize(h.Version))
		body := g[hs:]
		if int(h.Len)-hs <= len(body) {
			body = body[: int(h.Len)-hs : int(h.Len)-hs]
		}
		// parseMessage with the flavour under test (whatever version the header claims: the header
		// version selects the decoders, the software the layouts)
		var m *Message
		var err error
		if fl := c19ZSafely("parseMessage", func() { m, err = parseMessage(h, body, f.sw) }); fl != nil {
			fl.Msg += fmt.Sprintf(" (flavour %s, header %+v, body %x)", f.name, *h, []byte(body))
			return fl
		}
		if !bytes.Equal(g, keep) {
			return verifkit.Failf("input-modified", "parseMessage modified the caller's buffer: %x -> %x", keep, g)
		}
		name := c19ZBodyName(m.Body)
		st.Nontrivial()
		st.Key(fmt.Sprintf("dec/%s/%s/%v/%d", f.name, name, err == nil, len(in)%16))
		st.Label("dec-" + name)
		st.Label(fmt.Sprintf("dec-%s-v%d", name, h.Version))
		if err == nil {
			st.Label("body-ok")
			st.Label("body-ok-" + name)
			// the decoded value must be printable (the daemon logs every received body)
			if fl := c19ZSafely(name+".string", func() { _ = m.Body.string(h.Version, f.sw) }); fl != nil {
				fl.Msg += fmt.Sprintf(" (flavour %s, header %+v, body %x)", f.name, *h, []byte(body))
				return fl
			}
		} else {
			st.Label("body-error")
		}
		var m2 *Message
		var err2 error
		if fl := c19ZSafely("parseMessage", func() { m2, err2 = parseMessage(h, c19ZSlack(body), f.sw) }); fl != nil {
			return fl
		}
		if a, b := c19ZOutcome(m, err, f), c19ZOutcome(m2, err2, f); a != b {
			return verifkit.Failf("reads-beyond-len", "parseMessage(%s, %+v, %x) depends on the spare capacity behind the slice:\n %s\n %s", f.name, *h, []byte(body), c19ZTrim(a), c19ZTrim(b))
		}
		// body decoders parseMessage never selects
		for _, d := range []Body{&HelloBody{}, &redistributeBody{}, &NexthopRegisterBody{}} {
			if fl := c19ZSafely(fmt.Sprintf("%T.decodeFromBytes", d), func() {
				if d.decodeFromBytes(body, h.Version, f.sw) == nil {
					_ = d.string(h.Version, f.sw)
					st.Label("body-ok-direct-" + c19ZBodyName(d))
				}
			}); fl != nil {
				fl.Msg += fmt.Sprintf(" (flavour %s, version %d, body %x)", f.name, h.Version, []byte(body))
				return fl
			}
		}
	}
	// the stream reader, configured for the flavour; what follows the declared message must not matter
	recv := func(stream []byte) (string, int, *verifkit.Failure) {
		conn := &c19ZConn{r: bytes.NewReader(stream)}
		var m *Message
		var err error
		if fl := c19ZSafely("ReceiveSingleMsg", func() { m, err = ReceiveSingleMsg(c19ZLogger, conn, f.v, f.sw, "verif") }); fl != nil {
			fl.Msg += fmt.Sprintf(" (flavour %s, stream %x)", f.name, stream)
			return "", 0, fl
		}
		return c19ZOutcome(m, err, f), len(stream) - conn.r.Len(), nil
	}
	out, used, fl := recv(in)
	if fl != nil {
		return fl
	}
	if used > len(in) {
		return verifkit.Failf("reader-bounds", "ReceiveSingleMsg consumed %d of %d octets", used, len(in))
	}
	st.SubEval(1)
	if herr == nil && h.Version == f.v && int(h.Len) <= len(in) {
		st.Label("stream-framed")
		if used != int(h.Len) {
			return verifkit.Failf("reader-framing", "ReceiveSingleMsg consumed %d octets of a message whose header declares %d (%x)", used, h.Len, in)
		}
		oa, ua, fl := recv(append(append([]byte{}, in[:h.Len]...), c19ZTail(32, 0)...))
		if fl != nil {
			return fl
		}
		ob, ub, fl := recv(append(append([]byte{}, in[:h.Len]...), c19ZTail(32, 1)...))
		if fl != nil {
			return fl
		}
		if oa != ob || ua != ub || oa != out {
			return verifkit.Failf("depends-on-trailing-bytes", "ReceiveSingleMsg(%s) on %x gives different results depending on what follows the message:\n %s\n %s\n %s", f.name, in[:h.Len], c19ZTrim(out), c19ZTrim(oa), c19ZTrim(ob))
		}
	}
	return nil
}

func c19ZFix(b []byte) {
	if len(b) >= 2 && len(b) <= 65535 {
		binary.BigEndian.PutUint16(b[:2], uint16(len(b)))
	}
}

func c19ZMutate(s *verifgen.Src, wire, other []byte, hs int) []byte {
	b := append([]byte{}, wire...)
	n := 1 + s.Intn(3)
	fix := s.Chance(3, 4)
	for k := 0; k < n && len(b) > 0; k++ {
		switch s.Intn(13) {
		case 11, 12: // grow a 16-bit-length-prefixed blob consistently: the length field and the data behind it
			// (a decoder that copies the announced number of octets into a fixed buffer is only in danger
			// when the octets are really there)
			if len(b) > hs+2 {
				start := hs + s.Intn(len(b)-hs-1)
				for i := start; i+2 <= len(b); i++ {
					l := int(binary.BigEndian.Uint16(b[i:]))
					if i+2+l <= len(b) && (l > 0 || s.Chance(1, 8)) {
						nl := verifgen.Pick(s, []int{l + 1, 255, 256, 1023, 1024, 1025, 1026, 2000, 4096})
						if nl > l && len(b)+nl-l < 60000 {
							grow := s.Bytes(nl - l)
							at := i + 2 + l
							b = append(b[:at:at], append(grow, b[at:]...)...)
							binary.BigEndian.PutUint16(b[i:], uint16(nl))
						}
						break
					}
				}
			}
		case 0:
			b = b[:s.Intn(len(b)+1)]
		case 1:
			b = append(b, s.Bytes(1+s.Intn(16))...)
		case 2:
			b[s.Intn(len(b))] ^= 1 << uint(s.Intn(8))
		case 3:
			b[s.Intn(len(b))] = verifgen.Pick(s, []byte{0, 1, 2, 3, 4, 5, 6, 7, 8, 9, 10, 16, 17, 0x7f, 0x80, 0xfe, 0xff, 24, 32, 33, 128, 129})
		case 4:
			if len(b) >= 2 {
				binary.BigEndian.PutUint16(b[s.Intn(len(b)-1):], verifgen.Pick(s, []uint16{0, 1, 2, 10, 0xffff, 0xfffe, uint16(len(b)), uint16(len(b) + 1), uint16(len(b) - 1)}))
			}
		case 5:
			if len(b) >= 4 {
				binary.BigEndian.PutUint32(b[s.Intn(len(b)-3):], verifgen.Pick(s, []uint32{0, 1, 7, 8, 0xffffffff, 0xfffffffc, 0x80000000, uint32(len(b)), uint32(len(b) + 1), uint32(len(b) - 1)}))
			}
		case 6: // hostile header Len
			if len(b) >= 2 {
				binary.BigEndian.PutUint16(b[:2], verifgen.Pick(s, []uint16{0, 1, 5, 6, 7, 8, 9, 10, 11, 0xffff, uint16(len(b) + 1), uint16(len(b) - 1)}))
				fix = false
			}
		case 7: // hostile message flags / counts right after the header
			if len(b) > hs+12 {
				b[hs+s.Intn(12)] = verifgen.Pick(s, []byte{0xff, 0x7f, 0x41, 0x01, 0x00, 0x80, 0x20})
			}
		case 8: // splice a chunk of another message
			if len(other) > hs {
				i := hs + s.Intn(len(other)-hs)
				j := i + s.Intn(len(other)-i+1)
				at := s.Intn(len(b) + 1)
				b = append(b[:at:at], append(append([]byte{}, other[i:j]...), b[at:]...)...)
			}
		case 9: // duplicate a chunk in place
			i := s.Intn(len(b))
			j := i + s.Intn(len(b)-i+1)
			if j-i < 64 {
				b = append(b[:j:j], append(append([]byte{}, b[i:j]...), b[j:]...)...)
			}
		default:
			i := s.Intn(len(b))
			j := i + s.Intn(min(8, len(b)-i)+1)
			for x := i; x < j; x++ {
				b[x] = verifgen.Pick(s, []byte{0, 0xff})
			}
		}
		if len(b) > 65535 {
			b = b[:65535]
		}
	}
	if fix {
		c19ZFix(b)
	}
	return b
}

// c19ZCommands: every flavour-specific command number that selects a body decoder.
func c19ZCommands(f c19ZFlavour) []APIType {
	var out []APIType
	for _, c := range []APIType{interfaceAdd, interfaceDelete, interfaceUp, interfaceDown, interfaceAddressAdd, interfaceAddressDelete, routerIDUpdate,
		nexthopUpdate, RedistributeRouteAdd, RedistributeRouteDel, labelManagerConnect, getLabelChunk, releaseLabelChunk, vrfLabel, RouteAdd, RouteDelete,
		BackwardIPv6RouteAdd, BackwardIPv6RouteDelete, ipv4NexthopLookupMRIB, Hello, redistributeAdd, nexthopRegister} {
		if e := c.ToEach(f.v, f.sw); e != zebraError {
			out = append(out, e)
		}
	}
	if f.v == 4 {
		out = append(out, zapi4RedistributeIPv6Add, zapi4RedistributeIPv6Del)
	}
	if f.v < 4 {
		out = append(out, zapi3IPv4NexthopLookup, zapi3IPv6NexthopLookup, zapi3IPv4ImportLookup)
	}
	return out
}

func runC19Z(c c19ZCase, st *verifkit.Stats) *verifkit.Failure {
	s := verifgen.NewSrc(c.Recipe)
	mode := ((c.Mode % c19ZModes) + c19ZModes) % c19ZModes
	st.Label(c19ZModeNames[mode])
	f := verifgen.Pick(s, c19ZFlavours)
	st.Label("flavour-" + f.name)
	hs := int(HeaderSize(f.v))
	switch mode {
	case c19ZRoundTrip:
		return c19ZRoundTripCheck(s, f, st)
	case c19ZRaw:
		in := c.Raw
		if len(in) == 0 {
			in = s.Bytes(s.Intn(64))
		}
		in = append([]byte{}, in...)
		if s.Chance(3, 4) && len(in) >= hs { // a valid header in front of arbitrary body bytes, command = one with a decoder
			cmd := verifgen.Pick(s, c19ZCommands(f))
			copy(in, c19ZFrame(f, cmd, 0, nil))
			c19ZFix(in)
		}
		return c19ZCheckMessage(in, f, st)
	case c19ZMutant:
		if f.frr(8, 100) && s.Chance(1, 5) {
			// a route whose opaque block announces more than the decoder's fixed buffer holds,
			// with the octets really present (frr8 and later)
			r := &IPRouteBody{Prefix: Prefix{Family: syscall.AF_INET, PrefixLen: 24, Prefix: netip.MustParseAddr("10.0.0.0")}, Message: messageOpaque}
			each := RouteAdd.ToEach(f.v, f.sw)
			if s.Bool() {
				each = RedistributeRouteAdd.ToEach(f.v, f.sw)
			}
			r.API = each
			r.opaque.length = messageOpaqueLenth
			for i := range r.opaque.data {
				r.opaque.data[i] = 0xab
			}
			var body []byte
			var err error
			if c19ZSafely("serialize", func() { body, err = r.serialize(f.v, f.sw) }) == nil && err == nil {
				if i := bytes.Index(body, bytes.Repeat([]byte{0xab}, 64)); i >= 2 {
					nl := int(messageOpaqueLenth) + verifgen.Pick(s, []int{1, 2, 16, 500, 3000})
					grown := append([]byte{}, body[:i]...)
					binary.BigEndian.PutUint16(grown[i-2:], uint16(nl))
					grown = append(grown, bytes.Repeat([]byte{0xab}, nl)...)
					grown = append(grown, body[i+int(messageOpaqueLenth):]...)
					st.Label("seed-opaque-overflow")
					return c19ZCheckMessage(c19ZFrame(f, each, 0, grown), f, st)
				}
			}
		}
		w1, name := c19ZWire(s, f)
		w2, _ := c19ZWire(s, f)
		st.Label("seed-" + name)
		m := c19ZMutate(s, w1, w2, hs)
		if s.Chance(1, 6) && len(m) >= hs { // same body under another command of the flavour
			cmd := verifgen.Pick(s, c19ZCommands(f))
			copy(m, c19ZFrame(f, cmd, 0, nil)[:hs])
			c19ZFix(m)
		}
		if s.Chance(1, 8) { // the body decoders of another flavour of the same version see this flavour's layout
			for _, g := range c19ZFlavours {
				if g.v == f.v && g.name != f.name && s.Bool() {
					f = g
					break
				}
			}
		}
		return c19ZCheckMessage(m, f, st)
	case c19ZSweep:
		w, name := c19ZWire(s, f)
		st.Label("seed-" + name)
		step := 1
		if len(w) > 300 {
			step = len(w)/300 + 1
		}
		for k := 0; k <= len(w); k += step {
			v := append([]byte{}, w[:k]...)
			c19ZFix(v)
			if fl := c19ZCheckMessage(v, f, st); fl != nil {
				return fl
			}
			if k < 40 || k%7 == 0 {
				if fl := c19ZCheckMessage(append([]byte{}, w[:k]...), f, st); fl != nil {
					return fl
				}
			}
		}
		return nil
	default: // a stream of messages read with ReceiveSingleMsg until it ends
		var in []byte
		if len(c.Raw) > 0 {
			in = append([]byte{}, c.Raw...)
			if s.Bool() && len(in) >= 4 {
				in[2], in[3] = HeaderMarker(f.v), f.v
			}
			st.Label("stream-input-raw")
		} else {
			n := 1 + s.Intn(4)
			for i := 0; i < n; i++ {
				w, _ := c19ZWire(s, f)
				if s.Chance(1, 3) {
					w = c19ZMutate(s, w, nil, hs)
				}
				in = append(in, w...)
			}
			if s.Chance(1, 3) && len(in) > 0 {
				in = in[:s.Intn(len(in)+1)]
			}
			st.Label("stream-input-messages")
		}
		conn := &c19ZConn{r: bytes.NewReader(in)}
		got := 0
		for i := 0; i <= len(in)/hs+1; i++ {
			var m *Message
			var err error
			if fl := c19ZSafely("ReceiveSingleMsg", func() { m, err = ReceiveSingleMsg(c19ZLogger, conn, f.v, f.sw, "verif") }); fl != nil {
				fl.Msg += fmt.Sprintf(" (flavour %s, stream %x, message %d)", f.name, in, i)
				return fl
			}
			if err != nil {
				break
			}
			if m != nil {
				got++
				if fl := c19ZSafely("string", func() { _ = m.Body.string(f.v, f.sw) }); fl != nil {
					fl.Msg += fmt.Sprintf(" (flavour %s, stream %x, message %d)", f.name, in, i)
					return fl
				}
			}
			if i == len(in)/hs+1 {
				return verifkit.Failf("reader-no-progress", "ReceiveSingleMsg keeps returning messages from a %d-octet stream", len(in))
			}
		}
		st.LabelN("stream-messages", got)
		if got > 0 {
			st.Nontrivial()
		}
		return nil
	}
}

// ---------------------------------------------------------------------------
// probes: deterministic reproducers, one per finding (fixed or open); Sig = the key
// ---------------------------------------------------------------------------

func c19ZFl(name string) c19ZFlavour {
	for _, f := range c19ZFlavours {
		if f.name == name {
			return f
		}
	}
	panic("no flavour " + name)
}

// c19ZProbeRT: body.serialize -> decodeFromBytes into a fresh body -> equal rendering -> same octets again.
func c19ZProbeRT(key, flavour string, body Body) *verifkit.Failure {
	f := c19ZFl(flavour)
	fail := func(format string, a ...any) *verifkit.Failure {
		return verifkit.Failf(key, "[%s] %s", flavour, fmt.Sprintf(format, a...))
	}
	var wire []byte
	var err error
	if fl := c19ZSafely("serialize", func() { wire, err = body.serialize(f.v, f.sw) }); fl != nil {
		return fail("%s", fl.Msg)
	}
	if err != nil {
		return fail("%s does not serialise: %v", c19ZBodyName(body), err)
	}
	pb := c19ZNewBody(body, RouteAdd.ToEach(f.v, f.sw))
	if fl := c19ZSafely("decodeFromBytes", func() { err = pb.decodeFromBytes(append([]byte{}, wire...), f.v, f.sw) }); fl != nil {
		return fail("%s (body %x)", fl.Msg, wire)
	}
	if err != nil {
		return fail("%s.decodeFromBytes rejects the body the package serialised: %v\n constructed %s\n body %x", c19ZBodyName(pb), err, c19ZTrim(c19ZRender(body, f)), wire)
	}
	if r1, r2 := c19ZRender(body, f), c19ZRender(pb, f); r1 != r2 {
		return fail("decoded body differs from the constructed one:\n constructed %s\n decoded     %s\n body %x", c19ZTrim(r1), c19ZTrim(r2), wire)
	}
	var wire2 []byte
	if fl := c19ZSafely("re-serialize", func() { wire2, err = pb.serialize(f.v, f.sw) }); fl != nil {
		return fail("%s", fl.Msg)
	}
	if err != nil || !bytes.Equal(wire, wire2) {
		return fail("decoded body re-serialises differently (%v): %x vs %x", err, wire, wire2)
	}
	return nil
}

func c19ZProbeRoute(msg MessageFlag) *IPRouteBody {
	return &IPRouteBody{Safi: SafiUnicast, Message: msg, Prefix: Prefix{Family: syscall.AF_INET, PrefixLen: 24, Prefix: netip.MustParseAddr("10.0.0.0")}}
}

func c19ZProbeNexthop() Nexthop {
	return Nexthop{Type: nexthopTypeIPv4, Gate: netip.MustParseAddr("192.0.2.1")}
}

var c19ZProbes = map[string]func() *verifkit.Failure{
	"zebra-tableid-decoded-into-mtu": func() *verifkit.Failure {
		r := c19ZProbeRoute(messageTableID)
		r.tableID = 7
		return c19ZProbeRT("zebra-tableid-decoded-into-mtu", "v6-frr8.1", r)
	},
	"zebra-opaque-full-array": func() *verifkit.Failure {
		r := c19ZProbeRoute(messageOpaque)
		r.opaque.length = 4
		copy(r.opaque.data[:], []byte{1, 2, 3, 4})
		return c19ZProbeRT("zebra-opaque-full-array", "v6-frr8.1", r)
	},
	"zebra-frr7.5-srte-bit": func() *verifkit.Failure {
		const key = "zebra-frr7.5-srte-bit"
		// MESSAGE_SRTE is 0x100 on frr7.5: the colour must travel
		r := c19ZProbeRoute(MessageNexthop | 0x100)
		n := c19ZProbeNexthop()
		n.srteColor = 5
		r.Nexthops = []Nexthop{n}
		if f := c19ZProbeRT(key, "v6-frr7.5", r); f != nil {
			return f
		}
		// 0x200 is not defined on frr7.5: no block may be emitted for it
		r = c19ZProbeRoute(MessageNexthop | 0x200)
		r.Nexthops = []Nexthop{c19ZProbeNexthop()}
		return c19ZProbeRT(key, "v6-frr7.5", r)
	},
	"zebra-label-block-precedence": func() *verifkit.Failure {
		r := c19ZProbeRoute(MessageNexthop)
		r.Nexthops = []Nexthop{c19ZProbeNexthop()}
		return c19ZProbeRT("zebra-label-block-precedence", "v6-frr7.2", r)
	},
	"zebra-backup-nexthops-no-version-guard": func() *verifkit.Failure {
		const key = "zebra-backup-nexthops-no-version-guard"
		if f := c19ZProbeRT(key, "v6-frr7", c19ZProbeRoute(MessageLabel)); f != nil {
			return f
		}
		return c19ZProbeRT(key, "v5-frr5", c19ZProbeRoute(MessageLabel))
	},
	"zebra-frr7.4-route-header-size": func() *verifkit.Failure {
		return c19ZProbeRT("zebra-frr7.4-route-header-size", "v6-frr7.4", c19ZProbeRoute(0))
	},
	"zebra-nexthop-register-frr8.2": func() *verifkit.Failure {
		b := &NexthopRegisterBody{Nexthops: []*RegisteredNexthop{
			{connected: 1, resolveViaDef: 1, safi: uint16(SafiUnicast), Family: syscall.AF_INET, Prefix: netip.MustParseAddr("192.0.2.1")},
			{safi: uint16(SafiUnicast), Family: syscall.AF_INET6, Prefix: netip.MustParseAddr("2001:db8::1")},
		}}
		return c19ZProbeRT("zebra-nexthop-register-frr8.2", "v6-frr8.2", b)
	},
	"zebra-hello-v4-length": func() *verifkit.Failure {
		return c19ZProbeRT("zebra-hello-v4-length", "v4-frr3", &HelloBody{redistDefault: RouteBGP, instance: 1})
	},
	"zebra-nexthop-update-frr8.2": func() *verifkit.Failure {
		b := &NexthopUpdateBody{Prefix: Prefix{Family: syscall.AF_INET, PrefixLen: 32, Prefix: netip.MustParseAddr("192.0.2.1")}, Metric: 10, Safi: SafiUnicast}
		return c19ZProbeRT("zebra-nexthop-update-frr8.2", "v6-frr8.2", b)
	},
	// NewSoftware(5, "cumulus"), the documented configuration for Cumulus Linux, was turned into frr.
	"zebra-newsoftware-cumulus-renamed": func() *verifkit.Failure {
		if sw := NewSoftware(5, "cumulus"); sw.name != "cumulus" {
			return verifkit.Failf("zebra-newsoftware-cumulus-renamed", "NewSoftware(5, \"cumulus\") = %+v: the Cumulus tables are unreachable with the documented software name", sw)
		}
		return nil
	},
	// version 5 without software name is documented as FRRouting 5.0.x; the default was never applied.
	"zebra-newsoftware-zapi5-default": func() *verifkit.Failure {
		if sw := NewSoftware(5, ""); sw.name != "frr" || sw.version != 5 {
			return verifkit.Failf("zebra-newsoftware-zapi5-default", "NewSoftware(5, \"\") = %+v, documented default is FRRouting 5", sw)
		}
		return nil
	},
	// IPRouteBody.serialize indexed Nexthops[-1] for an EVPN route without nexthop on ZAPI 5.
	"zebra-evpn-v5-no-nexthop-panics": func() *verifkit.Failure {
		const key = "zebra-evpn-v5-no-nexthop-panics"
		f := c19ZFl("v5-frr5")
		r := c19ZProbeRoute(0)
		r.Flags = flagEvpnRoute.ToEach(f.v, f.sw)
		var err error
		if fl := c19ZSafely("serialize", func() { _, err = r.serialize(f.v, f.sw) }); fl != nil {
			return verifkit.Failf(key, "[v5-frr5] IPRouteBody with the EVPN flag and no nexthop: %s", fl.Msg)
		}
		if err != nil {
			return verifkit.Failf(key, "[v5-frr5] IPRouteBody with the EVPN flag and no nexthop does not serialise: %v", err)
		}
		return nil
	},
}

func TestVerifC19_zebra(t *testing.T) {
	for key, p := range c19ZProbes {
		verifkit.RegisterProbe("C19_zebra", key, func(*verifkit.Stats) *verifkit.Failure { return p() })
	}
	verifkit.Run(t, "C19_zebra", drawC19Z, runC19Z)
}

// FuzzVerifC19_zebra: {selector byte, flavour byte, payload}.  selector&1: payload = raw message bytes
// for the flavour; otherwise payload = recipe for mode (selector>>1)%5.
func FuzzVerifC19_zebra(f *testing.F) {
	for i, fl := range c19ZFlavours {
		w, _ := c19ZWire(verifgen.NewSrc([]uint32{uint32(i), uint32(i) * 77, 3, 9, 1, 5, 2, 8, 4, 4, 6, 1, 1, 1, 7}), fl)
		f.Add(append([]byte{1, byte(i)}, w...))
	}
	for m := 0; m < c19ZModes; m++ {
		f.Add([]byte{byte(m << 1), 0, 9, 9, 9, 9, 1, 0, 0, 0, 7, 7, 7, 7, 3, 0, 0, 0})
	}
	f.Fuzz(func(t *testing.T, data []byte) {
		if len(data) < 3 {
			return
		}
		if data[0]&1 == 1 {
			fl := c19ZFlavours[int(data[1])%len(c19ZFlavours)]
			if fail := c19ZCheckMessage(append([]byte{}, data[2:]...), fl, verifkit.Scratch("C19_zebra")); fail != nil {
				t.Fatalf("VERIF-FAIL C19_zebra sig=%q: %s", fail.Sig, fail.Msg)
			}
			return
		}
		c := c19ZCase{Mode: int(data[0]>>1) % c19ZModes}
		src := data[1:]
		for len(src) >= 4 {
			c.Recipe = append(c.Recipe, binary.LittleEndian.Uint32(src))
			src = src[4:]
		}
		if fail := runC19Z(c, verifkit.Scratch("C19_zebra")); fail != nil {
			t.Fatalf("VERIF-FAIL C19_zebra sig=%q: %s", fail.Sig, fail.Msg)
		}
	})
}
