package rtr

// C19 (RPKI-RTR part) — the RTR codec decodes safely and round-trips.
//
// (a) decode safety: arbitrary bytes and structure-aware mutants of valid PDUs (truncation at
//     every offset with the Length field fixed up, bit flips, 0 / 0xff.. / len±1 in the Length
//     and the inner length fields of Error Report) go to ParseRTR.  The package has no stream
//     splitter (the daemon frames PDUs itself).  Oracle: no panic; caller's buffer unchanged;
//     the slice has cap==len inside a poisoned buffer; spare capacity behind the slice is not
//     consulted; a declared PDU (Length field inside the input) followed by two different
//     tails decodes identically.
// (b) round trip: every PDU the package constructs (Serial Notify, Serial Query, Reset Query,
//     Cache Response, IPv4 Prefix, IPv6 Prefix, End of Data, Cache Reset, Error Report with /
//     without erroneous PDU and text) serialises, parses back to an equal value and
//     re-serialises to the same bytes.
//
// Non-trivial rule: (a) the input passes ParseRTR's header check (>= 8 octets and a known PDU
// type, so a PDU decoder is reached); (b) RTR PDUs embed no BGP message; ">= 2 entries" is read
// as: an Error Report that carries both an erroneous PDU and a text, or a prefix PDU.

import (
	"bytes"
	"encoding/binary"
	"encoding/json"
	"fmt"
	"net/netip"
	"testing"

	"github.com/osrg/gobgp/v4/internal/pkg/verifgen"
	"github.com/osrg/gobgp/v4/internal/pkg/verifkit"
	"pgregory.net/rapid"
)

// KnownIssues: key -> true = mask the defect (the test passes), false = let it fail.
// (empty: rtr-fixed-pdu-ignores-length and rtr-error-report-short-pdu-panics are fixed; their
// probes below keep the reproducers)
var KnownIssues = map[string]bool{}

// c19RtrProbes: deterministic reproducers, one per finding (fixed or open), Sig = the key.
var c19RtrProbes = map[string]func() *verifkit.Failure{
	// ParseRTR used to decode a fixed-size PDU from the octets FOLLOWING the declared PDU.
	"rtr-fixed-pdu-ignores-length": func() *verifkit.Failure {
		hdr := []byte{0, RTR_IPV4_PREFIX, 0, 0, 0, 0, 0, 8}
		x := []byte{1, 24, 24, 0, 10, 0, 0, 0, 0, 0, 0xfd, 0xe8}
		m, err := ParseRTR(append(append([]byte{}, hdr...), x...))
		if err == nil {
			return verifkit.Failf("rtr-fixed-pdu-ignores-length", "ParseRTR(%x || %x): the PDU declares Length 8 but is decoded from the 12 octets that follow it: %s", hdr, x, c19RtrJSON(m))
		}
		return nil
	},
	// NewRTRErrorReport indexed errPDU[1] without a length check.
	"rtr-error-report-short-pdu-panics": func() (f *verifkit.Failure) {
		defer func() {
			if r := recover(); r != nil {
				f = verifkit.Failf("rtr-error-report-short-pdu-panics", "NewRTRErrorReport(CORRUPT_DATA, [00], \"x\") panicked: %v", r)
			}
		}()
		m := NewRTRErrorReport(CORRUPT_DATA, []byte{0}, []byte("x"))
		if m == nil {
			return verifkit.Failf("rtr-error-report-short-pdu-panics", "NewRTRErrorReport refuses a one-octet erroneous PDU")
		}
		w, err := m.Serialize()
		if err != nil {
			return verifkit.Failf("rtr-error-report-short-pdu-panics", "does not serialise: %v", err)
		}
		if p, err := ParseRTR(w); err != nil || c19RtrJSON(p) != c19RtrJSON(m) {
			return verifkit.Failf("rtr-error-report-short-pdu-panics", "Error Report with a one-octet erroneous PDU does not round-trip: %v", err)
		}
		return nil
	},
}

type c19RtrCase struct {
	Recipe []uint32 `json:"recipe"`
	Raw    []byte   `json:"raw,omitempty"`
	Mode   int      `json:"mode"`
}

const (
	c19RtrRoundTrip = iota
	c19RtrMutant
	c19RtrRaw
	c19RtrSweep
	c19RtrModes
)

func drawC19Rtr(t *rapid.T) c19RtrCase {
	c := c19RtrCase{Mode: rapid.IntRange(0, c19RtrModes-1).Draw(t, "mode")}
	if c.Mode == c19RtrRaw {
		c.Raw = rapid.SliceOfN(rapid.Byte(), 0, 100).Draw(t, "raw")
	}
	c.Recipe = rapid.SliceOfN(rapid.Uint32(), 40, 240).Draw(t, "recipe")
	return c
}

func c19RtrGuarded(b []byte, poison byte) []byte {
	buf := make([]byte, len(b)+64)
	for i := range buf {
		buf[i] = poison
	}
	copy(buf[32:], b)
	return buf[32 : 32+len(b) : 32+len(b)]
}

func c19RtrSlack(b []byte, fill byte) []byte {
	buf := bytes.Repeat([]byte{fill}, len(b)+96)
	copy(buf, b)
	return buf[:len(b)]
}

func c19RtrTail(n int, variant byte) []byte {
	t := make([]byte, n)
	x := uint32(0x9e3779b9)
	for i := range t {
		x ^= x << 13
		x ^= x >> 17
		x ^= x << 5
		t[i] = byte(x) & 0x1f // small values: plausible as prefix lengths
		if variant != 0 {
			t[i] ^= 0x1f
		}
	}
	return t
}

// canonical JSON in which null, [] and "" are the same (absent) value
func c19RtrJSON(v any) string {
	b, err := json.Marshal(v)
	if err != nil {
		return "json-error: " + err.Error()
	}
	var x any
	if json.Unmarshal(b, &x) != nil {
		return string(b)
	}
	b, _ = json.Marshal(c19RtrCanon(x))
	return fmt.Sprintf("%T%s", v, b)
}

func c19RtrCanon(x any) any {
	switch v := x.(type) {
	case []any:
		if len(v) == 0 {
			return nil
		}
		for i := range v {
			v[i] = c19RtrCanon(v[i])
		}
		return v
	case map[string]any:
		for k, e := range v {
			if c := c19RtrCanon(e); c == nil {
				delete(v, k)
			} else {
				v[k] = c
			}
		}
		return v
	case string:
		if v == "" {
			return nil
		}
	}
	return x
}

var c19RtrKinds = []string{"serial-notify", "serial-query", "reset-query", "cache-response", "ipv4-prefix", "ipv6-prefix", "end-of-data", "cache-reset", "error-report"}

// c19RtrPDU builds one PDU of the given kind through the package constructors.
func c19RtrPDU(s *verifgen.Src, kind int, st *verifkit.Stats) (RTRMessage, bool) {
	rich := false
	var m RTRMessage
	switch kind {
	case 0:
		m = NewRTRSerialNotify(s.U16(), s.U32())
	case 1:
		m = NewRTRSerialQuery(s.U16(), s.U32())
	case 2:
		m = NewRTRResetQuery()
	case 3:
		m = NewRTRCacheResponse(s.U16())
	case 4:
		pl := uint8(s.Intn(33))
		ml := pl + uint8(s.Intn(int(32-pl)+1))
		m = NewRTRIPPrefix(s.V4(), pl, ml, verifgen.ASN(s), uint8(s.Intn(2)))
		rich = true
	case 5:
		pl := uint8(s.Intn(129))
		ml := pl + uint8(s.Intn(int(128-pl)+1))
		m = NewRTRIPPrefix(s.V6(), pl, ml, verifgen.ASN(s), uint8(s.Intn(2)))
		rich = true
	case 6:
		m = NewRTREndOfData(s.U16(), s.U32())
	case 7:
		m = NewRTRCacheReset()
	default:
		var pdu, text []byte
		switch s.Intn(4) {
		case 0:
		case 1: // an encapsulated valid PDU (not an Error Report)
			inner, _ := c19RtrPDU(s, s.Intn(8), nil)
			pdu, _ = inner.Serialize()
		case 2: // a truncated / arbitrary erroneous PDU
			pdu = s.Bytes(2 + s.Len(40))
			if pdu[1] == RTR_ERROR_REPORT {
				pdu[1] = 0xfe
			}
		default: // a PDU cut inside its first two octets
			pdu = s.Bytes(1)
		}
		switch s.Intn(3) {
		case 0:
		case 1:
			text = []byte("Corrupt Data " + fmt.Sprint(s.Intn(1000)))
		default:
			text = s.Bytes(s.Len(300))
		}
		if st != nil {
			st.Label(fmt.Sprintf("error-report pdu=%v text=%v", len(pdu) > 0, len(text) > 0))
		}
		m = NewRTRErrorReport(uint16(s.Intn(10)), pdu, text)
		rich = len(pdu) > 0 && len(text) > 0
	}
	return m, rich
}

func c19RtrSetVersion(m RTRMessage, v uint8) {
	switch x := m.(type) {
	case *RTRSerialNotify:
		x.Version = v
	case *RTRSerialQuery:
		x.Version = v
	case *RTRResetQuery:
		x.Version = v
	case *RTRCacheResponse:
		x.Version = v
	case *RTRIPPrefix:
		x.Version = v
	case *RTRCacheReset:
		x.Version = v
	case *RTRErrorReport:
		x.Version = v
	}
}

func c19RtrParse(b []byte) (m RTRMessage, err error, fail *verifkit.Failure) {
	defer func() {
		if r := recover(); r != nil {
			fail = verifkit.Failf("panic-decode", "ParseRTR panicked: %v (input %x)", r, b)
		}
	}()
	m, err = ParseRTR(b)
	return
}

func c19RtrOutcome(m RTRMessage, err error) string {
	if err != nil {
		return "error: " + err.Error()
	}
	return c19RtrJSON(m)
}

func c19RtrKnownType(t byte) bool {
	switch t {
	case RTR_SERIAL_NOTIFY, RTR_SERIAL_QUERY, RTR_RESET_QUERY, RTR_CACHE_RESPONSE, RTR_IPV4_PREFIX, RTR_IPV6_PREFIX, RTR_END_OF_DATA, RTR_CACHE_RESET, RTR_ERROR_REPORT:
		return true
	}
	return false
}

func c19RtrCheckDecode(in []byte, st *verifkit.Stats) *verifkit.Failure {
	g := c19RtrGuarded(in, 0xaa)
	keep := append([]byte{}, g...)
	m, err, f := c19RtrParse(g)
	if f != nil {
		return f
	}
	if !bytes.Equal(g, keep) {
		return verifkit.Failf("input-modified", "ParseRTR modified the caller's buffer: %x -> %x", keep, g)
	}
	st.SubEval(1)
	if len(in) >= RTR_MIN_LEN && c19RtrKnownType(in[1]) {
		st.Nontrivial()
		st.Key(fmt.Sprintf("dec/%d/%d/%v", in[1], len(in), err == nil))
		st.Label(fmt.Sprintf("decode-type-%d", in[1]))
	}
	if err == nil {
		st.Label("decode-ok")
	} else {
		st.Label("decode-error")
	}
	// the value must be usable: rendering must not panic
	if m != nil {
		if f := func() (f *verifkit.Failure) {
			defer func() {
				if r := recover(); r != nil {
					f = verifkit.Failf("panic-render", "rendering the value parsed from %x panicked: %v", in, r)
				}
			}()
			_ = c19RtrJSON(m)
			_ = fmt.Sprint(m)
			return nil
		}(); f != nil {
			return f
		}
	}
	m2, err2, f := c19RtrParse(c19RtrSlack(in, 0x04))
	if f != nil {
		return f
	}
	if a, b := c19RtrOutcome(m, err), c19RtrOutcome(m2, err2); a != b {
		return verifkit.Failf("reads-beyond-len", "decoding %x depends on the spare capacity behind the slice: %s vs %s", in, a, b)
	}
	if len(in) < RTR_MIN_LEN {
		return nil
	}
	l := binary.BigEndian.Uint32(in[4:8])
	if l < RTR_MIN_LEN || uint64(l) > uint64(len(in)) {
		return nil // no declared PDU inside the input
	}
	declared := int(l)
	ta := append(append([]byte{}, in[:declared]...), c19RtrTail(40, 0)...)
	tb := append(append([]byte{}, in[:declared]...), c19RtrTail(40, 1)...)
	ma, ea, f := c19RtrParse(c19RtrGuarded(ta, 0x55))
	if f != nil {
		return f
	}
	mb, eb, f := c19RtrParse(c19RtrGuarded(tb, 0x33))
	if f != nil {
		return f
	}
	if a, b := c19RtrOutcome(ma, ea), c19RtrOutcome(mb, eb); a != b {
		return verifkit.Failf("depends-on-trailing-bytes", "PDU %x (declared Length %d) decodes differently depending on the bytes that follow it: %s vs %s", in[:declared], declared, a, b)
	}
	return nil
}

// c19RtrFix rewrites the Length field (and, for Error Report, keeps the inner lengths) to match len(b).
func c19RtrFix(b []byte) {
	if len(b) >= 8 {
		binary.BigEndian.PutUint32(b[4:8], uint32(len(b)))
	}
}

func c19RtrMutate(s *verifgen.Src, wire []byte) []byte {
	b := append([]byte{}, wire...)
	n := 1 + s.Intn(3)
	fix := s.Chance(3, 4)
	for k := 0; k < n && len(b) > 0; k++ {
		switch s.Intn(9) {
		case 0:
			b = b[:s.Intn(len(b)+1)]
		case 1:
			b = append(b, s.Bytes(1+s.Intn(24))...)
		case 2:
			b[s.Intn(len(b))] ^= 1 << uint(s.Intn(8))
		case 3:
			b[s.Intn(len(b))] = verifgen.Pick(s, []byte{0, 1, 2, 3, 4, 6, 7, 8, 10, 32, 33, 128, 129, 0x7f, 0x80, 0xff})
		case 4:
			if len(b) >= 2 {
				binary.BigEndian.PutUint16(b[s.Intn(len(b)-1):], verifgen.Pick(s, []uint16{0, 0xffff, uint16(len(b)), uint16(len(b) + 1), uint16(len(b) - 1)}))
			}
		case 5:
			if len(b) >= 4 {
				binary.BigEndian.PutUint32(b[s.Intn(len(b)-3):], verifgen.Pick(s, []uint32{0, 0xffffffff, 0x80000000, 0x7fffffff, uint32(len(b)), uint32(len(b) + 1), uint32(len(b) - 1)}))
			}
		case 6: // hostile constant in the Length field
			if len(b) >= 8 {
				binary.BigEndian.PutUint32(b[4:8], verifgen.Pick(s, []uint32{0, 7, 8, 12, 15, 16, 20, 32, 0xffffffff, 0xfffffff0, uint32(len(b) + 1), uint32(len(b) - 1)}))
				fix = false
			}
		case 7: // hostile constants in the Error Report inner lengths
			if len(b) >= 12 {
				binary.BigEndian.PutUint32(b[8:12], verifgen.Pick(s, []uint32{0, 0xffffffff, 0xfffffff0, uint32(len(b) - 16), uint32(len(b) - 15), uint32(len(b) - 12), uint32(len(b))}))
			}
		default: // change the PDU type, keep the rest
			if len(b) >= 2 {
				b[1] = byte(s.Intn(12))
			}
		}
	}
	if fix {
		c19RtrFix(b)
	}
	return b
}

func runC19Rtr(c c19RtrCase, st *verifkit.Stats) *verifkit.Failure {
	s := verifgen.NewSrc(c.Recipe)
	mode := ((c.Mode % c19RtrModes) + c19RtrModes) % c19RtrModes
	st.Label([]string{"mode-roundtrip", "mode-mutant", "mode-raw", "mode-sweep"}[mode])
	if mode == c19RtrRaw {
		in := c.Raw
		if len(in) == 0 {
			in = s.Bytes(s.Intn(64))
		}
		return c19RtrCheckDecode(append([]byte{}, in...), st)
	}
	kind := s.Intn(len(c19RtrKinds))
	lst := st
	if mode != c19RtrRoundTrip {
		lst = nil
	}
	m, rich := c19RtrPDU(s, kind, lst)
	if m == nil {
		return verifkit.Failf("constructor-nil", "constructor of %s returned nil for valid arguments", c19RtrKinds[kind])
	}
	ver := uint8(0)
	if kind != 6 && s.Chance(1, 4) {
		ver = 1
	}
	c19RtrSetVersion(m, ver)
	wire, err := m.Serialize()
	if err != nil {
		return verifkit.Failf("serialize", "%s does not serialise: %v", c19RtrKinds[kind], err)
	}
	switch mode {
	case c19RtrRoundTrip:
		st.Label("pdu-" + c19RtrKinds[kind])
		st.Label(fmt.Sprintf("version-%d", ver))
		if len(wire) < 8 || binary.BigEndian.Uint32(wire[4:8]) != uint32(len(wire)) {
			return verifkit.Failf("length-field", "%s serialises to %d octets with Length field %x", c19RtrKinds[kind], len(wire), wire)
		}
		keep := append([]byte{}, wire...)
		p, perr, f := c19RtrParse(c19RtrGuarded(wire, 0xaa))
		if f != nil {
			return f
		}
		if perr != nil {
			return verifkit.Failf("reparse", "serialised %s %x does not parse: %v", c19RtrKinds[kind], wire, perr)
		}
		if a, b := c19RtrJSON(m), c19RtrJSON(p); a != b {
			return verifkit.Failf("not-equal", "parsed %s differs from the constructed one:\n constructed %s\n parsed      %s\n wire %x", c19RtrKinds[kind], a, b, wire)
		}
		wire2, err := p.Serialize()
		if err != nil || !bytes.Equal(keep, wire2) {
			return verifkit.Failf("fixpoint", "parsed %s re-serialises to %x, first encoding %x (%v)", c19RtrKinds[kind], wire2, keep, err)
		}
		st.SubEval(2)
		if rich {
			st.Nontrivial()
		}
		return nil
	case c19RtrMutant:
		return c19RtrCheckDecode(c19RtrMutate(s, wire), st)
	default: // sweep: every cut point, with and without the Length field fixed up; Error Report inner lengths too
		for k := 0; k <= len(wire); k++ {
			v := append([]byte{}, wire[:k]...)
			if f := c19RtrCheckDecode(v, st); f != nil {
				return f
			}
			if k >= 8 {
				v2 := append([]byte{}, v...)
				c19RtrFix(v2)
				if f := c19RtrCheckDecode(v2, st); f != nil {
					return f
				}
				if k >= 16 && v2[1] == RTR_ERROR_REPORT {
					// make the inner lengths agree with the cut: all of the remainder is "erroneous PDU"
					v3 := append([]byte{}, v2...)
					binary.BigEndian.PutUint32(v3[8:12], uint32(k-16))
					binary.BigEndian.PutUint32(v3[k-4:k], 0)
					if f := c19RtrCheckDecode(v3, st); f != nil {
						return f
					}
					// ... or one octet more / less than fits
					for _, d := range []int{-1, 1, 4} {
						v4 := append([]byte{}, v3...)
						binary.BigEndian.PutUint32(v4[8:12], uint32(k-16+d))
						if f := c19RtrCheckDecode(v4, st); f != nil {
							return f
						}
					}
				}
			}
		}
		return nil
	}
}

func TestVerifC19_rtr(t *testing.T) {
	for key, p := range c19RtrProbes {
		verifkit.RegisterProbe("C19_rtr", key, func(*verifkit.Stats) *verifkit.Failure { return p() })
	}
	verifkit.Run(t, "C19_rtr", drawC19Rtr, runC19Rtr)
}

func FuzzVerifC19_rtr(f *testing.F) {
	for k := 0; k < len(c19RtrKinds); k++ {
		m, _ := c19RtrPDU(verifgen.NewSrc([]uint32{7, 7, 7, 7, 7, 7}), k, nil)
		b, _ := m.Serialize()
		f.Add(append([]byte{1}, b...))
	}
	er, _ := NewRTRErrorReport(CORRUPT_DATA, []byte{0, 2, 0, 0, 0, 0, 0, 8}, []byte("bad")).Serialize()
	f.Add(append([]byte{1}, er...))
	f.Add([]byte{0, 9, 9, 9, 9, 1, 0, 0, 0})
	f.Add([]byte{2, 9, 9, 9, 9, 1, 0, 0, 0})
	f.Add([]byte{4, 8, 0, 0, 0, 1, 0, 0, 0})
	f.Fuzz(func(t *testing.T, data []byte) {
		if len(data) < 1 {
			return
		}
		var c c19RtrCase
		if data[0]&1 == 1 {
			c.Mode, c.Raw = c19RtrRaw, data[1:]
			if len(c.Raw) == 0 {
				return
			}
		} else {
			c.Mode = []int{c19RtrRoundTrip, c19RtrMutant, c19RtrSweep}[int(data[0]>>1)%3]
			src := data[1:]
			for len(src) >= 4 {
				c.Recipe = append(c.Recipe, binary.LittleEndian.Uint32(src))
				src = src[4:]
			}
		}
		if fail := runC19Rtr(c, verifkit.Scratch("C19_rtr")); fail != nil {
			t.Fatalf("VERIF-FAIL C19_rtr sig=%q: %s", fail.Sig, fail.Msg)
		}
	})
}

var _ = netip.Addr{}
