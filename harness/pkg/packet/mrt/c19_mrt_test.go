package mrt

// C19 (MRT part) — the MRT codec decodes safely and round-trips.
//
// (a) decode safety.  Inputs: arbitrary bytes and structure-aware mutants of valid records
//     (truncation at every offset with the header Length fixed up, flips, 0/0xff../len±1 in
//     16/32-bit fields, foreign sub-types over a valid body).  Entry points: ParseHeader,
//     ParseBody for every TABLE_DUMPv2 / BGP4MP sub-type, SplitMrt.  Oracle: no panic; the
//     caller's buffer is unchanged; slices have cap==len inside a poisoned buffer; spare
//     capacity behind a slice is never consulted; a body of the declared length followed by two
//     different tails decodes identically; the splitter returns advance<=len(data), a token that
//     is a prefix of data, and makes a bufio.Scanner terminate.
// (b) round trip of every record the package constructs: PEER_INDEX_TABLE, RIB_IPV4/6_UNICAST/
//     MULTICAST, RIB_GENERIC, their ADD-PATH variants, GEO_PEER_TABLE, BGP4MP STATE_CHANGE(_AS4)
//     and the eight BGP4MP MESSAGE sub-types (AS2/AS4 x local x ADD-PATH), embedded BGP
//     messages from verifgen.  Oracle: Serialize succeeds, ParseHeader+ParseBody succeed, the
//     parsed record equals the constructed one (header fields, canonical JSON and String() of
//     the body), re-serialising gives identical bytes, and SplitMrt frames exactly the record.
//
// Non-trivial rule: (a) ParseHeader succeeds, type and sub-type are supported and the declared
// body is present (a body decoder is reached); (b) the record embeds a BGP message or has >= 2
// entries (peers / RIB entries).

import (
	"bufio"
	"bytes"
	"encoding/binary"
	"encoding/json"
	"fmt"
	"math"
	"net/netip"
	"testing"
	"time"

	"github.com/osrg/gobgp/v4/internal/pkg/verifgen"
	"github.com/osrg/gobgp/v4/internal/pkg/verifkit"
	"github.com/osrg/gobgp/v4/pkg/packet/bgp"
	"pgregory.net/rapid"
)

// KnownIssues: key -> true = mask the defect (the shape is avoided / the observation is only
// counted), false = let the test fail on it.
var KnownIssues = map[string]bool{
	// Rib.Serialize writes the 3-octet AFI/SAFI prefix of RIB_GENERIC for exactly the wrong
	// families: `case RF_FS_IPv4_UC, RF_IPv4_MC, RF_IPv6_UC, RF_IPv6_MC:` emits AFI/SAFI and
	// `default:` emits nothing.  parseRib reads AFI/SAFI only for the GENERIC sub-types.
	// Reproducer: NewRib(1, RF_IPv6_UC, 2001:db8::/32, [entry]) under RIB_IPV6_UNICAST serialises
	// as seq | 00 02 01 | 20 2001 0db8 | ... and parses back as prefix ::/0 with garbage after
	// it (or fails); NewRib(1, RF_IPv4_VPN, ...) under RIB_GENERIC serialises without AFI/SAFI and
	// fails to parse.  Only IPv4 unicast and (under GENERIC) IPv4 FlowSpec round-trip.
	// Functions: (*Rib).Serialize vs parseRib.
	"mrt-rib-afi-safi-inverted": true,
	// parseRib stores the AFI/SAFI it reads from a RIB_GENERIC(_ADDPATH) body in a local variable
	// only: the returned Rib has Family 0 (JSON "Family":0), and because Rib.Serialize is driven
	// by Rib.Family the parsed record re-serialises to different bytes.
	// Reproducer: NewRib(0, RF_FS_IPv4_UC, flowspec NLRI, [entry]) under RIB_GENERIC -> ParseBody ->
	// body.(*Rib).Family == 0.  Masked: the harness copies the family into the parsed value.
	"mrt-rib-generic-family-lost": true,
	// The MRT form of MP_REACH_NLRI (RFC 6396 4.3.4: next hop length + next hop only) of a family
	// without next hop (FlowSpec, opaque) is one octet long; PathAttributeMpReachNLRI.DecodeFromBytes
	// applies its "p.Length < 3" check before looking at the MRT option and rejects it: a RIB entry
	// of a FlowSpec route (as dumped by the daemon) serialises but does not parse back
	// ("mpreach header length is short").  Reproducer: RIB_GENERIC, family ipv4-flowspec, entry
	// attributes [ORIGIN, AS_PATH, MP_REACH_NLRI(ipv4-flowspec, no next hop)].
	"mrt-mpreach-without-nexthop": true,
	// ParseBody has no case for the extended-timestamp types although NewMRTHeader /
	// MRTHeader.Serialize / ParseHeader support them: a BGP4MP_ET record built with NewMRTMessage
	// serialises and its header parses, but ParseBody answers "unsupported type: 17".  SplitMrt
	// cannot frame such a record either: it hands only 12 octets to ParseHeader, which wants 16 for
	// an _ET type, and returns that error for the whole stream.
	// Reproducer: NewMRTMessage(t, BGP4MP_ET, MESSAGE_AS4, NewBGP4MPMessage(...)).
	"mrt-et-not-parsed": true,
	// BGP4MP MESSAGE*_ADDPATH sub-types (RFC 8050): parseBGP4MPMessage ignores isAddPath and calls
	// bgp.ParseBGPMessage without ADD-PATH options, and BGP4MPMessage.Serialize serialises the
	// BGP message without options.  A constructed ADD-PATH record loses its path identifiers
	// (NLRI 10.0.0.0/24 id 5 comes back with id 0) and a record carrying an ADD-PATH encoded
	// payload (what the daemon writes: BGPMessagePayload) is decoded as if it had no path
	// identifiers: wrong prefixes or a parse error.
	// Reproducer: NewBGP4MPMessageAddPath(..., UPDATE{NLRI 10.0.0.0/24 id 5}) -> parse -> id 0.
	"mrt-bgp4mp-addpath-ignored": true,
	// BGP4MPHeader.serialize silently truncates PeerAS / LocalAS to 16 bits for the 2-octet-AS
	// sub-types (Peer.Serialize refuses the same situation with an error).
	// Reproducer: NewBGP4MPStateChange(70000, 65000, 0, ip, ip, false, 1, 2) parses back with
	// PeerAS 4464.
	"mrt-bgp4mp-as2-truncated": true,
	// ParseBody checks len(data) >= h.Len but does not cut data to h.Len: counts inside the
	// body (peer count, entry count, attribute length, view name length) are satisfied from
	// whatever follows the record in the caller's buffer.
	// Reproducer: PEER_INDEX_TABLE body 0a000001 0000 0001 (one peer announced, none present,
	// h.Len=8) followed by 11 more octets parses successfully with a peer built from those octets.
	"mrt-body-reads-past-header-len": true,
	// SplitMrt tests cap(data) instead of len(data) before slicing data[:12]: with fewer than 12
	// octets available it parses a header out of stale buffer contents behind the data
	// (bufio.Scanner hands in a window of a larger buffer).
	// Reproducer: data = buf[:4] of a 64-octet buffer -> header read from buf[0:12].
	"mrt-split-cap-not-len": true,
	// SplitMrt computes int(hdr.Len + 12) in uint32: Length >= 0xfffffff4 wraps to 0..11 and the
	// splitter returns a token shorter than a header; for Length == 0xfffffff4 it returns
	// (0, empty non-nil token, nil), which bufio.Scanner reports as a token forever (or panics with
	// "too many empty tokens" at EOF).
	// Reproducer: 00000000 000d 0002 fffffff4.
	"mrt-split-length-overflow": true,
}

type c19MrtCase struct {
	Recipe []uint32 `json:"recipe"`
	Raw    []byte   `json:"raw,omitempty"`
	Mode   int      `json:"mode"`
}

const (
	c19MrtRoundTrip = iota
	c19MrtMutant
	c19MrtRaw
	c19MrtSweep
	c19MrtSplit
	c19MrtModes
)

var c19MrtModeNames = []string{"mode-roundtrip", "mode-mutant", "mode-raw", "mode-sweep", "mode-split"}

func drawC19Mrt(t *rapid.T) c19MrtCase {
	c := c19MrtCase{Mode: rapid.IntRange(0, c19MrtModes-1).Draw(t, "mode")}
	if c.Mode == c19MrtRaw || (c.Mode == c19MrtSplit && rapid.Bool().Draw(t, "rawsplit")) {
		c.Raw = rapid.SliceOfN(rapid.Byte(), 0, 120).Draw(t, "raw")
	}
	c.Recipe = rapid.SliceOfN(rapid.Uint32(), 40, 240).Draw(t, "recipe")
	return c
}

// ---------------------------------------------------------------------------
// helpers
// ---------------------------------------------------------------------------

func c19MrtGuarded(b []byte, poison byte) []byte {
	buf := make([]byte, len(b)+64)
	for i := range buf {
		buf[i] = poison
	}
	copy(buf[32:], b)
	return buf[32 : 32+len(b) : 32+len(b)]
}

// c19MrtSlack: b with spare capacity behind it; the hidden octets are chosen so that a header
// read out of them looks plausible (length wraps to len(b)).
func c19MrtSlack(b []byte) []byte {
	buf := make([]byte, len(b)+96)
	for i := range buf {
		buf[i] = 0
	}
	// absolute offsets 4..11 = type TABLE_DUMPv2, subtype 2, Length = 2^32-12+len(b)
	hid := []byte{0, 0, 0, 0, 0, 13, 0, 2, 0, 0, 0, 0}
	binary.BigEndian.PutUint32(hid[8:], uint32(len(b))-12)
	copy(buf, hid)
	for i := 12; i < len(buf); i++ {
		buf[i] = 0x01
	}
	copy(buf, b)
	return buf[:len(b)]
}

func c19MrtTail(n int, variant byte) []byte {
	t := make([]byte, n)
	x := uint32(0x2545f491)
	for i := range t {
		x ^= x << 13
		x ^= x >> 17
		x ^= x << 5
		t[i] = byte(x) & 0x0f
		if variant != 0 {
			t[i] ^= 0x0f
		}
	}
	return t
}

func c19MrtJSON(v any) string {
	b, err := json.Marshal(v)
	if err != nil {
		return "json-error: " + err.Error()
	}
	var x any
	if json.Unmarshal(b, &x) != nil {
		return string(b)
	}
	b, _ = json.Marshal(c19MrtCanon(x))
	return string(b)
}

func c19MrtCanon(x any) any {
	switch v := x.(type) {
	case []any:
		if len(v) == 0 {
			return nil
		}
		for i := range v {
			v[i] = c19MrtCanon(v[i])
		}
		return v
	case map[string]any:
		for k, e := range v {
			if c := c19MrtCanon(e); c == nil {
				delete(v, k)
			} else {
				v[k] = c
			}
		}
		if len(v) == 0 {
			return nil
		}
		return v
	case string:
		if v == "" {
			return nil
		}
	}
	return x
}

func c19MrtSafely(what string, f func()) (fail *verifkit.Failure) {
	defer func() {
		if r := recover(); r != nil {
			fail = verifkit.Failf("panic-"+what, "%s panicked: %v", what, r)
		}
	}()
	f()
	return nil
}

func c19MrtHdrLen(t MRTType) int {
	if t.HasExtendedTimestamp() {
		return 16
	}
	return MRT_COMMON_HEADER_LEN
}

var c19MrtTD2Names = map[MRTSubTypeTableDumpv2]string{
	PEER_INDEX_TABLE: "PEER_INDEX_TABLE", RIB_IPV4_UNICAST: "RIB_IPV4_UNICAST", RIB_IPV4_MULTICAST: "RIB_IPV4_MULTICAST",
	RIB_IPV6_UNICAST: "RIB_IPV6_UNICAST", RIB_IPV6_MULTICAST: "RIB_IPV6_MULTICAST", RIB_GENERIC: "RIB_GENERIC", GEO_PEER_TABLE: "GEO_PEER_TABLE",
	RIB_IPV4_UNICAST_ADDPATH: "RIB_IPV4_UNICAST_ADDPATH", RIB_IPV4_MULTICAST_ADDPATH: "RIB_IPV4_MULTICAST_ADDPATH",
	RIB_IPV6_UNICAST_ADDPATH: "RIB_IPV6_UNICAST_ADDPATH", RIB_IPV6_MULTICAST_ADDPATH: "RIB_IPV6_MULTICAST_ADDPATH", RIB_GENERIC_ADDPATH: "RIB_GENERIC_ADDPATH",
}

var c19MrtB4Names = map[MRTSubTypeBGP4MP]string{
	STATE_CHANGE: "STATE_CHANGE", MESSAGE: "MESSAGE", MESSAGE_AS4: "MESSAGE_AS4", STATE_CHANGE_AS4: "STATE_CHANGE_AS4",
	MESSAGE_LOCAL: "MESSAGE_LOCAL", MESSAGE_AS4_LOCAL: "MESSAGE_AS4_LOCAL", MESSAGE_ADDPATH: "MESSAGE_ADDPATH",
	MESSAGE_AS4_ADDPATH: "MESSAGE_AS4_ADDPATH", MESSAGE_LOCAL_ADDPATH: "MESSAGE_LOCAL_ADDPATH", MESSAGE_AS4_LOCAL_ADDPATH: "MESSAGE_AS4_LOCAL_ADDPATH",
}

func c19MrtSubName(t MRTType, st uint16) string {
	switch t {
	case TABLE_DUMPv2:
		if n, ok := c19MrtTD2Names[MRTSubTypeTableDumpv2(st)]; ok {
			return "TABLE_DUMPv2/" + n
		}
	case BGP4MP, BGP4MP_ET:
		if n, ok := c19MrtB4Names[MRTSubTypeBGP4MP(st)]; ok {
			if t == BGP4MP_ET {
				return "BGP4MP_ET/" + n
			}
			return "BGP4MP/" + n
		}
	}
	return ""
}

// ---------------------------------------------------------------------------
// generator
// ---------------------------------------------------------------------------

type c19MrtBuilt struct {
	msg     *MRTMessage
	name    string
	rich    bool            // embeds a BGP message or has >= 2 entries
	payload *bgp.BGPMessage // set when the record carries BGPMessagePayload instead of a message object
	issue   string          // KnownIssues key this shape is expected to trip (unmasked)
}

func c19MrtAS(s *verifgen.Src, as4 bool, st *verifkit.Stats, issue *string) uint32 {
	if as4 {
		return verifgen.ASN(s)
	}
	if s.Chance(1, 8) {
		if KnownIssues["mrt-bgp4mp-as2-truncated"] {
			if st != nil {
				st.Exclude("mrt-bgp4mp-as2-truncated")
			}
		} else {
			*issue = "mrt-bgp4mp-as2-truncated"
			return 65536 + uint32(s.Intn(100000))
		}
	}
	return uint32(verifgen.Pick(s, []int{65000, 1, 65535, 23456, 0, 64512}))
}

func c19MrtFloat(s *verifgen.Src) float32 {
	switch s.Intn(5) {
	case 0:
		return 0
	case 1:
		return float32(s.Intn(36000)-18000) / 100
	case 2:
		return -90
	case 3:
		return 179.999
	default:
		f := math.Float32frombits(s.U32())
		if f != f || math.IsInf(float64(f), 0) {
			return 1.5
		}
		return f
	}
}

func c19MrtPeerAddrs(s *verifgen.Src) (netip.Addr, netip.Addr) {
	if s.Bool() {
		a, b := s.V6(), s.V6()
		return a, b
	}
	return s.V4(), s.V4()
}

var c19MrtGenericFamilies []bgp.Family

func init() {
	for _, f := range verifgen.AllFamilies {
		switch f {
		case bgp.RF_IPv4_UC, bgp.RF_IPv4_MC, bgp.RF_IPv6_UC, bgp.RF_IPv6_MC:
		default:
			c19MrtGenericFamilies = append(c19MrtGenericFamilies, f)
		}
	}
}

func c19MrtRibEntries(s *verifgen.Src, f bgp.Family, prefix bgp.NLRI, addPath bool, st *verifkit.Stats, issue *string) []*RibEntry {
	n := 1 + s.Len(4)
	out := make([]*RibEntry, 0, n)
	for i := 0; i < n; i++ {
		id := uint32(0)
		if addPath {
			id = s.U32()
		}
		attrs := verifgen.AttrSet(s, true, 5)
		withMP := f != bgp.RF_IPv4_UC || s.Chance(1, 6)
		if withMP && s.Chance(5, 6) {
			// RFC 6396 4.3.4: MP_REACH_NLRI carries only the next hop; AFI/SAFI/NLRI are implied by the RIB header
			nhs := verifgen.MPNextHops(s, f)
			if len(nhs) == 0 && KnownIssues["mrt-mpreach-without-nexthop"] {
				if st != nil {
					st.Exclude("mrt-mpreach-without-nexthop")
				}
			} else if mp, err := bgp.NewPathAttributeMpReachNLRI(f, []bgp.PathNLRI{{NLRI: prefix, ID: id}}, nhs...); err == nil {
				attrs = append(attrs, mp)
				if len(nhs) == 0 && issue != nil && *issue == "" {
					*issue = "mrt-mpreach-without-nexthop"
				}
			}
		}
		out = append(out, NewRibEntry(s.U16(), s.U32(), id, attrs, addPath))
	}
	return out
}

func c19MrtBuild(s *verifgen.Src, st *verifkit.Stats) c19MrtBuilt {
	var b c19MrtBuilt
	ts := time.Unix(int64(s.U32()), int64(s.Intn(1000000))*1000)
	var typ MRTType
	var sub MRTSubTyper
	var body Body
	switch s.Intn(8) {
	case 0: // PEER_INDEX_TABLE
		n := s.Len(6)
		if s.Chance(1, 20) {
			n = 300
		}
		peers := make([]*Peer, 0, n)
		for i := 0; i < n; i++ {
			as4 := s.Bool()
			as := uint32(s.U16())
			if as4 {
				as = verifgen.ASN(s)
			}
			ip := s.V4()
			if s.Bool() {
				ip = s.V6()
			}
			peers = append(peers, NewPeer(s.V4(), ip, as, as4))
		}
		view := ""
		switch s.Intn(4) {
		case 1:
			view = "view-" + fmt.Sprint(s.Intn(100))
		case 2:
			view = string(s.Bytes(s.Len(300)))
		}
		typ, sub, body = TABLE_DUMPv2, PEER_INDEX_TABLE, NewPeerIndexTable(s.V4(), view, peers)
		b.rich = n >= 2
	case 1, 2, 3: // RIB
		addPath := s.Bool()
		var f bgp.Family
		var st2 MRTSubTypeTableDumpv2
		switch s.Intn(6) {
		case 0:
			f, st2 = bgp.RF_IPv4_UC, RIB_IPV4_UNICAST
		case 1:
			f, st2 = bgp.RF_IPv4_MC, RIB_IPV4_MULTICAST
		case 2:
			f, st2 = bgp.RF_IPv6_UC, RIB_IPV6_UNICAST
		case 3:
			f, st2 = bgp.RF_IPv6_MC, RIB_IPV6_MULTICAST
		default:
			f, st2 = verifgen.Pick(s, c19MrtGenericFamilies), RIB_GENERIC
			if verifgen.MaxNLRIPerAttr(f) == 1 {
				// opaque (gobgp's private key/value family) and ENCAP (known finding C04-K9) NLRI have no
				// framing of their own and cannot be followed by the entry list
				if st != nil {
					st.Exclude("generic-rib-unframed-nlri-" + f.String())
				}
				f = bgp.RF_IPv4_VPN
			}
		}
		if f != bgp.RF_IPv4_UC && f != bgp.RF_FS_IPv4_UC {
			if KnownIssues["mrt-rib-afi-safi-inverted"] {
				if st != nil {
					st.Exclude("mrt-rib-afi-safi-inverted")
				}
				if st2 == RIB_GENERIC {
					f = bgp.RF_FS_IPv4_UC
				} else {
					f, st2 = bgp.RF_IPv4_UC, RIB_IPV4_UNICAST
				}
			} else {
				b.issue = "mrt-rib-afi-safi-inverted"
			}
		}
		if addPath {
			st2 += 6
		}
		prefix := verifgen.NLRI(s, f)
		entries := c19MrtRibEntries(s, f, prefix, addPath, st, &b.issue)
		typ, sub, body = TABLE_DUMPv2, st2, NewRib(s.U32(), f, prefix, entries)
		b.rich = len(entries) >= 2
		if st != nil {
			st.Label("rib-family-" + f.String())
		}
	case 4: // GEO_PEER_TABLE
		n := s.Len(5)
		peers := make([]*GeoPeer, 0, n)
		for i := 0; i < n; i++ {
			p, _ := NewGeoPeer(s.V4(), c19MrtFloat(s), c19MrtFloat(s))
			peers = append(peers, p)
		}
		t, _ := NewGeoPeerTable(s.V4(), c19MrtFloat(s), c19MrtFloat(s), peers)
		typ, sub, body = TABLE_DUMPv2, GEO_PEER_TABLE, t
		b.rich = n >= 2
	case 5: // BGP4MP state change
		as4 := s.Bool()
		pa, la := c19MrtPeerAddrs(s)
		sc, _ := NewBGP4MPStateChange(c19MrtAS(s, as4, st, &b.issue), c19MrtAS(s, as4, st, &b.issue), s.U16(), pa, la, as4,
			BGPState(verifgen.Pick(s, []int{1, 2, 3, 4, 5, 6, 0, 7, 65535})), BGPState(1+s.Intn(6)))
		typ, body = BGP4MP, sc
		sub = STATE_CHANGE
		if as4 {
			sub = STATE_CHANGE_AS4
		}
	default: // BGP4MP message
		as4, local, addPath := s.Bool(), s.Bool(), s.Bool()
		pa, la := c19MrtPeerAddrs(s)
		msg, fams := verifgen.Message(s)
		ctor := NewBGP4MPMessage
		sub = MESSAGE
		switch {
		case local && addPath:
			ctor, sub = NewBGP4MPMessageLocalAddPath, MESSAGE_LOCAL_ADDPATH
		case local:
			ctor, sub = NewBGP4MPMessageLocal, MESSAGE_LOCAL
		case addPath:
			ctor, sub = NewBGP4MPMessageAddPath, MESSAGE_ADDPATH
		}
		if as4 {
			sub = map[MRTSubTypeBGP4MP]MRTSubTypeBGP4MP{MESSAGE: MESSAGE_AS4, MESSAGE_LOCAL: MESSAGE_AS4_LOCAL, MESSAGE_ADDPATH: MESSAGE_AS4_ADDPATH, MESSAGE_LOCAL_ADDPATH: MESSAGE_AS4_LOCAL_ADDPATH}[sub.(MRTSubTypeBGP4MP)]
		}
		// ADD-PATH sub-types announce a BGP message whose NLRI carry path identifiers (RFC 8050)
		var opt *bgp.MarshallingOption
		if addPath && len(fams) > 0 {
			if KnownIssues["mrt-bgp4mp-addpath-ignored"] {
				if st != nil {
					st.Exclude("mrt-bgp4mp-addpath-ignored")
				}
			} else {
				opt = &bgp.MarshallingOption{AddPath: map[bgp.Family]bgp.BGPAddPathMode{}}
				for _, f := range fams {
					opt.AddPath[f] = bgp.BGP_ADD_PATH_BOTH
				}
				b.issue = "mrt-bgp4mp-addpath-ignored"
			}
		}
		verifgen.NormalisePathIDs(msg, opt)
		m, _ := ctor(c19MrtAS(s, as4, st, &b.issue), c19MrtAS(s, as4, st, &b.issue), s.U16(), pa, la, as4, msg)
		if s.Chance(1, 3) {
			// the form the daemon writes: the received octets, no message object
			var pb []byte
			var err error
			if opt != nil {
				pb, err = msg.Serialize(opt)
			} else {
				pb, err = msg.Serialize()
			}
			if err == nil {
				m.BGPMessage, m.BGPMessagePayload = nil, pb
				b.payload = msg
				if st != nil {
					st.Label("bgp4mp-payload-form")
				}
			}
		}
		typ, body = BGP4MP, m
		b.rich = true
		if s.Chance(1, 6) {
			if KnownIssues["mrt-et-not-parsed"] {
				if st != nil {
					st.Exclude("mrt-et-not-parsed")
				}
			} else {
				typ = BGP4MP_ET
				if b.issue == "" {
					b.issue = "mrt-et-not-parsed"
				}
			}
		}
		if st != nil {
			st.Label("bgp4mp-embeds-" + c19MrtMsgKind(msg))
		}
	}
	b.msg, _ = NewMRTMessage(ts, typ, sub, body)
	b.name = c19MrtSubName(typ, sub.ToUint16())
	return b
}

func c19MrtMsgKind(m *bgp.BGPMessage) string {
	switch m.Body.(type) {
	case *bgp.BGPOpen:
		return "open"
	case *bgp.BGPUpdate:
		return "update"
	case *bgp.BGPNotification:
		return "notification"
	case *bgp.BGPKeepAlive:
		return "keepalive"
	case *bgp.BGPRouteRefresh:
		return "route-refresh"
	}
	return "other"
}

// ---------------------------------------------------------------------------
// round trip
// ---------------------------------------------------------------------------

func c19MrtBodyString(b Body) string {
	if sc, ok := b.(*BGP4MPStateChange); ok && sc.BGP4MPHeader != nil {
		return fmt.Sprintf("STATE_CHANGE %+v old %d new %d", *sc.BGP4MPHeader, sc.OldState, sc.NewState)
	}
	// (BGP messages and some attributes have no String method, so the package's own String() of
	// records that embed them prints pointers; render the unexported flags JSON does not show)
	switch x := b.(type) {
	case *BGP4MPMessage:
		if x.BGP4MPHeader != nil {
			return fmt.Sprintf("MESSAGE %+v local=%v addpath=%v", *x.BGP4MPHeader, x.isLocal, x.isAddPath)
		}
	case *Rib:
		r := fmt.Sprintf("RIB seq %d family %s addpath=%v prefix %s", x.SequenceNumber, x.Family, x.isAddPath, x.Prefix)
		for _, e := range x.Entries {
			r += fmt.Sprintf(" [%d %d %d addpath=%v %d attrs]", e.PeerIndex, e.OriginatedTime, e.PathIdentifier, e.isAddPath, len(e.PathAttributes))
		}
		return r
	case *PeerIndexTable:
		return x.String()
	case *GeoPeerTable:
		return x.String()
	}
	return fmt.Sprintf("%T", b)
}

func c19MrtRoundTripCheck(b c19MrtBuilt, st *verifkit.Stats) *verifkit.Failure {
	known := func(f *verifkit.Failure) *verifkit.Failure {
		// a shape generated only while its issue is unmasked keeps the issue's name in the signature
		if b.issue != "" {
			f.Sig = b.issue + ":" + f.Sig
		}
		return f
	}
	st.Label("rt-" + b.name)
	var wire []byte
	var err error
	if f := c19MrtSafely("serialize", func() { wire, err = b.msg.Serialize() }); f != nil {
		return known(f)
	}
	if err != nil {
		if bm, ok := b.msg.Body.(*BGP4MPMessage); ok && bm.BGPMessage != nil {
			if _, berr := bm.BGPMessage.Serialize(); berr != nil {
				st.Label("over-limit")
				return nil // the embedded BGP message exceeds 4096 octets: not constructible as a record
			}
		}
		return known(verifkit.Failf("serialize", "%s does not serialise: %v", b.name, err))
	}
	keep := append([]byte{}, wire...)
	hl := c19MrtHdrLen(b.msg.Header.Type)
	if len(wire) < hl || int(b.msg.Header.Len) != len(wire)-hl {
		return known(verifkit.Failf("length-field", "%s: %d octets on the wire, header Length %d, header size %d", b.name, len(wire), b.msg.Header.Len, hl))
	}
	g := c19MrtGuarded(wire, 0xaa)
	var h *MRTHeader
	if f := c19MrtSafely("ParseHeader", func() { h, err = ParseHeader(g) }); f != nil {
		return known(f)
	}
	if err != nil {
		return known(verifkit.Failf("reparse-header", "%s: serialised header %x does not parse: %v", b.name, wire[:hl], err))
	}
	if *h != b.msg.Header {
		return known(verifkit.Failf("header-not-equal", "%s: parsed header %+v, constructed %+v", b.name, *h, b.msg.Header))
	}
	var p *MRTMessage
	if f := c19MrtSafely("ParseBody", func() { p, err = ParseBody(g[hl:], h) }); f != nil {
		f.Msg += fmt.Sprintf(" (%s, wire %x)", b.name, wire)
		return known(f)
	}
	if err != nil {
		return known(verifkit.Failf("reparse", "%s does not parse back: %v\n constructed %s\n wire %x", b.name, err, c19MrtBodyString(b.msg.Body), wire))
	}
	if !bytes.Equal(g, keep) {
		return verifkit.Failf("input-modified", "%s: parsing modified the caller's buffer", b.name)
	}
	if fmt.Sprintf("%T", p.Body) != fmt.Sprintf("%T", b.msg.Body) {
		return known(verifkit.Failf("not-equal", "%s parses back as %T", b.name, p.Body))
	}
	if pr, ok := p.Body.(*Rib); ok && pr.Family == 0 && b.msg.Body.(*Rib).Family != 0 && KnownIssues["mrt-rib-generic-family-lost"] {
		st.Exclude("mrt-rib-generic-family-lost")
		pr.Family = b.msg.Body.(*Rib).Family
	}
	if b.payload != nil {
		pm := p.Body.(*BGP4MPMessage)
		cm := b.msg.Body.(*BGP4MPMessage)
		if j1, j2 := c19MrtJSON(cm.BGP4MPHeader), c19MrtJSON(pm.BGP4MPHeader); j1 != j2 {
			return known(verifkit.Failf("not-equal", "%s: BGP4MP header differs:\n constructed %s\n parsed      %s", b.name, j1, j2))
		}
		if j1, j2 := c19MrtJSON(b.payload), c19MrtJSON(pm.BGPMessage); j1 != j2 {
			return known(verifkit.Failf("not-equal", "%s: the BGP message in the payload is decoded differently:\n written %s\n parsed  %s\n wire %x", b.name, j1, j2, wire))
		}
	} else {
		if j1, j2 := c19MrtJSON(b.msg.Body), c19MrtJSON(p.Body); j1 != j2 {
			return known(verifkit.Failf("not-equal", "parsed %s differs from the constructed one:\n constructed %s\n parsed      %s\n wire %x", b.name, j1, j2, wire))
		}
		if s1, s2 := c19MrtBodyString(b.msg.Body), c19MrtBodyString(p.Body); s1 != s2 {
			return known(verifkit.Failf("not-equal-string", "parsed %s renders differently:\n constructed %s\n parsed      %s", b.name, s1, s2))
		}
	}
	var wire2 []byte
	if f := c19MrtSafely("re-serialize", func() { wire2, err = p.Serialize() }); f != nil {
		return known(f)
	}
	if err != nil || !bytes.Equal(keep, wire2) {
		return known(verifkit.Failf("fixpoint", "parsed %s re-serialises differently (%v):\n first  %x\n second %x", b.name, err, keep, wire2))
	}
	// the stream reader's view: SplitMrt must frame exactly this record when more data follows
	stream := append(append([]byte{}, wire...), 0, 0, 0, 1, 0, 13, 0, 1, 0, 0, 0, 0)
	var adv int
	var tok []byte
	if f := c19MrtSafely("SplitMrt", func() { adv, tok, err = SplitMrt(c19MrtGuarded(stream, 0x11), false) }); f != nil {
		return known(f)
	}
	if err != nil || adv != len(wire) || !bytes.Equal(tok, wire) {
		return known(verifkit.Failf("split-mismatch", "SplitMrt on a stream starting with this %s (%d octets) returns advance %d, token of %d octets, err %v", b.name, len(wire), adv, len(tok), err))
	}
	st.SubEval(4)
	if b.rich {
		st.Nontrivial()
	}
	return nil
}

// ---------------------------------------------------------------------------
// decode safety
// ---------------------------------------------------------------------------

func c19MrtBodyOutcome(m *MRTMessage, err error) string {
	if err != nil {
		return "error: " + err.Error()
	}
	if m == nil {
		return "nil"
	}
	return fmt.Sprintf("%T %s", m.Body, c19MrtJSON(m.Body))
}

func c19MrtParseBody(body []byte, h *MRTHeader) (m *MRTMessage, err error, fail *verifkit.Failure) {
	fail = c19MrtSafely("ParseBody", func() { m, err = ParseBody(body, h) })
	if fail != nil {
		fail.Msg += fmt.Sprintf(" (type %d subtype %d Length %d body %x)", h.Type, h.SubType, h.Len, body)
	}
	return
}

// c19MrtCheckRecord: ParseHeader on the input, then ParseBody on the declared body.
func c19MrtCheckRecord(in []byte, st *verifkit.Stats) *verifkit.Failure {
	g := c19MrtGuarded(in, 0xaa)
	keep := append([]byte{}, g...)
	var h *MRTHeader
	var herr error
	if f := c19MrtSafely("ParseHeader", func() { h, herr = ParseHeader(g) }); f != nil {
		f.Msg += fmt.Sprintf(" (input %x)", in)
		return f
	}
	st.SubEval(1)
	// spare capacity must not matter
	var h2 *MRTHeader
	var herr2 error
	if f := c19MrtSafely("ParseHeader", func() { h2, herr2 = ParseHeader(c19MrtSlack(in)) }); f != nil {
		return f
	}
	if (herr == nil) != (herr2 == nil) || (herr == nil && *h != *h2) {
		return verifkit.Failf("reads-beyond-len", "ParseHeader(%x) depends on the spare capacity behind the slice: %v/%v", in, herr, herr2)
	}
	if herr != nil {
		st.Label("header-error")
		return nil
	}
	hl := c19MrtHdrLen(h.Type)
	body := g[hl:]
	if uint64(h.Len) > uint64(len(body)) {
		// a reader would wait for more data; ParseBody must refuse
		_, err, f := c19MrtParseBody(body, h)
		if f != nil {
			return f
		}
		if err == nil && c19MrtSubName(h.Type, h.SubType) != "" {
			st.Label("short-body-accepted")
		}
		st.Label("body-short")
		return nil
	}
	name := c19MrtSubName(h.Type, h.SubType)
	if name == "" || h.Type == BGP4MP_ET {
		st.Label("type-unsupported")
	} else {
		st.Nontrivial()
		st.Label("dec-" + name)
	}
	declared := body[:h.Len:h.Len]
	m, err, f := c19MrtParseBody(declared, h)
	if f != nil {
		return f
	}
	if !bytes.Equal(g, keep) {
		return verifkit.Failf("input-modified", "parsing modified the caller's buffer: %x -> %x", keep, g)
	}
	if name != "" {
		st.Key(fmt.Sprintf("dec/%s/%v/%d", name, err == nil, len(in)%16))
		if err == nil {
			st.Label("body-ok")
		} else {
			st.Label("body-error")
		}
	}
	// body followed by two different tails
	ta := append(append([]byte{}, declared...), c19MrtTail(48, 0)...)
	tb := append(append([]byte{}, declared...), c19MrtTail(48, 1)...)
	ma, ea, f := c19MrtParseBody(c19MrtGuarded(ta, 0x55), h)
	if f != nil {
		return f
	}
	mb, eb, f := c19MrtParseBody(c19MrtGuarded(tb, 0x33), h)
	if f != nil {
		return f
	}
	if a, b := c19MrtBodyOutcome(ma, ea), c19MrtBodyOutcome(mb, eb); a != b {
		if KnownIssues["mrt-body-reads-past-header-len"] {
			st.Label("known:mrt-body-reads-past-header-len")
			st.Exclude("mrt-body-reads-past-header-len")
		} else {
			return verifkit.Failf("depends-on-trailing-bytes", "%s body %x (header Length %d) decodes differently depending on the bytes that follow it:\n %s\n %s", name, []byte(declared), h.Len, a, b)
		}
	}
	_ = m
	return nil
}

// c19MrtCheckSplit: SplitMrt as a function, and driven by a bufio.Scanner.
func c19MrtCheckSplit(in []byte, st *verifkit.Stats) *verifkit.Failure {
	for _, eof := range []bool{false, true} {
		g := c19MrtGuarded(in, 0xaa)
		keep := append([]byte{}, g...)
		var adv int
		var tok []byte
		var err error
		if f := c19MrtSafely("SplitMrt", func() { adv, tok, err = SplitMrt(g, eof) }); f != nil {
			f.Msg += fmt.Sprintf(" (input %x)", in)
			return f
		}
		st.SubEval(1)
		if !bytes.Equal(g, keep) {
			return verifkit.Failf("input-modified", "SplitMrt modified the caller's buffer")
		}
		if adv < 0 || adv > len(in) || len(tok) > len(in) {
			return verifkit.Failf("split-bounds", "SplitMrt(%d octets) returns advance %d and a token of %d octets", len(in), adv, len(tok))
		}
		if len(tok) > 0 && (&tok[0] != &g[0]) {
			return verifkit.Failf("split-token-not-prefix", "the token is not a prefix of the data")
		}
		if err == nil && tok != nil {
			st.Label("split-token")
			if len(tok) < MRT_COMMON_HEADER_LEN || adv != len(tok) {
				if KnownIssues["mrt-split-length-overflow"] {
					st.Exclude("mrt-split-length-overflow")
				} else {
					return verifkit.Failf("split-short-token", "SplitMrt(%x) returns advance %d and a token of %d octets (shorter than a header)", in, adv, len(tok))
				}
			}
		} else if err != nil {
			st.Label("split-error")
		} else {
			st.Label("split-more")
		}
		// spare capacity behind the data
		var adv2 int
		var tok2 []byte
		var err2 error
		if f := c19MrtSafely("SplitMrt", func() { adv2, tok2, err2 = SplitMrt(c19MrtSlack(in), eof) }); f != nil {
			return f
		}
		if adv != adv2 || len(tok) != len(tok2) || (tok == nil) != (tok2 == nil) || (err == nil) != (err2 == nil) {
			if len(in) < MRT_COMMON_HEADER_LEN && KnownIssues["mrt-split-cap-not-len"] {
				st.Exclude("mrt-split-cap-not-len")
			} else {
				return verifkit.Failf("reads-beyond-len", "SplitMrt on %d octets %x depends on the spare capacity behind the slice: (%d, %d octets, %v) vs (%d, %d octets, %v)", len(in), in, adv, len(tok), err, adv2, len(tok2), err2)
			}
		}
	}
	// a Scanner over the input must terminate
	var fail *verifkit.Failure
	func() {
		defer func() {
			if r := recover(); r != nil {
				fail = verifkit.Failf("scanner-panic", "bufio.Scanner with SplitMrt over %x panicked: %v", in, r)
			}
		}()
		sc := bufio.NewScanner(bytes.NewReader(in))
		sc.Buffer(make([]byte, 0, 64), 1<<20)
		sc.Split(SplitMrt)
		n, total := 0, 0
		for sc.Scan() {
			n++
			total += len(sc.Bytes())
			if n > len(in)+2 {
				fail = verifkit.Failf("scanner-no-progress", "bufio.Scanner with SplitMrt over %x keeps returning tokens without consuming input", in)
				return
			}
		}
		if total > len(in) {
			fail = verifkit.Failf("split-bounds", "tokens of %d octets out of %d octets of input", total, len(in))
		}
		st.LabelN("scanner-tokens", n)
	}()
	if fail != nil && (fail.Sig == "scanner-no-progress" || fail.Sig == "scanner-panic") && KnownIssues["mrt-split-length-overflow"] && c19MrtHasWrapLen(in) {
		st.Exclude("mrt-split-length-overflow")
		return nil
	}
	return fail
}

// c19MrtHasWrapLen: some record header in the stream (at any offset) declares a Length that wraps in uint32.
func c19MrtHasWrapLen(in []byte) bool {
	for i := 0; i+12 <= len(in); i++ {
		if binary.BigEndian.Uint32(in[i+8:i+12]) >= 0xfffffff4 {
			return true
		}
	}
	return false
}

func c19MrtFix(b []byte) {
	if len(b) >= 12 {
		hl := c19MrtHdrLen(MRTType(binary.BigEndian.Uint16(b[4:6])))
		if len(b) >= hl {
			binary.BigEndian.PutUint32(b[8:12], uint32(len(b)-hl))
		}
	}
}

var c19MrtSubtypes = [][2]uint16{
	{13, 1}, {13, 2}, {13, 3}, {13, 4}, {13, 5}, {13, 6}, {13, 7}, {13, 8}, {13, 9}, {13, 10}, {13, 11}, {13, 12}, {13, 0}, {13, 13},
	{16, 0}, {16, 1}, {16, 4}, {16, 5}, {16, 6}, {16, 7}, {16, 8}, {16, 9}, {16, 10}, {16, 11}, {16, 2}, {16, 12},
	{17, 4}, {12, 1}, {0, 0}, {33, 0}, {49, 0}, {65535, 65535},
}

func c19MrtMutate(s *verifgen.Src, wire, other []byte) []byte {
	b := append([]byte{}, wire...)
	n := 1 + s.Intn(3)
	fix := s.Chance(3, 4)
	for k := 0; k < n && len(b) > 0; k++ {
		switch s.Intn(11) {
		case 0:
			b = b[:s.Intn(len(b)+1)]
		case 1:
			b = append(b, s.Bytes(1+s.Intn(16))...)
		case 2:
			b[s.Intn(len(b))] ^= 1 << uint(s.Intn(8))
		case 3:
			b[s.Intn(len(b))] = verifgen.Pick(s, []byte{0, 1, 2, 3, 4, 0x7f, 0x80, 0xfe, 0xff, 24, 32, 33, 128, 129})
		case 4:
			if len(b) >= 2 {
				binary.BigEndian.PutUint16(b[s.Intn(len(b)-1):], verifgen.Pick(s, []uint16{0, 1, 0xffff, 0xfffe, uint16(len(b)), uint16(len(b) + 1), uint16(len(b) - 1)}))
			}
		case 5:
			if len(b) >= 4 {
				binary.BigEndian.PutUint32(b[s.Intn(len(b)-3):], verifgen.Pick(s, []uint32{0, 1, 0xffffffff, 0xfffffff4, 0x80000000, uint32(len(b)), uint32(len(b) + 1), uint32(len(b) - 1)}))
			}
		case 6: // hostile header Length
			if len(b) >= 12 {
				binary.BigEndian.PutUint32(b[8:12], verifgen.Pick(s, []uint32{0, 1, 0xffffffff, 0xfffffff4, 0xfffffff5, 0xfffffff3, uint32(len(b) - 12 + 1), uint32(len(b) - 12 - 1), uint32(len(b))}))
				fix = false
			}
		case 7: // another (sub-)type over the same body
			if len(b) >= 8 {
				ts := verifgen.Pick(s, c19MrtSubtypes)
				binary.BigEndian.PutUint16(b[4:6], ts[0])
				binary.BigEndian.PutUint16(b[6:8], ts[1])
			}
		case 8: // splice a chunk of another record
			if len(other) > 12 {
				i := 12 + s.Intn(len(other)-12)
				j := i + s.Intn(len(other)-i+1)
				at := s.Intn(len(b) + 1)
				b = append(b[:at:at], append(append([]byte{}, other[i:j]...), b[at:]...)...)
			}
		case 9: // hostile 16-bit count/length somewhere in the first octets of the body
			if len(b) >= 30 {
				binary.BigEndian.PutUint16(b[12+s.Intn(16):], verifgen.Pick(s, []uint16{0, 1, 2, 0xffff, 0x7fff, uint16(len(b) - 12), uint16(len(b))}))
			}
		default:
			i := s.Intn(len(b))
			j := i + s.Intn(min(8, len(b)-i)+1)
			for x := i; x < j; x++ {
				b[x] = verifgen.Pick(s, []byte{0, 0xff})
			}
		}
		if len(b) > 70000 {
			b = b[:70000]
		}
	}
	if fix {
		c19MrtFix(b)
	}
	return b
}

// c19MrtHandRib assembles a TABLE_DUMPv2 RIB record of any family octet by octet from RFC 6396 /
// RFC 8050 (independently of Rib.Serialize, which is subject to known issues), so that the
// decoders of every RIB sub-type see well-formed input.
func c19MrtHandRib(s *verifgen.Src) []byte {
	w, _, _ := c19MrtHandRibFull(s, false)
	return w
}

// c19MrtHandRibFull also returns the Rib the octets encode and the record's sub-type name; framed
// restricts the GENERIC families to those whose NLRI is self-delimiting.
func c19MrtHandRibFull(s *verifgen.Src, framed bool) ([]byte, *Rib, string) {
	addPath := s.Bool()
	var f bgp.Family
	var sub uint16
	generic := false
	switch s.Intn(6) {
	case 0:
		f, sub = bgp.RF_IPv4_UC, uint16(RIB_IPV4_UNICAST)
	case 1:
		f, sub = bgp.RF_IPv4_MC, uint16(RIB_IPV4_MULTICAST)
	case 2:
		f, sub = bgp.RF_IPv6_UC, uint16(RIB_IPV6_UNICAST)
	case 3:
		f, sub = bgp.RF_IPv6_MC, uint16(RIB_IPV6_MULTICAST)
	default:
		f, sub, generic = verifgen.Pick(s, c19MrtGenericFamilies), uint16(RIB_GENERIC), true
		if framed && verifgen.MaxNLRIPerAttr(f) == 1 {
			f = bgp.RF_IPv6_VPN
		}
	}
	if addPath {
		sub += 6
	}
	prefix := verifgen.NLRI(s, f)
	pb, err := prefix.Serialize()
	if err != nil {
		return nil, nil, ""
	}
	seq := s.U32()
	body := binary.BigEndian.AppendUint32(nil, seq)
	if generic {
		body = binary.BigEndian.AppendUint16(body, f.Afi())
		body = append(body, f.Safi())
	}
	body = append(body, pb...)
	entries := c19MrtRibEntries(s, f, prefix, addPath, nil, nil)
	body = binary.BigEndian.AppendUint16(body, uint16(len(entries)))
	for _, e := range entries {
		eb, err := e.Serialize()
		if err != nil {
			return nil, nil, ""
		}
		body = append(body, eb...)
	}
	w := binary.BigEndian.AppendUint32(nil, s.U32())
	w = binary.BigEndian.AppendUint16(w, uint16(TABLE_DUMPv2))
	w = binary.BigEndian.AppendUint16(w, sub)
	w = binary.BigEndian.AppendUint32(w, uint32(len(body)))
	return append(w, body...), NewRib(seq, f, prefix, entries), c19MrtSubName(TABLE_DUMPv2, sub)
}

// c19MrtHandRoundTrip: the decoding half of the round trip for every RIB sub-type and family,
// against the RFC 6396 encoding assembled by hand (Rib.Serialize is subject to known issues, which
// would otherwise leave the IPv6 / multicast / generic decoders without an equality check).
func c19MrtHandRoundTrip(s *verifgen.Src, st *verifkit.Stats) *verifkit.Failure {
	wire, rib, name := c19MrtHandRibFull(s, true)
	if wire == nil {
		return nil
	}
	st.Label("rt-hand-encoded-" + name)
	st.Label("rt-hand-encoded-family-" + rib.Family.String())
	g := c19MrtGuarded(wire, 0xaa)
	var h *MRTHeader
	var p *MRTMessage
	var err error
	if f := c19MrtSafely("ParseHeader", func() { h, err = ParseHeader(g) }); f != nil {
		return f
	}
	if err != nil {
		return verifkit.Failf("hand-reparse-header", "%s: header does not parse: %v", name, err)
	}
	if f := c19MrtSafely("ParseBody", func() { p, err = ParseBody(g[MRT_COMMON_HEADER_LEN:], h) }); f != nil {
		f.Msg += fmt.Sprintf(" (%s, wire %x)", name, wire)
		return f
	}
	if err != nil {
		return verifkit.Failf("hand-reparse", "an RFC 6396 %s record of family %s does not parse: %v\n encodes %s\n wire %x", name, rib.Family, err, c19MrtBodyString(rib), wire)
	}
	pr, ok := p.Body.(*Rib)
	if !ok {
		return verifkit.Failf("hand-not-equal", "%s parses as %T", name, p.Body)
	}
	if pr.Family == 0 && KnownIssues["mrt-rib-generic-family-lost"] {
		st.Exclude("mrt-rib-generic-family-lost")
		pr.Family = rib.Family
	}
	if j1, j2 := c19MrtJSON(rib), c19MrtJSON(pr); j1 != j2 {
		return verifkit.Failf("hand-not-equal", "an RFC 6396 %s record decodes to a different RIB:\n encoded %s\n decoded %s\n wire %x", name, j1, j2, wire)
	}
	if s1, s2 := c19MrtBodyString(rib), c19MrtBodyString(pr); s1 != s2 {
		return verifkit.Failf("hand-not-equal-string", "an RFC 6396 %s record decodes to a different RIB:\n encoded %s\n decoded %s", name, s1, s2)
	}
	st.SubEval(2)
	if len(rib.Entries) >= 2 {
		st.Nontrivial()
	}
	return nil
}

func c19MrtWire(s *verifgen.Src) []byte {
	if s.Chance(1, 3) {
		if w := c19MrtHandRib(s); w != nil {
			return w
		}
	}
	for i := 0; i < 4; i++ {
		b := c19MrtBuild(s, nil)
		var w []byte
		var err error
		if c19MrtSafely("serialize", func() { w, err = b.msg.Serialize() }) == nil && err == nil {
			return w
		}
	}
	m, _ := NewMRTMessage(time.Unix(1, 0), TABLE_DUMPv2, PEER_INDEX_TABLE, NewPeerIndexTable(netip.MustParseAddr("10.0.0.1"), "", nil))
	w, _ := m.Serialize()
	return w
}

func runC19Mrt(c c19MrtCase, st *verifkit.Stats) *verifkit.Failure {
	s := verifgen.NewSrc(c.Recipe)
	mode := ((c.Mode % c19MrtModes) + c19MrtModes) % c19MrtModes
	st.Label(c19MrtModeNames[mode])
	switch mode {
	case c19MrtRoundTrip:
		if s.Chance(1, 4) {
			return c19MrtHandRoundTrip(s, st)
		}
		return c19MrtRoundTripCheck(c19MrtBuild(s, st), st)
	case c19MrtRaw:
		in := c.Raw
		if len(in) == 0 {
			in = s.Bytes(s.Intn(64))
		}
		in = append([]byte{}, in...)
		if s.Bool() && len(in) >= 12 { // give raw bytes a supported type so that body decoders see them
			ts := verifgen.Pick(s, c19MrtSubtypes[:26])
			binary.BigEndian.PutUint16(in[4:6], ts[0])
			binary.BigEndian.PutUint16(in[6:8], ts[1])
			c19MrtFix(in)
		}
		return c19MrtCheckRecord(in, st)
	case c19MrtMutant:
		w1, w2 := c19MrtWire(s), c19MrtWire(s)
		return c19MrtCheckRecord(c19MrtMutate(s, w1, w2), st)
	case c19MrtSweep:
		w := c19MrtWire(s)
		step := 1
		if len(w) > 400 {
			step = len(w)/400 + 1
		}
		for k := 0; k <= len(w); k += step {
			v := append([]byte{}, w[:k]...)
			c19MrtFix(v)
			if f := c19MrtCheckRecord(v, st); f != nil {
				return f
			}
			if k < 80 || k%7 == 0 {
				if f := c19MrtCheckRecord(append([]byte{}, w[:k]...), st); f != nil { // length field left alone
					return f
				}
			}
		}
		return nil
	default: // splitter
		var in []byte
		if len(c.Raw) > 0 {
			in = append([]byte{}, c.Raw...)
			st.Label("split-input-raw")
		} else {
			n := 1 + s.Intn(3)
			for i := 0; i < n; i++ {
				w := c19MrtWire(s)
				if s.Chance(1, 2) {
					w = c19MrtMutate(s, w, nil)
				}
				in = append(in, w...)
			}
			if s.Chance(1, 3) && len(in) > 0 {
				in = in[:s.Intn(len(in)+1)]
			}
			if len(in) > 20000 {
				in = in[:20000]
			}
			st.Label("split-input-stream")
		}
		if len(in) >= 12 {
			st.Nontrivial()
		}
		return c19MrtCheckSplit(in, st)
	}
}

func TestVerifC19_mrt(t *testing.T) {
	verifkit.Run(t, "C19_mrt", drawC19Mrt, runC19Mrt)
}

// FuzzVerifC19_mrt: {selector byte, payload}.  selector&1: payload = raw record bytes (selector&2: fed
// to the splitter instead); otherwise payload = recipe for mode (selector>>2)%5.
func FuzzVerifC19_mrt(f *testing.F) {
	for i := uint32(0); i < 8; i++ {
		w := c19MrtWire(verifgen.NewSrc([]uint32{i, i * 77, 3, 9, 1, 5, 2, 8, 4, 4, 6, 1, 1, 1, 7}))
		f.Add(append([]byte{1}, w...))
		f.Add(append([]byte{3}, w...))
	}
	f.Add([]byte{3, 0, 0, 0, 0, 0, 13, 0, 2, 0xff, 0xff, 0xff, 0xf4})
	for m := 0; m < c19MrtModes; m++ {
		f.Add([]byte{byte(m << 2), 9, 9, 9, 9, 1, 0, 0, 0, 7, 7, 7, 7, 3, 0, 0, 0})
	}
	f.Fuzz(func(t *testing.T, data []byte) {
		if len(data) < 2 {
			return
		}
		var c c19MrtCase
		if data[0]&1 == 1 {
			c.Mode, c.Raw = c19MrtRaw, data[1:]
			if data[0]&2 != 0 {
				c.Mode = c19MrtSplit
			}
		} else {
			c.Mode = int(data[0]>>2) % c19MrtModes
			src := data[1:]
			for len(src) >= 4 {
				c.Recipe = append(c.Recipe, binary.LittleEndian.Uint32(src))
				src = src[4:]
			}
		}
		if fail := runC19Mrt(c, verifkit.Scratch("C19_mrt")); fail != nil {
			t.Fatalf("VERIF-FAIL C19_mrt sig=%q: %s", fail.Sig, fail.Msg)
		}
	})
}
