package mrt

// C19 (MRT part) — the MRT codec decodes safely and round-trips.
//
// (a) decode safety.  Inputs: arbitrary bytes and structure-aware mutants of valid records
//     (truncation at every offset with the header Length fixed up, flips, 0/0xff../len±1 in
//     16/32-bit fields, foreign sub-types over a valid body).  Entry points: ParseHeader,
//     ParseBody for every TABLE_DUMPv2 / BGP4MP sub-type, SplitMrt.  Oracle: no panic; the
//     caller's buffer is unchanged; slices have cap==len inside a poisoned buffer; spare
//     capacity behind a slice is never consulted; a body of the declared length followed by two
//     different tails decodes identically; the splitter returns advance<=len(data), a token that
//     is a prefix of data, and makes a bufio.Scanner terminate.
// (b) round trip of every record the package constructs: PEER_INDEX_TABLE, RIB_IPV4/6_UNICAST/
//     MULTICAST, RIB_GENERIC, their ADD-PATH variants, GEO_PEER_TABLE, BGP4MP STATE_CHANGE(_AS4)
//     and the eight BGP4MP MESSAGE sub-types (AS2/AS4 x local x ADD-PATH), embedded BGP
//     messages from verifgen.  Oracle: Serialize succeeds, ParseHeader+ParseBody succeed, the
//     parsed record equals the constructed one (header fields, canonical JSON and String() of
//     the body), re-serialising gives identical bytes, and SplitMrt frames exactly the record.
//
// Non-trivial rule: (a) ParseHeader succeeds, type and sub-type are supported and the declared
// body is present (a body decoder is reached); (b) the record embeds a BGP message or has >= 2
// entries (peers / RIB entries).

import (
	"bufio"
	"bytes"
	"encoding/binary"
	"encoding/json"
	"fmt"
	"math"
	"net/netip"
	"testing"
	"time"

	"github.com/osrg/gobgp/v4/internal/pkg/verifgen"
	"github.com/osrg/gobgp/v4/internal/pkg/verifkit"
	"github.com/osrg/gobgp/v4/pkg/packet/bgp"
	"pgregory.net/rapid"
)

// KnownIssues: key -> true = mask the defect (the shape is avoided / the observation is only
// counted), false = let the test fail on it.
// Fixed and removed (reproducers kept as probes, see c19MrtProbes): mrt-rib-afi-safi-inverted,
// mrt-rib-generic-family-lost, mrt-mpreach-without-nexthop, mrt-bgp4mp-addpath-ignored,
// mrt-bgp4mp-as2-truncated, mrt-body-reads-past-header-len, mrt-split-cap-not-len,
// mrt-split-length-overflow, mrt-newrib-empty-entries-panics.
var KnownIssues = map[string]bool{
	// ParseBody has no case for the extended-timestamp types although NewMRTHeader /
	// MRTHeader.Serialize / ParseHeader support them: a BGP4MP_ET record built with NewMRTMessage
	// serialises and its header parses, but ParseBody answers "unsupported type: 17".  SplitMrt
	// cannot frame such a record either: it hands only 12 octets to ParseHeader, which wants 16 for
	// an _ET type, and returns that error for the whole stream.
	// Reproducer: NewMRTMessage(t, BGP4MP_ET, MESSAGE_AS4, NewBGP4MPMessage(...)).
	// (open: RFC 6396 counts the microsecond field in the header Length, MRTMessage.Serialize does
	// not; making _ET records readable means deciding what MRTHeader.Len stands for in ParseHeader,
	// ParseBody, SplitMrt, Serialize and the readers that fetch 12 + Len octets)
	"mrt-et-not-parsed": true,
}

type c19MrtCase struct {
	Recipe []uint32 `json:"recipe"`
	Raw    []byte   `json:"raw,omitempty"`
	Mode   int      `json:"mode"`
}

const (
	c19MrtRoundTrip = iota
	c19MrtMutant
	c19MrtRaw
	c19MrtSweep
	c19MrtSplit
	c19MrtModes
)

var c19MrtModeNames = []string{"mode-roundtrip", "mode-mutant", "mode-raw", "mode-sweep", "mode-split"}

func drawC19Mrt(t *rapid.T) c19MrtCase {
	c := c19MrtCase{Mode: rapid.IntRange(0, c19MrtModes-1).Draw(t, "mode")}
	if c.Mode == c19MrtRaw || (c.Mode == c19MrtSplit && rapid.Bool().Draw(t, "rawsplit")) {
		c.Raw = rapid.SliceOfN(rapid.Byte(), 0, 120).Draw(t, "raw")
	}
	c.Recipe = rapid.SliceOfN(rapid.Uint32(), 40, 240).Draw(t, "recipe")
	return c
}

// ---------------------------------------------------------------------------
// helpers
// ---------------------------------------------------------------------------

func c19MrtGuarded(b []byte, poison byte) []byte {
	buf := make([]byte, len(b)+64)
	for i := range buf {
		buf[i] = poison
	}
	copy(buf[32:], b)
	return buf[32 : 32+len(b) : 32+len(b)]
}

// c19MrtSlack: b with spare capacity behind it; the hidden octets are chosen so that a header
// read out of them looks plausible (length wraps to len(b)).
func c19MrtSlack(b []byte) []byte {
	buf := make([]byte, len(b)+96)
	for i := range buf {
		buf[i] = 0
	}
	// absolute offsets 4..11 = type TABLE_DUMPv2, subtype 2, Length = 2^32-12+len(b)
	hid := []byte{0, 0, 0, 0, 0, 13, 0, 2, 0, 0, 0, 0}
	binary.BigEndian.PutUint32(hid[8:], uint32(len(b))-12)
	copy(buf, hid)
	for i := 12; i < len(buf); i++ {
		buf[i] = 0x01
	}
	copy(buf, b)
	return buf[:len(b)]
}

func c19MrtTail(n int, variant byte) []byte {
	t := make([]byte, n)
	x := uint32(0x2545f491)
	for i := range t {
		x ^= x << 13
		x ^= x >> 17
		x ^= x << 5
		t[i] = byte(x) & 0x0f
		if variant != 0 {
			t[i] ^= 0x0f
		}
	}
	return t
}

func c19MrtJSON(v any) string {
	b, err := json.Marshal(v)
	if err != nil {
		return "json-error: " + err.Error()
	}
	var x any
	if json.Unmarshal(b, &x) != nil {
		return string(b)
	}
	b, _ = json.Marshal(c19MrtCanon(x))
	return string(b)
}

func c19MrtCanon(x any) any {
	switch v := x.(type) {
	case []any:
		if len(v) == 0 {
			return nil
		}
		for i := range v {
			v[i] = c19MrtCanon(v[i])
		}
		return v
	case map[string]any:
		for k, e := range v {
			if c := c19MrtCanon(e); c == nil {
				delete(v, k)
			} else {
				v[k] = c
			}
		}
		if len(v) == 0 {
			return nil
		}
		return v
	case string:
		if v == "" {
			return nil
		}
	}
	return x
}

func c19MrtSafely(what string, f func()) (fail *verifkit.Failure) {
	defer func() {
		if r := recover(); r != nil {
			fail = verifkit.Failf("panic-"+what, "%s panicked: %v", what, r)
		}
	}()
	f()
	return nil
}

func c19MrtHdrLen(t MRTType) int {
	if t.HasExtendedTimestamp() {
		return 16
	}
	return MRT_COMMON_HEADER_LEN
}

var c19MrtTD2Names = map[MRTSubTypeTableDumpv2]string{
	PEER_INDEX_TABLE: "PEER_INDEX_TABLE", RIB_IPV4_UNICAST: "RIB_IPV4_UNICAST", RIB_IPV4_MULTICAST: "RIB_IPV4_MULTICAST",
	RIB_IPV6_UNICAST: "RIB_IPV6_UNICAST", RIB_IPV6_MULTICAST: "RIB_IPV6_MULTICAST", RIB_GENERIC: "RIB_GENERIC", GEO_PEER_TABLE: "GEO_PEER_TABLE",
	RIB_IPV4_UNICAST_ADDPATH: "RIB_IPV4_UNICAST_ADDPATH", RIB_IPV4_MULTICAST_ADDPATH: "RIB_IPV4_MULTICAST_ADDPATH",
	RIB_IPV6_UNICAST_ADDPATH: "RIB_IPV6_UNICAST_ADDPATH", RIB_IPV6_MULTICAST_ADDPATH: "RIB_IPV6_MULTICAST_ADDPATH", RIB_GENERIC_ADDPATH: "RIB_GENERIC_ADDPATH",
}

var c19MrtB4Names = map[MRTSubTypeBGP4MP]string{
	STATE_CHANGE: "STATE_CHANGE", MESSAGE: "MESSAGE", MESSAGE_AS4: "MESSAGE_AS4", STATE_CHANGE_AS4: "STATE_CHANGE_AS4",
	MESSAGE_LOCAL: "MESSAGE_LOCAL", MESSAGE_AS4_LOCAL: "MESSAGE_AS4_LOCAL", MESSAGE_ADDPATH: "MESSAGE_ADDPATH",
	MESSAGE_AS4_ADDPATH: "MESSAGE_AS4_ADDPATH", MESSAGE_LOCAL_ADDPATH: "MESSAGE_LOCAL_ADDPATH", MESSAGE_AS4_LOCAL_ADDPATH: "MESSAGE_AS4_LOCAL_ADDPATH",
}

func c19MrtSubName(t MRTType, st uint16) string {
	switch t {
	case TABLE_DUMPv2:
		if n, ok := c19MrtTD2Names[MRTSubTypeTableDumpv2(st)]; ok {
			return "TABLE_DUMPv2/" + n
		}
	case BGP4MP, BGP4MP_ET:
		if n, ok := c19MrtB4Names[MRTSubTypeBGP4MP(st)]; ok {
			if t == BGP4MP_ET {
				return "BGP4MP_ET/" + n
			}
			return "BGP4MP/" + n
		}
	}
	return ""
}

// ---------------------------------------------------------------------------
// generator
// ---------------------------------------------------------------------------

type c19MrtBuilt struct {
	msg     *MRTMessage
	name    string
	rich    bool            // embeds a BGP message or has >= 2 entries
	payload *bgp.BGPMessage // set when the record carries BGPMessagePayload instead of a message object
	issue   string          // KnownIssues key this shape is expected to trip (unmasked)
}

func c19MrtAS(s *verifgen.Src, as4 bool, st *verifkit.Stats, issue *string) uint32 {
	if as4 {
		return verifgen.ASN(s)
	}
	if s.Chance(1, 8) {
		// does not fit the 2-octet field: written as AS_TRANS (see c19MrtAS2OnWire)
		return 65536 + uint32(s.Intn(100000))
	}
	return uint32(verifgen.Pick(s, []int{65000, 1, 65535, 23456, 0, 64512}))
}

func c19MrtFloat(s *verifgen.Src) float32 {
	switch s.Intn(5) {
	case 0:
		return 0
	case 1:
		return float32(s.Intn(36000)-18000) / 100
	case 2:
		return -90
	case 3:
		return 179.999
	default:
		f := math.Float32frombits(s.U32())
		if f != f || math.IsInf(float64(f), 0) {
			return 1.5
		}
		return f
	}
}

func c19MrtPeerAddrs(s *verifgen.Src) (netip.Addr, netip.Addr) {
	if s.Bool() {
		a, b := s.V6(), s.V6()
		return a, b
	}
	return s.V4(), s.V4()
}

var c19MrtGenericFamilies []bgp.Family

func init() {
	for _, f := range verifgen.AllFamilies {
		switch f {
		case bgp.RF_IPv4_UC, bgp.RF_IPv4_MC, bgp.RF_IPv6_UC, bgp.RF_IPv6_MC:
		default:
			c19MrtGenericFamilies = append(c19MrtGenericFamilies, f)
		}
	}
}

func c19MrtRibEntries(s *verifgen.Src, f bgp.Family, prefix bgp.NLRI, addPath bool, st *verifkit.Stats, issue *string) []*RibEntry {
	n := 1 + s.Len(4)
	out := make([]*RibEntry, 0, n)
	for i := 0; i < n; i++ {
		id := uint32(0)
		if addPath {
			id = s.U32()
		}
		attrs := verifgen.AttrSet(s, true, 5)
		withMP := f != bgp.RF_IPv4_UC || s.Chance(1, 6)
		if withMP && s.Chance(5, 6) {
			// RFC 6396 4.3.4: MP_REACH_NLRI carries only the next hop; AFI/SAFI/NLRI are implied by the RIB header
			nhs := verifgen.MPNextHops(s, f)
			if mp, err := bgp.NewPathAttributeMpReachNLRI(f, []bgp.PathNLRI{{NLRI: prefix, ID: id}}, nhs...); err == nil {
				attrs = append(attrs, mp)
				if len(nhs) == 0 && st != nil {
					st.Label("rib-entry-mpreach-without-nexthop")
				}
			}
		}
		out = append(out, NewRibEntry(s.U16(), s.U32(), id, attrs, addPath))
	}
	return out
}

func c19MrtBuild(s *verifgen.Src, st *verifkit.Stats) c19MrtBuilt {
	var b c19MrtBuilt
	ts := time.Unix(int64(s.U32()), int64(s.Intn(1000000))*1000)
	var typ MRTType
	var sub MRTSubTyper
	var body Body
	switch s.Intn(8) {
	case 0: // PEER_INDEX_TABLE
		n := s.Len(6)
		if s.Chance(1, 20) {
			n = 300
		}
		peers := make([]*Peer, 0, n)
		for i := 0; i < n; i++ {
			as4 := s.Bool()
			as := uint32(s.U16())
			if as4 {
				as = verifgen.ASN(s)
			}
			ip := s.V4()
			if s.Bool() {
				ip = s.V6()
			}
			peers = append(peers, NewPeer(s.V4(), ip, as, as4))
		}
		view := ""
		switch s.Intn(4) {
		case 1:
			view = "view-" + fmt.Sprint(s.Intn(100))
		case 2:
			view = string(s.Bytes(s.Len(300)))
		}
		typ, sub, body = TABLE_DUMPv2, PEER_INDEX_TABLE, NewPeerIndexTable(s.V4(), view, peers)
		b.rich = n >= 2
	case 1, 2, 3: // RIB
		addPath := s.Bool()
		empty := s.Chance(1, 12) // a record without entries (NewRib cannot tell that it is an ADD-PATH one)
		if empty {
			addPath = false
		}
		var f bgp.Family
		var st2 MRTSubTypeTableDumpv2
		switch s.Intn(6) {
		case 0:
			f, st2 = bgp.RF_IPv4_UC, RIB_IPV4_UNICAST
		case 1:
			f, st2 = bgp.RF_IPv4_MC, RIB_IPV4_MULTICAST
		case 2:
			f, st2 = bgp.RF_IPv6_UC, RIB_IPV6_UNICAST
		case 3:
			f, st2 = bgp.RF_IPv6_MC, RIB_IPV6_MULTICAST
		default:
			f, st2 = verifgen.Pick(s, c19MrtGenericFamilies), RIB_GENERIC
			if verifgen.MaxNLRIPerAttr(f) == 1 {
				// opaque (gobgp's private key/value family) and ENCAP (known finding C04-K9) NLRI have no
				// framing of their own and cannot be followed by the entry list
				if st != nil {
					st.Exclude("generic-rib-unframed-nlri-" + f.String())
				}
				f = bgp.RF_IPv4_VPN
			}
		}
		if addPath {
			st2 += 6
		}
		prefix := verifgen.NLRI(s, f)
		entries := c19MrtRibEntries(s, f, prefix, addPath, st, &b.issue)
		if empty {
			entries = nil
			if st != nil {
				st.Label("rib-without-entries")
			}
		}
		typ, sub, body = TABLE_DUMPv2, st2, NewRib(s.U32(), f, prefix, entries)
		b.rich = len(entries) >= 2
		if st != nil {
			st.Label("rib-family-" + f.String())
		}
	case 4: // GEO_PEER_TABLE
		n := s.Len(5)
		peers := make([]*GeoPeer, 0, n)
		for i := 0; i < n; i++ {
			p, _ := NewGeoPeer(s.V4(), c19MrtFloat(s), c19MrtFloat(s))
			peers = append(peers, p)
		}
		t, _ := NewGeoPeerTable(s.V4(), c19MrtFloat(s), c19MrtFloat(s), peers)
		typ, sub, body = TABLE_DUMPv2, GEO_PEER_TABLE, t
		b.rich = n >= 2
	case 5: // BGP4MP state change
		as4 := s.Bool()
		pa, la := c19MrtPeerAddrs(s)
		sc, _ := NewBGP4MPStateChange(c19MrtAS(s, as4, st, &b.issue), c19MrtAS(s, as4, st, &b.issue), s.U16(), pa, la, as4,
			BGPState(verifgen.Pick(s, []int{1, 2, 3, 4, 5, 6, 0, 7, 65535})), BGPState(1+s.Intn(6)))
		typ, body = BGP4MP, sc
		sub = STATE_CHANGE
		if as4 {
			sub = STATE_CHANGE_AS4
		}
	default: // BGP4MP message
		as4, local, addPath := s.Bool(), s.Bool(), s.Bool()
		pa, la := c19MrtPeerAddrs(s)
		msg, fams := verifgen.Message(s)
		ctor := NewBGP4MPMessage
		sub = MESSAGE
		switch {
		case local && addPath:
			ctor, sub = NewBGP4MPMessageLocalAddPath, MESSAGE_LOCAL_ADDPATH
		case local:
			ctor, sub = NewBGP4MPMessageLocal, MESSAGE_LOCAL
		case addPath:
			ctor, sub = NewBGP4MPMessageAddPath, MESSAGE_ADDPATH
		}
		if as4 {
			sub = map[MRTSubTypeBGP4MP]MRTSubTypeBGP4MP{MESSAGE: MESSAGE_AS4, MESSAGE_LOCAL: MESSAGE_AS4_LOCAL, MESSAGE_ADDPATH: MESSAGE_AS4_ADDPATH, MESSAGE_LOCAL_ADDPATH: MESSAGE_AS4_LOCAL_ADDPATH}[sub.(MRTSubTypeBGP4MP)]
		}
		// ADD-PATH sub-types announce a BGP message whose NLRI carry path identifiers (RFC 8050)
		var opt *bgp.MarshallingOption
		if addPath && len(fams) > 0 {
			opt = &bgp.MarshallingOption{AddPath: map[bgp.Family]bgp.BGPAddPathMode{}}
			for _, f := range fams {
				opt.AddPath[f] = bgp.BGP_ADD_PATH_BOTH
			}
			if st != nil {
				st.Label("bgp4mp-addpath-encoded")
			}
		}
		verifgen.NormalisePathIDs(msg, opt)
		if !as4 {
			// the sub-types without AS4 hold the message of a session without the 4-octet-AS capability
			// (RFC 6396 4.4.2): its AS_PATH and AGGREGATOR carry 2-octet AS numbers
			verifgen.FitTo2ByteAS(msg)
			if opt == nil {
				opt = &bgp.MarshallingOption{}
			}
			opt.Use2ByteAS = true
		}
		m, _ := ctor(c19MrtAS(s, as4, st, &b.issue), c19MrtAS(s, as4, st, &b.issue), s.U16(), pa, la, as4, msg)
		if s.Chance(1, 3) {
			// the form the daemon writes: the received octets, no message object
			var pb []byte
			var err error
			if opt != nil {
				pb, err = msg.Serialize(opt)
			} else {
				pb, err = msg.Serialize()
			}
			if err == nil {
				m.BGPMessage, m.BGPMessagePayload = nil, pb
				b.payload = msg
				if st != nil {
					st.Label("bgp4mp-payload-form")
				}
			}
		}
		typ, body = BGP4MP, m
		b.rich = true
		if s.Chance(1, 6) {
			if KnownIssues["mrt-et-not-parsed"] {
				if st != nil {
					st.Exclude("mrt-et-not-parsed")
				}
			} else {
				typ = BGP4MP_ET
				if b.issue == "" {
					b.issue = "mrt-et-not-parsed"
				}
			}
		}
		if st != nil {
			st.Label("bgp4mp-embeds-" + c19MrtMsgKind(msg))
		}
	}
	b.msg, _ = NewMRTMessage(ts, typ, sub, body)
	b.name = c19MrtSubName(typ, sub.ToUint16())
	return b
}

func c19MrtMsgKind(m *bgp.BGPMessage) string {
	switch m.Body.(type) {
	case *bgp.BGPOpen:
		return "open"
	case *bgp.BGPUpdate:
		return "update"
	case *bgp.BGPNotification:
		return "notification"
	case *bgp.BGPKeepAlive:
		return "keepalive"
	case *bgp.BGPRouteRefresh:
		return "route-refresh"
	}
	return "other"
}

// ---------------------------------------------------------------------------
// round trip
// ---------------------------------------------------------------------------

func c19MrtBodyString(b Body) string {
	if sc, ok := b.(*BGP4MPStateChange); ok && sc.BGP4MPHeader != nil {
		return fmt.Sprintf("STATE_CHANGE %+v old %d new %d", *sc.BGP4MPHeader, sc.OldState, sc.NewState)
	}
	// (BGP messages and some attributes have no String method, so the package's own String() of
	// records that embed them prints pointers; render the unexported flags JSON does not show)
	switch x := b.(type) {
	case *BGP4MPMessage:
		if x.BGP4MPHeader != nil {
			return fmt.Sprintf("MESSAGE %+v local=%v addpath=%v", *x.BGP4MPHeader, x.isLocal, x.isAddPath)
		}
	case *Rib:
		r := fmt.Sprintf("RIB seq %d family %s addpath=%v prefix %s", x.SequenceNumber, x.Family, x.isAddPath, x.Prefix)
		for _, e := range x.Entries {
			r += fmt.Sprintf(" [%d %d %d addpath=%v %d attrs]", e.PeerIndex, e.OriginatedTime, e.PathIdentifier, e.isAddPath, len(e.PathAttributes))
		}
		return r
	case *PeerIndexTable:
		return x.String()
	case *GeoPeerTable:
		return x.String()
	}
	return fmt.Sprintf("%T", b)
}

// c19MrtAS2OnWire: the 2-octet-AS sub-types carry AS_TRANS for an AS number that does not fit
// (RFC 6793); after serialisation the constructed value is rewritten to what the wire says.
func c19MrtAS2OnWire(body Body) {
	var h *BGP4MPHeader
	switch x := body.(type) {
	case *BGP4MPStateChange:
		h = x.BGP4MPHeader
	case *BGP4MPMessage:
		h = x.BGP4MPHeader
	}
	if h == nil || h.isAS4 {
		return
	}
	if h.PeerAS > 65535 {
		h.PeerAS = bgp.AS_TRANS
	}
	if h.LocalAS > 65535 {
		h.LocalAS = bgp.AS_TRANS
	}
}

func c19MrtRoundTripCheck(b c19MrtBuilt, st *verifkit.Stats) *verifkit.Failure {
	known := func(f *verifkit.Failure) *verifkit.Failure {
		// a shape generated only while its issue is unmasked keeps the issue's name in the signature
		if b.issue != "" {
			f.Sig = b.issue + ":" + f.Sig
		}
		return f
	}
	st.Label("rt-" + b.name)
	var wire []byte
	var err error
	if f := c19MrtSafely("serialize", func() { wire, err = b.msg.Serialize() }); f != nil {
		return known(f)
	}
	if err != nil {
		if bm, ok := b.msg.Body.(*BGP4MPMessage); ok && bm.BGPMessage != nil {
			if _, berr := bm.BGPMessage.Serialize(); berr != nil {
				st.Label("over-limit")
				return nil // the embedded BGP message exceeds 4096 octets: not constructible as a record
			}
		}
		return known(verifkit.Failf("serialize", "%s does not serialise: %v", b.name, err))
	}
	c19MrtAS2OnWire(b.msg.Body)
	keep := append([]byte{}, wire...)
	hl := c19MrtHdrLen(b.msg.Header.Type)
	if len(wire) < hl || int(b.msg.Header.Len) != len(wire)-hl {
		return known(verifkit.Failf("length-field", "%s: %d octets on the wire, header Length %d, header size %d", b.name, len(wire), b.msg.Header.Len, hl))
	}
	g := c19MrtGuarded(wire, 0xaa)
	var h *MRTHeader
	if f := c19MrtSafely("ParseHeader", func() { h, err = ParseHeader(g) }); f != nil {
		return known(f)
	}
	if err != nil {
		return known(verifkit.Failf("reparse-header", "%s: serialised header %x does not parse: %v", b.name, wire[:hl], err))
	}
	if *h != b.msg.Header {
		return known(verifkit.Failf("header-not-equal", "%s: parsed header %+v, constructed %+v", b.name, *h, b.msg.Header))
	}
	var p *MRTMessage
	if f := c19MrtSafely("ParseBody", func() { p, err = ParseBody(g[hl:], h) }); f != nil {
		f.Msg += fmt.Sprintf(" (%s, wire %x)", b.name, wire)
		return known(f)
	}
	if err != nil {
		return known(verifkit.Failf("reparse", "%s does not parse back: %v\n constructed %s\n wire %x", b.name, err, c19MrtBodyString(b.msg.Body), wire))
	}
	if !bytes.Equal(g, keep) {
		return verifkit.Failf("input-modified", "%s: parsing modified the caller's buffer", b.name)
	}
	if fmt.Sprintf("%T", p.Body) != fmt.Sprintf("%T", b.msg.Body) {
		return known(verifkit.Failf("not-equal", "%s parses back as %T", b.name, p.Body))
	}
	if b.payload != nil {
		pm := p.Body.(*BGP4MPMessage)
		cm := b.msg.Body.(*BGP4MPMessage)
		if j1, j2 := c19MrtJSON(cm.BGP4MPHeader), c19MrtJSON(pm.BGP4MPHeader); j1 != j2 {
			return known(verifkit.Failf("not-equal", "%s: BGP4MP header differs:\n constructed %s\n parsed      %s", b.name, j1, j2))
		}
		if j1, j2 := c19MrtJSON(b.payload), c19MrtJSON(pm.BGPMessage); j1 != j2 {
			return known(verifkit.Failf("not-equal", "%s: the BGP message in the payload is decoded differently:\n written %s\n parsed  %s\n wire %x", b.name, j1, j2, wire))
		}
	} else {
		if j1, j2 := c19MrtJSON(b.msg.Body), c19MrtJSON(p.Body); j1 != j2 {
			return known(verifkit.Failf("not-equal", "parsed %s differs from the constructed one:\n constructed %s\n parsed      %s\n wire %x", b.name, j1, j2, wire))
		}
		if s1, s2 := c19MrtBodyString(b.msg.Body), c19MrtBodyString(p.Body); s1 != s2 {
			return known(verifkit.Failf("not-equal-string", "parsed %s renders differently:\n constructed %s\n parsed      %s", b.name, s1, s2))
		}
	}
	var wire2 []byte
	if f := c19MrtSafely("re-serialize", func() { wire2, err = p.Serialize() }); f != nil {
		return known(f)
	}
	if err != nil || !bytes.Equal(keep, wire2) {
		return known(verifkit.Failf("fixpoint", "parsed %s re-serialises differently (%v):\n first  %x\n second %x", b.name, err, keep, wire2))
	}
	// the stream reader's view: SplitMrt must frame exactly this record when more data follows
	stream := append(append([]byte{}, wire...), 0, 0, 0, 1, 0, 13, 0, 1, 0, 0, 0, 0)
	var adv int
	var tok []byte
	if f := c19MrtSafely("SplitMrt", func() { adv, tok, err = SplitMrt(c19MrtGuarded(stream, 0x11), false) }); f != nil {
		return known(f)
	}
	if err != nil || adv != len(wire) || !bytes.Equal(tok, wire) {
		return known(verifkit.Failf("split-mismatch", "SplitMrt on a stream starting with this %s (%d octets) returns advance %d, token of %d octets, err %v", b.name, len(wire), adv, len(tok), err))
	}
	st.SubEval(4)
	if b.rich {
		st.Nontrivial()
	}
	return nil
}

// ---------------------------------------------------------------------------
// decode safety
// ---------------------------------------------------------------------------

func c19MrtBodyOutcome(m *MRTMessage, err error) string {
	if err != nil {
		return "error: " + err.Error()
	}
	if m == nil {
		return "nil"
	}
	return fmt.Sprintf("%T %s", m.Body, c19MrtJSON(m.Body))
}

func c19MrtParseBody(body []byte, h *MRTHeader) (m *MRTMessage, err error, fail *verifkit.Failure) {
	fail = c19MrtSafely("ParseBody", func() { m, err = ParseBody(body, h) })
	if fail != nil {
		fail.Msg += fmt.Sprintf(" (type %d subtype %d Length %d body %x)", h.Type, h.SubType, h.Len, body)
	}
	return
}

// c19MrtCheckRecord: ParseHeader on the input, then ParseBody on the declared body.
func c19MrtCheckRecord(in []byte, st *verifkit.Stats) *verifkit.Failure {
	g := c19MrtGuarded(in, 0xaa)
	keep := append([]byte{}, g...)
	var h *MRTHeader
	var herr error
	if f := c19MrtSafely("ParseHeader", func() { h, herr = ParseHeader(g) }); f != nil {
		f.Msg += fmt.Sprintf(" (input %x)", in)
		return f
	}
	st.SubEval(1)
	// spare capacity must not matter
	var h2 *MRTHeader
	var herr2 error
	if f := c19MrtSafely("ParseHeader", func() { h2, herr2 = ParseHeader(c19MrtSlack(in)) }); f != nil {
		return f
	}
	if (herr == nil) != (herr2 == nil) || (herr == nil && *h != *h2) {
		return verifkit.Failf("reads-beyond-len", "ParseHeader(%x) depends on the spare capacity behind the slice: %v/%v", in, herr, herr2)
	}
	if herr != nil {
		st.Label("header-error")
		return nil
	}
	hl := c19MrtHdrLen(h.Type)
	body := g[hl:]
	if uint64(h.Len) > uint64(len(body)) {
		// a reader would wait for more data; ParseBody must refuse
		_, err, f := c19MrtParseBody(body, h)
		if f != nil {
			return f
		}
		if err == nil && c19MrtSubName(h.Type, h.SubType) != "" {
			st.Label("short-body-accepted")
		}
		st.Label("body-short")
		return nil
	}
	name := c19MrtSubName(h.Type, h.SubType)
	if name == "" || h.Type == BGP4MP_ET {
		st.Label("type-unsupported")
	} else {
		st.Nontrivial()
		st.Label("dec-" + name)
	}
	declared := body[:h.Len:h.Len]
	m, err, f := c19MrtParseBody(declared, h)
	if f != nil {
		return f
	}
	if !bytes.Equal(g, keep) {
		return verifkit.Failf("input-modified", "parsing modified the caller's buffer: %x -> %x", keep, g)
	}
	if name != "" {
		st.Key(fmt.Sprintf("dec/%s/%v/%d", name, err == nil, len(in)%16))
		if err == nil {
			st.Label("body-ok")
		} else {
			st.Label("body-error")
		}
	}
	// body followed by two different tails
	ta := append(append([]byte{}, declared...), c19MrtTail(48, 0)...)
	tb := append(append([]byte{}, declared...), c19MrtTail(48, 1)...)
	ma, ea, f := c19MrtParseBody(c19MrtGuarded(ta, 0x55), h)
	if f != nil {
		return f
	}
	mb, eb, f := c19MrtParseBody(c19MrtGuarded(tb, 0x33), h)
	if f != nil {
		return f
	}
	if a, b := c19MrtBodyOutcome(ma, ea), c19MrtBodyOutcome(mb, eb); a != b {
		return verifkit.Failf("depends-on-trailing-bytes", "%s body %x (header Length %d) decodes differently depending on the bytes that follow it:\n %s\n %s", name, []byte(declared), h.Len, a, b)
	}
	_ = m
	return nil
}

// c19MrtCheckSplit: SplitMrt as a function, and driven by a bufio.Scanner.
func c19MrtCheckSplit(in []byte, st *verifkit.Stats) *verifkit.Failure {
	for _, eof := range []bool{false, true} {
		g := c19MrtGuarded(in, 0xaa)
		keep := append([]byte{}, g...)
		var adv int
		var tok []byte
		var err error
		if f := c19MrtSafely("SplitMrt", func() { adv, tok, err = SplitMrt(g, eof) }); f != nil {
			f.Msg += fmt.Sprintf(" (input %x)", in)
			return f
		}
		st.SubEval(1)
		if !bytes.Equal(g, keep) {
			return verifkit.Failf("input-modified", "SplitMrt modified the caller's buffer")
		}
		if adv < 0 || adv > len(in) || len(tok) > len(in) {
			return verifkit.Failf("split-bounds", "SplitMrt(%d octets) returns advance %d and a token of %d octets", len(in), adv, len(tok))
		}
		if len(tok) > 0 && (&tok[0] != &g[0]) {
			return verifkit.Failf("split-token-not-prefix", "the token is not a prefix of the data")
		}
		if err == nil && tok != nil {
			st.Label("split-token")
			if len(tok) < MRT_COMMON_HEADER_LEN || adv != len(tok) {
				return verifkit.Failf("split-short-token", "SplitMrt(%x) returns advance %d and a token of %d octets (shorter than a header)", in, adv, len(tok))
			}
		} else if err != nil {
			st.Label("split-error")
		} else {
			st.Label("split-more")
		}
		// spare capacity behind the data
		var adv2 int
		var tok2 []byte
		var err2 error
		if f := c19MrtSafely("SplitMrt", func() { adv2, tok2, err2 = SplitMrt(c19MrtSlack(in), eof) }); f != nil {
			return f
		}
		if adv != adv2 || len(tok) != len(tok2) || (tok == nil) != (tok2 == nil) || (err == nil) != (err2 == nil) {
			return verifkit.Failf("reads-beyond-len", "SplitMrt on %d octets %x depends on the spare capacity behind the slice: (%d, %d octets, %v) vs (%d, %d octets, %v)", len(in), in, adv, len(tok), err, adv2, len(tok2), err2)
		}
	}
	// a Scanner over the input must terminate
	var fail *verifkit.Failure
	func() {
		defer func() {
			if r := recover(); r != nil {
				fail = verifkit.Failf("scanner-panic", "bufio.Scanner with SplitMrt over %x panicked: %v", in, r)
			}
		}()
		sc := bufio.NewScanner(bytes.NewReader(in))
		sc.Buffer(make([]byte, 0, 64), 1<<20)
		sc.Split(SplitMrt)
		n, total := 0, 0
		for sc.Scan() {
			n++
			total += len(sc.Bytes())
			if n > len(in)+2 {
				fail = verifkit.Failf("scanner-no-progress", "bufio.Scanner with SplitMrt over %x keeps returning tokens without consuming input", in)
				return
			}
		}
		if total > len(in) {
			fail = verifkit.Failf("split-bounds", "tokens of %d octets out of %d octets of input", total, len(in))
		}
		st.LabelN("scanner-tokens", n)
	}()
	return fail
}

func c19MrtFix(b []byte) {
	if len(b) >= 12 {
		hl := c19MrtHdrLen(MRTType(binary.BigEndian.Uint16(b[4:6])))
		if len(b) >= hl {
			binary.BigEndian.PutUint32(b[8:12], uint32(len(b)-hl))
		}
	}
}

var c19MrtSubtypes = [][2]uint16{
	{13, 1}, {13, 2}, {13, 3}, {13, 4}, {13, 5}, {13, 6}, {13, 7}, {13, 8}, {13, 9}, {13, 10}, {13, 11}, {13, 12}, {13, 0}, {13, 13},
	{16, 0}, {16, 1}, {16, 4}, {16, 5}, {16, 6}, {16, 7}, {16, 8}, {16, 9}, {16, 10}, {16, 11}, {16, 2}, {16, 12},
	{17, 4}, {12, 1}, {0, 0}, {33, 0}, {49, 0}, {65535, 65535},
}

func c19MrtMutate(s *verifgen.Src, wire, other []byte) []byte {
	b := append([]byte{}, wire...)
	n := 1 + s.Intn(3)
	fix := s.Chance(3, 4)
	for k := 0; k < n && len(b) > 0; k++ {
		switch s.Intn(11) {
		case 0:
			b = b[:s.Intn(len(b)+1)]
		case 1:
			b = append(b, s.Bytes(1+s.Intn(16))...)
		case 2:
			b[s.Intn(len(b))] ^= 1 << uint(s.Intn(8))
		case 3:
			b[s.Intn(len(b))] = verifgen.Pick(s, []byte{0, 1, 2, 3, 4, 0x7f, 0x80, 0xfe, 0xff, 24, 32, 33, 128, 129})
		case 4:
			if len(b) >= 2 {
				binary.BigEndian.PutUint16(b[s.Intn(len(b)-1):], verifgen.Pick(s, []uint16{0, 1, 0xffff, 0xfffe, uint16(len(b)), uint16(len(b) + 1), uint16(len(b) - 1)}))
			}
		case 5:
			if len(b) >= 4 {
				binary.BigEndian.PutUint32(b[s.Intn(len(b)-3):], verifgen.Pick(s, []uint32{0, 1, 0xffffffff, 0xfffffff4, 0x80000000, uint32(len(b)), uint32(len(b) + 1), uint32(len(b) - 1)}))
			}
		case 6: // hostile header Length
			if len(b) >= 12 {
				binary.BigEndian.PutUint32(b[8:12], verifgen.Pick(s, []uint32{0, 1, 0xffffffff, 0xfffffff4, 0xfffffff5, 0xfffffff3, uint32(len(b) - 12 + 1), uint32(len(b) - 12 - 1), uint32(len(b))}))
				fix = false
			}
		case 7: // another (sub-)type over the same body
			if len(b) >= 8 {
				ts := verifgen.Pick(s, c19MrtSubtypes)
				binary.BigEndian.PutUint16(b[4:6], ts[0])
				binary.BigEndian.PutUint16(b[6:8], ts[1])
			}
		case 8: // splice a chunk of another record
			if len(other) > 12 {
				i := 12 + s.Intn(len(other)-12)
				j := i + s.Intn(len(other)-i+1)
				at := s.Intn(len(b) + 1)
				b = append(b[:at:at], append(append([]byte{}, other[i:j]...), b[at:]...)...)
			}
		case 9: // hostile 16-bit count/length somewhere in the first octets of the body
			if len(b) >= 30 {
				binary.BigEndian.PutUint16(b[12+s.Intn(16):], verifgen.Pick(s, []uint16{0, 1, 2, 0xffff, 0x7fff, uint16(len(b) - 12), uint16(len(b))}))
			}
		default:
			i := s.Intn(len(b))
			j := i + s.Intn(min(8, len(b)-i)+1)
			for x := i; x < j; x++ {
				b[x] = verifgen.Pick(s, []byte{0, 0xff})
			}
		}
		if len(b) > 70000 {
			b = b[:70000]
		}
	}
	if fix {
		c19MrtFix(b)
	}
	return b
}

// c19MrtHandRib assembles a TABLE_DUMPv2 RIB record of any family octet by octet from RFC 6396 /
// RFC 8050 (independently of Rib.Serialize, which is subject to known issues), so that the
// decoders of every RIB sub-type see well-formed input.
func c19MrtHandRib(s *verifgen.Src) []byte {
	w, _, _ := c19MrtHandRibFull(s, false)
	return w
}

// c19MrtHandRibFull also returns the Rib the octets encode and the record's sub-type name; framed
// restricts the GENERIC families to those whose NLRI is self-delimiting.
func c19MrtHandRibFull(s *verifgen.Src, framed bool) ([]byte, *Rib, string) {
	addPath := s.Bool()
	var f bgp.Family
	var sub uint16
	generic := false
	switch s.Intn(6) {
	case 0:
		f, sub = bgp.RF_IPv4_UC, uint16(RIB_IPV4_UNICAST)
	case 1:
		f, sub = bgp.RF_IPv4_MC, uint16(RIB_IPV4_MULTICAST)
	case 2:
		f, sub = bgp.RF_IPv6_UC, uint16(RIB_IPV6_UNICAST)
	case 3:
		f, sub = bgp.RF_IPv6_MC, uint16(RIB_IPV6_MULTICAST)
	default:
		f, sub, generic = verifgen.Pick(s, c19MrtGenericFamilies), uint16(RIB_GENERIC), true
		if framed && verifgen.MaxNLRIPerAttr(f) == 1 {
			f = bgp.RF_IPv6_VPN
		}
	}
	if addPath {
		sub += 6
	}
	prefix := verifgen.NLRI(s, f)
	pb, err := prefix.Serialize()
	if err != nil {
		return nil, nil, ""
	}
	seq := s.U32()
	body := binary.BigEndian.AppendUint32(nil, seq)
	if generic {
		body = binary.BigEndian.AppendUint16(body, f.Afi())
		body = append(body, f.Safi())
	}
	body = append(body, pb...)
	entries := c19MrtRibEntries(s, f, prefix, addPath, nil, nil)
	body = binary.BigEndian.AppendUint16(body, uint16(len(entries)))
	for _, e := range entries {
		eb, err := e.Serialize()
		if err != nil {
			return nil, nil, ""
		}
		body = append(body, eb...)
	}
	w := binary.BigEndian.AppendUint32(nil, s.U32())
	w = binary.BigEndian.AppendUint16(w, uint16(TABLE_DUMPv2))
	w = binary.BigEndian.AppendUint16(w, sub)
	w = binary.BigEndian.AppendUint32(w, uint32(len(body)))
	return append(w, body...), NewRib(seq, f, prefix, entries), c19MrtSubName(TABLE_DUMPv2, sub)
}

// c19MrtHandRoundTrip: the decoding half of the round trip for every RIB sub-type and family,
// against the RFC 6396 encoding assembled by hand (Rib.Serialize is subject to known issues, which
// would otherwise leave the IPv6 / multicast / generic decoders without an equality check).
func c19MrtHandRoundTrip(s *verifgen.Src, st *verifkit.Stats) *verifkit.Failure {
	wire, rib, name := c19MrtHandRibFull(s, true)
	if wire == nil {
		return nil
	}
	st.Label("rt-hand-encoded-" + name)
	st.Label("rt-hand-encoded-family-" + rib.Family.String())
	g := c19MrtGuarded(wire, 0xaa)
	var h *MRTHeader
	var p *MRTMessage
	var err error
	if f := c19MrtSafely("ParseHeader", func() { h, err = ParseHeader(g) }); f != nil {
		return f
	}
	if err != nil {
		return verifkit.Failf("hand-reparse-header", "%s: header does not parse: %v", name, err)
	}
	if f := c19MrtSafely("ParseBody", func() { p, err = ParseBody(g[MRT_COMMON_HEADER_LEN:], h) }); f != nil {
		f.Msg += fmt.Sprintf(" (%s, wire %x)", name, wire)
		return f
	}
	if err != nil {
		return verifkit.Failf("hand-reparse", "an RFC 6396 %s record of family %s does not parse: %v\n encodes %s\n wire %x", name, rib.Family, err, c19MrtBodyString(rib), wire)
	}
	pr, ok := p.Body.(*Rib)
	if !ok {
		return verifkit.Failf("hand-not-equal", "%s parses as %T", name, p.Body)
	}
	if j1, j2 := c19MrtJSON(rib), c19MrtJSON(pr); j1 != j2 {
		return verifkit.Failf("hand-not-equal", "an RFC 6396 %s record decodes to a different RIB:\n encoded %s\n decoded %s\n wire %x", name, j1, j2, wire)
	}
	if s1, s2 := c19MrtBodyString(rib), c19MrtBodyString(pr); s1 != s2 {
		return verifkit.Failf("hand-not-equal-string", "an RFC 6396 %s record decodes to a different RIB:\n encoded %s\n decoded %s", name, s1, s2)
	}
	st.SubEval(2)
	if len(rib.Entries) >= 2 {
		st.Nontrivial()
	}
	return nil
}

// ---------------------------------------------------------------------------
// probes: deterministic reproducers, one per finding (fixed or open); Sig = the key
// ---------------------------------------------------------------------------

func c19MrtProbeAttrs() []bgp.PathAttributeInterface {
	return []bgp.PathAttributeInterface{
		bgp.NewPathAttributeOrigin(0),
		bgp.NewPathAttributeAsPath([]bgp.AsPathParamInterface{bgp.NewAs4PathParam(2, []uint32{65001, 65002})}),
	}
}

// c19MrtProbeReparse serialises a record and parses it back (header and body).
func c19MrtProbeReparse(key string, typ MRTType, sub MRTSubTyper, body Body) (*MRTMessage, []byte, *verifkit.Failure) {
	m, err := NewMRTMessage(time.Unix(1700000000, 0), typ, sub, body)
	if err != nil {
		return nil, nil, verifkit.Failf(key, "NewMRTMessage: %v", err)
	}
	var wire []byte
	if f := c19MrtSafely("serialize", func() { wire, err = m.Serialize() }); f != nil {
		f.Sig = key
		return nil, nil, f
	}
	if err != nil {
		return nil, nil, verifkit.Failf(key, "the record does not serialise: %v", err)
	}
	h, err := ParseHeader(wire)
	if err != nil {
		return nil, wire, verifkit.Failf(key, "the serialised header does not parse: %v (wire %x)", err, wire)
	}
	var p *MRTMessage
	if f := c19MrtSafely("ParseBody", func() { p, err = ParseBody(wire[c19MrtHdrLen(h.Type):], h) }); f != nil {
		f.Sig = key
		return nil, wire, f
	}
	if err != nil {
		return nil, wire, verifkit.Failf(key, "the serialised record does not parse back: %v (wire %x)", err, wire)
	}
	return p, wire, nil
}

var c19MrtProbes = map[string]func() *verifkit.Failure{
	// Rib.Serialize wrote AFI/SAFI for exactly the wrong families.
	"mrt-rib-afi-safi-inverted": func() *verifkit.Failure {
		const key = "mrt-rib-afi-safi-inverted"
		prefix, _ := bgp.NewIPAddrPrefix(netip.MustParsePrefix("2001:db8::/32"))
		e := NewRibEntry(1, 100, 0, c19MrtProbeAttrs(), false)
		p, wire, f := c19MrtProbeReparse(key, TABLE_DUMPv2, RIB_IPV6_UNICAST, NewRib(1, bgp.RF_IPv6_UC, prefix, []*RibEntry{e}))
		if f != nil {
			return f
		}
		if got := p.Body.(*Rib).Prefix.String(); got != "2001:db8::/32" {
			return verifkit.Failf(key, "RIB_IPV6_UNICAST record for 2001:db8::/32 parses back with prefix %s (wire %x)", got, wire)
		}
		rd := bgp.NewRouteDistinguisherTwoOctetAS(65000, 1)
		vpn, _ := bgp.NewLabeledVPNIPAddrPrefix(netip.MustParsePrefix("10.1.0.0/16"), *bgp.NewMPLSLabelStack(100), rd)
		p, wire, f = c19MrtProbeReparse(key, TABLE_DUMPv2, RIB_GENERIC, NewRib(2, bgp.RF_IPv4_VPN, vpn, []*RibEntry{e}))
		if f != nil {
			return f
		}
		if got := p.Body.(*Rib).Prefix.String(); got != vpn.String() {
			return verifkit.Failf(key, "RIB_GENERIC record for VPNv4 %s parses back with prefix %s (wire %x)", vpn, got, wire)
		}
		return nil
	},
	// parseRib dropped the AFI/SAFI it read from a RIB_GENERIC body.
	"mrt-rib-generic-family-lost": func() *verifkit.Failure {
		const key = "mrt-rib-generic-family-lost"
		rd := bgp.NewRouteDistinguisherTwoOctetAS(65000, 1)
		vpn, _ := bgp.NewLabeledVPNIPAddrPrefix(netip.MustParsePrefix("10.1.0.0/16"), *bgp.NewMPLSLabelStack(100), rd)
		pb, _ := vpn.Serialize()
		body := []byte{0, 0, 0, 7, 0, 1, 128} // sequence 7, AFI 1, SAFI 128
		body = append(body, pb...)
		body = append(body, 0, 0) // no entries
		h := &MRTHeader{Type: TABLE_DUMPv2, SubType: uint16(RIB_GENERIC), Len: uint32(len(body))}
		m, err := ParseBody(body, h)
		if err != nil {
			return verifkit.Failf(key, "hand-encoded RIB_GENERIC VPNv4 record %x does not parse: %v", body, err)
		}
		if fam := m.Body.(*Rib).Family; fam != bgp.RF_IPv4_VPN {
			return verifkit.Failf(key, "RIB_GENERIC record with AFI 1 SAFI 128 parses to a Rib with Family %d (%s)", uint32(fam), fam)
		}
		return nil
	},
	// MP_REACH_NLRI in MRT form without next hop (one octet) was rejected by the decoder.
	"mrt-mpreach-without-nexthop": func() *verifkit.Failure {
		const key = "mrt-mpreach-without-nexthop"
		dst, _ := bgp.NewIPAddrPrefix(netip.MustParsePrefix("192.0.2.0/24"))
		fs, err := bgp.NewFlowSpecUnicast(bgp.RF_FS_IPv4_UC, []bgp.FlowSpecComponentInterface{bgp.NewFlowSpecDestinationPrefix(dst)})
		if err != nil {
			return verifkit.Failf(key, "flowspec NLRI: %v", err)
		}
		mp, err := bgp.NewPathAttributeMpReachNLRI(bgp.RF_FS_IPv4_UC, []bgp.PathNLRI{{NLRI: fs}})
		if err != nil {
			return verifkit.Failf(key, "MP_REACH_NLRI: %v", err)
		}
		e := NewRibEntry(1, 100, 0, append(c19MrtProbeAttrs(), mp), false)
		p, wire, f := c19MrtProbeReparse(key, TABLE_DUMPv2, RIB_GENERIC, NewRib(1, bgp.RF_FS_IPv4_UC, fs, []*RibEntry{e}))
		if f != nil {
			return f
		}
		if r := p.Body.(*Rib); len(r.Entries) != 1 || len(r.Entries[0].PathAttributes) != 3 {
			return verifkit.Failf(key, "the FlowSpec RIB entry parses back differently (wire %x)", wire)
		}
		return nil
	},
	// (open) extended-timestamp records are constructible but not parseable.
	"mrt-et-not-parsed": func() *verifkit.Failure {
		const key = "mrt-et-not-parsed"
		ip1, ip2 := netip.MustParseAddr("10.0.0.1"), netip.MustParseAddr("10.0.0.2")
		bm, _ := NewBGP4MPMessage(65001, 65002, 0, ip1, ip2, true, bgp.NewBGPKeepAliveMessage())
		_, wire, f := c19MrtProbeReparse(key, BGP4MP_ET, MESSAGE_AS4, bm)
		if f != nil {
			return f
		}
		stream := append(append([]byte{}, wire...), wire...)
		adv, tok, err := SplitMrt(stream, false)
		if err != nil || adv != len(wire) || len(tok) != len(wire) {
			return verifkit.Failf(key, "SplitMrt on a stream of two BGP4MP_ET records of %d octets returns advance %d, token of %d octets, err %v", len(wire), adv, len(tok), err)
		}
		return nil
	},
	// BGP4MP *_ADDPATH sub-types were encoded / decoded without path identifiers.
	"mrt-bgp4mp-addpath-ignored": func() *verifkit.Failure {
		const key = "mrt-bgp4mp-addpath-ignored"
		ip1, ip2 := netip.MustParseAddr("10.0.0.1"), netip.MustParseAddr("10.0.0.2")
		nlri, _ := bgp.NewIPAddrPrefix(netip.MustParsePrefix("10.0.0.0/24"))
		nh, _ := bgp.NewPathAttributeNextHop(ip1)
		upd := bgp.NewBGPUpdateMessage(nil, append(c19MrtProbeAttrs(), nh), []bgp.PathNLRI{{NLRI: nlri, ID: 5}})
		bm, _ := NewBGP4MPMessageAddPath(65001, 65002, 0, ip1, ip2, true, upd)
		p, wire, f := c19MrtProbeReparse(key, BGP4MP, MESSAGE_AS4_ADDPATH, bm)
		if f != nil {
			return f
		}
		pu, ok := p.Body.(*BGP4MPMessage).BGPMessage.Body.(*bgp.BGPUpdate)
		if !ok || len(pu.NLRI) != 1 || pu.NLRI[0].ID != 5 || pu.NLRI[0].NLRI.String() != "10.0.0.0/24" {
			return verifkit.Failf(key, "MESSAGE_AS4_ADDPATH with NLRI 10.0.0.0/24 path id 5 parses back as %s (wire %x)", c19MrtJSON(p.Body.(*BGP4MPMessage).BGPMessage.Body), wire)
		}
		// the form the daemon writes: the received (ADD-PATH encoded) octets
		opt := &bgp.MarshallingOption{AddPath: map[bgp.Family]bgp.BGPAddPathMode{bgp.RF_IPv4_UC: bgp.BGP_ADD_PATH_BOTH}}
		payload, err := upd.Serialize(opt)
		if err != nil {
			return verifkit.Failf(key, "UPDATE does not serialise: %v", err)
		}
		bm2, _ := NewBGP4MPMessageAddPath(65001, 65002, 0, ip1, ip2, true, nil)
		bm2.BGPMessagePayload = payload
		p, wire, f = c19MrtProbeReparse(key, BGP4MP, MESSAGE_AS4_ADDPATH, bm2)
		if f != nil {
			return f
		}
		pu, ok = p.Body.(*BGP4MPMessage).BGPMessage.Body.(*bgp.BGPUpdate)
		if !ok || len(pu.NLRI) != 1 || pu.NLRI[0].ID != 5 || pu.NLRI[0].NLRI.String() != "10.0.0.0/24" {
			return verifkit.Failf(key, "MESSAGE_AS4_ADDPATH carrying the ADD-PATH encoded payload of NLRI 10.0.0.0/24 path id 5 parses as %s (wire %x)", c19MrtJSON(p.Body.(*BGP4MPMessage).BGPMessage.Body), wire)
		}
		return nil
	},
	// BGP4MPHeader.serialize truncated a 4-octet AS number to 16 bits in the 2-octet sub-types.
	"mrt-bgp4mp-as2-truncated": func() *verifkit.Failure {
		const key = "mrt-bgp4mp-as2-truncated"
		ip1, ip2 := netip.MustParseAddr("10.0.0.1"), netip.MustParseAddr("10.0.0.2")
		sc, _ := NewBGP4MPStateChange(70000, 65000, 0, ip1, ip2, false, 1, 2)
		m, _ := NewMRTMessage(time.Unix(1700000000, 0), BGP4MP, STATE_CHANGE, sc)
		wire, err := m.Serialize()
		if err != nil {
			return nil // refusing the number is acceptable as well
		}
		h, _ := ParseHeader(wire)
		p, err := ParseBody(wire[MRT_COMMON_HEADER_LEN:], h)
		if err != nil {
			return verifkit.Failf(key, "STATE_CHANGE does not parse back: %v", err)
		}
		if got := p.Body.(*BGP4MPStateChange).PeerAS; got != bgp.AS_TRANS {
			return verifkit.Failf(key, "STATE_CHANGE (2-octet AS) built for peer AS 70000 parses back with peer AS %d (neither refused nor AS_TRANS)", got)
		}
		return nil
	},
	// ParseBody satisfied counts inside the body from the octets behind the record.
	"mrt-body-reads-past-header-len": func() *verifkit.Failure {
		const key = "mrt-body-reads-past-header-len"
		body := []byte{0x0a, 0, 0, 1, 0, 0, 0, 1} // collector 10.0.0.1, no view name, ONE peer announced, none present
		next := []byte{0, 10, 0, 0, 2, 10, 0, 0, 3, 0xfd, 0xe8}
		h := &MRTHeader{Type: TABLE_DUMPv2, SubType: uint16(PEER_INDEX_TABLE), Len: uint32(len(body))}
		m, err := ParseBody(append(append([]byte{}, body...), next...), h)
		if err == nil {
			return verifkit.Failf(key, "PEER_INDEX_TABLE body %x (header Length 8, one peer announced, none present) followed by %x parses successfully: %s", body, next, c19MrtJSON(m.Body))
		}
		return nil
	},
	// SplitMrt looked at cap(data) instead of len(data).
	"mrt-split-cap-not-len": func() *verifkit.Failure {
		const key = "mrt-split-cap-not-len"
		buf := make([]byte, 64)
		binary.BigEndian.PutUint16(buf[4:6], uint16(BGP4MP_ET)) // stale contents: an _ET header, which ParseHeader refuses when given 12 octets
		adv, tok, err := SplitMrt(buf[:4], false)
		if adv != 0 || tok != nil || err != nil {
			return verifkit.Failf(key, "SplitMrt on 4 octets inside a 64-octet buffer returns (%d, %d octets, %v) instead of asking for more data", adv, len(tok), err)
		}
		return nil
	},
	// SplitMrt computed 12+Length in uint32.
	"mrt-split-length-overflow": func() *verifkit.Failure {
		const key = "mrt-split-length-overflow"
		in := []byte{0, 0, 0, 0, 0, 13, 0, 2, 0xff, 0xff, 0xff, 0xf4}
		adv, tok, err := SplitMrt(in, false)
		if err == nil && tok != nil {
			return verifkit.Failf(key, "SplitMrt(%x) returns advance %d and a token of %d octets", in, adv, len(tok))
		}
		in[11] = 0xf8
		adv, tok, err = SplitMrt(in, false)
		if err == nil && tok != nil {
			return verifkit.Failf(key, "SplitMrt(%x) returns advance %d and a token of %d octets", in, adv, len(tok))
		}
		return nil
	},
	// NewRib indexed entries[0] of an empty entry list.
	"mrt-newrib-empty-entries-panics": func() *verifkit.Failure {
		const key = "mrt-newrib-empty-entries-panics"
		prefix, _ := bgp.NewIPAddrPrefix(netip.MustParsePrefix("10.0.0.0/8"))
		var rib *Rib
		if f := c19MrtSafely("NewRib", func() { rib = NewRib(1, bgp.RF_IPv4_UC, prefix, nil) }); f != nil {
			f.Sig = key
			return f
		}
		p, wire, f := c19MrtProbeReparse(key, TABLE_DUMPv2, RIB_IPV4_UNICAST, rib)
		if f != nil {
			return f
		}
		if r := p.Body.(*Rib); len(r.Entries) != 0 || r.Prefix.String() != "10.0.0.0/8" {
			return verifkit.Failf(key, "a RIB record without entries parses back differently (wire %x)", wire)
		}
		return nil
	},
}

func c19MrtWire(s *verifgen.Src) []byte {
	if s.Chance(1, 3) {
		if w := c19MrtHandRib(s); w != nil {
			return w
		}
	}
	for i := 0; i < 4; i++ {
		b := c19MrtBuild(s, nil)
		var w []byte
		var err error
		if c19MrtSafely("serialize", func() { w, err = b.msg.Serialize() }) == nil && err == nil {
			return w
		}
	}
	m, _ := NewMRTMessage(time.Unix(1, 0), TABLE_DUMPv2, PEER_INDEX_TABLE, NewPeerIndexTable(netip.MustParseAddr("10.0.0.1"), "", nil))
	w, _ := m.Serialize()
	return w
}

func runC19Mrt(c c19MrtCase, st *verifkit.Stats) *verifkit.Failure {
	s := verifgen.NewSrc(c.Recipe)
	mode := ((c.Mode % c19MrtModes) + c19MrtModes) % c19MrtModes
	st.Label(c19MrtModeNames[mode])
	switch mode {
	case c19MrtRoundTrip:
		if s.Chance(1, 4) {
			return c19MrtHandRoundTrip(s, st)
		}
		return c19MrtRoundTripCheck(c19MrtBuild(s, st), st)
	case c19MrtRaw:
		in := c.Raw
		if len(in) == 0 {
			in = s.Bytes(s.Intn(64))
		}
		in = append([]byte{}, in...)
		if s.Bool() && len(in) >= 12 { // give raw bytes a supported type so that body decoders see them
			ts := verifgen.Pick(s, c19MrtSubtypes[:26])
			binary.BigEndian.PutUint16(in[4:6], ts[0])
			binary.BigEndian.PutUint16(in[6:8], ts[1])
			c19MrtFix(in)
		}
		return c19MrtCheckRecord(in, st)
	case c19MrtMutant:
		w1, w2 := c19MrtWire(s), c19MrtWire(s)
		return c19MrtCheckRecord(c19MrtMutate(s, w1, w2), st)
	case c19MrtSweep:
		w := c19MrtWire(s)
		step := 1
		if len(w) > 400 {
			step = len(w)/400 + 1
		}
		for k := 0; k <= len(w); k += step {
			v := append([]byte{}, w[:k]...)
			c19MrtFix(v)
			if f := c19MrtCheckRecord(v, st); f != nil {
				return f
			}
			if k < 80 || k%7 == 0 {
				if f := c19MrtCheckRecord(append([]byte{}, w[:k]...), st); f != nil { // length field left alone
					return f
				}
			}
		}
		return nil
	default: // splitter
		var in []byte
		if len(c.Raw) > 0 {
			in = append([]byte{}, c.Raw...)
			st.Label("split-input-raw")
		} else {
			n := 1 + s.Intn(3)
			for i := 0; i < n; i++ {
				w := c19MrtWire(s)
				if s.Chance(1, 2) {
					w = c19MrtMutate(s, w, nil)
				}
				in = append(in, w...)
			}
			if s.Chance(1, 3) && len(in) > 0 {
				in = in[:s.Intn(len(in)+1)]
			}
			if len(in) > 20000 {
				in = in[:20000]
			}
			st.Label("split-input-stream")
		}
		if len(in) >= 12 {
			st.Nontrivial()
		}
		return c19MrtCheckSplit(in, st)
	}
}

func TestVerifC19_mrt(t *testing.T) {
	for key, p := range c19MrtProbes {
		verifkit.RegisterProbe("C19_mrt", key, func(*verifkit.Stats) *verifkit.Failure { return p() })
	}
	verifkit.Run(t, "C19_mrt", drawC19Mrt, runC19Mrt)
}

// FuzzVerifC19_mrt: {selector byte, payload}.  selector&1: payload = raw record bytes (selector&2: fed
// to the splitter instead); otherwise payload = recipe for mode (selector>>2)%5.
func FuzzVerifC19_mrt(f *testing.F) {
	for i := uint32(0); i < 8; i++ {
		w := c19MrtWire(verifgen.NewSrc([]uint32{i, i * 77, 3, 9, 1, 5, 2, 8, 4, 4, 6, 1, 1, 1, 7}))
		f.Add(append([]byte{1}, w...))
		f.Add(append([]byte{3}, w...))
	}
	f.Add([]byte{3, 0, 0, 0, 0, 0, 13, 0, 2, 0xff, 0xff, 0xff, 0xf4})
	for m := 0; m < c19MrtModes; m++ {
		f.Add([]byte{byte(m << 2), 9, 9, 9, 9, 1, 0, 0, 0, 7, 7, 7, 7, 3, 0, 0, 0})
	}
	f.Fuzz(func(t *testing.T, data []byte) {
		if len(data) < 2 {
			return
		}
		var c c19MrtCase
		if data[0]&1 == 1 {
			c.Mode, c.Raw = c19MrtRaw, data[1:]
			if data[0]&2 != 0 {
				c.Mode = c19MrtSplit
			}
		} else {
			c.Mode = int(data[0]>>2) % c19MrtModes
			src := data[1:]
			for len(src) >= 4 {
				c.Recipe = append(c.Recipe, binary.LittleEndian.Uint32(src))
				src = src[4:]
			}
		}
		if fail := runC19Mrt(c, verifkit.Scratch("C19_mrt")); fail != nil {
			t.Fatalf("VERIF-FAIL C19_mrt sig=%q: %s", fail.Sig, fail.Msg)
		}
	})
}
