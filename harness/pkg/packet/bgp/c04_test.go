package bgp_test

// C04 — BGP wire codec: encode/decode are mutually inverse and agree on framing.

import (
	"bytes"
	"encoding/binary"
	"encoding/json"
	"fmt"
	"net/netip"
	"strings"
	"testing"

	"github.com/osrg/gobgp/v4/internal/pkg/verifgen"
	"github.com/osrg/gobgp/v4/internal/pkg/verifkit"
	"github.com/osrg/gobgp/v4/pkg/packet/bgp"
	"pgregory.net/rapid"
)

type recipeCase struct {
	Recipe []uint32 `json:"recipe"`
	// Session refines the session the message is sent on (0 = what the recipe alone yields: 4-octet AS,
	// ADD-PATH in both directions or off).  bit 0: the peer has no 4-octet-AS capability (Use2ByteAS:
	// AS_PATH and AGGREGATOR carry 2-octet AS numbers, AS4_PATH / AS4_AGGREGATOR may accompany them);
	// bits 1-2: direction of ADD-PATH where the recipe switched it on: 0 both, 1 send only, 2 receive
	// only.  The receiver always parses with the mirrored options.
	Session int `json:"session,omitempty"`
}

// recvOpt is the other end's view of the sender's options o.
func recvOpt(o *bgp.MarshallingOption) *bgp.MarshallingOption {
	if o == nil {
		return nil
	}
	r := *o
	if o.AddPath != nil {
		r.AddPath = map[bgp.Family]bgp.BGPAddPathMode{}
		for f, m := range o.AddPath {
			var x bgp.BGPAddPathMode
			if m&bgp.BGP_ADD_PATH_SEND != 0 {
				x |= bgp.BGP_ADD_PATH_RECEIVE
			}
			if m&bgp.BGP_ADD_PATH_RECEIVE != 0 {
				x |= bgp.BGP_ADD_PATH_SEND
			}
			r.AddPath[f] = x
		}
	}
	return &r
}

// applySession refines o and m by the Session field of the case.
func applySession(session int, m *bgp.BGPMessage, o *bgp.MarshallingOption) {
	switch (session >> 1) & 3 {
	case 1:
		for f, md := range o.AddPath {
			if md != 0 {
				o.AddPath[f] = bgp.BGP_ADD_PATH_SEND
			}
		}
	case 2:
		for f, md := range o.AddPath {
			if md != 0 {
				o.AddPath[f] = bgp.BGP_ADD_PATH_RECEIVE
			}
		}
	}
	if session&1 == 0 {
		return
	}
	o.Use2ByteAS = true
	verifgen.FitTo2ByteAS(m)
}

func drawRecipe(max int) func(t *rapid.T) recipeCase {
	return func(t *rapid.T) recipeCase {
		// a recipe that runs dry yields only minimal choices, so keep a floor on its length;
		// shrinking still zeroes the entries
		return recipeCase{Recipe: rapid.SliceOfN(rapid.Uint32(), max/3, max).Draw(t, "recipe"),
			Session: rapid.SampledFrom([]int{0, 0, 0, 0, 1, 1, 2, 2, 4, 4, 3, 5}).Draw(t, "session")}
	}
}

func maxLenFor(m *bgp.BGPMessage, o *bgp.MarshallingOption) int {
	if o != nil && o.ExtendedMessage {
		switch m.Header.Type {
		case bgp.BGP_MSG_UPDATE, bgp.BGP_MSG_NOTIFICATION, bgp.BGP_MSG_ROUTE_REFRESH:
			return 65535
		}
	}
	return 4096
}

// jsonOf renders v as canonical JSON in which null, [] and {} are the same (absent) value.
func jsonOf(v any) string {
	b, err := json.Marshal(v)
	if err != nil {
		return "json-error: " + err.Error()
	}
	var x any
	if json.Unmarshal(b, &x) != nil {
		return string(b)
	}
	b, _ = json.Marshal(canon(x))
	return string(b)
}

func canon(x any) any {
	switch v := x.(type) {
	case []any:
		if len(v) == 0 {
			return nil
		}
		for i := range v {
			v[i] = canon(v[i])
		}
		return v
	case map[string]any:
		for k, e := range v {
			if c := canon(e); c == nil {
				delete(v, k)
			} else {
				v[k] = c
			}
		}
		if len(v) == 0 {
			return nil
		}
		return v
	case string:
		if v == "" {
			return nil
		}
	}
	return x
}

// ---- independent framing walker (RFC 4271 / 4760 / 7911 / 8654) ----

type walkAttr struct {
	flags, typ byte
	off, hdr   int // offset in message, header size (3 or 4)
	vlen       int
}

type walked struct {
	typ        byte
	withdrawn  [][]byte
	attrs      []walkAttr
	nlri       [][]byte
	mpNLRI     map[int][][]byte // attr index -> NLRI byte strings (core families only)
	mpFamily   map[int]bgp.Family
	mpWalkable map[int]bool
}

func coreNLRILen(f bgp.Family, b []byte) (int, error) {
	if len(b) < 1 {
		return 0, fmt.Errorf("empty NLRI")
	}
	bits := int(b[0])
	n := 1 + (bits+7)/8
	addrBits := 32
	if f.Afi() == bgp.AFI_IP6 {
		addrBits = 128
	}
	over := 0
	switch f.Safi() {
	case bgp.SAFI_MPLS_LABEL:
		over = 24 // at least one label
	case bgp.SAFI_MPLS_VPN, 129:
		over = 24 + 64
	}
	if bits < over {
		return 0, fmt.Errorf("prefix length %d shorter than label/RD overhead %d", bits, over)
	}
	if f.Safi() == bgp.SAFI_UNICAST || f.Safi() == bgp.SAFI_MULTICAST {
		if bits > addrBits {
			return 0, fmt.Errorf("prefix length %d > %d", bits, addrBits)
		}
	}
	if n > len(b) {
		return 0, fmt.Errorf("NLRI of %d bits overruns the buffer (%d)", bits, len(b))
	}
	return n, nil
}

func walkNLRIs(f bgp.Family, b []byte, addpath bool) ([][]byte, error) {
	var out [][]byte
	for len(b) > 0 {
		start := b
		l := 0
		if addpath {
			if len(b) < 4 {
				return nil, fmt.Errorf("short path-id")
			}
			b = b[4:]
			l = 4
		}
		n, err := coreNLRILen(f, b)
		if err != nil {
			return nil, err
		}
		out = append(out, start[:l+n])
		b = b[n:]
	}
	return out, nil
}

func addPathOn(o *bgp.MarshallingOption, f bgp.Family) bool {
	return o != nil && o.AddPath != nil && o.AddPath[f]&bgp.BGP_ADD_PATH_SEND != 0
}

// walkLenient: when walking bytes that were received rather than constructed, the unused flag
// bits "MUST be ignored when received" (RFC 4271 4.3) and are not a framing error.
var walkLenient = false

func walkMessage(b []byte, o *bgp.MarshallingOption) (*walked, error) {
	if len(b) < 19 {
		return nil, fmt.Errorf("short header")
	}
	for i := 0; i < 16; i++ {
		if b[i] != 0xff {
			return nil, fmt.Errorf("marker byte %d is %#x", i, b[i])
		}
	}
	l := int(binary.BigEndian.Uint16(b[16:18]))
	if l != len(b) {
		return nil, fmt.Errorf("header length %d != message size %d", l, len(b))
	}
	w := &walked{typ: b[18], mpNLRI: map[int][][]byte{}, mpFamily: map[int]bgp.Family{}, mpWalkable: map[int]bool{}}
	if w.typ < 1 || w.typ > 5 {
		return nil, fmt.Errorf("message type %d", w.typ)
	}
	maxLen := 4096
	if o != nil && o.ExtendedMessage && (w.typ == 2 || w.typ == 3 || w.typ == 5) {
		maxLen = 65535
	}
	if l > maxLen {
		return nil, fmt.Errorf("message of %d octets exceeds the session maximum %d", l, maxLen)
	}
	body := b[19:]
	switch w.typ {
	case bgp.BGP_MSG_KEEPALIVE:
		if len(body) != 0 {
			return nil, fmt.Errorf("KEEPALIVE with body")
		}
	case bgp.BGP_MSG_ROUTE_REFRESH:
		if len(body) != 4 {
			return nil, fmt.Errorf("ROUTE-REFRESH body of %d octets", len(body))
		}
	case bgp.BGP_MSG_NOTIFICATION:
		if len(body) < 2 {
			return nil, fmt.Errorf("NOTIFICATION body of %d octets", len(body))
		}
	case bgp.BGP_MSG_OPEN:
		if len(body) < 10 {
			return nil, fmt.Errorf("OPEN body of %d octets", len(body))
		}
		pl := int(body[9])
		if 10+pl != len(body) {
			return nil, fmt.Errorf("OPEN optional parameter length %d, %d octets follow", pl, len(body)-10)
		}
		p := body[10:]
		for len(p) > 0 {
			if len(p) < 2 || 2+int(p[1]) > len(p) {
				return nil, fmt.Errorf("OPEN optional parameter overruns")
			}
			if p[0] == 2 { // capabilities
				c := p[2 : 2+int(p[1])]
				for len(c) > 0 {
					if len(c) < 2 || 2+int(c[1]) > len(c) {
						return nil, fmt.Errorf("capability overruns its parameter")
					}
					c = c[2+int(c[1]):]
				}
			}
			p = p[2+int(p[1]):]
		}
	case bgp.BGP_MSG_UPDATE:
		if len(body) < 4 {
			return nil, fmt.Errorf("UPDATE body of %d octets", len(body))
		}
		wl := int(binary.BigEndian.Uint16(body[0:2]))
		if 2+wl+2 > len(body) {
			return nil, fmt.Errorf("withdrawn length %d overruns", wl)
		}
		var err error
		if w.withdrawn, err = walkNLRIs(bgp.RF_IPv4_UC, body[2:2+wl], addPathOn(o, bgp.RF_IPv4_UC)); err != nil {
			return nil, fmt.Errorf("withdrawn routes: %v", err)
		}
		al := int(binary.BigEndian.Uint16(body[2+wl : 4+wl]))
		if 4+wl+al > len(body) {
			return nil, fmt.Errorf("total path attribute length %d overruns", al)
		}
		attrs := body[4+wl : 4+wl+al]
		off := 19 + 4 + wl
		for len(attrs) > 0 {
			if len(attrs) < 3 {
				return nil, fmt.Errorf("attribute header truncated")
			}
			a := walkAttr{flags: attrs[0], typ: attrs[1], off: off, hdr: 3}
			if a.flags&0x10 != 0 {
				if len(attrs) < 4 {
					return nil, fmt.Errorf("extended attribute header truncated")
				}
				a.hdr = 4
				a.vlen = int(binary.BigEndian.Uint16(attrs[2:4]))
			} else {
				a.vlen = int(attrs[2])
			}
			if a.flags&0x0f != 0 && !walkLenient {
				return nil, fmt.Errorf("attribute %d has reserved flag bits set (%#x)", a.typ, a.flags)
			}
			if a.hdr+a.vlen > len(attrs) {
				return nil, fmt.Errorf("attribute %d of length %d overruns the attribute block", a.typ, a.vlen)
			}
			val := attrs[a.hdr : a.hdr+a.vlen]
			idx := len(w.attrs)
			switch a.typ {
			case 14: // MP_REACH
				if len(val) < 5 {
					return nil, fmt.Errorf("MP_REACH of %d octets", len(val))
				}
				f := bgp.NewFamily(binary.BigEndian.Uint16(val[0:2]), val[2])
				nhl := int(val[3])
				if 4+nhl+1 > len(val) {
					return nil, fmt.Errorf("MP_REACH next hop length %d overruns", nhl)
				}
				if val[4+nhl] != 0 {
					return nil, fmt.Errorf("MP_REACH reserved octet is %d", val[4+nhl])
				}
				w.mpFamily[idx] = f
				if verifgen.IsCoreFamily(f) {
					rd := 0
					if f.Safi() == bgp.SAFI_MPLS_VPN {
						rd = 8
					}
					switch nhl {
					case 4 + rd, 16 + rd, 32 + 2*rd:
					default:
						return nil, fmt.Errorf("MP_REACH(%s) next hop length %d", f, nhl)
					}
					ns, err := walkNLRIs(f, val[5+nhl:], addPathOn(o, f))
					if err != nil {
						return nil, fmt.Errorf("MP_REACH(%s) NLRI: %v", f, err)
					}
					w.mpNLRI[idx] = ns
					w.mpWalkable[idx] = true
				}
			case 15: // MP_UNREACH
				if len(val) < 3 {
					return nil, fmt.Errorf("MP_UNREACH of %d octets", len(val))
				}
				f := bgp.NewFamily(binary.BigEndian.Uint16(val[0:2]), val[2])
				w.mpFamily[idx] = f
				if verifgen.IsCoreFamily(f) {
					ns, err := walkNLRIs(f, val[3:], addPathOn(o, f))
					if err != nil {
						return nil, fmt.Errorf("MP_UNREACH(%s) NLRI: %v", f, err)
					}
					w.mpNLRI[idx] = ns
					w.mpWalkable[idx] = true
				}
			}
			w.attrs = append(w.attrs, a)
			attrs = attrs[a.hdr+a.vlen:]
			off += a.hdr + a.vlen
		}
		if w.nlri, err = walkNLRIs(bgp.RF_IPv4_UC, body[4+wl+al:], addPathOn(o, bgp.RF_IPv4_UC)); err != nil {
			return nil, fmt.Errorf("NLRI: %v", err)
		}
	}
	return w, nil
}

// compare the walker's element boundaries with the codec's own view
func compareFraming(w *walked, m *bgp.BGPMessage, o *bgp.MarshallingOption) *verifkit.Failure {
	u, ok := m.Body.(*bgp.BGPUpdate)
	if !ok {
		return nil
	}
	if len(w.withdrawn) != len(u.WithdrawnRoutes) || len(w.nlri) != len(u.NLRI) || len(w.attrs) != len(u.PathAttributes) {
		return verifkit.Failf("framing-count", "walker sees %d withdrawn / %d attrs / %d NLRI, message has %d / %d / %d",
			len(w.withdrawn), len(w.attrs), len(w.nlri), len(u.WithdrawnRoutes), len(u.PathAttributes), len(u.NLRI))
	}
	for i, a := range u.PathAttributes {
		wa := w.attrs[i]
		if byte(a.GetType()) != wa.typ {
			return verifkit.Failf("framing-attr-type", "attribute %d: walker type %d, codec %d", i, wa.typ, a.GetType())
		}
		if (wa.vlen > 255) != (wa.hdr == 4) && wa.vlen > 255 {
			return verifkit.Failf("framing-extlen", "attribute %d (type %d) has %d octets but no extended length", i, wa.typ, wa.vlen)
		}
		var ns []bgp.PathNLRI
		switch v := a.(type) {
		case *bgp.PathAttributeMpReachNLRI:
			ns = v.Value
		case *bgp.PathAttributeMpUnreachNLRI:
			ns = v.Value
		default:
			continue
		}
		if w.mpWalkable[i] {
			if len(ns) != len(w.mpNLRI[i]) {
				return verifkit.Failf("framing-mp-count", "MP attribute %d (%s): walker sees %d NLRI, codec %d", i, w.mpFamily[i], len(w.mpNLRI[i]), len(ns))
			}
			ap := 0
			if addPathOn(o, w.mpFamily[i]) {
				ap = 4
			}
			for j, n := range ns {
				if n.NLRI.Len(o)+ap != len(w.mpNLRI[i][j]) {
					return verifkit.Failf("framing-mp-len", "MP attribute %d NLRI %d (%s): Len()+pathid=%d, walker %d", i, j, n.NLRI, n.NLRI.Len(o)+ap, len(w.mpNLRI[i][j]))
				}
			}
		}
	}
	return nil
}

func nontrivialMsg(m *bgp.BGPMessage) (bool, string) {
	switch b := m.Body.(type) {
	case *bgp.BGPUpdate:
		n := len(b.NLRI) + len(b.WithdrawnRoutes)
		exotic := false
		for _, a := range b.PathAttributes {
			switch v := a.(type) {
			case *bgp.PathAttributeMpReachNLRI:
				n += len(v.Value)
				exotic = exotic || !verifgen.IsCoreFamily(bgp.NewFamily(v.AFI, v.SAFI))
			case *bgp.PathAttributeMpUnreachNLRI:
				n += len(v.Value)
				exotic = exotic || !verifgen.IsCoreFamily(bgp.NewFamily(v.AFI, v.SAFI))
			}
		}
		return len(b.PathAttributes) >= 2 || n >= 2 || exotic, "update"
	case *bgp.BGPOpen:
		nc := 0
		for _, p := range b.OptParams {
			if c, ok := p.(*bgp.OptionParameterCapability); ok {
				nc += len(c.Capability)
			}
		}
		return nc >= 2, "open"
	case *bgp.BGPNotification:
		return len(b.Data) > 0, "notification"
	case *bgp.BGPRouteRefresh:
		return false, "route-refresh"
	}
	return false, "keepalive"
}

var sentinel = []byte{0xa5, 0x5a, 0xa5, 0x5a, 0xff, 0x00, 0xff, 0x40, 0x01, 0x01}

func checkElements(m *bgp.BGPMessage, o *bgp.MarshallingOption, st *verifkit.Stats) *verifkit.Failure {
	u, ok := m.Body.(*bgp.BGPUpdate)
	if !ok {
		if op, ok := m.Body.(*bgp.BGPOpen); ok {
			for _, p := range op.OptParams {
				pc, ok := p.(*bgp.OptionParameterCapability)
				if !ok {
					continue
				}
				for _, c := range pc.Capability {
					cb, err := c.Serialize()
					if err != nil {
						return verifkit.Failf("cap-serialize", "capability %d: %v", c.Code(), err)
					}
					st.Label(fmt.Sprintf("cap-%T", c))
					if c.Len() != len(cb) {
						return verifkit.Failf("cap-len", "capability %T: Len()=%d, emits %d octets", c, c.Len(), len(cb))
					}
					c2, err := bgp.DecodeCapability(append(append([]byte{}, cb...), sentinel...))
					if err != nil {
						return verifkit.Failf("cap-decode", "capability %T %x does not decode: %v", c, cb, err)
					}
					if c2.Len() != len(cb) {
						return verifkit.Failf("cap-consume", "capability %T: decoder consumed %d of %d octets", c, c2.Len(), len(cb))
					}
					cb2, _ := c2.Serialize()
					if !bytes.Equal(cb, cb2) {
						return verifkit.Failf("cap-roundtrip", "capability %T: %x re-serialises to %x", c, cb, cb2)
					}
				}
			}
		}
		return nil
	}
	nlriCheck := func(f bgp.Family, n bgp.NLRI) *verifkit.Failure {
		nb, err := n.Serialize(o)
		if err != nil {
			return verifkit.Failf("nlri-serialize", "%s NLRI %s: %v", f, n, err)
		}
		st.Label(fmt.Sprintf("nlri-%s", f))
		if n.Len(o) != len(nb) {
			return verifkit.Failf("nlri-len", "%s NLRI %s: Len()=%d but emits %d octets", f, n, n.Len(o), len(nb))
		}
		tail := sentinel
		if f == bgp.RF_OPAQUE {
			// gobgp's own key/value family has no framing for the value: by design the NLRI extends
			// to the end of the attribute, so it is only decoded on its own
			tail = nil
		}
		n2, err := bgp.NLRIFromSlice(f, append(append([]byte{}, nb...), tail...), recvOpt(o))
		if err != nil {
			return verifkit.Failf("nlri-decode", "%s NLRI %s (%x) followed by other data does not decode: %v", f, n, nb, err)
		}
		if n2.Len(o) != len(nb) && (f == bgp.RF_IPv4_ENCAP || f == bgp.RF_IPv6_ENCAP) &&
			st.KnownHit("codec-encap-nlri-multi", fmt.Sprintf("%s NLRI %s followed by other data: decoder consumed %d of %d octets", f, n, n2.Len(o), len(nb))) {
			return nil
		}
		if n2.Len(o) != len(nb) {
			return verifkit.Failf("nlri-consume", "%s NLRI %s (%x): decoder consumed %d of %d octets", f, n, nb, n2.Len(o), len(nb))
		}
		nb2, err := n2.Serialize(o)
		if err != nil || !bytes.Equal(nb, nb2) {
			return verifkit.Failf("nlri-roundtrip", "%s NLRI %s: %x re-serialises to %x (%v)", f, n, nb, nb2, err)
		}
		return nil
	}
	for _, n := range u.NLRI {
		if f := nlriCheck(bgp.RF_IPv4_UC, n.NLRI); f != nil {
			return f
		}
	}
	for _, n := range u.WithdrawnRoutes {
		if f := nlriCheck(bgp.RF_IPv4_UC, n.NLRI); f != nil {
			return f
		}
	}
	for _, a := range u.PathAttributes {
		ab, err := a.Serialize(o)
		if err != nil {
			return verifkit.Failf("attr-serialize", "attribute %s: %v", a.GetType(), err)
		}
		st.Label(fmt.Sprintf("attr-%s", a.GetType()))
		if a.Len(o) != len(ab) {
			msg := fmt.Sprintf("attribute %s: Len()=%d but emits %d octets", a.GetType(), a.Len(o), len(ab))
			sig := "attr-len"
			switch v := a.(type) {
			case *bgp.PathAttributeMpReachNLRI:
				if addPathOn(o, bgp.NewFamily(v.AFI, v.SAFI)) && mpLenOffByPathIDs(a.Len(o), len(ab), len(v.Value)) {
					sig = "attr-len-mp-addpath"
				}
			case *bgp.PathAttributeMpUnreachNLRI:
				if addPathOn(o, bgp.NewFamily(v.AFI, v.SAFI)) && mpLenOffByPathIDs(a.Len(o), len(ab), len(v.Value)) {
					sig = "attr-len-mp-addpath"
				}
			}
			if !st.KnownHit(sig, msg) {
				return verifkit.Failf(sig, "%s", msg)
			}
		}
		buf := append(append([]byte{}, ab...), sentinel...)
		a2, err := bgp.GetPathAttribute(buf)
		if err != nil {
			return verifkit.Failf("attr-get", "attribute %s: %v", a.GetType(), err)
		}
		if err := a2.DecodeFromBytes(buf, recvOpt(o)); err != nil {
			return verifkit.Failf("attr-decode", "attribute %s (%d octets) followed by other data does not decode: %v", a.GetType(), len(ab), err)
		}
		if a2.Len(o) != len(ab) {
			return verifkit.Failf("attr-consume", "attribute %s: decoder consumed %d of %d octets", a.GetType(), a2.Len(o), len(ab))
		}
		ab2, err := a2.Serialize(o)
		if err != nil || !bytes.Equal(ab, ab2) {
			return verifkit.Failf("attr-roundtrip", "attribute %s: %x re-serialises to %x (%v)", a.GetType(), ab, ab2, err)
		}
		switch v := a.(type) {
		case *bgp.PathAttributeMpReachNLRI:
			for _, n := range v.Value {
				if f := nlriCheck(bgp.NewFamily(v.AFI, v.SAFI), n.NLRI); f != nil {
					return f
				}
			}
		case *bgp.PathAttributeMpUnreachNLRI:
			for _, n := range v.Value {
				if f := nlriCheck(bgp.NewFamily(v.AFI, v.SAFI), n.NLRI); f != nil {
					return f
				}
			}
		}
	}
	return nil
}

// mpLenOffByPathIDs: Len() misses exactly the 4-octet path identifiers (plus the extra header
// octet when that pushes the value past 255 octets).
func mpLenOffByPathIDs(reported, emitted, n int) bool {
	d := emitted - reported
	return d == 4*n || (d == 4*n+1 && reported-3 <= 255 && emitted-4 > 255)
}

func onlyCore(fams []bgp.Family) bool {
	for _, f := range fams {
		if !verifgen.IsCoreFamily(f) {
			return false
		}
	}
	return true
}

// checkMessage runs every C04 oracle on one constructed message; it returns the wire bytes
// (nil when the message legitimately exceeds the session maximum).
func checkMessage(m *bgp.BGPMessage, o *bgp.MarshallingOption, st *verifkit.Stats) ([]byte, *verifkit.Failure) {
	nt, kind := nontrivialMsg(m)
	st.Label("msg-" + kind)
	st.Label(fmt.Sprintf("opt-ext=%v", o.ExtendedMessage))

	if f := checkElements(m, o, st); f != nil {
		return nil, f
	}
	body, err := m.Body.Serialize(o)
	if err != nil {
		return nil, verifkit.Failf("body-serialize", "%s body does not serialise: %v\n%s", kind, err, jsonOf(m))
	}
	m.Header.Len = 0
	wire, err := m.Serialize(o)
	limit := maxLenFor(m, o)
	if 19+len(body) > limit {
		st.Label("over-limit")
		if err == nil {
			return nil, verifkit.Failf("oversize-emitted", "%s of %d octets emitted although the session maximum is %d", kind, len(wire), limit)
		}
		return nil, nil
	}
	if err != nil {
		return nil, verifkit.Failf("serialize", "%s (%d octets, limit %d) does not serialise: %v", kind, 19+len(body), limit, err)
	}
	w, werr := walkMessage(wire, o)
	if werr != nil {
		return nil, verifkit.Failf("walker-reject", "emitted %s is not well-formed under RFC framing: %v\n%x", kind, werr, wire)
	}
	if f := compareFraming(w, m, o); f != nil {
		return nil, f
	}
	m2, err := bgp.ParseBGPMessage(wire, recvOpt(o))
	if err != nil {
		return nil, verifkit.Failf("reparse", "emitted %s does not parse back under the session's options %s: %v\n%s\n%x", kind, verifgen.OptString(o), err, jsonOf(m), wire)
	}
	// the decoder stops where the header says the message ends: other messages behind it in the buffer
	// (a stream, a BMP Peer Up) do not change what is decoded
	for _, tail := range [][]byte{wire, {0xff, 0xff, 0xff, 0xff, 0xff, 0xff, 0xff, 0xff, 0xff, 0xff, 0xff, 0xff, 0xff, 0xff, 0xff, 0xff, 0, 19, 4}, {0, 24, 10, 1, 2}} {
		m3, err := bgp.ParseBGPMessage(append(append([]byte{}, wire...), tail...), recvOpt(o))
		if err != nil {
			return nil, verifkit.Failf("trailing-data", "%s followed by %d other octets in the buffer does not parse: %v", kind, len(tail), err)
		}
		if j2, j3 := jsonOf(m2.Body), jsonOf(m3.Body); j2 != j3 {
			return nil, verifkit.Failf("trailing-data", "%s parses differently when %d other octets follow it in the buffer:\n alone    %s\n followed %s", kind, len(tail), j2, j3)
		}
	}
	wire2, err := m2.Serialize(o)
	if err != nil || !bytes.Equal(wire, wire2) {
		return nil, verifkit.Failf("fixpoint", "parsed %s re-serialises differently (%v):\n %x\n %x", kind, err, wire, wire2)
	}
	if j1, j2 := jsonOf(m.Body), jsonOf(m2.Body); j1 != j2 {
		return nil, verifkit.Failf("not-equal", "parsed %s differs from the constructed one:\n constructed %s\n parsed      %s", kind, j1, j2)
	}
	if s1, s2 := fmt.Sprint(m.Body), fmt.Sprint(m2.Body); false && s1 != s2 {
		return nil, verifkit.Failf("not-equal-string", "String() of parsed %s differs", kind)
	}
	if f := compareFraming(w, m2, o); f != nil {
		return nil, f
	}
	if nt {
		st.Nontrivial()
	}
	return wire, nil
}

func runC04(c recipeCase, st *verifkit.Stats) *verifkit.Failure {
	s := verifgen.NewSrc(c.Recipe)
	m, fams := verifgen.Message(s)
	o := verifgen.Options(s, fams...)
	applySession(c.Session, m, o)
	verifgen.NormalisePathIDs(m, o)
	if c.Session != 0 {
		st.Label(fmt.Sprintf("session-as2=%v-addpathdir=%d", c.Session&1 != 0, (c.Session>>1)&3))
	}
	wire, f := checkMessage(m, o, st)
	if f != nil || wire == nil {
		return f
	}
	for k, v := range verifgen.AvoidedCounts() {
		_ = k
		_ = v
	}
	// (ii) byte strings the parser accepts (core families): mutate, and if still accepted require the fixpoint
	if onlyCore(fams) {
		nm := s.Intn(4)
		for k := 0; k < nm; k++ {
			if s.Chance(1, 3) {
				// structure-aware mutant: re-encode one attribute with the Extended Length bit and a
				// two-octet length although its value is short (legal, and sent by some speakers)
				if mut := extLenVariant(wire, o, s.Intn(8)); mut != nil {
					st.Label("mutant-extlen")
					if f := fixpointOfAccepted(mut, o, st, true); f != nil {
						return f
					}
				}
				continue
			}
			mut := append([]byte{}, wire...)
			nflip := 1 + s.Intn(3)
			for i := 0; i < nflip && len(mut) > 19; i++ {
				pos := 19 + s.Intn(len(mut)-19)
				switch s.Intn(3) {
				case 0:
					mut[pos] ^= 1 << uint(s.Intn(8))
				case 1:
					mut[pos] = byte(s.Intn(256))
				default:
					mut[pos] = verifgen.Pick(s, []byte{0, 1, 0xff, 0x80, 24, 32, 33, 128, 129})
				}
			}
			if f := fixpointOfAccepted(mut, o, st, false); f != nil {
				return f
			}
		}
	}
	return nil
}

// extLenVariant rewrites attribute #idx (mod count) of an UPDATE with a 3-octet header into the
// extended-length form; nil if not applicable.
func extLenVariant(wire []byte, o *bgp.MarshallingOption, idx int) []byte {
	w, err := walkMessage(wire, o)
	if err != nil || w.typ != bgp.BGP_MSG_UPDATE || len(w.attrs) == 0 {
		return nil
	}
	a := w.attrs[idx%len(w.attrs)]
	if a.hdr != 3 || len(wire)+1 > 4096 {
		return nil
	}
	out := append([]byte{}, wire[:a.off]...)
	out = append(out, wire[a.off]|0x10, wire[a.off+1], 0, wire[a.off+2])
	out = append(out, wire[a.off+3:]...)
	binary.BigEndian.PutUint16(out[16:18], uint16(len(out)))
	wl := int(binary.BigEndian.Uint16(out[19:21]))
	alOff := 19 + 2 + wl
	binary.BigEndian.PutUint16(out[alOff:alOff+2], binary.BigEndian.Uint16(out[alOff:alOff+2])+1)
	return out
}

func fixpointOfAccepted(b []byte, o *bgp.MarshallingOption, st *verifkit.Stats, strict bool) *verifkit.Failure {
	walkLenient = true
	defer func() { walkLenient = false }()
	p, err := bgp.ParseBGPMessage(b, recvOpt(o))
	if err != nil || p == nil {
		st.Label("mutant-rejected")
		return nil
	}
	// the codec's view of an accepted input must agree with the independent framing of that input
	if w, werr := walkMessage(b, o); werr == nil {
		if f := compareFraming(w, p, o); f != nil {
			f.Msg = "accepted input " + fmt.Sprintf("%x", b) + ": " + f.Msg
			return f
		}
		if u, ok := p.Body.(*bgp.BGPUpdate); ok && len(u.PathAttributes) == len(w.attrs) {
			for i, a := range u.PathAttributes {
				occupied := w.attrs[i].hdr + w.attrs[i].vlen
				switch a.(type) {
				case *bgp.PathAttributeMpReachNLRI, *bgp.PathAttributeMpUnreachNLRI:
					// Since the repair of C04-K2 Len(o) of an MP attribute is computed from the value, like
					// Serialize(o): it is the length of what would be sent (path identifiers of the send
					// direction included), and the UPDATE decoder advances by the attribute header instead.
					// For an input the decoder normalises (a second next hop that is not link-local is
					// dropped, the RD of a VPN next hop is rewritten to zero, ...) that is not the number of
					// octets received; how the received octets were framed is compared by compareFraming above.
					ab, err := a.Serialize(o)
					if err != nil {
						continue // reported below (accepted-unserialisable)
					}
					if len(ab) != occupied {
						st.Label("accepted-mp-attr-normalised")
					}
					if a.Len(o) != len(ab) {
						return verifkit.Failf("accepted-attr-len", "accepted input %x: attribute %d (%s) reports Len()=%d but emits %d octets (received in %d)", b, i, a.GetType(), a.Len(o), len(ab), occupied)
					}
					continue
				}
				if a.Len(o) != occupied {
					return verifkit.Failf("accepted-attr-len", "accepted input %x: attribute %d (%s) occupies %d octets but Len() reports %d", b, i, a.GetType(), occupied, a.Len(o))
				}
			}
		}
	}
	if u, ok := p.Body.(*bgp.BGPUpdate); ok {
		for _, a := range u.PathAttributes {
			var f bgp.Family
			switch v := a.(type) {
			case *bgp.PathAttributeMpReachNLRI:
				f = bgp.NewFamily(v.AFI, v.SAFI)
			case *bgp.PathAttributeMpUnreachNLRI:
				f = bgp.NewFamily(v.AFI, v.SAFI)
			default:
				continue
			}
			if !verifgen.IsCoreFamily(f) {
				st.Label("mutant-noncore")
				return nil
			}
		}
	}
	for _, t := range []bgp.BGPAttrType{bgp.BGP_ATTR_TYPE_LS, bgp.BGP_ATTR_TYPE_TUNNEL_ENCAP, bgp.BGP_ATTR_TYPE_PMSI_TUNNEL, bgp.BGP_ATTR_TYPE_PREFIX_SID, bgp.BGP_ATTR_TYPE_AIGP} {
		if hasAttr(p, t) {
			// clause (ii) of the property is about the core families; attributes that only serve other
			// families are outside it (their decoders are exercised by C05)
			st.Label("mutant-noncore-attr")
			return nil
		}
	}
	st.Label("mutant-accepted")
	if zeroNonBottomLabel(p) {
		// the mutation produced a label stack with a non-bottom label 0: known finding C04-K1
		if st.KnownHit("zero-non-bottom-label", "an accepted mutant carries a non-bottom label 0") {
			return nil
		}
	}
	p.Header.Len = 0
	b1, err := p.Serialize(o)
	if err != nil {
		if 19+len(b) > 4096 {
			return nil
		}
		return verifkit.Failf("accepted-unserialisable", "accepted input %x does not re-serialise: %v", b, err)
	}
	p1, err := bgp.ParseBGPMessage(b1, recvOpt(o))
	if err != nil {
		return verifkit.Failf("accepted-reparse", "accepted input %x re-serialises to %x which is rejected: %v", b, b1, err)
	}
	if _, werr := walkMessage(b1, o); werr != nil {
		return verifkit.Failf("accepted-reserialised-malformed", "accepted input %x re-serialises to %x which is not well-formed: %v", b, b1, werr)
	}
	if strict {
		// a legal alternative encoding of a valid message (no normalisation involved): every
		// parsed attribute must report the length it emits
		if u, ok := p.Body.(*bgp.BGPUpdate); ok {
			for i, a := range u.PathAttributes {
				ab, err := a.Serialize(o)
				if err != nil || a.Len(o) != len(ab) {
					return verifkit.Failf("accepted-attr-len", "input %x: parsed attribute %d (%s) reports Len()=%d but emits %d octets (%v)", b, i, a.GetType(), a.Len(o), len(ab), err)
				}
			}
		}
	}
	p1.Header.Len = 0
	b2, err := p1.Serialize(o)
	if err != nil || !bytes.Equal(b1, b2) {
		return verifkit.Failf("accepted-fixpoint", "accepted input %x: ser(parse)=%x but ser(parse(ser(parse)))=%x (%v)", b, b1, b2, err)
	}
	st.SubEval(1)
	return nil
}

func TestVerifC04(t *testing.T) {
	verifkit.Run(t, "C04", drawRecipe(240), runC04)
}

func init() {
	verifkit.RegisterProbe("C04", "mp-len-addpath", func(st *verifkit.Stats) *verifkit.Failure {
		n, _ := bgp.NewIPAddrPrefix(netip.MustParsePrefix("10.0.0.0/24"))
		a, _ := bgp.NewPathAttributeMpUnreachNLRI(bgp.RF_IPv4_UC, []bgp.PathNLRI{{NLRI: n, ID: 1}})
		o := &bgp.MarshallingOption{AddPath: map[bgp.Family]bgp.BGPAddPathMode{bgp.RF_IPv4_UC: bgp.BGP_ADD_PATH_BOTH}}
		b, _ := a.Serialize(o)
		if a.Len(o) != len(b) {
			return verifkit.Failf("attr-len-mp-addpath", "MP_UNREACH_NLRI(ipv4-unicast, 1 NLRI, ADD-PATH on): Len()=%d but Serialize emits %d octets", a.Len(o), len(b))
		}
		return nil
	})
	verifkit.RegisterProbe("C04", "mpreach-vpn-linklocal-len", func(st *verifkit.Stats) *verifkit.Failure {
		n, _ := bgp.NewLabeledVPNIPAddrPrefix(netip.MustParsePrefix("2001:db8::/64"), *bgp.NewMPLSLabelStack(16), bgp.NewRouteDistinguisherTwoOctetAS(1, 1))
		a, _ := bgp.NewPathAttributeMpReachNLRI(bgp.RF_IPv6_VPN, []bgp.PathNLRI{{NLRI: n}}, netip.MustParseAddr("2001:db8::1"), netip.MustParseAddr("fe80::1"))
		b, _ := a.Serialize()
		if a.Len() != len(b) {
			return verifkit.Failf("attr-len", "MP_REACH_NLRI(l3vpn-ipv6, global+link-local next hop): Len()=%d but Serialize emits %d octets", a.Len(), len(b))
		}
		return nil
	})
	verifkit.RegisterProbe("C04", "labelless-nlri", func(st *verifkit.Stats) *verifkit.Failure {
		raw := []byte{0xff, 0xff, 0xff, 0xff, 0xff, 0xff, 0xff, 0xff, 0xff, 0xff, 0xff, 0xff, 0xff, 0xff, 0xff, 0xff, 0x00, 0x27, 0x02, 0x00, 0x00, 0x00, 0x10,
			0x80, 0x0f, 0x0d, 0x00, 0x01, 0x04, 0x40, 0x00, 0x03, 0x00, 0x00, 0x00, 0x01, 0x0a, 0x00, 0x00}
		return fixpointOfAccepted(raw, &bgp.MarshallingOption{}, st, false)
	})
	verifkit.RegisterProbe("C04", "zero-non-bottom-label", func(st *verifkit.Stats) *verifkit.Failure {
		n, _ := bgp.NewLabeledIPAddrPrefix(netip.MustParsePrefix("2001:db8::/64"), *bgp.NewMPLSLabelStack(0, 16))
		b, _ := n.Serialize()
		n2, err := bgp.NLRIFromSlice(bgp.RF_IPv6_MPLS, b)
		if err != nil {
			return verifkit.Failf("zero-non-bottom-label", "label stack [0 16]: %x does not decode: %v", b, err)
		}
		if n2.String() != n.String() {
			return verifkit.Failf("zero-non-bottom-label", "labelled prefix %s (%x) decodes as %s", n, b, n2)
		}
		return nil
	})
}

func zeroNonBottomLabel(m *bgp.BGPMessage) bool {
	u, ok := m.Body.(*bgp.BGPUpdate)
	if !ok {
		return false
	}
	bad := func(l []bgp.PathNLRI) bool {
		for _, n := range l {
			var ls []uint32
			switch v := n.NLRI.(type) {
			case *bgp.LabeledIPAddrPrefix:
				ls = v.Labels.Labels
			case *bgp.LabeledVPNIPAddrPrefix:
				ls = v.Labels.Labels
			}
			for i := 0; i+1 < len(ls); i++ {
				if ls[i] == 0 {
					return true
				}
			}
		}
		return false
	}
	for _, a := range u.PathAttributes {
		switch v := a.(type) {
		case *bgp.PathAttributeMpReachNLRI:
			if bad(v.Value) {
				return true
			}
		case *bgp.PathAttributeMpUnreachNLRI:
			if bad(v.Value) {
				return true
			}
		}
	}
	return false
}

// ---- deterministic reproductions of the known codec issues (generator-independent search) ----

type lcg uint64

func (l *lcg) next() uint32 {
	*l = *l*6364136223846793005 + 1442695040888963407
	return uint32(*l >> 33)
}

func wrapAttr(a bgp.PathAttributeInterface) *bgp.BGPMessage {
	n, _ := bgp.NewIPAddrPrefix(netip.MustParsePrefix("10.0.0.0/24"))
	nh, _ := bgp.NewPathAttributeNextHop(netip.MustParseAddr("192.0.2.1"))
	attrs := []bgp.PathAttributeInterface{bgp.NewPathAttributeOrigin(0), bgp.NewPathAttributeAsPath(nil), nh, a}
	return bgp.NewBGPUpdateMessage(nil, attrs, []bgp.PathNLRI{{NLRI: n}})
}

func wrapNLRI(f bgp.Family, ns ...bgp.NLRI) *bgp.BGPMessage {
	var l []bgp.PathNLRI
	for _, n := range ns {
		l = append(l, bgp.PathNLRI{NLRI: n})
	}
	var nhs []netip.Addr
	if f.Safi() != bgp.SAFI_FLOW_SPEC_UNICAST && f.Safi() != bgp.SAFI_FLOW_SPEC_VPN {
		nhs = []netip.Addr{netip.MustParseAddr("192.0.2.1")}
		if f.Afi() == bgp.AFI_IP6 {
			nhs = []netip.Addr{netip.MustParseAddr("2001:db8::1")}
		}
	}
	reach, _ := bgp.NewPathAttributeMpReachNLRI(f, l, nhs...)
	return bgp.NewBGPUpdateMessage(nil, []bgp.PathAttributeInterface{bgp.NewPathAttributeOrigin(0), bgp.NewPathAttributeAsPath(nil), reach}, nil)
}

func safeCheck(m *bgp.BGPMessage, st *verifkit.Stats) (f *verifkit.Failure) {
	defer func() {
		if r := recover(); r != nil {
			f = verifkit.Failf("panic", "panic: %v", r)
		}
	}()
	_ = fmt.Sprint(m.Body)
	_, f = checkMessage(m, &bgp.MarshallingOption{}, st)
	return f
}

// codecIssueProbe searches a deterministic recipe space for a shape of the codec issue key that
// fails the C04 oracles.  For a key that is still open (verifgen.KnownCodecIssues) the generators
// are unmasked for the duration of the search, which must then fail with sig "codec-<key>"; for a
// repaired key (verifgen.FixedCodecIssues) the shape is generated unconditionally and the same
// search must pass (it fails with the same sig on a tree without the repair).
func codecIssueProbe(key string) func(st *verifkit.Stats) *verifkit.Failure {
	// subTLVTypesKept (srv6-bsid-subtlv only): "parses back to an equal value" for the TUNNEL_ENCAP
	// attribute of m includes the Go types of its sub-TLVs; the JSON form of an SRv6 binding SID
	// sub-TLV equals that of the SR binding SID sub-TLV it is parsed back as, so checkMessage cannot
	// tell them apart.
	subTLVTypesKept := func(m *bgp.BGPMessage) (f *verifkit.Failure) {
		defer func() {
			if r := recover(); r != nil {
				f = verifkit.Failf("panic", "panic: %v", r)
			}
		}()
		u, ok := m.Body.(*bgp.BGPUpdate)
		if !ok {
			return nil
		}
		types := func(a *bgp.PathAttributeTunnelEncap) string {
			var b strings.Builder
			for _, tlv := range a.Value {
				b.WriteString("[")
				for _, st := range tlv.Value {
					fmt.Fprintf(&b, " %T", st)
					if v, ok := st.(*bgp.TunnelEncapSubTLVSRv6BSID); ok && v.EPBAS != nil {
						b.WriteString("+EPBAS")
					}
				}
				b.WriteString(" ]")
			}
			return b.String()
		}
		for _, a := range u.PathAttributes {
			te, ok := a.(*bgp.PathAttributeTunnelEncap)
			if !ok {
				continue
			}
			ab, err := te.Serialize()
			if err != nil {
				return verifkit.Failf("attr-serialize", "attribute %s: %v", a.GetType(), err)
			}
			te2 := &bgp.PathAttributeTunnelEncap{}
			if err := te2.DecodeFromBytes(ab); err != nil {
				return verifkit.Failf("attr-decode", "attribute %s does not decode: %v", a.GetType(), err)
			}
			if t1, t2 := types(te), types(te2); t1 != t2 {
				return verifkit.Failf("not-equal", "tunnel encapsulation sub-TLV types change in a round trip (%x):\n constructed %s\n parsed      %s", ab, t1, t2)
			}
		}
		return nil
	}
	return func(st *verifkit.Stats) *verifkit.Failure {
		note, fixed := verifgen.FixedCodecIssues[key]
		if !fixed {
			if !verifgen.KnownCodecIssues[key] {
				return nil
			}
			note = verifgen.KnownCodecIssueNotes[key]
			verifgen.KnownCodecIssues[key] = false
			defer func() { verifgen.KnownCodecIssues[key] = true }()
		}
		scratch := verifkit.Scratch("C04")
		rnd := lcg(11)
		for l := 0; l <= 64; l++ {
			for i := 0; i < 40; i++ {
				r := make([]uint32, l)
				for j := range r {
					r[j] = rnd.next()
				}
				// the search is confined to the generator kind the shape lives in, so that on a tree
				// that lacks several repairs a probe reports its own defect as far as possible
				var msgs []*bgp.BGPMessage
				switch {
				case strings.HasPrefix(key, "ec-"):
					for k := 0; k < verifgen.NumExtCommKinds; k++ {
						if name := verifgen.ExtCommKindName(k); (key == "ec-2octet-as-subtype4-transitive" && name != "two-octet-as") ||
							(strings.HasPrefix(key, "ec-multicast-flags-") && name != "multicast-flags") ||
							(key == "ec-l2attr-primary-and-backup" && name != "l2-attributes") ||
							(strings.HasPrefix(key, "ec-unknown-") && name != "unknown") {
							continue
						}
						e := verifgen.ExtCommunityOfKind(verifgen.NewSrc(r), k)
						msgs = append(msgs, wrapAttr(bgp.NewPathAttributeExtendedCommunities([]bgp.ExtendedCommunityInterface{e})))
					}
				case key == "encap-nlri-multi":
					for _, f := range []bgp.Family{bgp.RF_IPv4_ENCAP, bgp.RF_IPv6_ENCAP} {
						s := verifgen.NewSrc(r)
						msgs = append(msgs, wrapNLRI(f, verifgen.ExoticNLRI(s, f), verifgen.ExoticNLRI(s, f)))
					}
				case key == "rd-unknown-type" || key == "evpn-ipmsi" || key == "flowspec-len-ge-240" || key == "ls-prefix-len0":
					for _, f := range verifgen.ExoticFamilies {
						fs := f.Safi() == bgp.SAFI_FLOW_SPEC_UNICAST || f.Safi() == bgp.SAFI_FLOW_SPEC_VPN
						if (key == "evpn-ipmsi" && f != bgp.RF_EVPN) || (key == "flowspec-len-ge-240" && !fs) || (key == "ls-prefix-len0" && f != bgp.RF_LS) {
							continue
						}
						msgs = append(msgs, wrapNLRI(f, verifgen.ExoticNLRI(verifgen.NewSrc(r), f)))
					}
				default:
					for k := 0; k < verifgen.NumExoticAttrKinds; k++ {
						if (key == "aigp-empty-tlv" && k != verifgen.ExoticAttrAigp) || (strings.HasPrefix(key, "ls-ctor-") && k != verifgen.ExoticAttrLs) ||
							((strings.HasPrefix(key, "tunnel-encap-") || key == "srbsid-nil-bsid" || key == "srv6-bsid-subtlv") && k != verifgen.ExoticAttrTunnelEncap) {
							continue
						}
						msgs = append(msgs, wrapAttr(verifgen.ExoticAttr(verifgen.NewSrc(r), k)))
					}
				}
				for _, m := range msgs {
					f := safeCheck(m, scratch)
					if f == nil && key == "srv6-bsid-subtlv" {
						f = subTLVTypesKept(m)
					}
					if f != nil {
						msg := f.Msg
						if len(msg) > 600 {
							msg = msg[:600] + "..."
						}
						return verifkit.Failf("codec-"+key, "%s: %s", note, msg)
					}
				}
			}
		}
		return nil
	}
}

func init() {
	for key := range verifgen.KnownCodecIssues {
		verifkit.RegisterProbe("C04", "codec-"+key, codecIssueProbe(key))
	}
	for key := range verifgen.FixedCodecIssues {
		verifkit.RegisterProbe("C04", "codec-"+key, codecIssueProbe(key))
	}
}

func hasAttr(m *bgp.BGPMessage, t bgp.BGPAttrType) bool {
	if u, ok := m.Body.(*bgp.BGPUpdate); ok {
		for _, a := range u.PathAttributes {
			if a.GetType() == t {
				return true
			}
		}
	}
	return false
}
