package bgp_test

// C05 — no byte string can crash, hang or over-read the BGP message parser.
//
// Inputs: arbitrary bytes, and structure-aware mutations of valid messages
// built by the verifgen recipes (truncate, extend, flip, overwrite length
// fields, splice attributes between messages, duplicate a TLV).  Entry points:
// ParseBGPMessage, ParseBGPBody, GetPathAttribute+DecodeFromBytes,
// NLRIFromSlice per family, DecodeCapability.
//
// Oracle (inside the target): no panic; the caller's buffer is unchanged; the
// input is carved out of a larger poisoned buffer with cap==len so a read
// beyond the declared message is a visible bounds failure, and the result must
// not depend on what follows the declared message; decoded element counts are
// bounded by the input size; every returned value (also one handed back with
// a non-fatal error) renders, measures and re-serialises without panicking.

import (
	"bytes"
	"encoding/binary"
	"encoding/json"
	"fmt"
	"testing"

	"github.com/osrg/gobgp/v4/internal/pkg/verifgen"
	"github.com/osrg/gobgp/v4/internal/pkg/verifkit"
	"github.com/osrg/gobgp/v4/pkg/packet/bgp"
	"pgregory.net/rapid"
)

type c05Case struct {
	Recipe []uint32 `json:"recipe"` // builds the seed message(s) and drives the mutations
	Raw    []byte   `json:"raw"`    // if non-empty: use these bytes as they are
	Entry  int      `json:"entry"`
}

const (
	c05Message = iota
	c05Body
	c05Attr
	c05NLRI
	c05Cap
	c05SweepNLRI
	c05SweepAttr
	numC05Entries
)

var c05EntryNames = [...]string{"message", "body", "attribute", "nlri", "capability", "sweep-nlri", "sweep-attribute"}

func drawC05(t *rapid.T) c05Case {
	c := c05Case{Entry: rapid.IntRange(0, numC05Entries-1).Draw(t, "entry")}
	if rapid.IntRange(0, 5).Draw(t, "rawmode") == 0 {
		c.Raw = rapid.SliceOfN(rapid.Byte(), 0, 120).Draw(t, "raw")
	}
	c.Recipe = rapid.SliceOfN(rapid.Uint32(), 40, 200).Draw(t, "recipe")
	return c
}

// guarded returns a copy of b placed in the middle of a poisoned buffer, with cap == len.
func guarded(b []byte, poison byte) []byte {
	buf := make([]byte, len(b)+64)
	for i := range buf {
		buf[i] = poison
	}
	copy(buf[32:], b)
	return buf[32 : 32+len(b) : 32+len(b)]
}

func renderAll(v any) (what string, err any) {
	defer func() {
		if r := recover(); r != nil {
			err = r
		}
	}()
	what = "String"
	_ = fmt.Sprint(v)
	what = "MarshalJSON"
	_, _ = json.Marshal(v)
	return "", nil
}

func safely(what string, f func()) (fail *verifkit.Failure) {
	defer func() {
		if r := recover(); r != nil {
			fail = verifkit.Failf("panic-"+what, "%s panicked: %v", what, r)
		}
	}()
	f()
	return nil
}

// useMessage exercises everything the daemon does with a returned message.
func useMessage(m *bgp.BGPMessage, o *bgp.MarshallingOption, in []byte) *verifkit.Failure {
	if m == nil {
		return nil
	}
	if w, e := renderAll(m); e != nil {
		return verifkit.Failf("panic-render", "%s of the returned message panicked: %v (input %x)", w, e, in)
	}
	if f := safely("Serialize", func() {
		m.Header.Len = 0
		_, _ = m.Serialize(o)
	}); f != nil {
		f.Msg += fmt.Sprintf(" (input %x)", in)
		return f
	}
	if u, ok := m.Body.(*bgp.BGPUpdate); ok {
		if len(u.PathAttributes)*3 > len(in)+3 || len(u.NLRI) > len(in) || len(u.WithdrawnRoutes) > len(in) {
			return verifkit.Failf("unbounded-elements", "decoded %d attributes / %d NLRI / %d withdrawn from %d octets", len(u.PathAttributes), len(u.NLRI), len(u.WithdrawnRoutes), len(in))
		}
		for _, a := range u.PathAttributes {
			if f := safely("attribute Len/Serialize/Flat", func() {
				_ = a.Len(o)
				_, _ = a.Serialize(o)
				_ = a.Flat()
				_ = a.GetFlags()
			}); f != nil {
				f.Msg += fmt.Sprintf(" attribute %s (input %x)", a.GetType(), in)
				return f
			}
		}
		if f := safely("ValidateUpdateMsg", func() {
			rfs := map[bgp.Family]bgp.BGPAddPathMode{}
			for _, fam := range verifgen.AllFamilies {
				rfs[fam] = bgp.BGP_ADD_PATH_BOTH
			}
			_, _ = bgp.ValidateUpdateMsg(u, rfs, true, false, false)
			_, _ = bgp.ValidateUpdateMsg(u, rfs, false, true, true)
		}); f != nil {
			f.Msg += fmt.Sprintf(" (input %x)", in)
			return f
		}
		if f := safely("IsEndOfRib", func() { _, _ = u.IsEndOfRib() }); f != nil {
			return f
		}
	}
	return nil
}

func sameOutcome(m1 *bgp.BGPMessage, e1 error, m2 *bgp.BGPMessage, e2 error) bool {
	if (e1 == nil) != (e2 == nil) || (m1 == nil) != (m2 == nil) {
		return false
	}
	if e1 != nil && e1.Error() != e2.Error() {
		return false
	}
	if m1 != nil {
		j1, _ := json.Marshal(m1)
		j2, _ := json.Marshal(m2)
		return bytes.Equal(j1, j2)
	}
	return true
}

// mutate derives a hostile input from valid wire bytes.
func c05Mutate(s *verifgen.Src, wire []byte, other []byte) []byte {
	b := append([]byte{}, wire...)
	n := 1 + s.Intn(3)
	for k := 0; k < n && len(b) > 0; k++ {
		switch s.Intn(9) {
		case 0: // truncate
			b = b[:s.Intn(len(b)+1)]
		case 1: // extend with garbage
			b = append(b, s.Bytes(1+s.Intn(8))...)
		case 2: // flip a bit
			i := s.Intn(len(b))
			b[i] ^= 1 << uint(s.Intn(8))
		case 3: // overwrite a byte with a hostile constant
			b[s.Intn(len(b))] = verifgen.Pick(s, []byte{0, 1, 2, 3, 4, 0x7f, 0x80, 0xfe, 0xff, 24, 32, 33, 128, 129})
		case 4: // set a 16-bit field to 0 / max / off-by-one
			if len(b) >= 2 {
				i := s.Intn(len(b) - 1)
				binary.BigEndian.PutUint16(b[i:], verifgen.Pick(s, []uint16{0, 1, 0xffff, 0xfffe, 4096, 4097, uint16(len(b)), uint16(len(b) + 1), uint16(len(b) - 1)}))
			}
		case 5: // splice a chunk of another valid message in
			if len(other) > 19 {
				i := 19 + s.Intn(len(other)-19)
				j := i + s.Intn(len(other)-i+1)
				at := s.Intn(len(b) + 1)
				b = append(b[:at:at], append(append([]byte{}, other[i:j]...), b[at:]...)...)
			}
		case 6: // duplicate a chunk in place (duplicate TLV / attribute)
			i := s.Intn(len(b))
			j := i + s.Intn(len(b)-i+1)
			if j-i < 64 {
				b = append(b[:j:j], append(append([]byte{}, b[i:j]...), b[j:]...)...)
			}
		case 7: // zero a run
			i := s.Intn(len(b))
			j := i + s.Intn(min(8, len(b)-i)+1)
			for x := i; x < j; x++ {
				b[x] = 0
			}
		default: // 0xff run
			i := s.Intn(len(b))
			j := i + s.Intn(min(4, len(b)-i)+1)
			for x := i; x < j; x++ {
				b[x] = 0xff
			}
		}
		if len(b) > 70000 {
			b = b[:70000]
		}
	}
	// keep the header length consistent most of the time so the body decoders are reached
	if len(b) >= 19 && s.Chance(3, 4) && len(b) <= 65535 {
		binary.BigEndian.PutUint16(b[16:18], uint16(len(b)))
	}
	return b
}

func runC05(c c05Case, st *verifkit.Stats) *verifkit.Failure {
	s := verifgen.NewSrc(c.Recipe)
	entry := c.Entry % numC05Entries
	st.Label("entry-" + c05EntryNames[entry])
	// options: all combinations selected by the recipe
	o := &bgp.MarshallingOption{ExtendedMessage: s.Bool(), Use2ByteAS: s.Chance(1, 4)}
	if s.Bool() {
		o.AddPath = map[bgp.Family]bgp.BGPAddPathMode{}
		for _, f := range verifgen.AllFamilies {
			if s.Bool() {
				o.AddPath[f] = bgp.BGP_ADD_PATH_BOTH
			}
		}
	}
	m1, _ := verifgen.Message(s)
	m2, _ := verifgen.Message(s)
	w1, _ := m1.Serialize(&bgp.MarshallingOption{ExtendedMessage: true, AddPath: o.AddPath})
	w2, _ := m2.Serialize(&bgp.MarshallingOption{ExtendedMessage: true, AddPath: o.AddPath})
	var in []byte
	switch {
	case len(c.Raw) > 0:
		in = append([]byte{}, c.Raw...)
		st.Label("input-raw")
	case len(w1) == 0:
		in = s.Bytes(s.Intn(64))
		st.Label("input-raw")
	default:
		in = c05Mutate(s, w1, w2)
		st.Label("input-mutant")
	}

	switch entry {
	case c05SweepNLRI:
		// systematic truncation of a valid NLRI: every cut point, with each of the first octets
		// rewritten as a length field that matches the cut (TLV-style families)
		f := verifgen.Pick(s, verifgen.AllFamilies)
		nb, err := verifgen.NLRI(s, f).Serialize(o)
		if err != nil || len(nb) == 0 {
			return nil
		}
		for k := 0; k <= len(nb); k++ {
			if fl := c05CheckNLRI(f, nb[:k], o, st); fl != nil {
				return fl
			}
			for p := 0; p < 4 && p < k; p++ {
				v := append([]byte{}, nb[:k]...)
				v[p] = byte(k - p - 1)
				if fl := c05CheckNLRI(f, v, o, st); fl != nil {
					return fl
				}
				if p+1 < k { // two-octet length
					v2 := append([]byte{}, nb[:k]...)
					binary.BigEndian.PutUint16(v2[p:], uint16(k-p-2))
					if fl := c05CheckNLRI(f, v2, o, st); fl != nil {
						return fl
					}
				}
			}
		}
		return nil
	case c05SweepAttr:
		ab, err := verifgen.Attr(s, s.Intn(verifgen.NumAttrKinds)).Serialize(o)
		if err != nil || len(ab) < 3 {
			return nil
		}
		hdr := 3
		if ab[0]&0x10 != 0 {
			hdr = 4
		}
		for k := hdr; k <= len(ab); k++ {
			v := append([]byte{}, ab[:k]...)
			if hdr == 3 {
				v[2] = byte(k - 3)
			} else {
				binary.BigEndian.PutUint16(v[2:4], uint16(k-4))
			}
			if fl := c05CheckAttr(v, o, st); fl != nil {
				return fl
			}
			// inner length octets rewritten too (sub-TLVs)
			for p := hdr; p < hdr+6 && p < k; p++ {
				v2 := append([]byte{}, v...)
				v2[p] = byte(k - p - 1)
				if fl := c05CheckAttr(v2, o, st); fl != nil {
					return fl
				}
			}
		}
		return nil
	case c05Message, c05Body:
		return c05CheckMessage(in, o, entry, st)
	case c05Attr:
		// pick an attribute region out of the (mutated) message when possible
		data := in
		if len(in) > 23 {
			wl := int(binary.BigEndian.Uint16(in[19:21]))
			if 23+wl < len(in) {
				data = in[23+wl:]
			}
		}
		return c05CheckAttr(data, o, st)
	case c05NLRI:
		f := verifgen.Pick(s, verifgen.AllFamilies)
		data := in
		if len(in) > 19 {
			data = in[19+s.Intn(len(in)-19):]
		}
		return c05CheckNLRI(f, data, o, st)
	default:
		data := in
		if len(in) > 29 {
			data = in[29+s.Intn(len(in)-29):]
		}
		return c05CheckCap(data, st)
	}
}

func c05CheckMessage(in []byte, o *bgp.MarshallingOption, entry int, st *verifkit.Stats) *verifkit.Failure {
	parse := func(b []byte) (m *bgp.BGPMessage, err error, fail *verifkit.Failure) {
		fail = safely("parse", func() {
			if entry == c05Message {
				m, err = bgp.ParseBGPMessage(b, o)
				return
			}
			h := &bgp.BGPHeader{}
			if err = h.DecodeFromBytes(b, o); err != nil {
				return
			}
			if int(h.Len) > len(b) {
				err = fmt.Errorf("short")
				return
			}
			m, err = bgp.ParseBGPBody(h, b[19:h.Len], o)
		})
		return
	}
	// declared message = header length (if sane) — what follows must not matter
	declared, framed := len(in), false
	if len(in) >= 19 {
		if l := int(binary.BigEndian.Uint16(in[16:18])); l >= 19 && l <= len(in) {
			declared, framed = l, true
		}
	}
	g1 := guarded(in[:declared], 0xaa)
	keep := append([]byte{}, g1...)
	m1, e1, f := parse(g1)
	if f != nil {
		f.Msg += fmt.Sprintf(" (input %x)", in)
		return f
	}
	if !bytes.Equal(g1, keep) {
		return verifkit.Failf("input-modified", "the parser modified the caller's buffer: %x -> %x", keep, g1)
	}
	if m1 != nil && len(in) >= 19 {
		st.Nontrivial()
		st.Key(fmt.Sprintf("%d/%d/%v/%d", entry, in[18], e1 == nil, c05Class(m1)))
	}
	// same declared message followed by different trailing bytes in the same buffer
	withTail := append(append([]byte{}, in[:declared]...), bytes.Repeat([]byte{0x55}, 24)...)
	m2, e2, f := parse(guarded(withTail, 0x55))
	if f != nil {
		f.Msg += fmt.Sprintf(" (input %x + trailing bytes)", in[:declared])
		return f
	}
	if framed && !sameOutcome(m1, e1, m2, e2) {
		return verifkit.Failf("depends-on-trailing-bytes", "parsing %x gives a different result when other bytes follow the declared message: %v vs %v", in[:declared], e1, e2)
	}
	if f := useMessage(m1, o, in); f != nil {
		return f
	}
	if e1 != nil {
		st.Label("parse-error")
		if me, ok := e1.(*bgp.MessageError); ok && m1 != nil {
			st.Label(fmt.Sprintf("returned-with-error-handling-%d", me.ErrorHandling))
		}
	} else {
		st.Label("parse-ok")
	}
	return nil
}

func c05Class(m *bgp.BGPMessage) int {
	if u, ok := m.Body.(*bgp.BGPUpdate); ok {
		h := len(u.PathAttributes)
		for i, a := range u.PathAttributes {
			if i < 3 {
				h = h*31 + int(a.GetType())
			}
		}
		return h
	}
	return 0
}

func c05CheckAttr(data []byte, o *bgp.MarshallingOption, st *verifkit.Stats) *verifkit.Failure {
	g := guarded(data, 0xaa)
	keep := append([]byte{}, g...)
	var a bgp.PathAttributeInterface
	var err error
	if f := safely("GetPathAttribute+DecodeFromBytes", func() {
		a, err = bgp.GetPathAttribute(g)
		if err == nil {
			err = a.DecodeFromBytes(g, o)
		}
	}); f != nil {
		f.Msg += fmt.Sprintf(" (attribute bytes %x)", data)
		return f
	}
	if !bytes.Equal(g, keep) {
		return verifkit.Failf("input-modified", "attribute decoder modified the caller's buffer: %x -> %x", keep, g)
	}
	// the same bytes under the MRT option (the per-attribute path of pkg/packet/mrt: MP_REACH_NLRI holds the next hop only)
	if o == nil || !o.MRT {
		om := bgp.MarshallingOption{MRT: true}
		if o != nil {
			om = *o
			om.MRT = true
		}
		gm := guarded(data, 0xaa)
		if f := safely("GetPathAttribute+DecodeFromBytes (MRT option)", func() {
			if am, e := bgp.GetPathAttribute(gm); e == nil {
				if am.DecodeFromBytes(gm, &om) == nil {
					_ = am.Len(&om)
					_, _ = am.Serialize(&om)
					_, _ = renderAll(am)
				}
			}
		}); f != nil {
			f.Msg += fmt.Sprintf(" (attribute bytes %x)", data)
			return f
		}
		if !bytes.Equal(gm, keep) {
			return verifkit.Failf("input-modified", "attribute decoder (MRT option) modified the caller's buffer: %x -> %x", keep, gm)
		}
	}
	if a != nil && err == nil {
		if len(data) >= 3 {
			st.Nontrivial()
			st.Key(fmt.Sprintf("attr/%d/%v", data[1], err == nil))
		}
		if w, e := renderAll(a); e != nil {
			return verifkit.Failf("panic-render", "%s of attribute %s panicked: %v (bytes %x)", w, a.GetType(), e, data)
		}
		if f := safely("attribute Len/Serialize/Flat", func() {
			_ = a.Len(o)
			_, _ = a.Serialize(o)
			_ = a.Flat()
		}); f != nil {
			f.Msg += fmt.Sprintf(" (attribute bytes %x)", data)
			return f
		}
	}
	return nil
}

func c05CheckNLRI(f bgp.Family, data []byte, o *bgp.MarshallingOption, st *verifkit.Stats) *verifkit.Failure {
	g := guarded(data, 0xaa)
	keep := append([]byte{}, g...)
	var n bgp.NLRI
	var err error
	if fl := safely("NLRIFromSlice", func() { n, err = bgp.NLRIFromSlice(f, g, o) }); fl != nil {
		fl.Msg += fmt.Sprintf(" (family %s bytes %x)", f, data)
		return fl
	}
	if !bytes.Equal(g, keep) {
		return verifkit.Failf("input-modified", "%s NLRI decoder modified the caller's buffer: %x -> %x", f, keep, g)
	}
	st.Label("nlri-" + f.String())
	if n != nil && err == nil {
		st.Nontrivial()
		st.Key("nlri/" + f.String() + fmt.Sprintf("/%d", len(data)%8))
		if w, e := renderAll(n); e != nil {
			return verifkit.Failf("panic-render", "%s of %s NLRI panicked: %v (bytes %x)", w, f, e, data)
		}
		if fl := safely("NLRI Len/Serialize/Flat", func() {
			_ = n.Len(o)
			_, _ = n.Serialize(o)
			_ = n.Flat()
		}); fl != nil {
			fl.Msg += fmt.Sprintf(" (family %s bytes %x)", f, data)
			return fl
		}
		if l := n.Len(o); l > len(data) && f != bgp.RF_OPAQUE {
			return verifkit.Failf("nlri-len-beyond-input", "%s NLRI decoded from %d octets reports Len()=%d", f, len(data), l)
		}
	}
	return nil
}

func c05CheckCap(data []byte, st *verifkit.Stats) *verifkit.Failure {
	g := guarded(data, 0xaa)
	keep := append([]byte{}, g...)
	var c bgp.ParameterCapabilityInterface
	var err error
	if f := safely("DecodeCapability", func() { c, err = bgp.DecodeCapability(g) }); f != nil {
		f.Msg += fmt.Sprintf(" (capability bytes %x)", data)
		return f
	}
	if !bytes.Equal(g, keep) {
		return verifkit.Failf("input-modified", "capability decoder modified the caller's buffer")
	}
	if c != nil && err == nil {
		st.Nontrivial()
		st.Key(fmt.Sprintf("cap/%d/%d", c.Code(), len(data)%4))
		if w, e := renderAll(c); e != nil {
			return verifkit.Failf("panic-render", "%s of capability %d panicked: %v (bytes %x)", w, c.Code(), e, data)
		}
		if f := safely("capability Len/Serialize", func() {
			_ = c.Len()
			_, _ = c.Serialize()
		}); f != nil {
			f.Msg += fmt.Sprintf(" (capability bytes %x)", data)
			return f
		}
		if c.Len() > len(data) {
			return verifkit.Failf("cap-len-beyond-input", "capability %d decoded from %d octets reports Len()=%d", c.Code(), len(data), c.Len())
		}
	}
	return nil
}

func TestVerifC05(t *testing.T) {
	verifkit.Run(t, "C05", drawC05, runC05)
}

// FuzzVerifC05 is the coverage-guided entry (thorough tier): the fuzz input is
// {entry byte, raw-mode byte, recipe/raw bytes}.
func FuzzVerifC05(f *testing.F) {
	f.Add([]byte{0, 0, 1, 2, 3, 4, 5, 6, 7, 8})
	f.Add(append([]byte{0, 1}, bytes.Repeat([]byte{0xff}, 16)...))
	for e := 0; e < numC05Entries; e++ {
		f.Add([]byte{byte(e), 0, 9, 9, 9, 9, 1, 0, 0, 0, 7, 7, 7, 7, 3, 0, 0, 0, 2, 0, 0, 0, 5, 5, 5, 5})
	}
	f.Fuzz(func(t *testing.T, data []byte) {
		if len(data) < 2 {
			return
		}
		c := c05Case{Entry: int(data[0])}
		if data[1]&1 == 1 {
			c.Raw = data[2:]
		} else {
			src := data[2:]
			for len(src) >= 4 {
				c.Recipe = append(c.Recipe, binary.LittleEndian.Uint32(src))
				src = src[4:]
			}
		}
		if fail := runC05(c, verifkit.Scratch("C05")); fail != nil {
			t.Fatalf("VERIF-FAIL C05 sig=%q: %s", fail.Sig, fail.Msg)
		}
	})
}

func init() {
	verifkit.RegisterProbe("C05", "vpls-bgp-ad", func(st *verifkit.Stats) *verifkit.Failure {
		// a 12-octet BGP-AD VPLS NLRI (RFC 6074) followed by a second NLRI
		data := append([]byte{0, 12, 0, 0, 0, 1, 0, 0, 0, 1, 10, 0, 0, 1}, 0, 12, 0, 0, 0, 1, 0, 0, 0, 2, 10, 0, 0, 2)
		return c05CheckNLRI(bgp.RF_VPLS, data, &bgp.MarshallingOption{}, st)
	})
}
