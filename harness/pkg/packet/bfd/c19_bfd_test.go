package bfd

// C19 (BFD part) — the BFD control packet codec decodes safely and round-trips.
//
// (a) decode safety: arbitrary bytes and structure-aware mutants of valid packets go to
//     BFDHeader.UnmarshalBinary.  Oracle: no panic; the caller's buffer is unchanged; the slice
//     handed in has cap==len inside a poisoned buffer (a read past the data is a visible bounds
//     failure); the same bytes with spare capacity behind them decode identically (nothing
//     beyond len is consulted); the same declared packet followed by two different tails
//     decodes identically.
// (b) round trip: every header the encoder accepts (Version 0..7, Diag 0..31, State 0..3, P/F,
//     every numeric field) marshals, unmarshals to an equal struct and re-marshals to the
//     same bytes.  The package has no authentication section support, so there is no
//     "with auth" variant to construct; packets with the A bit and a longer Length are
//     produced as decode inputs only.
//
// Non-trivial rule: (a) the input passes the header check (>=24 octets and Length octet ==
// len); (b) a BFD control packet has neither embedded BGP messages nor entries, so a
// round-trip case counts as non-trivial when at least two header fields are non-zero.

import (
	"bytes"
	"encoding/binary"
	"fmt"
	"reflect"
	"testing"

	"github.com/osrg/gobgp/v4/internal/pkg/verifgen"
	"github.com/osrg/gobgp/v4/internal/pkg/verifkit"
	"pgregory.net/rapid"
)

// KnownIssues: key -> true = mask the defect (the test passes), false = let it fail.
// (no BFD defect is known at the moment)
var KnownIssues = map[string]bool{}

type c19BfdCase struct {
	Recipe []uint32 `json:"recipe"`
	Raw    []byte   `json:"raw,omitempty"`
	Mode   int      `json:"mode"`
}

const (
	c19BfdRoundTrip = iota
	c19BfdMutant
	c19BfdRaw
	c19BfdSweep
	c19BfdModes
)

func drawC19Bfd(t *rapid.T) c19BfdCase {
	c := c19BfdCase{Mode: rapid.IntRange(0, c19BfdModes-1).Draw(t, "mode")}
	if c.Mode == c19BfdRaw {
		c.Raw = rapid.SliceOfN(rapid.Byte(), 0, 80).Draw(t, "raw")
	}
	c.Recipe = rapid.SliceOfN(rapid.Uint32(), 40, 240).Draw(t, "recipe")
	return c
}

func c19BfdGuarded(b []byte, poison byte) []byte {
	buf := make([]byte, len(b)+64)
	for i := range buf {
		buf[i] = poison
	}
	copy(buf[32:], b)
	return buf[32 : 32+len(b) : 32+len(b)]
}

// c19BfdSlack returns a copy of b with len(b) octets visible and spare capacity behind it filled with fill.
func c19BfdSlack(b []byte, fill byte) []byte {
	buf := bytes.Repeat([]byte{fill}, len(b)+96)
	copy(buf, b)
	return buf[:len(b)]
}

func c19BfdTail(n int, variant byte) []byte {
	t := make([]byte, n)
	x := uint32(0x9e3779b9)
	for i := range t {
		x ^= x << 13
		x ^= x >> 17
		x ^= x << 5
		t[i] = byte(x)
		if variant != 0 {
			t[i] = ^t[i]
		}
	}
	return t
}

func c19BfdHeader(s *verifgen.Src) *BFDHeader {
	h := &BFDHeader{
		Version:               uint8(verifgen.Pick(s, []int{1, 0, 7, 2, 3, 4, 5, 6})),
		Diagnostic:            DiagnosticType(s.Intn(32)),
		State:                 StateType(s.Intn(4)),
		Poll:                  s.Bool(),
		Final:                 s.Bool(),
		DetectTimeMultiplier:  s.U8(),
		MyDiscriminator:       s.U32(),
		YourDiscriminator:     s.U32(),
		DesiredMinTxInterval:  s.U32(),
		RequiredMinRxInterval: s.U32(),
	}
	return h
}

func c19BfdDecode(b []byte) (h *BFDHeader, err error, fail *verifkit.Failure) {
	defer func() {
		if r := recover(); r != nil {
			fail = verifkit.Failf("panic-decode", "UnmarshalBinary panicked: %v (input %x)", r, b)
		}
	}()
	h = &BFDHeader{}
	err = h.UnmarshalBinary(b)
	return
}

func c19BfdOutcome(h *BFDHeader, err error) string {
	if err != nil {
		return "error: " + err.Error()
	}
	return fmt.Sprintf("%+v", *h)
}

// c19BfdCheckDecode runs every decode-safety oracle on one input.
func c19BfdCheckDecode(in []byte, st *verifkit.Stats) *verifkit.Failure {
	g := c19BfdGuarded(in, 0xaa)
	keep := append([]byte{}, g...)
	h, err, f := c19BfdDecode(g)
	if f != nil {
		return f
	}
	if !bytes.Equal(g, keep) {
		return verifkit.Failf("input-modified", "UnmarshalBinary modified the caller's buffer: %x -> %x", keep, g)
	}
	st.SubEval(1)
	if len(in) >= packetSizeMin && int(in[3]) == len(in) {
		st.Nontrivial()
		st.Key(fmt.Sprintf("dec/%d/%d/%d/%v", in[0]>>5, in[1]>>6, len(in), err == nil))
	}
	if err == nil {
		st.Label("decode-ok")
		st.Label(fmt.Sprintf("decoded-state-%d", h.State))
		if len(in) > packetSizeMin {
			st.Label("decode-ok-longer-than-24")
		}
	} else {
		st.Label("decode-error")
	}
	// nothing beyond len may be consulted
	h2, err2, f := c19BfdDecode(c19BfdSlack(in, 0x18))
	if f != nil {
		return f
	}
	if a, b := c19BfdOutcome(h, err), c19BfdOutcome(h2, err2); a != b {
		return verifkit.Failf("reads-beyond-len", "decoding %x depends on the spare capacity behind the slice: %s vs %s", in, a, b)
	}
	// the declared packet followed by two different tails
	// (only when the header declares a length that lies inside the input: a truncated packet
	// legitimately continues in whatever follows)
	if len(in) < 4 || int(in[3]) < packetSizeMin || int(in[3]) > len(in) {
		return nil
	}
	declared := int(in[3])
	ta := append(append([]byte{}, in[:declared]...), c19BfdTail(16, 0)...)
	tb := append(append([]byte{}, in[:declared]...), c19BfdTail(16, 1)...)
	ha, ea, f := c19BfdDecode(c19BfdGuarded(ta, 0x55))
	if f != nil {
		return f
	}
	hb, eb, f := c19BfdDecode(c19BfdGuarded(tb, 0x33))
	if f != nil {
		return f
	}
	if a, b := c19BfdOutcome(ha, ea), c19BfdOutcome(hb, eb); a != b {
		return verifkit.Failf("depends-on-trailing-bytes", "packet %x decodes differently depending on the bytes that follow it: %s vs %s", in[:declared], a, b)
	}
	return nil
}

func c19BfdMutate(s *verifgen.Src, wire []byte) []byte {
	b := append([]byte{}, wire...)
	n := 1 + s.Intn(3)
	fix := s.Chance(3, 4)
	for k := 0; k < n && len(b) > 0; k++ {
		switch s.Intn(8) {
		case 0:
			b = b[:s.Intn(len(b)+1)]
		case 1:
			b = append(b, s.Bytes(1+s.Intn(40))...)
		case 2:
			b[s.Intn(len(b))] ^= 1 << uint(s.Intn(8))
		case 3:
			b[s.Intn(len(b))] = verifgen.Pick(s, []byte{0, 1, 0xff, 0x7f, 0x80, 23, 24, 25, 0x20, 0xe0})
		case 4:
			if len(b) >= 2 {
				binary.BigEndian.PutUint16(b[s.Intn(len(b)-1):], verifgen.Pick(s, []uint16{0, 0xffff, uint16(len(b)), uint16(len(b) + 1), uint16(len(b) - 1)}))
			}
		case 5:
			if len(b) >= 4 {
				binary.BigEndian.PutUint32(b[s.Intn(len(b)-3):], verifgen.Pick(s, []uint32{0, 0xffffffff, uint32(len(b)), uint32(len(b) + 1), uint32(len(b) - 1)}))
			}
		case 6: // hostile constant in the Length octet
			if len(b) >= 4 {
				b[3] = verifgen.Pick(s, []byte{0, 0xff, byte(len(b) + 1), byte(len(b) - 1), 23, 24, 25})
				fix = false
			}
		default: // set the A (authentication present) bit and append a fake auth section
			if len(b) >= 4 {
				b[1] |= 0x04
				b = append(b, append([]byte{1, byte(3 + s.Intn(10)), 1}, s.Bytes(s.Intn(10))...)...)
			}
		}
	}
	if fix && len(b) >= 4 && len(b) <= 255 {
		b[3] = byte(len(b))
	}
	return b
}

func runC19Bfd(c c19BfdCase, st *verifkit.Stats) *verifkit.Failure {
	s := verifgen.NewSrc(c.Recipe)
	mode := ((c.Mode % c19BfdModes) + c19BfdModes) % c19BfdModes
	st.Label([]string{"mode-roundtrip", "mode-mutant", "mode-raw", "mode-sweep"}[mode])
	h := c19BfdHeader(s)
	wire, err := h.MarshalBinary()
	if err != nil {
		return verifkit.Failf("marshal", "MarshalBinary of a valid header %+v failed: %v", *h, err)
	}
	switch mode {
	case c19BfdRoundTrip:
		st.Label(fmt.Sprintf("version-%d", h.Version))
		st.Label(fmt.Sprintf("state-%d", h.State))
		st.Label(fmt.Sprintf("poll=%v,final=%v", h.Poll, h.Final))
		if h.Diagnostic >= DiagnosticReservedStart {
			st.Label("diag-reserved")
		} else {
			st.Label(fmt.Sprintf("diag-%d", h.Diagnostic))
		}
		if len(wire) != packetSizeMin || int(wire[3]) != len(wire) {
			return verifkit.Failf("marshal-length", "marshalled packet has %d octets, Length octet %d", len(wire), wire[3])
		}
		keep := append([]byte{}, wire...)
		p, perr, f := c19BfdDecode(c19BfdGuarded(wire, 0xaa))
		if f != nil {
			return f
		}
		if perr != nil {
			return verifkit.Failf("reparse", "marshalled packet %x of %+v does not unmarshal: %v", wire, *h, perr)
		}
		if !reflect.DeepEqual(*h, *p) {
			return verifkit.Failf("not-equal", "unmarshalled header differs: constructed %+v parsed %+v (wire %x)", *h, *p, wire)
		}
		wire2, err := p.MarshalBinary()
		if err != nil || !bytes.Equal(keep, wire2) {
			return verifkit.Failf("fixpoint", "re-marshalling the parsed header gives %x, first encoding %x (%v)", wire2, keep, err)
		}
		st.SubEval(2)
		nz := 0
		for _, v := range []bool{h.Version != 0, h.Diagnostic != 0, h.State != 0, h.Poll, h.Final, h.DetectTimeMultiplier != 0,
			h.MyDiscriminator != 0, h.YourDiscriminator != 0, h.DesiredMinTxInterval != 0, h.RequiredMinRxInterval != 0} {
			if v {
				nz++
			}
		}
		if nz >= 2 {
			st.Nontrivial()
		}
		return nil
	case c19BfdMutant:
		return c19BfdCheckDecode(c19BfdMutate(s, wire), st)
	case c19BfdRaw:
		in := c.Raw
		if len(in) == 0 {
			in = s.Bytes(s.Intn(64))
		}
		return c19BfdCheckDecode(append([]byte{}, in...), st)
	default: // systematic truncation / extension with the Length octet fixed up (and left alone)
		ext := append(append([]byte{}, wire...), s.Bytes(s.Intn(20))...)
		for k := 0; k <= len(ext); k++ {
			v := append([]byte{}, ext[:k]...)
			if f := c19BfdCheckDecode(v, st); f != nil {
				return f
			}
			if k >= 4 {
				v2 := append([]byte{}, v...)
				v2[3] = byte(k)
				if f := c19BfdCheckDecode(v2, st); f != nil {
					return f
				}
			}
		}
		return nil
	}
}

func TestVerifC19_bfd(t *testing.T) {
	verifkit.Run(t, "C19_bfd", drawC19Bfd, runC19Bfd)
}

// FuzzVerifC19_bfd: {mode byte, payload}; odd mode bytes feed the payload to the decoder as raw bytes,
// even ones use it as a recipe.
func FuzzVerifC19_bfd(f *testing.F) {
	f.Add([]byte{1, 0x20, 0xc0, 0x03, 0x18, 0, 0, 0, 1, 0, 0, 0, 2, 0, 0, 0, 3, 0, 0, 0, 4, 0, 0, 0, 0})
	f.Add([]byte{1, 0x20, 0xc4, 0x03, 0x1c, 0, 0, 0, 1, 0, 0, 0, 2, 0, 0, 0, 3, 0, 0, 0, 4, 0, 0, 0, 0, 1, 4, 1, 0})
	f.Add([]byte{0, 9, 9, 9, 9, 1, 0, 0, 0})
	f.Add([]byte{2, 9, 9, 9, 9, 1, 0, 0, 0})
	f.Fuzz(func(t *testing.T, data []byte) {
		if len(data) < 1 {
			return
		}
		var c c19BfdCase
		if data[0]&1 == 1 {
			c.Mode, c.Raw = c19BfdRaw, data[1:]
			if len(c.Raw) == 0 {
				return
			}
		} else {
			c.Mode = []int{c19BfdRoundTrip, c19BfdMutant, c19BfdSweep}[int(data[0]>>1)%3]
			src := data[1:]
			for len(src) >= 4 {
				c.Recipe = append(c.Recipe, binary.LittleEndian.Uint32(src))
				src = src[4:]
			}
		}
		if fail := runC19Bfd(c, verifkit.Scratch("C19_bfd")); fail != nil {
			t.Fatalf("VERIF-FAIL C19_bfd sig=%q: %s", fail.Sig, fail.Msg)
		}
	})
}
