package bmp

// C19 (BMP part) — the BMP codec decodes safely and round-trips.
//
// (a) decode safety.  Inputs: arbitrary bytes and structure-aware mutants of valid messages
//     (truncation at every offset with the common-header Length fixed up, flips, 0/0xff../len±1
//     in 16/32-bit fields, foreign message types over a valid body).  Entry points:
//     ParseBMPMessage, ParseBMPMessageWithOptions, BMPHeader/BMPPeerHeader.DecodeFromBytes, the
//     exported ParseBody of every message type, SplitBMP.  Oracle: no panic; caller's buffer
//     unchanged; slices have cap==len inside a poisoned buffer; spare capacity behind a slice
//     is never consulted; a declared message followed by two different tails decodes
//     identically; the splitter returns advance<=len(data), a token that is a prefix of data,
//     and lets a bufio.Scanner terminate.
// (b) round trip of every message the package constructs: Route Monitoring (message object and
//     raw payload form), Statistics Report (every stat type and TLV width), Peer Down (every
//     reason incl. RFC 9069 TLVs), Peer Up (with Information TLVs), Initiation, Termination,
//     Route Mirroring; every peer type x every combination of the L/A/O (and, for Loc-RIB, F)
//     flags, IPv4 and IPv6 peers; embedded BGP messages from verifgen.  Oracle: Serialize
//     succeeds, ParseBMPMessage(WithOptions) succeeds, canonical JSON of the parsed message
//     equals that of the constructed one, re-serialising gives identical bytes, the options
//     callback sees the constructed peer header, SplitBMP frames exactly the message.
//
// Non-trivial rule: (a) version 3, a known message type and the declared length inside the
// input (a body decoder is reached); (b) the message embeds >= 1 BGP message or >= 2 TLVs.

import (
	"bufio"
	"bytes"
	"encoding/binary"
	"encoding/json"
	"fmt"
	"math"
	"net/netip"
	"testing"

	"github.com/osrg/gobgp/v4/internal/pkg/verifgen"
	"github.com/osrg/gobgp/v4/internal/pkg/verifkit"
	"github.com/osrg/gobgp/v4/pkg/packet/bgp"
	"pgregory.net/rapid"
)

// KnownIssues: key -> true = mask the defect, false = let the test fail on it.
// (empty: bmp-timestamp-ceil, bmp-parse-reslices-beyond-len and bmp-split-length-below-header are
// fixed; the probes below keep their reproducers)
var KnownIssues = map[string]bool{}

// c19BmpProbes: deterministic reproducers, one per finding (fixed or open), Sig = the key.
var c19BmpProbes = map[string]func() *verifkit.Failure{
	// BMPPeerHeader.Serialize used math.Ceil for the microsecond field.
	"bmp-timestamp-ceil": func() *verifkit.Failure {
		stamp := float64(1) + float64(100000)*math.Pow10(-6) // what DecodeFromBytes yields for sec=1 usec=100000
		h := NewBMPPeerHeader(BMP_PEER_TYPE_GLOBAL, 0, 0, netip.MustParseAddr("10.0.0.1"), 65000, netip.MustParseAddr("10.0.0.2"), stamp)
		w, err := h.Serialize()
		if err != nil || len(w) < BMP_PEER_HEADER_SIZE {
			return verifkit.Failf("bmp-timestamp-ceil", "peer header does not serialise: %v", err)
		}
		if sec, usec := binary.BigEndian.Uint32(w[34:38]), binary.BigEndian.Uint32(w[38:42]); sec != 1 || usec != 100000 {
			return verifkit.Failf("bmp-timestamp-ceil", "Timestamp 1.1 (sec=1 usec=100000 as decoded) is written as sec=%d usec=%d", sec, usec)
		}
		return nil
	},
	// parseBMPMessage sliced data[6:Length] up to the capacity of the slice.
	"bmp-parse-reslices-beyond-len": func() *verifkit.Failure {
		buf := make([]byte, 6, 64)
		copy(buf, []byte{BMP_VERSION, 0, 0, 0, 18, BMP_MSG_INITIATION})
		var m *BMPMessage
		var err error
		if f := c19BmpSafely("ParseBMPMessage", func() { m, err = ParseBMPMessage(buf) }); f != nil {
			f.Sig = "bmp-parse-reslices-beyond-len"
			return f
		}
		if err == nil {
			return verifkit.Failf("bmp-parse-reslices-beyond-len", "ParseBMPMessage on 6 octets (Length field 18) inside a 64-octet buffer succeeds: %s", c19BmpJSON(m))
		}
		return nil
	},
	// SplitBMP accepted Length < 6.
	"bmp-split-length-below-header": func() *verifkit.Failure {
		in := []byte{BMP_VERSION, 0, 0, 0, 0, BMP_MSG_INITIATION}
		adv, tok, err := SplitBMP(in, false)
		if err == nil && tok != nil {
			return verifkit.Failf("bmp-split-length-below-header", "SplitBMP(%x) returns advance %d and a token of %d octets (shorter than a header)", in, adv, len(tok))
		}
		in = []byte{BMP_VERSION, 0, 0, 0, 3, BMP_MSG_INITIATION}
		adv, tok, err = SplitBMP(in, false)
		if err == nil && tok != nil {
			return verifkit.Failf("bmp-split-length-below-header", "SplitBMP(%x) returns advance %d and a token of %d octets (shorter than a header)", in, adv, len(tok))
		}
		return nil
	},
}

type c19BmpCase struct {
	Recipe []uint32 `json:"recipe"`
	Raw    []byte   `json:"raw,omitempty"`
	Mode   int      `json:"mode"`
}

const (
	c19BmpRoundTrip = iota
	c19BmpMutant
	c19BmpRaw
	c19BmpSweep
	c19BmpSplit
	c19BmpBody
	c19BmpModes
)

var c19BmpModeNames = []string{"mode-roundtrip", "mode-mutant", "mode-raw", "mode-sweep", "mode-split", "mode-body"}

func drawC19Bmp(t *rapid.T) c19BmpCase {
	c := c19BmpCase{Mode: rapid.IntRange(0, c19BmpModes-1).Draw(t, "mode")}
	if c.Mode == c19BmpRaw || ((c.Mode == c19BmpSplit || c.Mode == c19BmpBody) && rapid.Bool().Draw(t, "rawinput")) {
		c.Raw = rapid.SliceOfN(rapid.Byte(), 0, 120).Draw(t, "raw")
	}
	c.Recipe = rapid.SliceOfN(rapid.Uint32(), 40, 240).Draw(t, "recipe")
	return c
}

// ---------------------------------------------------------------------------
// helpers
// ---------------------------------------------------------------------------

func c19BmpGuarded(b []byte, poison byte) []byte {
	buf := make([]byte, len(b)+64)
	for i := range buf {
		buf[i] = poison
	}
	copy(buf[32:], b)
	return buf[32 : 32+len(b) : 32+len(b)]
}

// c19BmpSlack: b with spare (zeroed) capacity behind it.
func c19BmpSlack(b []byte) []byte {
	buf := make([]byte, len(b)+4200)
	copy(buf, b)
	return buf[:len(b)]
}

func c19BmpTail(n int, variant byte) []byte {
	t := make([]byte, n)
	x := uint32(0x2545f491)
	for i := range t {
		x ^= x << 13
		x ^= x >> 17
		x ^= x << 5
		t[i] = byte(x) & 0x07
		if variant != 0 {
			t[i] ^= 0x07
		}
	}
	return t
}

func c19BmpJSON(v any) string {
	b, err := json.Marshal(v)
	if err != nil {
		return "json-error: " + err.Error()
	}
	var x any
	if json.Unmarshal(b, &x) != nil {
		return string(b)
	}
	b, _ = json.Marshal(c19BmpCanon(x))
	return string(b)
}

func c19BmpCanon(x any) any {
	switch v := x.(type) {
	case []any:
		if len(v) == 0 {
			return nil
		}
		for i := range v {
			v[i] = c19BmpCanon(v[i])
		}
		return v
	case map[string]any:
		for k, e := range v {
			if c := c19BmpCanon(e); c == nil {
				delete(v, k)
			} else {
				v[k] = c
			}
		}
		if len(v) == 0 {
			return nil
		}
		return v
	case string:
		if v == "" {
			return nil
		}
	}
	return x
}

func c19BmpSafely(what string, f func()) (fail *verifkit.Failure) {
	defer func() {
		if r := recover(); r != nil {
			fail = verifkit.Failf("panic-"+what, "%s panicked: %v", what, r)
		}
	}()
	f()
	return nil
}

var c19BmpTypeNames = []string{"route-monitoring", "statistics-report", "peer-down", "peer-up", "initiation", "termination", "route-mirroring"}

// ---------------------------------------------------------------------------
// generator
// ---------------------------------------------------------------------------

type c19BmpBuilt struct {
	msg     *BMPMessage
	opt     *bgp.MarshallingOption
	name    string
	rich    bool
	payload *bgp.BGPMessage // Route Monitoring in payload form: the message the payload encodes
	issue   string
}

func c19BmpString(s *verifgen.Src, max int) string {
	switch s.Intn(4) {
	case 0:
		return ""
	case 1:
		return "gobgp-" + fmt.Sprint(s.Intn(1000))
	case 2:
		return string(s.Bytes(s.Len(max))) // arbitrary octets: the TLV is just a byte string on the wire
	default:
		return "réseau-東京"
	}
}

func c19BmpPeerHeader(s *verifgen.Src, st *verifkit.Stats, issue *string) (BMPPeerHeader, bool) {
	t := uint8(s.Intn(4))
	flags := uint8(0)
	for _, f := range []uint8{BMP_PEER_FLAG_POST_POLICY, BMP_PEER_FLAG_TWO_AS, BMP_PEER_FLAG_ADJ_RIB_TYP} {
		if s.Bool() {
			flags |= f
		}
	}
	var addr netip.Addr
	v6 := false
	if t == BMP_PEER_TYPE_LOCAL_RIB {
		// RFC 9069: bit 0 is the F (filtered) flag, the peer address is zero
		if s.Bool() {
			flags |= BMP_PEER_FLAG_IPV6
		}
	} else if s.Bool() {
		addr, v6 = s.V6(), true
	} else {
		addr = s.V4()
	}
	dist := uint64(0)
	if t == BMP_PEER_TYPE_L3VPN || s.Chance(1, 4) {
		dist = uint64(s.U32())<<32 | uint64(s.U32())
	}
	sec := s.U32()
	usec := uint32(0)
	if s.Chance(1, 4) {
		usec = uint32(1 + s.Intn(999999))
	}
	// exactly the value DecodeFromBytes produces for (sec, usec)
	stamp := float64(sec) + float64(usec)*math.Pow10(-6)
	h := NewBMPPeerHeader(t, flags, dist, addr, verifgen.ASN(s), s.V4(), stamp)
	if st != nil {
		st.Label(fmt.Sprintf("peer-type-%d flags=%#02x v6=%v", t, h.Flags&0xf0, v6))
		if usec != 0 {
			st.Label("timestamp-with-microseconds")
		}
	}
	return *h, v6
}

func c19BmpInfoTLVs(s *verifgen.Src, max int) []BMPInfoTLVInterface {
	n := s.Len(max)
	var out []BMPInfoTLVInterface
	for i := 0; i < n; i++ {
		if s.Chance(1, 4) {
			out = append(out, NewBMPInfoTLVUnknown(uint16(4+s.Intn(200)), s.Bytes(s.Len(40))))
		} else {
			out = append(out, NewBMPInfoTLVString(uint16(s.Intn(4)), c19BmpString(s, 300)))
		}
	}
	return out
}

var (
	c19BmpStat32 = []uint16{BMP_STAT_TYPE_REJECTED, BMP_STAT_TYPE_DUPLICATE_PREFIX, BMP_STAT_TYPE_DUPLICATE_WITHDRAW, BMP_STAT_TYPE_INV_UPDATE_DUE_TO_CLUSTER_LIST_LOOP,
		BMP_STAT_TYPE_INV_UPDATE_DUE_TO_AS_PATH_LOOP, BMP_STAT_TYPE_INV_UPDATE_DUE_TO_ORIGINATOR_ID, BMP_STAT_TYPE_INV_UPDATE_DUE_TO_AS_CONFED_LOOP,
		BMP_STAT_TYPE_WITHDRAW_UPDATE, BMP_STAT_TYPE_WITHDRAW_PREFIX, BMP_STAT_TYPE_DUPLICATE_UPDATE}
	c19BmpStat64  = []uint16{BMP_STAT_TYPE_ADJ_RIB_IN, BMP_STAT_TYPE_LOC_RIB, BMP_STAT_TYPE_ADJ_RIB_OUT_PRE_POLICY, BMP_STAT_TYPE_ADJ_RIB_OUT_POST_POLICY}
	c19BmpStatAfi = []uint16{BMP_STAT_TYPE_PER_AFI_SAFI_ADJ_RIB_IN, BMP_STAT_TYPE_PER_AFI_SAFI_LOC_RIB, BMP_STAT_TYPE_PER_AFI_SAFI_ADJ_RIB_OUT_PRE_POLICY, BMP_STAT_TYPE_PER_AFI_SAFI_ADJ_RIB_OUT_POST_POLICY}
)

func c19BmpU64(s *verifgen.Src) uint64 { return uint64(s.U32())<<32 | uint64(s.U32()) }

func c19BmpBuild(s *verifgen.Src, st *verifkit.Stats) c19BmpBuilt {
	var b c19BmpBuilt
	kind := s.Intn(7)
	b.name = c19BmpTypeNames[kind]
	b.opt = &bgp.MarshallingOption{}
	label := func(l string) {
		if st != nil {
			st.Label(l)
		}
	}
	switch kind {
	case BMP_MSG_INITIATION:
		info := c19BmpInfoTLVs(s, 5)
		b.msg, b.rich = NewBMPInitiation(info), len(info) >= 2
		return b
	case BMP_MSG_TERMINATION:
		n := s.Len(4)
		var info []BMPTermTLVInterface
		for i := 0; i < n; i++ {
			switch s.Intn(3) {
			case 0:
				info = append(info, NewBMPTermTLVString(BMP_TERM_TLV_TYPE_STRING, c19BmpString(s, 200)))
			case 1:
				info = append(info, NewBMPTermTLV16(BMP_TERM_TLV_TYPE_REASON, uint16(verifgen.Pick(s, []int{0, 1, 2, 3, 4, 5, 65535}))))
			default:
				info = append(info, NewBMPTermTLVUnknown(uint16(2+s.Intn(300)), s.Bytes(s.Len(30))))
			}
		}
		b.msg, b.rich = NewBMPTermination(info), len(info) >= 2
		return b
	}
	ph, v6 := c19BmpPeerHeader(s, st, &b.issue)
	switch kind {
	case BMP_MSG_ROUTE_MONITORING:
		var msg *bgp.BGPMessage
		var fams []bgp.Family
		if s.Chance(1, 8) {
			msg, fams = verifgen.Message(s)
		} else {
			msg, fams = verifgen.Update(s)
		}
		b.opt = verifgen.Options(s, fams...)
		verifgen.NormalisePathIDs(msg, b.opt)
		b.msg = NewBMPRouteMonitoring(ph, msg)
		if s.Chance(1, 3) { // what the daemon sends: the received octets
			msg.Header.Len = 0
			if pb, err := msg.Serialize(b.opt); err == nil {
				b.msg.Body.(*BMPRouteMonitoring).BGPUpdate = nil
				b.msg.Body.(*BMPRouteMonitoring).BGPUpdatePayload = pb
				b.payload = msg
				label("route-monitoring-payload-form")
			}
			msg.Header.Len = 0
		}
		b.rich = true
	case BMP_MSG_STATISTICS_REPORT:
		n := s.Len(8)
		var stats []BMPStatsTLVInterface
		for i := 0; i < n; i++ {
			switch s.Intn(5) {
			case 0:
				stats = append(stats, NewBMPStatsTLV32(verifgen.Pick(s, c19BmpStat32), s.U32()))
			case 1:
				stats = append(stats, NewBMPStatsTLV64(verifgen.Pick(s, c19BmpStat64), c19BmpU64(s)))
			case 2:
				f := verifgen.Family(s)
				stats = append(stats, NewBMPStatsTLVPerAfiSafi64(verifgen.Pick(s, c19BmpStatAfi), f.Afi(), f.Safi(), c19BmpU64(s)))
			case 3: // a stat type this implementation does not know, 4-octet counter
				stats = append(stats, NewBMPStatsTLV32(uint16(18+s.Intn(1000)), s.U32()))
			default: // ... 8-octet gauge
				stats = append(stats, NewBMPStatsTLV64(uint16(18+s.Intn(1000)), c19BmpU64(s)))
			}
		}
		b.msg, b.rich = NewBMPStatisticsReport(ph, stats), len(stats) >= 2
	case BMP_MSG_PEER_DOWN_NOTIFICATION:
		reason := uint8(verifgen.Pick(s, []int{1, 2, 3, 4, 5, 6, 0, 7, 255}))
		label(fmt.Sprintf("peer-down-reason-%d", reason))
		switch reason {
		case BMP_PEER_DOWN_REASON_LOCAL_BGP_NOTIFICATION, BMP_PEER_DOWN_REASON_REMOTE_BGP_NOTIFICATION:
			b.opt = &bgp.MarshallingOption{ExtendedMessage: s.Chance(1, 3)}
			b.msg, b.rich = NewBMPPeerDownNotification(ph, reason, verifgen.Notification(s), nil), true
		case BMP_PEER_DOWN_REASON_LOCAL_NO_NOTIFICATION:
			data := []byte{0, byte(s.Intn(30))} // FSM event code
			if s.Chance(1, 4) {
				data = s.Bytes(s.Len(20))
			}
			b.msg = NewBMPPeerDownNotification(ph, reason, nil, data)
		case BMP_PEER_DOWN_REASON_TLV_FOLLOWS:
			info := c19BmpInfoTLVs(s, 4)
			b.msg, b.rich = NewBMPPeerDownNotification(ph, reason, nil, nil, info...), len(info) >= 2
		default:
			b.msg = NewBMPPeerDownNotification(ph, reason, nil, nil)
		}
	case BMP_MSG_PEER_UP_NOTIFICATION:
		local := s.V4()
		if v6 {
			local = s.V6()
		}
		info := c19BmpInfoTLVs(s, 3)
		b.msg, b.rich = NewBMPPeerUpNotification(ph, local, s.U16(), s.U16(), verifgen.Open(s), verifgen.Open(s), info...), true
	default: // route mirroring
		n := 1 + s.Len(4)
		var info []BMPRouteMirrTLVInterface
		for i := 0; i < n; i++ {
			switch s.Intn(4) {
			case 0, 1:
				msg, _ := verifgen.Message(s)
				verifgen.NormalisePathIDs(msg, nil)
				if _, err := msg.Serialize(); err != nil {
					continue // more than 4096 octets: not a message the mirroring TLV (serialised without options) can carry
				}
				msg.Header.Len = 0
				info = append(info, NewBMPRouteMirrTLVBGPMsg(BMP_ROUTE_MIRRORING_TLV_TYPE_BGP_MSG, msg))
				b.rich = true
			case 2:
				info = append(info, NewBMPRouteMirrTLV16(BMP_ROUTE_MIRRORING_TLV_TYPE_INFO, uint16(verifgen.Pick(s, []int{0, 1, 2, 65535}))))
			default:
				info = append(info, NewBMPRouteMirrTLVUnknown(uint16(2+s.Intn(300)), s.Bytes(s.Len(30))))
			}
		}
		b.msg = NewBMPRouteMirroring(ph, info)
		b.rich = b.rich || len(info) >= 2
	}
	return b
}

// ---------------------------------------------------------------------------
// round trip
// ---------------------------------------------------------------------------

func c19BmpRoundTripCheck(b c19BmpBuilt, st *verifkit.Stats) *verifkit.Failure {
	known := func(f *verifkit.Failure) *verifkit.Failure {
		if b.issue != "" {
			f.Sig = b.issue + ":" + f.Sig
		}
		return f
	}
	st.Label("rt-" + b.name)
	var wire []byte
	var err error
	if f := c19BmpSafely("serialize", func() { wire, err = b.msg.Serialize(b.opt) }); f != nil {
		return known(f)
	}
	if err != nil {
		if rm, ok := b.msg.Body.(*BMPRouteMonitoring); ok && rm.BGPUpdate != nil {
			rm.BGPUpdate.Header.Len = 0
			if _, berr := rm.BGPUpdate.Serialize(b.opt); berr != nil {
				st.Label("over-limit")
				return nil // the embedded BGP message exceeds the session's maximum message size
			}
		}
		return known(verifkit.Failf("serialize", "%s does not serialise: %v", b.name, err))
	}
	if len(wire) < BMP_HEADER_SIZE || binary.BigEndian.Uint32(wire[1:5]) != uint32(len(wire)) || b.msg.Len() != len(wire) {
		return known(verifkit.Failf("length-field", "%s: %d octets on the wire, header Length %d, Len() %d", b.name, len(wire), binary.BigEndian.Uint32(wire[1:5]), b.msg.Len()))
	}
	keep := append([]byte{}, wire...)
	g := c19BmpGuarded(wire, 0xaa)
	var p *BMPMessage
	var seen *BMPPeerHeader
	calls := 0
	optf := func(h BMPPeerHeader) []*bgp.MarshallingOption {
		calls++
		seen = &h
		return []*bgp.MarshallingOption{b.opt}
	}
	if f := c19BmpSafely("ParseBMPMessageWithOptions", func() { p, err = ParseBMPMessageWithOptions(g, optf) }); f != nil {
		return known(f)
	}
	if err != nil {
		return known(verifkit.Failf("reparse", "%s does not parse back: %v\n constructed %s\n wire %x", b.name, err, c19BmpJSON(b.msg), wire))
	}
	if !bytes.Equal(g, keep) {
		return verifkit.Failf("input-modified", "%s: parsing modified the caller's buffer", b.name)
	}
	perPeer := b.msg.Header.Type != BMP_MSG_INITIATION && b.msg.Header.Type != BMP_MSG_TERMINATION
	if perPeer {
		if calls != 1 || seen == nil {
			return known(verifkit.Failf("options-callback", "%s: the options callback was called %d times", b.name, calls))
		}
		if j1, j2 := c19BmpJSON(b.msg.PeerHeader), c19BmpJSON(*seen); j1 != j2 {
			return known(verifkit.Failf("options-callback", "%s: the options callback saw peer header %s, constructed %s", b.name, j2, j1))
		}
	} else if calls != 0 {
		return known(verifkit.Failf("options-callback", "%s: the options callback was called for a message without peer header", b.name))
	}
	if b.payload != nil {
		pm := p.Body.(*BMPRouteMonitoring)
		if j1, j2 := c19BmpJSON(b.msg.Header)+c19BmpJSON(b.msg.PeerHeader), c19BmpJSON(p.Header)+c19BmpJSON(p.PeerHeader); j1 != j2 {
			return known(verifkit.Failf("not-equal", "%s: headers differ:\n constructed %s\n parsed      %s", b.name, j1, j2))
		}
		if pm.BGPUpdate == nil {
			return known(verifkit.Failf("not-equal", "%s: no BGP message parsed from the payload", b.name))
		}
		if j1, j2 := c19BmpJSON(b.payload.Body), c19BmpJSON(pm.BGPUpdate.Body); j1 != j2 {
			return known(verifkit.Failf("not-equal", "%s: the BGP message in the payload is decoded differently:\n written %s\n parsed  %s", b.name, j1, j2))
		}
	} else if j1, j2 := c19BmpJSON(b.msg), c19BmpJSON(p); j1 != j2 {
		return known(verifkit.Failf("not-equal", "parsed %s differs from the constructed one:\n constructed %s\n parsed      %s\n wire %x", b.name, j1, j2, wire))
	}
	var wire2 []byte
	if f := c19BmpSafely("re-serialize", func() { wire2, err = p.Serialize(b.opt) }); f != nil {
		return known(f)
	}
	if err != nil || !bytes.Equal(keep, wire2) {
		return known(verifkit.Failf("fixpoint", "parsed %s re-serialises differently (%v):\n first  %x\n second %x", b.name, err, keep, wire2))
	}
	// messages whose embedded BGP messages need no session options also go through ParseBMPMessage
	if b.opt == nil || (b.opt.AddPath == nil && !b.opt.ExtendedMessage) {
		var p0 *BMPMessage
		if f := c19BmpSafely("ParseBMPMessage", func() { p0, err = ParseBMPMessage(c19BmpGuarded(wire, 0x77)) }); f != nil {
			return known(f)
		}
		if err != nil {
			return known(verifkit.Failf("reparse", "%s does not parse back with ParseBMPMessage: %v (wire %x)", b.name, err, wire))
		}
		if j1, j2 := c19BmpJSON(p), c19BmpJSON(p0); j1 != j2 {
			return known(verifkit.Failf("not-equal", "%s: ParseBMPMessage and ParseBMPMessageWithOptions disagree:\n %s\n %s", b.name, j2, j1))
		}
	}
	stream := append(append([]byte{}, wire...), 3, 0, 0, 0, 6, 4)
	var adv int
	var tok []byte
	if f := c19BmpSafely("SplitBMP", func() { adv, tok, err = SplitBMP(c19BmpGuarded(stream, 0x11), false) }); f != nil {
		return known(f)
	}
	if err != nil || adv != len(wire) || !bytes.Equal(tok, wire) {
		return known(verifkit.Failf("split-mismatch", "SplitBMP on a stream starting with this %s (%d octets) returns advance %d, token of %d octets, err %v", b.name, len(wire), adv, len(tok), err))
	}
	st.SubEval(4)
	if b.rich {
		st.Nontrivial()
	}
	return nil
}

// ---------------------------------------------------------------------------
// decode safety
// ---------------------------------------------------------------------------

func c19BmpOutcome(m *BMPMessage, err error) string {
	r := "nil"
	if m != nil {
		r = c19BmpJSON(m)
	}
	if err != nil {
		r += " error: " + err.Error()
	}
	return r
}

func c19BmpParse(in []byte, o *bgp.MarshallingOption) (m *BMPMessage, err error, fail *verifkit.Failure) {
	fail = c19BmpSafely("ParseBMPMessage", func() {
		if o == nil {
			m, err = ParseBMPMessage(in)
		} else {
			m, err = ParseBMPMessageWithOptions(in, func(BMPPeerHeader) []*bgp.MarshallingOption { return []*bgp.MarshallingOption{o} })
		}
	})
	if fail != nil {
		fail.Msg += fmt.Sprintf(" (input %x)", in)
	}
	return
}

func c19BmpCheckMessage(in []byte, o *bgp.MarshallingOption, st *verifkit.Stats) *verifkit.Failure {
	g := c19BmpGuarded(in, 0xaa)
	keep := append([]byte{}, g...)
	m, err, f := c19BmpParse(g, o)
	if f != nil {
		return f
	}
	if !bytes.Equal(g, keep) {
		return verifkit.Failf("input-modified", "ParseBMPMessage modified the caller's buffer: %x -> %x", keep, g)
	}
	st.SubEval(1)
	framed := false
	if len(in) >= BMP_HEADER_SIZE {
		l := binary.BigEndian.Uint32(in[1:5])
		framed = l >= BMP_HEADER_SIZE && uint64(l) <= uint64(len(in))
		if in[0] == BMP_VERSION && in[5] <= BMP_MSG_ROUTE_MIRRORING && framed {
			st.Nontrivial()
			st.Key(fmt.Sprintf("dec/%d/%v/%d", in[5], err == nil, len(in)%32))
			st.Label("dec-" + c19BmpTypeNames[in[5]])
			if err == nil {
				st.Label("body-ok")
			} else {
				st.Label("body-error")
			}
		}
	}
	if err != nil && m == nil {
		st.Label("parse-error")
	}
	// header decoders on their own
	if f := c19BmpSafely("BMPHeader.DecodeFromBytes", func() {
		_ = (&BMPHeader{}).DecodeFromBytes(g)
		_ = (&BMPPeerHeader{}).DecodeFromBytes(g)
		if len(g) > BMP_HEADER_SIZE {
			_ = (&BMPPeerHeader{}).DecodeFromBytes(g[BMP_HEADER_SIZE:])
		}
	}); f != nil {
		return f
	}
	// spare capacity must not matter
	m2, err2, f := c19BmpParse(c19BmpSlack(in), o)
	if f != nil {
		return f
	}
	if a, b := c19BmpOutcome(m, err), c19BmpOutcome(m2, err2); a != b {
		return verifkit.Failf("reads-beyond-len", "ParseBMPMessage(%x) depends on the spare capacity behind the slice:\n cap==len: %s\n with spare capacity: %s", in, a, b)
	}
	if !framed {
		return nil
	}
	declared := int(binary.BigEndian.Uint32(in[1:5]))
	ta := append(append([]byte{}, in[:declared]...), c19BmpTail(48, 0)...)
	tb := append(append([]byte{}, in[:declared]...), c19BmpTail(48, 1)...)
	ma, ea, f := c19BmpParse(c19BmpGuarded(ta, 0x55), o)
	if f != nil {
		return f
	}
	mb, eb, f := c19BmpParse(c19BmpGuarded(tb, 0x33), o)
	if f != nil {
		return f
	}
	if a, b := c19BmpOutcome(ma, ea), c19BmpOutcome(mb, eb); a != b {
		return verifkit.Failf("depends-on-trailing-bytes", "message %x (Length %d) decodes differently depending on the bytes that follow it:\n %s\n %s", in[:declared], declared, a, b)
	}
	return nil
}

// c19BmpCheckBody feeds bytes to the exported ParseBody of one message type (no recover() of the package in between).
func c19BmpCheckBody(kind int, ph BMPPeerHeader, data []byte, o *bgp.MarshallingOption, st *verifkit.Stats) *verifkit.Failure {
	mk := func() BMPBody {
		switch kind {
		case BMP_MSG_ROUTE_MONITORING:
			return &BMPRouteMonitoring{}
		case BMP_MSG_STATISTICS_REPORT:
			return &BMPStatisticsReport{}
		case BMP_MSG_PEER_DOWN_NOTIFICATION:
			return &BMPPeerDownNotification{}
		case BMP_MSG_PEER_UP_NOTIFICATION:
			return &BMPPeerUpNotification{}
		case BMP_MSG_INITIATION:
			return &BMPInitiation{}
		case BMP_MSG_TERMINATION:
			return &BMPTermination{}
		}
		return &BMPRouteMirroring{}
	}
	run := func(d []byte) (string, *verifkit.Failure) {
		body := mk()
		msg := &BMPMessage{Header: BMPHeader{Version: BMP_VERSION, Type: uint8(kind)}, PeerHeader: ph, Body: body}
		var err error
		if f := c19BmpSafely(fmt.Sprintf("%T.ParseBody", body), func() { err = body.ParseBody(msg, d, o) }); f != nil {
			f.Msg += fmt.Sprintf(" (body %x)", d)
			return "", f
		}
		if err != nil {
			return "error: " + err.Error(), nil
		}
		return c19BmpJSON(body), nil
	}
	g := c19BmpGuarded(data, 0xaa)
	keep := append([]byte{}, g...)
	out, f := run(g)
	if f != nil {
		return f
	}
	if !bytes.Equal(g, keep) {
		return verifkit.Failf("input-modified", "ParseBody modified the caller's buffer")
	}
	st.SubEval(1)
	st.Label("body-entry-" + c19BmpTypeNames[kind])
	st.Nontrivial()
	st.Key(fmt.Sprintf("body/%d/%d/%v", kind, len(data)%32, len(out) > 6 && out[:6] != "error:"))
	out2, f := run(c19BmpSlack(data))
	if f != nil {
		return f
	}
	if out != out2 {
		return verifkit.Failf("reads-beyond-len", "%s ParseBody(%x) depends on the spare capacity behind the slice:\n %s\n %s", c19BmpTypeNames[kind], data, out, out2)
	}
	return nil
}

func c19BmpCheckSplit(in []byte, st *verifkit.Stats) *verifkit.Failure {
	for _, eof := range []bool{false, true} {
		g := c19BmpGuarded(in, 0xaa)
		keep := append([]byte{}, g...)
		var adv int
		var tok []byte
		var err error
		if f := c19BmpSafely("SplitBMP", func() { adv, tok, err = SplitBMP(g, eof) }); f != nil {
			f.Msg += fmt.Sprintf(" (input %x)", in)
			return f
		}
		st.SubEval(1)
		if !bytes.Equal(g, keep) {
			return verifkit.Failf("input-modified", "SplitBMP modified the caller's buffer")
		}
		if adv < 0 || adv > len(in) || len(tok) > len(in) {
			return verifkit.Failf("split-bounds", "SplitBMP(%d octets) returns advance %d and a token of %d octets", len(in), adv, len(tok))
		}
		if len(tok) > 0 && (&tok[0] != &g[0]) {
			return verifkit.Failf("split-token-not-prefix", "the token is not a prefix of the data")
		}
		if err == nil && tok != nil {
			st.Label("split-token")
			if len(tok) < BMP_HEADER_SIZE || adv != len(tok) {
				return verifkit.Failf("split-short-token", "SplitBMP(%x) returns advance %d and a token of %d octets (shorter than a header)", in, adv, len(tok))
			}
		} else if err != nil {
			st.Label("split-error")
		} else {
			st.Label("split-more")
		}
		var adv2 int
		var tok2 []byte
		var err2 error
		if f := c19BmpSafely("SplitBMP", func() { adv2, tok2, err2 = SplitBMP(c19BmpSlack(in), eof) }); f != nil {
			return f
		}
		if adv != adv2 || len(tok) != len(tok2) || (tok == nil) != (tok2 == nil) || (err == nil) != (err2 == nil) {
			return verifkit.Failf("reads-beyond-len", "SplitBMP on %d octets %x depends on the spare capacity behind the slice: (%d, %d octets, %v) vs (%d, %d octets, %v)", len(in), in, adv, len(tok), err, adv2, len(tok2), err2)
		}
	}
	var fail *verifkit.Failure
	func() {
		defer func() {
			if r := recover(); r != nil {
				fail = verifkit.Failf("scanner-panic", "bufio.Scanner with SplitBMP over %x panicked: %v", in, r)
			}
		}()
		sc := bufio.NewScanner(bytes.NewReader(in))
		sc.Buffer(make([]byte, 0, 64), 1<<20)
		sc.Split(SplitBMP)
		n, total := 0, 0
		for sc.Scan() {
			n++
			total += len(sc.Bytes())
			if n > len(in)+2 {
				fail = verifkit.Failf("scanner-no-progress", "bufio.Scanner with SplitBMP over %x keeps returning tokens without consuming input", in)
				return
			}
		}
		if total > len(in) {
			fail = verifkit.Failf("split-bounds", "tokens of %d octets out of %d octets of input", total, len(in))
		}
		st.LabelN("scanner-tokens", n)
	}()
	return fail
}

func c19BmpFix(b []byte) {
	if len(b) >= BMP_HEADER_SIZE {
		binary.BigEndian.PutUint32(b[1:5], uint32(len(b)))
	}
}

func c19BmpMutate(s *verifgen.Src, wire, other []byte) []byte {
	b := append([]byte{}, wire...)
	n := 1 + s.Intn(3)
	fix := s.Chance(3, 4)
	for k := 0; k < n && len(b) > 0; k++ {
		switch s.Intn(12) {
		case 0:
			b = b[:s.Intn(len(b)+1)]
		case 1:
			b = append(b, s.Bytes(1+s.Intn(16))...)
		case 2:
			b[s.Intn(len(b))] ^= 1 << uint(s.Intn(8))
		case 3:
			b[s.Intn(len(b))] = verifgen.Pick(s, []byte{0, 1, 2, 3, 4, 6, 0x7f, 0x80, 0xfe, 0xff, 24, 32, 33, 128, 129})
		case 4:
			if len(b) >= 2 {
				binary.BigEndian.PutUint16(b[s.Intn(len(b)-1):], verifgen.Pick(s, []uint16{0, 1, 2, 4, 8, 11, 0xffff, 0xfffe, uint16(len(b)), uint16(len(b) + 1), uint16(len(b) - 1)}))
			}
		case 5:
			if len(b) >= 4 {
				binary.BigEndian.PutUint32(b[s.Intn(len(b)-3):], verifgen.Pick(s, []uint32{0, 1, 0xffffffff, 0x80000000, uint32(len(b)), uint32(len(b) + 1), uint32(len(b) - 1)}))
			}
		case 6: // hostile common-header Length
			if len(b) >= BMP_HEADER_SIZE {
				binary.BigEndian.PutUint32(b[1:5], verifgen.Pick(s, []uint32{0, 1, 5, 6, 7, 47, 48, 49, 0xffffffff, 0x80000000, uint32(len(b) + 1), uint32(len(b) - 1), uint32(len(b) + 100)}))
				fix = false
			}
		case 7: // another message type over the same body
			if len(b) >= BMP_HEADER_SIZE {
				b[5] = byte(s.Intn(9))
			}
		case 8: // splice a chunk of another message
			if len(other) > BMP_HEADER_SIZE {
				i := BMP_HEADER_SIZE + s.Intn(len(other)-BMP_HEADER_SIZE)
				j := i + s.Intn(len(other)-i+1)
				at := s.Intn(len(b) + 1)
				b = append(b[:at:at], append(append([]byte{}, other[i:j]...), b[at:]...)...)
			}
		case 9: // peer type / flags
			if len(b) >= BMP_HEADER_SIZE+2 {
				b[6+s.Intn(2)] = verifgen.Pick(s, []byte{0, 1, 2, 3, 4, 0x80, 0xc0, 0xff})
			}
		case 10: // hostile TLV length near the end of the message
			if len(b) >= 12 {
				binary.BigEndian.PutUint16(b[len(b)-2-s.Intn(min(40, len(b)-8)):], verifgen.Pick(s, []uint16{0, 1, 2, 4, 8, 11, 0xffff, 0x7fff, 19, 18}))
			}
		default:
			i := s.Intn(len(b))
			j := i + s.Intn(min(8, len(b)-i)+1)
			for x := i; x < j; x++ {
				b[x] = verifgen.Pick(s, []byte{0, 0xff})
			}
		}
		if len(b) > 70000 {
			b = b[:70000]
		}
	}
	if fix {
		c19BmpFix(b)
	}
	return b
}

func c19BmpWire(s *verifgen.Src) ([]byte, *bgp.MarshallingOption, c19BmpBuilt) {
	for i := 0; i < 4; i++ {
		b := c19BmpBuild(s, nil)
		var w []byte
		var err error
		if c19BmpSafely("serialize", func() { w, err = b.msg.Serialize(b.opt) }) == nil && err == nil {
			return w, b.opt, b
		}
	}
	b := c19BmpBuilt{msg: NewBMPInitiation(nil)}
	w, _ := b.msg.Serialize()
	return w, nil, b
}

func runC19Bmp(c c19BmpCase, st *verifkit.Stats) *verifkit.Failure {
	s := verifgen.NewSrc(c.Recipe)
	mode := ((c.Mode % c19BmpModes) + c19BmpModes) % c19BmpModes
	st.Label(c19BmpModeNames[mode])
	pickOpt := func(o *bgp.MarshallingOption) *bgp.MarshallingOption {
		if s.Chance(1, 3) {
			return nil // plain ParseBMPMessage
		}
		if o == nil {
			o = &bgp.MarshallingOption{}
		}
		return o
	}
	switch mode {
	case c19BmpRoundTrip:
		return c19BmpRoundTripCheck(c19BmpBuild(s, st), st)
	case c19BmpRaw:
		in := c.Raw
		if len(in) == 0 {
			in = s.Bytes(s.Intn(64))
		}
		in = append([]byte{}, in...)
		if s.Bool() && len(in) >= BMP_HEADER_SIZE { // give raw bytes a valid common header so that body decoders see them
			in[0], in[5] = BMP_VERSION, byte(s.Intn(7))
			c19BmpFix(in)
		}
		return c19BmpCheckMessage(in, pickOpt(nil), st)
	case c19BmpMutant:
		w1, o, _ := c19BmpWire(s)
		w2, _, _ := c19BmpWire(s)
		return c19BmpCheckMessage(c19BmpMutate(s, w1, w2), pickOpt(o), st)
	case c19BmpSweep:
		w, o, _ := c19BmpWire(s)
		o = pickOpt(o)
		step := 1
		if len(w) > 400 {
			step = len(w)/400 + 1
		}
		for k := 0; k <= len(w); k += step {
			v := append([]byte{}, w[:k]...)
			c19BmpFix(v)
			if f := c19BmpCheckMessage(v, o, st); f != nil {
				return f
			}
			if k < 80 || k%7 == 0 {
				if f := c19BmpCheckMessage(append([]byte{}, w[:k]...), o, st); f != nil {
					return f
				}
			}
		}
		return nil
	case c19BmpBody:
		kind := s.Intn(7)
		var issue string
		ph, _ := c19BmpPeerHeader(s, nil, &issue)
		var data []byte
		o := &bgp.MarshallingOption{}
		if len(c.Raw) > 0 {
			data = append([]byte{}, c.Raw...)
		} else {
			w, wo, b := c19BmpWire(s)
			if wo != nil {
				o = wo
			}
			off := BMP_HEADER_SIZE + BMP_PEER_HEADER_SIZE
			if b.msg.Header.Type == BMP_MSG_INITIATION || b.msg.Header.Type == BMP_MSG_TERMINATION {
				off = BMP_HEADER_SIZE
			}
			if s.Chance(2, 3) {
				kind = int(b.msg.Header.Type)
				ph = b.msg.PeerHeader
			}
			if s.Chance(2, 3) {
				w = c19BmpMutate(s, w, nil)
			}
			if len(w) >= off {
				data = w[off:]
			}
		}
		return c19BmpCheckBody(kind, ph, data, o, st)
	default: // splitter
		var in []byte
		if len(c.Raw) > 0 {
			in = append([]byte{}, c.Raw...)
			if s.Bool() && len(in) > 0 {
				in[0] = BMP_VERSION
			}
			st.Label("split-input-raw")
		} else {
			n := 1 + s.Intn(3)
			for i := 0; i < n; i++ {
				w, _, _ := c19BmpWire(s)
				if s.Chance(1, 2) {
					w = c19BmpMutate(s, w, nil)
				}
				in = append(in, w...)
			}
			if s.Chance(1, 3) && len(in) > 0 {
				in = in[:s.Intn(len(in)+1)]
			}
			if len(in) > 20000 {
				in = in[:20000]
			}
			st.Label("split-input-stream")
		}
		if len(in) >= BMP_HEADER_SIZE && in[0] == BMP_VERSION {
			st.Nontrivial()
		}
		return c19BmpCheckSplit(in, st)
	}
}

func TestVerifC19_bmp(t *testing.T) {
	for key, p := range c19BmpProbes {
		verifkit.RegisterProbe("C19_bmp", key, func(*verifkit.Stats) *verifkit.Failure { return p() })
	}
	verifkit.Run(t, "C19_bmp", drawC19Bmp, runC19Bmp)
}

// FuzzVerifC19_bmp: {selector byte, payload}.  selector&1: payload = raw bytes for ParseBMPMessage
// (selector&2: for the splitter, selector&4: for a ParseBody); otherwise payload = recipe for mode
// (selector>>3)%6.
func FuzzVerifC19_bmp(f *testing.F) {
	for i := uint32(0); i < 14; i++ {
		w, _, _ := c19BmpWire(verifgen.NewSrc([]uint32{i, i * 77, 3, 9, 1, 5, 2, 8, 4, 4, 6, 1, 1, 1, 7}))
		f.Add(append([]byte{1}, w...))
		f.Add(append([]byte{3}, w...))
	}
	f.Add([]byte{3, 3, 0, 0, 0, 0, 4})
	for m := 0; m < c19BmpModes; m++ {
		f.Add([]byte{byte(m << 3), 9, 9, 9, 9, 1, 0, 0, 0, 7, 7, 7, 7, 3, 0, 0, 0})
	}
	f.Fuzz(func(t *testing.T, data []byte) {
		if len(data) < 2 {
			return
		}
		var c c19BmpCase
		if data[0]&1 == 1 {
			c.Mode, c.Raw = c19BmpRaw, data[1:]
			if data[0]&2 != 0 {
				c.Mode = c19BmpSplit
			} else if data[0]&4 != 0 {
				c.Mode = c19BmpBody
				c.Recipe = []uint32{uint32(data[0] >> 3)}
			}
		} else {
			c.Mode = int(data[0]>>3) % c19BmpModes
			src := data[1:]
			for len(src) >= 4 {
				c.Recipe = append(c.Recipe, binary.LittleEndian.Uint32(src))
				src = src[4:]
			}
		}
		if fail := runC19Bmp(c, verifkit.Scratch("C19_bmp")); fail != nil {
			t.Fatalf("VERIF-FAIL C19_bmp sig=%q: %s", fail.Sig, fail.Msg)
		}
	})
}
