// Package verifkit is the shared runner of the /verif harnesses.  It is overlaid
// into the gobgp module at build time (internal/pkg/verifkit) and has no gobgp
// dependency, so in-package harnesses of any gobgp package can import it.
//
// A property is expressed as two functions over a plain-data case type C:
//
//	draw(*rapid.T) C            every random choice, nothing else
//	run(C, *Stats) *Failure     pure function of C and the code under test
//
// Run wires them to rapid (generation + shrinking), to the replay mode
// (VERIF_REPLAY=<json file> bypasses rapid entirely), to the known-findings
// list and to the statistics file read by /verif/bin/check.
package verifkit

import (
	"encoding/json"
	"fmt"
	"hash/fnv"
	"os"
	"path/filepath"
	"runtime"
	"runtime/debug"
	"sort"
	"strconv"
	"strings"
	"sync"
	"testing"
	"time"

	"pgregory.net/rapid"
)

// Failure is what a property returns when the oracle is violated.
type Failure struct {
	Msg string `json:"msg"`
	// Sig classifies the violation for the known-findings list ("" = unclassified).
	Sig string `json:"sig"`
}

func Failf(sig, format string, a ...any) *Failure {
	return &Failure{Sig: sig, Msg: fmt.Sprintf(format, a...)}
}

const maxHashes = 400000
const maxSamples = 6

// Stats collects what a run actually covered.
type Stats struct {
	mu          sync.Mutex
	ID          string            `json:"id"`
	Evaluations int               `json:"evaluations"`
	Sub         int               `json:"sub_evaluations"`
	Nontriv     int               `json:"nontrivial"`
	Hashes      []uint64          `json:"hashes"`
	Labels      map[string]int    `json:"labels"`
	Samples     []json.RawMessage `json:"samples"`
	Known       map[string]int    `json:"known"`
	KnownEx     map[string]string `json:"known_examples"`
	Excluded    map[string]int    `json:"excluded"`
	Failures    int               `json:"failures"`
	FailFile    string            `json:"fail_file"`
	FailMsg     string            `json:"fail_msg"`
	FailSig     string            `json:"fail_sig"`
	Passed      int               `json:"rapid_passed"`
	Requested   int               `json:"rapid_requested"`
	Replays     []ReplayResult    `json:"replays"`

	hset map[uint64]struct{}
	// per-case scratch
	curNontrivial bool
	curKey        string
}

func newStats(id string) *Stats {
	return &Stats{ID: id, Labels: map[string]int{}, Known: map[string]int{}, KnownEx: map[string]string{},
		Excluded: map[string]int{}, hset: map[uint64]struct{}{}}
}

// Nontrivial marks the current case as non-trivial by the property's stated rule.
func (s *Stats) Nontrivial() { s.curNontrivial = true }

// Key overrides the identity used for the distinct count (default: the JSON of the case).
func (s *Stats) Key(k string) { s.curKey = k }

// Label increments a histogram bucket (generator/oracle coverage classes).
func (s *Stats) Label(l string) { s.mu.Lock(); s.Labels[l]++; s.mu.Unlock() }

func (s *Stats) LabelN(l string, n int) { s.mu.Lock(); s.Labels[l] += n; s.mu.Unlock() }

// SubEval counts oracle comparisons inside one case.
func (s *Stats) SubEval(n int) { s.mu.Lock(); s.Sub += n; s.mu.Unlock() }

// KnownHit records, without ending the case, an observation that matches an open known
// finding; it returns false (and records nothing) when (property, sig) is not listed, in which
// case the caller must report the failure.
func (s *Stats) KnownHit(sig, msg string) bool {
	if !IsKnown(Prop(s.ID), sig) {
		return false
	}
	s.mu.Lock()
	s.Known[sig]++
	if old, ok := s.KnownEx[sig]; !ok || len(msg) < len(old) {
		s.KnownEx[sig] = msg
	}
	s.mu.Unlock()
	return true
}

// Exclude counts inputs that were excluded by construction because of a known finding.
func (s *Stats) Exclude(what string) { s.mu.Lock(); s.Excluded[what]++; s.mu.Unlock() }

func hash64(b []byte) uint64 { h := fnv.New64a(); h.Write(b); return h.Sum64() }

func (s *Stats) finishCase(caseJSON []byte) {
	s.Evaluations++
	if s.curNontrivial {
		s.Nontriv++
		var h uint64
		if s.curKey != "" {
			h = hash64([]byte(s.curKey))
		} else {
			h = hash64(caseJSON)
		}
		if _, ok := s.hset[h]; !ok && len(s.hset) < maxHashes {
			s.hset[h] = struct{}{}
			if len(s.Samples) < maxSamples && len(caseJSON) < 6000 {
				s.Samples = append(s.Samples, json.RawMessage(append([]byte(nil), caseJSON...)))
			}
		}
	}
	s.curNontrivial = false
	s.curKey = ""
}

func (s *Stats) write() {
	dir := os.Getenv("VERIF_OUT")
	if dir == "" {
		return
	}
	s.Hashes = s.Hashes[:0]
	for h := range s.hset {
		s.Hashes = append(s.Hashes, h)
	}
	sort.Slice(s.Hashes, func(i, j int) bool { return s.Hashes[i] < s.Hashes[j] })
	b, _ := json.Marshal(s)
	name := filepath.Join(dir, fmt.Sprintf("%s.%s.stats.json", s.ID, shard()))
	_ = os.WriteFile(name, b, 0o644)
}

func shard() string {
	if v := os.Getenv("VERIF_SHARD"); v != "" {
		return v
	}
	return "0"
}

// ---- known findings -------------------------------------------------------

type knownEntry struct {
	Property  string `json:"property"`
	ID        string `json:"id"`
	Signature string `json:"signature"`
	Status    string `json:"status"`
	Summary   string `json:"summary"`
}

var (
	knownOnce sync.Once
	knownOpen map[string]knownEntry // key property|signature
)

func loadKnown() {
	knownOpen = map[string]knownEntry{}
	p := os.Getenv("VERIF_KNOWN")
	if p == "" {
		return
	}
	b, err := os.ReadFile(p)
	if err != nil {
		return
	}
	var doc struct {
		Findings []knownEntry `json:"findings"`
	}
	if json.Unmarshal(b, &doc) != nil {
		return
	}
	for _, e := range doc.Findings {
		if e.Status == "open" {
			knownOpen[e.Property+"|"+e.Signature] = e
		}
	}
}

// IsKnown reports whether (property, signature) is listed as an open known finding.
func IsKnown(prop, sig string) bool {
	knownOnce.Do(loadKnown)
	if sig == "" {
		return false
	}
	_, ok := knownOpen[prop+"|"+sig]
	return ok
}

// ---- runner ---------------------------------------------------------------

// Prop returns the property id for a test id: "C13" for "C13" and for "C13_ext".
func Prop(id string) string {
	if i := strings.IndexByte(id, '_'); i > 0 {
		return id[:i]
	}
	return id
}

func safeRun[C any](c C, st *Stats, run func(C, *Stats) *Failure) (f *Failure) {
	defer func() {
		if r := recover(); r != nil {
			f = &Failure{Sig: "panic", Msg: fmt.Sprintf("panic: %v\n%s", r, debug.Stack())}
		}
	}()
	return run(c, st)
}

func saveFail(id string, caseJSON []byte, f *Failure) string {
	dir := os.Getenv("VERIF_OUT")
	if dir == "" {
		return ""
	}
	doc := map[string]any{"test": id, "property": Prop(id), "failure": f, "case": json.RawMessage(caseJSON)}
	b, _ := json.MarshalIndent(doc, "", " ")
	name := filepath.Join(dir, fmt.Sprintf("%s.%s.fail.json", id, shard()))
	_ = os.WriteFile(name, b, 0o644)
	return name
}

// Run executes one property.  id is the test id ("C13" or "C13_ext").
func Run[C any](t *testing.T, id string, draw func(*rapid.T) C, run func(C, *Stats) *Failure) {
	st := newStats(id)
	defer st.write()
	watch := &caseWatch{}
	go watch.monitor(id, st)
	current.mu.Lock()
	current.id, current.st, current.watch = id, st, watch
	current.mu.Unlock()

	if rp := os.Getenv("VERIF_REPLAY"); rp != "" {
		for _, file := range strings.Split(rp, ",") {
			replayOne(t, id, file, st, watch, run)
		}
		return
	}

	rapid.Check(t, func(rt *rapid.T) {
		c := draw(rt)
		cj, err := json.Marshal(c)
		if err != nil {
			panic(fmt.Sprintf("case not serialisable: %v", err))
		}
		watch.begin(cj, nil)
		f := safeRun(c, st, run)
		watch.end()
		if f != nil {
			if IsKnown(Prop(id), f.Sig) {
				st.mu.Lock()
				st.Known[f.Sig]++
				if _, ok := st.KnownEx[f.Sig]; !ok || len(f.Msg) < len(st.KnownEx[f.Sig]) {
					st.KnownEx[f.Sig] = f.Msg
				}
				st.mu.Unlock()
				st.finishCase(cj)
				return
			}
			st.Failures++
			st.FailMsg, st.FailSig = f.Msg, f.Sig
			st.FailFile = saveFail(id, cj, f)
			st.curNontrivial = false
			st.curKey = ""
			rt.Fatalf("VERIF-FAIL %s sig=%q: %s", id, f.Sig, f.Msg)
		}
		st.finishCase(cj)
		st.Passed++
	})
}

// ---- per-case watchdog --------------------------------------------------------
//
// A case that never returns (an endless loop in the code under test) or that allocates without
// bound cannot report itself.  A monitor goroutine aborts the process with a recorded failure
// (signature "hang" / "memory") and the current case as the replay, so that the driver reports a
// violation instead of an inconclusive run.  VERIF_CASE_SECONDS (default 900, real time) sets the time limit;
// the heap limit VERIF_CASE_HEAP_MB is off unless set (the heap also holds what the harness itself builds:
// only units whose cases are small — the codecs — set it).

type caseWatch struct {
	mu     sync.Mutex
	active bool
	start  time.Time
	cj     []byte
	replay *ReplayResult
}

func envInt(name string, def int) int {
	if v := os.Getenv(name); v != "" {
		if n, err := strconv.Atoi(v); err == nil && n > 0 {
			return n
		}
	}
	return def
}

func (w *caseWatch) begin(cj []byte, rr *ReplayResult) {
	w.mu.Lock()
	w.active, w.start, w.cj, w.replay = true, time.Now(), cj, rr
	w.mu.Unlock()
}

func (w *caseWatch) end() {
	w.mu.Lock()
	w.active = false
	w.mu.Unlock()
}

func (w *caseWatch) monitor(id string, st *Stats) {
	limit := time.Duration(envInt("VERIF_CASE_SECONDS", 900)) * time.Second
	heap := uint64(envInt("VERIF_CASE_HEAP_MB", 1<<30)) << 20 // (effectively off)
	var ms runtime.MemStats
	for n := 0; ; n++ {
		time.Sleep(100 * time.Millisecond)
		w.mu.Lock()
		active, start, cj, rr := w.active, w.start, w.cj, w.replay
		w.mu.Unlock()
		if !active {
			continue
		}
		var f *Failure
		if time.Since(start) > limit {
			buf := make([]byte, 1<<16)
			buf = buf[:runtime.Stack(buf, true)]
			f = &Failure{Sig: "hang", Msg: fmt.Sprintf("the case did not finish within %v of real time\n%s", limit, buf)}
		} else if n%2 == 0 {
			runtime.ReadMemStats(&ms)
			if ms.HeapAlloc > heap {
				f = &Failure{Sig: "memory", Msg: fmt.Sprintf("the heap grew to %d MiB while the case was running (limit %d MiB)", ms.HeapAlloc>>20, heap>>20)}
			}
		}
		if f == nil {
			continue
		}
		// the main goroutine is stuck (or busy allocating): record and leave
		st.Failures++
		st.FailMsg, st.FailSig = f.Msg, f.Sig
		st.FailFile = saveFail(id, cj, f)
		if rr != nil {
			rr.Ran, rr.Failed, rr.Sig, rr.Msg = true, true, f.Sig, f.Msg
			st.Replays = append(st.Replays, *rr)
			fmt.Printf("VERIF-REPLAY-FAIL %s file=%s sig=%q: %s\n", id, rr.File, f.Sig, f.Msg)
		}
		st.write()
		fmt.Printf("VERIF-FAIL %s sig=%q: %s\n", id, f.Sig, f.Msg)
		os.Exit(1)
	}
}

// current is the running property (one at a time per process): what AbortCase needs.
var current struct {
	mu    sync.Mutex
	id    string
	st    *Stats
	watch *caseWatch
}

// AbortCase is for watchdogs of the harnesses (a virtual-time scenario that is stuck for minutes of real time): it
// records the failure with the running case as the replay and ends the process, like the monitor does.
func AbortCase(sig, msg string) {
	current.mu.Lock()
	id, st, w := current.id, current.st, current.watch
	current.mu.Unlock()
	if st == nil || w == nil {
		fmt.Printf("VERIF-ABORT sig=%q: %s\n", sig, msg)
		os.Exit(3)
	}
	w.mu.Lock()
	cj, rr := w.cj, w.replay
	w.mu.Unlock()
	f := &Failure{Sig: sig, Msg: msg}
	st.Failures++
	st.FailMsg, st.FailSig = f.Msg, f.Sig
	st.FailFile = saveFail(id, cj, f)
	if rr != nil {
		rr.Ran, rr.Failed, rr.Sig, rr.Msg = true, true, f.Sig, f.Msg
		st.Replays = append(st.Replays, *rr)
		fmt.Printf("VERIF-REPLAY-FAIL %s file=%s sig=%q: %s\n", id, rr.File, f.Sig, f.Msg)
	}
	st.write()
	fmt.Printf("VERIF-FAIL %s sig=%q: %s\n", id, f.Sig, f.Msg)
	os.Exit(1)
}

var probes = map[string]func(*Stats) *Failure{}

// RegisterProbe registers a hand-written deterministic reproduction (used by saved cases of
// the form {"test": id, "probe": name}); unlike recipes they survive generator changes.
func RegisterProbe(id, name string, fn func(*Stats) *Failure) { probes[id+"/"+name] = fn }

// ReplayResult is the outcome of replaying one saved case.
type ReplayResult struct {
	File   string `json:"file"`
	Ran    bool   `json:"ran"`
	Failed bool   `json:"failed"`
	Sig    string `json:"sig"`
	Msg    string `json:"msg"`
}

func replayOne[C any](t *testing.T, id, file string, st *Stats, watch *caseWatch, run func(C, *Stats) *Failure) {
	res := ReplayResult{File: file}
	defer func() { st.Replays = append(st.Replays, res) }()
	b, err := os.ReadFile(file)
	if err != nil {
		t.Errorf("replay: %v", err)
		return
	}
	var doc struct {
		Test  string          `json:"test"`
		Probe string          `json:"probe"`
		Case  json.RawMessage `json:"case"`
	}
	if err := json.Unmarshal(b, &doc); err != nil {
		t.Errorf("replay %s: %v", file, err)
		return
	}
	if doc.Test != id {
		return
	}
	if doc.Probe != "" {
		// a deterministic, generator-independent reproduction registered by the harness
		fn, ok := probes[id+"/"+doc.Probe]
		if !ok {
			t.Errorf("replay %s: unknown probe %q", file, doc.Probe)
			return
		}
		res.Ran = true
		f := func() (f *Failure) {
			defer func() {
				if r := recover(); r != nil {
					f = &Failure{Sig: "panic", Msg: fmt.Sprintf("panic: %v\n%s", r, debug.Stack())}
				}
			}()
			return fn(st)
		}()
		st.finishCase(b)
		if f != nil {
			res.Failed, res.Sig, res.Msg = true, f.Sig, f.Msg
			t.Logf("VERIF-REPLAY-FAIL %s file=%s sig=%q: %s", id, file, f.Sig, f.Msg)
		}
		return
	}
	var c C
	if err := json.Unmarshal(doc.Case, &c); err != nil {
		t.Errorf("replay %s: %v", file, err)
		return
	}
	res.Ran = true
	watch.begin(doc.Case, &ReplayResult{File: file})
	f := safeRun(c, st, run)
	watch.end()
	st.finishCase(doc.Case)
	if f != nil {
		res.Failed, res.Sig, res.Msg = true, f.Sig, f.Msg
		t.Logf("VERIF-REPLAY-FAIL %s file=%s sig=%q: %s", id, file, f.Sig, f.Msg)
	}
}

// Scratch returns a throw-away Stats (for oracle code that is run outside a counted case).
func Scratch(id string) *Stats { return newStats(id) }

// ---- small helpers shared by harnesses -------------------------------------

// JSON renders v compactly for failure messages.
func JSON(v any) string {
	b, err := json.Marshal(v)
	if err != nil {
		return fmt.Sprintf("%+v", v)
	}
	return string(b)
}

// Thorough reports whether the thorough tier is running (bigger generated sizes).
func Thorough() bool { return os.Getenv("VERIF_TIER") == "thorough" }
