package table

// C11 — UPDATE packing preserves the route changes and respects the size limit.
//
// Oracle: an independent receiver model.  Every produced message is serialised
// under the session options, must fit the session maximum, is re-parsed and
// applied in order to a map (family, prefix, path-id) -> (attribute bytes, next
// hops).  The result must equal applying the input changes one at a time.
// Routes whose single-route encoding cannot fit the limit must be absent, must
// not disturb the others, and nothing may panic.

import (
	"bytes"
	"fmt"
	"net/netip"
	"sort"
	"testing"
	"time"

	"github.com/osrg/gobgp/v4/internal/pkg/verifkit"
	"github.com/osrg/gobgp/v4/pkg/packet/bgp"
	"pgregory.net/rapid"
)

type c11AttrSet struct {
	Origin  int      `json:"origin"`
	ASPath  []uint32 `json:"aspath"`
	MED     int64    `json:"med"`
	Comms   int      `json:"comms"`    // number of communities
	Pad     int      `json:"pad"`      // size of an unknown optional transitive attribute (0 = none)
	PadFit  int      `json:"pad_fit"`  // if != 0: choose Pad so that the attribute block ends PadFit octets below (-: above) the single-route limit
	NH      int      `json:"nh"`       // next hop index
	LL      bool     `json:"ll"`       // add link-local next hop (v6 families)
	LLIdx   int      `json:"ll_idx"`   // which link-local address (independent of the global next hop)
	SameKey bool     `json:"same_key"` // force the batching hash of this set onto a shared value
	// Arrive: how the attribute objects came to be (what is packed is what the path holds, but the objects have a history):
	// 0 built by the constructors; 1 decoded from the wire of a peer without the 4-octet-AS capability and
	// reconstructed (RFC 6793); 2 decoded from the wire; 3 edited through the Path API after creation (AS prepended,
	// as every export to an external peer does)
	Arrive int `json:"arrive,omitempty"`
}

type c11Change struct {
	Fam      int  `json:"fam"` // 0 v4 (v4 nh) 1 v4 with v6 nh 2 v6 3 vpnv4 4 v4 whose v4 next hop is carried in MP_REACH_NLRI (no NEXT_HOP attribute)
	Prefix   int  `json:"prefix"`
	ID       int  `json:"id"`
	Withdraw bool `json:"withdraw"`
	Set      int  `json:"set"`
	EOR      bool `json:"eor"`
}

type c11Case struct {
	AddPath bool `json:"add_path"`
	// direction of the ADD-PATH negotiation as seen by the sender (only with AddPath): 0 both, 1 send only
	// (identifiers on the wire), 2 receive only (no identifiers on the wire: the session behaves like one
	// without ADD-PATH for what is sent)
	AddPathDir int `json:"add_path_dir"`
	// the identifier the route was received with differs from the one it is advertised with
	RemoteIDs bool `json:"remote_ids"`
	ExtMsg    bool `json:"ext_msg"`
	// AS2: the session is to a peer without the 4-octet-AS capability: the sender rewrites every UPDATE into the
	// RFC 6793 OLD-speaker form (AS_TRANS, AS4_PATH) before serialising it, which can be longer than what was packed
	AS2     bool         `json:"as2,omitempty"`
	Sets    []c11AttrSet `json:"sets"`
	Changes []c11Change  `json:"changes"`
	Bulk    int          `json:"bulk"` // additionally announce this many distinct prefixes with set 0
	BulkFam int          `json:"bulk_fam"`
	BulkLen int          `json:"bulk_len"` // 0: uniform prefix length, 1: mixed lengths
}

func drawC11(t *rapid.T) c11Case {
	c := c11Case{AddPath: rapid.Bool().Draw(t, "add_path"), ExtMsg: rapid.IntRange(0, 3).Draw(t, "ext") == 0}
	if c.AddPath {
		c.AddPathDir = rapid.SampledFrom([]int{0, 0, 1, 2}).Draw(t, "add_path_dir")
	}
	c.RemoteIDs = rapid.Bool().Draw(t, "remote_ids")
	c.AS2 = rapid.IntRange(0, 3).Draw(t, "as2") == 0
	ns := rapid.IntRange(1, 5).Draw(t, "nsets")
	for i := 0; i < ns; i++ {
		l := fmt.Sprintf("s%d", i)
		s := c11AttrSet{
			Origin: rapid.IntRange(0, 2).Draw(t, l+"o"),
			MED:    int64(rapid.SampledFrom([]int{-1, 0, 10}).Draw(t, l+"med")),
			Comms:  rapid.SampledFrom([]int{0, 0, 1, 3, 60}).Draw(t, l+"comms"),
			NH:     rapid.IntRange(0, 2).Draw(t, l+"nh"),
			LL:     rapid.IntRange(0, 2).Draw(t, l+"ll") == 0,
			LLIdx:  rapid.IntRange(0, 1).Draw(t, l+"llidx"),
		}
		n := rapid.SampledFrom([]int{0, 1, 2, 5, 40}).Draw(t, l+"aslen")
		for j := 0; j < n; j++ {
			s.ASPath = append(s.ASPath, uint32(65000+j%7))
		}
		switch rapid.IntRange(0, 7).Draw(t, l+"padk") {
		case 0:
			s.Pad = rapid.SampledFrom([]int{200, 255, 256, 1000, 3000}).Draw(t, l+"pad")
		case 1, 2:
			// boundary: attribute block within a few octets of the single-route limit
			s.PadFit = rapid.SampledFrom([]int{99, 99, 1, 2, 3, 4, 5, 6, 8, 9, 10, 12, 16, 40, 64, -1, -2, -5, -9, -40, -1000}).Draw(t, l+"fit")
		}
		s.SameKey = rapid.IntRange(0, 4).Draw(t, l+"samekey") == 0
		s.Arrive = rapid.SampledFrom([]int{0, 0, 1, 2, 3, 3}).Draw(t, l+"arrive")
		if (s.Arrive == 1 || c.AS2) && len(s.ASPath) > 0 && rapid.Bool().Draw(t, l+"wide") {
			s.ASPath[len(s.ASPath)/2] = 4200000001
		}
		c.Sets = append(c.Sets, s)
	}
	// near-twin sets: identical except for one next-hop detail, so that grouping keys are put to the test
	switch rapid.IntRange(0, 5).Draw(t, "twin") {
	case 0:
		c.Sets[0].LL = true
		tw := c.Sets[0]
		tw.ASPath = append([]uint32(nil), tw.ASPath...)
		tw.LLIdx = 1 - tw.LLIdx
		c.Sets = append(c.Sets, tw)
	case 1:
		tw := c.Sets[0]
		tw.ASPath = append([]uint32(nil), tw.ASPath...)
		tw.NH = (tw.NH + 1) % 3
		c.Sets = append(c.Sets, tw)
	case 2:
		tw := c.Sets[0]
		tw.ASPath = append([]uint32(nil), tw.ASPath...)
		tw.LL = !tw.LL
		c.Sets = append(c.Sets, tw)
	}
	ns = len(c.Sets)
	nc := rapid.IntRange(1, 40).Draw(t, "nchanges")
	for i := 0; i < nc; i++ {
		l := fmt.Sprintf("c%d", i)
		ch := c11Change{
			Fam:      rapid.SampledFrom([]int{0, 0, 0, 1, 2, 2, 3, 4, 4}).Draw(t, l+"fam"),
			Prefix:   rapid.IntRange(0, 7).Draw(t, l+"p"),
			ID:       rapid.IntRange(1, 3).Draw(t, l+"id"),
			Withdraw: rapid.IntRange(0, 3).Draw(t, l+"w") == 0,
			Set:      rapid.IntRange(0, ns-1).Draw(t, l+"set"),
			EOR:      rapid.IntRange(0, 14).Draw(t, l+"eor") == 0,
		}
		c.Changes = append(c.Changes, ch)
	}
	c.BulkFam = rapid.SampledFrom([]int{0, 2, 2, 3}).Draw(t, "bulk_fam")
	c.BulkLen = rapid.IntRange(0, 1).Draw(t, "bulk_len")
	switch rapid.IntRange(0, 9).Draw(t, "bulkk") {
	case 0:
		c.Bulk = rapid.IntRange(500, 3000).Draw(t, "bulk")
	case 1:
		if verifkit.Thorough() {
			c.Bulk = rapid.IntRange(3000, 30000).Draw(t, "bulk")
		} else {
			c.Bulk = rapid.IntRange(100, 900).Draw(t, "bulk")
		}
	}
	if c.Bulk > 2000 && (c.Sets[0].Pad > 256 || c.Sets[0].PadFit != 0) {
		// every route of the bulk carries set 0: with an attribute block of several kilobytes tens of thousands
		// of routes mean gigabytes of messages in the harness itself
		c.Bulk = 2000
	}
	return c
}

var c11Families = []bgp.Family{bgp.RF_IPv4_UC, bgp.RF_IPv4_UC, bgp.RF_IPv6_UC, bgp.RF_IPv4_VPN, bgp.RF_IPv4_UC}

func c11NLRI(fam, prefix int) bgp.NLRI {
	switch fam {
	case 0, 1, 4:
		n, _ := bgp.NewIPAddrPrefix(netip.PrefixFrom(netip.AddrFrom4([4]byte{10, byte(fam), byte(prefix), 0}), 24))
		return n
	case 2:
		n, _ := bgp.NewIPAddrPrefix(netip.PrefixFrom(netip.AddrFrom16([16]byte{0x20, 0x01, 0x0d, 0xb8, 0, byte(prefix)}), 48))
		return n
	default:
		n, _ := bgp.NewLabeledVPNIPAddrPrefix(netip.PrefixFrom(netip.AddrFrom4([4]byte{10, 3, byte(prefix), 0}), 24), *bgp.NewMPLSLabelStack(uint32(100 + prefix)), bgp.NewRouteDistinguisherTwoOctetAS(65000, 1))
		return n
	}
}

func c11BulkNLRI(fam, i, mixed int) bgp.NLRI {
	switch fam {
	case 2:
		bits := 64
		if mixed == 1 {
			bits = []int{64, 48, 56, 128, 40}[i%5]
		}
		p, _ := netip.AddrFrom16([16]byte{0x20, 0x01, 0x0d, 0xb8, byte(i >> 16), byte(i >> 8), byte(i), 0x10, 8: byte(i)}).Prefix(bits)
		if bits < 56 {
			p, _ = netip.AddrFrom16([16]byte{0x20, 0x01, byte(i >> 16), byte(i >> 8), byte(i)}).Prefix(bits)
		}
		n, _ := bgp.NewIPAddrPrefix(p)
		return n
	case 3:
		n, _ := bgp.NewLabeledVPNIPAddrPrefix(netip.PrefixFrom(netip.AddrFrom4([4]byte{172, byte(16 + i>>16), byte(i >> 8), byte(i)}), 32), *bgp.NewMPLSLabelStack(uint32(16 + i%1000)), bgp.NewRouteDistinguisherTwoOctetAS(65000, 1))
		return n
	}
	bits := 32
	if mixed == 1 {
		bits = []int{32, 24, 16, 25, 8}[i%5]
	}
	p, _ := netip.AddrFrom4([4]byte{byte(11 + i%200), byte(i >> 16), byte(i >> 8), byte(i)}).Prefix(bits)
	n, _ := bgp.NewIPAddrPrefix(p)
	return n
}

func c11NextHops(fam int, s c11AttrSet) []netip.Addr {
	switch fam {
	case 0, 3, 4:
		return []netip.Addr{netip.AddrFrom4([4]byte{192, 0, 2, byte(1 + s.NH)})}
	default:
		nh := []netip.Addr{netip.AddrFrom16([16]byte{0x20, 0x01, 0x0d, 0xb8, 0xff, 15: byte(1 + s.NH)})}
		if s.LL {
			nh = append(nh, netip.AddrFrom16([16]byte{0xfe, 0x80, 15: byte(1 + s.LLIdx)}))
		}
		return nh
	}
}

// c11Attrs builds the attribute list of a path (without MP_REACH); pad = size of the padding attribute.
func c11Attrs(fam int, s c11AttrSet, pad int) []bgp.PathAttributeInterface {
	attrs := []bgp.PathAttributeInterface{bgp.NewPathAttributeOrigin(uint8(s.Origin))}
	var params []bgp.AsPathParamInterface
	if len(s.ASPath) > 0 {
		params = append(params, bgp.NewAs4PathParam(2, append([]uint32(nil), s.ASPath...)))
	}
	attrs = append(attrs, bgp.NewPathAttributeAsPath(params))
	if fam == 0 {
		nh, _ := bgp.NewPathAttributeNextHop(c11NextHops(fam, s)[0])
		attrs = append(attrs, nh)
	}
	if s.MED >= 0 {
		attrs = append(attrs, bgp.NewPathAttributeMultiExitDisc(uint32(s.MED)))
	}
	if s.Comms > 0 {
		v := make([]uint32, s.Comms)
		for i := range v {
			v[i] = uint32(65000<<16 | i)
		}
		attrs = append(attrs, bgp.NewPathAttributeCommunities(v))
	}
	if pad > 0 {
		attrs = append(attrs, bgp.NewPathAttributeUnknown(bgp.BGP_ATTR_FLAG_OPTIONAL|bgp.BGP_ATTR_FLAG_TRANSITIVE, 241, bytes.Repeat([]byte{0xab}, pad)))
	}
	return attrs
}

// c11Final gives the attribute objects of a set the history its Arrive says (the values stay what c11Attrs built,
// except for the prepended AS numbers of mode 3).
func c11Final(fam int, s c11AttrSet, pad int) []bgp.PathAttributeInterface {
	attrs := c11Attrs(fam, s, pad)
	switch s.Arrive {
	case 1, 2:
		old := s.Arrive == 1
		msg := bgp.NewBGPUpdateMessage(nil, attrs, nil)
		if old {
			body := msg.Body.(*bgp.BGPUpdate)
			UpdatePathAttrs2ByteAs(body)
			UpdatePathAggregator2ByteAs(body)
		}
		wire, err := msg.Serialize(&bgp.MarshallingOption{ExtendedMessage: true})
		if err != nil {
			return attrs
		}
		rx, err := bgp.ParseBGPMessage(wire, &bgp.MarshallingOption{Use2ByteAS: old, ExtendedMessage: true})
		if err != nil {
			return attrs
		}
		body := rx.Body.(*bgp.BGPUpdate)
		if old {
			UpdatePathAttrs4ByteAs(c14Logger, body)
			if UpdatePathAggregator4ByteAs(body) != nil {
				return attrs
			}
		}
		return body.PathAttributes
	case 3:
		nlri, _ := bgp.NewIPAddrPrefix(netip.MustParsePrefix("198.51.100.0/24"))
		tmp := NewPath(bgp.RF_IPv4_UC, &PeerInfo{AS: 65001, LocalAS: 65000, ID: netip.MustParseAddr("10.0.0.1"), Address: netip.MustParseAddr("10.0.0.1")},
			bgp.PathNLRI{NLRI: nlri}, false, attrs, time.Unix(1, 0), false)
		tmp.PrependAsn(64999, uint8(1+s.Origin), false)
		return tmp.GetPathAttrs()
	}
	return attrs
}

func c11AttrBytes(attrs []bgp.PathAttributeInterface) []byte {
	var out []byte
	for _, a := range attrs {
		t := a.GetType()
		if t == bgp.BGP_ATTR_TYPE_MP_REACH_NLRI || t == bgp.BGP_ATTR_TYPE_MP_UNREACH_NLRI {
			continue
		}
		if t == bgp.BGP_ATTR_TYPE_NEXT_HOP {
			continue // next hops are compared separately
		}
		b, _ := a.Serialize()
		out = append(out, b...)
	}
	return out
}

type c11Key struct {
	fam    bgp.Family
	prefix string
	id     uint32
}

type c11Val struct {
	attrs string
	nh    string
}

// single-route wire size of a path under the options (independent computation from real encodings)
// c11OldForm is the harness's own RFC 6793 down-conversion of an attribute list (AS_SEQUENCE segments only, as generated).
func c11OldForm(attrs []bgp.PathAttributeInterface) []bgp.PathAttributeInterface {
	out := make([]bgp.PathAttributeInterface, 0, len(attrs)+1)
	var as4 *bgp.PathAttributeAs4Path
	for _, a := range attrs {
		ap, ok := a.(*bgp.PathAttributeAsPath)
		if !ok {
			out = append(out, a)
			continue
		}
		var two []bgp.AsPathParamInterface
		var four []*bgp.As4PathParam
		wide := false
		for _, seg := range ap.Value {
			var l []uint16
			for _, v := range seg.GetAS() {
				if v > 65535 {
					wide = true
					l = append(l, bgp.AS_TRANS)
				} else {
					l = append(l, uint16(v))
				}
			}
			two = append(two, bgp.NewAsPathParam(seg.GetType(), l))
			four = append(four, bgp.NewAs4PathParam(seg.GetType(), append([]uint32(nil), seg.GetAS()...)))
		}
		out = append(out, bgp.NewPathAttributeAsPath(two))
		if wide {
			as4 = bgp.NewPathAttributeAs4Path(four)
		}
	}
	if as4 != nil {
		out = append(out, as4)
	}
	return out
}

var c11AS2 bool // the current case's session is to an OLD speaker (set by runC11; cases run one at a time per process)

func c11SingleSize(fam int, nlri bgp.NLRI, attrs []bgp.PathAttributeInterface, nhs []netip.Addr, addpath bool) int {
	if c11AS2 {
		attrs = c11OldForm(attrs)
	}
	size := 19 + 2 + 2
	for _, a := range attrs {
		b, _ := a.Serialize()
		size += len(b)
	}
	nb, _ := nlri.Serialize()
	n := len(nb)
	if addpath {
		n += 4
	}
	if fam == 0 {
		return size + n
	}
	if fam == 4 {
		return size + 7 + n // sent as a classic IPv4 UPDATE: NEXT_HOP attribute (7 octets) + NLRI
	}
	// MP_REACH: flags,type,len(1 or 2) + afi(2) safi(1) nhlen(1) nh + reserved(1) + nlri
	nhl := 0
	for _, a := range nhs {
		if a.Is4() {
			nhl += 4
		} else {
			nhl += 16
		}
		if fam == 3 {
			nhl += 8
		}
	}
	v := 2 + 1 + 1 + nhl + 1 + n
	h := 3
	if v > 255 {
		h = 4
	}
	return size + h + v
}

func runC11(c c11Case, st *verifkit.Stats) *verifkit.Failure {
	c11AS2 = c.AS2
	limit := 4096
	if c.ExtMsg {
		limit = 65535
	}
	opt := &bgp.MarshallingOption{ExtendedMessage: c.ExtMsg, Use2ByteAS: c.AS2}
	ropt := &bgp.MarshallingOption{ExtendedMessage: c.ExtMsg, Use2ByteAS: c.AS2} // the receiver's side of the same session
	if c.AddPath {
		opt.AddPath = map[bgp.Family]bgp.BGPAddPathMode{}
		ropt.AddPath = map[bgp.Family]bgp.BGPAddPathMode{}
		for _, f := range c11Families {
			switch c.AddPathDir {
			case 1:
				opt.AddPath[f], ropt.AddPath[f] = bgp.BGP_ADD_PATH_SEND, bgp.BGP_ADD_PATH_RECEIVE
			case 2:
				opt.AddPath[f], ropt.AddPath[f] = bgp.BGP_ADD_PATH_RECEIVE, bgp.BGP_ADD_PATH_SEND
			default:
				opt.AddPath[f], ropt.AddPath[f] = bgp.BGP_ADD_PATH_BOTH, bgp.BGP_ADD_PATH_BOTH
			}
		}
		if c.AddPathDir == 2 {
			// nothing of ADD-PATH applies to what this speaker sends
			c.AddPath = false
		}
	}
	src := &PeerInfo{AS: 65001, LocalAS: 65000, ID: netip.MustParseAddr("10.0.0.1"), Address: netip.MustParseAddr("10.0.0.1")}

	// resolve padding sizes per (set, family): PadFit is relative to the single-route limit
	padFor := func(fam int, s c11AttrSet) int {
		if s.PadFit == 0 {
			return s.Pad
		}
		base := c11SingleSize(fam, c11NLRI(fam, 0), c11Final(fam, s, 0), c11NextHops(fam, s), c.AddPath)
		// padding attribute costs 4 (ext header) + pad when pad > 255, 3 + pad otherwise
		fit := s.PadFit
		if fit == 99 {
			fit = 0 // exactly at the limit
		}
		want := limit - fit - base
		pad := want - 4
		if pad <= 255 {
			pad = want - 3
		}
		if pad < 1 {
			pad = 1
		}
		if pad > 65000 {
			pad = 65000
		}
		return pad
	}

	type change struct {
		path     *Path
		key      c11Key
		val      c11Val
		withdraw bool
		oversize bool
	}
	var pathList []*Path
	var changes []change
	eorFamilies := map[bgp.Family]bool{}
	nearLimit, repeated := false, false
	seenKey := map[c11Key]bool{}
	mk := func(fam int, nlri bgp.NLRI, id int, withdraw bool, s c11AttrSet) {
		f := c11Families[fam]
		pad := padFor(fam, s)
		attrs := c11Final(fam, s, pad)
		nhs := c11NextHops(fam, s)
		pathAttrs := attrs
		if fam != 0 {
			reach, _ := bgp.NewPathAttributeMpReachNLRI(f, []bgp.PathNLRI{{NLRI: nlri}}, nhs...)
			pathAttrs = append([]bgp.PathAttributeInterface{}, attrs...)
			pathAttrs = append(pathAttrs, reach)
		}
		if !c.AddPath {
			id = 1
		}
		rid := uint32(id)
		if c.RemoteIDs {
			rid = uint32(0x7000 + 3*id)
		}
		p := NewPath(f, src, bgp.PathNLRI{NLRI: nlri, ID: rid}, withdraw, pathAttrs, time.Unix(1, 0), false)
		p.localID = uint32(id)
		if s.SameKey {
			p.SetHash(0x5eed)
		}
		k := c11Key{fam: f, prefix: nlri.String()}
		if c.AddPath {
			k.id = uint32(id)
		}
		nhKey := ""
		for _, a := range nhs {
			nhKey += a.String() + ","
		}
		size := c11SingleSize(fam, nlri, attrs, nhs, c.AddPath)
		ch := change{path: p, key: k, val: c11Val{attrs: string(c11AttrBytes(attrs)), nh: nhKey}, withdraw: withdraw, oversize: !withdraw && size > limit}
		if !withdraw && size > limit-64 {
			nearLimit = true
		}
		if seenKey[k] {
			repeated = true
		}
		seenKey[k] = true
		changes = append(changes, ch)
		pathList = append(pathList, p)
	}
	for _, ch := range c.Changes {
		if ch.EOR {
			f := c11Families[ch.Fam]
			eorFamilies[f] = true
			pathList = append(pathList, NewEOR(f))
			continue
		}
		mk(ch.Fam, c11NLRI(ch.Fam, ch.Prefix), ch.ID, ch.Withdraw, c.Sets[ch.Set%len(c.Sets)])
	}
	bulkSeen := map[string]bool{}
	for i := 0; i < c.Bulk; i++ {
		n := c11BulkNLRI(c.BulkFam, i, c.BulkLen)
		if bulkSeen[n.String()] {
			continue
		}
		bulkSeen[n.String()] = true
		mk(c.BulkFam, n, 1, false, c.Sets[0])
	}

	// expected receiver state: apply the changes one at a time
	want := map[c11Key]c11Val{}
	oversizeKeys := map[c11Key]bool{}
	for _, ch := range changes {
		delete(oversizeKeys, ch.key)
		if ch.withdraw {
			delete(want, ch.key)
		} else if ch.oversize {
			// cannot be told to the peer: skipped (the previous state of the key is out of scope: starts empty)
			delete(want, ch.key)
			oversizeKeys[ch.key] = true
		} else {
			want[ch.key] = ch.val
		}
	}

	msgs := CreateUpdateMsgFromPaths(pathList, opt)

	got := map[c11Key]c11Val{}
	gotEOR := map[bgp.Family]int{}
	skipped := 0
	for mi, m := range msgs {
		m.Header.Len = 0
		if u, ok := m.Body.(*bgp.BGPUpdate); ok && c.AS2 {
			// what the sending goroutine does for such a peer
			UpdatePathAttrs2ByteAs(u)
			UpdatePathAggregator2ByteAs(u)
		}
		wire, err := m.Serialize(opt)
		if err != nil {
			// allowed only if every route of the message is one that cannot fit
			u := m.Body.(*bgp.BGPUpdate)
			var keys []c11Key
			for _, n := range u.NLRI {
				keys = append(keys, c11Key{fam: bgp.RF_IPv4_UC, prefix: n.NLRI.String(), id: c11ID(c.AddPath, n.ID)})
			}
			for _, a := range u.PathAttributes {
				if r, ok := a.(*bgp.PathAttributeMpReachNLRI); ok {
					for _, n := range r.Value {
						keys = append(keys, c11Key{fam: bgp.NewFamily(r.AFI, r.SAFI), prefix: n.NLRI.String(), id: c11ID(c.AddPath, n.ID)})
					}
				}
			}
			for _, k := range keys {
				if !oversizeKeys[k] {
					return verifkit.Failf("fitting-route-dropped", "message %d cannot be serialised (%v) although it carries route %v whose single-route encoding fits the %d-octet limit", mi, err, k, limit)
				}
			}
			if len(keys) == 0 {
				return verifkit.Failf("unserialisable-message", "message %d does not serialise: %v", mi, err)
			}
			skipped++
			continue
		}
		if len(wire) > limit {
			return verifkit.Failf("oversize-message", "message %d is %d octets, session maximum %d", mi, len(wire), limit)
		}
		pm, err := bgp.ParseBGPMessage(wire, ropt)
		if err != nil {
			return verifkit.Failf("unparsable-message", "message %d does not parse back under the session options: %v\n%x", mi, err, wire)
		}
		u := pm.Body.(*bgp.BGPUpdate)
		if eor, f := u.IsEndOfRib(); eor {
			gotEOR[f]++
			continue
		}
		if c.AS2 {
			// the receiver is a NEW speaker behind an OLD session: it reconstructs
			UpdatePathAttrs4ByteAs(c14Logger, u)
			if err := UpdatePathAggregator4ByteAs(u); err != nil {
				return verifkit.Failf("unparsable-message", "message %d: reconstruction on the receiving side fails: %v", mi, err)
			}
		}
		attrBytes := string(c11AttrBytes(u.PathAttributes))
		for _, n := range u.WithdrawnRoutes {
			delete(got, c11Key{fam: bgp.RF_IPv4_UC, prefix: n.NLRI.String(), id: c11ID(c.AddPath, n.ID)})
		}
		for _, a := range u.PathAttributes {
			switch v := a.(type) {
			case *bgp.PathAttributeMpUnreachNLRI:
				for _, n := range v.Value {
					delete(got, c11Key{fam: bgp.NewFamily(v.AFI, v.SAFI), prefix: n.NLRI.String(), id: c11ID(c.AddPath, n.ID)})
				}
			case *bgp.PathAttributeMpReachNLRI:
				nh := v.Nexthop.String() + ","
				if v.LinkLocalNexthop.IsValid() {
					nh += v.LinkLocalNexthop.String() + ","
				}
				for _, n := range v.Value {
					got[c11Key{fam: bgp.NewFamily(v.AFI, v.SAFI), prefix: n.NLRI.String(), id: c11ID(c.AddPath, n.ID)}] = c11Val{attrs: attrBytes, nh: nh}
				}
			}
		}
		if len(u.NLRI) > 0 {
			nh := ""
			for _, a := range u.PathAttributes {
				if v, ok := a.(*bgp.PathAttributeNextHop); ok {
					nh = v.Value.String() + ","
				}
			}
			for _, n := range u.NLRI {
				got[c11Key{fam: bgp.RF_IPv4_UC, prefix: n.NLRI.String(), id: c11ID(c.AddPath, n.ID)}] = c11Val{attrs: attrBytes, nh: nh}
			}
		}
	}
	// compare receiver states
	var keys []c11Key
	for k := range want {
		keys = append(keys, k)
	}
	for k := range got {
		if _, ok := want[k]; !ok {
			keys = append(keys, k)
		}
	}
	sort.Slice(keys, func(i, j int) bool {
		return fmt.Sprint(keys[i]) < fmt.Sprint(keys[j])
	})
	for _, k := range keys {
		w, wok := want[k]
		g, gok := got[k]
		switch {
		case wok && !gok:
			return verifkit.Failf("route-lost", "route %v is missing from the receiver's view after %d messages (limit %d, add-path %v)", k, len(msgs), limit, c.AddPath)
		case !wok && gok:
			sig := "route-resurrected"
			if oversizeKeys[k] {
				sig = "oversize-route-sent"
			}
			return verifkit.Failf(sig, "route %v is in the receiver's view but should not be (withdrawn last, or too large to send)", k)
		case w.nh != g.nh:
			return verifkit.Failf("wrong-nexthop", "route %v arrives with next hop(s) %s, its own are %s", k, g.nh, w.nh)
		case w.attrs != g.attrs:
			return verifkit.Failf("wrong-attributes", "route %v arrives with another route's attributes (%d vs %d octets)", k, len(g.attrs), len(w.attrs))
		}
	}
	for f := range eorFamilies {
		if gotEOR[f] == 0 {
			return verifkit.Failf("eor-lost", "End-of-RIB for %s was dropped", f)
		}
	}
	for f, n := range gotEOR {
		if !eorFamilies[f] {
			return verifkit.Failf("eor-invented", "%d End-of-RIB marker(s) for %s although none was queued", n, f)
		}
	}
	if len(msgs) >= 2 || repeated || nearLimit {
		st.Nontrivial()
	}
	if nearLimit {
		st.Label("near-limit-attrs")
	}
	if len(oversizeKeys) > 0 {
		st.Label("has-oversize-route")
	}
	if skipped > 0 {
		st.Label("oversize-message-reported-by-serialize")
	}
	if repeated {
		st.Label("repeated-key")
	}
	if c.Bulk > 0 {
		st.Label("bulk")
	}
	if c.ExtMsg {
		st.Label("ext-msg")
	}
	if c.AS2 {
		st.Label("as2-session")
	}
	for _, x := range c.Sets {
		if x.Arrive != 0 {
			st.Label(fmt.Sprintf("arrive-%d", x.Arrive))
		}
	}
	if opt.AddPath != nil {
		st.Label(fmt.Sprintf("add-path-dir-%d", c.AddPathDir))
	}
	return nil
}

func c11ID(addpath bool, id uint32) uint32 {
	if addpath {
		return id
	}
	return 0
}

func TestVerifC11(t *testing.T) {
	verifkit.Run(t, "C11", drawC11, runC11)
}
