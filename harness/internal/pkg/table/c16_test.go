package table

// C16 (a) — RPKI origin validation implements RFC 6811.
// Oracle: brute force over the ROA list with prefix arithmetic (netip), written
// from RFC 6811 section 2; compared with ROATable.Validate and with the policy
// condition on the validation state.

import (
	"fmt"
	"net/netip"
	"testing"
	"time"

	"github.com/osrg/gobgp/v4/internal/pkg/verifkit"
	"github.com/osrg/gobgp/v4/pkg/config/oc"
	"github.com/osrg/gobgp/v4/pkg/packet/bgp"
	"pgregory.net/rapid"
)

type c16ROA struct {
	V6     bool   `json:"v6"`
	Addr   uint32 `json:"addr"` // top bits of the address (small space so prefixes nest)
	Len    int    `json:"len"`
	MaxLen int    `json:"maxlen"`
	AS     uint32 `json:"as"`
	Src    int    `json:"src"`
}

type c16Route struct {
	V6    bool     `json:"v6"`
	Addr  uint32   `json:"addr"`
	Len   int      `json:"len"`
	Path  []c03Seg `json:"path"`
	Local bool     `json:"local"` // locally originated / API-injected route: the source has no local AS (0)
}

type c16Case struct {
	ROAs    []c16ROA   `json:"roas"`
	Routes  []c16Route `json:"routes"`
	Deletes []int      `json:"deletes"` // indexes of ROAs deleted again before validating (tests bucket maintenance)
}

const c16LocalAS = 65000

func c16Prefix(v6 bool, addr uint32, l int) netip.Prefix {
	if v6 {
		var a [16]byte
		a[0], a[1] = 0x20, 0x01
		a[2], a[3], a[4], a[5] = byte(addr>>24), byte(addr>>16), byte(addr>>8), byte(addr)
		p, _ := netip.AddrFrom16(a).Prefix(l)
		return p
	}
	p, _ := netip.AddrFrom4([4]byte{byte(addr >> 24), byte(addr >> 16), byte(addr >> 8), byte(addr)}).Prefix(l)
	return p
}

func drawC16(t *rapid.T) c16Case {
	var c c16Case
	addr := func(l string) uint32 {
		// few distinct high-order patterns so that prefixes cover each other
		return rapid.SampledFrom([]uint32{0x0a000000, 0x0a010000, 0x0a010100, 0x0a010180, 0x0a020000, 0xc0000200, 0x0a0101ff}).Draw(t, l)
	}
	nr := rapid.IntRange(0, 12).Draw(t, "nroas")
	for i := 0; i < nr; i++ {
		l := fmt.Sprintf("r%d", i)
		v6 := rapid.IntRange(0, 3).Draw(t, l+"v6") == 0
		r := c16ROA{V6: v6, Addr: addr(l + "a"), AS: rapid.SampledFrom([]uint32{0, 100, 100, 200, 65000, 4200000000}).Draw(t, l+"as"), Src: rapid.IntRange(0, 2).Draw(t, l+"src")}
		if v6 {
			r.Len = rapid.SampledFrom([]int{16, 32, 40, 48, 48, 64}).Draw(t, l+"len")
			r.MaxLen = r.Len + rapid.SampledFrom([]int{0, 0, 8, 16, 64}).Draw(t, l+"ml")
			if r.MaxLen > 128 {
				r.MaxLen = 128
			}
		} else {
			r.Len = rapid.SampledFrom([]int{8, 16, 16, 24, 24, 25, 32}).Draw(t, l+"len")
			r.MaxLen = r.Len + rapid.SampledFrom([]int{0, 0, 1, 8, 16}).Draw(t, l+"ml")
			if r.MaxLen > 32 {
				r.MaxLen = 32
			}
		}
		c.ROAs = append(c.ROAs, r)
	}
	nd := rapid.IntRange(0, 3).Draw(t, "ndel")
	for i := 0; i < nd && nr > 0; i++ {
		c.Deletes = append(c.Deletes, rapid.IntRange(0, nr-1).Draw(t, fmt.Sprintf("del%d", i)))
	}
	nroutes := rapid.IntRange(1, 8).Draw(t, "nroutes")
	for i := 0; i < nroutes; i++ {
		l := fmt.Sprintf("p%d", i)
		v6 := rapid.IntRange(0, 3).Draw(t, l+"v6") == 0
		rt := c16Route{V6: v6, Addr: addr(l + "a")}
		if v6 {
			rt.Len = rapid.SampledFrom([]int{16, 32, 40, 48, 56, 64, 65, 128}).Draw(t, l+"len")
		} else {
			rt.Len = rapid.SampledFrom([]int{8, 15, 16, 17, 24, 25, 26, 32}).Draw(t, l+"len")
		}
		// AS_PATH shapes: empty, SEQ..., ending in SET, confed only, SEQ then confed
		switch rapid.IntRange(0, 7).Draw(t, l+"shape") {
		case 0:
		case 1:
			rt.Path = []c03Seg{{T: 3, AS: []uint32{65010}}}
		case 2:
			rt.Path = []c03Seg{{T: 2, AS: []uint32{300, rapid.SampledFrom([]uint32{100, 200, 0}).Draw(t, l+"o")}}, {T: 1, AS: []uint32{100, 200}}}
		case 3:
			rt.Path = []c03Seg{{T: 3, AS: []uint32{65010}}, {T: 2, AS: []uint32{300, rapid.SampledFrom([]uint32{100, 200, 4200000000}).Draw(t, l+"o")}}}
		case 4:
			rt.Path = []c03Seg{{T: 2, AS: []uint32{100}}, {T: 4, AS: []uint32{65010, 65011}}}
		default:
			rt.Path = []c03Seg{{T: 2, AS: []uint32{300, 400, rapid.SampledFrom([]uint32{100, 100, 200, 65000, 4200000000, 7, 0}).Draw(t, l+"o")}}}
		}
		rt.Local = rapid.IntRange(0, 4).Draw(t, l+"local") == 0
		c.Routes = append(c.Routes, rt)
	}
	return c
}

// reference: RFC 6811 section 2
func c16Reference(roas []c16ROA, alive []bool, rt c16Route) (oc.RpkiValidationResultType, int, int) {
	n := len(rt.Path)
	own := uint32(c16LocalAS)
	if rt.Local {
		own = 0
	}
	var origin uint32
	switch {
	case n == 0:
		origin = own
	default:
		last := rt.Path[n-1]
		switch last.T {
		case 2:
			origin = last.AS[len(last.AS)-1]
		case 3, 4:
			origin = own
		default: // AS_SET: origin cannot be determined
			return oc.RPKI_VALIDATION_RESULT_TYPE_NOT_FOUND, 0, 0
		}
	}
	p := c16Prefix(rt.V6, rt.Addr, rt.Len)
	covering, matching := 0, 0
	seen := map[string]bool{}
	for i, r := range roas {
		if !alive[i] || r.V6 != rt.V6 {
			continue
		}
		rp := c16Prefix(r.V6, r.Addr, r.Len)
		if rp.Bits() > p.Bits() || !rp.Contains(p.Addr()) {
			continue
		}
		k := fmt.Sprintf("%s/%d/%d/%d", rp, r.MaxLen, r.AS, r.Src)
		if seen[k] {
			continue
		}
		seen[k] = true
		covering++
		if r.AS != 0 && r.AS == origin && p.Bits() <= r.MaxLen {
			matching++
		}
	}
	switch {
	case matching > 0:
		return oc.RPKI_VALIDATION_RESULT_TYPE_VALID, covering, matching
	case covering > 0:
		return oc.RPKI_VALIDATION_RESULT_TYPE_INVALID, covering, matching
	}
	return oc.RPKI_VALIDATION_RESULT_TYPE_NOT_FOUND, covering, matching
}

func c16MkROA(r c16ROA) *ROA {
	p := c16Prefix(r.V6, r.Addr, r.Len)
	fam := bgp.AFI_IP
	if r.V6 {
		fam = bgp.AFI_IP6
	}
	return NewROA(int(fam), p.Addr().AsSlice(), uint8(r.Len), uint8(r.MaxLen), r.AS, fmt.Sprintf("192.0.2.%d:323", r.Src+1))
}

func runC16(c c16Case, st *verifkit.Stats) *verifkit.Failure {
	rt := NewROATable(c03Logger)
	alive := make([]bool, len(c.ROAs))
	for i, r := range c.ROAs {
		rt.Add(c16MkROA(r))
		alive[i] = true
	}
	for _, d := range c.Deletes {
		// deleting removes every record equal to it (same prefix, max-length, AS, source)
		rt.Delete(c16MkROA(c.ROAs[d]))
		key := func(r c16ROA) string {
			return fmt.Sprintf("%s/%d/%d/%d", c16Prefix(r.V6, r.Addr, r.Len), r.MaxLen, r.AS, r.Src)
		}
		for i, r := range c.ROAs {
			if key(r) == key(c.ROAs[d]) {
				alive[i] = false
			}
		}
	}
	src := &PeerInfo{AS: 300, LocalAS: c16LocalAS, ID: netip.MustParseAddr("10.0.0.1"), Address: netip.MustParseAddr("10.0.0.1")}
	for i, r := range c.Routes {
		p := c16Prefix(r.V6, r.Addr, r.Len)
		nlri, _ := bgp.NewIPAddrPrefix(p)
		fam := bgp.RF_IPv4_UC
		if r.V6 {
			fam = bgp.RF_IPv6_UC
		}
		var params []bgp.AsPathParamInterface
		for _, s := range r.Path {
			params = append(params, bgp.NewAs4PathParam(s.T, append([]uint32(nil), s.AS...)))
		}
		attrs := []bgp.PathAttributeInterface{bgp.NewPathAttributeOrigin(0), bgp.NewPathAttributeAsPath(params)}
		psrc := src
		if r.Local {
			psrc = &PeerInfo{AS: c16LocalAS, LocalID: netip.MustParseAddr("192.0.2.254")}
		}
		path := NewPath(fam, psrc, bgp.PathNLRI{NLRI: nlri}, false, attrs, time.Unix(1, 0), false)
		v := rt.Validate(path)
		want, covering, matching := c16Reference(c.ROAs, alive, r)
		st.SubEval(1)
		if v == nil {
			return verifkit.Failf("nil-validation", "route #%d %s: Validate returned nil", i, p)
		}
		if v.Status != want {
			return verifkit.Failf("wrong-state", "route #%d %s AS_PATH %v: Validate says %s, RFC 6811 says %s (%d covering ROAs, %d matching)\n ROAs: %s", i, p, r.Path, v.Status, want, covering, matching, verifkit.JSON(c.ROAs))
		}
		if len(v.Matched) != matching {
			return verifkit.Failf("matched-count", "route #%d %s: %d matched ROAs reported, %d match", i, p, len(v.Matched), matching)
		}
		if got := len(v.Matched) + len(v.UnmatchedAs) + len(v.UnmatchedLength); got != covering {
			return verifkit.Failf("covering-count", "route #%d %s: %d covering ROAs reported, %d cover it", i, p, got, covering)
		}
		// the policy condition sees the same verdict
		for _, state := range []oc.RpkiValidationResultType{oc.RPKI_VALIDATION_RESULT_TYPE_VALID, oc.RPKI_VALIDATION_RESULT_TYPE_INVALID, oc.RPKI_VALIDATION_RESULT_TYPE_NOT_FOUND} {
			cond, err := NewRpkiValidationCondition(state)
			if err != nil || cond == nil {
				return verifkit.Failf("condition", "NewRpkiValidationCondition(%s): %v", state, err)
			}
			if got := cond.Evaluate(path, &PolicyOptions{Validate: rt.Validate}); got != (state == want) {
				return verifkit.Failf("policy-verdict", "route #%d %s: rpki condition %s evaluates %v, reference state is %s", i, p, state, got, want)
			}
		}
		if covering >= 2 && matching < covering {
			st.Nontrivial()
		}
		st.Label("state-" + string(want))
	}
	return nil
}

func TestVerifC16(t *testing.T) {
	verifkit.Run(t, "C16", drawC16, runC16)
}
