//go:build verif

package table

// c02SetKeyMask forces destination hash keys into few values (hook verif_hooks_on.go).
func c02SetKeyMask(m uint64) bool { verifTableKeyMask.Store(m); return true }
